(* Search for the failing input of C20: evaluated on every run, independent of the proofs. *)
From Coq Require Import List ZArith String.
From Cose Require Import Lib.GenTypes Gen.IanaGen Spec.IanaSnapshot Model.IanaCheck.
Import ListNotations.
Definition same_block_collisions (g : list gen_entry) : list (gen_entry * gen_entry) :=
  flat_map (fun e1 => map (fun e2 => (e1, e2))
     (filter (fun e2 => negb (String.eqb (fst e1) (fst e2)) && String.eqb (fst (snd e1)) (fst (snd e2))
                        && cval_eqb (snd (snd e1)) (snd (snd e2)))%bool g)) g.
Definition BAD := Eval vm_compute in map (fun e => (e, assigned snapshot (fst e))) (bad_values consts snapshot).
Definition COLL := Eval vm_compute in collisions consts snapshot.
Definition BLOCKCOLL := Eval vm_compute in same_block_collisions consts.
Definition COUNT := Eval vm_compute in List.length consts.
Definition SAMPLE := Eval vm_compute in map (fun e => (e, assigned snapshot (fst e))) (firstn 3 consts).
Definition TAGVAR := Eval vm_compute in tag_variants.
Definition ALL := Eval vm_compute in map (fun e => (e, registry_of snapshot (fst e))) consts.
Print BAD. Print COLL. Print BLOCKCOLL. Print COUNT. Print SAMPLE. Print TAGVAR. Print ALL.
