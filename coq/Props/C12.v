(* C12 — AES-GCM, AES-CCM and ChaCha20/Poly1305 match reference AEADs exactly.
   Only statements, `exact`, and Print Assumptions live in this file.
   AES-CCM is implemented in the repository (key/aesccm/ccm.go): its statement-by-statement model CcmGo is proved
   equal to RFC 3610 for an ARBITRARY 16-byte block function. AES-GCM and ChaCha20/Poly1305 are Go's / x/crypto's:
   they are modelled by Gallina references (SP 800-38D, RFC 8439) validated on published vectors and compared with
   the implementation by the aead correspondence. *)
From Coq Require Import String.
From Coq Require Import ZArith NArith List Bool Arith.
From Cose Require Import Lib.Base Lib.Aes Lib.CbcMac Lib.Gcm Lib.ChaChaPoly Spec.RFC3610 Model.CcmGo Model.CcmProofs Model.Aead Model.AeadProofs.
Import ListNotations.
Open Scope nat_scope.

Theorem C12_ccm_go_is_rfc3610 : forall E, (forall b, length (E b) = 16) -> forall M L, params_ok M L ->
  forall nonce m a, length nonce = 15 - L -> (N.of_nat (length m) <= max_length M L)%N ->
  go_seal E M L nonce m a = Ok (RFC3610.seal E M L nonce m a).
Proof. exact ccm_go_is_rfc3610. Qed.
Print Assumptions C12_ccm_go_is_rfc3610.

(* for the eight registered AES-CCM algorithms: every key, nonce of the prescribed length, additional data (all three
   length encodings) and plaintext within the limit *)
Theorem C12_ccm_encrypt_is_reference : forall alg key iv pt aad, is_ccm alg = true ->
  length iv = ccm_nonce alg -> (N.of_nat (length pt) <= max_length (ccm_M alg) (ccm_L alg))%N ->
  aead_encrypt alg key iv pt aad = Ok (RFC3610.seal (aes_keyed key) (ccm_M alg) (ccm_L alg) iv pt aad).
Proof. exact ccm_encrypt_is_reference. Qed.
Print Assumptions C12_ccm_encrypt_is_reference.

Theorem C12_ccm_decrypt_is_reference : forall alg key iv ct aad, is_ccm alg = true ->
  length iv = ccm_nonce alg -> (N.of_nat (length ct) <= max_length (ccm_M alg) (ccm_L alg) + N.of_nat (ccm_M alg))%N ->
  aead_decrypt alg key iv ct aad = of_opt (RFC3610.open (aes_keyed key) (ccm_M alg) (ccm_L alg) iv ct aad).
Proof. exact ccm_decrypt_is_reference. Qed.
Print Assumptions C12_ccm_decrypt_is_reference.

(* ciphertext is exactly plaintext length plus tag length; decrypting it returns the plaintext; and decryption
   succeeds on nothing but the output of encryption (any change to ciphertext makes it fail; nonce, additional data
   and key enter through the tag and keystream, which is the usual AEAD assumption for independent values) *)
Theorem C12_ccm_len : forall E, (forall b, length (E b) = 16) -> forall M L, M <= 16 -> forall nonce m a,
  length (RFC3610.seal E M L nonce m a) = length m + M.
Proof. exact seal_length. Qed.
Print Assumptions C12_ccm_len.
Theorem C12_ccm_open_seal : forall E, (forall b, length (E b) = 16) -> forall M L, M <= 16 -> forall nonce m a,
  RFC3610.open E M L nonce (RFC3610.seal E M L nonce m a) a = Some m.
Proof. exact open_seal. Qed.
Print Assumptions C12_ccm_open_seal.
Theorem C12_ccm_open_exact : forall E, (forall b, length (E b) = 16) -> forall M L, M <= 16 -> forall nonce c a m,
  RFC3610.open E M L nonce c a = Some m <-> c = RFC3610.seal E M L nonce m a.
Proof. exact open_exact. Qed.
Print Assumptions C12_ccm_open_exact.

(* plaintexts beyond the limit and nonces of any other length are refused with an error (never a panic) *)
Theorem C12_ccm_limit : forall alg key iv pt aad, is_ccm alg = true ->
  (max_length (ccm_M alg) (ccm_L alg) < N.of_nat (length pt))%N -> aead_encrypt alg key iv pt aad = Err.
Proof. exact ccm_limit_refused. Qed.
Print Assumptions C12_ccm_limit.
Theorem C12_ccm_limits_are_rfc : max_length 8 2 = 65535%N /\ max_length 16 2 = 65535%N /\ max_length 8 8 = 9223372036854775799%N /\ max_length 16 8 = 9223372036854775791%N.
Proof. exact ccm_limits. Qed.
Print Assumptions C12_ccm_limits_are_rfc.
Theorem C12_nonce_len_refused : forall alg key iv x aad, (is_gcm alg = true \/ is_ccm alg = true \/ alg = 24%Z) ->
  length iv <> (if is_gcm alg then gcm_nonce else if is_ccm alg then ccm_nonce alg else chacha_nonce) ->
  aead_encrypt alg key iv x aad = Err /\ aead_decrypt alg key iv x aad = Err.
Proof. exact nonce_len_refused. Qed.
Print Assumptions C12_nonce_len_refused.
Theorem C12_ccm_encrypt_never_panics : forall E, (forall b, length (E b) = 16) -> forall M L, params_ok M L ->
  forall nonce m a, CcmGo.encrypt E M L nonce m a <> Panic.
Proof. exact ccm_encrypt_never_panics. Qed.
Print Assumptions C12_ccm_encrypt_never_panics.

(* registered parameters of the eight CCM algorithms *)
Theorem C12_ccm_params : forall alg, is_ccm alg = true ->
  params_ok (ccm_M alg) (ccm_L alg) /\ ccm_nonce alg = 15 - ccm_L alg /\ (ccm_M alg = 8 \/ ccm_M alg = 16) /\ (ccm_L alg = 2 \/ ccm_L alg = 8).
Proof. exact ccm_params. Qed.
Print Assumptions C12_ccm_params.

(* the GCM reference: round trip and length, for any block function *)
Theorem C12_gcm_reference_open_seal : forall E, (forall b, length (E b) = 16) -> forall nonce p a,
  gcm_open E nonce (gcm_seal E nonce p a) a = Some p /\ length (gcm_seal E nonce p a) = length p + 16.
Proof. exact (fun E H n p a => conj (gcm_open_seal E H n p a) (gcm_seal_length E H n p a)). Qed.
Print Assumptions C12_gcm_reference_open_seal.
