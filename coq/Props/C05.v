(* C05 — the protected algorithm identifier binds the key that may be used.
   Only statements, `exact`, and Print Assumptions live in this file.
   alg_gate is the check every producing (WithSign / Compute / Encrypt, through prepare_protected) and
   consuming (Verify / Decrypt, through consume_gate) entry point of the five single-key kinds performs, and
   the per-signature check of COSE_Sign verification (sign_verify_gates); the primitive's own answer is
   never consulted before it, so the theorems hold for any primitive, even one that accepts everything. *)
From Coq Require Import String.
From Coq Require Import ZArith List Bool.
From Cose Require Import Lib.Base Lib.GenTypes Model.GoVal Model.Key Model.MsgLogic Model.MsgLogicProofs Lib.GoSem Model.HdrSem Gen.SlicesGen Model.SlicesProofs Model.Wire Model.Msg Model.MsgObj Model.MsgObjProofs Model.MsgObjExample Gen.LookupGen Model.LookupProofs.
Import ListNotations.
Open Scope Z_scope.

Theorem C05_alg_mismatch_refused : forall prot kd a kalg,
  header_alg prot = Some (VInt kd a) -> in_kind kd a = true -> kalg <> 0 -> a <> kalg -> alg_gate prot kalg = false.
Proof. exact alg_mismatch_refused. Qed.
Print Assumptions C05_alg_mismatch_refused.

Theorem C05_non_integer_alg_refused : forall prot v kalg,
  header_alg prot = Some v -> (forall kd a, v <> VInt kd a) -> kalg <> 0 -> alg_gate prot kalg = false.
Proof. exact non_int_alg_refused. Qed.
Print Assumptions C05_non_integer_alg_refused.

Theorem C05_alg_match_passes : forall prot kd a,
  header_alg prot = Some (VInt kd a) -> MinInt32 <= a <= MaxInt32 -> alg_gate prot a = true.
Proof. exact alg_match_passes. Qed.
Print Assumptions C05_alg_match_passes.

Theorem C05_produce_refuses_mismatch : forall p k kd a,
  header_alg p = Some (VInt kd a) -> in_kind kd a = true -> key_alg k <> 0 -> a <> key_alg k ->
  prepare_protected (Some p) k = Err.
Proof. exact prepare_refuses_mismatch. Qed.
Print Assumptions C05_produce_refuses_mismatch.

(* the side condition `key algorithm <> 0` is met by every key a factory accepts *)
Theorem C05_checked_symmetric_key_has_alg : forall f k, check_key_sym f k = true -> key_alg k <> 0.
Proof. exact checked_sym_key_has_alg. Qed.
Print Assumptions C05_checked_symmetric_key_has_alg.
Theorem C05_checked_ecdsa_key_has_alg : forall k, check_key_ecdsa k = true -> key_alg k <> 0.
Proof. exact checked_ecdsa_key_has_alg. Qed.
Print Assumptions C05_checked_ecdsa_key_has_alg.
Theorem C05_checked_ed25519_key_has_alg : forall k, check_key_ed k = true -> key_alg k <> 0.
Proof. exact checked_ed_key_has_alg. Qed.
Print Assumptions C05_checked_ed25519_key_has_alg.

(* headers left unset: the key's algorithm goes into the protected header, its id into the unprotected one *)
Theorem C05_default_protected : forall k, key_alg k <> 0 ->
  prepare_protected None k = Ok [(ilabel 1, VInt KInt (key_alg k))].
Proof. exact default_protected. Qed.
Print Assumptions C05_default_protected.
Theorem C05_default_unprotected : forall k, kid k <> [] ->
  prepare_unprotected None k = [(ilabel 4, VBytes (kid k))].
Proof. exact default_unprotected. Qed.
Print Assumptions C05_default_unprotected.
Theorem C05_default_passes_own_gate : forall k, MinInt32 <= key_alg k <= MaxInt32 ->
  match prepare_protected None k with Ok p => consume_gate p k = true | _ => False end.
Proof. exact default_protected_passes_gate. Qed.
Print Assumptions C05_default_passes_own_gate.

(* COSE_Sign: each signature's own protected bucket is checked against the verifier found by its kid *)
Theorem C05_sign_verify_mismatch_refused : forall sigs vs sp su vk kd a,
  In (sp, su) sigs -> lookup_kid vs (get_bytes_ su 4) = Some vk ->
  header_alg sp = Some (VInt kd a) -> in_kind kd a = true -> key_alg vk <> 0 -> a <> key_alg vk ->
  sign_verify_gates sigs vs = false.
Proof. exact sign_verify_mismatch_refused. Qed.
Print Assumptions C05_sign_verify_mismatch_refused.

(* ---- the source itself: the gate statement of Verify / Decrypt and the header preparation of WithSign / Compute /
   Encrypt are regenerated from the ten methods on every run (translator T12, Gen/SlicesGen.v: the only place a method
   may consult an algorithm, checked by the translator) and are the model's functions, for every header bucket (nil
   included), key algorithm and key id; the five message kinds share one and the same term *)
Theorem C05_gate_source_is_model : forall mp mu kalg kkid kkey nsize draw,
  cose_Sign1Message_Verify_gate mp mu kalg kkid kkey nsize draw = if alg_gate (hmap mp) kalg then Ok tt else Err.
Proof. exact gen_gate_sign1. Qed.
Print Assumptions C05_gate_source_is_model.

Theorem C05_gate_source_same_in_every_kind :
  cose_Mac0Message_Verify_gate = cose_Sign1Message_Verify_gate /\ cose_MacMessage_Verify_gate = cose_Sign1Message_Verify_gate
  /\ cose_Encrypt0Message_Decrypt_gate = cose_Sign1Message_Verify_gate /\ cose_EncryptMessage_Decrypt_gate = cose_Sign1Message_Verify_gate.
Proof. exact gen_gates_alike. Qed.
Print Assumptions C05_gate_source_same_in_every_kind.

Theorem C05_prepare_source_is_model : forall mp mu k kkey nsize draw,
  cose_Sign1Message_WithSign_prepare mp mu (key_alg k) (kid k) kkey nsize draw = prepared mp mu k.
Proof. exact gen_prepare_sign1. Qed.
Print Assumptions C05_prepare_source_is_model.

Theorem C05_prepare_source_same_in_every_kind :
  cose_Mac0Message_Compute_prepare = cose_Sign1Message_WithSign_prepare /\ cose_MacMessage_Compute_prepare = cose_Sign1Message_WithSign_prepare
  /\ cose_Encrypt0Message_Encrypt_prepare = cose_Sign1Message_WithSign_prepare /\ cose_EncryptMessage_Encrypt_prepare = cose_Sign1Message_WithSign_prepare.
Proof. exact gen_prepares_alike. Qed.
Print Assumptions C05_prepare_source_same_in_every_kind.

(* ---- over histories of one message object (Model/MsgObj.v, tied to the implementation by the stream objhist): however
   the object was used before (decoded, produced with other keys, its exported header maps and payload edited in place,
   verified, refused), the message MarshalCBOR emits after a produce call names, in its protected bucket, an algorithm
   that passes the gate of the key of that call; only a successful UnmarshalCBOR or produce call ever changes the
   protected bytes, payload and signature / tag / ciphertext the object emits *)
Theorem C05_history_marshal_names_key_alg : forall k ops key b,
  single k = true -> Forall (op_wf k) ops -> origin_after k fresh FromNothing ops = FromProduce key -> marshal_out k (final k fresh ops) = RBytes b ->
  exists m pb w, marshal_of k w (o_recips (final k fresh ops)) = Some b /\ w_prot w = Some pb /\ headers_bytes m = Some pb /\ alg_gate m (key_alg key) = true.
Proof. exact history_marshal_names_key_alg. Qed.
Print Assumptions C05_history_marshal_names_key_alg.

Theorem C05_history_origin : forall k ops, single k = true -> Forall (op_wf k) ops ->
  origin_ok k (final k fresh ops) (origin_after k fresh FromNothing ops).
Proof. exact history_origin_fresh. Qed.
Print Assumptions C05_history_origin.

Theorem C05_only_decode_and_produce_change_the_authenticated_part : forall k o e, single k = true ->
  installs e (snd (step k o e)) = false -> oauthd (fst (step k o e)) = oauthd o.
Proof. exact frame_single. Qed.
Print Assumptions C05_only_decode_and_produce_change_the_authenticated_part.

Theorem C05_history_example : single KMac0 = true /\ Forall (op_wf KMac0) ex_ops
  /\ origin_after KMac0 fresh FromNothing ex_ops = FromProduce (MsgWireCorr.fk_map ex_key)
  /\ exists b, marshal_out KMac0 (final KMac0 fresh ex_ops) = RBytes b.
Proof. exact ex_history_is_covered. Qed.
Print Assumptions C05_history_example.

(* ---- the source of COSE_Sign verification (SignMessage.Verify, regenerated statement by statement on every run,
   Gen/LookupGen.v): it accepts only if every signature found a verifier by its own kid and its OWN protected bucket
   passed the algorithm gate of that verifier's key; the body's buckets have no say (an algorithm named in the body of a
   COSE_Sign binds nothing and overrides nothing: only the body protected BYTES and the payload enter, through the
   Sig_structure) *)
Theorem C05_sign_verify_source_gates_every_signature : forall vs ext w sigs,
  cose_SignMessage_Verify vs ext w (Some sigs) = Ok tt -> sigs <> [] /\ Forall (sig_gated vs) sigs.
Proof. exact gen_sign_verify_gates. Qed.
Print Assumptions C05_sign_verify_source_gates_every_signature.

Theorem C05_sign_verify_source_ignores_the_body_buckets : forall vs ext w w' sigs,
  w_prot w = w_prot w' -> w_payload w = w_payload w' ->
  cose_SignMessage_Verify vs ext w sigs = cose_SignMessage_Verify vs ext w' sigs.
Proof. exact gen_sign_verify_body_irrelevant. Qed.
Print Assumptions C05_sign_verify_source_ignores_the_body_buckets.

(* the per-signer buckets COSE_Sign production records are the key's own algorithm and kid (source of the loop of
   SignMessage.WithSign, translator T16) *)
Theorem C05_with_sign_loop_source_records_key_alg : forall ps ext pb payload,
  cose_SignMessage_WithSign_loop ps ext pb payload = sign_entries ps pb ext payload.
Proof. exact gen_with_sign_loop. Qed.
Print Assumptions C05_with_sign_loop_source_records_key_alg.
