(* C15 — Derived public keys leak nothing; all encodings of a key are equivalent.
   Only statements, `exact`, and Print Assumptions live in this file.
   ed_to_public / ecdsa_to_public / ecdsa_signer_ok / ecdsa_point_ok (Model/Key.v) model ToPublicKey, KeyToPrivate /
   NewSigner and keyToPublic / NewVerifier statement by statement around Go's primitives, which enter as the record C
   (seed -> Ed25519 public key, d -> d*G, curve membership, decompression). The keys stream compares the models with
   the implementation on keys in every accepted encoding (fixed-length, zero-stripped, compressed, CBOR round trip,
   mismatching coordinates) and checks on the implementation that generated keys of every type validate, work in each
   derived form, convert to and from Go's key types as mutual inverses, and that verifiers and key sets built from them
   carry no private parameter. *)
From Coq Require Import String.
From Coq Require Import NArith ZArith List Bool.
From Cose Require Import Lib.Base Model.GoVal Model.Key Model.KeyProofs Model.KeyEnc.
Import ListNotations.
Open Scope Z_scope.

(* a derived public key holds kty, crv, kid, alg, key_ops and the recomputed public parameter, and nothing else *)
Theorem C15_ed25519_public_contents : forall C k pk, has k (-4) = true -> ed_to_public C k = Some pk ->
  only_labels [1; -1; 2; 3; 4; -2] pk = true /\ lookup pk (ilabel (-4)) = None
  /\ lookup pk (ilabel (-2)) = Some (VBytes (ed_public C (get_bytes_ k (-4))))
  /\ lookup pk (ilabel 1) = Some (VInt KInt 1) /\ lookup pk (ilabel (-1)) = Some (VInt KInt 6).
Proof. exact ed_public_contents. Qed.
Print Assumptions C15_ed25519_public_contents.

Theorem C15_ecdsa_public_contents : forall C k pk, has k (-4) = true -> ecdsa_to_public C k = Some pk ->
  let c := ecdsa_crv (key_alg k) in let P := ec_base_mul C c (get_bytes_ k (-4)) in
  only_labels [1; -1; 2; 3; 4; -2; -3] pk = true /\ lookup pk (ilabel (-4)) = None
  /\ lookup pk (ilabel (-2)) = Some (VBytes (i2osp (crv_size c) (fst P)))
  /\ lookup pk (ilabel (-3)) = Some (VBytes (i2osp (crv_size c) (snd P))).
Proof. exact ecdsa_public_contents. Qed.
Print Assumptions C15_ecdsa_public_contents.

(* only the public-side operation remains in key_ops *)
Theorem C15_derived_public_ops : forall C k pk, has k (-4) = true -> ecdsa_to_public C k = Some pk ->
  lookup pk (ilabel (-4)) = None /\ (key_ops pk = None \/ key_ops pk = Some [2]) /\ (has k 4 = true -> key_ops pk = Some [2]).
Proof. exact ecdsa_derived_public. Qed.
Print Assumptions C15_derived_public_ops.

(* emitted EC2 coordinates are fixed-length (RFC 9053 section 7.1.1) and denote the computed point *)
Theorem C15_emitted_coordinates_fixed_length : forall C k pk x y, has k (-4) = true -> ecdsa_to_public C k = Some pk ->
  lookup pk (ilabel (-2)) = Some (VBytes x) -> lookup pk (ilabel (-3)) = Some (VBytes y) ->
  length x = crv_size (ecdsa_crv (key_alg k)) /\ length y = crv_size (ecdsa_crv (key_alg k)).
Proof. exact ecdsa_emitted_coordinates_fixed_length. Qed.
Print Assumptions C15_emitted_coordinates_fixed_length.

Theorem C15_emitted_coordinates_denote_the_point : forall n z, 0 <= z < Z.of_N (256 ^ N.of_nat n) -> os2ip (i2osp n z) = z.
Proof. exact emitted_coordinates_denote_the_point. Qed.
Print Assumptions C15_emitted_coordinates_denote_the_point.

(* a private key whose embedded public parameters do not match is refused *)
Theorem C15_ed25519_mismatch_refused : forall C k, has k (-4) = true -> has k (-2) = true ->
  bytes_eqb (get_bytes_ k (-2)) (ed_public C (get_bytes_ k (-4))) = false ->
  ed_to_public C k = None /\ ed_signer_ok C k = false.
Proof. exact ed_mismatch_refused. Qed.
Print Assumptions C15_ed25519_mismatch_refused.

Theorem C15_ecdsa_mismatch_refused : forall C k x, has k (-4) = true -> has k (-2) = true -> get_bytes k (-2) = Ok x ->
  fst (ec_base_mul C (ecdsa_crv (key_alg k)) (get_bytes_ k (-4))) <> os2ip x ->
  ecdsa_signer_ok C k = false /\ ecdsa_to_public C k = None.
Proof. exact ecdsa_mismatch_refused. Qed.
Print Assumptions C15_ecdsa_mismatch_refused.

(* RFC 9053-conformant alternative encodings: coordinates count as integers (leading zero octets or not) ... *)
Theorem C15_coordinates_as_integers : forall C k1 k2 x1 x2 y1 y2,
  check_key_ecdsa k1 = true -> check_key_ecdsa k2 = true ->
  has k1 (-4) = true -> has k2 (-4) = true -> get_bytes_ k1 (-4) = get_bytes_ k2 (-4) -> key_alg k1 = key_alg k2 ->
  has k1 (-2) = true -> has k2 (-2) = true -> has k1 (-3) = true -> has k2 (-3) = true ->
  get_bytes k1 (-2) = Ok x1 -> get_bytes k2 (-2) = Ok x2 -> get_bytes k1 (-3) = Ok y1 -> get_bytes k2 (-3) = Ok y2 ->
  os2ip x1 = os2ip x2 -> os2ip y1 = os2ip y2 ->
  ecdsa_signer_ok C k1 = ecdsa_signer_ok C k2.
Proof. exact ecdsa_signer_coordinates_as_integers. Qed.
Print Assumptions C15_coordinates_as_integers.

Theorem C15_leading_zeros : forall n b, os2ip (zeros n ++ b) = os2ip b.
Proof. exact KeyEnc.os2ip_zeros_app. Qed.
Print Assumptions C15_leading_zeros.

(* ... and the boolean sign-bit form of y is accepted exactly when the byte-string form is *)
Theorem C15_compressed_equivalent : forall C pk1 pk2 x y,
  key_alg pk1 = key_alg pk2 -> get_bytes_ pk1 (-2) = x -> get_bytes_ pk2 (-2) = x ->
  lookup pk1 (ilabel (-3)) = Some (VBytes y) -> y <> [] ->
  lookup pk2 (ilabel (-3)) = Some (VBool (Z.odd (os2ip y))) ->
  (length x <= crv_size (ecdsa_crv (key_alg pk1)))%nat ->
  (forall c, ec_decompress C c (pad_left (crv_size c) x) (Z.odd (os2ip y)) =
             if ec_on_curve C c (os2ip x) (os2ip y) then Some (os2ip x, os2ip y) else None) ->
  (forall c ix iy, ec_decompress C c (pad_left (crv_size c) x) (Z.odd (os2ip y)) = Some (ix, iy) -> ec_on_curve C c ix iy = true) ->
  ecdsa_point_ok C pk1 = ecdsa_point_ok C pk2.
Proof. exact ecdsa_compressed_equivalent. Qed.
Print Assumptions C15_compressed_equivalent.

(* ---- F20 (known finding, see known_findings.json): the property also asks that a private key whose embedded point does
   not match be refused when the point is given in compressed form. For the sign bit this is false of the code: for any
   value of d*G, the private key carrying the right x passes ToPublicKey with y = true and with y = false alike. *)
Theorem C15_wrong_sign_bit_of_private_key_refuted :
  forall py, exists pk, ecdsa_to_public (f20_C 5 py) (f20_key true) = Some pk /\ ecdsa_to_public (f20_C 5 py) (f20_key false) = Some pk
                        /\ has (f20_key true) (-4) = true.
Proof. exact wrong_sign_bit_of_private_key_accepted_refuted. Qed.
Print Assumptions C15_wrong_sign_bit_of_private_key_refuted.
