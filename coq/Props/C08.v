(* C08 — Deterministic CBOR out, strict CBOR in.
   Only statements, `exact`, and Print Assumptions live in this file.
   encode / dec / decode (Lib/Cbor.v) model the encoder and the well-formedness pass of the CBOR library as key/cbor.go
   configures it; parse / cosemap_of_item / struct_fields (Model/CborGo.v, Model/Wire.v) model decoding into Go values,
   header / key / claim maps and toarray structs. The correspondence streams cbor and msgparts compare them with the
   implementation on valid, foreign and malformed inputs.
   Known findings recorded for this property: F16 (an array of small integers is accepted where a byte string is
   required) and F17 (nested map values with one label under two Go integer types). *)
From Coq Require Import String.
From Coq Require Import NArith ZArith List Bool Permutation.
From Cose Require Import Lib.Base Lib.Cbor Lib.CborProofs Model.GoVal Model.CborGo Model.Wire Model.CborGoProofs.
From Cose Require Import Model.CwtCodec Model.CwtCodecProofs.
Import ListNotations.

(* ---- out: what is written decodes to the same value, with maps in the deterministic order *)
Theorem C08_decode_encode : forall it, encodable it = true -> decode (encode it) = Ok (canon it).
Proof. exact decode_encode. Qed.
Print Assumptions C08_decode_encode.

(* entries are written in strictly ascending bytewise order of their encoded keys (RFC 8949 4.2.1): sorted, no duplicates *)
Theorem C08_map_keys_sorted : forall l, distinct (map ekey l) = true -> ssorted fst (map enc2 (isort ekey l)).
Proof. exact encode_map_sorted. Qed.
Print Assumptions C08_map_keys_sorted.

(* the bytes do not depend on the order in which a map's entries were presented (Go map iteration order) *)
Theorem C08_iteration_order_irrelevant : forall l1 l2, distinct (map ekey l1) = true -> Permutation l1 l2 -> encode (IMap l1) = encode (IMap l2).
Proof. exact encode_perm. Qed.
Print Assumptions C08_iteration_order_irrelevant.

(* ... nor on the Go integer type that held an integer or a label *)
Theorem C08_integer_type_irrelevant : forall v, marshal_any (erase v) = marshal_any v.
Proof. exact marshal_kind_irrelevant. Qed.
Print Assumptions C08_integer_type_irrelevant.

(* heads are the shortest that hold the argument *)
Theorem C08_shortest_heads : forall mt n, (mt < 7)%N -> (n < 18446744073709551616)%N ->
  length (head mt n) = if (n <? 24)%N then 1%nat else if (n <? 256)%N then 2%nat else if (n <? 65536)%N then 3%nat else if (n <? 4294967296)%N then 5%nat else 9%nat.
Proof. exact head_shortest. Qed.
Print Assumptions C08_shortest_heads.

(* re-encoding the decoded form gives the same bytes: equal values, identical bytes *)
Theorem C08_canonical_form_is_a_fixpoint : forall it, kd it = true -> encode (canon it) = encode it.
Proof. exact encode_canon. Qed.
Print Assumptions C08_canonical_form_is_a_fixpoint.

(* ---- in: indefinite lengths and reserved heads are refused wherever a head is read, at every depth *)
Theorem C08_indefinite_refused : forall fuel d c b r, (28 <= Byte.to_N b mod 32)%N -> dec fuel d c (b :: r) = Err.
Proof. exact dec_refuses_indefinite. Qed.
Print Assumptions C08_indefinite_refused.

Theorem C08_trailing_bytes_refused : forall it x r, encodable it = true -> decode (encode it ++ x :: r) = Err.
Proof. exact decode_trailing. Qed.
Print Assumptions C08_trailing_bytes_refused.

(* duplicate keys, including keys that coincide after integer normalisation, at any depth *)
Theorem C08_duplicate_key_refused : forall P l1 k v l2 k' v' l3 seen a b,
  P k = Ok a -> P k' = Ok b -> key_eqb b a = true -> is_ok (parse_entries P (l1 ++ (k, v) :: l2 ++ (k', v') :: l3) seen) = false.
Proof. exact dup_key_refused. Qed.
Print Assumptions C08_duplicate_key_refused.

Theorem C08_duplicate_key_refused_at_any_depth : forall x l1 k v l2 k' v' l3 a b s,
  sub x (IMap (l1 ++ (k, v) :: l2 ++ (k', v') :: l3)) -> parse true k = Ok a -> parse true k' = Ok b -> key_eqb b a = true ->
  is_ok (parse s x) = false.
Proof. exact nested_dup_key_refused. Qed.
Print Assumptions C08_duplicate_key_refused_at_any_depth.

(* the width of an integer key does not matter for that comparison *)
Theorem C08_integer_keys_normalised : forall n, parse true (IUint n) = Ok (VInt KUint64 (Z.of_N n)).
Proof. exact uint_key_normalised. Qed.
Print Assumptions C08_integer_keys_normalised.

(* labels of a decoded header / key / claim map are text or integers in the 32-bit range *)
Theorem C08_labels : forall it m, cosemap_of_item it = Ok m -> forallb (fun e => label_ok (fst e)) m = true.
Proof. exact decoded_labels_ok. Qed.
Print Assumptions C08_labels.

(* wrong arity, a member that is not an array, malformed input *)
Theorem C08_wrong_arity_refused : forall n raw it l, decode raw = Ok it -> through_tags it = Ok (IArr l) -> length l <> n -> struct_fields n raw = Err.
Proof. exact wrong_arity_refused. Qed.
Print Assumptions C08_wrong_arity_refused.

Theorem C08_non_array_refused : forall n raw it t, decode raw = Ok it -> through_tags it = Ok t ->
  match t with IArr _ => False | ISimple 22 | ISimple 23 => False | _ => True end -> struct_fields n raw = Err.
Proof. exact non_array_refused. Qed.
Print Assumptions C08_non_array_refused.

Theorem C08_malformed_refused : forall n raw, decode raw = Err -> struct_fields n raw = Err /\ cosemap_of_bytes raw = Err /\ unmarshal_any raw = Err.
Proof. exact malformed_refused. Qed.
Print Assumptions C08_malformed_refused.

(* the hypotheses are satisfiable: a nested value with a map, within the limits *)
Example C08_nonvacuous :
  let it := IMap [(IUint 500, IArr [ITstr (hex "6162"); INint 7]); (IUint 1, IMap [(ITstr (hex "7a"), ISimple 21)]); (INint 0, IBstr (hex "00ff"))] in
  encodable it = true /\ decode (encode it) = Ok (canon it) /\ canon it <> it.
Proof. vm_compute. repeat split; discriminate. Qed.

(* claim sets in struct form (cwt.Claims): whatever is accepted passed the strict generic decoding first (so, by
   C08_duplicate_key_refused_at_any_depth, holds no duplicate key at any depth, also under claims the struct ignores:
   fixed in 2f7e848), and the encoder writes the members in the deterministic order *)
Theorem C08_claims_strict : forall raw c, dec_claims raw = Ok c -> exists it g, decode raw = Ok it /\ parse true it = Ok g.
Proof. exact claims_strict. Qed.
Print Assumptions C08_claims_strict.
Theorem C08_claims_written_canonically : forall c, canon (claims_item c) = claims_item c.
Proof. exact claims_item_canonical. Qed.
Print Assumptions C08_claims_written_canonically.
