(* C10 — ECDSA/EdDSA signatures are correct, fixed-length and independently verifiable.
   Only statements, `exact`, and Print Assumptions live in this file.
   The elliptic-curve arithmetic is Go's (crypto/ecdsa, crypto/ed25519): here it is a pair of arbitrary functions
   prim_sign / prim_verify, and `prim_correct` states what ECDSA itself guarantees (r, s in range; the pair verifies
   under the public point of d). What is the library's own — the hash the algorithm selects, the fixed-length r || s
   codec of EncodeSignature / DecodeSignature, the checks before the primitive — is modelled statement by statement
   (Model/Ecdsa.v), compared with the exported functions by the sig stream, and compared with crypto/ecdsa and
   crypto/ed25519 as the independent implementation by the sig oracle. *)
From Coq Require Import String.
From Coq Require Import NArith ZArith List Bool.
From Cose Require Import Lib.Base Model.GoVal Model.Key Model.Ecdsa.
Import ListNotations.
Open Scope Z_scope.

Theorem C10_sign_then_verify : forall prim_sign prim_verify alg d pub rnd msg sig, prim_correct prim_sign prim_verify (ecdsa_crv alg) d pub ->
  ecdsa_sign prim_sign alg d rnd msg = Ok sig ->
  ecdsa_verify prim_verify alg pub msg sig = true /\ length sig = (2 * order_size (ecdsa_crv alg))%nat.
Proof. exact verify_sign. Qed.
Print Assumptions C10_sign_then_verify.

Theorem C10_sign_never_fails : forall prim_sign prim_verify alg d pub rnd msg, prim_correct prim_sign prim_verify (ecdsa_crv alg) d pub ->
  compute_hash (hash_func alg) msg <> Err -> exists sig, ecdsa_sign prim_sign alg d rnd msg = Ok sig.
Proof. exact sign_never_fails. Qed.
Print Assumptions C10_sign_never_fails.

(* exactly 64, 96 and 132 bytes; the hash is the one RFC 9053 prescribes *)
Theorem C10_signature_lengths : map (fun a => (2 * order_size (ecdsa_crv a))%nat) [-7; -35; -36] = [64; 96; 132]%nat.
Proof. exact signature_lengths. Qed.
Print Assumptions C10_signature_lengths.

Theorem C10_tables_are_rfc9053 :
  map (fun a => (ecdsa_crv a, hash_func a, order_size (ecdsa_crv a))) [-7; -35; -36] = [(1, 5, 32%nat); (2, 6, 48%nat); (3, 7, 66%nat)].
Proof. exact ecdsa_tables_are_rfc9053. Qed.
Print Assumptions C10_tables_are_rfc9053.

(* the r || s codec: each left-padded to the order size; decoding inverts encoding and conversely; one encoding per pair *)
Theorem C10_decode_encode : forall n r s sig, encode_sig n r s = Ok sig -> decode_sig n sig = Ok (r, s).
Proof. exact decode_encode_sig. Qed.
Print Assumptions C10_decode_encode.

Theorem C10_encode_decode : forall n sig r s, decode_sig n sig = Ok (r, s) -> encode_sig n r s = Ok sig.
Proof. exact encode_decode_sig. Qed.
Print Assumptions C10_encode_decode.

Theorem C10_fixed_length : forall n r s sig, encode_sig n r s = Ok sig -> length sig = (2 * n)%nat.
Proof. exact encode_sig_length. Qed.
Print Assumptions C10_fixed_length.

Theorem C10_one_encoding_per_pair : forall n sig1 sig2 p, decode_sig n sig1 = Ok p -> decode_sig n sig2 = Ok p -> sig1 = sig2.
Proof. exact decode_sig_injective. Qed.
Print Assumptions C10_one_encoding_per_pair.

Theorem C10_out_of_range_refused : forall n r s, r < 0 \/ s < 0 \/ pow256 n <= r \/ pow256 n <= s -> encode_sig n r s = Err.
Proof. exact encode_sig_refuses. Qed.
Print Assumptions C10_out_of_range_refused.

(* any other length is refused before the primitive is consulted; acceptance means the primitive accepted the prescribed
   digest and the pair the bytes spell (so a changed signature is a changed pair, judged by ECDSA itself) *)
Theorem C10_wrong_length_refused : forall prim_verify alg pub msg sig,
  length sig <> (2 * order_size (ecdsa_crv alg))%nat -> ecdsa_verify prim_verify alg pub msg sig = false.
Proof. exact verify_wrong_length. Qed.
Print Assumptions C10_wrong_length_refused.

Theorem C10_verify_exact : forall prim_verify alg pub msg sig, ecdsa_verify prim_verify alg pub msg sig = true ->
  exists h r s, compute_hash (hash_func alg) msg = Ok h /\ sig = (i2osp (order_size (ecdsa_crv alg)) r ++ i2osp (order_size (ecdsa_crv alg)) s)%list
                /\ 0 <= r < pow256 (order_size (ecdsa_crv alg)) /\ 0 <= s < pow256 (order_size (ecdsa_crv alg))
                /\ prim_verify (ecdsa_crv alg) pub h r s = true.
Proof. exact (verify_exact (fun _ _ _ _ => (0, 0))). Qed.
Print Assumptions C10_verify_exact.

Theorem C10_eddsa : forall ed_sign ed_verify seed pub msg,
  (forall m, ed_verify pub m (ed_sign seed m) = true) -> eddsa_verify ed_verify pub msg (eddsa_sign ed_sign seed msg) = true.
Proof. exact eddsa_verify_sign. Qed.
Print Assumptions C10_eddsa.

(* boundary values of the codec *)
Example C10_nonvacuous :
  encode_sig 32 1 (pow256 32 - 1) = Ok (zeros 31 ++ [Byte.x01] ++ repeat Byte.xff 32)%list
  /\ decode_sig 32 (zeros 31 ++ [Byte.x01] ++ repeat Byte.xff 32)%list = Ok (1, pow256 32 - 1)
  /\ encode_sig 32 (pow256 32) 1 = Err.
Proof. vm_compute. repeat split; reflexivity. Qed.
