(* C18 — CWT validation decides exactly per RFC 8392 for every timestamp and option.
   Only statements, `exact`, and Print Assumptions live in this file. *)
From Coq Require Import String.
From Coq Require Import ZArith List Bool.
From Cose Require Import Lib.Base Lib.GoSem Model.GoVal Spec.RFC8392 Model.Cwt Model.CwtProofs Gen.CwtSlicesGen Model.CwtSlicesProofs.
Open Scope Z_scope.

(* Struct path: for all exp/nbf/iat in uint64, every int64 skew (negative included), every
   instant a clock can report (sub-second included), all four flags and all issuer/audience
   values, the model of Validator.Validate decides exactly as the RFC 8392 specification. *)
Theorem C18_validate_is_rfc8392 : forall o now c,
  u64 (c_exp c) -> u64 (c_nbf c) -> u64 (c_iat c) -> now_ok now -> i64 (o_skew o) ->
  validate o now c = accept o now c.
Proof. exact validate_is_accept. Qed.
Print Assumptions C18_validate_is_rfc8392.

(* Map path: for every map of Go values (any integer kind, negatives, floats, text, null, ...). *)
Theorem C18_validate_map_is_rfc8392 : forall o now m,
  vals_in_kind m -> now_ok now -> i64 (o_skew o) ->
  validate_map o now m = accept_map o now m.
Proof. exact validate_map_is_accept. Qed.
Print Assumptions C18_validate_map_is_rfc8392.

(* too large to represent: rejected, never wrapped (spec side; the two theorems above carry it to the model) *)
Theorem C18_too_large_rejected : forall o now u, u > Bmax -> exp_ok o now u = false /\ nbf_ok o now u = false.
Proof. exact too_large_rejected. Qed.
Print Assumptions C18_too_large_rejected.

(* negative, non-integer (float, text, bytes, ...) or null time claims are rejected on the map path *)
Theorem C18_map_time_claim_must_be_uint : forall o now m l v,
  (l = 4 \/ l = 5 \/ l = 6) -> lookup m (ilabel l) = Some v -> uint_of v = None -> accept_map o now m = false.
Proof. exact map_time_claim_must_be_uint. Qed.
Print Assumptions C18_map_time_claim_must_be_uint.

(* The typed-struct and map paths give the same decision for every claim set the struct can represent. *)
Theorem C18_struct_map_agree : forall o now c,
  u64 (c_exp c) -> u64 (c_nbf c) -> u64 (c_iat c) -> now_ok now -> i64 (o_skew o) ->
  validate_map o now (map_of_claims c) = validate o now c.
Proof. exact struct_map_agree. Qed.
Print Assumptions C18_struct_map_agree.

(* Acceptance is monotone in time: the set of instants at which a claim set is accepted is an interval. *)
Theorem C18_accept_interval : forall o n1 n2 n3 c,
  unix_ns n1 <= unix_ns n2 <= unix_ns n3 ->
  accept o n1 c = true -> accept o n3 c = true -> accept o n2 c = true.
Proof. exact accept_interval. Qed.
Print Assumptions C18_accept_interval.

Theorem C18_accept_map_interval : forall o n1 n2 n3 m,
  unix_ns n1 <= unix_ns n2 <= unix_ns n3 ->
  accept_map o n1 m = true -> accept_map o n3 m = true -> accept_map o n2 m = true.
Proof. exact accept_map_interval. Qed.
Print Assumptions C18_accept_map_interval.

(* A validator with a clock skew above ten minutes cannot be constructed (the cap is read from the source). *)
Theorem C18_skew_cap : forall o, new_validator o = Err <-> o_skew o > 600 * G.
Proof. exact skew_cap. Qed.
Print Assumptions C18_skew_cap.

(* ---- the source itself: every statement of Validate / ValidateMap after the choice of `now` is regenerated from
   cwt/validator.go on every run (translator T13, Gen/CwtSlicesGen.v; time.Time operations, claim and option fields mapped
   onto Model/Cwt.v) and decides exactly as RFC 8392, for all claim sets, options and instants *)
Theorem C18_validate_source_is_rfc8392 : forall o now c,
  u64 (c_exp c) -> u64 (c_nbf c) -> u64 (c_iat c) -> now_ok now -> i64 (o_skew o) ->
  cwt_Validator_Validate o now c = if accept o now c then Ok tt else Err.
Proof. exact gen_validate_is_rfc8392. Qed.
Print Assumptions C18_validate_source_is_rfc8392.

Theorem C18_validate_map_source_is_rfc8392 : forall o now m,
  vals_in_kind m -> now_ok now -> i64 (o_skew o) ->
  cwt_Validator_ValidateMap o now m = if accept_map o now m then Ok tt else Err.
Proof. exact gen_validate_map_is_rfc8392. Qed.
Print Assumptions C18_validate_map_source_is_rfc8392.
