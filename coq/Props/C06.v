(* C06 — AEAD nonces are well-formed, derived per RFC 9052, published, and fresh.
   Only statements, `exact`, and Print Assumptions live in this file. *)
From Coq Require Import String.
From Coq Require Import ZArith List Bool.
From Cose Require Import Lib.Base Lib.GenTypes Model.GoVal Model.Key Model.Nonce Model.NonceProofs.
Import ListNotations.
Open Scope Z_scope.

(* the caller's IV is used verbatim *)
Theorem C06_iv_verbatim : forall unprot key nsize iv, get_bytes unprot 5 = Ok iv -> iv <> [] -> get_bytes unprot 6 = Ok [] ->
  forall draw, choose_nonce unprot key nsize draw = Ok (iv, unprot).
Proof. exact iv_verbatim. Qed.
Print Assumptions C06_iv_verbatim.

(* Partial IV: Base IV XOR left-zero-padded Partial IV, exactly the nonce length *)
Theorem C06_partial_iv_rfc : forall unprot key nsize piv base,
  get_bytes unprot 5 = Ok [] -> get_bytes unprot 6 = Ok piv -> piv <> [] -> (length piv < nsize)%nat ->
  get_bytes key 5 = Ok base -> base <> [] ->
  derive_nonce unprot key nsize = Ok (rfc_nonce base piv nsize) /\ length (rfc_nonce base piv nsize) = nsize.
Proof. exact partial_iv_rfc. Qed.
Print Assumptions C06_partial_iv_rfc.

(* IV together with Partial IV, a Partial IV not shorter than the nonce, a missing or unreadable Base IV,
   an unreadable IV / Partial IV: all refused *)
Theorem C06_refusals : forall unprot key nsize,
  (get_bytes unprot 5 = Err \/ get_bytes unprot 6 = Err
   \/ (bytes_at unprot 6 <> [] /\ bytes_at unprot 5 <> [])
   \/ (bytes_at unprot 6 <> [] /\ (nsize <= length (bytes_at unprot 6))%nat)
   \/ (bytes_at unprot 6 <> [] /\ (get_bytes key 5 = Err \/ bytes_at key 5 = []))) ->
  derive_nonce unprot key nsize = Err.
Proof. exact refusals. Qed.
Print Assumptions C06_refusals.

(* otherwise: a random nonce, published in the unprotected IV header *)
Theorem C06_random_published : forall unprot key nsize draw,
  get_bytes unprot 5 = Ok [] -> get_bytes unprot 6 = Ok [] ->
  choose_nonce unprot key nsize draw = Ok (draw, set_label unprot (ilabel 5) (VBytes draw))
  /\ get_bytes (set_label unprot (ilabel 5) (VBytes draw)) 5 = Ok draw.
Proof. exact random_published. Qed.
Print Assumptions C06_random_published.

(* exactly the algorithm's nonce length: derived and drawn nonces by construction, caller IVs by the cipher's own check *)
Theorem C06_nonce_len_derived_or_drawn : forall unprot key nsize draw nonce u', length draw = nsize ->
  get_bytes unprot 5 = Ok [] -> choose_nonce unprot key nsize draw = Ok (nonce, u') -> length nonce = nsize.
Proof. exact nonce_len_unless_caller_iv. Qed.
Print Assumptions C06_nonce_len_derived_or_drawn.
Theorem C06_nonce_len : forall unprot key nsize draw nonce u', length draw = nsize ->
  choose_nonce unprot key nsize draw = Ok (nonce, u') -> aead_takes nsize nonce = true -> length nonce = nsize.
Proof. exact nonce_len. Qed.
Print Assumptions C06_nonce_len.
Theorem C06_nonce_sizes_are_rfc9053 :
  map nonce_size_of [1; 2; 3; 24; 10; 11; 30; 31; 12; 13; 32; 33] = [12; 12; 12; 12; 13; 13; 13; 13; 7; 7; 7; 7].
Proof. exact nonce_sizes_rfc9053. Qed.
Print Assumptions C06_nonce_sizes_are_rfc9053.

Theorem C06_xor_iv_no_panic : forall context partial size, (length partial <= size)%nat ->
  exists iv, xor_iv context partial size = Ok iv /\ length iv = size.
Proof. exact xor_iv_no_panic. Qed.
Print Assumptions C06_xor_iv_no_panic.

(* Decrypt derives the identical nonce from what Encrypt left in the headers *)
Theorem C06_decrypt_same_nonce : forall unprot key nsize draw nonce u', nonce <> [] ->
  (forall v, lookup unprot (ilabel 5) = Some v -> exists b, v = VBytes b) ->
  choose_nonce unprot key nsize draw = Ok (nonce, u') -> derive_nonce u' key nsize = Ok nonce.
Proof. exact decrypt_same_nonce. Qed.
Print Assumptions C06_decrypt_same_nonce.

(* nonces the library chooses for distinct freshly constructed messages do not repeat, for histories of any
   length, provided the entropy source does not repeat (hypothesis NoDup draws: crypto/rand) *)
Theorem C06_fresh_nonces_distinct : forall key nsize draws us,
  NoDup draws -> Forall fresh_message us -> (length us <= length draws)%nat ->
  NoDup (fresh_nonces key nsize draws us).
Proof. exact fresh_nonces_distinct. Qed.
Print Assumptions C06_fresh_nonces_distinct.
