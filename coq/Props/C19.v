(* C19 — Signers, verifiers, MACers, encryptors, ECDHers, validators are safe to share.
   Only statements, `exact`, and Print Assumptions live in this file.
   Data-race freedom and scheduling are properties of the Go runtime, which a Gallina model cannot exhibit. What is
   proved here is the logic the claim rests on: (1) over the SSA effect inventory the translator regenerates from the
   source on every run, the methods of the shared objects store to no receiver field and to no package-level variable,
   the only writers of package-level state are the four Register functions, and those run in package init only;
   (2) for an object whose operations leave its state unchanged, every interleaving of calls from any number of
   threads gives each call the result it has when run alone, and a thread's results do not depend on the schedule.
   The conc stream is the runtime half: one shared instance per implementation, 16 goroutines, results compared with
   the sequential ones, under the Go race detector. The property is therefore claimed as partial. *)
From Coq Require Import String.
From Coq Require Import NArith ZArith List Bool.
From Cose Require Import Lib.Base Lib.GenTypes Gen.EffectsGen Gen.RegistryGen Model.Conc.
Import ListNotations.
Open Scope string_scope.

Theorem C19_shared_methods_write_nothing :
  forallb (fun f => if is_shared (fst f) then negb (existsb writes_shared (snd f)) else true) effects = true.
Proof. exact shared_methods_write_nothing. Qed.
Print Assumptions C19_shared_methods_write_nothing.

Theorem C19_shared_methods_inventory :
  Nat.leb 50 (length shared_methods) = true /\ forallb (fun m => existsb (String.eqb m) (map fst effects)) shared_key_methods = true.
Proof. exact shared_methods_inventory. Qed.
Print Assumptions C19_shared_methods_inventory.

Theorem C19_only_register_writes_globals :
  map fst (filter (fun f => existsb (fun e => prefixb "global:" (snd e)) (snd f)) effects)
  = ["key.RegisterEncryptor"; "key.RegisterMACer"; "key.RegisterSigner"; "key.RegisterVerifier"].
Proof. exact only_register_writes_globals. Qed.
Print Assumptions C19_only_register_writes_globals.

Theorem C19_registration_happens_in_init_only :
  forallb (fun r => String.eqb (snd r) "init") registrations = true /\ unrecognized_registrations = [].
Proof. exact registration_happens_in_init_only. Qed.
Print Assumptions C19_registration_happens_in_init_only.

Theorem C19_the_only_stateful_method :
  map fst (filter (fun f => prefixb "(*key/" (fst f) && existsb (fun e => prefixb "recv" (snd e)) (snd f)) effects) = ["(*key/hkdf.aesHKDF).Read"].
Proof. exact the_only_stateful_method. Qed.
Print Assumptions C19_the_only_stateful_method.

Theorem C19_every_call_returns_as_alone : forall (S Op Out : Type) (step : S -> Op -> S * Out),
  (forall s o, fst (step s o) = s) ->
  forall s sched, Forall (fun r => snd r = alone S Op Out step s (snd (fst r))) (run S Op Out step s sched).
Proof. exact every_call_returns_as_alone. Qed.
Print Assumptions C19_every_call_returns_as_alone.

Theorem C19_thread_results_schedule_independent : forall (S Op Out : Type) (step : S -> Op -> S * Out),
  (forall s o, fst (step s o) = s) ->
  forall s t sched1 sched2,
    filter (fun p => Nat.eqb (fst p) t) sched1 = filter (fun p => Nat.eqb (fst p) t) sched2 ->
    of_thread Op Out t (run S Op Out step s sched1) = of_thread Op Out t (run S Op Out step s sched2).
Proof. exact thread_results_schedule_independent. Qed.
Print Assumptions C19_thread_results_schedule_independent.
