(* C07 — No input makes a decoding, verification, key or crypto entry point panic.
   Only statements, `exact`, and Print Assumptions live in this file.
   In the models, `Panic` is the outcome a function takes where the Go code would index out of range, dereference nil,
   fail a type assertion or call a Must- helper that fails (the translator lists every such site: Gen/ApiGen.v,
   panic_sites). The theorems say that the models of the decoders, accessors and consumers never take it, for any
   input; the model is tied to the code by the correspondence streams (a panic observed on the implementation is a
   mismatch) and, for this property, by the nopanic stream, which drives every entry point of the API inventory that
   takes untrusted input with valid, odd-shaped, mutated and malformed inputs, keys with odd members, and primitive
   arguments of every length, recording panics and time / memory out of proportion. Termination of the models is
   structural (fuel bounded by the decoder's nesting limit), so it says nothing about running time: proportionality is
   an observation of the nopanic stream, not a theorem. *)
From Coq Require Import String.
From Coq Require Import NArith ZArith List Bool.
From Cose Require Import Lib.Base Lib.Cbor Model.GoVal Model.CborGo Model.Wire Model.MsgLogic Model.Nonce Model.Msg Model.NoPanic Gen.ApiGen.
Import ListNotations.

Theorem C07_decode_never_panics : forall bs, decode bs <> Panic /\ unmarshal_any bs <> Panic /\ cosemap_of_bytes bs <> Panic.
Proof. exact (fun bs => conj (decode_np bs) (conj (unmarshal_any_np bs) (cosemap_of_bytes_np bs))). Qed.
Print Assumptions C07_decode_never_panics.

Theorem C07_headers_never_panic : forall b, headers_from_bytes b <> Panic.
Proof. exact headers_from_bytes_np. Qed.
Print Assumptions C07_headers_never_panic.

Theorem C07_struct_decoding_never_panics : forall k n data, struct_fields n data <> Panic /\ unmarshal_wire k data <> Panic.
Proof. exact (fun k n data => conj (struct_fields_np n data) (unmarshal_wire_np k data)). Qed.
Print Assumptions C07_struct_decoding_never_panics.

Theorem C07_recipients_never_panic : forall raw, recip_decode raw <> Panic.
Proof. exact recip_decode_np. Qed.
Print Assumptions C07_recipients_never_panic.

Theorem C07_accessors_never_panic : forall m l,
  get_int m l <> Panic /\ get_int64 m l <> Panic /\ get_uint64 m l <> Panic /\ get_bytes m l <> Panic /\ get_string m l <> Panic /\ get_bool m l <> Panic.
Proof. exact accessors_np. Qed.
Print Assumptions C07_accessors_never_panic.

Theorem C07_structures_never_panic : forall k prot sprot ext payload, structure k prot sprot ext payload <> Panic.
Proof. exact structure_np. Qed.
Print Assumptions C07_structures_never_panic.

Theorem C07_nonce_derivation_never_panics : forall unprot key nsize, derive_nonce unprot key nsize <> Panic.
Proof. exact derive_nonce_np. Qed.
Print Assumptions C07_nonce_derivation_never_panics.

Theorem C07_verify_never_panics : forall pany ps pm vs data ext,
  sign1_consume pany ps data ext <> Panic /\ mac0_consume pany pm data ext <> Panic /\ mac_consume pany pm data ext <> Panic /\ sign_consume pany vs data ext <> Panic.
Proof. exact (fun pany ps pm vs data ext => conj (sign1_consume_np pany ps data ext) (conj (mac0_consume_np pany pm data ext) (conj (mac_consume_np pany pm data ext) (sign_consume_np pany vs data ext)))). Qed.
Print Assumptions C07_verify_never_panics.

Theorem C07_decrypt_never_panics : forall pany p data ext, (forall n c a, en_decrypt p n c a <> Panic) ->
  enc0_consume pany p data ext <> Panic /\ enc_consume pany p data ext <> Panic.
Proof. exact (fun pany p data ext H => conj (enc0_consume_np pany p data ext H) (enc_consume_np pany p data ext H)). Qed.
Print Assumptions C07_decrypt_never_panics.

(* the explicit panics of the source are the documented helpers (and CCM's Seal, guarded by Encrypt: C12) *)
Theorem C07_explicit_panics_are_documented :
  explicit_panics = ["key.MustMarshalCBOR"; "key.RegisterEncryptor"; "key.RegisterMACer"; "key.RegisterSigner"; "key.RegisterVerifier"; "key.UnwrapBytes"; "key/aesccm.ccm_Seal"]%string.
Proof. exact explicit_panics_are_documented. Qed.
Print Assumptions C07_explicit_panics_are_documented.

Theorem C07_documented_to_panic :
  map (fun a => (fst (fst a) ++ "." ++ snd (fst a))%string) (filter (fun a => snd a) api)
  = ["key.MustMarshalCBOR"; "key.RegisterEncryptor"; "key.RegisterMACer"; "key.RegisterSigner"; "key.RegisterVerifier"; "key.UnwrapBytes"]%string.
Proof. exact documented_to_panic. Qed.
Print Assumptions C07_documented_to_panic.

Theorem C07_must_calls_are_the_structure_builders :
  map (fun s => fst (fst s)) (filter (fun s => String.eqb (snd (fst s)) "mustcall") panic_sites)
  = ["cose.encrypt0Message_toEnc"; "cose.encryptMessage_toEnc"; "cose.mac0Message_toMac"; "cose.macMessage_toMac"; "cose.sign1Message_toSign"; "cose.signMessage_toSign"]%string.
Proof. exact must_calls_are_the_structure_builders. Qed.
Print Assumptions C07_must_calls_are_the_structure_builders.

(* GetMap (CoseMap / Headers / ClaimsMap / Key) on a decoded map: a value or an error for every map and label; a nested
   map whose keys are not all integers or text is an error (931bc34: a null key used to make toKey panic) *)
Theorem C07_get_map_never_panics : forall m l, get_map m l <> Panic.
Proof. exact get_map_np. Qed.
Print Assumptions C07_get_map_never_panics.
