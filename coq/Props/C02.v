(* C02 — Tampered, spliced or mis-keyed signed/MACed messages never verify.
   Only statements, `exact`, and Print Assumptions live in this file.
   The primitives are arbitrary (sg_verify, mc_verify are parameters). `valid_only_for verify sig tbs0` is the ideal
   behaviour of a signature or tag: it is accepted for the bytes it was computed over and for nothing else (for the
   real algorithms that is their unforgeability; exactness of the MACs is C11, of ECDSA/EdDSA C10/C14). Under it a
   message verifies only if its body protected bytes, signer protected bytes, payload and the external data are
   exactly the authenticated ones and the context is that of its own kind. *)
From Coq Require Import String.
From Coq Require Import NArith ZArith List Bool.
From Cose Require Import Lib.Base Lib.Cbor Model.GoVal Model.Wire Model.MsgLogic Model.Msg Model.MsgProofs Spec.RFC9052 Lib.GoSem Model.HdrSem Gen.LookupGen Model.LookupProofs.
Import ListNotations.

(* the to-be-signed / to-be-MACed bytes determine context, protected bytes, external data and payload *)
Theorem C02_sig_structure_injective : forall c1 c2 pb1 pb2 sp1 sp2 e1 e2 pl1 pl2,
  small pb1 -> small pb2 -> match sp1 with Some s => small s | None => True end -> match sp2 with Some s => small s | None => True end ->
  small e1 -> small e2 -> small pl1 -> small pl2 ->
  encode (Sig_structure c1 pb1 sp1 e1 pl1) = encode (Sig_structure c2 pb2 sp2 e2 pl2) ->
  c1 = c2 /\ pb1 = pb2 /\ sp1 = sp2 /\ e1 = e2 /\ pl1 = pl2.
Proof. exact sig_structure_inj. Qed.
Print Assumptions C02_sig_structure_injective.

Theorem C02_mac_structure_injective : forall c1 c2 pb1 pb2 e1 e2 pl1 pl2,
  small pb1 -> small pb2 -> small e1 -> small e2 -> small pl1 -> small pl2 ->
  encode (MAC_structure c1 pb1 e1 pl1) = encode (MAC_structure c2 pb2 e2 pl2) ->
  c1 = c2 /\ pb1 = pb2 /\ e1 = e2 /\ pl1 = pl2.
Proof. exact mac_structure_inj. Qed.
Print Assumptions C02_mac_structure_injective.

Theorem C02_sign1_binds : forall pany p data ext v c pb e pl sig,
  sign1_consume pany p data ext = Ok v ->
  (forall w, unmarshal_wire KSign1 data = Ok w -> w_auth w = Some sig /\ osmall (w_prot w) /\ osmall (w_payload w)) ->
  small (aad ext) -> small pb -> small e -> small pl ->
  valid_only_for (sg_verify p) sig (encode (Sig_structure c pb None e pl)) ->
  c = Signature1 /\ aad ext = e /\
  exists w, unmarshal_wire KSign1 data = Ok w /\ w_prot w = Some pb /\ w_payload w = Some pl.
Proof. exact sign1_verifies_only_the_signed. Qed.
Print Assumptions C02_sign1_binds.

Theorem C02_mac0_binds : forall pany p data ext v c pb e pl tag,
  mac0_consume pany p data ext = Ok v ->
  (forall w, unmarshal_wire KMac0 data = Ok w -> w_auth w = Some tag /\ osmall (w_prot w) /\ osmall (w_payload w)) ->
  small (aad ext) -> small pb -> small e -> small pl ->
  valid_only_for (mc_verify p) tag (encode (MAC_structure c pb e pl)) ->
  c = MAC0 /\ aad ext = e /\
  exists w, unmarshal_wire KMac0 data = Ok w /\ w_prot w = Some pb /\ w_payload w = Some pl.
Proof. exact mac0_verifies_only_the_maced. Qed.
Print Assumptions C02_mac0_binds.

Theorem C02_mac_binds : forall pany p data ext v rs c pb e pl tag,
  mac_consume pany p data ext = Ok (v, rs) ->
  (forall w, unmarshal_wire KMac data = Ok w -> w_auth w = Some tag /\ osmall (w_prot w) /\ osmall (w_payload w)) ->
  small (aad ext) -> small pb -> small e -> small pl ->
  valid_only_for (mc_verify p) tag (encode (MAC_structure c pb e pl)) ->
  c = MAC /\ aad ext = e /\
  exists w, unmarshal_wire KMac data = Ok w /\ w_prot w = Some pb /\ w_payload w = Some pl.
Proof. exact mac_verifies_only_the_maced. Qed.
Print Assumptions C02_mac_binds.

Theorem C02_sign_binds : forall pany vs data ext v sigs s c pb sp e pl,
  sign_consume pany vs data ext = Ok (v, sigs) -> In s sigs ->
  (forall w, unmarshal_wire KSign data = Ok w -> osmall (w_prot w) /\ osmall (w_payload w)) -> small (se_raw s) ->
  small (aad ext) -> small pb -> small sp -> small e -> small pl ->
  (forall p, lookup_prim vs (get_bytes_ (omap (se_unprot s)) 4) = Some p ->
     valid_only_for (sg_verify p) (match se_sig s with Some b => b | None => [] end) (encode (Sig_structure c pb (Some sp) e pl))) ->
  c = Signature /\ aad ext = e /\ se_raw s = sp /\
  exists w, unmarshal_wire KSign data = Ok w /\ w_prot w = Some pb /\ w_payload w = Some pl.
Proof. exact sign_verifies_only_the_signed. Qed.
Print Assumptions C02_sign_binds.

(* no verifiers, zero signatures, or a signature whose key id has no verifier: never verifies *)
Theorem C02_sign_no_verifiers : forall pany data ext r, sign_consume pany [] data ext <> Ok r.
Proof. exact sign_no_verifiers. Qed.
Print Assumptions C02_sign_no_verifiers.

Theorem C02_sign_zero_signatures : forall pany vs data ext w, unmarshal_wire KSign data = Ok w ->
  (sigs_decode (w_extra w) = Ok (Some []) \/ sigs_decode (w_extra w) = Ok None) -> forall r, sign_consume pany vs data ext <> Ok r.
Proof. exact sign_zero_signatures. Qed.
Print Assumptions C02_sign_zero_signatures.

Theorem C02_sign_every_signature_has_a_verifier : forall pany vs data ext v sigs s,
  sign_consume pany vs data ext = Ok (v, sigs) -> In s sigs -> lookup_prim vs (get_bytes_ (omap (se_unprot s)) 4) <> None.
Proof. exact sign_unmatched_signature. Qed.
Print Assumptions C02_sign_every_signature_has_a_verifier.

(* ---- the source of COSE_Sign verification: SignMessage.Verify as regenerated from cose/sign.go on every run (translator
   T15: the guards, the loop over the decoded signatures, the verifier found by the signature's kid, the algorithm gate
   on the signer's protected bucket, the Sig_structure built from the signer's RECEIVED protected bytes, the call of the
   verifier) is the model's verify_all: every signature is checked, each against its own structure *)
Theorem C02_sign_verify_source_is_model : forall vs ext w sigs,
  cose_SignMessage_Verify vs ext w sigs = verify_decoded vs ext w sigs.
Proof. exact gen_sign_verify. Qed.
Print Assumptions C02_sign_verify_source_is_model.

(* ---- on the regenerated source: acceptance means that EVERY entry of the signature array — the last and the earlier ones,
   repeated ones included — found its verifier by kid, passed the gate of its own protected bucket and was accepted by
   that verifier over the Sig_structure of its own received protected bytes (no entry is skipped, none decides alone) *)
Theorem C02_sign_verify_source_checks_every_entry : forall vs ext w sigs,
  cose_SignMessage_Verify vs ext w (Some sigs) = Ok tt ->
  sigs <> [] /\
  Forall (fun s => exists v tbs,
            lookup_prim vs (get_bytes_ (omap (se_unprot s)) 4) = Some v /\ consume_gate (se_prot s) (sg_key v) = true /\
            structure KSign (w_prot w) (Some (se_raw s)) ext (w_payload w) = Ok tbs /\
            sg_verify v tbs (match se_sig s with Some b => b | None => [] end) = true) sigs.
Proof. exact gen_sign_verify_every_entry. Qed.
Print Assumptions C02_sign_verify_source_checks_every_entry.
