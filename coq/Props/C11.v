(* C11 — HMAC and AES-CBC-MAC tags equal the RFC 9053 definition and verify exactly.
   Only statements, `exact`, and Print Assumptions live in this file.
   hmac_create / aesmac_create are the statement-by-statement models of hMAC.create and aesMAC.MACCreate;
   ref_hmac / ref_aesmac are the independent reference: HMAC (RFC 2104) over the Gallina SHA-2 (FIPS 180-4,
   constants computed from their definition) and CBC-MAC with zero IV and zero padding over the Gallina AES
   (FIPS 197, S-box computed), all validated against the published vectors in Spec/Vectors.v. *)
From Coq Require Import String.
From Coq Require Import ZArith NArith List Bool.
From Cose Require Import Lib.Base Lib.Sha2 Lib.Hmac Lib.Aes Lib.CbcMac Model.GoVal Model.Key Model.Mac Model.MacProofs.
Import ListNotations.
Open Scope Z_scope.

Theorem C11_hmac_tag_is_rfc : forall alg key msg r, ref_hmac alg key msg = Some r -> hmac_create alg key msg = Ok r.
Proof. exact hmac_tag_is_rfc. Qed.
Print Assumptions C11_hmac_tag_is_rfc.

Theorem C11_aesmac_is_cbcmac : forall alg key msg r, msg <> [] -> ref_aesmac alg key msg = Some r -> aesmac_create alg key msg = Ok r.
Proof. exact aesmac_is_cbcmac. Qed.
Print Assumptions C11_aesmac_is_cbcmac.

(* the shape theorem behind it holds for ANY block function: pad, CBC-encrypt the whole buffer, keep the last block, truncate = CBC-MAC *)
Theorem C11_go_shape_is_cbc_mac_for_any_block_cipher : forall E, (forall b, length (E b) = 16%nat) ->
  forall ts m, m <> [] -> (ts <= 16)%nat -> go_create E ts m = Ok (firstn ts (cbc_mac E m)).
Proof. exact go_create_is_cbc_mac. Qed.
Print Assumptions C11_go_shape_is_cbc_mac_for_any_block_cipher.

(* AES-CBC-MAC is undefined on the empty string: refused with an error *)
Theorem C11_aesmac_empty_refused : forall alg key, aesmac_create alg key [] = Err.
Proof. exact aesmac_empty_refused. Qed.
Print Assumptions C11_aesmac_empty_refused.

Theorem C11_tag_len : forall alg key msg r,
  (hmac_create alg key msg = Ok r /\ ref_hmac alg key msg <> None) \/ (aesmac_create alg key msg = Ok r /\ ref_aesmac alg key msg <> None) ->
  length r = rfc_tag_len alg.
Proof. exact tag_len. Qed.
Print Assumptions C11_tag_len.

(* verification accepts that tag and nothing else (no shorter or longer string, no changed bit) *)
Theorem C11_verify_exact : forall (create : bytes -> res bytes) msg tag, mac_verify create msg tag = Ok true <-> create msg = Ok tag.
Proof. exact verify_exact. Qed.
Print Assumptions C11_verify_exact.
Theorem C11_verify_rejects_other : forall create msg tag t, create msg = Ok t -> tag <> t -> mac_verify create msg tag = Ok false.
Proof. exact verify_rejects_other. Qed.
Print Assumptions C11_verify_rejects_other.

(* keys of any other size are refused *)
Theorem C11_wrong_key_size_refused : forall f k kb, get_bytes k (-1) = Ok kb -> lenZ kb <> sym_keysize f (key_alg k) -> check_key_sym f k = false.
Proof. exact wrong_key_size_refused. Qed.
Print Assumptions C11_wrong_key_size_refused.

Theorem C11_tables_are_rfc9053 :
  map (fun a => (sym_keysize Hmac a, hmac_tag_size a, hash_func a)) [4; 5; 6; 7] = [(32, 8, 5); (32, 32, 5); (48, 48, 6); (64, 64, 7)]
  /\ map (fun a => (sym_keysize AesMac a, aesmac_tag_size a)) [14; 15; 25; 26] = [(16, 8); (32, 8); (16, 16); (32, 16)].
Proof. exact mac_tables_are_rfc9053. Qed.
Print Assumptions C11_tables_are_rfc9053.

(* digest lengths, for every message *)
Theorem C11_sha_lengths : forall m, length (sha256 m) = 32%nat /\ length (sha384 m) = 48%nat /\ length (sha512 m) = 64%nat.
Proof. exact (fun m => conj (sha256_length m) (conj (sha384_length m) (sha512_length m))). Qed.
Print Assumptions C11_sha_lengths.
