(* C04 — Signed, MACed and AAD bytes are the exact RFC 9052 structures of the wire bytes.
   Only statements, `exact`, and Print Assumptions live in this file.
   `structure k prot sign_prot ext payload` is the model of toSign / toMac / toEnc (Model/Msg.v): its element list and
   context string are read from the source by the translator (Gen/StructsGen.v). Sig_structure / MAC_structure /
   Enc_structure are RFC 9052's (Spec/RFC9052.v, context strings written there as literals).
   The msg correspondence stream uses transparent fake primitives (signature = secret || data), so the bytes the
   implementation hands to its Signer / MACer / Encryptor are compared with the model's on every case. *)
From Coq Require Import String.
From Coq Require Import NArith ZArith List Bool.
From Cose Require Import Lib.Base Lib.Cbor Model.GoVal Model.Wire Model.MsgLogic Model.Nonce Model.Msg Model.MsgProofs Spec.RFC9052 Gen.SlicesGen Model.SlicesProofs Lib.GoSem Model.HdrSem Gen.LookupGen Model.LookupProofs.
Import ListNotations.

Theorem C04_sign1_structure : forall pb ext pl sp,
  structure KSign1 (Some pb) sp ext (Some pl) = Ok (encode (Sig_structure Signature1 pb None (aad ext) pl)).
Proof. exact sign1_structure_is_rfc. Qed.
Print Assumptions C04_sign1_structure.

Theorem C04_sign_structure : forall pb sp ext pl,
  structure KSign (Some pb) (Some sp) ext (Some pl) = Ok (encode (Sig_structure Signature pb (Some sp) (aad ext) pl)).
Proof. exact sign_structure_is_rfc. Qed.
Print Assumptions C04_sign_structure.

Theorem C04_mac0_structure : forall pb ext pl sp,
  structure KMac0 (Some pb) sp ext (Some pl) = Ok (encode (MAC_structure MAC0 pb (aad ext) pl)).
Proof. exact mac0_structure_is_rfc. Qed.
Print Assumptions C04_mac0_structure.

Theorem C04_mac_structure : forall pb ext pl sp,
  structure KMac (Some pb) sp ext (Some pl) = Ok (encode (MAC_structure MAC pb (aad ext) pl)).
Proof. exact mac_structure_is_rfc. Qed.
Print Assumptions C04_mac_structure.

Theorem C04_enc0_structure : forall pb ext sp pl,
  structure KEnc0 (Some pb) sp ext pl = Ok (encode (Enc_structure Encrypt0 pb (aad ext))).
Proof. exact enc0_structure_is_rfc. Qed.
Print Assumptions C04_enc0_structure.

Theorem C04_enc_structure : forall pb ext sp pl,
  structure KEnc (Some pb) sp ext pl = Ok (encode (Enc_structure Encrypt pb (aad ext))).
Proof. exact enc_structure_is_rfc. Qed.
Print Assumptions C04_enc_structure.

(* an empty header map is produced as the zero-length string *)
Theorem C04_empty_map_is_empty_string : headers_bytes [] = Some [].
Proof. exact empty_map_is_empty_string. Qed.
Print Assumptions C04_empty_map_is_empty_string.

(* producing: the primitive receives the structure of exactly the protected bytes and payload that are then written *)
Theorem C04_sign1_produce : forall p prot unprot pl ext out,
  sign1_produce p prot unprot (Some pl) ext = Ok out ->
  exists prot' pb sig u,
    prepare_protected prot (sg_key p) = Ok prot' /\ headers_bytes prot' = Some pb /\
    sg_sign p (encode (Sig_structure Signature1 pb None (aad ext) pl)) = Ok sig /\
    enc_cosemap (prepare_unprotected unprot (sg_key p)) = Some u /\
    out = enc_tagged 18 (enc_array [enc_bytes (Some pb); u; enc_bytes (Some pl); enc_bytes (Some sig)]).
Proof. exact sign1_produce_signs_wire. Qed.
Print Assumptions C04_sign1_produce.

Theorem C04_mac0_produce : forall p prot unprot pl ext out,
  mac0_produce p prot unprot (Some pl) ext = Ok out ->
  exists prot' pb tag u,
    prepare_protected prot (mc_key p) = Ok prot' /\ headers_bytes prot' = Some pb /\
    mc_create p (encode (MAC_structure MAC0 pb (aad ext) pl)) = Ok tag /\
    enc_cosemap (prepare_unprotected unprot (mc_key p)) = Some u /\
    out = enc_tagged 17 (enc_array [enc_bytes (Some pb); u; enc_bytes (Some pl); enc_bytes (Some tag)]).
Proof. exact mac0_produce_macs_wire. Qed.
Print Assumptions C04_mac0_produce.

Theorem C04_enc0_produce : forall p prot unprot payload ext draw out,
  enc0_produce p prot unprot payload ext draw = Ok out ->
  exists prot' pb nonce unprot' ct u,
    prepare_protected prot (en_key p) = Ok prot' /\ headers_bytes prot' = Some pb /\
    choose_nonce (prepare_unprotected unprot (en_key p)) (en_key p) (en_nonce p) draw = Ok (nonce, unprot') /\
    en_encrypt p nonce (match payload with Some b => b | None => [] end) (encode (Enc_structure Encrypt0 pb (aad ext))) = Ok ct /\
    enc_cosemap unprot' = Some u /\
    out = enc_tagged 16 (enc_array [enc_bytes (Some pb); u; enc_bytes (Some ct)]).
Proof. exact enc0_produce_aad_is_wire. Qed.
Print Assumptions C04_enc0_produce.

(* consuming: the structure is recomputed from the received protected bytes and payload verbatim (w_prot, w_payload are
   the byte strings of the wire, not re-encodings of decoded values), so any valid encoding of the headers verifies *)
Theorem C04_sign1_verify_uses_wire_bytes : forall pany p data ext v,
  sign1_consume pany p data ext = Ok v ->
  exists w sig tbs,
    unmarshal_wire KSign1 data = Ok w /\ w_auth w = Some sig /\
    headers_from_bytes (w_prot w) = Ok (v_prot v) /\ consume_gate (v_prot v) (sg_key p) = true /\
    structure KSign1 (w_prot w) None ext (w_payload w) = Ok tbs /\ sg_verify p tbs sig = true /\
    v_unprot v = w_unprot w /\ payload_ok pany (w_payload w) = Ok (v_payload v).
Proof. exact sign1_consume_sound. Qed.
Print Assumptions C04_sign1_verify_uses_wire_bytes.

Theorem C04_sign_verify_uses_wire_bytes : forall pany vs data ext v sigs,
  sign_consume pany vs data ext = Ok (v, sigs) ->
  vs <> [] /\ sigs <> [] /\
  exists w, unmarshal_wire KSign data = Ok w /\ sigs_decode (w_extra w) = Ok (Some sigs) /\
    headers_from_bytes (w_prot w) = Ok (v_prot v) /\
    Forall (fun s => exists p tbs,
              lookup_prim vs (get_bytes_ (omap (se_unprot s)) 4) = Some p /\ consume_gate (se_prot s) (sg_key p) = true /\
              structure KSign (w_prot w) (Some (se_raw s)) ext (w_payload w) = Ok tbs /\
              sg_verify p tbs (match se_sig s with Some b => b | None => [] end) = true) sigs.
Proof. exact sign_consume_sound. Qed.
Print Assumptions C04_sign_verify_uses_wire_bytes.

Theorem C04_mac0_verify_uses_wire_bytes : forall pany p data ext v,
  mac0_consume pany p data ext = Ok v ->
  exists w tag tbm,
    unmarshal_wire KMac0 data = Ok w /\ w_auth w = Some tag /\
    headers_from_bytes (w_prot w) = Ok (v_prot v) /\ consume_gate (v_prot v) (mc_key p) = true /\
    structure KMac0 (w_prot w) None ext (w_payload w) = Ok tbm /\ mc_verify p tbm tag = true /\
    v_unprot v = w_unprot w /\ payload_ok pany (w_payload w) = Ok (v_payload v).
Proof. exact mac0_consume_sound. Qed.
Print Assumptions C04_mac0_verify_uses_wire_bytes.

Theorem C04_enc0_decrypt_uses_wire_bytes : forall pany p data ext v,
  enc0_consume pany p data ext = Ok v ->
  exists w ct aad nonce pt,
    unmarshal_wire KEnc0 data = Ok w /\ w_auth w = Some ct /\
    headers_from_bytes (w_prot w) = Ok (v_prot v) /\ consume_gate (v_prot v) (en_key p) = true /\
    structure KEnc0 (w_prot w) None ext None = Ok aad /\
    derive_nonce (omap (w_unprot w)) (en_key p) (en_nonce p) = Ok nonce /\
    en_decrypt p nonce ct aad = Ok pt /\
    v_unprot v = w_unprot w /\ payload_ok pany (Some pt) = Ok (v_payload v).
Proof. exact enc0_consume_sound. Qed.
Print Assumptions C04_enc0_decrypt_uses_wire_bytes.

(* COSE_KDF_Context: the encoder writes RFC 9053 section 5.2's array (checked on all field combinations by the
   msgparts stream); here: nil SuppPrivInfo / SuppPubInfo.other are left out, present ones are written *)
Example C04_kdf_context_shape :
  let p := {| pi_identity := None; pi_nonce := Some []; pi_other := Some (hex "01") |} in
  let c o pr := {| kc_alg := -3; kc_u := p; kc_v := p; kc_pub := {| sp_len := 128; sp_prot := None; sp_other := o |}; kc_priv := pr |} in
  enc_kdf_ctx (c None None) = Some (hex "842283f640410183f640410182188040")
  /\ enc_kdf_ctx (c (Some []) (Some [])) = Some (hex "852283f640410183f64041018318804040" ++ hex "40")%list.
Proof. vm_compute. split; reflexivity. Qed.

(* ---- the source: in each of the ten single-key methods exactly one structure is built and exactly one primitive call
   is made (regenerated from the source on every run, Gen/SlicesGen.prim_calls): when consuming, the structure comes
   from the builder of the DECODED wire struct (received protected bytes and payload) with the caller's external data,
   and the primitive is handed it together with the received signature / tag / ciphertext *)
Theorem C04_primitive_is_handed_the_structure : prim_calls = expected_prim_calls.
Proof. exact primitives_get_the_structure. Qed.
Print Assumptions C04_primitive_is_handed_the_structure.

(* ---- the source of COSE_Sign production: the loop of SignMessage.WithSign over the signers (regenerated statement by
   statement on every run, Gen/LookupGen.cose_SignMessage_WithSign_loop, translator T16) makes, for every signer, the
   two buckets from that signer's key alone and signs the Sig_structure of (encoded body bucket, the entry's own encoded
   protected bucket, external data, payload); the first failing signer ends the call; nothing follows the loop but the
   installation of the wire struct *)
Theorem C04_with_sign_loop_source_is_model : forall ps ext pb payload,
  cose_SignMessage_WithSign_loop ps ext pb payload = sign_entries ps pb ext payload.
Proof. exact gen_with_sign_loop. Qed.
Print Assumptions C04_with_sign_loop_source_is_model.

Theorem C04_with_sign_loop_source_is_sign_all : forall ps ext pb payload,
  sign_all ps pb ext payload
  = do l <- cose_SignMessage_WithSign_loop ps ext pb payload; match all_some (map enc_sigout l) with Some bs => Ok bs | None => Err end.
Proof. exact gen_with_sign_loop_is_sign_all_total. Qed.
Print Assumptions C04_with_sign_loop_source_is_sign_all.

Theorem C04_with_sign_nothing_after_the_loop : cose_SignMessage_WithSign_after_loop = ["m.mm = mm"%string; "return nil"%string].
Proof. exact with_sign_after_loop. Qed.
Print Assumptions C04_with_sign_nothing_after_the_loop.
