(* C03 — Encrypted messages bind ciphertext to nonce, protected headers and external data.
   Only statements, `exact`, and Print Assumptions live in this file.
   The AEAD is arbitrary (en_decrypt is a parameter). `opens_only_with decrypt ct nonce0 aad0` is the ideal behaviour
   of an AEAD: a ciphertext opens under the nonce and additional data it was sealed with and under nothing else
   (exactness of the real AEADs is C12). Under it decryption succeeds only when the protected bytes, the external data
   and the nonce material are those used at encryption; a refused decryption yields no view, hence no plaintext. *)
From Coq Require Import String.
From Coq Require Import NArith ZArith List Bool.
From Cose Require Import Lib.Base Lib.Cbor Model.GoVal Model.Wire Model.Key Model.MsgLogic Model.Nonce Model.NonceProofs Model.Msg Model.MsgProofs Spec.RFC9052.
Import ListNotations.

Theorem C03_enc_structure_injective : forall c1 c2 pb1 pb2 e1 e2,
  small pb1 -> small pb2 -> small e1 -> small e2 ->
  encode (Enc_structure c1 pb1 e1) = encode (Enc_structure c2 pb2 e2) -> c1 = c2 /\ pb1 = pb2 /\ e1 = e2.
Proof. exact enc_structure_inj. Qed.
Print Assumptions C03_enc_structure_injective.

Theorem C03_enc0_binds : forall pany p data ext v c pb e ct nonce0,
  enc0_consume pany p data ext = Ok v ->
  (forall w, unmarshal_wire KEnc0 data = Ok w -> w_auth w = Some ct /\ osmall (w_prot w)) ->
  small (aad ext) -> small pb -> small e ->
  opens_only_with (en_decrypt p) ct nonce0 (encode (Enc_structure c pb e)) ->
  c = Encrypt0 /\ aad ext = e /\
  exists w, unmarshal_wire KEnc0 data = Ok w /\ w_prot w = Some pb /\ derive_nonce (omap (w_unprot w)) (en_key p) (en_nonce p) = Ok nonce0.
Proof. exact enc0_decrypts_only_the_sealed. Qed.
Print Assumptions C03_enc0_binds.

Theorem C03_enc_binds : forall pany p data ext v rs c pb e ct nonce0,
  enc_consume pany p data ext = Ok (v, rs) ->
  (forall w, unmarshal_wire KEnc data = Ok w -> w_auth w = Some ct /\ osmall (w_prot w)) ->
  small (aad ext) -> small pb -> small e ->
  opens_only_with (en_decrypt p) ct nonce0 (encode (Enc_structure c pb e)) ->
  c = Encrypt /\ aad ext = e /\
  exists w, unmarshal_wire KEnc data = Ok w /\ w_prot w = Some pb /\ derive_nonce (omap (w_unprot w)) (en_key p) (en_nonce p) = Ok nonce0.
Proof. exact enc_decrypts_only_the_sealed. Qed.
Print Assumptions C03_enc_binds.

(* the AEAD is called with the nonce derived from the unprotected IV / Partial IV (C06), the wire ciphertext, and the
   Enc_structure of the wire protected bytes; the payload comes only from its successful result *)
Theorem C03_enc0_decrypt_call : forall pany p data ext v,
  enc0_consume pany p data ext = Ok v ->
  exists w ct aad nonce pt,
    unmarshal_wire KEnc0 data = Ok w /\ w_auth w = Some ct /\
    headers_from_bytes (w_prot w) = Ok (v_prot v) /\ consume_gate (v_prot v) (en_key p) = true /\
    structure KEnc0 (w_prot w) None ext None = Ok aad /\
    derive_nonce (omap (w_unprot w)) (en_key p) (en_nonce p) = Ok nonce /\
    en_decrypt p nonce ct aad = Ok pt /\
    v_unprot v = w_unprot w /\ payload_ok pany (Some pt) = Ok (v_payload v).
Proof. exact enc0_consume_sound. Qed.
Print Assumptions C03_enc0_decrypt_call.

Theorem C03_enc_decrypt_call : forall pany p data ext v rs,
  enc_consume pany p data ext = Ok (v, rs) ->
  exists w ct aad nonce pt,
    unmarshal_wire KEnc data = Ok w /\ w_auth w = Some ct /\ recips_decode (w_extra w) = Ok rs /\
    headers_from_bytes (w_prot w) = Ok (v_prot v) /\ consume_gate (v_prot v) (en_key p) = true /\
    structure KEnc (w_prot w) None ext None = Ok aad /\
    derive_nonce (omap (w_unprot w)) (en_key p) (en_nonce p) = Ok nonce /\
    en_decrypt p nonce ct aad = Ok pt /\
    v_unprot v = w_unprot w /\ payload_ok pany (Some pt) = Ok (v_payload v).
Proof. exact enc_consume_sound. Qed.
Print Assumptions C03_enc_decrypt_call.

Theorem C03_enc0_refusal_yields_nothing : forall pany p data ext w ct aad nonce,
  unmarshal_wire KEnc0 data = Ok w -> w_auth w = Some ct ->
  structure KEnc0 (w_prot w) None ext None = Ok aad ->
  derive_nonce (omap (w_unprot w)) (en_key p) (en_nonce p) = Ok nonce ->
  en_decrypt p nonce ct aad = Err ->
  forall v, enc0_consume pany p data ext <> Ok v.
Proof. exact enc0_refusal_yields_nothing. Qed.
Print Assumptions C03_enc0_refusal_yields_nothing.

Theorem C03_enc_refusal_yields_nothing : forall pany p data ext w ct aad nonce,
  unmarshal_wire KEnc data = Ok w -> w_auth w = Some ct ->
  structure KEnc (w_prot w) None ext None = Ok aad ->
  derive_nonce (omap (w_unprot w)) (en_key p) (en_nonce p) = Ok nonce ->
  en_decrypt p nonce ct aad = Err ->
  forall v, enc_consume pany p data ext <> Ok v.
Proof. exact enc_refusal_yields_nothing. Qed.
Print Assumptions C03_enc_refusal_yields_nothing.

(* the nonce material binds: under one key and nonce length, two messages whose derived nonces agree carry the same
   caller IV, and Partial IVs of equal length that are the same bytes (a Partial IV with extra leading zero bytes
   denotes the same RFC 9052 nonce, hence lengths are compared). Together with C03_enc0_binds / C03_enc_binds: a message
   whose IV or Partial IV was changed derives another nonce and does not open. *)
Theorem C03_nonce_material_binds : forall u1 u2 key nsize nonce,
  derive_nonce u1 key nsize = Ok nonce -> derive_nonce u2 key nsize = Ok nonce -> nonce <> [] ->
  forall iv1 piv1 iv2 piv2, get_bytes u1 5 = Ok iv1 -> get_bytes u1 6 = Ok piv1 -> get_bytes u2 5 = Ok iv2 -> get_bytes u2 6 = Ok piv2 ->
  (piv1 = [] -> piv2 = [] -> iv1 = iv2) /\ (length piv1 = length piv2 -> piv1 = piv2).
Proof. exact nonce_material_binds. Qed.
Print Assumptions C03_nonce_material_binds.

Theorem C03_partial_iv_nonce_injective : forall base p1 p2 n, length p1 = length p2 -> (length p1 <= n)%nat ->
  rfc_nonce base p1 n = rfc_nonce base p2 n -> p1 = p2.
Proof. exact rfc_nonce_injective. Qed.
Print Assumptions C03_partial_iv_nonce_injective.
