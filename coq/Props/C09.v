(* C09 — Decode then re-encode preserves messages; value round trips are exact.
   Only statements, `exact`, and Print Assumptions live in this file.
   reencode k data is MarshalCBOR after UnmarshalCBOR on a message of kind k (Model/Msg.v). The theorems say that the
   authenticated byte strings are re-emitted as received, that a re-encoded message still verifies with the same
   protected headers and payload, that removing the tag changes nothing but the tag, and that what the CBOR codec wrote
   decodes to the value written. That library-produced messages re-encode to identical bytes, and that keys, key sets,
   claim sets (both forms), recipients, KDF contexts and ByteStr survive their round trips, is checked on the
   implementation by the msg / msgparts correspondence and the values oracle. *)
From Coq Require Import String.
From Coq Require Import NArith ZArith List Bool.
From Cose Require Import Lib.Base Lib.Cbor Lib.CborProofs Model.GoVal Model.CborGo Model.Wire Model.MsgLogic Model.Msg Model.MsgProofs Model.MsgRoundTrip Model.ValueRoundTrip Model.MsgRoundTripFull
     Lib.Hex Lib.HexProofs Model.Text Model.TextProofs Model.MsgRoundTripRecip Model.KdfRoundTrip Model.CwtCodec Model.CwtCodecProofs Lib.GenTypes Gen.StructsGen Model.KeySet Model.KeySetProofs Lib.GoSem Gen.FuncsGen Model.FuncsUntag Model.MsgObj Model.MsgObjProofs.
Import ListNotations.

(* ---- the authenticated byte strings are re-emitted as received *)
Theorem C09_reencode_sign1_mac0 : forall k data out, (k = KSign1 \/ k = KMac0) -> reencode k data = Ok out ->
  exists w u, unmarshal_wire k data = Ok w /\ enc_headers_field (w_unprot w) = Some u /\
    out = enc_tagged (cose_tag k) (enc_array [enc_bytes (w_prot w); u; enc_bytes (w_payload w); enc_bytes (w_auth w)]).
Proof. exact reencode_single_layer. Qed.
Print Assumptions C09_reencode_sign1_mac0.

Theorem C09_reencode_encrypt0 : forall data out, reencode KEnc0 data = Ok out ->
  exists w u, unmarshal_wire KEnc0 data = Ok w /\ enc_headers_field (w_unprot w) = Some u /\
    out = enc_tagged 16 (enc_array [enc_bytes (w_prot w); u; enc_bytes (w_auth w)]).
Proof. exact reencode_encrypt0. Qed.
Print Assumptions C09_reencode_encrypt0.

Theorem C09_reencode_mac : forall data out, reencode KMac data = Ok out ->
  exists w u rs r, unmarshal_wire KMac data = Ok w /\ enc_headers_field (w_unprot w) = Some u /\
    recips_decode (w_extra w) = Ok rs /\ enc_recips rs = Some r /\
    out = enc_tagged 97 (enc_array [enc_bytes (w_prot w); u; enc_bytes (w_payload w); enc_bytes (w_auth w); r]).
Proof. exact reencode_mac. Qed.
Print Assumptions C09_reencode_mac.

Theorem C09_reencode_encrypt : forall data out, reencode KEnc data = Ok out ->
  exists w u rs r, unmarshal_wire KEnc data = Ok w /\ enc_headers_field (w_unprot w) = Some u /\
    recips_decode (w_extra w) = Ok rs /\ enc_recips rs = Some r /\
    out = enc_tagged 96 (enc_array [enc_bytes (w_prot w); u; enc_bytes (w_auth w); r]).
Proof. exact reencode_encrypt. Qed.
Print Assumptions C09_reencode_encrypt.

(* COSE_Sign: body protected bytes, payload and each signer's protected bytes (se_raw) and signature, as received *)
Theorem C09_reencode_sign : forall data out, reencode KSign data = Ok out ->
  exists w u sigs ss, unmarshal_wire KSign data = Ok w /\ enc_headers_field (w_unprot w) = Some u /\
    sigs_decode (w_extra w) = Ok (Some sigs) /\ all_some (map sigent_marshal sigs) = Some ss /\
    out = enc_tagged 98 (enc_array [enc_bytes (w_prot w); u; enc_bytes (w_payload w); enc_array ss]).
Proof. exact reencode_sign. Qed.
Print Assumptions C09_reencode_sign.

Theorem C09_signature_reencoded_verbatim : forall s out, sigent_marshal s = Some out ->
  exists sg u, se_sig s = Some sg /\ enc_headers_field (se_unprot s) = Some u /\
    out = enc_array [enc_bytes (Some (se_raw s)); u; enc_bytes (Some sg)].
Proof. exact signature_reencoded_verbatim. Qed.
Print Assumptions C09_signature_reencoded_verbatim.

(* ---- so a re-encoded message (canonical or foreign) still verifies, with the same protected headers and payload *)
Theorem C09_sign1_reencoded_still_verifies : forall pany p data ext v out,
  sign1_consume pany p data ext = Ok v -> reencode KSign1 data = Ok out ->
  (forall w u, unmarshal_wire KSign1 data = Ok w -> enc_headers_field (w_unprot w) = Some u ->
      exists itU um, u = encode itU /\ encodable (IArr [ob (w_prot w); itU; ob (w_payload w); ob (w_auth w)]) = true /\ fld_headers u = Ok um) ->
  exists v', sign1_consume pany p out ext = Ok v' /\ v_prot v' = v_prot v /\ v_payload v' = v_payload v.
Proof. exact sign1_reencoded_still_verifies. Qed.
Print Assumptions C09_sign1_reencoded_still_verifies.

Theorem C09_mac0_reencoded_still_verifies : forall pany p data ext v out,
  mac0_consume pany p data ext = Ok v -> reencode KMac0 data = Ok out ->
  (forall w u, unmarshal_wire KMac0 data = Ok w -> enc_headers_field (w_unprot w) = Some u ->
      exists itU um, u = encode itU /\ encodable (IArr [ob (w_prot w); itU; ob (w_payload w); ob (w_auth w)]) = true /\ fld_headers u = Ok um) ->
  exists v', mac0_consume pany p out ext = Ok v' /\ v_prot v' = v_prot v /\ v_payload v' = v_payload v.
Proof. exact mac0_reencoded_still_verifies. Qed.
Print Assumptions C09_mac0_reencoded_still_verifies.

(* ---- removing the CBOR tag changes nothing but the tag; all three forms decode to the same wire struct *)
Theorem C09_remove_tag : forall k fs, shaped k fs ->
  remove_cbor_tag (enc_tagged (cose_tag k) (enc_array fs)) = enc_array fs
  /\ remove_cbor_tag (cwt_prefix ++ enc_tagged (cose_tag k) (enc_array fs))%list = enc_array fs
  /\ remove_cbor_tag (enc_array fs) = enc_array fs.
Proof. exact remove_tag_only_the_tag. Qed.
Print Assumptions C09_remove_tag.

Theorem C09_same_wire_in_all_forms : forall k fs, shaped k fs ->
  unmarshal_wire k (enc_tagged (cose_tag k) (enc_array fs)) = unmarshal_wire k (enc_array fs)
  /\ unmarshal_wire k (cwt_prefix ++ enc_tagged (cose_tag k) (enc_array fs))%list = unmarshal_wire k (enc_array fs).
Proof. exact same_wire_in_all_forms. Qed.
Print Assumptions C09_same_wire_in_all_forms.

(* ---- value round trip of the codec: what was written decodes to the value written; its members come back one by one *)
Theorem C09_decode_encode : forall it, encodable it = true -> decode (encode it) = Ok (canon it).
Proof. exact decode_encode. Qed.
Print Assumptions C09_decode_encode.

Theorem C09_struct_members_roundtrip : forall its, encodable (IArr its) = true ->
  struct_fields (length its) (encode (IArr its)) = Ok (Some (map encode its)).
Proof. exact struct_fields_encode. Qed.
Print Assumptions C09_struct_members_roundtrip.

(* nil and empty byte strings stay distinct through a round trip (KDF context / PartyInfo members) *)
Theorem C09_nil_vs_empty : forall b, encodable (ob b) = true -> fld_bytes (enc_bytes b) = Ok b.
Proof. intros b E. rewrite enc_bytes_ob. exact (fld_bytes_ob b E). Qed.
Print Assumptions C09_nil_vs_empty.

(* ---- value round trip of Go values through CBOR: what was written decodes to the same value in the decoder's normal
   form (integers as uint64 / int64, maps in the deterministic order), at any nesting depth within the limits *)
Theorem C09_value_roundtrip : forall v it, item_of v = Some it -> hv v = true -> kd it = true -> parse true (canon it) = Ok (normv v).
Proof. exact value_roundtrip. Qed.
Print Assumptions C09_value_roundtrip.

(* header / key / claim maps: CoseMap.MarshalCBOR then CoseMap.UnmarshalCBOR returns the same labels with values in normal form *)
Theorem C09_cosemap_roundtrip : forall m bs,
  forallb (fun e => checked (fst e)) m = true -> hv (VMap m) = true ->
  enc_cosemap m = Some bs ->
  (forall it, item_of (VMap m) = Some it -> encodable it = true) ->
  cosemap_of_bytes bs = Ok (read_back m).
Proof. exact cosemap_roundtrip. Qed.
Print Assumptions C09_cosemap_roundtrip.

Theorem C09_headers_roundtrip : forall m pb, good_map m -> headers_bytes m = Some pb -> headers_from_bytes (Some pb) = Ok (read_back m).
Proof. exact headers_roundtrip. Qed.
Print Assumptions C09_headers_roundtrip.

(* ... and every typed accessor reads from it what it read from the original *)
Theorem C09_read_back_accessors : forall m l, NoDup (map fst m) -> forallb (fun e => ints_in_kind (snd e)) m = true ->
  get_int (read_back m) l = get_int m l /\ get_bytes (read_back m) l = get_bytes m l
  /\ get_string (read_back m) l = get_string m l /\ get_bool (read_back m) l = get_bool m l /\ has (read_back m) l = has m l.
Proof. exact read_back_accessors. Qed.
Print Assumptions C09_read_back_accessors.

(* ---- text and JSON forms (ByteStr, CoseMap, Key): lower-case hex of the CBOR bytes, quoted for JSON *)
Theorem C09_bytestr_text_roundtrip : forall b, bytestr_of_text (bytestr_text b) = Ok b.
Proof. exact bytestr_text_roundtrip. Qed.
Print Assumptions C09_bytestr_text_roundtrip.

Theorem C09_bytestr_json_roundtrip : forall cur b, bytestr_of_json cur (bytestr_json b) = Ok b.
Proof. exact bytestr_json_roundtrip. Qed.
Print Assumptions C09_bytestr_json_roundtrip.

(* distinct byte strings have distinct texts; an accepted text re-encodes to its lower-case form *)
Theorem C09_bytestr_text_injective : forall a b, bytestr_text a = bytestr_text b -> a = b.
Proof. exact bytestr_text_inj. Qed.
Print Assumptions C09_bytestr_text_injective.
Theorem C09_bytestr_text_canonical : forall t b, bytestr_of_text t = Ok b -> bytestr_text b = map lower t.
Proof. exact bytestr_text_canonical. Qed.
Print Assumptions C09_bytestr_text_canonical.

(* a map or key written as text or JSON decodes exactly as its CBOR bytes do (so C09_cosemap_roundtrip applies to all three forms) *)
Theorem C09_cosemap_text_as_cbor : forall m bs, enc_cosemap m = Some bs ->
  exists t, cosemap_text m = Some t /\ cosemap_of_text t = cosemap_of_bytes bs.
Proof. exact cosemap_text_as_cbor. Qed.
Print Assumptions C09_cosemap_text_as_cbor.
Theorem C09_cosemap_json_as_cbor : forall m bs, enc_cosemap m = Some bs ->
  exists t, cosemap_json m = Some t /\ cosemap_of_json t = cosemap_of_bytes bs.
Proof. exact cosemap_json_as_cbor. Qed.
Print Assumptions C09_cosemap_json_as_cbor.

(* ---- recipients: Recipient.MarshalCBOR then UnmarshalCBOR, any number of nested recipients, header maps in normal form *)
Theorem C09_recipient_roundtrip : forall r bs, good_recip r -> marshal_recip r = Some bs ->
  (forall it, bs = encode it -> encodable it = true) -> recip_decode bs = Ok (recip_rb r).
Proof. exact recip_roundtrip. Qed.
Print Assumptions C09_recipient_roundtrip.

(* ---- COSE_KDF_Context: MarshalCBOR then UnmarshalCBOR; nil and empty members (identity, nonce, other, SuppPrivInfo) stay apart *)
Theorem C09_kdf_context_roundtrip : forall c bs, enc_kdf_ctx c = Some bs ->
  (-9223372036854775808 <= kc_alg c <= 9223372036854775807)%Z -> (0 <= sp_len (kc_pub c) <= 18446744073709551615)%Z ->
  good_map (omap (sp_prot (kc_pub c))) ->
  (forall it, bs = encode it -> encodable it = true) ->
  dec_kdf_ctx bs = Ok (kdf_rb c).
Proof. exact kdf_roundtrip. Qed.
Print Assumptions C09_kdf_context_roundtrip.

(* ---- claim sets in struct form (cwt.Claims): key.MarshalCBOR then key.UnmarshalCBOR returns the claims exactly
   (empty members are omitted and come back empty); the members and labels are those the source declares *)
Theorem C09_claims_roundtrip : forall c, good_claims c ->
  (forall it, enc_claims c = encode it -> encodable it = true) ->
  dec_claims (enc_claims c) = Ok c.
Proof. exact claims_roundtrip. Qed.
Print Assumptions C09_claims_roundtrip.

Theorem C09_claims_members_as_declared :
  assoc StructsGen.tagged_structs "cwt.Claims"%string
  = Some [("Issuer", "string", "cbor:""1,keyasint,omitempty"" json:""iss,omitempty""");
          ("Subject", "string", "cbor:""2,keyasint,omitempty"" json:""sub,omitempty""");
          ("Audience", "string", "cbor:""3,keyasint,omitempty"" json:""aud,omitempty""");
          ("Expiration", "uint64", "cbor:""4,keyasint,omitempty"" json:""exp,omitempty""");
          ("NotBefore", "uint64", "cbor:""5,keyasint,omitempty"" json:""nbf,omitempty""");
          ("IssuedAt", "uint64", "cbor:""6,keyasint,omitempty"" json:""iat,omitempty""");
          ("CWTID", "key.ByteStr", "cbor:""7,keyasint,omitempty"" json:""cti,omitempty""")]%string.
Proof. exact claims_members_as_declared. Qed.
Print Assumptions C09_claims_members_as_declared.

(* ---- key sets (key.KeySet): MarshalCBOR then UnmarshalCBOR returns every key, in order, in the decoder's normal form
   (integers as the decoder types them); a nil set is written as null and read back as nil *)
Theorem C09_keyset_roundtrip : forall (ks : list cosemap) bs, Forall good_map ks ->
  enc_keyset (Some (map (@Some cosemap) ks)) = Some bs ->
  (forall it, bs = encode it -> encodable it = true) ->
  dec_keyset bs = Ok (Some (map read_back ks)).
Proof. exact keyset_roundtrip. Qed.
Print Assumptions C09_keyset_roundtrip.

(* ---- the source of RemoveCBORTag itself (function body regenerated by the translator on every run): it is the model's
   function, so it takes off the tag of a message of any kind, with or without the CWT tag, and nothing else *)
Theorem C09_remove_tag_source : forall k fs, shaped k fs ->
  cose_RemoveCBORTag (enc_tagged (cose_tag k) (enc_array fs)) = Ok (enc_array fs)
  /\ cose_RemoveCBORTag (cwt_prefix ++ enc_tagged (cose_tag k) (enc_array fs))%list = Ok (enc_array fs)
  /\ cose_RemoveCBORTag (enc_array fs) = Ok (enc_array fs).
Proof. exact gen_remove_tag_only_the_tag. Qed.
Print Assumptions C09_remove_tag_source.

Theorem C09_remove_tag_source_is_model : forall data, cose_RemoveCBORTag data = Ok (remove_cbor_tag data).
Proof. exact gen_remove_cbor_tag. Qed.
Print Assumptions C09_remove_tag_source_is_model.

(* ---- over histories of one object: Verify / Decrypt (accepted or refused) never change what MarshalCBOR emits *)
Theorem C09_consume_keeps_the_encoding : forall k o p ext, marshal_out k (fst (consume_step k o p ext)) = marshal_out k o.
Proof. exact consume_keeps_marshal. Qed.
Print Assumptions C09_consume_keeps_the_encoding.

Theorem C09_sign_verify_keeps_the_object : forall o vs ext, fst (sign_consume_step o vs ext) = o.
Proof. exact sign_consume_keeps_object. Qed.
Print Assumptions C09_sign_verify_keeps_the_object.
