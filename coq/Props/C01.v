(* C01 — Every COSE message the library produces is accepted back with identical content.
   Only statements, `exact`, and Print Assumptions live in this file.
   The primitives are arbitrary; the hypothesis on them is functional correctness (the verifier accepts what the signer
   produced, the AEAD opens what it sealed) — for the 24 real algorithms that is checked on the implementation by the
   msgreal oracle and stated for the MACs / AEADs by C11 / C12. The header-map codec enters as the hypothesis that the
   bytes written for the two header maps decode (to pm / um); that they decode to the maps that were written is the
   CoseMap round trip, compared with the implementation by the msgparts stream.
   Multi-layer kinds: COSE_Sign with any number of signers (wire form), COSE_Mac and COSE_Encrypt with any number of
   recipients and nested recipients (produce then consume, C01_mac_roundtrip_full / C01_encrypt_roundtrip_full), the
   tagging-form theorem, and the msg correspondence (produce, then consume in the three forms, compared field by field). *)
From Coq Require Import String.
From Coq Require Import NArith ZArith List Bool.
From Cose Require Import Lib.Base Lib.Cbor Lib.CborProofs Model.GoVal Model.CborGo Model.Wire Model.Key Model.MsgLogic Model.Nonce Model.Msg Model.MsgProofs Model.MsgRoundTrip Spec.RFC9052
     Model.ValueRoundTrip Model.MsgRoundTripFull Model.MsgRoundTripSign Model.MsgRoundTripRecip Lib.GoSem Gen.SlicesGen Model.StripProofs Model.MsgObj Model.MsgObjProofs Model.HdrSem Gen.LookupGen Model.LookupProofs Model.WithSignObj.
Import ListNotations.

Theorem C01_sign1_roundtrip : forall p prot unprot pl ext out pm um,
  sign1_produce p prot unprot (Some pl) ext = Ok out ->
  (forall tbs sig, sg_sign p tbs = Ok sig -> sg_verify p tbs sig = true) ->
  (forall prot' pb sig u, prepare_protected prot (sg_key p) = Ok prot' -> headers_bytes prot' = Some pb ->
      enc_cosemap (prepare_unprotected unprot (sg_key p)) = Some u ->
      sg_sign p (encode (Sig_structure Signature1 pb None (aad ext) pl)) = Ok sig ->
      exists itU, u = encode itU /\ encodable (IArr [ob (Some pb); itU; ob (Some pl); ob (Some sig)]) = true /\
                  fld_headers u = Ok um /\ headers_from_bytes (Some pb) = Ok pm /\ consume_gate pm (sg_key p) = true) ->
  sign1_consume false p out ext = Ok {| v_prot := pm; v_unprot := Some um; v_payload := payload_view pl |}.
Proof. exact sign1_roundtrip. Qed.
Print Assumptions C01_sign1_roundtrip.

Theorem C01_mac0_roundtrip : forall p prot unprot pl ext out pm um,
  mac0_produce p prot unprot (Some pl) ext = Ok out ->
  (forall tbm tag, mc_create p tbm = Ok tag -> mc_verify p tbm tag = true) ->
  (forall prot' pb tag u, prepare_protected prot (mc_key p) = Ok prot' -> headers_bytes prot' = Some pb ->
      enc_cosemap (prepare_unprotected unprot (mc_key p)) = Some u ->
      mc_create p (encode (MAC_structure MAC0 pb (aad ext) pl)) = Ok tag ->
      exists itU, u = encode itU /\ encodable (IArr [ob (Some pb); itU; ob (Some pl); ob (Some tag)]) = true /\
                  fld_headers u = Ok um /\ headers_from_bytes (Some pb) = Ok pm /\ consume_gate pm (mc_key p) = true) ->
  mac0_consume false p out ext = Ok {| v_prot := pm; v_unprot := Some um; v_payload := payload_view pl |}.
Proof. exact mac0_roundtrip. Qed.
Print Assumptions C01_mac0_roundtrip.

Theorem C01_encrypt0_roundtrip : forall p prot unprot payload ext draw out pm um,
  enc0_produce p prot unprot payload ext draw = Ok out ->
  (forall nonce pt ad ct, en_encrypt p nonce pt ad = Ok ct -> en_decrypt p nonce ct ad = Ok pt) ->
  (forall prot' pb nonce unprot' ct u, prepare_protected prot (en_key p) = Ok prot' -> headers_bytes prot' = Some pb ->
      choose_nonce (prepare_unprotected unprot (en_key p)) (en_key p) (en_nonce p) draw = Ok (nonce, unprot') ->
      enc_cosemap unprot' = Some u ->
      exists itU, u = encode itU /\ encodable (IArr [ob (Some pb); itU; ob (Some ct)]) = true /\
                  fld_headers u = Ok um /\ headers_from_bytes (Some pb) = Ok pm /\ consume_gate pm (en_key p) = true /\
                  derive_nonce um (en_key p) (en_nonce p) = Ok nonce) ->
  enc0_consume false p out ext = Ok {| v_prot := pm; v_unprot := Some um; v_payload := payload_view (match payload with Some b => b | None => [] end) |}.
Proof. exact enc0_roundtrip. Qed.
Print Assumptions C01_encrypt0_roundtrip.

(* with the header codec discharged: for header maps as applications write them (good_map: int / text labels, no label
   twice, null / bool / integer / bstr / tstr / array / nested-map values, within the decoder limits) the message is
   accepted back with the protected and unprotected headers in the decoder's normal form (read_back: the same labels,
   integers as uint64 / int64, maps in deterministic order), on which every accessor reads what it read before *)
Theorem C01_sign1_roundtrip_full : forall p prot unprot pl ext out prot',
  sign1_produce p prot unprot (Some pl) ext = Ok out ->
  (forall tbs sig, sg_sign p tbs = Ok sig -> sg_verify p tbs sig = true) ->
  prepare_protected prot (sg_key p) = Ok prot' -> alg_gate prot' (key_alg (sg_key p)) = true ->
  good_map prot' -> good_map (prepare_unprotected unprot (sg_key p)) ->
  (forall pb sig itU, headers_bytes prot' = Some pb -> item_of (VMap (prepare_unprotected unprot (sg_key p))) = Some itU ->
      encodable (IArr [ob (Some pb); itU; ob (Some pl); ob (Some sig)]) = true) ->
  sign1_consume false p out ext
  = Ok {| v_prot := read_back prot'; v_unprot := Some (read_back (prepare_unprotected unprot (sg_key p))); v_payload := payload_view pl |}.
Proof. exact sign1_roundtrip_full. Qed.
Print Assumptions C01_sign1_roundtrip_full.

Theorem C01_mac0_roundtrip_full : forall p prot unprot pl ext out prot',
  mac0_produce p prot unprot (Some pl) ext = Ok out ->
  (forall tbm tag, mc_create p tbm = Ok tag -> mc_verify p tbm tag = true) ->
  prepare_protected prot (mc_key p) = Ok prot' -> alg_gate prot' (key_alg (mc_key p)) = true ->
  good_map prot' -> good_map (prepare_unprotected unprot (mc_key p)) ->
  (forall pb tag itU, headers_bytes prot' = Some pb -> item_of (VMap (prepare_unprotected unprot (mc_key p))) = Some itU ->
      encodable (IArr [ob (Some pb); itU; ob (Some pl); ob (Some tag)]) = true) ->
  mac0_consume false p out ext
  = Ok {| v_prot := read_back prot'; v_unprot := Some (read_back (prepare_unprotected unprot (mc_key p))); v_payload := payload_view pl |}.
Proof. exact mac0_roundtrip_full. Qed.
Print Assumptions C01_mac0_roundtrip_full.

(* COSE_Encrypt0 with the header codec and the nonce derivation discharged: whatever way the nonce was chosen (caller's IV,
   Partial IV with the key's Base IV, or the entropy draw published as IV), decryption derives the same nonce from the
   decoded headers and yields the plaintext *)
Theorem C01_encrypt0_roundtrip_full : forall p prot unprot payload ext draw out prot' nonce unprot',
  enc0_produce p prot unprot payload ext draw = Ok out ->
  (forall nc pt ad ct, en_encrypt p nc pt ad = Ok ct -> en_decrypt p nc ct ad = Ok pt) ->
  prepare_protected prot (en_key p) = Ok prot' -> alg_gate prot' (key_alg (en_key p)) = true ->
  choose_nonce (prepare_unprotected unprot (en_key p)) (en_key p) (en_nonce p) draw = Ok (nonce, unprot') ->
  draw <> [] -> (0 < en_nonce p)%nat ->
  good_map prot' -> good_map unprot' ->
  (forall pb ct itU, headers_bytes prot' = Some pb -> item_of (VMap unprot') = Some itU ->
      encodable (IArr [ob (Some pb); itU; ob (Some ct)]) = true) ->
  enc0_consume false p out ext
  = Ok {| v_prot := read_back prot'; v_unprot := Some (read_back unprot'); v_payload := payload_view (match payload with Some b => b | None => [] end) |}.
Proof. exact enc0_roundtrip_full. Qed.
Print Assumptions C01_encrypt0_roundtrip_full.

Theorem C01_read_back_accessors : forall m l, NoDup (map fst m) -> forallb (fun e => ints_in_kind (snd e)) m = true ->
  get_int (read_back m) l = get_int m l /\ get_bytes (read_back m) l = get_bytes m l
  /\ get_string (read_back m) l = get_string m l /\ get_bool (read_back m) l = get_bool m l /\ has (read_back m) l = has m l.
Proof. exact read_back_accessors. Qed.
Print Assumptions C01_read_back_accessors.

(* COSE_Sign with any number of signers: a message in the form the library writes, each of whose signatures finds its
   verifier by key id, passes the algorithm gate and verifies over the RFC structure, is accepted with all its signatures *)
Theorem C01_sign_any_number_of_signers : forall vs pb itU pl ext um pm (tr : list (sigdata * (cosemap * cosemap))),
  let ds := map fst tr in
  encodable (sign_whole pb itU pl ds) = true ->
  fld_headers (encode itU) = Ok um -> headers_from_bytes (Some pb) = Ok pm ->
  vs <> [] -> tr <> [] ->
  Forall (fun t => sig_good vs pb pl ext (fst t) (fst (snd t)) (snd (snd t))) tr ->
  sign_consume false vs (sign_wire pb itU pl ds) ext
  = Ok ({| v_prot := pm; v_unprot := Some um; v_payload := payload_view pl |}, map (fun t => sigent_of (fst t) (fst (snd t)) (snd (snd t))) tr).
Proof. exact sign_accepts_wire_form. Qed.
Print Assumptions C01_sign_any_number_of_signers.

(* COSE_Mac and COSE_Encrypt with any number of recipients, each with any number of nested recipients (one nesting level):
   produced by the model of ComputeAndEncode / EncryptAndEncode, accepted by the model of VerifyMacMessage /
   DecryptEncryptMessage with the header maps of the message and of every recipient in the decoder's normal form
   (induction over both recipient lists; the size hypothesis says the whole message is within the decoder's limits) *)
Theorem C01_mac_roundtrip_full : forall p prot unprot pl ext rs out prot',
  mac_produce p prot unprot (Some pl) ext rs = Ok out ->
  (forall tbm tag, mc_create p tbm = Ok tag -> mc_verify p tbm tag = true) ->
  prepare_protected prot (mc_key p) = Ok prot' -> alg_gate prot' (key_alg (mc_key p)) = true ->
  good_map prot' -> good_map (prepare_unprotected unprot (mc_key p)) -> Forall good_recip rs ->
  (forall it, out = enc_tagged 97 (encode it) -> encodable it = true) ->
  mac_consume false p out ext
  = Ok ({| v_prot := read_back prot'; v_unprot := Some (read_back (prepare_unprotected unprot (mc_key p))); v_payload := payload_view pl |},
        map recip_rb rs).
Proof. exact mac_roundtrip_full. Qed.
Print Assumptions C01_mac_roundtrip_full.

Theorem C01_encrypt_roundtrip_full : forall p prot unprot payload ext draw rs out prot' nonce unprot',
  enc_produce p prot unprot payload ext draw rs = Ok out ->
  (forall nc pt ad ct, en_encrypt p nc pt ad = Ok ct -> en_decrypt p nc ct ad = Ok pt) ->
  prepare_protected prot (en_key p) = Ok prot' -> alg_gate prot' (key_alg (en_key p)) = true ->
  choose_nonce (prepare_unprotected unprot (en_key p)) (en_key p) (en_nonce p) draw = Ok (nonce, unprot') ->
  draw <> [] -> (0 < en_nonce p)%nat ->
  good_map prot' -> good_map unprot' -> Forall good_recip rs ->
  (forall it, out = enc_tagged 96 (encode it) -> encodable it = true) ->
  enc_consume false p out ext
  = Ok ({| v_prot := read_back prot'; v_unprot := Some (read_back unprot'); v_payload := payload_view (match payload with Some b => b | None => [] end) |},
        map recip_rb rs).
Proof. exact enc_roundtrip_full. Qed.
Print Assumptions C01_encrypt_roundtrip_full.

(* tagged, untagged or wrapped in the CWT tag: the same wire struct reaches Verify / Decrypt, for all six kinds *)
Theorem C01_all_forms_alike : forall k fs, shaped k fs ->
  let tagged := enc_tagged (cose_tag k) (enc_array fs) in
  unmarshal_wire k (enc_array fs) = unmarshal_wire k tagged /\ unmarshal_wire k (cwt_prefix ++ tagged)%list = unmarshal_wire k tagged.
Proof. exact all_forms_alike. Qed.
Print Assumptions C01_all_forms_alike.

Theorem C01_consume_depends_on_wire_only : forall pany p vs d1 d2 ext,
  (unmarshal_wire KSign1 d1 = unmarshal_wire KSign1 d2 -> sign1_consume pany (fst p) d1 ext = sign1_consume pany (fst p) d2 ext)
  /\ (unmarshal_wire KSign d1 = unmarshal_wire KSign d2 -> sign_consume pany vs d1 ext = sign_consume pany vs d2 ext)
  /\ (unmarshal_wire KMac0 d1 = unmarshal_wire KMac0 d2 -> mac0_consume pany (fst (snd p)) d1 ext = mac0_consume pany (fst (snd p)) d2 ext)
  /\ (unmarshal_wire KMac d1 = unmarshal_wire KMac d2 -> mac_consume pany (fst (snd p)) d1 ext = mac_consume pany (fst (snd p)) d2 ext)
  /\ (unmarshal_wire KEnc0 d1 = unmarshal_wire KEnc0 d2 -> enc0_consume pany (snd (snd p)) d1 ext = enc0_consume pany (snd (snd p)) d2 ext)
  /\ (unmarshal_wire KEnc d1 = unmarshal_wire KEnc d2 -> enc_consume pany (snd (snd p)) d1 ext = enc_consume pany (snd (snd p)) d2 ext).
Proof.
  exact (fun pany p vs d1 d2 ext =>
    conj (sign1_consume_wire pany (fst p) d1 d2 ext) (conj (sign_consume_wire pany vs d1 d2 ext) (conj (mac0_consume_wire pany (fst (snd p)) d1 d2 ext)
      (conj (mac_consume_wire pany (fst (snd p)) d1 d2 ext) (conj (enc0_consume_wire pany (snd (snd p)) d1 d2 ext) (enc_consume_wire pany (snd (snd p)) d1 d2 ext)))))).
Qed.
Print Assumptions C01_consume_depends_on_wire_only.

(* the hypotheses are satisfiable: a produced COSE_Sign1 over a transparent primitive, accepted back *)
Example C01_nonvacuous :
  let p := {| sg_key := [(ilabel 1, VInt KInt 4); (ilabel 3, VInt KInt (-7)); (ilabel 2, VBytes (hex "3131"))];
              sg_sign := fun tbs => Ok (hex "aa" ++ tbs)%list; sg_verify := fun tbs sig => bytes_eqb sig (hex "aa" ++ tbs)%list |} in
  match sign1_produce p None None (Some (hex "010203")) None with
  | Ok out => is_ok (sign1_consume false p out None) = true /\ is_ok (sign1_consume false p (remove_cbor_tag out) None) = true
  | _ => False
  end.
Proof. vm_compute. split; reflexivity. Qed.

(* ... and a produced COSE_Encrypt0 with a Partial IV over a transparent AEAD (the ciphertext shows nonce and AAD), decrypted *)
Example C01_nonvacuous_encrypt0 :
  let p := {| en_key := [(ilabel 1, VInt KInt 4); (ilabel 3, VInt KInt 1); (ilabel 5, VBytes (hex "0102030405060708090a0b0c"))]; en_nonce := 12%nat;
              en_encrypt := fun n pt ad => Ok (n ++ pt ++ ad)%list;
              en_decrypt := fun n ct ad => if has_prefix n ct then Ok (firstn (length ct - length n - length ad) (skipn (length n) ct)) else Err |} in
  match enc0_produce p None (Some [(ilabel 6, VBytes (hex "aabb"))]) (Some (hex "68656c6c6f")) None (hex "000000000000000000000000") with
  | Ok out => match enc0_consume false p out None with Ok v => v_payload v = Some (hex "68656c6c6f") | _ => False end
  | _ => False
  end.
Proof. vm_compute. reflexivity. Qed.

(* ... and a COSE_Mac with two recipients, one of them holding two nested recipients, header maps on every level *)
Example C01_nonvacuous_mac_recipients :
  let p := {| mc_key := [(ilabel 1, VInt KInt 4); (ilabel 3, VInt KInt 5); (ilabel 2, VBytes (hex "6b31"))];
              mc_create := fun tbm => Ok (hex "a5" ++ tbm)%list; mc_verify := fun tbm tag => bytes_eqb tag (hex "a5" ++ tbm)%list |} in
  let leaf1 := {| rl_prot := Some [(ilabel 1, VInt KInt (-6))]; rl_unprot := Some [(ilabel 4, VBytes (hex "3131"))]; rl_ct := Some (hex "c0ffee") |} in
  let leaf2 := {| rl_prot := None; rl_unprot := Some [(ilabel (-1), VMap [(ilabel 1, VInt KInt 2); (ilabel (-2), VBytes (hex "aa"))])]; rl_ct := None |} in
  let rs := [{| rc_leaf := leaf1; rc_subs := [] |}; {| rc_leaf := leaf2; rc_subs := [leaf1; leaf2] |}] in
  match mac_produce p None (Some [(LStr (hex "78"), VArr [VBool true])]) (Some (hex "010203")) (Some (hex "ee")) rs with
  | Ok out =>
      match mac_consume false p out (Some (hex "ee")) with
      | Ok (v, rs') => rs' = map recip_rb rs /\ v_payload v = Some (hex "010203")
      | _ => False
      end
      /\ is_ok (mac_consume false p (remove_cbor_tag out) (Some (hex "ee"))) = true
      /\ is_ok (mac_consume false p out None) = false
  | _ => False
  end.
Proof. exact mac_with_nested_recipients. Qed.

(* ---- the source of the tag handling: the prefix tests at the head of the six UnmarshalCBOR methods are regenerated from
   the source on every run (Gen/SlicesGen.v) and are the model's strip_prefixes of the kind, for every input: the CWT
   tag and then the kind's own tag are taken off only when the fixed prefix (tag and array head) is there; so the
   tagged, untagged and CWT-tagged forms reach the struct decoder as the same bytes (C01_all_forms_alike) *)
Theorem C01_tag_stripping_source_is_model : forall data,
  cose_Sign1Message_UnmarshalCBOR_strip data = Ok (strip_prefixes KSign1 data) /\ cose_SignMessage_UnmarshalCBOR_strip data = Ok (strip_prefixes KSign data)
  /\ cose_Mac0Message_UnmarshalCBOR_strip data = Ok (strip_prefixes KMac0 data) /\ cose_MacMessage_UnmarshalCBOR_strip data = Ok (strip_prefixes KMac data)
  /\ cose_Encrypt0Message_UnmarshalCBOR_strip data = Ok (strip_prefixes KEnc0 data) /\ cose_EncryptMessage_UnmarshalCBOR_strip data = Ok (strip_prefixes KEnc data).
Proof. exact (fun data => conj (gen_strip_sign1 data) (conj (gen_strip_sign data) (conj (gen_strip_mac0 data) (conj (gen_strip_mac data) (conj (gen_strip_enc0 data) (gen_strip_enc data)))))). Qed.
Print Assumptions C01_tag_stripping_source_is_model.

(* ---- one message object of the five single-key kinds over a history (Model/MsgObj.v, tied to the implementation by the stream objhist; COSE_Mac and COSE_Encrypt with their recipient lists): in ANY state
   of the object, a produce call followed by MarshalCBOR is the functional produce of the theorems above applied to the
   exported fields as they are at that moment; on a fresh object, UnmarshalCBOR followed by Verify / Decrypt is the
   functional consume, and the exported fields afterwards are the view it returns. The round-trip theorems above
   therefore hold for every produce call of every history. *)
Theorem C01_object_produce_is_functional : forall k o p ext draw, single k = true ->
  produce_then_marshal k o p ext draw = prod_out (functional_produce k p (o_prot o) (o_unprot o) (o_payload o) ext draw (o_recips o)).
Proof. exact produce_refines. Qed.
Print Assumptions C01_object_produce_is_functional.

Theorem C01_object_consume_is_functional : forall p data ext,
  view_out (sign1_consume false (pr_sig p) data ext) (decode_then_consume KSign1 p data ext)
  /\ view_out (mac0_consume false (pr_mac p) data ext) (decode_then_consume KMac0 p data ext)
  /\ view_out (enc0_consume false (pr_enc p) data ext) (decode_then_consume KEnc0 p data ext)
  /\ view_out_r (mac_consume false (pr_mac p) data ext) (decode_then_consume KMac p data ext)
  /\ view_out_r (enc_consume false (pr_enc p) data ext) (decode_then_consume KEnc p data ext).
Proof.
  intros p data ext.
  exact (conj (consume_refines_sign1 p data ext) (conj (consume_refines_mac0 p data ext) (conj (consume_refines_enc0 p data ext)
        (conj (consume_refines_mac p data ext) (consume_refines_enc p data ext))))).
Qed.
Print Assumptions C01_object_consume_is_functional.

(* COSE_Sign as an object: in any state WithSign (any number of signers) followed by MarshalCBOR is the functional
   sign_produce on the exported fields; on a fresh object UnmarshalCBOR followed by Verify is the functional sign_consume *)
Theorem C01_sign_object_produce_is_functional : forall o ps ext,
  sign_produce_then_marshal o ps ext = prod_out (sign_produce ps (o_prot o) (o_unprot o) (o_payload o) ext).
Proof. exact produce_refines_sign. Qed.
Print Assumptions C01_sign_object_produce_is_functional.

Theorem C01_sign_object_consume_is_functional : forall vs data ext,
  match sign_consume false vs data ext with
  | Ok (v, l) => snd (sign_decode_then_consume vs data ext) = ROk
                 /\ snap_of (fst (sign_decode_then_consume vs data ext)) = (Some (v_prot v), v_unprot v, v_payload v, [], Some l)
  | Err => snd (sign_decode_then_consume vs data ext) = RErr
  | Panic => snd (sign_decode_then_consume vs data ext) = RPanic
  end.
Proof. exact consume_refines_sign. Qed.
Print Assumptions C01_sign_object_consume_is_functional.

(* ---- the COSE_Sign entries the object model installs on WithSign are the entries the SOURCE's loop over the signers builds
   (regenerated on every run, Gen/LookupGen.cose_SignMessage_WithSign_loop, translator T16), each held with its protected
   map and that map's encoding: so the refinement theorems above speak about what the code's loop produces *)
Theorem C01_sign_object_entries_are_the_source : forall ps ext pb payload,
  MsgObj.sign_entries ps pb ext payload
  = do l <- cose_SignMessage_WithSign_loop ps ext pb payload; Ok (map sigent_of_sigout l).
Proof. exact obj_sign_entries_is_source_total. Qed.
Print Assumptions C01_sign_object_entries_are_the_source.
