(* C13 — HKDF-SHA and HKDF-AES derive exactly the RFC 5869 / RFC 9053 output.
   Only statements, `exact`, and Print Assumptions live in this file. *)
From Coq Require Import String.
From Coq Require Import ZArith NArith List Bool Arith.
From Cose Require Import Lib.Base Lib.Sha2 Lib.Hmac Lib.Aes Lib.CbcMac Lib.Hkdf Model.HkdfAes Model.HkdfAesProofs.
Import ListNotations.
Open Scope nat_scope.

(* HKDF-AES, for ANY 16-byte block function and ANY history of reads on one reader: reading in arbitrary chunks
   yields consecutive segments of RFC 5869 HKDF-Expand with AES-CBC-MAC (zero IV, zero padding) as the PRF *)
Theorem C13_reads_is_expand : forall E, (forall b, length (E b) = 16) -> forall info ns, list_sum ns <= 255 * 16 ->
  reads E info init ns = Ok (firstn (list_sum ns) (okm_stream (prf_cbcmac E) [] info)).
Proof. exact reads_is_expand. Qed.
Print Assumptions C13_reads_is_expand.

Theorem C13_stream_is_rfc5869 : forall E, (forall b, length (E b) = 16) -> forall info,
  rest E info init = okm_stream (prf_cbcmac E) [] info.
Proof. exact stream_is_rfc5869. Qed.
Print Assumptions C13_stream_is_rfc5869.

(* the PRF is the library's own AES-MAC construction with a 16-byte tag *)
Theorem C13_prf_is_library_aesmac : forall secret info pv c,
  T (aes_keyed secret) info pv c = go_create (aes_keyed secret) 16 (pv ++ info ++ [b8 c]).
Proof. exact prf_is_library_aesmac. Qed.
Print Assumptions C13_prf_is_library_aesmac.

(* the one-shot entry point: lengths up to 255 blocks succeed with the prefix of the stream, anything longer is an error *)
Theorem C13_hkdf_aes_is_rfc : forall secret info size, aes_key_ok secret = true -> size <= 255 * 16 ->
  hkdf_aes secret info size = Ok (firstn size (okm_stream (prf_cbcmac (aes_keyed secret)) [] info)).
Proof. exact hkdf_aes_is_rfc. Qed.
Print Assumptions C13_hkdf_aes_is_rfc.
Theorem C13_hkdf_aes_limit : forall secret info size, aes_key_ok secret = true -> 255 * 16 < size -> hkdf_aes secret info size = Err.
Proof. exact hkdf_aes_limit. Qed.
Print Assumptions C13_hkdf_aes_limit.
Theorem C13_exhausted_stays_exhausted : forall E, (forall b, length (E b) = 16) -> forall info ns,
  list_sum ns = 255 * 16 -> forall n, 0 < n -> reads E info init (ns ++ [n]) = Err.
Proof. exact exhausted_stays_exhausted. Qed.
Print Assumptions C13_exhausted_stays_exhausted.
Theorem C13_reads_never_panic : forall E, (forall b, length (E b) = 16) -> forall info ns s, inv s -> reads E info s ns <> Panic.
Proof. exact reads_never_panic. Qed.
Print Assumptions C13_reads_never_panic.

(* HKDF-SHA-256 / 512 (golang.org/x/crypto/hkdf, modelled by RFC 5869 over the Gallina HMAC-SHA-2) *)
Theorem C13_hkdf_sha_prefix : forall secret salt info L1 L2 o1 o2, L1 <= L2 ->
  (hkdf256 secret salt info L1 = Some o1 -> hkdf256 secret salt info L2 = Some o2 -> o1 = firstn L1 o2) /\
  (hkdf512 secret salt info L1 = Some o1 -> hkdf512 secret salt info L2 = Some o2 -> o1 = firstn L1 o2).
Proof. exact (fun s a i l1 l2 o1 o2 H => conj (hkdf256_prefix s a i l1 l2 o1 o2 H) (hkdf512_prefix s a i l1 l2 o1 o2 H)). Qed.
Print Assumptions C13_hkdf_sha_prefix.
Theorem C13_hkdf_sha_limit : forall secret salt info L,
  (hkdf256 secret salt info L = None <-> 255 * 32 < L) /\ (hkdf512 secret salt info L = None <-> 255 * 64 < L).
Proof. exact (fun s a i l => conj (hkdf256_limit s a i l) (hkdf512_limit s a i l)). Qed.
Print Assumptions C13_hkdf_sha_limit.
Theorem C13_hkdf_sha_length : forall secret salt info L o,
  (hkdf256 secret salt info L = Some o -> length o = L) /\ (hkdf512 secret salt info L = Some o -> length o = L).
Proof. exact (fun s a i l o => conj (hkdf256_length s a i l o) (hkdf512_length s a i l o)). Qed.
Print Assumptions C13_hkdf_sha_length.
