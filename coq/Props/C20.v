(* C20 — IANA registry constants carry the assigned values.
   Only statements, `exact`, and Print Assumptions live in this file. *)
From Coq Require Import List ZArith String.
From Cose Require Import Lib.GenTypes Gen.IanaGen Spec.IanaSnapshot Model.IanaCheck Model.IanaProofs.

(* Every exported constant of package iana (as regenerated from the source on
   this run) equals the value the snapshot assigns to that entry, and no two
   different entries of one registry share a value. *)
Theorem C20_iana_constants_assigned_and_distinct :
  iana_ok IanaGen.consts IanaSnapshot.snapshot.
Proof. exact IanaProofs.iana_consistent. Qed.
Print Assumptions C20_iana_constants_assigned_and_distinct.

(* Non-vacuity: the list is the full package (197 constants at the pinned commit; at least 190 required). *)
Theorem C20_domain_nonempty : (190 <= Z.of_nat (List.length IanaGen.consts))%Z.
Proof. exact IanaProofs.domain_size. Qed.
Print Assumptions C20_domain_nonempty.

(* The constants are those of every build configuration: compiled under each build tag that the library's own sources
   mention (the translator collects them from the //go:build lines and compiles package iana once per tag), no
   exported constant is absent, added or given another value. *)
Theorem C20_same_constants_under_every_build_tag : IanaGen.tag_variants = nil.
Proof. exact IanaProofs.no_tag_variants. Qed.
Print Assumptions C20_same_constants_under_every_build_tag.
