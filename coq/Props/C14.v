(* C14 — ECDH agreement is symmetric, encoding-independent and rejects bad points.
   Only statements, `exact`, and Print Assumptions live in this file.
   ecdh dh local remote is the model of ECDHer.ECDH (Model/Ecdh.v): key_ops gate, refusal of a private remote key,
   KeyToPublic (CheckKey, integer decoding of x and y or decompression, curve equation), then the curve's
   Diffie-Hellman function dh, which is a parameter (Go's crypto/ecdh). The curve equation and decompression of
   P-256 / P-384 / P-521 are computed in Gallina (Lib/Curves.v) and compared with crypto/elliptic by the ecdh stream;
   shared secrets are compared by the ecdh oracle with a textbook math/big implementation (affine Weierstrass
   arithmetic, RFC 7748 ladder) for every pair of encodings. *)
From Coq Require Import String.
From Coq Require Import NArith ZArith List Bool.
From Cose Require Import Lib.Base Lib.Curves Model.GoVal Model.Key Model.Ecdh.
Import ListNotations.
Open Scope Z_scope.

(* the point handed to the primitive depends on x and y as integers only: fixed-length and stripped coordinates agree *)
Theorem C14_coordinates_as_integers : forall k1 k2 c x1 y1 x2 y2,
  check_key_ecdh k1 = true -> check_key_ecdh k2 = true ->
  get_int_ k1 (-1) = get_int_ k2 (-1) -> get_int_ k1 (-1) <> 4 -> curve_of (get_int_ k1 (-1)) = Some c ->
  get_bytes_ k1 (-2) = x1 -> get_bytes_ k2 (-2) = x2 ->
  lookup k1 (ilabel (-3)) = Some (VBytes y1) -> lookup k2 (ilabel (-3)) = Some (VBytes y2) -> y1 <> [] -> y2 <> [] ->
  os2ip x1 = os2ip x2 -> os2ip y1 = os2ip y2 ->
  remote_point k1 = remote_point k2.
Proof. exact remote_point_integers_only. Qed.
Print Assumptions C14_coordinates_as_integers.

Theorem C14_leading_zeros_irrelevant : forall k1 k2 c x y n m,
  check_key_ecdh k1 = true -> check_key_ecdh k2 = true ->
  get_int_ k1 (-1) = get_int_ k2 (-1) -> get_int_ k1 (-1) <> 4 -> curve_of (get_int_ k1 (-1)) = Some c ->
  get_bytes_ k1 (-2) = x -> get_bytes_ k2 (-2) = (zeros n ++ x)%list ->
  lookup k1 (ilabel (-3)) = Some (VBytes y) -> lookup k2 (ilabel (-3)) = Some (VBytes (zeros m ++ y)%list) -> y <> [] ->
  remote_point k1 = remote_point k2.
Proof. exact leading_zeros_irrelevant. Qed.
Print Assumptions C14_leading_zeros_irrelevant.

(* the compressed form denotes the same point, given that decompression returns the point that was compressed
   (checked by computation on every decompression the ecdh stream sends, against crypto/elliptic) *)
Theorem C14_compressed_form_same_point : forall k1 k2 c x y,
  check_key_ecdh k1 = true -> check_key_ecdh k2 = true ->
  get_int_ k1 (-1) = get_int_ k2 (-1) -> get_int_ k1 (-1) <> 4 -> curve_of (get_int_ k1 (-1)) = Some c ->
  get_bytes_ k1 (-2) = x -> get_bytes_ k2 (-2) = x -> (length x <= csize c)%nat ->
  lookup k1 (ilabel (-3)) = Some (VBytes y) -> y <> [] ->
  lookup k2 (ilabel (-3)) = Some (VBool (Z.odd (os2ip y))) ->
  on_curve c (os2ip x) (os2ip y) = true ->
  decompress c (os2ip x) (Z.odd (os2ip y)) = Some (os2ip x, os2ip y) ->
  remote_point k1 = remote_point k2.
Proof. exact compressed_form_same_point. Qed.
Print Assumptions C14_compressed_form_same_point.

(* both sides obtain the same secret from any accepted encodings, given the symmetry of the Diffie-Hellman function *)
Theorem C14_agreement : forall dh la lb pa pb ra rb crv,
  (empty_or_has (key_ops la) 7 || empty_or_has (key_ops la) 8) = true ->
  (empty_or_has (key_ops lb) 7 || empty_or_has (key_ops lb) 8) = true ->
  has pa (-4) = false -> has pb (-4) = false ->
  get_int_ la (-1) = crv -> get_int_ lb (-1) = crv ->
  remote_point pa = Ok (crv, ra) -> remote_point pb = Ok (crv, rb) ->
  dh crv (get_bytes_ la (-4)) rb = dh crv (get_bytes_ lb (-4)) ra ->
  ecdh dh la pb = ecdh dh lb pa.
Proof. exact agreement. Qed.
Print Assumptions C14_agreement.

(* a remote key that is private, on another curve, or not a point of the curve yields an error and never a secret *)
Theorem C14_private_remote_refused : forall dh l r, has r (-4) = true -> ecdh dh l r = Err.
Proof. exact private_remote_refused. Qed.
Print Assumptions C14_private_remote_refused.

Theorem C14_other_curve_refused : forall dh l r crv pt, remote_point r = Ok (crv, pt) -> crv <> get_int_ l (-1) -> ecdh dh l r = Err.
Proof. exact other_curve_refused. Qed.
Print Assumptions C14_other_curve_refused.

Theorem C14_off_curve_refused : forall k c x y, check_key_ecdh k = true -> get_int_ k (-1) <> 4 -> curve_of (get_int_ k (-1)) = Some c ->
  get_bytes_ k (-2) = x -> lookup k (ilabel (-3)) = Some (VBytes y) -> on_curve c (os2ip x) (os2ip y) = false -> remote_point k = Err.
Proof. exact off_curve_refused. Qed.
Print Assumptions C14_off_curve_refused.

Theorem C14_bad_point_refused : forall dh l r, remote_point r = Err -> ecdh dh l r = Err.
Proof. exact bad_point_refused. Qed.
Print Assumptions C14_bad_point_refused.

Theorem C14_secret_only_from_primitive : forall dh l r s, ecdh dh l r = Ok s ->
  exists pt, remote_point r = Ok (get_int_ l (-1), pt) /\ has r (-4) = false /\ dh (get_int_ l (-1)) (get_bytes_ l (-4)) pt = Ok s.
Proof. exact secret_only_from_primitive. Qed.
Print Assumptions C14_secret_only_from_primitive.

(* the reference arithmetic on its own base points *)
Example C14_nonvacuous : on_curve p256 (cgx p256) (cgy p256) = true /\ on_curve p256 (cgx p256) (cgy p256 + 1) = false
  /\ decompress p256 (cgx p256) (Z.odd (cgy p256)) = Some (cgx p256, cgy p256).
Proof. vm_compute. repeat split; reflexivity. Qed.
