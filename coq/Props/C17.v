(* C17 — keys survive serialisation and always dispatch to their own algorithm.
   Only statements, `exact`, and Print Assumptions live in this file. *)
From Coq Require Import String.
From Coq Require Import ZArith List Bool.
From Cose Require Import Lib.Base Lib.GenTypes Model.GoVal Model.Key Model.KeyProofs Model.MsgLogic Model.MsgLogicProofs
     Model.Dispatch Model.DispatchProofs Model.Equiv Spec.RFC9053
     Lib.Cbor Lib.CborProofs Model.CborGo Model.Wire Model.ValueRoundTrip Model.Text Model.TextProofs Model.KeyRoundTrip Lib.GoSem Model.HdrSem Gen.FuncsGen Gen.KeyFuncsGen Model.KeyFuncsProofs Model.Msg Gen.LookupGen Model.LookupProofs.
Import ListNotations.
Open Scope Z_scope.

(* obtaining an implementation depends only on key type, algorithm and curve ... *)
Theorem C17_triple_depends_only_on : forall k k',
  kty k = kty k' -> key_alg k = key_alg k' -> get_int_ k (-1) = get_int_ k' (-1) -> triple k = triple k'.
Proof. exact triple_depends_only_on. Qed.
Print Assumptions C17_triple_depends_only_on.

(* ... with the documented defaults when the algorithm is absent *)
Theorem C17_triple_defaults : forall k, key_alg k = 0 ->
  triple k = if kty k =? 1 then (1, -8, 6) else if kty k =? 2 then (2, -7, 1) else (kty k, 0, get_int_ k (-1)).
Proof. exact triple_defaults. Qed.
Print Assumptions C17_triple_defaults.

(* fails for unregistered combinations and for a nil key; the registry read from the source is exactly the 28 registrations *)
Theorem C17_dispatch_registered_only : forall kind k pkg, dispatch kind (Some k) = Some pkg ->
  In (kind, fst (fst (triple k)), snd (fst (triple k)), snd (triple k), pkg) Spec.RFC9053.registrations.
Proof. exact dispatch_registered_only. Qed.
Print Assumptions C17_dispatch_registered_only.
Theorem C17_dispatch_nil_key : forall kind, dispatch kind None = None.
Proof. exact dispatch_nil_key. Qed.
Print Assumptions C17_dispatch_nil_key.
Theorem C17_registrations_are_spec : forall r, In r gen_regs <-> In r Spec.RFC9053.registrations.
Proof. exact registrations_are_spec. Qed.
Print Assumptions C17_registrations_are_spec.
Theorem C17_registrations_only_in_init :
  forallb (fun r => match r with (_, _, _, _, _, _, fn) => String.eqb fn "init" end) Gen.RegistryGen.registrations = true
  /\ Gen.RegistryGen.unrecognized_registrations = [].
Proof. exact registrations_only_in_init. Qed.
Print Assumptions C17_registrations_only_in_init.

(* the implementation obtained was registered for exactly the key's own (non-zero) algorithm, and its factory accepted the key *)
Theorem C17_impl_realises_alg : forall C kind k, obtain C kind k = true ->
  exists pkg, In (kind, kty k, key_alg k, get_int_ k (-1), pkg) Spec.RFC9053.registrations
              /\ factory_ok C kind pkg k = true /\ key_alg k <> 0.
Proof. exact impl_realises_alg. Qed.
Print Assumptions C17_impl_realises_alg.

(* key, tag and nonce sizes, hash and curve per algorithm, as read from the source, are the RFC 9053 ones *)
Theorem C17_tables_are_rfc9053 :
  forallb (fun e => (key_size "key/hmac" (fst e) =? fst (snd e)) && (tag_size "key/hmac" (fst e) =? snd (snd e))) hmac_table = true
  /\ forallb (fun e => (key_size "key/aesmac" (fst e) =? fst (snd e)) && (tag_size "key/aesmac" (fst e) =? snd (snd e))) aesmac_table = true
  /\ forallb (fun e => key_size "key/aesgcm" (fst e) =? snd e) aesgcm_table = true
  /\ forallb (fun e => match snd e with (ks, ts, ns) =>
        (key_size "key/aesccm" (fst e) =? ks) && (tag_size "key/aesccm" (fst e) =? ts) && (tcol Gen.TablesGen.key_aesccm_getKeySize (fst e) 2 =? ns) end) aesccm_table = true
  /\ forallb (fun e => match snd e with (ks, _, _) => key_size "key/chacha20poly1305" (fst e) =? ks end) chacha_table = true
  /\ forallb (fun e => hash_func (fst e) =? snd e) hmac_hash = true
  /\ forallb (fun e => match snd e with (t, c, h, _) => (hash_func (fst e) =? h) && (crv_alg c =? fst e) end) sig_table = true
  /\ forallb (fun e => match snd e with (_, c, _, _) => if fst e =? -8 then true else ecdsa_crv (fst e) =? c end) sig_table = true.
Proof. exact tables_are_rfc9053. Qed.
Print Assumptions C17_tables_are_rfc9053.

(* whatever Go integer types (and key_ops slice type) decoding produced, the key obtains the same implementations
   and passes the same per-operation gates *)
Theorem C17_obtain_meq : forall C kind k k', meq k k' -> obtain C kind k' = obtain C kind k.
Proof. exact obtain_meq. Qed.
Print Assumptions C17_obtain_meq.
Theorem C17_gate_meq : forall k k' op, meq k k' -> empty_or_has (key_ops k') op = empty_or_has (key_ops k) op.
Proof. exact gate_meq. Qed.
Print Assumptions C17_gate_meq.

(* looking a key / signer / verifier up by key id returns an entry whose id is exactly equal, or none *)
Theorem C17_lookup_exact : forall vs id k, lookup_kid vs id = Some k -> kid k = id /\ In k vs.
Proof. exact lookup_kid_exact. Qed.
Print Assumptions C17_lookup_exact.
Theorem C17_lookup_none : forall vs id, lookup_kid vs id = None <-> (forall k, In k vs -> kid k <> id).
Proof. exact lookup_kid_none. Qed.
Print Assumptions C17_lookup_none.

(* a key after a CBOR, text or JSON round trip: for a key as applications build it (Go `int` / text labels, no label twice,
   integer / byte string / text / boolean / null members, key_ops as []int or key.Ops) the three forms decode to one and the
   same map k', and k' obtains the same implementations, passes the same CheckKey and the same per-operation gates as k,
   for arbitrary crypto primitives *)
Theorem C17_key_roundtrip_interchangeable : forall C k bs, good_key k ->
  enc_cosemap k = Some bs ->
  (forall it, item_of (VMap k) = Some it -> encodable it = true) ->
  exists k', cosemap_of_bytes bs = Ok k'
    /\ (exists t, cosemap_text k = Some t /\ cosemap_of_text t = Ok k')
    /\ (exists j, cosemap_json k = Some j /\ cosemap_of_json j = Ok k')
    /\ (forall kind, obtain C kind k' = obtain C kind k)
    /\ (forall op, empty_or_has (key_ops k') op = empty_or_has (key_ops k) op)
    /\ (forall f op, sym_performs f op k' = sym_performs f op k)
    /\ ecdh_local_performs C k' = ecdh_local_performs C k.
Proof. exact key_roundtrip_interchangeable. Qed.
Print Assumptions C17_key_roundtrip_interchangeable.

(* the order in which a map holds its entries is irrelevant to dispatch *)
Theorem C17_obtain_order_irrelevant : forall C kind k k', Permutation.Permutation k k' -> NoDup (map fst k) -> obtain C kind k' = obtain C kind k.
Proof. exact obtain_perm. Qed.
Print Assumptions C17_obtain_order_irrelevant.

(* the hypotheses are satisfiable: an HMAC key with key_ops whose entries are not in the encoder's order *)
Theorem C17_roundtrip_nonvacuous :
  let k := [(ilabel 3, VInt KInt 5); (ilabel 1, VInt KInt 4); (ilabel (-1), VBytes (zeros 32)); (ilabel 4, VOps (Some [9; 10])); (ilabel 2, VBytes (hex "6b6964"))] in
  good_key k /\ read_back k <> k /\ sym_performs Hmac 9 k = true
  /\ (forall it, item_of (VMap k) = Some it -> encodable it = true).
Proof. exact good_key_example. Qed.
Print Assumptions C17_roundtrip_nonvacuous.

(* ---- the source of the accessors every dispatch and every CheckKey goes through (Key.Kty, Key.Alg with its curve
   fallback key.CrvAlg, Key.Kid, Key.BaseIV: bodies regenerated by the translator on every run, T14 / T11) is the model:
   a malformed alg reads as 0 without curve fallback, an absent or zero alg falls back to the curve's algorithm *)
Theorem C17_key_alg_source_is_model : forall k k_nil, key_Key_Alg k k_nil = Ok (key_alg k).
Proof. exact gen_key_alg. Qed.
Print Assumptions C17_key_alg_source_is_model.

Theorem C17_crv_alg_source_is_model : forall c, FuncsGen.key_CrvAlg c = Ok (crv_alg c).
Proof. exact gen_crv_alg. Qed.
Print Assumptions C17_crv_alg_source_is_model.

Theorem C17_key_kty_kid_source_is_model : forall k k_nil, (k_nil = true -> k = []) ->
  key_Key_Kty k k_nil = Ok (kty k) /\ key_Key_Kid k k_nil = Ok (kid k) /\ key_Key_BaseIV k k_nil = Ok (base_iv k).
Proof. exact (fun k k_nil H => conj (gen_key_kty k k_nil H) (conj (gen_key_kid k k_nil) (gen_key_base_iv k k_nil))). Qed.
Print Assumptions C17_key_kty_kid_source_is_model.

(* ---- the source of the lookups by key id (Verifiers.Lookup, Signers.Lookup, KeySet.Lookup: bodies regenerated on every
   run, T15): the first entry whose key id is byte-for-byte the requested one, or none *)
Theorem C17_lookup_source_is_model : forall (vs : list sigprim) (ks : list cosemap) id,
  key_Verifiers_Lookup vs id = Ok (lookup_prim vs id) /\ key_Signers_Lookup vs id = Ok (lookup_prim vs id)
  /\ key_KeySet_Lookup ks id = Ok (lookup_kid ks id).
Proof. exact (fun vs ks id => conj (gen_verifiers_lookup vs id) (conj (gen_signers_lookup vs id) (gen_keyset_lookup ks id))). Qed.
Print Assumptions C17_lookup_source_is_model.
