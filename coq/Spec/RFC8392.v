(* RFC 8392 section 7.2 validation of a CWT claims set, in exact integers.
   Times: `now` is (seconds since year 1, nanoseconds) as Go's time.Time holds it;
   claims are NumericDate seconds since 1970; the skew is signed nanoseconds. *)
From Coq Require Import String.
From Coq Require Import ZArith List Bool.
From Cose Require Import Lib.Base Model.GoVal.
Import ListNotations.
Open Scope Z_scope.

Definition MaxI64 : Z := 9223372036854775807.
Definition K : Z := 62135596800.            (* seconds from year 1 to 1970 *)
Definition G : Z := 1000000000.             (* ns per s *)
Definition Bmax : Z := MaxI64 - K.          (* largest NumericDate a time.Time can represent *)

Definition gtime := (Z * Z)%type.
Definition unix_ns (now : gtime) : Z := (fst now - K) * G + snd now.

Record claims := { c_iss : bytes; c_aud : bytes; c_exp : Z; c_nbf : Z; c_iat : Z }.
Record vopts := { o_iss : bytes; o_aud : bytes; o_allow_missing : bool; o_iat_past : bool; o_skew : Z }.

Definition is_empty (b : bytes) : bool := match b with [] => true | _ => false end.

(* exp: "strictly after now minus the skew"; nbf/iat: "does not lie after now plus the skew";
   a claim above Bmax is not representable and is rejected, never wrapped *)
Definition exp_ok (o : vopts) (now : gtime) (u : Z) : bool := (u <=? Bmax) && (unix_ns now - o_skew o <? u * G).
Definition nbf_ok (o : vopts) (now : gtime) (u : Z) : bool := (u <=? Bmax) && (u * G <=? unix_ns now + o_skew o).

(* struct form: 0 and "" denote an absent claim (omitempty) *)
Definition accept (o : vopts) (now : gtime) (c : claims) : bool :=
  (if c_exp c =? 0 then o_allow_missing o else exp_ok o now (c_exp c))
  && (if c_nbf c =? 0 then true else nbf_ok o now (c_nbf c))
  && (if (c_iat c =? 0) || negb (o_iat_past o) then true else nbf_ok o now (c_iat c))
  && (is_empty (o_iss o) || bytes_eqb (o_iss o) (c_iss c))
  && (is_empty (o_aud o) || bytes_eqb (o_aud o) (c_aud c)).

(* map form: a time claim must be a non-negative integer of any Go integer type *)
Definition uint_of (v : gval) : option Z :=
  match v with
  | VInt k z => if is_signed k then (if 0 <=? z then Some z else None) else Some z
  | _ => None
  end.
Definition text_of (v : gval) : option bytes := match v with VStr s => Some s | _ => None end.

Definition accept_map (o : vopts) (now : gtime) (m : cosemap) : bool :=
  (match lookup m (ilabel 4) with
   | None => o_allow_missing o
   | Some v => match uint_of v with Some u => exp_ok o now u | None => false end
   end)
  && (match lookup m (ilabel 5) with
      | None => true
      | Some v => match uint_of v with Some u => nbf_ok o now u | None => false end
      end)
  && (match lookup m (ilabel 6) with
      | None => true
      | Some v => match uint_of v with
                  | Some u => if (u =? 0) || negb (o_iat_past o) then true else nbf_ok o now u
                  | None => false
                  end
      end)
  && (match lookup m (ilabel 1) with
      | None => is_empty (o_iss o)
      | Some v => match text_of v with Some s => is_empty (o_iss o) || bytes_eqb (o_iss o) s | None => false end
      end)
  && (match lookup m (ilabel 3) with
      | None => is_empty (o_aud o)
      | Some v => match text_of v with Some s => is_empty (o_aud o) || bytes_eqb (o_aud o) s | None => false end
      end).
