(* Published test vectors: they validate the Gallina reference primitives inside Coq. *)
From Coq Require Import String.
From Coq Require Import NArith List.
From Cose Require Import Lib.Base Lib.Sha2 Lib.Hmac Lib.Aes Lib.CbcMac.
Import ListNotations.
Open Scope string_scope.

(* FIPS 180-4 examples *)
Example sha256_abc : sha256 (hex "616263") = hex "ba7816bf8f01cfea414140de5dae2223b00361a396177a9cb410ff61f20015ad".
Proof. vm_compute. reflexivity. Qed.
Example sha256_empty : sha256 [] = hex "e3b0c44298fc1c149afbf4c8996fb92427ae41e4649b934ca495991b7852b855".
Proof. vm_compute. reflexivity. Qed.
Example sha256_two_blocks : sha256 (hex "6162636462636465636465666465666765666768666768696768696a68696a6b696a6b6c6a6b6c6d6b6c6d6e6c6d6e6f6d6e6f706e6f7071")
  = hex "248d6a61d20638b8e5c026930c3e6039a33ce45964ff2167f6ecedd419db06c1".
Proof. vm_compute. reflexivity. Qed.
Example sha384_abc : sha384 (hex "616263") = hex "cb00753f45a35e8bb5a03d699ac65007272c32ab0eded1631a8b605a43ff5bed8086072ba1e7cc2358baeca134c825a7".
Proof. vm_compute. reflexivity. Qed.
Example sha512_abc : sha512 (hex "616263") = hex "ddaf35a193617abacc417349ae20413112e6fa4e89a97ea20a9eeee64b55d39a2192992a274fc1a836ba3c23a3feebbd454d4423643ce80e2a9ac94fa54ca49f".
Proof. vm_compute. reflexivity. Qed.
Example sha512_empty : sha512 [] = hex "cf83e1357eefb8bdf1542850d66d8007d620e4050b5715dc83f4a921d36ce9ce47d0d13c5d85f2b0ff8318d2877eec2f63b931bd47417a81a538327af927da3e".
Proof. vm_compute. reflexivity. Qed.

(* RFC 4231 HMAC test cases 1, 2 and 6 (key longer than the block) *)
Example hmac256_tc1 : hmac_sha256 (hex "0b0b0b0b0b0b0b0b0b0b0b0b0b0b0b0b0b0b0b0b") (hex "4869205468657265")
  = hex "b0344c61d8db38535ca8afceaf0bf12b881dc200c9833da726e9376c2e32cff7".
Proof. vm_compute. reflexivity. Qed.
Example hmac256_tc2 : hmac_sha256 (hex "4a656665") (hex "7768617420646f2079612077616e7420666f72206e6f7468696e673f")
  = hex "5bdcc146bf60754e6a042426089575c75a003f089d2739839dec58b964ec3843".
Proof. vm_compute. reflexivity. Qed.
Example hmac384_tc2 : hmac_sha384 (hex "4a656665") (hex "7768617420646f2079612077616e7420666f72206e6f7468696e673f")
  = hex "af45d2e376484031617f78d2b58a6b1b9c7ef464f5a01b47e42ec3736322445e8e2240ca5e69e2c78b3239ecfab21649".
Proof. vm_compute. reflexivity. Qed.
Example hmac512_tc2 : hmac_sha512 (hex "4a656665") (hex "7768617420646f2079612077616e7420666f72206e6f7468696e673f")
  = hex "164b7a7bfcf819e2e395fbe73b56e0a387bd64222e831fd610270cd7ea2505549758bf75c05a994a6d034f65f8f0e6fdcaeab1a34d4a6b4b636e070a38bce737".
Proof. vm_compute. reflexivity. Qed.
Example hmac256_tc6 : hmac_sha256 (repeat Byte.xaa 131)
  (hex "54657374205573696e67204c6172676572205468616e20426c6f636b2d53697a65204b6579202d2048617368204b6579204669727374")
  = hex "60e431591ee0b67f0d8a26aacbf5b77f8e0bc6213728c5140546040f0ee37f54".
Proof. vm_compute. reflexivity. Qed.

(* FIPS 197 appendix C *)
Example aes128_c1 : aes_keyed (hex "000102030405060708090a0b0c0d0e0f") (hex "00112233445566778899aabbccddeeff") = hex "69c4e0d86a7b0430d8cdb78070b4c55a".
Proof. vm_compute. reflexivity. Qed.
Example aes192_c2 : aes_keyed (hex "000102030405060708090a0b0c0d0e0f1011121314151617") (hex "00112233445566778899aabbccddeeff") = hex "dda97ca4864cdfe06eaf70a0ec0d7191".
Proof. vm_compute. reflexivity. Qed.
Example aes256_c3 : aes_keyed (hex "000102030405060708090a0b0c0d0e0f101112131415161718191a1b1c1d1e1f") (hex "00112233445566778899aabbccddeeff") = hex "8ea2b7ca516745bfeafc49904b496089".
Proof. vm_compute. reflexivity. Qed.

(* RFC 3610 packet vector #1, GCM specification test case 2, RFC 8439 section 2.8.2 *)
From Cose Require Import Spec.RFC3610 Lib.Gcm Lib.ChaChaPoly.
Example ccm_rfc3610_pv1 :
  RFC3610.seal (aes_keyed (hex "c0c1c2c3c4c5c6c7c8c9cacbcccdcecf")) 8 2 (hex "00000003020100a0a1a2a3a4a5")
    (hex "08090a0b0c0d0e0f101112131415161718191a1b1c1d1e") (hex "0001020304050607")
  = hex "588c979a61c663d2f066d0c2c0f989806d5f6b61dac38417e8d12cfdf926e0".
Proof. vm_compute. reflexivity. Qed.
Example gcm_tc2 : gcm_seal (aes_keyed (zeros 16)) (zeros 12) (zeros 16) [] = hex "0388dace60b6a392f328c2b971b2fe78ab6e47d42cec13bdf53a67b21257bddf".
Proof. vm_compute. reflexivity. Qed.
Example gcm_tc1 : gcm_seal (aes_keyed (zeros 16)) (zeros 12) [] [] = hex "58e2fccefa7e3061367f1d57a4e7455a".
Proof. vm_compute. reflexivity. Qed.
Example chachapoly_rfc8439_tag :
  skipn 114 (chachapoly_seal (hex "808182838485868788898a8b8c8d8e8f909192939495969798999a9b9c9d9e9f") (hex "070000004041424344454647")
    (hex "4c616469657320616e642047656e746c656d656e206f662074686520636c617373206f66202739393a204966204920636f756c64206f6666657220796f75206f6e6c79206f6e652074697020666f7220746865206675747572652c2073756e73637265656e20776f756c642062652069742e")
    (hex "50515253c0c1c2c3c4c5c6c7"))
  = hex "1ae10b594f09e26a7e902ecbd0600691".
Proof. vm_compute. reflexivity. Qed.
