(* Published vectors for the reference curve arithmetic of Lib/Curves.v (slow: built by the thorough tier). *)
From Coq Require Import ZArith List Bool String.
From Cose Require Import Lib.Base Lib.Curves.
Open Scope Z_scope.

(* the base points satisfy the curve equations; n G is the point at infinity; 2 G on P-256 (SEC 2 / NIST) *)
Example base_points_on_curve : (on_curve p256 (cgx p256) (cgy p256) && on_curve p384 (cgx p384) (cgy p384) && on_curve p521 (cgx p521) (cgy p521)) = true.
Proof. vm_compute. reflexivity. Qed.

Example p256_2G : base_mul p256 2 = Some (0x7cf27b188d034f7e8a52380304b51ac3c08969e277f21b35a60b48fc47669978, 0x07775510db8ed040293d9ac69f7430dbba7dade63ce982299e04b79d227873d1).
Proof. vm_compute. reflexivity. Qed.

Example p256_nG_is_infinity : base_mul p256 (cn p256) = None.
Proof. vm_compute. reflexivity. Qed.

Example p256_decompress_base : decompress p256 (cgx p256) (Z.odd (cgy p256)) = Some (cgx p256, cgy p256).
Proof. vm_compute. reflexivity. Qed.

(* RFC 7748 section 6.1 *)
Example rfc7748_alice_public :
  x25519 (hex "77076d0a7318a57d3c16c17251b26645df4c2f87ebc0992ab177fba51db92c2a") x25519_base
  = hex "8520f0098930a754748b7ddcb43ef75a0dbf3a0d26381af4eba4a98eaa9b4e6a".
Proof. vm_compute. reflexivity. Qed.
