(* RFC 9053 algorithm tables (and the COSE registrations the library claims to implement), transcribed by hand. *)
From Coq Require Import String.
From Coq Require Import ZArith List.
Import ListNotations.
Open Scope Z_scope.
Open Scope string_scope.

(* (alg, key bytes, tag bytes) *)
Definition hmac_table : list (Z * (Z * Z)) := [(4, (32, 8)); (5, (32, 32)); (6, (48, 48)); (7, (64, 64))].
Definition aesmac_table : list (Z * (Z * Z)) := [(14, (16, 8)); (15, (32, 8)); (25, (16, 16)); (26, (32, 16))].
(* (alg, key bytes); tag 16, nonce 12 *)
Definition aesgcm_table : list (Z * Z) := [(1, 16); (2, 24); (3, 32)].
(* (alg, (key bytes, tag bytes, nonce bytes)); L = 15 - nonce *)
Definition aesccm_table : list (Z * (Z * Z * Z)) :=
  [(10, (16, 8, 13)); (11, (32, 8, 13)); (12, (16, 8, 7)); (13, (32, 8, 7));
   (30, (16, 16, 13)); (31, (32, 16, 13)); (32, (16, 16, 7)); (33, (32, 16, 7))].
Definition chacha_table : list (Z * (Z * Z * Z)) := [(24, (32, 16, 12))].
(* signature algorithms: (alg, (kty, crv, hash id as crypto.Hash: SHA256=5, SHA384=6, SHA512=7, none=0, signature bytes)) *)
Definition sig_table : list (Z * (Z * Z * Z * Z)) :=
  [(-7, (2, 1, 5, 64)); (-35, (2, 2, 6, 96)); (-36, (2, 3, 7, 132)); (-8, (1, 6, 0, 64))].
(* HMAC hashes *)
Definition hmac_hash : list (Z * Z) := [(4, 5); (5, 5); (6, 6); (7, 7)].

(* the 28 registrations: (kind, kty, alg, crv, package) *)
Definition registrations : list (string * Z * Z * Z * string) :=
  [("Encryptor", 4, 10, 0, "key/aesccm"); ("Encryptor", 4, 11, 0, "key/aesccm"); ("Encryptor", 4, 12, 0, "key/aesccm"); ("Encryptor", 4, 13, 0, "key/aesccm");
   ("Encryptor", 4, 30, 0, "key/aesccm"); ("Encryptor", 4, 31, 0, "key/aesccm"); ("Encryptor", 4, 32, 0, "key/aesccm"); ("Encryptor", 4, 33, 0, "key/aesccm");
   ("Encryptor", 4, 1, 0, "key/aesgcm"); ("Encryptor", 4, 2, 0, "key/aesgcm"); ("Encryptor", 4, 3, 0, "key/aesgcm");
   ("MACer", 4, 14, 0, "key/aesmac"); ("MACer", 4, 15, 0, "key/aesmac"); ("MACer", 4, 25, 0, "key/aesmac"); ("MACer", 4, 26, 0, "key/aesmac");
   ("Encryptor", 4, 24, 0, "key/chacha20poly1305");
   ("Signer", 2, -7, 1, "key/ecdsa"); ("Signer", 2, -35, 2, "key/ecdsa"); ("Signer", 2, -36, 3, "key/ecdsa");
   ("Verifier", 2, -7, 1, "key/ecdsa"); ("Verifier", 2, -35, 2, "key/ecdsa"); ("Verifier", 2, -36, 3, "key/ecdsa");
   ("Signer", 1, -8, 6, "key/ed25519"); ("Verifier", 1, -8, 6, "key/ed25519");
   ("MACer", 4, 4, 0, "key/hmac"); ("MACer", 4, 5, 0, "key/hmac"); ("MACer", 4, 6, 0, "key/hmac"); ("MACer", 4, 7, 0, "key/hmac")].
