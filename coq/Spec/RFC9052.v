(* RFC 9052 sections 4.4, 5.3 and 6.3: the structures that are signed, MACed, or given to the AEAD as
   additional data. Written from the RFC text; the context strings are literals here, not taken from the source. *)
From Coq Require Import String.
From Coq Require Import NArith List.
From Cose Require Import Lib.Base Lib.Cbor.
Import ListNotations.

Inductive context := Signature1 | Signature | MAC0 | MAC | Encrypt0 | Encrypt.

Definition context_string (c : context) : string :=
  match c with
  | Signature1 => "Signature1" | Signature => "Signature" | MAC0 => "MAC0" | MAC => "MAC"
  | Encrypt0 => "Encrypt0" | Encrypt => "Encrypt"
  end.

Fixpoint text (s : string) : bytes :=
  match s with EmptyString => [] | String a r => b8 (Ascii.N_of_ascii a) :: text r end.

(* Sig_structure = [ context, body_protected, ? sign_protected, external_aad, payload ] *)
Definition Sig_structure (c : context) (body_protected : bytes) (sign_protected : option bytes) (external_aad payload : bytes) : item :=
  IArr ([ITstr (text (context_string c)); IBstr body_protected]
        ++ match sign_protected with Some s => [IBstr s] | None => [] end
        ++ [IBstr external_aad; IBstr payload]).

(* MAC_structure = [ context, protected, external_aad, payload ] *)
Definition MAC_structure (c : context) (protected external_aad payload : bytes) : item :=
  IArr [ITstr (text (context_string c)); IBstr protected; IBstr external_aad; IBstr payload].

(* Enc_structure = [ context, protected, external_aad ] *)
Definition Enc_structure (c : context) (protected external_aad : bytes) : item :=
  IArr [ITstr (text (context_string c)); IBstr protected; IBstr external_aad].

(* externally supplied data: absent means the zero-length byte string *)
Definition aad (external : option bytes) : bytes := match external with Some e => e | None => [] end.
