(* RFC 3610: Counter with CBC-MAC (CCM), over an arbitrary 16-byte block function E.
   M = tag length (4..16, even), L = length-field size (2..8), nonce length = 15 - L. *)
From Coq Require Import String.
From Coq Require Import NArith List Arith Lia.
From Cose Require Import Lib.Base Lib.CbcMac.
Import ListNotations.

Definition chunk16 (d : bytes) : list bytes := let p := zero_pad d in blocks (length p / 16) p.
Definition xor_bytes_trunc (a b : bytes) : bytes := map (fun p => xor_byte (fst p) (snd p)) (combine a b).

Section CCM.
  Variable E : bytes -> bytes.
  Variables M L : nat.

  (* section 2.2: B_0 = flags | nonce | l(m) *)
  Definition flags0 (adata : bool) : N :=
    ((if adata then 64 else 0) + 8 * ((N.of_nat M - 2) / 2) + (N.of_nat L - 1))%N.
  Definition B0 (nonce : bytes) (plen alen : nat) : bytes :=
    b8 (flags0 (negb (alen =? 0))) :: nonce ++ be L (N.of_nat plen).

  (* encoding of l(a) *)
  Definition enc_alen (n : N) : bytes :=
    if (n =? 0)%N then []
    else if (n <? 65280)%N then be 2 n
    else if (n <? 4294967296)%N then Byte.xff :: Byte.xfe :: be 4 n
    else Byte.xff :: Byte.xff :: be 8 n.

  Definition auth_blocks (a : bytes) : list bytes :=
    match a with [] => [] | _ => chunk16 (enc_alen (N.of_nat (length a)) ++ a) end.

  (* T = first M bytes of the CBC-MAC over B_0, the authenticated data blocks and the message blocks *)
  Definition cbcmac_T (nonce m a : bytes) : bytes :=
    firstn M (cbc_fold E zero16 (B0 nonce (length m) (length a) :: auth_blocks a ++ chunk16 m)).

  (* section 2.3: A_i = flags | nonce | counter i ; S_i = E(A_i) (named Ablk / Sblk here) *)
  Definition Ablk (nonce : bytes) (i : N) : bytes := b8 (N.of_nat L - 1) :: nonce ++ be L i.
  Definition Sblk (nonce : bytes) (i : N) : bytes := E (Ablk nonce i).
  Definition keystream (nonce : bytes) (nblocks : nat) : bytes :=
    concat (map (fun i => Sblk nonce (N.of_nat i)) (seq 1 nblocks)).

  Definition seal (nonce m a : bytes) : bytes :=
    xor_bytes_trunc m (keystream nonce ((length m + 15) / 16))
    ++ xor_bytes_trunc (cbcmac_T nonce m a) (Sblk nonce 0).

  (* section 2.5: decrypt, recompute T, compare; the plaintext is released only if the tags agree *)
  Definition open (nonce c a : bytes) : option bytes :=
    if length c <? M then None
    else
      let ct := firstn (length c - M) c in
      let u := skipn (length c - M) c in
      let m := xor_bytes_trunc ct (keystream nonce ((length ct + 15) / 16)) in
      let t := xor_bytes_trunc u (Sblk nonce 0) in
      if bytes_eqb t (cbcmac_T nonce m a) then Some m else None.
End CCM.
