(* C17: Key.Signer / Verifier / MACer / Encryptor = registry lookup by tripleKey, then the package's factory. *)
From Coq Require Import String.
From Coq Require Import ZArith List Bool Lia.
From Cose Require Import Lib.Base Lib.GenTypes Model.GoVal Model.Key Gen.RegistryGen Gen.TablesGen Gen.ShapesGen Spec.RFC9053.
Import ListNotations.
Open Scope Z_scope.

(* nil key => error; unregistered triple => error *)
Definition dispatch (kind : string) (k : option cosemap) : option string :=
  match k with None => None | Some m => reg_pkg kind (triple m) end.

Section D.
Variable C : crypto.

Definition factory_ok (kind pkg : string) (k : cosemap) : bool :=
  if String.eqb pkg "key/hmac" then check_key_sym Hmac k
  else if String.eqb pkg "key/aesmac" then check_key_sym AesMac k
  else if String.eqb pkg "key/aesgcm" then check_key_sym AesGcm k
  else if String.eqb pkg "key/aesccm" then check_key_sym AesCcm k
  else if String.eqb pkg "key/chacha20poly1305" then check_key_sym ChaCha k
  else if String.eqb pkg "key/ecdsa" then
    (if String.eqb kind "Signer" then ecdsa_signer_ok C k
     else match ecdsa_to_public C k with Some pk => ecdsa_point_ok C pk | None => false end)
  else if String.eqb pkg "key/ed25519" then
    (if String.eqb kind "Signer" then ed_signer_ok C k
     else match ed_to_public C k with Some _ => true | None => false end)
  else false.

Definition obtain (kind : string) (k : cosemap) : bool :=
  match dispatch kind (Some k) with Some pkg => factory_ok kind pkg k | None => false end.

End D.

(* what the obtained implementation reports / produces, from the source tables *)
Definition tag_size (pkg : string) (alg : Z) : Z :=
  if String.eqb pkg "key/hmac" then tcol key_hmac_getKeySize alg 1
  else if String.eqb pkg "key/aesmac" then tcol key_aesmac_getKeySize alg 1
  else if String.eqb pkg "key/aesccm" then tcol key_aesccm_getKeySize alg 1
  else 0.
Definition key_size (pkg : string) (alg : Z) : Z :=
  if String.eqb pkg "key/hmac" then sym_keysize Hmac alg
  else if String.eqb pkg "key/aesmac" then sym_keysize AesMac alg
  else if String.eqb pkg "key/aesgcm" then sym_keysize AesGcm alg
  else if String.eqb pkg "key/aesccm" then sym_keysize AesCcm alg
  else if String.eqb pkg "key/chacha20poly1305" then sym_keysize ChaCha alg
  else 0.

Definition proj_reg (r : string * Z * Z * Z * string * string * string) : string * Z * Z * Z * string :=
  match r with (kd, t, a, c, _, pkg, _) => (kd, t, a, c, pkg) end.
