(* Model of key.Key accessors (key/key.go), registry dispatch (key/registry.go),
   the eight CheckKey functions, factories and per-operation key_ops gates.
   Allow-lists and tables come from the translator (Gen/CheckKeyGen, Gen/TablesGen). *)
From Coq Require Import String.
From Coq Require Import ZArith List Bool Lia.
From Cose Require Import Lib.Base Lib.GenTypes Model.GoVal Gen.TablesGen Gen.CheckKeyGen Gen.RegistryGen Gen.ShapesGen.
Import ListNotations.
Open Scope Z_scope.

Definition memZ (x : Z) (l : list Z) : bool := existsb (Z.eqb x) l.

(* ---------------------------------------------------------------- tables *)

Definition tz (t : tval) : Z := match t with TZ z => z | _ => -999999 end.
Definition tcol (t : table) (k : Z) (i : nat) : Z := tz (nth i (table_get t k) (TSym "missing")).

Definition crv_alg (c : Z) : Z := tcol key_CrvAlg c 0.
Definition hash_func (a : Z) : Z := tcol key_Alg_HashFunc a 0.

(* ---------------------------------------------------------------- Key accessors *)

Definition kty (k : cosemap) : Z := get_int_ k 1.
Definition kid (k : cosemap) : bytes := get_bytes_ k 2.
Definition base_iv (k : cosemap) : bytes := get_bytes_ k 5.

(* Key.Alg: malformed alg => 0 without curve fallback; absent or zero => CrvAlg(crv) when crv is readable *)
Definition key_alg (k : cosemap) : Z :=
  match get_int k 3 with
  | Ok 0 => match get_int k (-1) with Ok c => crv_alg c | _ => 0 end
  | Ok v => v
  | _ => 0
  end.

Fixpoint all_to_int (l : list gval) : option (list Z) :=
  match l with
  | [] => Some []
  | v :: r => match to_int v, all_to_int r with Ok z, Some zs => Some (z :: zs) | _, _ => None end
  end.

(* Key.Ops: None models a nil result *)
Definition key_ops (k : cosemap) : option (list Z) :=
  match lookup k (ilabel 4) with
  | Some (VOps o) => o
  | Some (VInts l) => Some l
  | Some (VArr l) => all_to_int l
  | _ => None
  end.

Definition empty_or_has (ops : option (list Z)) (op : Z) : bool :=
  match ops with None => true | Some [] => true | Some l => memZ op l end.

(* Key.SetOps *)
Fixpoint remove_label (k : cosemap) (l : label) : cosemap :=
  match k with
  | [] => []
  | (a, v) :: r => if label_eqb a l then remove_label r l else (a, v) :: remove_label r l
  end.
Definition set_ops (k : cosemap) (os : list Z) : cosemap :=
  match os with
  | [] => remove_label k (ilabel 4)
  | _ => (ilabel 4, VInts os) :: remove_label k (ilabel 4)
  end.

(* tripleKey *)
Definition triple (k : cosemap) : Z * Z * Z :=
  let t := kty k in
  let a := key_alg k in
  let c := get_int_ k (-1) in
  if a =? 0 then
    (if t =? 1 then (t, -8, 6) else if t =? 2 then (t, -7, 1) else (t, a, c))
  else (t, a, c).

Definition registered (kind : string) (t : Z * Z * Z) : bool :=
  existsb (fun r => match r with
                    | (kd, rt, ra, rc, _, _, _) =>
                        String.eqb kd kind && Z.eqb rt (fst (fst t)) && Z.eqb ra (snd (fst t)) && Z.eqb rc (snd t)
                    end) registrations.

Definition reg_pkg (kind : string) (t : Z * Z * Z) : option string :=
  match find (fun r => match r with
                       | (kd, rt, ra, rc, _, _, _) =>
                           String.eqb kd kind && Z.eqb rt (fst (fst t)) && Z.eqb ra (snd (fst t)) && Z.eqb rc (snd t)
                       end) registrations with
  | Some (_, _, _, _, _, pkg, _) => Some pkg
  | None => None
  end.

(* ---------------------------------------------------------------- generated CheckKey facts *)

Record ckgen := {
  g_kty : option Z;             (* required kty, None when the function does not compare with a single constant *)
  g_plain : list Z;             (* labels accepted without further checks inside the loop *)
  g_alg_switch : bool;          (* `case KeyParameterAlg: switch k.Alg() { case <algs> }` *)
  g_algs : list Z;
  g_ops_clause : bool;          (* `case KeyParameterKeyOps:` with the op switch *)
  g_ops : list Z;               (* ops accepted by the op switch *)
  g_ops_guarded : bool;         (* the accepting clause of the op switch has a body (ecdh: only with d) *)
  g_other : list string         (* anything the model does not understand: must be [] or exactly what the family expects *)
}.

Fixpoint plain_ints (l : list tval) : list Z := match l with [] => [] | TZ z :: r => z :: plain_ints r | _ :: r => plain_ints r end.
Fixpoint plain_syms (l : list tval) : list string := match l with [] => [] | TSym s :: r => s :: plain_syms r | TStr s :: r => s :: plain_syms r | _ :: r => plain_syms r end.
Definition mems (s : string) (l : list string) : bool := existsb (String.eqb s) l.

Definition ckgen_of (pkg : string) : ckgen :=
  match assoc check_keys pkg with
  | Some (t, plain, algs, ops) =>
      let syms := plain_syms plain in
      {| g_kty := tvalZ t;
         g_plain := plain_ints plain;
         g_alg_switch := mems "alg:TZ 3" syms;
         g_algs := map tz algs;
         g_ops_clause := mems "ops:TZ 4" syms;
         g_ops := flat_map (fun c => map tz (fst c)) ops;
         g_ops_guarded := existsb (fun c => snd c) ops;
         g_other := filter (fun s => negb (String.eqb s "alg:TZ 3" || String.eqb s "ops:TZ 4")) syms |}
  | None => {| g_kty := None; g_plain := []; g_alg_switch := false; g_algs := []; g_ops_clause := false; g_ops := [];
               g_ops_guarded := false; g_other := ["missing"%string] |}
  end.

(* The `for p := range k { switch p {...} }` block: error iff some entry fails (map order is irrelevant).
   alg_ok: what the KeyParameterAlg clause demands; ops_extra: extra demand of the accepting op clause. *)
Definition ops_clause (g : ckgen) (ops_extra : bool) (k : cosemap) : bool :=
  match key_ops k with
  | None => false
  | Some l => forallb (fun op => memZ op (g_ops g) && ops_extra) l
  end.

Definition entry_ok (g : ckgen) (alg_ok ops_ok : bool) (e : label * gval) : bool :=
  match fst e with
  | LInt KInt p =>
      if memZ p (g_plain g) then true
      else if p =? 3 then alg_ok
      else if p =? 4 then ops_ok
      else false
  | _ => false     (* a label of any other dynamic type never equals an untyped constant case *)
  end.

Definition loop_ok (g : ckgen) (alg_ok : bool) (ops_extra : bool) (k : cosemap) : bool :=
  forallb (entry_ok g alg_ok (ops_clause g ops_extra k)) k.

Definition kid_ok (k : cosemap) : bool :=
  if has k 2 then match get_bytes k 2 with Ok x => negb (Nat.eqb (length x) 0) | _ => false end else true.

Definition lenZ {A} (l : list A) : Z := Z.of_nat (length l).

(* ---------------------------------------------------------------- symmetric families *)

Inductive symfam := Hmac | AesMac | AesGcm | AesCcm | ChaCha.

Definition sym_pkg (f : symfam) : string :=
  match f with Hmac => "key/hmac" | AesMac => "key/aesmac" | AesGcm => "key/aesgcm" | AesCcm => "key/aesccm" | ChaCha => "key/chacha20poly1305" end.
Definition sym_table (f : symfam) : table :=
  match f with Hmac => key_hmac_getKeySize | AesMac => key_aesmac_getKeySize | AesGcm => key_aesgcm_getKeySize
             | AesCcm => key_aesccm_getKeySize | ChaCha => key_chacha20poly1305_getKeySize end.
(* chacha's table cell is the named constant keySize *)
Definition sym_keysize (f : symfam) (alg : Z) : Z :=
  match f with
  | ChaCha => match nth 0 (table_get (sym_table f) alg) (TSym "missing") with
              | TZ z => z
              | TSym "keySize" => match assoc ShapesGen.int_consts "key/chacha20poly1305.keySize" with Some z => z | None => -1 end
              | _ => -1
              end
  | _ => tcol (sym_table f) alg 0
  end.

Definition check_key_sym (f : symfam) (k : cosemap) : bool :=
  let g := ckgen_of (sym_pkg f) in
  match g_kty g with Some t => kty k =? t | None => false end
  && loop_ok g (memZ (key_alg k) (g_algs g)) true k
  && match get_bytes k (-1) with
     | Ok kb => let ks := sym_keysize f (key_alg k) in negb (ks =? 0) && (lenZ kb =? ks)
     | _ => false
     end
  && kid_ok k.

(* the two operations of a symmetric family: (first, second) = (create, verify) or (encrypt, decrypt) *)
Definition sym_op1 (f : symfam) : Z := match f with Hmac | AesMac => 9 | _ => 3 end.
Definition sym_op2 (f : symfam) : Z := match f with Hmac | AesMac => 10 | _ => 4 end.

(* ---------------------------------------------------------------- signature families *)

(* primitives the library takes from Go's crypto packages; in theorems they are arbitrary,
   in correspondence runs they are instantiated with the observed values *)
Record crypto := {
  ed_public : bytes -> bytes;                       (* ed25519 seed -> public key *)
  ec_base_mul : Z -> bytes -> Z * Z;                (* crv, d -> d*G as integers *)
  ec_on_curve : Z -> Z -> Z -> bool;                (* crv, x, y *)
  ec_decompress : Z -> bytes -> bool -> option (Z * Z);   (* crv, padded x, sign -> point, None when not on the curve *)
  ecdh_new_private : Z -> bytes -> bool;            (* crv, d: crypto/ecdh accepts the scalar *)
  ecdh_public_bytes : Z -> bytes -> bytes;          (* crv, d -> encoded public key *)
  ecdh_new_public : Z -> bytes -> bool              (* crv, encoded point: crypto/ecdh accepts it *)
}.

Definition os2ip (b : bytes) : Z := Z.of_N (of_be b).

Definition ed_gen : ckgen := ckgen_of "key/ed25519".
Definition check_key_ed (k : cosemap) : bool :=
  let g := ed_gen in
  match g_kty g with Some t => kty k =? t | None => false end
  && loop_ok g (key_alg k =? -8) true k
  && match get_int k (-1) with Ok c => c =? 6 | _ => false end
  && (let hasD := has k (-4) in let hasX := has k (-2) in
      negb (hasD && negb (lenZ (get_bytes_ k (-4)) =? 32))
      && negb (hasX && negb (lenZ (get_bytes_ k (-2)) =? 32))
      && negb (negb hasD && negb hasX)
      && negb (hasD && negb (empty_or_has (key_ops k) 1))
      && negb (negb hasD && negb (empty_or_has (key_ops k) 2)))
  && kid_ok k.

Definition ec_gen : ckgen := ckgen_of "key/ecdsa".
Definition ecdsa_crv (alg : Z) : Z := tcol key_ecdsa_getCurve alg 1.
Definition ecdsa_curve_known (alg : Z) : bool :=
  match nth 0 (table_get key_ecdsa_getCurve alg) (TSym "nil") with TSym "nil" => false | _ => true end.

Definition y_ok (k : cosemap) (maxlen : Z) : bool :=
  match get_bool k (-3) with
  | Ok _ => true
  | _ => match get_bytes k (-3) with
         | Ok y => negb (lenZ y =? 0) && (lenZ y <=? maxlen)
         | _ => false
         end
  end.

Definition check_key_ecdsa (k : cosemap) : bool :=
  let g := ec_gen in
  match g_kty g with Some t => kty k =? t | None => false end
  && loop_ok g (memZ (key_alg k) (g_algs g)) true k
  && match get_int k (-1) with
     | Ok c => ecdsa_curve_known (key_alg k) && (c =? ecdsa_crv (key_alg k))
     | _ => false
     end
  && (let hasD := has k (-4) in let hasX := has k (-2) in let hasY := has k (-3) in
      let d := get_bytes_ k (-4) in let x := get_bytes_ k (-2) in
      negb (hasD && ((lenZ d =? 0) || (lenZ d >? 66)))
      && (if hasX || hasY then
            negb ((lenZ x =? 0) || (lenZ x >? 66)) && hasY && y_ok k 66
          else true)
      && negb (negb hasD && negb hasX)
      && negb (hasD && negb (empty_or_has (key_ops k) 1))
      && negb (negb hasD && negb (empty_or_has (key_ops k) 2)))
  && kid_ok k.

(* ---------------------------------------------------------------- ecdh *)

Definition dh_gen : ckgen := ckgen_of "key/ecdh".
Definition ecdh_curve_known (c : Z) : bool :=
  match nth 0 (table_get key_ecdh_getCurve c) (TSym "nil") with TSym "nil" => false | _ => true end.
(* getKeySize(getCurve(c)): the two tables are keyed by curve objects; compose them through the symbolic name *)
Definition ecdh_keysize (c : Z) : Z :=
  match nth 0 (table_get key_ecdh_getCurve c) (TSym "nil") with
  | TSym s =>
      match find (fun r => existsb (fun t => tval_eqb t (TSym s)) (fst r)) (fst key_ecdh_getKeySize) with
      | Some r => tz (nth 0 (snd r) (TSym "missing"))
      | None => 0
      end
  | _ => 0
  end.

Definition check_key_ecdh (k : cosemap) : bool :=
  let g := dh_gen in
  let t := kty k in
  ((t =? 2) || (t =? 1))
  && (let hasD := has k (-4) in
      loop_ok g (memZ (key_alg k) (g_algs g)) hasD k
      && match get_int k (-1) with
         | Ok c =>
             ecdh_curve_known c &&
             (let ks := ecdh_keysize c in
              let hasX := has k (-2) in let hasY := has k (-3) in
              let d := get_bytes_ k (-4) in let x := get_bytes_ k (-2) in
              negb (hasD && negb (lenZ d =? ks))
              && (if hasX || hasY then
                    negb ((lenZ x =? 0) || (lenZ x >? ks))
                    && (if hasY then negb (t =? 1) && y_ok k ks else negb (t =? 2))
                  else true)
              && negb (negb hasD && negb hasX))
         | _ => false
         end)
  && kid_ok k.

(* ---------------------------------------------------------------- factories and gated operations
   Outcomes are "performed" booleans: true = the implementation was created and the operation
   reached the primitive (returned the primitive's answer rather than a key error). *)

Section WithCrypto.
Variable C : crypto.

(* ed25519.KeyToPrivate / NewSigner *)
Definition ed_signer_ok (k : cosemap) : bool :=
  check_key_ed k && has k (-4)
  && (if has k (-2) then bytes_eqb (ed_public C (get_bytes_ k (-4))) (get_bytes_ k (-2)) else true).

(* ed25519.ToPublicKey: the derived public key (Some) or an error (None) *)
Definition ed_to_public (k : cosemap) : option cosemap :=
  if negb (check_key_ed k) then None
  else if negb (has k (-4)) then Some k
  else
    let pub := ed_public C (get_bytes_ k (-4)) in
    if has k (-2) && negb (bytes_eqb (get_bytes_ k (-2)) pub) then None
    else Some ([(ilabel 1, VInt KInt 1); (ilabel (-1), VInt KInt 6)]
               ++ (match lookup k (ilabel 2) with Some v => [(ilabel 2, v)] | None => [] end)
               ++ (match lookup k (ilabel 3) with Some v => [(ilabel 3, v)] | None => [] end)
               ++ (match lookup k (ilabel 4) with Some _ => [(ilabel 4, VOps (Some [2]))] | None => [] end)
               ++ [(ilabel (-2), VBytes pub)])%list.

(* ecdsa.KeyToPrivate / NewSigner *)
Definition ecdsa_signer_ok (k : cosemap) : bool :=
  has k (-4) && check_key_ecdsa k
  && (let P := ec_base_mul C (ecdsa_crv (key_alg k)) (get_bytes_ k (-4)) in
      (match get_bytes k (-2) with Ok x => if has k (-2) then fst P =? os2ip x else true | _ => true end)
      && (match get_bytes k (-3) with Ok y => if has k (-3) then snd P =? os2ip y else true | _ => true end)).


(* curve byte sizes: (BitSize+7)/8 of crypto/elliptic's P-256/384/521 parameters (modelled, not read from /repo) *)
Definition crv_size (c : Z) : nat := if c =? 1 then 32%nat else if c =? 2 then 48%nat else if c =? 3 then 66%nat else 0%nat.
Definition i2osp (n : nat) (z : Z) : bytes := be n (Z.to_N z).
Definition pad_left (n : nat) (b : bytes) : bytes := (zeros (n - length b) ++ b)%list.

(* ecdsa.ToPublicKey *)
Definition ecdsa_to_public (k : cosemap) : option cosemap :=
  if negb (check_key_ecdsa k) then None
  else if negb (has k (-4)) then Some k
  else
    let c := ecdsa_crv (key_alg k) in
    let P := ec_base_mul C c (get_bytes_ k (-4)) in
    let xbad := has k (-2) &&
                (negb (fst P =? os2ip (get_bytes_ k (-2)))
                 || match get_bytes k (-3) with Ok y2 => negb (snd P =? os2ip y2) | _ => false end) in
    if xbad then None
    else Some ([(ilabel 1, VInt KInt 2)]
               ++ (match lookup k (ilabel (-1)) with Some v => [(ilabel (-1), v)] | None => [] end)
               ++ (match lookup k (ilabel 2) with Some v => [(ilabel 2, v)] | None => [] end)
               ++ (match lookup k (ilabel 3) with Some v => [(ilabel 3, v)] | None => [] end)
               ++ (match lookup k (ilabel 4) with Some _ => [(ilabel 4, VOps (Some [2]))] | None => [] end)
               ++ [(ilabel (-2), VBytes (i2osp (crv_size c) (fst P))); (ilabel (-3), VBytes (i2osp (crv_size c) (snd P)))])%list.

(* ecdsa.keyToPublic on a public key map: does it yield a point on the curve *)
Definition ecdsa_point_ok (pk : cosemap) : bool :=
  let c := ecdsa_crv (key_alg pk) in
  let x := get_bytes_ pk (-2) in
  match lookup pk (ilabel (-3)) with
  | Some (VBytes ((_ :: _) as y)) => ec_on_curve C c (os2ip x) (os2ip y)
  | Some (VBytes []) => false      (* unreachable after CheckKey (length 1..66 required) *)
  | _ =>
      (* y is not a byte string: `y == nil`, so the boolean form is tried (an absent label reads as false) *)
      match get_bool pk (-3) with
      | Ok b => if Nat.ltb (crv_size c) (length x) then false
                else match ec_decompress C c (pad_left (crv_size c) x) b with
                     | Some (ix, iy) => ec_on_curve C c ix iy
                     | None => false
                     end
      | _ => false
      end
  end.

(* NewVerifier + Verify reaches the primitive *)
Definition ecdsa_verify_performs (k : cosemap) : bool :=
  match ecdsa_to_public k with
  | Some pk => ecdsa_point_ok pk && empty_or_has (key_ops pk) 2
  | None => false
  end.
Definition ecdsa_sign_performs (k : cosemap) : bool := ecdsa_signer_ok k && empty_or_has (key_ops k) 1.

Definition ed_sign_performs (k : cosemap) : bool := ed_signer_ok k && empty_or_has (key_ops k) 1.
Definition ed_verify_performs (k : cosemap) : bool :=
  match ed_to_public k with Some pk => empty_or_has (key_ops pk) 2 | None => false end.

(* ecdh.NewECDHer(k) then ECDH(remote): is the derivation performed as far as the local key is concerned *)
Definition ecdh_local_performs (k : cosemap) : bool :=
  has k (-4) && check_key_ecdh k && ecdh_new_private C (get_int_ k (-1)) (get_bytes_ k (-4))
  && (empty_or_has (key_ops k) 7 || empty_or_has (key_ops k) 8).

End WithCrypto.

(* ---------------------------------------------------------------- key_ops: what the property demands *)

Inductive ops_state := OpsAbsent | OpsBad | OpsList (l : list Z).

Definition ops_state_of (k : cosemap) : ops_state :=
  match lookup k (ilabel 4) with
  | None => OpsAbsent
  | Some _ => match key_ops k with Some l => OpsList l | None => OpsBad end
  end.

(* a non-empty list permits `op` iff it holds only operations of the family and contains op *)
Definition ops_allow (fam_ops : list Z) (op : Z) (st : ops_state) : bool :=
  match st with
  | OpsAbsent => true
  | OpsBad => false
  | OpsList [] => true
  | OpsList l => forallb (fun o => memZ o fam_ops) l && memZ op l
  end.

Definition ops_allow_dh (st : ops_state) : bool :=
  match st with
  | OpsAbsent => true
  | OpsBad => false
  | OpsList [] => true
  | OpsList l => forallb (fun o => memZ o [7; 8]) l && (memZ 7 l || memZ 8 l)
  end.

(* symmetric families: create the implementation from the key, then invoke the operation *)
Definition sym_performs (f : symfam) (op : Z) (k : cosemap) : bool :=
  check_key_sym f k && empty_or_has (key_ops k) op.
