(* C13: the stateful aesHKDF reader of key/hkdf/hkdf_aes.go and the HKDF entry points of key/hkdf/hkdf.go. *)
From Coq Require Import String.
From Coq Require Import ZArith NArith List Bool Arith Lia.
Open Scope nat_scope.
From Cose Require Import Lib.Base Lib.Sha2 Lib.Hmac Lib.Aes Lib.CbcMac Lib.Hkdf.
Import ListNotations.

Section Reader.
  Variable E : bytes -> bytes.            (* the AES block function under the secret *)
  Variable info : bytes.

  (* one iteration of the fill loop: buf = prev | info | counter, zero padded to a block multiple,
     CBC-encrypted under the zero IV; T = the last block *)
  Definition T (pv : bytes) (c : N) : res bytes := go_create E 16 (pv ++ info ++ [b8 c]).

  Record st := mk { ctr : N; prev : bytes; left : bytes }.
  Definition init : st := mk 1 [] [].

  (* int(255 - counter + 1) in byte arithmetic *)
  Definition blocks_left (c : N) : nat := N.to_nat ((256 - c) mod 256).

  Fixpoint fill (fuel : nat) (c : N) (pv : bytes) (need : nat) : res (bytes * st) :=
    match fuel with
    | O => Ok ([], mk c pv [])
    | S f =>
      if Nat.eqb need 0 then Ok ([], mk c pv [])
      else
        match T pv c with
        | Ok t =>
          let c' := ((c + 1) mod 256)%N in
          if Nat.leb need 16 then Ok (firstn need t, mk c' t (skipn need t))
          else match fill f c' t (need - 16) with
               | Ok (o, s) => Ok (t ++ o, s)
               | Err => Err | Panic => Panic
               end
        | Err => Err | Panic => Panic
        end
    end.

  (* aesHKDF.Read(p) with len(p) = need: Err = "entropy limit reached" *)
  Definition read (s : st) (need : nat) : res (bytes * st) :=
    if Nat.ltb (length (left s) + blocks_left (ctr s) * 16) need then Err
    else if Nat.leb need (length (left s))
         then Ok (firstn need (left s), mk (ctr s) (prev s) (skipn need (left s)))
         else match fill (need - length (left s)) (ctr s) (prev s) (need - length (left s)) with
              | Ok (o, s') => Ok (left s ++ o, s')
              | Err => Err | Panic => Panic
              end.

  (* a history of reads on one reader *)
  Fixpoint reads (s : st) (ns : list nat) : res bytes :=
    match ns with
    | [] => Ok []
    | n :: t => match read s n with
                | Ok (o, s') => match reads s' t with Ok o' => Ok (o ++ o') | Err => Err | Panic => Panic end
                | Err => Err | Panic => Panic
                end
    end.
End Reader.

(* HKDFAES(secret, info, keySize): aes.NewCipher accepts 16, 24 or 32 byte secrets *)
Definition hkdf_aes (secret info : bytes) (size : nat) : res bytes :=
  if aes_key_ok secret then
    match read (aes_keyed secret) info init size with
    | Ok (o, _) => Ok o
    | Err => Err | Panic => Panic
    end
  else Err.

(* HKDF256 / HKDF512: golang.org/x/crypto/hkdf is RFC 5869; modelled by the specification itself *)
Definition hkdf256 (secret salt info : bytes) (size : nat) : option bytes := hkdf hmac_sha256 32 secret salt info size.
Definition hkdf512 (secret salt info : bytes) (size : nat) : option bytes := hkdf hmac_sha512 64 secret salt info size.
