From Coq Require Import String.
From Coq Require Import NArith ZArith List Bool.
From Cose Require Import Lib.Base Lib.Cbor Model.GoVal Model.CborGo Model.Wire Model.CwtCodec.
Import ListNotations.
Open Scope Z_scope.

Inductive claims_case :=
| ClEnc (c : wclaims) (out : bytes)
| ClDec (data : bytes) (ok : bool) (c : wclaims).

Definition wclaims_eqb (a b : wclaims) : bool :=
  bytes_eqb (w_iss a) (w_iss b) && bytes_eqb (w_sub a) (w_sub b) && bytes_eqb (w_aud a) (w_aud b)
  && Z.eqb (w_exp a) (w_exp b) && Z.eqb (w_nbf a) (w_nbf b) && Z.eqb (w_iat a) (w_iat b) && bytes_eqb (w_cti a) (w_cti b).

Definition check_claims_case (c : claims_case) : bool :=
  match c with
  | ClEnc cl out => bytes_eqb (enc_claims cl) out
  | ClDec data ok cl =>
      match dec_claims data with
      | Ok d => ok && wclaims_eqb d cl
      | Err => negb ok
      | Panic => false
      end
  end.
