(* C09: a key set survives MarshalCBOR then UnmarshalCBOR, key by key, in the decoder's normal form. *)
From Coq Require Import String.
From Coq Require Import NArith ZArith List Arith Lia Bool.
From Cose Require Import Lib.Base Lib.Cbor Lib.CborProofs Model.GoVal Model.CborGo Model.Wire Model.Key Model.MsgLogic Model.Nonce Model.Msg
     Model.MsgProofs Model.MsgRoundTrip Model.ValueRoundTrip Model.MsgRoundTripFull Model.MsgRoundTripSign Model.MsgRoundTripRecip Model.KeySet.
Import ListNotations.

(* an encoded map starts with a map head: neither a self-described tag nor null *)
Lemma map_head_facts l : (N.of_nat (length l) <= max_elems)%N ->
  strip_sd 70 (encode (IMap l)) = encode (IMap l)
  /\ match encode (IMap l) with b :: _ => byte_eqb b Byte.xf6 || byte_eqb b Byte.xf7 | [] => false end = false.
Proof.
  intro H. rewrite max_elems_val in H. rewrite encode_map_unfold.
  match goal with |- context [(head 5 _ ++ ?r)%list] => set (rest := r) end.
  pose proof (dhead_head 5 (N.of_nat (length l)) rest ltac:(lia) ltac:(lia)) as D. split.
  - change (strip_sd 70 (head 5 (N.of_nat (length l)) ++ rest)) with
      (match dhead (head 5 (N.of_nat (length l)) ++ rest) with Ok (mt, _, n, r) => if (mt =? 6)%N && (n =? 55799)%N then strip_sd 69 r else (head 5 (N.of_nat (length l)) ++ rest)%list | _ => (head 5 (N.of_nat (length l)) ++ rest)%list end).
    rewrite D. reflexivity.
  - destruct (head 5 (N.of_nat (length l)) ++ rest)%list as [|b t] eqn:E; [reflexivity|]. cbn [dhead] in D.
    assert (Hb : (Byte.to_N b / 32 = 5)%N).
    { destruct (Byte.to_N b mod 32 <? 24)%N; [now inversion D|].
      destruct (if (Byte.to_N b mod 32 =? 24)%N then _ else _) as [k|]; [|discriminate]. destruct (take k t) as [[a r']|]; [|discriminate].
      destruct (_ && _ && _); [discriminate|]. now inversion D. }
    destruct (byte_eqb b Byte.xf6) eqn:E1; [apply byte_eqb_eq in E1; subst; vm_compute in Hb; discriminate|].
    destruct (byte_eqb b Byte.xf7) eqn:E2; [apply byte_eqb_eq in E2; subst; vm_compute in Hb; discriminate|]. reflexivity.
Qed.

Lemma enc_cosemap_is_map m u : good_map m -> enc_cosemap m = Some u ->
  exists l, u = encode (IMap l) /\ fld_headers (encode (IMap l)) = Ok (read_back m).
Proof.
  intros G E. destruct (enc_cosemap_item m u G E) as [it [-> H]].
  destruct G as [Hc _]. unfold enc_cosemap in E. rewrite (check_labels_id m Hc) in E. destruct (labels_dup m); [discriminate|].
  unfold marshal_any in E. cbn [item_of] in E. destruct (opt_all _) as [kvs|]; [|discriminate]. cbn [option_map] in E.
  exists kvs. assert (encode it = encode (IMap kvs)) as Eq by congruence. split; [exact Eq|]. now rewrite <- Eq.
Qed.

Lemma fld_headers_eq raw : fld_headers raw = cosemap_of_bytes raw.
Proof. reflexivity. Qed.

Lemma dec_key_elem_map l m : (N.of_nat (length l) <= max_elems)%N -> fld_headers (encode (IMap l)) = Ok m ->
  dec_key_elem (encode (IMap l)) = Ok m.
Proof.
  intros Hn Hl. rewrite fld_headers_eq in Hl. destruct (map_head_facts l Hn) as [S N0]. unfold dec_key_elem. rewrite S.
  destruct (encode (IMap l)) as [|b t]; [exact Hl|]. now rewrite N0.
Qed.

Lemma res_list_elems (ls : list (list (item * item))) (ks : list cosemap) :
  (forall l, In l ls -> (N.of_nat (length l) <= max_elems)%N) ->
  Forall2 (fun l m => fld_headers (encode (IMap l)) = Ok (read_back m)) ls ks ->
  res_list (map (fun x => dec_key_elem (encode (IMap x))) ls) = Ok (map read_back ks).
Proof.
  intros Hsub F. induction F as [|l m ls' ks' Hl _ IH]; cbn [map res_list]; [reflexivity|].
  pose proof (dec_key_elem_map l (read_back m) (Hsub l (or_introl eq_refl)) Hl) as E1.
  assert (E2 : res_list (map (fun x => dec_key_elem (encode (IMap x))) ls') = Ok (map read_back ks')).
  { apply IH. intros l0 H0. apply Hsub. right. exact H0. }
  destruct (dec_key_elem (encode (IMap l))); try discriminate. inversion E1; subst.
  destruct (res_list (map (fun x => dec_key_elem (encode (IMap x))) ls')); try discriminate. inversion E2; subst. reflexivity.
Qed.

Lemma keyset_elems (ks : list cosemap) : forall bss, Forall good_map ks -> opt_all (map (fun x => enc_cosemap x) ks) = Some bss ->
  exists ls, bss = map (fun l => encode (IMap l)) ls /\ Forall2 (fun l m => fld_headers (encode (IMap l)) = Ok (read_back m)) ls ks.
Proof.
  intros bss G. revert bss. induction G as [|m r Gm Gr IH]; intros bss Ea; cbn [map opt_all] in Ea.
  - inversion Ea. exists []. split; [reflexivity|constructor].
  - destruct (enc_cosemap m) as [u|] eqn:Eu; [|discriminate]. destruct (opt_all (map (fun x => enc_cosemap x) r)) as [us|] eqn:Er; [|discriminate].
    assert (bss = u :: us) by congruence. subst bss. destruct (enc_cosemap_is_map m u Gm Eu) as [l [-> Hl]].
    destruct (IH us eq_refl) as [ls [-> F]]. exists (l :: ls). split; [reflexivity|now constructor].
Qed.

Theorem keyset_roundtrip (ks : list cosemap) bs : Forall good_map ks ->
  enc_keyset (Some (map (@Some cosemap) ks)) = Some bs ->
  (forall it, bs = encode it -> encodable it = true) ->
  dec_keyset bs = Ok (Some (map read_back ks)).
Proof.
  intros G H Hsize. unfold enc_keyset in H. rewrite map_map in H. cbn [enc_key_elem] in H.
  destruct (opt_all (map (fun x => enc_cosemap x) ks)) as [bss|] eqn:Ea; [|discriminate]. cbn [option_map] in H.
  assert (Hb : bs = enc_array bss) by congruence. subst bs. clear H.
  destruct (keyset_elems ks bss G Ea) as [ls [-> F]].
  assert (Ew : enc_array (map (fun l => encode (IMap l)) ls) = encode (IArr (map IMap ls))) by (rewrite <- enc_array_items, map_map; reflexivity).
  rewrite Ew in *. specialize (Hsize _ eq_refl).
  unfold dec_keyset, bind. rewrite (decode_encode _ Hsize). cbn [canon through_tags].
  rewrite (array_elems_raw_encode _ Hsize). rewrite map_map.
  assert (Hsub : forall l, In l ls -> (N.of_nat (length l) <= max_elems)%N).
  { intros l Hl. pose proof (sub_encodable _ (IMap l) Hsize (in_map IMap ls l Hl)) as El. apply andb_true_iff in El. destruct El as [_ Ff]. cbn [fits] in Ff.
    apply andb_true_iff in Ff. destruct Ff as [Ff _]. apply andb_true_iff in Ff. destruct Ff as [_ Fn]. now apply N.leb_le in Fn. }
  rewrite map_map. now rewrite (res_list_elems ls ks Hsub F).
Qed.

(* a nil set is written as null and read back as nil; a nil key inside a set comes back as the empty key *)
Example keyset_nil : enc_keyset None = Some (hex "f6") /\ dec_keyset (hex "f6") = Ok None
  /\ enc_keyset (Some [None; Some [(ilabel 1, VInt KInt 4)]]) = Some (hex "82f6a10104")
  /\ dec_keyset (hex "82f6a10104") = Ok (Some [[]; [(ilabel 1, VInt KUint64 4)]]).
Proof. vm_compute. repeat split; reflexivity. Qed.
