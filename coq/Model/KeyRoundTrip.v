(* C17 / C09: a key that went through CBOR (or its text / JSON forms) is interchangeable with the original.
   decode (encode k) = read_back k (Model/ValueRoundTrip.v); read_back k holds the entries of k in the deterministic
   order with values in the decoder's normal form. Here: every factory, CheckKey and key_ops gate decides the same on
   read_back k as on k. Two steps: the order of entries is irrelevant (Permutation, for maps without repeated labels),
   and the normal form differs from the original only by Go integer types / slice types (meq, Model/Equiv.v). *)
From Coq Require Import String.
From Coq Require Import NArith ZArith List Bool Lia Permutation.
From Cose Require Import Lib.Base Lib.GenTypes Lib.Cbor Lib.CborProofs Model.GoVal Model.CborGo Model.Wire Model.Key Model.KeyProofs
     Model.Dispatch Model.Equiv Model.ValueRoundTrip Model.Text Model.TextProofs.
Import ListNotations.
Open Scope Z_scope.

(* ---------------------------------------------------------------- the order of entries is irrelevant *)
Section Perm.
Variables k k' : cosemap.
Hypothesis P : Permutation k k'.
Hypothesis ND : NoDup (map fst k).

Lemma lk l : lookup k' l = lookup k l.
Proof. symmetry. now apply lookup_perm. Qed.

Lemma get_int_perm l : get_int k' l = get_int k l. Proof. unfold get_int. now rewrite lk. Qed.
Lemma has_perm l : has k' l = has k l. Proof. unfold has. now rewrite lk. Qed.
Lemma get_bytes_perm l : get_bytes k' l = get_bytes k l. Proof. unfold get_bytes. now rewrite lk. Qed.
Lemma get_bool_perm l : get_bool k' l = get_bool k l. Proof. unfold get_bool. now rewrite lk. Qed.
Lemma key_ops_perm : key_ops k' = key_ops k. Proof. unfold key_ops. now rewrite lk. Qed.
Lemma get_int__perm l : get_int_ k' l = get_int_ k l. Proof. unfold get_int_. now rewrite get_int_perm. Qed.
Lemma get_bytes__perm l : get_bytes_ k' l = get_bytes_ k l. Proof. unfold get_bytes_. now rewrite get_bytes_perm. Qed.
Lemma kty_perm : kty k' = kty k. Proof. unfold kty. apply get_int__perm. Qed.
Lemma key_alg_perm : key_alg k' = key_alg k. Proof. unfold key_alg. now rewrite !get_int_perm. Qed.
Lemma kid_ok_perm : kid_ok k' = kid_ok k. Proof. unfold kid_ok. now rewrite has_perm, get_bytes_perm. Qed.
Lemma y_ok_perm n : y_ok k' n = y_ok k n. Proof. unfold y_ok. now rewrite get_bool_perm, get_bytes_perm. Qed.
Lemma triple_perm : triple k' = triple k. Proof. unfold triple. now rewrite kty_perm, key_alg_perm, get_int__perm. Qed.

Lemma forallb_perm {A} (f : A -> bool) (a b : list A) : Permutation a b -> forallb f a = forallb f b.
Proof.
  induction 1 as [|x a b _ IH|x y a|a b c _ IH1 _ IH2]; cbn [forallb]; [reflexivity|now rewrite IH| |congruence].
  destruct (f x), (f y); reflexivity.
Qed.

Lemma loop_ok_perm g a x : loop_ok g a x k' = loop_ok g a x k.
Proof. unfold loop_ok, ops_clause. rewrite key_ops_perm. symmetry. now apply forallb_perm. Qed.

Lemma check_key_sym_perm f : check_key_sym f k' = check_key_sym f k.
Proof. unfold check_key_sym. now rewrite kty_perm, key_alg_perm, loop_ok_perm, get_bytes_perm, kid_ok_perm. Qed.

Lemma check_key_ed_perm : check_key_ed k' = check_key_ed k.
Proof. unfold check_key_ed. now rewrite kty_perm, key_alg_perm, loop_ok_perm, get_int_perm, !has_perm, !get_bytes__perm, key_ops_perm, kid_ok_perm. Qed.

Lemma check_key_ecdsa_perm : check_key_ecdsa k' = check_key_ecdsa k.
Proof.
  unfold check_key_ecdsa.
  now rewrite kty_perm, key_alg_perm, loop_ok_perm, get_int_perm, !has_perm, !get_bytes__perm, key_ops_perm, kid_ok_perm, y_ok_perm.
Qed.

Lemma check_key_ecdh_perm : check_key_ecdh k' = check_key_ecdh k.
Proof.
  unfold check_key_ecdh.
  rewrite kty_perm, key_alg_perm, loop_ok_perm, get_int_perm, !has_perm, !get_bytes__perm, kid_ok_perm.
  destruct (get_int k (-1)); try reflexivity. now rewrite y_ok_perm.
Qed.

Variable C : crypto.

Lemma ed_signer_ok_perm : ed_signer_ok C k' = ed_signer_ok C k.
Proof. unfold ed_signer_ok. now rewrite check_key_ed_perm, !has_perm, !get_bytes__perm. Qed.

Lemma ecdsa_signer_ok_perm : ecdsa_signer_ok C k' = ecdsa_signer_ok C k.
Proof. unfold ecdsa_signer_ok. now rewrite check_key_ecdsa_perm, !has_perm, !get_bytes__perm, !get_bytes_perm, key_alg_perm. Qed.

Lemma ecdsa_point_ok_perm : ecdsa_point_ok C k' = ecdsa_point_ok C k.
Proof. unfold ecdsa_point_ok. now rewrite key_alg_perm, get_bytes__perm, get_bool_perm, lk. Qed.

Lemma ecdh_local_performs_perm : ecdh_local_performs C k' = ecdh_local_performs C k.
Proof. unfold ecdh_local_performs. now rewrite has_perm, check_key_ecdh_perm, get_int__perm, get_bytes__perm, key_ops_perm. Qed.

(* the derived public key: the key itself (a public key: permuted) or a map built from lookups (equal) *)
Definition same_or_perm (a b : option cosemap) : Prop :=
  match a, b with
  | Some x, Some y => x = y \/ (Permutation x y /\ NoDup (map fst x))
  | None, None => True
  | _, _ => False
  end.

Lemma ed_to_public_perm : same_or_perm (ed_to_public C k) (ed_to_public C k').
Proof.
  unfold ed_to_public. rewrite check_key_ed_perm, !has_perm, !get_bytes__perm, !lk.
  destruct (check_key_ed k); cbn [negb]; [|exact I]. destruct (has k (-4)); cbn [negb]; [|right; now split].
  match goal with |- same_or_perm (if ?c then _ else _) _ => destruct c; [exact I|left; reflexivity] end.
Qed.

Lemma ecdsa_to_public_perm : same_or_perm (ecdsa_to_public C k) (ecdsa_to_public C k').
Proof.
  unfold ecdsa_to_public. rewrite check_key_ecdsa_perm, !has_perm, !get_bytes__perm, !get_bytes_perm, key_alg_perm, !lk.
  destruct (check_key_ecdsa k); cbn [negb]; [|exact I]. destruct (has k (-4)); cbn [negb]; [|right; now split].
  match goal with |- same_or_perm (if ?c then _ else _) _ => destruct c; [exact I|left; reflexivity] end.
Qed.
End Perm.

Theorem obtain_perm C kind k k' : Permutation k k' -> NoDup (map fst k) -> obtain C kind k' = obtain C kind k.
Proof.
  intros P ND. unfold obtain, dispatch. rewrite (triple_perm k k' P ND).
  destruct (reg_pkg kind (triple k)) as [pkg|]; [|reflexivity].
  unfold factory_ok. rewrite !(check_key_sym_perm k k' P ND), (ecdsa_signer_ok_perm k k' P ND), (ed_signer_ok_perm k k' P ND).
  pose proof (ed_to_public_perm k k' P ND C) as E1. pose proof (ecdsa_to_public_perm k k' P ND C) as E2. unfold same_or_perm in E1, E2.
  destruct (ed_to_public C k), (ed_to_public C k'); try contradiction;
  destruct (ecdsa_to_public C k) as [p|], (ecdsa_to_public C k') as [p'|]; try contradiction; try reflexivity;
  (destruct E2 as [->|[Pp NDp]]; [reflexivity|now rewrite (ecdsa_point_ok_perm p p' Pp NDp)]).
Qed.

(* ---------------------------------------------------------------- the normal form differs by Go types only *)
Definition int32ish (z : Z) : bool := (MinInt32 <=? z) && (z <=? MaxInt32).

(* the values keys hold: integers of any Go integer type, byte and text strings, booleans, null, key_ops as []int / key.Ops *)
Definition key_val_ok (v : gval) : bool :=
  match v with
  | VInt k z => in_kind k z
  | VBytes _ | VBool _ | VNil => true
  | VStr s => utf8_valid s
  | VInts l | VOps (Some l) => forallb int32ish l
  | _ => false
  end.

Lemma in_kind_nint k z : in_kind k z = true -> exists k', nint z = VInt k' z /\ in_kind k' z = true.
Proof.
  unfold nint, in_kind. intro H. destruct (z <? 0) eqn:E.
  - exists KInt64. split; [reflexivity|]. destruct k; cbn in *; lia.
  - exists KUint64. split; [reflexivity|]. destruct k; cbn in *; lia.
Qed.

Lemma all_to_int_nint l : forallb int32ish l = true -> all_to_int (map nint l) = Some l.
Proof.
  induction l as [|z r IH]; cbn [map all_to_int forallb]; [reflexivity|]. intro H. apply andb_true_iff in H. destruct H as [Hz Hr].
  rewrite (IH Hr). unfold int32ish in Hz. unfold nint. destruct (z <? 0) eqn:E; cbn [to_int is_signed].
  - now rewrite Hz.
  - replace (z <=? MaxInt32) with true by lia. reflexivity.
Qed.

Lemma veq_normv v : key_val_ok v = true -> veq v (normv v).
Proof.
  destruct v; cbn [key_val_ok normv]; try discriminate; intro H; try constructor.
  - destruct (in_kind_nint k z H) as [k' [E K]]. rewrite E. now constructor.
  - now apply all_to_int_nint.
  - destruct l as [l|]; [|discriminate]. constructor. now apply all_to_int_nint.
Qed.

Lemma meq_map_ventry M : forallb (fun e => key_val_ok (snd e)) M = true -> meq M (map ventry M).
Proof.
  induction M as [|[l v] r IH]; cbn [map forallb snd]; intro H; constructor.
  - apply andb_true_iff in H. split; [reflexivity|]. apply veq_normv. tauto.
  - apply IH. apply andb_true_iff in H. tauto.
Qed.

Lemma key_val_ok_hv v : key_val_ok v = true -> hv v = true.
Proof.
  destruct v; cbn [key_val_ok hv]; try discriminate; try reflexivity; try (intro H; exact H).
  - unfold in_kind, int64ish. destruct k; cbn; lia.
  - intro H. rewrite forallb_forall in *. intros z Hz. specialize (H z Hz). unfold int32ish, int64ish, MinInt32, MaxInt32 in *. lia.
  - destruct l as [l|]; [|discriminate]. intro H. rewrite forallb_forall in *. intros z Hz. specialize (H z Hz). unfold int32ish, int64ish, MinInt32, MaxInt32 in *. lia.
Qed.

Lemma check_key_ecdh_meq k k' : meq k k' -> check_key_ecdh k' = check_key_ecdh k.
Proof.
  intro M. unfold check_key_ecdh.
  rewrite (kty_meq k _ M), (key_alg_meq k _ M), (loop_ok_meq _ _ _ k _ M), (get_int_meq k _ _ M), !(has_meq k _ _ M), !(get_bytes__meq k _ _ M), (kid_ok_meq k _ M).
  destruct (get_int k (-1)); try reflexivity. now rewrite (y_ok_meq k _ _ M).
Qed.

(* ---------------------------------------------------------------- the theorem *)
(* a key as applications and the library build them: Go `int` or text labels, no label twice, key-shaped values *)
Definition good_key (k : cosemap) : Prop :=
  forallb (fun e => checked (fst e)) k = true /\ forallb (fun e => key_val_ok (snd e)) k = true /\ NoDup (map fst k)
  /\ forallb (fun e => lbl_ok (fst e)) k = true.

Lemma good_key_hv k : good_key k -> hv (VMap k) = true.
Proof.
  intros [_ [Hv [_ Hl]]]. cbn [hv]. rewrite forallb_forall in *. intros e He. rewrite (Hl e He). cbn [andb]. apply key_val_ok_hv. now apply Hv.
Qed.

Section RT.
Variable C : crypto.

Theorem read_back_interchangeable k : good_key k ->
  (forall kind, obtain C kind (read_back k) = obtain C kind k)
  /\ (forall op, empty_or_has (key_ops (read_back k)) op = empty_or_has (key_ops k) op)
  /\ (forall f op, sym_performs f op (read_back k) = sym_performs f op k)
  /\ ecdh_local_performs C (read_back k) = ecdh_local_performs C k.
Proof.
  intros [Hc [Hv [ND Hl]]]. unfold read_back.
  set (S := isort lkey k).
  assert (P : Permutation k S) by apply isort_perm.
  assert (HvS : forallb (fun e => key_val_ok (snd e)) S = true).
  { rewrite forallb_forall in *. intros e He. apply Hv. now apply (proj1 (isort_In lkey e k)). }
  pose proof (meq_map_ventry S HvS) as M.
  repeat split.
  - intro kind. rewrite (obtain_meq C kind S (map ventry S) M). now apply obtain_perm.
  - intro op. rewrite (gate_meq S (map ventry S) op M). now rewrite (key_ops_perm k S P ND).
  - intros f op. rewrite (sym_performs_meq f op S (map ventry S) M). unfold sym_performs.
    now rewrite (check_key_sym_perm k S P ND), (key_ops_perm k S P ND).
  - unfold ecdh_local_performs at 1.
    rewrite (has_meq S _ _ M), (get_int__meq S _ _ M), (get_bytes__meq S _ _ M), (key_ops_meq S _ M).
    pose proof (check_key_ecdh_meq S _ M) as E.
    rewrite E. fold (ecdh_local_performs C S). now apply ecdh_local_performs_perm.
Qed.

(* the key decoded from its CBOR, text or JSON form is read_back k: so it obtains the same implementations, passes the
   same CheckKey and the same per-operation gates as the original, in all three forms *)
Theorem key_roundtrip_interchangeable k bs : good_key k ->
  enc_cosemap k = Some bs ->
  (forall it, item_of (VMap k) = Some it -> encodable it = true) ->
  exists k', cosemap_of_bytes bs = Ok k'
    /\ (exists t, cosemap_text k = Some t /\ cosemap_of_text t = Ok k')
    /\ (exists j, cosemap_json k = Some j /\ cosemap_of_json j = Ok k')
    /\ (forall kind, obtain C kind k' = obtain C kind k)
    /\ (forall op, empty_or_has (key_ops k') op = empty_or_has (key_ops k) op)
    /\ (forall f op, sym_performs f op k' = sym_performs f op k)
    /\ ecdh_local_performs C k' = ecdh_local_performs C k.
Proof.
  intros G He Henc. exists (read_back k).
  assert (R : cosemap_of_bytes bs = Ok (read_back k)).
  { destruct G as [Hc [Hv [ND Hl]]]. apply (cosemap_roundtrip k bs Hc); [|exact He|exact Henc]. apply good_key_hv. repeat split; assumption. }
  split; [exact R|].
  split; [destruct (cosemap_text_as_cbor k bs He) as [t [A B]]; exists t; split; [exact A|now rewrite B]|].
  split; [destruct (cosemap_json_as_cbor k bs He) as [t [A B]]; exists t; split; [exact A|now rewrite B]|].
  apply read_back_interchangeable. exact G.
Qed.
End RT.

(* the hypotheses are met by an ordinary key: an HMAC key with key_ops, written in another order than the encoder's *)
Example good_key_example :
  let k := [(ilabel 3, VInt KInt 5); (ilabel 1, VInt KInt 4); (ilabel (-1), VBytes (zeros 32)); (ilabel 4, VOps (Some [9; 10])); (ilabel 2, VBytes (hex "6b6964"))] in
  good_key k /\ read_back k <> k /\ sym_performs Hmac 9 k = true
  /\ (forall it, item_of (VMap k) = Some it -> encodable it = true).
Proof.
  cbv zeta. split; [|split; [|split]].
  - repeat split; try (vm_compute; reflexivity). repeat constructor; cbn; intuition discriminate.
  - vm_compute. discriminate.
  - vm_compute. reflexivity.
  - intros it H. vm_compute in H. inversion H; subst. vm_compute. reflexivity.
Qed.
