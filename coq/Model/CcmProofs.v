(* C12: the CCM implementation of the repository computes RFC 3610 CCM, for any 16-byte block function. *)
From Coq Require Import String.
From Coq Require Import NArith ZArith List Arith Lia Bool ZifyN ZifyNat ZifyBool.
From Cose Require Import Lib.Base Lib.BeLemmas Lib.CbcMac Spec.RFC3610 Model.CcmGo.
Import ListNotations.
Ltac Zify.zify_post_hook ::= Z.div_mod_to_equations.

(* ---------------------------------------------------------------- blocks of a zero-padded string *)

Lemma zeros_len n : length (zeros n) = n.
Proof. apply repeat_length. Qed.

Lemma chunk16_nil : chunk16 [] = [].
Proof. reflexivity. Qed.

Lemma pad_len_sub n : 16 <= n -> pad_len (n - 16) = pad_len n.
Proof.
  intro H. unfold pad_len. replace ((n - 16) mod 16) with (n mod 16); [reflexivity|].
  replace n with ((n - 16) + 1 * 16) at 1 by lia. now rewrite Nat.mod_add by lia.
Qed.

Lemma pad_mult' d : length (zero_pad d) mod 16 = 0.
Proof. exact (pad_mult (fun _ => zeros 16) (fun _ => eq_refl) d). Qed.

Lemma zero_pad_len_mult d : exists q, length (zero_pad d) = 16 * q /\ (d <> [] -> 1 <= q).
Proof.
  pose proof (pad_mult' d) as P. exists (length (zero_pad d) / 16). split.
  - apply Nat.div_exact in P; lia.
  - intro Hd. unfold zero_pad in *. rewrite app_length in *. destruct d; [congruence|]. cbn [length] in *.
    apply Nat.div_exact in P; [|lia]. lia.
Qed.

Lemma chunk16_step d : d <> [] -> chunk16 d = firstn 16 (d ++ zeros 16) :: chunk16 (skipn 16 d).
Proof.
  intro Hd. unfold chunk16.
  destruct (zero_pad_len_mult d) as [q [Hq Hq1]]. specialize (Hq1 Hd).
  rewrite Hq. replace (16 * q / 16) with q by (rewrite Nat.mul_comm, Nat.div_mul; lia).
  destruct q as [|q]; [lia|]. cbn [blocks]. f_equal.
  - unfold zero_pad, pad_len. destruct (Nat.le_gt_cases 16 (length d)) as [G|G].
    + rewrite !firstn_app. replace (16 - length d) with 0 by lia. now rewrite !firstn_O.
    + rewrite !firstn_app, !firstn_all2 by lia. f_equal.
      replace (length d mod 16) with (length d) by (symmetry; apply Nat.mod_small; lia).
      destruct (length d =? 0) eqn:E0; [apply Nat.eqb_eq in E0; destruct d; [congruence|discriminate]|].
      unfold zeros. rewrite firstn_all2 by (rewrite repeat_length; lia).
      assert (F : forall a b, a <= b -> firstn a (repeat Byte.x00 b) = repeat Byte.x00 a).
      { induction a as [|a IHa]; intros [|b] Hab; cbn; try reflexivity; try lia. f_equal. apply IHa. lia. }
      rewrite F by lia. reflexivity.
  - assert (Hz : zero_pad (skipn 16 d) = skipn 16 (zero_pad d)).
    { unfold zero_pad. rewrite skipn_length. destruct (Nat.le_gt_cases 16 (length d)) as [G|G].
      - rewrite skipn_app. replace (16 - length d) with 0 by lia. cbn [skipn]. now rewrite pad_len_sub by lia.
      - rewrite (skipn_all2 d) by lia. replace (length d - 16) with 0 by lia. cbn [app pad_len Nat.modulo Nat.eqb].
        rewrite skipn_all2; [reflexivity|]. rewrite app_length, zeros_len. unfold zero_pad in Hq. rewrite app_length, zeros_len in Hq.
        unfold pad_len in *. replace (length d mod 16) with (length d) in * by (symmetry; apply Nat.mod_small; lia).
        destruct (length d =? 0) eqn:E0; lia. }
    rewrite Hz, skipn_length, Hq. replace (16 * S q - 16) with (16 * q) by lia.
    replace (16 * q / 16) with q by (rewrite Nat.mul_comm, Nat.div_mul; lia). reflexivity.
Qed.

Section P.
  Variable E : bytes -> bytes.
  Hypothesis E_len : forall b, length (E b) = 16.
  Variables M L : nat.

  (* the loop of cbcData is the CBC-MAC fold over the zero-padded blocks *)
  Lemma cbc_data_fold fuel : forall mac data, length data <= fuel ->
    cbc_data E fuel mac data = cbc_fold E mac (chunk16 data).
  Proof.
    induction fuel as [|f IH]; intros mac data H.
    - destruct data; [reflexivity|cbn in H; lia].
    - cbn [cbc_data]. destruct data as [|b0 d0] eqn:Ed.
      + reflexivity.
      + rewrite <- Ed in *. assert (Hne : data <> []) by (rewrite Ed; discriminate).
        rewrite (chunk16_step data Hne). unfold cbc_fold at 1. cbn [fold_left]. fold (cbc_fold E).
        destruct (16 <=? length data) eqn:G.
        * apply Nat.leb_le in G. rewrite IH by (rewrite skipn_length; lia). unfold cbc_round.
          rewrite firstn_app. replace (16 - length data) with 0 by lia. now rewrite firstn_O, app_nil_r.
        * apply Nat.leb_gt in G. replace (0 <? length data) with true by (symmetry; apply Nat.ltb_lt; destruct data; [congruence|cbn; lia]).
          rewrite (skipn_all2 data) by lia. rewrite chunk16_nil. unfold cbc_round, cbc_fold. cbn [fold_left].
          rewrite firstn_app, firstn_all2 by lia. f_equal. f_equal. f_equal.
          unfold zeros. assert (F : forall a b, a <= b -> firstn a (repeat Byte.x00 b) = repeat Byte.x00 a).
          { induction a as [|a IHa]; intros [|b] Hab; cbn; try reflexivity; try lia. f_equal. apply IHa. lia. }
          now rewrite F by lia.
  Qed.
End P.

(* ---------------------------------------------------------------- parameters within RFC 3610's ranges *)
Definition params_ok (M L : nat) : Prop := 2 <= L <= 8 /\ 4 <= M <= 16 /\ Nat.even M = true.

Lemma xor16_zero_l x : length x = 16 -> xor16 zero16 x = x.
Proof.
  intro H. unfold xor16, zero16, zeros.
  do 17 (destruct x as [|? x]; try discriminate). cbn.
  repeat f_equal; unfold xor_byte; change (Byte.to_N Byte.x00) with 0%N; rewrite N.lxor_0_l; apply b8_to_N.
Qed.

Section Q.
  Variable E : bytes -> bytes.
  Hypothesis E_len : forall b, length (E b) = 16.
  Variables M L : nat.
  Hypothesis HP : params_ok M L.

  Lemma flags_eq (has_a : bool) :
    ((if has_a then 64 else 0) + (N.of_nat M - 2) * 4 + (N.of_nat L - 1))%N = flags0 M L has_a.
  Proof.
    unfold flags0. destruct HP as (HL & HM & Hev). apply Nat.even_spec in Hev. destruct Hev as [k Hk]. subst M.
    rewrite Nat2N.inj_mul. change (N.of_nat 2) with 2%N. destruct has_a; lia.
  Qed.

  (* mac[0] = flags; PutUint64(mac[8:], len); copy(mac[1:16-L], nonce)  ==  B_0 *)
  Lemma b0_eq nonce plen alen : length nonce = 15 - L ->
    let flags := ((if Nat.ltb 0 alen then 64%N else 0%N) + (N.of_nat M - 2) * 4 + (N.of_nat L - 1))%N in
    let mac1 := b8 flags :: zeros 7 ++ be 8 (N.of_nat plen) in
    firstn 1 mac1 ++ nonce ++ skipn (1 + length nonce) mac1 = B0 M L nonce plen alen.
  Proof.
    intros Hn flags mac1. unfold B0. destruct HP as (HL & HM & Hev).
    subst mac1. cbn [firstn app]. f_equal.
    - f_equal. subst flags. rewrite <- flags_eq. destruct alen; reflexivity.
    - f_equal. rewrite Hn. cbn [skipn Nat.add].
      (* skipn (15 - L) (zeros 7 ++ be 8 n) = be L n *)
      replace (15 - L) with (7 + (8 - L)) by lia. rewrite skipn_app, zeros_len.
      rewrite (skipn_all2 (zeros 7)) by (rewrite zeros_len; lia). cbn [app].
      replace (7 + (8 - L) - 7) with (8 - L) by lia.
      replace 8 with ((8 - L) + L) at 2 by lia. apply skipn_be.
  Qed.

  Lemma go_alen_eq n : (0 < n)%N -> go_alen n = enc_alen n.
  Proof.
    intro H. unfold go_alen, enc_alen. replace (n =? 0)%N with false by lia.
    destruct (n <=? 65279)%N eqn:A; [replace (n <? 65280)%N with true by lia; reflexivity|].
    replace (n <? 65280)%N with false by lia. reflexivity.
  Qed.

  Lemma enc_alen_len n : length (enc_alen n) <= 10.
  Proof.
    unfold enc_alen. destruct (n =? 0)%N; [cbn; lia|]. destruct (n <? 65280)%N; [rewrite be_length; lia|].
    destruct (n <? 4294967296)%N; cbn [length]; rewrite be_length; lia.
  Qed.

  (* the first authenticated-data block plus cbcData over the remainder = fold over the blocks of enc(l(a)) | a *)
  Lemma adata_fold mac a : a <> [] ->
    let pre := go_alen (N.of_nat (length a)) in
    let i := length pre in
    let copied := Nat.min (16 - i) (length a) in
    cbc_data E (length a) (cbc_round E mac (pre ++ firstn copied a ++ zeros (16 - i - copied))) (skipn copied a)
    = cbc_fold E mac (auth_blocks a).
  Proof.
    intros Ha. assert (Hlen : 0 < length a) by (destruct a; [congruence|cbn; lia]).
    assert (Hpos : (0 < N.of_nat (length a))%N) by lia.
    rewrite (go_alen_eq _ Hpos). intros pre i copied.
    replace (auth_blocks a) with (chunk16 (pre ++ a)) by (unfold auth_blocks; destruct a; [congruence|reflexivity]).
    pose proof (enc_alen_len (N.of_nat (length a))) as Hi. fold pre in Hi. fold i in Hi.
    assert (Hne : pre ++ a <> []) by (destruct a; [congruence|]; destruct pre; discriminate).
    rewrite (chunk16_step (pre ++ a) Hne). unfold cbc_fold at 1. cbn [fold_left]. fold (cbc_fold E).
    rewrite (cbc_data_fold E E_len (length a)) by (rewrite skipn_length; lia).
    assert (F : forall x y, x <= y -> firstn x (repeat Byte.x00 y) = repeat Byte.x00 x).
    { induction x as [|x IHx]; intros [|y] Hxy; cbn; try reflexivity; try lia. f_equal. apply IHx. lia. }
    assert (B : pre ++ firstn copied a ++ zeros (16 - i - copied) = firstn 16 ((pre ++ a) ++ zeros 16)).
    { rewrite <- !app_assoc. rewrite firstn_app. fold i. rewrite (firstn_all2 pre) by (fold i; lia). f_equal.
      subst copied. destruct (Nat.le_gt_cases (16 - i) (length a)) as [G|G].
      - rewrite Nat.min_l by exact G. replace (16 - i - (16 - i)) with 0 by lia. cbn [zeros repeat]. rewrite app_nil_r.
        rewrite firstn_app. replace (16 - i - length a) with 0 by lia. now rewrite firstn_O, app_nil_r.
      - rewrite Nat.min_r by lia. rewrite firstn_all. rewrite firstn_app, (firstn_all2 a) by lia. f_equal.
        unfold zeros. now rewrite F by lia. }
    assert (R : skipn copied a = skipn 16 (pre ++ a)).
    { rewrite skipn_app. fold i. rewrite (skipn_all2 pre) by (fold i; lia). cbn [app].
      subst copied. destruct (Nat.le_gt_cases (16 - i) (length a)) as [G|G].
      - now rewrite Nat.min_l by exact G.
      - rewrite Nat.min_r by lia. rewrite !skipn_all2; try reflexivity; lia. }
    unfold cbc_round. rewrite B, R. reflexivity.
  Qed.

  (* ccm.tag computes the RFC 3610 authentication value T *)
  Theorem go_tag_is_T nonce m a : length nonce = 15 - L -> (N.of_nat (length m) <= max_length M L)%N ->
    go_tag E M L nonce m a = Ok (cbcmac_T E M L nonce m a).
  Proof.
    intros Hn Hm. unfold go_tag.
    replace (negb (length nonce =? nonce_size L)) with false by (unfold nonce_size; rewrite Hn, Nat.eqb_refl; reflexivity).
    replace (max_length M L <? N.of_nat (length m))%N with false by lia.
    cbv zeta. rewrite (b0_eq nonce (length m) (length a) Hn). f_equal. unfold cbcmac_T. f_equal.
    assert (Cc : forall iv b l, cbc_fold E iv (b :: l) = cbc_fold E (E (xor16 iv b)) l) by reflexivity.
    assert (Ca : forall iv l1 l2, cbc_fold E iv (l1 ++ l2) = cbc_fold E (cbc_fold E iv l1) l2)
      by (intros; unfold cbc_fold; apply fold_left_app).
    rewrite Cc, Ca. rewrite xor16_zero_l.
    2:{ unfold B0. cbn [length]. rewrite app_length, be_length, Hn. destruct HP as (HL & _). lia. }
    set (mac3 := E (B0 M L nonce (length m) (length a))).
    assert (A1 : (if 0 <? length a
                  then cbc_data E (length a)
                         (cbc_round E mac3
                            (go_alen (N.of_nat (length a)) ++ firstn (Nat.min (16 - length (go_alen (N.of_nat (length a)))) (length a)) a
                             ++ zeros (16 - length (go_alen (N.of_nat (length a))) - Nat.min (16 - length (go_alen (N.of_nat (length a)))) (length a))))
                         (skipn (Nat.min (16 - length (go_alen (N.of_nat (length a)))) (length a)) a)
                  else mac3)
                 = cbc_fold E mac3 (auth_blocks a)).
    { destruct a as [|a0 a'] eqn:Ea; [reflexivity|]. rewrite <- Ea.
      replace (0 <? length a) with true by (rewrite Ea; reflexivity). apply adata_fold. rewrite Ea. discriminate. }
    rewrite A1.
    destruct m as [|m0 m'] eqn:Em; [reflexivity|]. rewrite <- Em.
    replace (0 <? length m) with true by (rewrite Em; reflexivity).
    apply (cbc_data_fold E E_len). lia.
  Qed.

  (* ---------------------------------------------------------------- the counter mode part *)
  Lemma iv0_is_A0 nonce : go_iv0 L nonce = Ablk L nonce 0.
  Proof. unfold go_iv0, Ablk. now rewrite be_zero. Qed.

  Lemma pre_len nonce : length nonce = 15 - L -> length (b8 (N.of_nat L - 1) :: nonce) = 16 - L.
  Proof. intro H. cbn [length]. destruct HP as (HL & _). lia. Qed.

  (* the 16-byte big-endian counter of cipher.NewCTR stays inside the L-byte field *)
  Lemma ctr_block_is_S nonce j : length nonce = 15 - L -> (N.of_nat j + 1 < 256 ^ N.of_nat L)%N ->
    ctr_block E (go_iv1 L nonce) j = Sblk E L nonce (N.of_nat j + 1).
  Proof.
    intros Hn Hj. unfold ctr_block, Sblk, Ablk, go_iv1. f_equal. destruct HP as (HL & _).
    set (pre := b8 (N.of_nat L - 1) :: nonce).
    assert (Hpre : length pre = 16 - L) by (subst pre; cbn [length]; lia).
    change (b8 (N.of_nat L - 1) :: nonce ++ zeros (L - 1) ++ [Byte.x01]) with (pre ++ (zeros (L - 1) ++ [Byte.x01])).
    change (b8 (N.of_nat L - 1) :: nonce ++ be L (N.of_nat j + 1)) with (pre ++ be L (N.of_nat j + 1)).
    replace (zeros (L - 1) ++ [Byte.x01]) with (be L 1) by (destruct L as [|l]; [lia|]; rewrite be_one; f_equal; f_equal; lia).
    rewrite of_be_app, be_length, of_be_be.
    pose proof (pow256_pos L) as PL. rewrite (N.mod_small 1) by lia.
    pose proof (of_be_lt pre) as Hlt. rewrite Hpre in Hlt.
    assert (P16 : (256 ^ N.of_nat (16 - L) * 256 ^ N.of_nat L = 340282366920938463463374607431768211456)%N).
    { rewrite <- N.pow_add_r, <- Nat2N.inj_add. replace (16 - L + L) with 16 by lia. reflexivity. }
    rewrite N.mod_small by nia.
    replace (of_be pre * 256 ^ N.of_nat L + 1 + N.of_nat j)%N with (of_be pre * 256 ^ N.of_nat L + (N.of_nat j + 1))%N by lia.
    replace 16 with ((16 - L) + L) at 1 by lia.
    rewrite be_split by exact Hj. f_equal. rewrite <- Hpre. apply be_of_be.
  Qed.

  Lemma ctr_stream_is_keystream nonce n : length nonce = 15 - L -> (N.of_nat n < 256 ^ N.of_nat L)%N ->
    ctr_stream E (go_iv1 L nonce) n = keystream E L nonce n.
  Proof.
    intros Hn Hlim. unfold ctr_stream, keystream. f_equal.
    rewrite <- (seq_shift n 0), map_map. apply map_ext_in. intros j Hj. apply in_seq in Hj.
    rewrite ctr_block_is_S by (try assumption; lia). f_equal. lia.
  Qed.

  (* a plaintext within the limit needs fewer than 256^L counter blocks *)
  Lemma blocks_within_limit len : (N.of_nat len <= max_length M L)%N -> (N.of_nat ((len + 15) / 16) < 256 ^ N.of_nat L)%N.
  Proof.
    intro H. destruct HP as (HL & HM & _). unfold max_length in H.
    assert (P : (65536 <= 256 ^ N.of_nat L)%N).
    { replace L with (2 + (L - 2)) by lia. rewrite Nat2N.inj_add, N.pow_add_r. change (256 ^ N.of_nat 2)%N with 65536%N.
      pose proof (pow256_pos (L - 2)). nia. }
    destruct ((8 <? L) || (9223372036854775807 - N.of_nat M <? 256 ^ N.of_nat L - 1)%N) eqn:C.
    - (* capped at MaxInt64 - M: far below 256^L * 16 *)
      apply orb_true_iff in C. destruct C as [C|C]; [apply Nat.ltb_lt in C; lia|]. apply N.ltb_lt in C.
      assert ((len + 15) / 16 <= len)%nat by (destruct len; [cbn; lia|]; apply Nat.div_le_upper_bound; lia). lia.
    - assert ((len + 15) / 16 * 16 <= len + 15)%nat by (pose proof (Nat.div_mod (len + 15) 16); lia). lia.
  Qed.

  (* C12 main theorem: Seal of ccm.go is RFC 3610 encryption, for every nonce of the right length, every
     additional data (all three length encodings) and every plaintext within the limit *)
  Theorem ccm_go_is_rfc3610 nonce m a : length nonce = 15 - L -> (N.of_nat (length m) <= max_length M L)%N ->
    go_seal E M L nonce m a = Ok (RFC3610.seal E M L nonce m a).
  Proof.
    intros Hn Hm. unfold go_seal, RFC3610.seal. rewrite (go_tag_is_T nonce m a Hn Hm).
    rewrite iv0_is_A0. rewrite ctr_stream_is_keystream by (try assumption; now apply blocks_within_limit). reflexivity.
  Qed.

  Theorem ccm_encrypt_is_rfc3610 nonce m a : length nonce = 15 - L -> (N.of_nat (length m) <= max_length M L)%N ->
    encrypt E M L nonce m a = Ok (RFC3610.seal E M L nonce m a).
  Proof.
    intros Hn Hm. unfold encrypt, nonce_size. rewrite Hn, Nat.eqb_refl. cbn [negb].
    replace (max_length M L <? N.of_nat (length m))%N with false by lia. now apply ccm_go_is_rfc3610.
  Qed.

  (* plaintexts beyond the limit and nonces of any other length are refused with an error, never a panic *)
  Theorem ccm_limit nonce m a : (max_length M L < N.of_nat (length m))%N -> encrypt E M L nonce m a = Err.
  Proof.
    intro H. unfold encrypt. destruct (negb (length nonce =? nonce_size L)); [reflexivity|].
    now replace (max_length M L <? N.of_nat (length m))%N with true by lia.
  Qed.
  Theorem ccm_nonce_len_refused nonce x a : length nonce <> 15 - L ->
    encrypt E M L nonce x a = Err /\ decrypt E M L nonce x a = Err.
  Proof.
    intro H. unfold encrypt, decrypt, nonce_size. replace (length nonce =? 15 - L) with false by (symmetry; apply Nat.eqb_neq; exact H).
    split; reflexivity.
  Qed.
  Theorem ccm_encrypt_never_panics nonce m a : encrypt E M L nonce m a <> Panic.
  Proof.
    unfold encrypt, nonce_size. destruct (length nonce =? 15 - L) eqn:Hn; cbn [negb]; [|discriminate].
    apply Nat.eqb_eq in Hn. destruct (max_length M L <? N.of_nat (length m))%N eqn:Hm; [discriminate|].
    rewrite ccm_go_is_rfc3610 by (try assumption; lia). discriminate.
  Qed.
End Q.

(* ---------------------------------------------------------------- decryption: exactness *)
Lemma xor_trunc_length a b : length (xor_bytes_trunc a b) = Nat.min (length a) (length b).
Proof. unfold xor_bytes_trunc. now rewrite map_length, combine_length. Qed.

Lemma lxor_byte_lt a b : (a < 256)%N -> (b < 256)%N -> (N.lxor a b < 256)%N.
Proof.
  intros Ha Hb. destruct (N.eq_dec (N.lxor a b) 0) as [Z|NZ]; [lia|].
  assert (P : (0 < N.lxor a b)%N) by lia.
  apply (proj2 (N.log2_lt_pow2 (N.lxor a b) 8 P)).
  eapply N.le_lt_trans; [apply N.log2_lxor|].
  apply N.max_lub_lt.
  - destruct (N.eq_dec a 0) as [->|Hx]; [cbn; lia|]. apply (proj1 (N.log2_lt_pow2 a 8 ltac:(lia))). exact Ha.
  - destruct (N.eq_dec b 0) as [->|Hy]; [cbn; lia|]. apply (proj1 (N.log2_lt_pow2 b 8 ltac:(lia))). exact Hb.
Qed.

Lemma xor_byte_involutive x y : xor_byte (xor_byte x y) y = x.
Proof.
  unfold xor_byte. rewrite to_N_b8. rewrite N.mod_small by (apply lxor_byte_lt; apply to_N_lt).
  rewrite N.lxor_assoc, N.lxor_nilpotent, N.lxor_0_r. apply b8_to_N.
Qed.

Lemma xor_trunc_involutive a : forall b, length a <= length b -> xor_bytes_trunc (xor_bytes_trunc a b) b = a.
Proof.
  unfold xor_bytes_trunc. induction a as [|x a IH]; intros [|y b] H; cbn in *; try reflexivity; try lia.
  rewrite xor_byte_involutive. f_equal. apply IH. lia.
Qed.

Section R.
  Variable E : bytes -> bytes.
  Hypothesis E_len : forall b, length (E b) = 16.
  Variables M L : nat.
  Hypothesis HM : M <= 16.

  Lemma keystream_length nonce n : length (keystream E L nonce n) = 16 * n.
  Proof.
    unfold keystream.
    assert (G : forall k s, length (concat (map (fun i => Sblk E L nonce (N.of_nat i)) (seq s k))) = 16 * k).
    { induction k as [|k IH]; intro s; cbn [seq map concat]; [reflexivity|].
      rewrite app_length, IH. unfold Sblk. rewrite E_len. lia. }
    apply G.
  Qed.

  Lemma T_length nonce m a : length (cbcmac_T E M L nonce m a) = M.
  Proof.
    unfold cbcmac_T. rewrite firstn_length. rewrite (cbc_fold_length E E_len) by reflexivity. lia.
  Qed.

  Lemma ks_enough n : n <= 16 * ((n + 15) / 16).
  Proof. pose proof (Nat.div_mod (n + 15) 16). pose proof (Nat.mod_upper_bound (n + 15) 16). lia. Qed.

  (* ciphertext is exactly plaintext length plus tag length *)
  Theorem seal_length nonce m a : length (RFC3610.seal E M L nonce m a) = length m + M.
  Proof.
    unfold RFC3610.seal. rewrite app_length, !xor_trunc_length, keystream_length, T_length. unfold Sblk. rewrite E_len.
    pose proof (ks_enough (length m)). lia.
  Qed.

  (* decrypting the ciphertext returns the plaintext *)
  Theorem open_seal nonce m a : RFC3610.open E M L nonce (RFC3610.seal E M L nonce m a) a = Some m.
  Proof.
    unfold RFC3610.open. rewrite seal_length.
    replace (length m + M <? M) with false by (symmetry; apply Nat.ltb_ge; lia).
    replace (length m + M - M) with (length m) by lia.
    pose (c1 := xor_bytes_trunc m (keystream E L nonce ((length m + 15) / 16))).
    pose (u := xor_bytes_trunc (cbcmac_T E M L nonce m a) (Sblk E L nonce 0)).
    change (RFC3610.seal E M L nonce m a) with (c1 ++ u).
    assert (L1 : length c1 = length m).
    { subst c1. rewrite xor_trunc_length, keystream_length. pose proof (ks_enough (length m)). lia. }
    assert (F1 : firstn (length m) (c1 ++ u) = c1)
      by (rewrite <- L1; rewrite firstn_app, Nat.sub_diag, firstn_all, firstn_O, app_nil_r; reflexivity).
    assert (F2 : skipn (length m) (c1 ++ u) = u)
      by (rewrite <- L1; rewrite skipn_app, Nat.sub_diag, skipn_all; reflexivity).
    rewrite F1, F2, L1.
    unfold c1 at 1 2. rewrite !xor_trunc_involutive by (rewrite keystream_length; apply ks_enough).
    subst u. rewrite xor_trunc_involutive by (rewrite T_length; unfold Sblk; rewrite E_len; exact HM).
    now rewrite bytes_eqb_refl.
  Qed.

  (* and nothing else decrypts: open succeeds exactly on the output of seal *)
  Theorem open_exact nonce c a m : RFC3610.open E M L nonce c a = Some m <-> c = RFC3610.seal E M L nonce m a.
  Proof.
    split.
    - unfold RFC3610.open. destruct (length c <? M) eqn:Hc; [discriminate|]. apply Nat.ltb_ge in Hc.
      set (ct := firstn (length c - M) c). set (u := skipn (length c - M) c).
      set (m' := xor_bytes_trunc ct (keystream E L nonce ((length ct + 15) / 16))).
      destruct (bytes_eqb (xor_bytes_trunc u (Sblk E L nonce 0)) (cbcmac_T E M L nonce m' a)) eqn:Ht; [|discriminate].
      intro H. inversion H; subst m. apply bytes_eqb_eq in Ht.
      assert (Lct : length ct = length c - M) by (subst ct; rewrite firstn_length; lia).
      assert (Lu : length u = M) by (subst u; rewrite skipn_length; lia).
      assert (Lm : length m' = length ct).
      { subst m'. rewrite xor_trunc_length, keystream_length. pose proof (ks_enough (length ct)). lia. }
      unfold RFC3610.seal. rewrite Lm. rewrite <- Ht.
      subst m'. rewrite xor_trunc_involutive by (rewrite keystream_length; apply ks_enough).
      rewrite xor_trunc_involutive by (rewrite Lu; unfold Sblk; rewrite E_len; exact HM).
      subst ct u. now rewrite firstn_skipn.
    - intros ->. apply open_seal.
  Qed.
End R.

(* the Go Open agrees with the specification's open (hence inherits exactness) *)
Section S.
  Variable E : bytes -> bytes.
  Hypothesis E_len : forall b, length (E b) = 16.
  Variables M L : nat.
  Hypothesis HP : params_ok M L.

  Theorem go_open_is_rfc3610 nonce c a : length nonce = 15 - L ->
    (N.of_nat (length c) <= max_length M L + N.of_nat M)%N ->
    go_open E M L nonce c a = match RFC3610.open E M L nonce c a with Some m => Ok m | None => Err end.
  Proof.
    intros Hn Hc. unfold go_open, RFC3610.open. destruct (length c <? M) eqn:Hs; [reflexivity|]. apply Nat.ltb_ge in Hs.
    replace (max_length M L + N.of_nat M <? N.of_nat (length c))%N with false by lia.
    set (ct := firstn (length c - M) c).
    assert (Lct : length ct = length c - M) by (subst ct; rewrite firstn_length; lia).
    assert (Hlim : (N.of_nat (length ct) <= max_length M L)%N) by lia.
    rewrite iv0_is_A0.
    assert (Hb : (N.of_nat ((length ct + 15) / 16) < 256 ^ N.of_nat L)%N) by (apply (blocks_within_limit M L HP); exact Hlim).
    rewrite (ctr_stream_is_keystream E E_len M L HP nonce _ Hn Hb).
    set (m := xor_bytes_trunc ct (keystream E L nonce ((length ct + 15) / 16))).
    assert (Lm : length m = length ct).
    { assert (HM16 : M <= 16) by (destruct HP as (_ & HM & _); lia).
      subst m. rewrite xor_trunc_length, (keystream_length E E_len M L HM16). pose proof (ks_enough M HM16 (length ct)). lia. }
    rewrite (go_tag_is_T E E_len M L HP nonce m a Hn) by (rewrite Lm; exact Hlim).
    destruct (bytes_eqb _ _); reflexivity.
  Qed.
End S.
