(* cwt.Validator.Validate / ValidateMap as regenerated from the source (Gen/CwtSlicesGen.v, translator T13: every
   statement after the choice of `now`) decide what the hand model (Model/Cwt.v) decides, for every option set, instant
   and claim set. With CwtProofs (model = RFC 8392 accept) this makes the RFC decision a statement about the source. *)
From Coq Require Import String.
From Coq Require Import ZArith List Bool Lia.
From Cose Require Import Lib.Base Lib.GoSem Model.GoVal Spec.RFC8392 Model.Cwt Gen.CwtSlicesGen.
Import ListNotations.
Open Scope Z_scope.

Lemma bytes_eqb_nil_r (b : bytes) : bytes_eqb b [] = is_empty b.
Proof. destruct b; reflexivity. Qed.

Lemma gtb_ltb0 x : (0 <? x) = (x >? 0).
Proof. now rewrite Z.gtb_ltb. Qed.

Theorem gen_validate o now c : cwt_Validator_Validate o now c = if validate o now c then Ok tt else Err.
Proof.
  unfold cwt_Validator_Validate, validate, time_checks. rewrite !bytes_eqb_nil_r, !gtb_ltb0.
  destruct ((c_exp c =? 0) && negb (o_allow_missing o)); cbn [negb andb]; [reflexivity|].
  destruct (c_exp c >? 0).
  - destruct (after (add (to_time (c_exp c)) (o_skew o)) now); cbn [negb andb bind]; [|reflexivity].
    destruct (c_nbf c >? 0).
    + destruct (is_zero (to_time (c_nbf c)) || after (to_time (c_nbf c)) (add now (o_skew o))); cbn [negb andb bind]; [reflexivity|].
      destruct ((c_iat c >? 0) && o_iat_past o).
      * destruct (is_zero (to_time (c_iat c)) || after (to_time (c_iat c)) (add now (o_skew o))); cbn [negb andb bind]; [reflexivity|].
        destruct (negb (is_empty (o_iss o)) && negb (bytes_eqb (o_iss o) (c_iss c))); cbn [negb andb]; [reflexivity|].
        destruct (negb (is_empty (o_aud o)) && negb (bytes_eqb (o_aud o) (c_aud c))); reflexivity.
      * cbn [bind]. destruct (negb (is_empty (o_iss o)) && negb (bytes_eqb (o_iss o) (c_iss c))); cbn [negb andb]; [reflexivity|].
        destruct (negb (is_empty (o_aud o)) && negb (bytes_eqb (o_aud o) (c_aud c))); reflexivity.
    + cbn [bind]. destruct ((c_iat c >? 0) && o_iat_past o).
      * destruct (is_zero (to_time (c_iat c)) || after (to_time (c_iat c)) (add now (o_skew o))); cbn [negb andb bind]; [reflexivity|].
        destruct (negb (is_empty (o_iss o)) && negb (bytes_eqb (o_iss o) (c_iss c))); cbn [negb andb]; [reflexivity|].
        destruct (negb (is_empty (o_aud o)) && negb (bytes_eqb (o_aud o) (c_aud c))); reflexivity.
      * cbn [bind]. destruct (negb (is_empty (o_iss o)) && negb (bytes_eqb (o_iss o) (c_iss c))); cbn [negb andb]; [reflexivity|].
        destruct (negb (is_empty (o_aud o)) && negb (bytes_eqb (o_aud o) (c_aud c))); reflexivity.
  - cbn [bind]. destruct (c_nbf c >? 0).
    + destruct (is_zero (to_time (c_nbf c)) || after (to_time (c_nbf c)) (add now (o_skew o))); cbn [negb andb bind]; [reflexivity|].
      destruct ((c_iat c >? 0) && o_iat_past o).
      * destruct (is_zero (to_time (c_iat c)) || after (to_time (c_iat c)) (add now (o_skew o))); cbn [negb andb bind]; [reflexivity|].
        destruct (negb (is_empty (o_iss o)) && negb (bytes_eqb (o_iss o) (c_iss c))); cbn [negb andb]; [reflexivity|].
        destruct (negb (is_empty (o_aud o)) && negb (bytes_eqb (o_aud o) (c_aud c))); reflexivity.
      * cbn [bind]. destruct (negb (is_empty (o_iss o)) && negb (bytes_eqb (o_iss o) (c_iss c))); cbn [negb andb]; [reflexivity|].
        destruct (negb (is_empty (o_aud o)) && negb (bytes_eqb (o_aud o) (c_aud c))); reflexivity.
    + cbn [bind]. destruct ((c_iat c >? 0) && o_iat_past o).
      * destruct (is_zero (to_time (c_iat c)) || after (to_time (c_iat c)) (add now (o_skew o))); cbn [negb andb bind]; [reflexivity|].
        destruct (negb (is_empty (o_iss o)) && negb (bytes_eqb (o_iss o) (c_iss c))); cbn [negb andb]; [reflexivity|].
        destruct (negb (is_empty (o_aud o)) && negb (bytes_eqb (o_aud o) (c_aud c))); reflexivity.
      * cbn [bind]. destruct (negb (is_empty (o_iss o)) && negb (bytes_eqb (o_iss o) (c_iss c))); cbn [negb andb]; [reflexivity|].
        destruct (negb (is_empty (o_aud o)) && negb (bytes_eqb (o_aud o) (c_aud c))); reflexivity.
Qed.

Lemma get_uint64_np (m : cosemap) l : get_uint64 m l <> Panic.
Proof. unfold get_uint64. destruct (lookup m (ilabel l)) as [v|]; [|discriminate]. destruct v; try discriminate. destruct (is_signed k); [destruct (0 <=? z)|]; discriminate. Qed.
Lemma get_string_np (m : cosemap) l : get_string m l <> Panic.
Proof. unfold get_string. destruct (lookup m (ilabel l)) as [v|]; [destruct v|]; discriminate. Qed.

Ltac kill_panic :=
  match goal with
  | H : get_uint64 _ _ = Panic |- _ => exfalso; exact (get_uint64_np _ _ H)
  | H : get_string _ _ = Panic |- _ => exfalso; exact (get_string_np _ _ H)
  end.

Lemma exp_stage_np o now m : exp_stage o now m <> Panic.
Proof. unfold exp_stage, chk. destruct (has m 4); [|discriminate]. destruct (get_uint64 m 4); try discriminate. destruct (after _ _); discriminate. Qed.
Lemma nbf_stage_np o now m : nbf_stage o now m <> Panic.
Proof. unfold nbf_stage, chk. destruct (has m 5); [|discriminate]. destruct (get_uint64 m 5); try discriminate. destruct (negb _); discriminate. Qed.
Lemma iat_stage_np o now m : iat_stage o now m <> Panic.
Proof. unfold iat_stage, chk. destruct (has m 6); [|discriminate]. destruct (get_uint64 m 6); try discriminate. destruct (_ && _); [destruct (negb _)|]; discriminate. Qed.

Theorem gen_validate_map o now m : cwt_Validator_ValidateMap o now m = if validate_map o now m then Ok tt else Err.
Proof.
  unfold cwt_Validator_ValidateMap, validate_map. rewrite !bytes_eqb_nil_r.
  destruct (negb (has m 4) && negb (o_allow_missing o)); [reflexivity|].
  assert (E : (if has m 4 then do exp <- get_uint64 m 4; (if negb (after (add (to_time exp) (o_skew o)) now) then Err else Ok tt) else Ok tt) = exp_stage o now m).
  { unfold exp_stage, chk. destruct (has m 4); [|reflexivity]. destruct (get_uint64 m 4) as [e| |] eqn:G; cbn [bind]; [|reflexivity|kill_panic].
    destruct (after (add (to_time e) (o_skew o)) now); reflexivity. }
  rewrite E. clear E.
  destruct (exp_stage o now m) as [[]| |] eqn:S1; cbn [bind is_ok]; [|reflexivity|exfalso; exact (exp_stage_np _ _ _ S1)].
  assert (N : (if has m 5 then do nbf <- get_uint64 m 5; (if is_zero (to_time nbf) || after (to_time nbf) (add now (o_skew o)) then Err else Ok tt) else Ok tt) = nbf_stage o now m).
  { unfold nbf_stage, chk. destruct (has m 5); [|reflexivity]. destruct (get_uint64 m 5) as [e| |] eqn:G; cbn [bind]; [|reflexivity|kill_panic].
    destruct (is_zero (to_time e) || after (to_time e) (add now (o_skew o))); reflexivity. }
  rewrite N. clear N.
  destruct (nbf_stage o now m) as [[]| |] eqn:S2; cbn [bind is_ok]; [|reflexivity|exfalso; exact (nbf_stage_np _ _ _ S2)].
  assert (I : (if has m 6 then do iat <- get_uint64 m 6; do _ <- (if (0 <? iat) && o_iat_past o then (if is_zero (to_time iat) || after (to_time iat) (add now (o_skew o)) then Err else Ok tt) else Ok tt); Ok tt else Ok tt)
            = iat_stage o now m).
  { unfold iat_stage, chk. destruct (has m 6); [|reflexivity]. destruct (get_uint64 m 6) as [e| |] eqn:G; cbn [bind]; [|reflexivity|kill_panic].
    rewrite gtb_ltb0. destruct ((e >? 0) && o_iat_past o); [|reflexivity].
    destruct (is_zero (to_time e) || after (to_time e) (add now (o_skew o))); reflexivity. }
  rewrite I. clear I.
  destruct (iat_stage o now m) as [[]| |] eqn:S3; cbn [bind is_ok]; [|reflexivity|exfalso; exact (iat_stage_np _ _ _ S3)].
  unfold text_stage, chk.
  destruct (get_string m 1) as [iss| |] eqn:G1; cbn [bind is_ok]; [|reflexivity|kill_panic].
  destruct (negb (is_empty (o_iss o)) && negb (bytes_eqb (o_iss o) iss)); cbn [negb bind is_ok]; [reflexivity|].
  destruct (get_string m 3) as [aud| |] eqn:G3; cbn [bind is_ok]; [|reflexivity|kill_panic].
  destruct (negb (is_empty (o_aud o)) && negb (bytes_eqb (o_aud o) aud)); reflexivity.
Qed.

(* ---- with the model = specification theorems: the SOURCE decides exactly as RFC 8392 *)
From Cose Require Import Model.CwtProofs.
Theorem gen_validate_is_rfc8392 o now c :
  u64 (c_exp c) -> u64 (c_nbf c) -> u64 (c_iat c) -> now_ok now -> i64 (o_skew o) ->
  cwt_Validator_Validate o now c = if accept o now c then Ok tt else Err.
Proof. intros. rewrite gen_validate, validate_is_accept by assumption. reflexivity. Qed.

Theorem gen_validate_map_is_rfc8392 o now m :
  vals_in_kind m -> now_ok now -> i64 (o_skew o) ->
  cwt_Validator_ValidateMap o now m = if accept_map o now m then Ok tt else Err.
Proof. intros. rewrite gen_validate_map, validate_map_is_accept by assumption. reflexivity. Qed.
