(* Facts about one message object over a history of calls (Model/MsgObj.v):
     - frame: only a successful UnmarshalCBOR or WithSign / Compute / Encrypt changes the authenticated part of the
       wire struct (protected bytes, payload, signature / tag / ciphertext); edits of the exported fields, Verify /
       Decrypt, MarshalCBOR and every failed call leave it alone;
     - origin (by induction over the history): whatever MarshalCBOR emits was either received by the last successful
       UnmarshalCBOR or made by the last successful produce call, and in the second case its protected bucket is the
       encoding of a header map that passes the algorithm gate of the key used (C05 over histories);
     - refinement: on any state, produce followed by MarshalCBOR is the functional model of Msg.v applied to the
       exported fields; on a fresh object UnmarshalCBOR followed by Verify / Decrypt is the functional consume. The
       theorems of C01 - C06 about the functional model therefore speak about every call of a history. *)
From Coq Require Import String.
From Coq Require Import NArith ZArith List Arith Lia Bool.
From Cose Require Import Lib.Base Lib.GenTypes Lib.Cbor Model.GoVal Model.CborGo Model.Wire Model.Key Model.MsgLogic Model.Nonce Model.Msg Model.MsgRoundTripFull Model.MsgObj.
Import ListNotations.
Open Scope Z_scope.

Definition authd (w : wire) : option bytes * option bytes * option bytes := (w_prot w, w_payload w, w_auth w).
Definition oauthd (o : obj) := option_map authd (o_mm o).

Definition installs (e : op) (r : out) : bool :=
  match e, r with
  | ODecode _, ROk | OProduce _ _ _, ROk => true
  | _, _ => false
  end.

Lemma oauthd_with_prot o p : oauthd (with_prot o p) = oauthd o.            Proof. reflexivity. Qed.
Lemma oauthd_with_payload o b : oauthd (with_payload o b) = oauthd o.      Proof. reflexivity. Qed.
Lemma oauthd_new_unprot o u : oauthd (new_unprot o u) = oauthd o.          Proof. reflexivity. Qed.
Lemma oauthd_upd_unprot o u : oauthd (upd_unprot o u) = oauthd o.
Proof. unfold oauthd, upd_unprot; cbn [o_mm]. destruct (o_shared o); [|reflexivity]. destruct (o_mm o); reflexivity. Qed.
Lemma oauthd_prepared o key p : oauthd (prepared_obj o key p) = oauthd o.
Proof. unfold prepared_obj. destruct (o_unprot o); reflexivity. Qed.

Lemma decode_frame k o data : snd (decode_step k o data) <> ROk -> oauthd (fst (decode_step k o data)) = oauthd o.
Proof.
  unfold decode_step. destruct (unmarshal_wire k data) as [w| |]; cbn [fst snd]; try reflexivity.
  destruct (if has_recips k then recips_decode (w_extra w) else Ok (o_recips o)) as [rs| |]; cbn [fst snd]; try reflexivity.
  destruct (headers_from_bytes (w_prot w)); cbn [fst snd]; try reflexivity. intro H; exfalso; apply H; reflexivity.
Qed.

Lemma res_out_ok {A} (r : res A) : res_out r = ROk -> exists a, r = Ok a.
Proof. destruct r; cbn; try discriminate. eauto. Qed.

Lemma produce_frame k o p ext draw : snd (produce_step k o p ext draw) <> ROk -> oauthd (fst (produce_step k o p ext draw)) = oauthd o.
Proof.
  unfold produce_step. destruct (prepare_protected (o_prot o) (pr_key k p)) as [prot'| |]; cbn [fst snd]; try reflexivity.
  set (o1 := prepared_obj o (pr_key k p) prot').
  assert (H1 : oauthd o1 = oauthd o) by apply oauthd_prepared.
  destruct (is_enc k).
  - destruct (choose_nonce _ _ _ _) as [[nonce u2]| |]; cbn [fst snd]; try (intros _; exact H1).
    set (o2 := match derive_nonce _ _ _ with Ok iv => if Nat.eqb (length iv) 0 then upd_unprot o1 u2 else o1 | _ => o1 end).
    assert (H2 : oauthd o2 = oauthd o).
    { unfold o2. destruct (derive_nonce _ _ _) as [iv| |]; try exact H1. destruct (Nat.eqb (length iv) 0); [rewrite oauthd_upd_unprot|]; exact H1. }
    destruct (headers_bytes prot'); cbn [fst snd]; [|intros _; exact H2].
    destruct (structure k _ _ _ _); cbn [fst snd]; try (intros _; exact H2).
    destruct (en_encrypt (pr_enc p) _ _ _); cbn [fst snd]; try (intros _; exact H2). intro H; exfalso; apply H; reflexivity.
  - destruct (headers_bytes prot'); cbn [fst snd]; [|intros _; exact H1].
    destruct (structure k _ _ _ _); cbn [fst snd]; try (intros _; exact H1).
    destruct (match k with KSign1 => sg_sign (pr_sig p) _ | _ => mc_create (pr_mac p) _ end); cbn [fst snd]; try (intros _; exact H1).
    intro H; exfalso; apply H; reflexivity.
Qed.

Lemma consume_frame k o p ext : oauthd (fst (consume_step k o p ext)) = oauthd o.
Proof.
  unfold consume_step. destruct (o_mm o) as [w|] eqn:Hm; [|reflexivity].
  destruct (w_auth w); [|reflexivity]. destruct (negb _); [reflexivity|].
  destruct (is_enc k).
  - destruct (structure _ _ _ _ _); cbn [fst]; try reflexivity.
    destruct (derive_nonce _ _ _); cbn [fst]; try reflexivity.
    destruct (en_decrypt _ _ _ _) as [pt| |]; cbn [fst]; try reflexivity. destruct pt; reflexivity.
  - destruct (structure _ _ _ _ _); cbn [fst]; try reflexivity.
    match goal with |- context [if ?b then _ else _] => destruct b end; reflexivity.
Qed.

(* ---------------------------------------------------------------- frame *)
Theorem frame k o e : installs e (snd (step5 k o e)) = false -> oauthd (fst (step5 k o e)) = oauthd o.
Proof.
  destruct e; cbn [step5]; intro H.
  - apply decode_frame. intro E. rewrite E in H. discriminate.
  - apply produce_frame. intro E. rewrite E in H. discriminate.
  - apply consume_frame.
  - reflexivity.
  - reflexivity.
  - reflexivity.
  - reflexivity.
  - cbn [fst]. destruct (o_unprot o); [apply oauthd_upd_unprot|reflexivity].
  - cbn [fst]. destruct (o_unprot o); [apply oauthd_upd_unprot|reflexivity].
  - reflexivity.
  - reflexivity.
  - reflexivity.
Qed.

(* what MarshalCBOR emits is a function of the wire struct alone; its authenticated members are those of oauthd *)
Definition marshal_of (k : kind) (w : wire) (rs : list recip) : option bytes :=
  if has_recips k then marshal_multi k w rs else marshal_simple k w.

Theorem marshal_reads_mm k o b :
  marshal_out k o = RBytes b -> exists w, o_mm o = Some w /\ marshal_of k w (o_recips o) = Some b /\ w_auth w <> None.
Proof.
  unfold marshal_out, marshal_of. destruct (o_mm o) as [w|]; [|discriminate]. destruct (w_auth w) eqn:Ha; [|discriminate].
  destruct (if has_recips k then marshal_multi k w (o_recips o) else marshal_simple k w) eqn:Hm; [|discriminate].
  intro H; inversion H; subst. exists w. repeat split; congruence.
Qed.

(* ---------------------------------------------------------------- what a successful produce installs *)
Definition single (k : kind) : bool := match k with KSign => false | _ => true end.    (* the five single-key kinds *)
Lemma step_single k o e : single k = true -> step k o e = step5 k o e.
Proof. destruct k; try discriminate; reflexivity. Qed.

Theorem frame_single k o e : single k = true -> installs e (snd (step k o e)) = false -> oauthd (fst (step k o e)) = oauthd o.
Proof. intros Hk. rewrite (step_single k o e Hk). apply frame. Qed.


Theorem produce_installs k o p ext draw o' :
  produce_step k o p ext draw = (o', ROk) ->
  exists prot' pb w,
    prepare_protected (o_prot o) (pr_key k p) = Ok prot' /\ headers_bytes prot' = Some pb
    /\ o_mm o' = Some w /\ w_prot w = Some pb /\ o_prot o' = Some prot' /\ w_auth w <> None.
Proof.
  unfold produce_step. destruct (prepare_protected (o_prot o) (pr_key k p)) as [prot'| |] eqn:Hp; try discriminate.
  assert (Pp : forall key, o_prot (prepared_obj o key prot') = Some prot') by (intro key; unfold prepared_obj; destruct (o_unprot o); reflexivity).
  destruct (is_enc k).
  - destruct (choose_nonce _ _ _ _) as [[nonce u2]| |]; try discriminate.
    destruct (headers_bytes prot') as [pb|] eqn:Hb; [|discriminate]. destruct (structure _ _ _ _ _); try discriminate.
    destruct (en_encrypt _ _ _ _); try discriminate. intro H; inversion H; subst.
    exists prot', pb. eexists. repeat split; try reflexivity; try discriminate; try exact Hb.
    cbn [install o_prot]. destruct (derive_nonce _ _ _) as [iv| |]; try apply Pp.
    destruct (Nat.eqb (length iv) 0); [cbn [upd_unprot o_prot]|]; apply Pp.
  - destruct (headers_bytes prot') as [pb|] eqn:Hb; [|discriminate]. destruct (structure _ _ _ _ _); try discriminate.
    destruct (match k with KSign1 => sg_sign (pr_sig p) _ | _ => mc_create (pr_mac p) _ end); try discriminate.
    intro H; inversion H; subst.
    exists prot', pb. eexists. repeat split; try reflexivity; try discriminate; try exact Hb. cbn [install o_prot]. apply Pp.
Qed.

(* the gate of the key that produced (MsgRoundTripFull.prepared_passes_gate): a message never leaves the object naming
   another algorithm than its key's. The key's algorithm is an int32, as every registered algorithm is. *)
Definition alg_in_range (key : cosemap) : Prop := MinInt32 <= key_alg key <= MaxInt32.
Definition op_wf (k : kind) (e : op) : Prop := match e with OProduce p _ _ => alg_in_range (pr_key k p) | _ => True end.

(* ---------------------------------------------------------------- origin of the wire struct over a history *)
Inductive origin := FromNothing | FromDecode (data : bytes) | FromProduce (key : cosemap).

Definition track (k : kind) (g : origin) (e : op) (r : out) : origin :=
  match e, r with
  | ODecode d, ROk => FromDecode d
  | OProduce p _ _, ROk => FromProduce (pr_key k p)
  | _, _ => g
  end.

Fixpoint origin_after (k : kind) (o : obj) (g : origin) (ops : list op) : origin :=
  match ops with
  | [] => g
  | e :: r => let '(o', x) := step k o e in origin_after k o' (track k g e x) r
  end.

Definition origin_ok (k : kind) (o : obj) (g : origin) : Prop :=
  match g with
  | FromNothing => o_mm o = None
  | FromDecode d => exists w0 w, unmarshal_wire k d = Ok w0 /\ o_mm o = Some w /\ authd w = authd w0
  | FromProduce key => exists m pb w, o_mm o = Some w /\ w_prot w = Some pb /\ headers_bytes m = Some pb
                                      /\ alg_gate m (key_alg key) = true /\ w_auth w <> None
  end.

Lemma origin_ok_frame k o o' g : oauthd o' = oauthd o -> origin_ok k o g -> origin_ok k o' g.
Proof.
  unfold oauthd, origin_ok. intros E H. destruct g.
  - rewrite H in E. destruct (o_mm o'); [discriminate|reflexivity].
  - destruct H as (w0 & w & U & M & A). rewrite M in E. destruct (o_mm o') as [w'|]; [|discriminate]. cbn in E.
    exists w0, w'. repeat split; try assumption. congruence.
  - destruct H as (m & pb & w & M & P & Hb & G & Au). rewrite M in E. destruct (o_mm o') as [w'|]; [|discriminate]. cbn in E.
    unfold authd in E. inversion E as [[E1 E2 E3]].
    exists m, pb, w'. repeat split; try assumption; congruence.
Qed.

Lemma decode_ok_installs k o data o' : decode_step k o data = (o', ROk) -> exists w, unmarshal_wire k data = Ok w /\ o_mm o' = Some w.
Proof.
  unfold decode_step. destruct (unmarshal_wire k data) as [w| |]; try discriminate.
  destruct (if has_recips k then recips_decode (w_extra w) else Ok (o_recips o)) as [rs| |]; try discriminate.
  destruct (headers_from_bytes (w_prot w)); try discriminate. intro H; inversion H; subst. exists w. split; reflexivity.
Qed.

Lemma decode_origin k o g data o' r : decode_step k o data = (o', r) -> origin_ok k o g ->
  origin_ok k o' (match r with ROk => FromDecode data | _ => g end).
Proof.
  intros D H. pose proof (decode_frame k o data) as F. rewrite D in F. cbn [fst snd] in F.
  destruct r; try (eapply origin_ok_frame; [apply F; discriminate|exact H]).
  destruct (decode_ok_installs _ _ _ _ D) as (w & U & M). exists w, w. repeat split; assumption.
Qed.

Lemma produce_origin k o g p ext draw o' r : single k = true -> alg_in_range (pr_key k p) -> produce_step k o p ext draw = (o', r) -> origin_ok k o g ->
  origin_ok k o' (match r with ROk => FromProduce (pr_key k p) | _ => g end).
Proof.
  intros Hk Wf D H. pose proof (produce_frame k o p ext draw) as F. rewrite D in F. cbn [fst snd] in F.
  destruct r; try (eapply origin_ok_frame; [apply F; discriminate|exact H]).
  destruct (produce_installs _ _ _ _ _ _ D) as (prot' & pb & w & P & Hb & M & Wp & _ & Au).
  exists prot', pb, w. repeat split; try assumption. eapply prepared_passes_gate; [exact Wf|eassumption].
Qed.

Lemma step_origin k o g e : single k = true -> op_wf k e -> origin_ok k o g -> origin_ok k (fst (step5 k o e)) (track k g e (snd (step5 k o e))).
Proof.
  intros Hk Wf H. destruct e.
  - cbn [step5]. destruct (decode_step k o data) as [o' r] eqn:D. cbn [fst snd].
    pose proof (decode_origin k o g data o' r D H) as R. destruct r; exact R.
  - cbn [step5]. destruct (produce_step k o p ext draw) as [o' r] eqn:D. cbn [fst snd].
    pose proof (produce_origin k o g p ext draw o' r Hk Wf D H) as R. destruct r; exact R.
  - cbn [step5]. replace (track k g (OConsume p ext) (snd (consume_step k o p ext))) with g by (destruct (snd (consume_step k o p ext)); reflexivity).
    eapply origin_ok_frame; [apply consume_frame|exact H].
  - cbn [step5 fst snd]. replace (track k g OMarshal (marshal_out k o)) with g by (destruct (marshal_out k o); reflexivity). exact H.
  - cbn [step5 fst snd track]. eapply origin_ok_frame; [apply oauthd_with_prot|exact H].
  - cbn [step5 fst snd track]. eapply origin_ok_frame; [apply oauthd_with_prot|exact H].
  - cbn [step5 fst snd track]. eapply origin_ok_frame; [apply oauthd_with_prot|exact H].
  - cbn [step5 fst snd track]. destruct (o_unprot o); (eapply origin_ok_frame; [|exact H]); [apply oauthd_upd_unprot|apply oauthd_new_unprot].
  - cbn [step5 fst snd track]. destruct (o_unprot o); [eapply origin_ok_frame; [apply oauthd_upd_unprot|exact H]|exact H].
  - cbn [step5 fst snd track]. eapply origin_ok_frame; [apply oauthd_new_unprot|exact H].
  - cbn [step5 fst snd track]. eapply origin_ok_frame; [apply oauthd_with_payload|exact H].
  - cbn [step5 fst snd track]. exact H.
Qed.

Theorem history_origin k : single k = true -> forall ops o g, Forall (op_wf k) ops -> origin_ok k o g -> origin_ok k (final k o ops) (origin_after k o g ops).
Proof.
  intro Hk. induction ops as [|e r IH]; intros o g W H; cbn [final origin_after]; [exact H|].
  inversion W as [|? ? We Wr]; subst.
  pose proof (step_origin k o g e Hk We H) as S. rewrite (step_single k o e Hk). destruct (step5 k o e) as [o' x]. cbn [fst snd] in *. apply IH; assumption.
Qed.

Corollary history_origin_fresh k ops : single k = true -> Forall (op_wf k) ops -> origin_ok k (final k fresh ops) (origin_after k fresh FromNothing ops).
Proof. intros Hk W. apply history_origin; [exact Hk|exact W|reflexivity]. Qed.

(* C05 over histories: whatever a history ends with, a message marshalled after a produce call names, in its protected
   bucket, an algorithm that passes the gate of the key of that call (the key's own algorithm when it names one) *)
Theorem history_marshal_names_key_alg k ops key b :
  single k = true -> Forall (op_wf k) ops -> origin_after k fresh FromNothing ops = FromProduce key -> marshal_out k (final k fresh ops) = RBytes b ->
  exists m pb w, marshal_of k w (o_recips (final k fresh ops)) = Some b /\ w_prot w = Some pb /\ headers_bytes m = Some pb /\ alg_gate m (key_alg key) = true.
Proof.
  intros Hk W Ho Hm. pose proof (history_origin_fresh k ops Hk W) as H. rewrite Ho in H. destruct H as (m & pb & w & M & P & Hb & G & _).
  destruct (marshal_reads_mm _ _ _ Hm) as (w' & M' & S & _). rewrite M in M'. inversion M'; subst. exists m, pb, w'. repeat split; assumption.
Qed.

(* Verify / Decrypt never change what MarshalCBOR emits, nor do edits of Protected / Payload *)
Theorem consume_keeps_marshal k o p ext : marshal_out k (fst (consume_step k o p ext)) = marshal_out k o.
Proof.
  unfold consume_step. destruct (o_mm o) as [w|] eqn:Hm; [|reflexivity].
  destruct (w_auth w) eqn:Ha; [|reflexivity]. destruct (negb _); [reflexivity|].
  destruct (is_enc k).
  - destruct (structure _ _ _ _ _); cbn [fst]; try reflexivity.
    destruct (derive_nonce _ _ _); cbn [fst]; try reflexivity.
    destruct (en_decrypt _ _ _ _) as [pt| |]; cbn [fst]; try reflexivity. destruct pt; reflexivity.
  - destruct (structure _ _ _ _ _); cbn [fst]; try reflexivity.
    match goal with |- context [if ?b then _ else _] => destruct b end; reflexivity.
Qed.

(* ---------------------------------------------------------------- refinement to the functional model of Msg.v *)
Definition prod_out (r : res bytes) : out := match r with Ok b => RBytes b | Err => RErr | Panic => RPanic end.

Definition produce_then_marshal (k : kind) (o : obj) (p : prims) (ext : option bytes) (draw : bytes) : out :=
  let '(o', r) := produce_step k o p ext draw in match r with ROk => marshal_out k o' | _ => r end.

Definition functional_produce (k : kind) (p : prims) (prot unprot : option cosemap) (payload ext : option bytes) (draw : bytes) (rs : list recip) : res bytes :=
  match k with
  | KSign1 => sign1_produce (pr_sig p) prot unprot payload ext
  | KMac0 => mac0_produce (pr_mac p) prot unprot payload ext
  | KMac => mac_produce (pr_mac p) prot unprot payload ext rs
  | KEnc0 => enc0_produce (pr_enc p) prot unprot payload ext draw
  | _ => enc_produce (pr_enc p) prot unprot payload ext draw rs
  end.

Lemma prepared_unprot o key prot' : o_unprot (prepared_obj o key prot') = Some (prepare_unprotected (o_unprot o) key).
Proof. unfold prepared_obj. destruct (o_unprot o) eqn:E; cbn [with_prot new_unprot o_unprot prepare_unprotected]; [exact E|reflexivity]. Qed.
Lemma prepared_recips o key prot' : o_recips (prepared_obj o key prot') = o_recips o.
Proof. unfold prepared_obj. destruct (o_unprot o); reflexivity. Qed.

Lemma marshal_install k o w sig : w_auth w = Some sig ->
  marshal_out k (install o w) = match marshal_of k w (o_recips o) with Some b => RBytes b | None => RErr end.
Proof. intro H. unfold marshal_out, marshal_of, install; cbn [o_mm o_recips]. rewrite H. reflexivity. Qed.

(* on ANY state of the object: WithSign / Compute followed by MarshalCBOR is the functional produce on the exported fields *)
Theorem produce_refines_sign1 o p ext draw :
  produce_then_marshal KSign1 o p ext draw = prod_out (sign1_produce (pr_sig p) (o_prot o) (o_unprot o) (o_payload o) ext).
Proof.
  unfold produce_then_marshal, produce_step, sign1_produce. cbn [pr_key is_enc].
  destruct (prepare_protected (o_prot o) (sg_key (pr_sig p))) as [prot'| |]; cbn [bind prod_out]; try reflexivity.
  destruct (headers_bytes prot') as [pb|]; [|reflexivity].
  destruct (structure KSign1 (Some pb) None ext (o_payload o)) as [tbs| |]; cbn [bind prod_out]; try reflexivity.
  destruct (sg_sign (pr_sig p) tbs) as [sig| |]; cbn [bind prod_out res_out]; try reflexivity.
  rewrite (marshal_install _ _ _ sig) by reflexivity. unfold marshal_of; cbn [has_recips]. rewrite prepared_unprot.
  destruct (marshal_simple KSign1 _); reflexivity.
Qed.

Theorem produce_refines_mac0 o p ext draw :
  produce_then_marshal KMac0 o p ext draw = prod_out (mac0_produce (pr_mac p) (o_prot o) (o_unprot o) (o_payload o) ext).
Proof.
  unfold produce_then_marshal, produce_step, mac0_produce. cbn [pr_key is_enc].
  destruct (prepare_protected (o_prot o) (mc_key (pr_mac p))) as [prot'| |]; cbn [bind prod_out]; try reflexivity.
  destruct (headers_bytes prot') as [pb|]; [|reflexivity].
  destruct (structure KMac0 (Some pb) None ext (o_payload o)) as [tbs| |]; cbn [bind prod_out]; try reflexivity.
  destruct (mc_create (pr_mac p) tbs) as [sig| |]; cbn [bind prod_out res_out]; try reflexivity.
  rewrite (marshal_install _ _ _ sig) by reflexivity. unfold marshal_of; cbn [has_recips]. rewrite prepared_unprot.
  destruct (marshal_simple KMac0 _); reflexivity.
Qed.

Theorem produce_refines_mac o p ext draw :
  produce_then_marshal KMac o p ext draw = prod_out (mac_produce (pr_mac p) (o_prot o) (o_unprot o) (o_payload o) ext (o_recips o)).
Proof.
  unfold produce_then_marshal, produce_step, mac_produce. cbn [pr_key is_enc].
  destruct (prepare_protected (o_prot o) (mc_key (pr_mac p))) as [prot'| |]; cbn [bind prod_out]; try reflexivity.
  destruct (headers_bytes prot') as [pb|]; [|reflexivity].
  destruct (structure KMac (Some pb) None ext (o_payload o)) as [tbs| |]; cbn [bind prod_out]; try reflexivity.
  destruct (mc_create (pr_mac p) tbs) as [sig| |]; cbn [bind prod_out res_out]; try reflexivity.
  rewrite (marshal_install _ _ _ sig) by reflexivity. unfold marshal_of, marshal_multi; cbn [has_recips w_unprot w_prot w_payload w_auth].
  rewrite prepared_unprot, prepared_recips. cbn [enc_headers_field].
  destruct (enc_cosemap _); [|reflexivity]. destruct (enc_recips (o_recips o)); reflexivity.
Qed.

Lemma choose_nonce_cases u key n draw nonce u2 : choose_nonce u key n draw = Ok (nonce, u2) ->
  exists iv, derive_nonce u key n = Ok iv /\ u2 = (if Nat.eqb (length iv) 0 then set_label u (ilabel 5) (VBytes draw) else u).
Proof.
  unfold choose_nonce. destruct (derive_nonce u key n) as [iv| |]; try discriminate.
  destruct (Nat.eqb (length iv) 0) eqn:E; intro H; inversion H; subst; eexists; (split; [reflexivity|]); rewrite E; reflexivity.
Qed.

Theorem produce_refines_enc0 o p ext draw :
  produce_then_marshal KEnc0 o p ext draw = prod_out (enc0_produce (pr_enc p) (o_prot o) (o_unprot o) (o_payload o) ext draw).
Proof.
  unfold produce_then_marshal, produce_step, enc0_produce. cbn [pr_key is_enc].
  destruct (prepare_protected (o_prot o) (en_key (pr_enc p))) as [prot'| |]; cbn [bind prod_out]; try reflexivity.
  rewrite prepared_unprot. cbn [omap].
  destruct (choose_nonce (prepare_unprotected (o_unprot o) (en_key (pr_enc p))) (en_key (pr_enc p)) (en_nonce (pr_enc p)) draw) as [[nonce u2]| |] eqn:C;
    cbn [bind prod_out]; try reflexivity.
  destruct (choose_nonce_cases _ _ _ _ _ _ C) as (iv & D & U2). rewrite D.
  set (o1 := prepared_obj o (en_key (pr_enc p)) prot').
  set (o2 := if Nat.eqb (length iv) 0 then upd_unprot o1 u2 else o1).
  assert (Hu : o_unprot o2 = Some u2).
  { unfold o2. destruct (Nat.eqb (length iv) 0); [reflexivity|]. unfold o1. rewrite prepared_unprot. rewrite U2. reflexivity. }
  destruct (headers_bytes prot') as [pb|]; [|reflexivity].
  destruct (structure KEnc0 (Some pb) None ext None) as [aad| |]; cbn [bind prod_out res_out]; try reflexivity.
  destruct (en_encrypt (pr_enc p) nonce _ aad) as [ct| |]; cbn [bind prod_out res_out]; try reflexivity.
  rewrite (marshal_install _ _ _ ct) by reflexivity. unfold marshal_of; cbn [has_recips]. rewrite Hu.
  destruct (marshal_simple KEnc0 _); reflexivity.
Qed.

Theorem produce_refines_enc o p ext draw :
  produce_then_marshal KEnc o p ext draw = prod_out (enc_produce (pr_enc p) (o_prot o) (o_unprot o) (o_payload o) ext draw (o_recips o)).
Proof.
  unfold produce_then_marshal, produce_step, enc_produce. cbn [pr_key is_enc].
  destruct (prepare_protected (o_prot o) (en_key (pr_enc p))) as [prot'| |]; cbn [bind prod_out]; try reflexivity.
  rewrite prepared_unprot. cbn [omap].
  destruct (choose_nonce (prepare_unprotected (o_unprot o) (en_key (pr_enc p))) (en_key (pr_enc p)) (en_nonce (pr_enc p)) draw) as [[nonce u2]| |] eqn:C;
    cbn [bind prod_out]; try reflexivity.
  destruct (choose_nonce_cases _ _ _ _ _ _ C) as (iv & D & U2). rewrite D.
  set (o1 := prepared_obj o (en_key (pr_enc p)) prot').
  set (o2 := if Nat.eqb (length iv) 0 then upd_unprot o1 u2 else o1).
  assert (Hu : o_unprot o2 = Some u2).
  { unfold o2. destruct (Nat.eqb (length iv) 0); [reflexivity|]. unfold o1. rewrite prepared_unprot. rewrite U2. reflexivity. }
  assert (Hr : o_recips o2 = o_recips o).
  { unfold o2. destruct (Nat.eqb (length iv) 0); [cbn [upd_unprot o_recips]|]; unfold o1; apply prepared_recips. }
  destruct (headers_bytes prot') as [pb|]; [|reflexivity].
  destruct (structure KEnc (Some pb) None ext None) as [aad| |]; cbn [bind prod_out res_out]; try reflexivity.
  destruct (en_encrypt (pr_enc p) nonce _ aad) as [ct| |]; cbn [bind prod_out res_out]; try reflexivity.
  rewrite (marshal_install _ _ _ ct) by reflexivity. unfold marshal_of, marshal_multi; cbn [has_recips w_unprot w_prot w_payload w_auth].
  rewrite Hu, Hr. cbn [enc_headers_field].
  destruct (enc_cosemap u2); [|reflexivity]. destruct (enc_recips (o_recips o)); reflexivity.
Qed.

Theorem produce_refines k o p ext draw : single k = true ->
  produce_then_marshal k o p ext draw = prod_out (functional_produce k p (o_prot o) (o_unprot o) (o_payload o) ext draw (o_recips o)).
Proof.
  destruct k; try discriminate; intros _; cbn [functional_produce].
  - apply produce_refines_sign1. - apply produce_refines_mac0. - apply produce_refines_mac.
  - apply produce_refines_enc0. - apply produce_refines_enc.
Qed.

(* on a fresh object: UnmarshalCBOR followed by Verify / Decrypt is the functional consume; the exported fields
   afterwards are the view it returns *)
Definition decode_then_consume (k : kind) (p : prims) (data : bytes) (ext : option bytes) : obj * out :=
  let '(o1, r1) := decode_step k fresh data in match r1 with ROk => consume_step k o1 p ext | _ => (o1, r1) end.

Definition view_out (r : res view) (x : obj * out) : Prop :=
  match r with
  | Ok v => snd x = ROk /\ snap_of (fst x) = (Some (v_prot v), v_unprot v, v_payload v, [], None)
  | Err => snd x = RErr
  | Panic => snd x = RPanic
  end.
Definition view_out_r (r : res (view * list recip)) (x : obj * out) : Prop :=
  match r with
  | Ok (v, rs) => snd x = ROk /\ snap_of (fst x) = (Some (v_prot v), v_unprot v, v_payload v, rs, None)
  | Err => snd x = RErr
  | Panic => snd x = RPanic
  end.

Lemma payload_ok_false b : payload_ok false b = Ok (match b with Some ((_ :: _) as x) => Some x | _ => None end).
Proof. unfold payload_ok. destruct b as [[|c r]|]; reflexivity. Qed.

Theorem consume_refines_sign1 p data ext :
  view_out (sign1_consume false (pr_sig p) data ext) (decode_then_consume KSign1 p data ext).
Proof.
  unfold sign1_consume, decode_then_consume, decode_step, decoded_view. cbn [has_recips is_enc].
  destruct (unmarshal_wire KSign1 data) as [w| |]; cbn [bind view_out snd]; try reflexivity.
  destruct (headers_from_bytes (w_prot w)) as [prot| |]; cbn [bind view_out snd]; try reflexivity.
  rewrite payload_ok_false. cbn [bind v_prot v_unprot v_payload].
  unfold consume_step. cbn [o_mm o_prot omap pr_key is_enc].
  destruct (w_auth w) as [sig|]; cbn [view_out snd]; [|reflexivity].
  destruct (consume_gate prot (sg_key (pr_sig p))); cbn [negb view_out snd]; [|reflexivity].
  destruct (structure KSign1 (w_prot w) None ext (w_payload w)) as [tbs| |]; cbn [bind view_out snd res_out]; try reflexivity.
  destruct (sg_verify (pr_sig p) tbs sig); cbn [view_out fst snd]; [|reflexivity].
  split; [reflexivity|]. unfold snap_of; cbn [o_prot o_unprot o_payload o_recips o_sigs fresh]. reflexivity.
Qed.

Theorem consume_refines_mac0 p data ext :
  view_out (mac0_consume false (pr_mac p) data ext) (decode_then_consume KMac0 p data ext).
Proof.
  unfold mac0_consume, decode_then_consume, decode_step, decoded_view. cbn [has_recips is_enc].
  destruct (unmarshal_wire KMac0 data) as [w| |]; cbn [bind view_out snd]; try reflexivity.
  destruct (headers_from_bytes (w_prot w)) as [prot| |]; cbn [bind view_out snd]; try reflexivity.
  rewrite payload_ok_false. cbn [bind v_prot v_unprot v_payload].
  unfold consume_step. cbn [o_mm o_prot omap pr_key is_enc].
  destruct (w_auth w) as [sig|]; cbn [view_out snd]; [|reflexivity].
  destruct (consume_gate prot (mc_key (pr_mac p))); cbn [negb view_out snd]; [|reflexivity].
  destruct (structure KMac0 (w_prot w) None ext (w_payload w)) as [tbs| |]; cbn [bind view_out snd res_out]; try reflexivity.
  destruct (mc_verify (pr_mac p) tbs sig); cbn [view_out fst snd]; [|reflexivity].
  split; [reflexivity|]. unfold snap_of; cbn [o_prot o_unprot o_payload o_recips o_sigs fresh]. reflexivity.
Qed.

Theorem consume_refines_mac p data ext :
  view_out_r (mac_consume false (pr_mac p) data ext) (decode_then_consume KMac p data ext).
Proof.
  unfold mac_consume, decode_then_consume, decode_step, decoded_view. cbn [has_recips is_enc].
  destruct (unmarshal_wire KMac data) as [w| |]; cbn [bind view_out_r snd]; try reflexivity.
  destruct (recips_decode (w_extra w)) as [rs| |]; cbn [bind view_out_r snd]; try reflexivity.
  destruct (headers_from_bytes (w_prot w)) as [prot| |]; cbn [bind view_out_r snd]; try reflexivity.
  rewrite payload_ok_false. cbn [bind v_prot v_unprot v_payload].
  unfold consume_step. cbn [o_mm o_prot omap pr_key is_enc].
  destruct (w_auth w) as [sig|]; cbn [view_out_r snd]; [|reflexivity].
  destruct (consume_gate prot (mc_key (pr_mac p))); cbn [negb view_out_r snd]; [|reflexivity].
  destruct (structure KMac (w_prot w) None ext (w_payload w)) as [tbs| |]; cbn [bind view_out_r snd res_out]; try reflexivity.
  destruct (mc_verify (pr_mac p) tbs sig); cbn [view_out_r fst snd]; [|reflexivity].
  split; [reflexivity|]. unfold snap_of; cbn [o_prot o_unprot o_payload o_recips o_sigs fresh]. reflexivity.
Qed.

Theorem consume_refines_enc0 p data ext :
  view_out (enc0_consume false (pr_enc p) data ext) (decode_then_consume KEnc0 p data ext).
Proof.
  unfold enc0_consume, decode_then_consume, decode_step. cbn [has_recips is_enc].
  destruct (unmarshal_wire KEnc0 data) as [w| |]; cbn [bind view_out snd]; try reflexivity.
  destruct (headers_from_bytes (w_prot w)) as [prot| |]; cbn [bind view_out snd]; try reflexivity.
  unfold consume_step. cbn [o_mm o_prot o_unprot omap pr_key is_enc].
  destruct (w_auth w) as [ct|]; cbn [view_out snd]; [|reflexivity].
  destruct (consume_gate prot (en_key (pr_enc p))); cbn [negb view_out snd]; [|reflexivity].
  destruct (structure KEnc0 (w_prot w) None ext None) as [aad| |]; cbn [bind view_out snd res_out]; try reflexivity.
  replace (match w_unprot w with Some u => u | None => [] end) with (omap (w_unprot w)) by reflexivity.
  destruct (derive_nonce (omap (w_unprot w)) (en_key (pr_enc p)) (en_nonce (pr_enc p))) as [nonce| |]; cbn [bind view_out snd res_out]; try reflexivity.
  destruct (en_decrypt (pr_enc p) nonce ct aad) as [pt| |]; cbn [bind view_out snd res_out]; try reflexivity.
  unfold payload_ok. destruct pt as [|b r]; cbn [bind view_out fst snd]; (split; [reflexivity|]); unfold snap_of; reflexivity.
Qed.

Theorem consume_refines_enc p data ext :
  view_out_r (enc_consume false (pr_enc p) data ext) (decode_then_consume KEnc p data ext).
Proof.
  unfold enc_consume, decode_then_consume, decode_step. cbn [has_recips is_enc].
  destruct (unmarshal_wire KEnc data) as [w| |]; cbn [bind view_out_r snd]; try reflexivity.
  destruct (recips_decode (w_extra w)) as [rs| |]; cbn [bind view_out_r snd]; try reflexivity.
  destruct (headers_from_bytes (w_prot w)) as [prot| |]; cbn [bind view_out_r snd]; try reflexivity.
  unfold consume_step. cbn [o_mm o_prot o_unprot omap pr_key is_enc].
  destruct (w_auth w) as [ct|]; cbn [view_out_r snd]; [|reflexivity].
  destruct (consume_gate prot (en_key (pr_enc p))); cbn [negb view_out_r snd]; [|reflexivity].
  destruct (structure KEnc (w_prot w) None ext None) as [aad| |]; cbn [bind view_out_r snd res_out]; try reflexivity.
  destruct (derive_nonce (omap (w_unprot w)) (en_key (pr_enc p)) (en_nonce (pr_enc p))) as [nonce| |]; cbn [bind view_out_r snd res_out]; try reflexivity.
  destruct (en_decrypt (pr_enc p) nonce ct aad) as [pt| |]; cbn [bind view_out_r snd res_out]; try reflexivity.
  unfold payload_ok. destruct pt as [|b r]; cbn [bind view_out_r fst snd]; (split; [reflexivity|]); unfold snap_of; reflexivity.
Qed.

(* ---------------------------------------------------------------- COSE_Sign as an object *)
Lemma sigent_marshal_made pr sp u sig su : enc_cosemap u = Some su ->
  sigent_marshal {| se_prot := pr; se_raw := sp; se_unprot := Some u; se_sig := Some sig |} = Some (enc_array [enc_bytes (Some sp); su; enc_bytes (Some sig)]).
Proof. intro H. unfold sigent_marshal; cbn [se_sig se_unprot se_raw enc_headers_field]. rewrite H. reflexivity. Qed.

Lemma sign_entries_all : forall ps pb ext payload,
  sign_all ps pb ext payload =
  match sign_entries ps pb ext payload with
  | Ok l => match all_some (map sigent_marshal l) with Some raws => Ok raws | None => Err end
  | Err => Err
  | Panic => Panic
  end.
Proof.
  induction ps as [|p r IH]; intros pb ext payload; cbn [sign_all sign_entries map all_some]; [reflexivity|].
  destruct (headers_bytes (signer_protected (sg_key p))) as [sp|]; [|reflexivity].
  destruct (enc_cosemap (signer_unprotected (sg_key p))) as [su|] eqn:Su; [|reflexivity].
  destruct (structure KSign (Some pb) (Some sp) ext payload) as [tbs| |]; cbn [bind]; try reflexivity.
  destruct (sg_sign p tbs) as [sig| |]; cbn [bind]; try reflexivity.
  rewrite IH. destruct (sign_entries r pb ext payload) as [l| |]; cbn [bind map all_some]; try reflexivity.
  rewrite (sigent_marshal_made _ _ _ _ _ Su).
  destruct (all_some (map sigent_marshal l)); reflexivity.
Qed.

Definition sign_produce_then_marshal (o : obj) (ps : list sigprim) (ext : option bytes) : out :=
  let '(o', r) := sign_produce_step o ps ext in match r with ROk => sign_marshal_out o' | _ => r end.

(* in ANY state: WithSign followed by MarshalCBOR is the functional sign_produce on the exported fields *)
Theorem produce_refines_sign o ps ext :
  sign_produce_then_marshal o ps ext = prod_out (sign_produce ps (o_prot o) (o_unprot o) (o_payload o) ext).
Proof.
  unfold sign_produce_then_marshal, sign_produce_step, sign_produce. destruct ps as [|p0 pr]; [reflexivity|].
  set (ps := p0 :: pr).
  destruct (headers_bytes (omap (o_prot o))) as [pb|]; [|reflexivity].
  rewrite sign_entries_all.
  assert (U : o_unprot (match o_unprot o with Some _ => with_prot o (Some (omap (o_prot o))) | None => new_unprot (with_prot o (Some (omap (o_prot o)))) (Some []) end) = Some (omap (o_unprot o))).
  { destruct (o_unprot o) eqn:E; cbn [with_prot new_unprot o_unprot omap]; [exact E|reflexivity]. }
  destruct (sign_entries ps pb ext (o_payload o)) as [l| |]; cbn [res_out].
  - unfold sign_marshal_out, with_sigs, marshal_sign; cbn [o_mm o_sigs w_unprot w_prot w_payload]. rewrite U. cbn [enc_headers_field].
    destruct (enc_cosemap (omap (o_unprot o))); destruct (all_some (map sigent_marshal l)); cbn [bind prod_out]; reflexivity.
  - destruct (enc_cosemap (omap (o_unprot o))); reflexivity.
  - destruct (enc_cosemap (omap (o_unprot o))); reflexivity.
Qed.

Definition sign_decode_then_consume (vs : list sigprim) (data : bytes) (ext : option bytes) : obj * out :=
  let '(o1, r1) := sign_decode_step fresh data in match r1 with ROk => sign_consume_step o1 vs ext | _ => (o1, r1) end.

(* on a fresh object: UnmarshalCBOR followed by Verify is the functional sign_consume *)
Theorem consume_refines_sign vs data ext :
  match sign_consume false vs data ext with
  | Ok (v, l) => snd (sign_decode_then_consume vs data ext) = ROk
                 /\ snap_of (fst (sign_decode_then_consume vs data ext)) = (Some (v_prot v), v_unprot v, v_payload v, [], Some l)
  | Err => snd (sign_decode_then_consume vs data ext) = RErr
  | Panic => snd (sign_decode_then_consume vs data ext) = RPanic
  end.
Proof.
  unfold sign_consume, sign_decode_then_consume, sign_decode_step, decoded_view.
  destruct (unmarshal_wire KSign data) as [w| |]; cbn [bind snd]; try reflexivity.
  destruct (sigs_decode (w_extra w)) as [sg| |]; cbn [bind snd]; try reflexivity.
  destruct (headers_from_bytes (w_prot w)) as [prot| |]; cbn [bind snd]; try reflexivity.
  rewrite payload_ok_false. cbn [bind v_prot v_unprot v_payload].
  unfold sign_consume_step. cbn [o_mm o_sigs].
  destruct vs as [|v0 vr]; [reflexivity|].
  destruct sg as [[|s r]|]; cbn [snd fst]; try reflexivity.
  destruct (verify_all (v0 :: vr) w ext (s :: r)) as [[]| |]; cbn [bind res_out snd fst]; try reflexivity.
  split; [reflexivity|]. unfold snap_of; cbn [o_prot o_unprot o_payload o_recips o_sigs fresh]. reflexivity.
Qed.

(* Verify never changes the object; only a successful decode or WithSign changes what MarshalCBOR emits *)
Theorem sign_consume_keeps_object o vs ext : fst (sign_consume_step o vs ext) = o.
Proof. unfold sign_consume_step. destruct vs; [reflexivity|]. destruct (o_mm o); [|reflexivity]. destruct (o_sigs o) as [[|s0 r0]|]; reflexivity. Qed.
