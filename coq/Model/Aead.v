(* C12: models of the Encrypt / Decrypt methods of key/aesgcm, key/aesccm and key/chacha20poly1305 (after the
   key_ops gate) on raw key bytes. AES-CCM is the in-repo implementation (Model/CcmGo.v); cipher.NewGCM and
   x/crypto chacha20poly1305 are modelled by the Gallina references. *)
From Coq Require Import String.
From Coq Require Import ZArith NArith List Bool Lia.
From Cose Require Import Lib.Base Lib.GenTypes Lib.Aes Lib.CbcMac Lib.Gcm Lib.ChaChaPoly Spec.RFC3610 Model.CcmGo
     Model.GoVal Model.Key Gen.TablesGen Gen.ShapesGen.
Import ListNotations.
Open Scope Z_scope.

Definition ccm_M (alg : Z) : nat := Z.to_nat (tcol key_aesccm_getKeySize alg 1).
Definition ccm_nonce (alg : Z) : nat := Z.to_nat (tcol key_aesccm_getKeySize alg 2).
Definition ccm_L (alg : Z) : nat := 15 - ccm_nonce alg.
Definition gcm_nonce : nat := Z.to_nat (match assoc ShapesGen.int_consts "key/aesgcm.nonceSize" with Some z => z | None => 0 end).
Definition chacha_nonce : nat := Z.to_nat (match assoc ShapesGen.int_consts "key/chacha20poly1305.nonceSize" with Some z => z | None => 0 end).

Definition is_gcm (alg : Z) : bool := memZ alg [1; 2; 3].
Definition is_ccm (alg : Z) : bool := memZ alg [10; 11; 12; 13; 30; 31; 32; 33].

Definition of_opt {A} (o : option A) : res A := match o with Some a => Ok a | None => Err end.

Definition aead_encrypt (alg : Z) (key iv pt aad : bytes) : res bytes :=
  if is_gcm alg then
    (if negb (Nat.eqb (length iv) gcm_nonce) then Err else Ok (gcm_seal (aes_keyed key) iv pt aad))
  else if is_ccm alg then CcmGo.encrypt (aes_keyed key) (ccm_M alg) (ccm_L alg) iv pt aad
  else if alg =? 24 then
    (if negb (Nat.eqb (length iv) chacha_nonce) then Err else Ok (chachapoly_seal key iv pt aad))
  else Err.

Definition aead_decrypt (alg : Z) (key iv ct aad : bytes) : res bytes :=
  if is_gcm alg then
    (if negb (Nat.eqb (length iv) gcm_nonce) then Err else of_opt (gcm_open (aes_keyed key) iv ct aad))
  else if is_ccm alg then CcmGo.decrypt (aes_keyed key) (ccm_M alg) (ccm_L alg) iv ct aad
  else if alg =? 24 then
    (if negb (Nat.eqb (length iv) chacha_nonce) then Err else of_opt (chachapoly_open key iv ct aad))
  else Err.

(* the reference the property names: RFC 3610 with the registered tag and length-field sizes for CCM *)
Definition ref_seal (alg : Z) (key iv pt aad : bytes) : option bytes :=
  if is_gcm alg then Some (gcm_seal (aes_keyed key) iv pt aad)
  else if is_ccm alg then Some (RFC3610.seal (aes_keyed key) (ccm_M alg) (ccm_L alg) iv pt aad)
  else if alg =? 24 then Some (chachapoly_seal key iv pt aad)
  else None.
