(* Typed decoding of the library's wire structures (cbor `toarray` structs, []byte, Headers, int, uint,
   []*Signature, []*Recipient) as fxamacker performs it, on raw bytes, and their encoding. *)
From Coq Require Import String.
From Coq Require Import NArith ZArith List Arith Lia Bool.
From Cose Require Import Lib.Base Lib.Cbor Model.GoVal Model.CborGo.
Import ListNotations.
Open Scope Z_scope.

Definition obind {A B} (r : res A) (f : A -> res B) : res B := bind r f.

(* ---------------------------------------------------------------- raw element extraction *)
Fixpoint skip_tag_heads (fuel : nat) (bs : bytes) : bytes :=
  match fuel with
  | O => bs
  | S f => match dhead bs with
           | Ok (mt, _, _, r) => if (mt =? 6)%N then skip_tag_heads f r else bs
           | _ => bs
           end
  end.

Fixpoint split_items (n : nat) (bs : bytes) : res (list bytes) :=
  match n with
  | O => Ok []
  | S n' =>
      match dec dec_fuel 0 false bs with
      | Ok (_, rest) =>
          let raw := firstn (length bs - length rest) bs in
          match split_items n' rest with
          | Ok rs => Ok (raw :: rs)
          | Err => Err | Panic => Panic
          end
      | Err => Err | Panic => Panic
      end
  end.

(* raw encodings of the elements of an array item (tags in front of it skipped) *)
Definition array_elems_raw (raw : bytes) : res (list bytes) :=
  let b := skip_tag_heads 70 raw in
  match dhead b with
  | Ok (mt, _, n, r) => if (mt =? 4)%N then split_items (N.to_nat n) r else Err
  | _ => Err
  end.

(* ---------------------------------------------------------------- what a typed target sees through tags *)
(* parseToValue re-enters itself after every tag head it skips: self-described tags are stripped and the
   built-in tag rules are checked at each entry. `body` gives the non-tag item the target finally receives;
   Err when a built-in tag rule fails. A bignum tag (2 / 3) is delivered to the target as such. *)
Fixpoint through_tags (it : item) : res item :=
  match it with
  | ITag t x =>
      if (t =? 55799)%N then through_tags x
      else if negb (chain_ok it) then Err
      else if (t =? 2)%N || (t =? 3)%N then Ok it
      else through_tags x
  | _ => Ok it
  end.

Definition is_null (it : item) : bool := match it with ISimple 22 | ISimple 23 => true | _ => false end.

(* uint8 element of a []byte target fed with a CBOR array *)
Definition as_uint8 (it : item) : res Byte.byte :=
  do t <- through_tags it;
  match t with
  | IUint n => if (n <=? 255)%N then Ok (b8 n) else Err
  | ISimple n => if (n =? 20)%N || (n =? 21)%N then Err
                 else if (n =? 22)%N || (n =? 23)%N then Ok Byte.x00
                 else Ok (b8 n)
  | ITag 2 (IBstr b) => if (of_be b <=? 255)%N then Ok (b8 (of_be b)) else Err
  | _ => Err
  end.

Fixpoint all_uint8 (l : list item) : res bytes :=
  match l with
  | [] => Ok []
  | x :: r => match as_uint8 x, all_uint8 r with
              | Ok b, Ok bs => Ok (b :: bs)
              | Panic, _ | _, Panic => Panic
              | _, _ => Err
              end
  end.

(* a []byte field: None = nil. Byte strings, null/undefined, the content of a bignum tag, and -- a permissiveness
   of the CBOR library -- an array of small integers are all accepted (finding F16) *)
Definition as_bytes (it : item) : res (option bytes) :=
  do t <- through_tags it;
  match t with
  | IBstr b => Ok (Some b)
  | ISimple n => if (n =? 22)%N || (n =? 23)%N then Ok None else Err
  | ITag _ (IBstr b) => Ok (Some b)          (* tags 2 / 3: the byte string itself *)
  | IArr l => match all_uint8 l with Ok b => Ok (Some b) | Err => Err | Panic => Panic end
  | _ => Err
  end.

(* integer fields: `int` (AlgorithmID) and `uint` (KeyDataLength) on a 64-bit platform *)
Definition as_int64 (it : item) : res Z :=
  do t <- through_tags it;
  match t with
  | IUint n => if (n <=? 9223372036854775807)%N then Ok (Z.of_N n) else Err
  | INint n => if (n <=? 9223372036854775807)%N then Ok (- 1 - Z.of_N n) else Err
  | ISimple n => if (n =? 20)%N || (n =? 21)%N then Err
                 else if (n =? 22)%N || (n =? 23)%N then Ok 0
                 else Ok (Z.of_N n)
  | ITag 2 (IBstr b) => if (of_be b <=? 9223372036854775807)%N then Ok (Z.of_N (of_be b)) else Err
  | ITag 3 (IBstr b) => if (of_be b <=? 9223372036854775807)%N then Ok (- 1 - Z.of_N (of_be b)) else Err
  | _ => Err
  end.
Definition as_uint64 (it : item) : res Z :=
  do t <- through_tags it;
  match t with
  | IUint n => Ok (Z.of_N n)
  | ISimple n => if (n =? 20)%N || (n =? 21)%N then Err
                 else if (n =? 22)%N || (n =? 23)%N then Ok 0
                 else Ok (Z.of_N n)
  | ITag 2 (IBstr b) => if (of_be b <=? 18446744073709551615)%N then Ok (Z.of_N (of_be b)) else Err
  | _ => Err
  end.

(* key.CoseMap.UnmarshalCBOR on the raw bytes of an item: map[any]any decoding, then checkKey on every label *)
Fixpoint check_labels (m : list (label * gval)) : res cosemap :=
  match m with
  | [] => Ok []
  | (l, v) :: r =>
      match check_label l, check_labels r with
      | Ok l', Ok r' => Ok ((l', v) :: r')
      | Panic, _ | _, Panic => Panic
      | _, _ => Err
      end
  end.

Definition cosemap_of_item (it : item) : res cosemap :=
  do t <- through_tags it;
  match t with
  | IMap _ =>
      match parse true t with
      | Ok (VMap m) => check_labels m
      | Ok _ => Err                 (* a key that is neither integer nor text: checkKey refuses it *)
      | Err => Err | Panic => Panic
      end
  | ISimple n => if (n =? 22)%N || (n =? 23)%N then Ok [] else Err
  | _ => Err
  end.

Definition cosemap_of_bytes (raw : bytes) : res cosemap := do it <- decode raw; cosemap_of_item it.

(* HeadersFromBytes: empty or nil data is the empty map *)
Definition headers_from_bytes (b : option bytes) : res cosemap :=
  match b with
  | None | Some [] => Ok []
  | Some d => cosemap_of_bytes d
  end.

(* a `toarray` struct target: None = CBOR null / undefined (the struct stays zero) *)
Definition struct_fields (arity : nat) (raw : bytes) : res (option (list bytes)) :=
  do it <- decode raw;
  do t <- through_tags it;
  match t with
  | IArr l => if Nat.eqb (length l) arity then (do rs <- array_elems_raw raw; Ok (Some rs)) else Err
  | ISimple n => if (n =? 22)%N || (n =? 23)%N then Ok None else Err
  | _ => Err
  end.

Definition fld_bytes (raw : bytes) : res (option bytes) := do it <- decode raw; as_bytes it.
Definition fld_headers (raw : bytes) : res cosemap := cosemap_of_bytes raw.

(* a slice-of-pointers field ([]*Signature, []*Recipient): None = nil slice; elements: None = nil pointer
   (the element's first byte is f6 / f7), Some raw otherwise *)
Definition fld_ptr_slice (raw : bytes) : res (option (list (option bytes))) :=
  do it <- decode raw;
  do t <- through_tags it;
  match t with
  | IArr _ =>
      do rs <- array_elems_raw raw;
      Ok (Some (map (fun r => match r with
                              | b :: _ => if byte_eqb b Byte.xf6 || byte_eqb b Byte.xf7 then None else Some r
                              | [] => Some r
                              end) rs))
  | ISimple n => if (n =? 22)%N || (n =? 23)%N then Ok None else Err
  | _ => Err
  end.

(* ---------------------------------------------------------------- encoding of the wire values *)
Definition enc_bytes (b : option bytes) : bytes :=
  match b with Some x => encode (IBstr x) | None => encode (ISimple 22) end.

(* Headers.MarshalCBOR = CoseMap.MarshalCBOR: labels are normalised as on decoding (a label that is neither text nor a
   32-bit integer, or one held twice under different integer types, is an error), then a map in deterministic order;
   values the model cannot encode also make it fail *)
Fixpoint labels_dup (m : cosemap) : bool :=
  match m with
  | [] => false
  | (l, _) :: r => existsb (fun e => label_eqb (fst e) l) r || labels_dup r
  end.
Definition enc_cosemap (m : cosemap) : option bytes :=
  match check_labels m with
  | Ok m' => if labels_dup m' then None else marshal_any (VMap m')
  | _ => None
  end.

(* Headers.Bytes(): the empty (or nil) map is the zero-length string *)
Definition headers_bytes (m : cosemap) : option bytes :=
  match m with [] => Some [] | _ => enc_cosemap m end.

Definition enc_array (fields : list bytes) : bytes := head 4 (N.of_nat (length fields)) ++ concat fields.
Definition enc_tagged (t : N) (content : bytes) : bytes := head 6 t ++ content.

(* what an Unmarshaler-typed element receives: the raw bytes with self-described tags (55799) removed *)
Fixpoint strip_sd (fuel : nat) (raw : bytes) : bytes :=
  match fuel with
  | O => raw
  | S f => match dhead raw with
           | Ok (mt, _, n, r) => if (mt =? 6)%N && (n =? 55799)%N then strip_sd f r else raw
           | _ => raw
           end
  end.

(* elements of a slice of pointers to Unmarshaler types: None = nil pointer *)
Definition ptr_elems (raw : bytes) : res (option (list (option bytes))) :=
  do it <- decode raw;
  do t <- through_tags it;
  match t with
  | IArr _ =>
      do rs <- array_elems_raw raw;
      Ok (Some (map (fun r => let r' := strip_sd 70 r in
                              match r' with
                              | b :: _ => if byte_eqb b Byte.xf6 || byte_eqb b Byte.xf7 then None else Some r'
                              | [] => Some r'
                              end) rs))
  | ISimple n => if (n =? 22)%N || (n =? 23)%N then Ok None else Err
  | _ => Err
  end.

Definition fld_int (raw : bytes) : res Z := do it <- decode raw; as_int64 it.
Definition fld_uint (raw : bytes) : res Z := do it <- decode raw; as_uint64 it.
