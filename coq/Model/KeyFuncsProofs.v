(* The accessors of key.Key regenerated from the source (Gen/KeyFuncsGen.v, translator T14) and key.CrvAlg (T11) are the
   model's kty / kid / key_alg / base_iv / crv_alg for every key map. `k_nil` says whether the receiver is the nil map
   (which the model does not distinguish from the empty one): the statements hold for either answer. *)
From Coq Require Import String.
From Coq Require Import ZArith List Bool Lia.
From Cose Require Import Lib.Base Lib.GoSem Lib.GenTypes Model.GoVal Model.Key Model.HdrSem Gen.TablesGen Gen.FuncsGen Gen.KeyFuncsGen.
Import ListNotations.
Open Scope Z_scope.

Theorem gen_crv_alg c : FuncsGen.key_CrvAlg c = Ok (crv_alg c).
Proof.
  unfold FuncsGen.key_CrvAlg, crv_alg, tcol, table_get, TablesGen.key_CrvAlg. cbn [fst snd lookupZ existsb tval_eqb orb].
  rewrite !(Z.eqb_sym _ c).
  destruct (c =? 1); [reflexivity|]. destruct (c =? 2); [reflexivity|]. destruct (c =? 3); [reflexivity|].
  destruct (c =? 6); [reflexivity|]. destruct (c =? 7); [reflexivity|]. destruct (c =? 8); reflexivity.
Qed.

Theorem gen_key_alg k k_nil : key_Key_Alg k k_nil = Ok (key_alg k).
Proof.
  unfold key_Key_Alg, key_alg. destruct (get_int k 3) as [v| |]; cbn [val_or is_ok andb].
  - destruct (v =? 0) eqn:E.
    + apply Z.eqb_eq in E. subst v. destruct (get_int k (-1)) as [c| |]; cbn [val_or is_ok]; [apply gen_crv_alg|reflexivity|reflexivity].
    + destruct v; try reflexivity. discriminate.
  - reflexivity.
  - reflexivity.
Qed.

Theorem gen_key_kty k k_nil : (k_nil = true -> k = []) -> key_Key_Kty k k_nil = Ok (kty k).
Proof. intro H. unfold key_Key_Kty, kty. destruct k_nil; [rewrite (H eq_refl)|]; reflexivity. Qed.

Theorem gen_key_kid k k_nil : key_Key_Kid k k_nil = Ok (kid k).
Proof. reflexivity. Qed.

Theorem gen_key_base_iv k k_nil : key_Key_BaseIV k k_nil = Ok (base_iv k).
Proof. reflexivity. Qed.
