(* The accessors of key.Key regenerated from the source (Gen/KeyFuncsGen.v, translator T14) and key.CrvAlg (T11) are the
   model's kty / kid / key_alg / base_iv / crv_alg for every key map. `k_nil` says whether the receiver is the nil map
   (which the model does not distinguish from the empty one): the statements hold for either answer. *)
From Coq Require Import String.
From Coq Require Import ZArith List Bool Lia.
From Cose Require Import Lib.Base Lib.GoSem Lib.GenTypes Model.GoVal Model.Key Model.HdrSem Gen.TablesGen Gen.FuncsGen Gen.KeyFuncsGen.
Import ListNotations.
Open Scope Z_scope.

Theorem gen_crv_alg c : FuncsGen.key_CrvAlg c = Ok (crv_alg c).
Proof.
  unfold FuncsGen.key_CrvAlg, crv_alg, tcol, table_get, TablesGen.key_CrvAlg. cbn [fst snd lookupZ existsb tval_eqb orb].
  rewrite !(Z.eqb_sym _ c).
  destruct (c =? 1); [reflexivity|]. destruct (c =? 2); [reflexivity|]. destruct (c =? 3); [reflexivity|].
  destruct (c =? 6); [reflexivity|]. destruct (c =? 7); [reflexivity|]. destruct (c =? 8); reflexivity.
Qed.

Theorem gen_key_alg k k_nil : key_Key_Alg k k_nil = Ok (key_alg k).
Proof.
  unfold key_Key_Alg, key_alg. destruct (get_int k 3) as [v| |]; cbn [val_or is_ok andb].
  - destruct (v =? 0) eqn:E.
    + apply Z.eqb_eq in E. subst v. destruct (get_int k (-1)) as [c| |]; cbn [val_or is_ok]; [apply gen_crv_alg|reflexivity|reflexivity].
    + destruct v; try reflexivity. discriminate.
  - reflexivity.
  - reflexivity.
Qed.

Theorem gen_key_kty k k_nil : (k_nil = true -> k = []) -> key_Key_Kty k k_nil = Ok (kty k).
Proof. intro H. unfold key_Key_Kty, kty. destruct k_nil; [rewrite (H eq_refl)|]; reflexivity. Qed.

Theorem gen_key_kid k k_nil : key_Key_Kid k k_nil = Ok (kid k).
Proof. reflexivity. Qed.

Theorem gen_key_base_iv k k_nil : key_Key_BaseIV k k_nil = Ok (base_iv k).
Proof. reflexivity. Qed.

(* ---------------------------------------------------------------- Key.Ops *)
Definition ops_body : Z -> gval -> list Z -> res (ctl (list Z) (option (list Z))) :=
  fun i v ops => let t1_ := to_int v in let op := val_or 0 t1_ in let err_ok := is_ok t1_ in
                 if negb err_ok then Ok (CRet None) else do ops0 <- go_set ops i op; Ok (CNext ops0).

Lemma ops_loop : forall (l : list gval) (done rest : list Z), length rest = length l ->
  go_range_from (Z.of_nat (length done)) l (done ++ rest)%list ops_body
  = Ok (match all_to_int l with Some zs => inl (done ++ zs)%list | None => inr None end).
Proof.
  induction l as [|v l IH]; intros done rest Hl.
  - destruct rest; [|discriminate]. reflexivity.
  - destruct rest as [|z rest]; [discriminate|]. cbn [go_range_from all_to_int]. unfold ops_body at 1.
    destruct (to_int v) as [n| |]; cbn [val_or is_ok negb]; [|reflexivity|reflexivity].
    assert (S : go_set (done ++ z :: rest) (Z.of_nat (length done)) n = Ok ((done ++ [n]) ++ rest)%list).
    { unfold go_set, go_len. rewrite app_length. cbn [length].
      replace (Z.of_nat (length done) <? 0) with false by (symmetry; apply Z.ltb_ge; lia).
      replace (Z.of_nat (length done + S (length rest)) <=? Z.of_nat (length done)) with false by (symmetry; apply Z.leb_gt; lia).
      cbn [orb]. rewrite Nat2Z.id, firstn_app, Nat.sub_diag, firstn_all. cbn [firstn]. rewrite app_nil_r.
      replace (skipn (S (length done)) (done ++ z :: rest)) with rest.
      - now rewrite <- app_assoc.
      - replace (S (length done)) with (length (done ++ [z])) by (rewrite app_length; cbn [length]; lia).
        replace (done ++ z :: rest)%list with ((done ++ [z]) ++ rest)%list by (now rewrite <- app_assoc).
        now rewrite skipn_app, skipn_all, Nat.sub_diag. }
    rewrite S. cbn [bind].
    replace (Z.of_nat (length done) + 1) with (Z.of_nat (length (done ++ [n]))) by (rewrite app_length; cbn [length]; lia).
    rewrite (IH (done ++ [n])%list rest) by (cbn [length] in Hl; lia).
    destruct (all_to_int l) as [zs|]; [|reflexivity]. now rewrite <- app_assoc.
Qed.

Theorem gen_key_ops k k_nil : key_Key_Ops k k_nil = Ok (key_ops k).
Proof.
  unfold key_Key_Ops, key_ops. destruct (lookup k (ilabel 4)) as [v|]; [|reflexivity].
  destruct v; try reflexivity.
  - (* []any: every member through ToInt, nil at the first failure *)
    unfold go_make_ints, go_len. replace (Z.of_nat (length l) <? 0) with false by (symmetry; apply Z.ltb_ge; lia).
    cbn [bind]. rewrite Nat2Z.id. unfold go_range.
    pose proof (ops_loop l [] (repeat 0 (length l)) (repeat_length _ _)) as H. cbn [length app] in H. change (Z.of_nat 0) with 0 in H.
    match goal with |- context [go_range_from ?a ?b ?c ?f] =>
      replace (go_range_from a b c f) with (@Ok (list Z + option (list Z)) (match all_to_int l with Some zs => inl zs | None => inr None end)) by (symmetry; exact H) end.
    destruct (all_to_int l); reflexivity.
  - (* []int: a copy *)
    unfold go_make_ints, go_len. replace (Z.of_nat (length l) <? 0) with false by (symmetry; apply Z.ltb_ge; lia).
    cbn [bind]. rewrite Nat2Z.id. unfold go_copy_at, go_len. rewrite repeat_length.
    replace (0 <? 0) with false by reflexivity. replace (Z.of_nat (length l) <? 0) with false by (symmetry; apply Z.ltb_ge; lia).
    cbn [orb bind Z.to_nat firstn app]. rewrite Nat.sub_0_r, Nat.min_id, firstn_all.
    rewrite skipn_all2 by (rewrite repeat_length; lia). now rewrite app_nil_r.
Qed.
