(* The universe of Go values that can sit in a key.CoseMap (map[any]any), and
   the typed accessors of key/cosemap.go, case by case. *)
From Coq Require Import String.
From Coq Require Import ZArith List Bool Lia.
From Cose Require Import Lib.Base.
Import ListNotations.
Open Scope Z_scope.

Inductive ikind := KInt | KInt8 | KInt16 | KInt32 | KInt64 | KUint | KUint8 | KUint16 | KUint32 | KUint64.

Definition ikind_eqb (a b : ikind) : bool :=
  match a, b with
  | KInt, KInt | KInt8, KInt8 | KInt16, KInt16 | KInt32, KInt32 | KInt64, KInt64
  | KUint, KUint | KUint8, KUint8 | KUint16, KUint16 | KUint32, KUint32 | KUint64, KUint64 => true
  | _, _ => false
  end.

Definition is_signed (k : ikind) : bool :=
  match k with KInt | KInt8 | KInt16 | KInt32 | KInt64 => true | _ => false end.

(* the values a Go variable of that kind can hold *)
Definition kind_min (k : ikind) : Z :=
  match k with
  | KInt | KInt64 => -9223372036854775808 | KInt8 => -128 | KInt16 => -32768 | KInt32 => -2147483648
  | _ => 0
  end.
Definition kind_max (k : ikind) : Z :=
  match k with
  | KInt | KInt64 => 9223372036854775807 | KInt8 => 127 | KInt16 => 32767 | KInt32 => 2147483647
  | KUint | KUint64 => 18446744073709551615 | KUint8 => 255 | KUint16 => 65535 | KUint32 => 4294967295
  end.
Definition in_kind (k : ikind) (z : Z) : bool := (kind_min k <=? z) && (z <=? kind_max k).

(* map labels: Go map keys of dynamic type; a lookup with an untyped constant
   finds only the `int` label, a lookup with a string only the string label *)
Inductive label := LInt (k : ikind) (z : Z) | LStr (s : bytes).

Definition label_eqb (a b : label) : bool :=
  match a, b with
  | LInt k1 z1, LInt k2 z2 => ikind_eqb k1 k2 && Z.eqb z1 z2
  | LStr s1, LStr s2 => bytes_eqb s1 s2
  | _, _ => false
  end.

Inductive gval :=
| VNil                                  (* nil interface *)
| VBool (b : bool)
| VInt (k : ikind) (z : Z)              (* any type whose reflect.Kind is an integer kind (key.Alg is KInt) *)
| VFloat (bits : Z)
| VBytes (b : bytes)                    (* []byte and named byte slices (key.ByteStr), nil or not: length 0 either way *)
| VStr (s : bytes)                      (* string kind *)
| VArr (l : list gval)                  (* []any *)
| VInts (l : list Z)                    (* []int *)
| VOps (l : option (list Z))            (* key.Ops; None = typed nil *)
| VMap (m : list (label * gval))        (* map[any]any / key.CoseMap *)
| VOther (tag : string)                 (* anything else: []int64, struct, time.Time ... *)
| VTag (n : Z) (v : gval)               (* cbor.Tag{Number, Content} *)
| VSimple (n : Z)                       (* cbor.SimpleValue *)
| VBig (z : Z).                         (* big.Int (CBOR integers beyond int64, bignum tags) *)

Definition cosemap := list (label * gval).

Fixpoint lookup (m : cosemap) (l : label) : option gval :=
  match m with
  | [] => None
  | (k, v) :: r => if label_eqb k l then Some v else lookup r l
  end.

Definition ilabel (z : Z) : label := LInt KInt z.
Definition has (m : cosemap) (z : Z) : bool := match lookup m (ilabel z) with Some _ => true | None => false end.

Definition MinInt32 : Z := -2147483648.
Definition MaxInt32 : Z := 2147483647.
Definition MaxInt64 : Z := 9223372036854775807.

(* key.ToInt *)
Definition to_int (v : gval) : res Z :=
  match v with
  | VInt k z =>
      if is_signed k then (if (MinInt32 <=? z) && (z <=? MaxInt32) then Ok z else Err)
      else (if z <=? MaxInt32 then Ok z else Err)
  | _ => Err          (* includes nil: reflect.Invalid returns an error since the F12 fix *)
  end.

(* CoseMap.GetInt etc.: absent -> zero value, nil error *)
Definition get_int (m : cosemap) (l : Z) : res Z :=
  match lookup m (ilabel l) with Some v => to_int v | None => Ok 0 end.

Definition get_int64 (m : cosemap) (l : Z) : res Z :=
  match lookup m (ilabel l) with
  | Some (VInt k z) => if is_signed k then Ok z else if z <=? MaxInt64 then Ok z else Err
  | Some _ => Err
  | None => Ok 0
  end.

Definition get_uint64 (m : cosemap) (l : Z) : res Z :=
  match lookup m (ilabel l) with
  | Some (VInt k z) => if is_signed k then (if 0 <=? z then Ok z else Err) else Ok z
  | Some _ => Err
  | None => Ok 0
  end.

(* toKey (the label conversion of GetMap): integers of any kind in the 32-bit range become `int`, text stays *)
Definition to_key (l : label) : res label :=
  match l with
  | LInt k z => if is_signed k then (if (MinInt32 <=? z) && (z <=? MaxInt32) then Ok (LInt KInt z) else Err)
                else (if z <=? MaxInt32 then Ok (LInt KInt z) else Err)
  | LStr s => Ok (LStr s)
  end.
Fixpoint to_keys (m : list (label * gval)) : res (list (label * gval)) :=
  match m with
  | [] => Ok []
  | (l, v) :: r => match to_key l, to_keys r with
                   | Ok l', Ok r' => Ok ((l', v) :: r')
                   | Panic, _ | _, Panic => Panic
                   | _, _ => Err
                   end
  end.
(* CoseMap.GetMap on a decoded value (map[any]any): absent -> nil map; a map whose keys are integers or text -> the map
   with normalised labels; anything else, including maps with keys of other types (null, booleans, floats ...: opaque
   VOther in this universe), -> an error. (A null key made toKey panic before 931bc34.) *)
Definition get_map (m : cosemap) (l : Z) : res (option cosemap) :=
  match lookup m (ilabel l) with
  | None => Ok None
  | Some (VMap kvs) => match to_keys kvs with Ok r => Ok (Some r) | Err => Err | Panic => Panic end
  | Some _ => Err
  end.

(* GetBytes: []byte directly, named byte slices through reflect; every other
   dynamic type makes reflect panic, which GetBytes recovers into an error *)
Definition get_bytes (m : cosemap) (l : Z) : res bytes :=
  match lookup m (ilabel l) with
  | Some (VBytes b) => Ok b
  | Some _ => Err
  | None => Ok []
  end.

Definition get_string (m : cosemap) (l : Z) : res bytes :=
  match lookup m (ilabel l) with
  | Some (VStr s) => Ok s
  | Some _ => Err
  | None => Ok []
  end.

Definition get_bool (m : cosemap) (l : Z) : res bool :=
  match lookup m (ilabel l) with
  | Some (VBool b) => Ok b
  | Some _ => Err
  | None => Ok false
  end.

(* accessors that drop the error: `v, _ := m.GetInt(...)` *)
Definition get_int_ (m : cosemap) (l : Z) : Z := match get_int m l with Ok z => z | _ => 0 end.
Definition get_bytes_ (m : cosemap) (l : Z) : bytes := match get_bytes m l with Ok b => b | _ => [] end.

(* checkKey: normalisation of a decoded label (fxamacker yields int64/uint64 for map[any]any keys) *)
Definition check_label (l : label) : res label :=
  match l with
  | LInt KInt z | LInt KInt64 z => if (MinInt32 <=? z) && (z <=? MaxInt32) then Ok (LInt KInt z) else Err
  | LInt KUint z | LInt KUint64 z => if z <=? MaxInt32 then Ok (LInt KInt z) else Err
  | LStr s => Ok (LStr s)
  | _ => Err
  end.

Lemma to_int_range v z : to_int v = Ok z -> MinInt32 <= z <= MaxInt32 \/ (exists k, v = VInt k z /\ is_signed k = false /\ z <= MaxInt32).
Proof.
  destruct v; cbn; try discriminate. destruct (is_signed k) eqn:E.
  - destruct ((MinInt32 <=? z0) && (z0 <=? MaxInt32)) eqn:R; [|discriminate]. intro H; inversion H; subst. left. lia.
  - destruct (z0 <=? MaxInt32) eqn:R; [|discriminate]. intro H; inversion H; subst. right. exists k. repeat split; auto. lia.
Qed.
