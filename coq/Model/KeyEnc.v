(* C15: what a derived public key contains, and equivalence of the accepted encodings of an EC2 key
   (Model/Key.v models ed25519 / ecdsa ToPublicKey, KeyToPrivate / NewSigner and keyToPublic around Go's primitives C). *)
From Coq Require Import String.
From Coq Require Import NArith ZArith List Arith Lia Bool.
From Cose Require Import Lib.Base Lib.GenTypes Lib.BeLemmas Model.GoVal Model.Key Model.KeyProofs.
Import ListNotations.
Open Scope Z_scope.

Definition only_labels (allowed : list Z) (k : cosemap) : bool :=
  forallb (fun e => match fst e with LInt KInt z => memZ z allowed | _ => false end) k.

Section WithCrypto.
Variable C : crypto.

(* ---------------------------------------------------------------- Ed25519 *)
Theorem ed_public_contents k pk : has k (-4) = true -> ed_to_public C k = Some pk ->
  only_labels [1; -1; 2; 3; 4; -2] pk = true /\ lookup pk (ilabel (-4)) = None
  /\ lookup pk (ilabel (-2)) = Some (VBytes (ed_public C (get_bytes_ k (-4))))
  /\ lookup pk (ilabel 1) = Some (VInt KInt 1) /\ lookup pk (ilabel (-1)) = Some (VInt KInt 6).
Proof.
  intros HD H. unfold ed_to_public in H. rewrite HD in H. cbn [negb] in H.
  destruct (negb (check_key_ed k)); [discriminate|].
  destruct (has k (-2) && negb (bytes_eqb (get_bytes_ k (-2)) (ed_public C (get_bytes_ k (-4))))); [discriminate|].
  inversion H; subst pk; clear H.
  destruct (lookup k (ilabel 2)); destruct (lookup k (ilabel 3)); destruct (lookup k (ilabel 4)); cbn; repeat split; reflexivity.
Qed.

(* a private key whose embedded public key is not the one its seed yields is refused, by the signer and by the conversion *)
Theorem ed_mismatch_refused k : has k (-4) = true -> has k (-2) = true ->
  bytes_eqb (get_bytes_ k (-2)) (ed_public C (get_bytes_ k (-4))) = false ->
  ed_to_public C k = None /\ ed_signer_ok C k = false.
Proof.
  intros HD HX Hne. split.
  - unfold ed_to_public. rewrite HD, HX, Hne. destruct (negb (check_key_ed k)); reflexivity.
  - unfold ed_signer_ok. rewrite HD, HX.
    assert (E : bytes_eqb (ed_public C (get_bytes_ k (-4))) (get_bytes_ k (-2)) = false).
    { destruct (bytes_eqb (ed_public C (get_bytes_ k (-4))) (get_bytes_ k (-2))) eqn:E; [|reflexivity].
      apply bytes_eqb_eq in E. rewrite E, bytes_eqb_refl in Hne. discriminate. }
    rewrite E. now rewrite !andb_false_r.
Qed.

(* ---------------------------------------------------------------- ECDSA *)
Theorem ecdsa_public_contents k pk : has k (-4) = true -> ecdsa_to_public C k = Some pk ->
  let c := ecdsa_crv (key_alg k) in let P := ec_base_mul C c (get_bytes_ k (-4)) in
  only_labels [1; -1; 2; 3; 4; -2; -3] pk = true /\ lookup pk (ilabel (-4)) = None
  /\ lookup pk (ilabel (-2)) = Some (VBytes (i2osp (crv_size c) (fst P)))
  /\ lookup pk (ilabel (-3)) = Some (VBytes (i2osp (crv_size c) (snd P))).
Proof.
  intros HD H c P. unfold ecdsa_to_public in H. rewrite HD in H. cbn [negb] in H.
  destruct (negb (check_key_ecdsa k)); [discriminate|].
  match type of H with (if ?c then _ else _) = _ => destruct c; [discriminate|] end.
  inversion H; subst pk; clear H. fold c. fold P.
  destruct (lookup k (ilabel (-1))); destruct (lookup k (ilabel 2)); destruct (lookup k (ilabel 3)); destruct (lookup k (ilabel 4)); cbn; repeat split; reflexivity.
Qed.

(* the coordinates the library emits have the fixed length of the curve (RFC 9053 section 7.1.1) *)
Theorem ecdsa_emitted_coordinates_fixed_length k pk x y : has k (-4) = true -> ecdsa_to_public C k = Some pk ->
  lookup pk (ilabel (-2)) = Some (VBytes x) -> lookup pk (ilabel (-3)) = Some (VBytes y) ->
  length x = crv_size (ecdsa_crv (key_alg k)) /\ length y = crv_size (ecdsa_crv (key_alg k)).
Proof.
  intros HD H Hx Hy. destruct (ecdsa_public_contents k pk HD H) as [_ [_ [Ex Ey]]]. rewrite Ex in Hx. rewrite Ey in Hy.
  inversion Hx; inversion Hy. unfold i2osp. now rewrite !be_length.
Qed.

(* embedded coordinates that do not match the private scalar are refused (compared as integers) *)
Theorem ecdsa_mismatch_refused k x : has k (-4) = true -> has k (-2) = true -> get_bytes k (-2) = Ok x ->
  fst (ec_base_mul C (ecdsa_crv (key_alg k)) (get_bytes_ k (-4))) <> os2ip x ->
  ecdsa_signer_ok C k = false /\ ecdsa_to_public C k = None.
Proof.
  intros HD HX Gx Hne. split.
  - unfold ecdsa_signer_ok. rewrite HD, Gx, HX.
    replace (fst (ec_base_mul C (ecdsa_crv (key_alg k)) (get_bytes_ k (-4))) =? os2ip x) with false by lia.
    cbn [andb]. now rewrite andb_false_r.
  - unfold ecdsa_to_public. rewrite HD, HX. cbn [negb].
    assert (G : get_bytes_ k (-2) = x) by (unfold get_bytes_; now rewrite Gx). rewrite G.
    replace (fst (ec_base_mul C (ecdsa_crv (key_alg k)) (get_bytes_ k (-4))) =? os2ip x) with false by lia.
    cbn [negb orb andb]. destruct (negb (check_key_ecdsa k)); reflexivity.
Qed.

(* acceptance of the embedded coordinates depends on them as integers only: zero-padded and zero-stripped forms agree *)
Lemma os2ip_zeros_app n b : os2ip (zeros n ++ b) = os2ip b.
Proof. unfold os2ip. f_equal. rewrite of_be_app, of_be_zeros. lia. Qed.

Theorem ecdsa_signer_coordinates_as_integers k1 k2 x1 x2 y1 y2 :
  check_key_ecdsa k1 = true -> check_key_ecdsa k2 = true ->
  has k1 (-4) = true -> has k2 (-4) = true -> get_bytes_ k1 (-4) = get_bytes_ k2 (-4) -> key_alg k1 = key_alg k2 ->
  has k1 (-2) = true -> has k2 (-2) = true -> has k1 (-3) = true -> has k2 (-3) = true ->
  get_bytes k1 (-2) = Ok x1 -> get_bytes k2 (-2) = Ok x2 -> get_bytes k1 (-3) = Ok y1 -> get_bytes k2 (-3) = Ok y2 ->
  os2ip x1 = os2ip x2 -> os2ip y1 = os2ip y2 ->
  ecdsa_signer_ok C k1 = ecdsa_signer_ok C k2.
Proof.
  intros C1 C2 D1 D2 Ed Ea X1 X2 Y1 Y2 Gx1 Gx2 Gy1 Gy2 Ex Ey. unfold ecdsa_signer_ok.
  rewrite C1, C2, D1, D2, Gx1, Gx2, Gy1, Gy2, X1, X2, Y1, Y2, Ed, Ea, Ex, Ey. reflexivity.
Qed.

(* the boolean (sign bit) form of y is accepted exactly when the byte-string form is, given that the primitive's
   decompression returns the point whose abscissa and parity it was given *)
Theorem ecdsa_compressed_equivalent pk1 pk2 x y :
  key_alg pk1 = key_alg pk2 -> get_bytes_ pk1 (-2) = x -> get_bytes_ pk2 (-2) = x ->
  lookup pk1 (ilabel (-3)) = Some (VBytes y) -> y <> [] ->
  lookup pk2 (ilabel (-3)) = Some (VBool (Z.odd (os2ip y))) ->
  (length x <= crv_size (ecdsa_crv (key_alg pk1)))%nat ->
  (forall c, ec_decompress C c (pad_left (crv_size c) x) (Z.odd (os2ip y)) =
             if ec_on_curve C c (os2ip x) (os2ip y) then Some (os2ip x, os2ip y) else None) ->
  (forall c ix iy, ec_decompress C c (pad_left (crv_size c) x) (Z.odd (os2ip y)) = Some (ix, iy) -> ec_on_curve C c ix iy = true) ->
  ecdsa_point_ok C pk1 = ecdsa_point_ok C pk2.
Proof.
  intros Ea X1 X2 Y1 Ny Y2 Lx Hd Hon. unfold ecdsa_point_ok. rewrite <- Ea, X1, X2, Y1, Y2.
  destruct y as [|b y]; [congruence|]. unfold get_bool. rewrite Y2.
  replace (Nat.ltb (crv_size (ecdsa_crv (key_alg pk1))) (length x)) with false by (symmetry; apply Nat.ltb_ge; lia).
  rewrite Hd. destruct (ec_on_curve C (ecdsa_crv (key_alg pk1)) (os2ip x) (os2ip (b :: y))) eqn:E; [|reflexivity].
  symmetry. exact E.
Qed.

End WithCrypto.

(* i2osp then os2ip is the identity on values that fit, so emitted coordinates denote the computed point *)
Theorem emitted_coordinates_denote_the_point n z : 0 <= z < Z.of_N (256 ^ N.of_nat n) -> os2ip (i2osp n z) = z.
Proof.
  intros [H0 H1]. unfold os2ip, i2osp. rewrite of_be_be, N.mod_small by lia. lia.
Qed.

(* ---------------------------------------------------------------- correspondence cases *)
From Cose Require Import Model.KeyCorr Model.CborCorr.

Inductive keyenc_case :=
| EcPub (o : oracle) (k : cosemap) (out : option cosemap)        (* ecdsa.ToPublicKey *)
| EdPub (o : oracle) (k : cosemap) (out : option cosemap)        (* ed25519.ToPublicKey *)
| EcSigner (o : oracle) (k : cosemap) (ok : bool)                (* ecdsa.NewSigner *)
| EcVerifier (o : oracle) (k : cosemap) (ok : bool).             (* ecdsa.NewVerifier *)

Definition omap_eqb (a b : option cosemap) : bool :=
  match a, b with
  | Some x, Some y => geq 40 (VMap x) (VMap y)
  | None, None => true
  | _, _ => false
  end.

Definition check_keyenc_case (c : keyenc_case) : bool :=
  match c with
  | EcPub o k out => omap_eqb (ecdsa_to_public (crypto_of o) k) out
  | EdPub o k out => omap_eqb (ed_to_public (crypto_of o) k) out
  | EcSigner o k ok => Bool.eqb (ecdsa_signer_ok (crypto_of o) k) ok
  | EcVerifier o k ok =>
      Bool.eqb (match ecdsa_to_public (crypto_of o) k with Some pk => ecdsa_point_ok (crypto_of o) pk | None => false end) ok
  end.

(* ---- F20 (known finding): the sign bit of a compressed embedded point of a PRIVATE EC2 key is never compared with
   d*G. Whatever d*G is, the same private key carrying the right x with y = true and with y = false both pass
   ToPublicKey (and KeyToPrivate): one of the two embeds the point (x, -y), which is not d*G. The suite pins this
   (key/ecdsa TestToPublicKey accepts both values for one key), so it is recorded, not repaired. *)
Definition f20_C (px py : Z) : crypto :=
  {| ed_public := fun _ => []; ec_base_mul := fun _ _ => (px, py); ec_on_curve := fun _ _ _ => true;
     ec_decompress := fun _ _ _ => None; ecdh_new_private := fun _ _ => true; ecdh_public_bytes := fun _ _ => []; ecdh_new_public := fun _ _ => true |}.
Definition f20_key (sign : bool) : cosemap :=
  [(ilabel 1, VInt KInt 2); (ilabel 3, VInt KInt (-7)); (ilabel (-1), VInt KInt 1); (ilabel (-4), VBytes (hex "0a79"));
   (ilabel (-2), VBytes (hex "05")); (ilabel (-3), VBool sign)].
Theorem wrong_sign_bit_of_private_key_accepted_refuted :
  forall py, exists pk, ecdsa_to_public (f20_C 5 py) (f20_key true) = Some pk /\ ecdsa_to_public (f20_C 5 py) (f20_key false) = Some pk
                        /\ has (f20_key true) (-4) = true.
Proof. intro py. eexists. repeat split; vm_compute; reflexivity. Qed.
