(* Lookup by key id (Verifiers / Signers / KeySet .Lookup) and the per-signature loop of SignMessage.Verify, regenerated
   from the source (Gen/LookupGen.v, translator T15), are the model's lookup_prim / lookup_kid and verify_all. *)
From Coq Require Import String.
From Coq Require Import ZArith List Bool Lia.
From Coq Require Import Strings.Byte.
From Cose Require Import Lib.Base Lib.Cbor Lib.GoSem Lib.GenTypes Model.GoVal Model.CborGo Model.Wire Model.Key Model.MsgLogic Model.Msg Model.MsgProofs Model.HdrSem Gen.LookupGen.
Import ListNotations.
Open Scope Z_scope.

(* ---------------------------------------------------------------- Lookup *)
Lemma lookup_prim_loop id : forall (vs : list sigprim) i,
  go_range_from i vs tt (fun _ v _ => if bytes_eqb (kid (sg_key v)) id then Ok (CRet (Some v)) else Ok (CNext tt))
  = Ok (match lookup_prim vs id with Some v => inr (Some v) | None => inl tt end).
Proof.
  induction vs as [|v r IH]; intro i; cbn [go_range_from lookup_prim]; [reflexivity|].
  destruct (bytes_eqb (kid (sg_key v)) id); [reflexivity|]. apply IH.
Qed.

Theorem gen_verifiers_lookup vs id : key_Verifiers_Lookup vs id = Ok (lookup_prim vs id).
Proof. unfold key_Verifiers_Lookup, go_range. rewrite lookup_prim_loop. cbn [bind]. destruct (lookup_prim vs id); reflexivity. Qed.

Theorem gen_signers_lookup vs id : key_Signers_Lookup vs id = Ok (lookup_prim vs id).
Proof. unfold key_Signers_Lookup, go_range. rewrite lookup_prim_loop. cbn [bind]. destruct (lookup_prim vs id); reflexivity. Qed.

Lemma lookup_kid_loop id : forall (ks : list cosemap) i,
  go_range_from i ks tt (fun _ k _ => if bytes_eqb (kid k) id then Ok (CRet (Some k)) else Ok (CNext tt))
  = Ok (match lookup_kid ks id with Some k => inr (Some k) | None => inl tt end).
Proof.
  induction ks as [|k r IH]; intro i; cbn [go_range_from lookup_kid]; [reflexivity|].
  destruct (bytes_eqb (kid k) id); [reflexivity|]. apply IH.
Qed.

Theorem gen_keyset_lookup ks id : key_KeySet_Lookup ks id = Ok (lookup_kid ks id).
Proof. unfold key_KeySet_Lookup, go_range. rewrite lookup_kid_loop. cbn [bind]. destruct (lookup_kid ks id); reflexivity. Qed.

(* ---------------------------------------------------------------- SignMessage.Verify *)
Definition verify_body (vs : list sigprim) (ext : option bytes) (w : wire) : Z -> sigent -> unit -> res (ctl unit unit) :=
  fun _ sig _ =>
    let kid_ := get_bytes_ (omap (se_unprot sig)) 4 in
    match lookup_prim vs kid_ with
    | Some verifier =>
        do _ <- (if has (se_prot sig) 1 then let alg := get_int_ (se_prot sig) 1 in (if negb (alg =? key_alg (sg_key verifier)) then Err else Ok tt) else Ok tt);
        let protected := Some (se_raw sig) in
        do protected0 <- (if is_none protected then let protected1 := headers_bytes (se_prot sig) in Ok protected1 else Ok protected);
        do sig_toSign <- structure KSign (w_prot w) protected0 ext (w_payload w);
        (if negb (sg_verify verifier sig_toSign (match se_sig sig with Some b => b | None => [] end)) then Err else Ok (CNext tt))
    | _ => Err
    end.

Lemma verify_loop vs ext w : forall (l : list sigent) i,
  go_range_from i l tt (verify_body vs ext w) = match verify_all vs w ext l with Ok _ => Ok (inl tt) | Err => Err | Panic => Panic end.
Proof.
  induction l as [|s r IH]; intro i; cbn [go_range_from verify_all]; [reflexivity|]. unfold verify_body at 1.
  destruct (lookup_prim vs (get_bytes_ (omap (se_unprot s)) 4)) as [v|]; [|reflexivity].
  unfold consume_gate, alg_gate. destruct (has (se_prot s) 1).
  - destruct (get_int_ (se_prot s) 1 =? key_alg (sg_key v)); cbn [negb bind is_none]; [|reflexivity].
    destruct (structure KSign (w_prot w) (Some (se_raw s)) ext (w_payload w)) as [tbs| |]; cbn [bind]; [|reflexivity|reflexivity].
    destruct (sg_verify v tbs _); cbn [negb]; [apply IH|reflexivity].
  - cbn [negb bind is_none].
    destruct (structure KSign (w_prot w) (Some (se_raw s)) ext (w_payload w)) as [tbs| |]; cbn [bind]; [|reflexivity|reflexivity].
    destruct (sg_verify v tbs _); cbn [negb]; [apply IH|reflexivity].
Qed.

(* what sign_consume does once the message is decoded *)
Definition verify_decoded (vs : list sigprim) (ext : option bytes) (w : wire) (sigs : option (list sigent)) : res unit :=
  match vs, sigs with
  | [], _ => Err
  | _, None | _, Some [] => Err
  | _, Some l => verify_all vs w ext l
  end.

Theorem gen_sign_verify vs ext w sigs : cose_SignMessage_Verify vs ext w sigs = verify_decoded vs ext w sigs.
Proof.
  unfold cose_SignMessage_Verify, verify_decoded, go_len.
  destruct vs as [|v0 vr]; [reflexivity|].
  replace (Z.of_nat (length (v0 :: vr)) =? 0) with false by (symmetry; apply Z.eqb_neq; cbn [length]; lia).
  destruct sigs as [l|]; cbn [is_none orb olist]; [|reflexivity].
  destruct l as [|s r]; [reflexivity|].
  replace (Z.of_nat (length (s :: r)) =? 0) with false by (symmetry; apply Z.eqb_neq; cbn [length]; lia).
  unfold go_range. pose proof (verify_loop (v0 :: vr) ext w (s :: r) 0) as H.
  match goal with |- context [go_range_from ?a ?b ?c ?f] =>
    replace (go_range_from a b c f) with (match verify_all (v0 :: vr) w ext (s :: r) with Ok _ => @Ok (unit + unit) (inl tt) | Err => Err | Panic => Panic end) by (symmetry; exact H) end.
  destruct (verify_all (v0 :: vr) w ext (s :: r)) as [[]| |]; reflexivity.
Qed.

(* ---------------------------------------------------------------- SignMessage.WithSign: the loop over the signers (T16) *)
(* what the loop appends to the wire struct: one entry per signer, its two buckets built from the signer's key alone,
   the signature made over the Sig_structure of the encoded body bucket, the entry's own encoded protected bucket, the
   external data and the payload; the first signer that fails ends the call *)
Fixpoint sign_entries (ps : list sigprim) (pb : bytes) (ext payload : option bytes) : res (list sigout) :=
  match ps with
  | [] => Ok []
  | p :: r =>
      do tbs <- structure KSign (Some pb) (headers_bytes (signer_protected (sg_key p))) ext payload;
      do sig <- sg_sign p tbs;
      do rest <- sign_entries r pb ext payload;
      Ok (mk_sigout (Some (signer_protected (sg_key p))) (Some (signer_unprotected (sg_key p))) sig :: rest)
  end.

Definition with_sign_body (ext : option bytes) (pb : bytes) (payload : option bytes) : Z -> sigprim -> list sigout -> res (ctl (list sigout) (list sigout)) :=
  fun _ signer acc =>
    let sig_Protected := (Some []) in
    let sig_Unprotected := (Some []) in
    let alg := (key_alg (sg_key signer)) in
    do sig_Protected0 <- (if (negb (alg =? 0)) then do sig_Protected1 <- (oset sig_Protected 1 (VInt KInt alg)); Ok sig_Protected1 else Ok sig_Protected);
    let kid_ := (kid (sg_key signer)) in
    do sig_Unprotected0 <- (if (0 <? (go_len kid_)) then do sig_Unprotected1 <- (oset sig_Unprotected 4 (VBytes kid_)); Ok sig_Unprotected1 else Ok sig_Unprotected);
    let protected := (headers_bytes (omap sig_Protected0)) in
    do sig_toSign <- (structure KSign (Some pb) protected ext payload);
    do sig_Signature <- (sg_sign signer sig_toSign);
    let acc0 := (acc ++ [mk_sigout sig_Protected0 sig_Unprotected0 sig_Signature]) in
    Ok (CNext acc0).

Lemma with_sign_buckets k :
  (if negb (key_alg k =? 0) then do h <- oset (Some []) 1 (VInt KInt (key_alg k)); Ok h else Ok (Some [])) = Ok (Some (signer_protected k))
  /\ (if 0 <? go_len (kid k) then do h <- oset (Some []) 4 (VBytes (kid k)); Ok h else Ok (Some [])) = Ok (Some (signer_unprotected k)).
Proof.
  unfold signer_protected, signer_unprotected, oset, go_len. split.
  - destruct (key_alg k =? 0); reflexivity.
  - destruct (kid k) as [|b r]; [reflexivity|].
    replace (0 <? Z.of_nat (length (b :: r))) with true by (symmetry; apply Z.ltb_lt; cbn [length]; lia). reflexivity.
Qed.

Lemma with_sign_loop ext pb payload : forall (ps : list sigprim) i acc,
  go_range_from i ps acc (with_sign_body ext pb payload)
  = match sign_entries ps pb ext payload with Ok l => Ok (inl (acc ++ l)) | Err => Err | Panic => Panic end.
Proof.
  induction ps as [|p r IH]; intros i acc; cbn [go_range_from sign_entries]; [rewrite app_nil_r; reflexivity|].
  unfold with_sign_body at 1. destruct (with_sign_buckets (sg_key p)) as [Hp Hu].
  rewrite Hp. cbn [bind]. rewrite Hu. cbn [bind omap].
  destruct (structure KSign (Some pb) (headers_bytes (signer_protected (sg_key p))) ext payload) as [tbs| |]; cbn [bind]; [|reflexivity|reflexivity].
  destruct (sg_sign p tbs) as [sg| |]; cbn [bind]; [|reflexivity|reflexivity].
  rewrite IH. destruct (sign_entries r pb ext payload) as [l| |]; cbn [bind]; [|reflexivity|reflexivity].
  rewrite <- app_assoc. reflexivity.
Qed.

Theorem gen_with_sign_loop ps ext pb payload : cose_SignMessage_WithSign_loop ps ext pb payload = sign_entries ps pb ext payload.
Proof.
  unfold cose_SignMessage_WithSign_loop, go_range.
  pose proof (with_sign_loop ext pb payload ps 0 []) as H. unfold with_sign_body in H.
  match goal with |- context [go_range_from ?a ?b ?c ?f] =>
    replace (go_range_from a b c f) with (match sign_entries ps pb ext payload with Ok l => @Ok (list sigout + list sigout) (inl ([] ++ l)) | Err => Err | Panic => Panic end) by (symmetry; exact H) end.
  destruct (sign_entries ps pb ext payload) as [l| |]; reflexivity.
Qed.

(* the entries are what the functional model of COSE_Sign production (sign_all, used by sign_produce and by the object
   model) encodes: whenever the per-signer buckets are encodable (they hold one integer / one byte string) *)
Definition enc_sigout (e : sigout) : option bytes :=
  match headers_bytes (omap (so_prot e)), enc_cosemap (omap (so_unprot e)) with
  | Some sp, Some su => Some (enc_array [enc_bytes (Some sp); su; enc_bytes (Some (so_sig e))])
  | _, _ => None
  end.

Definition signer_buckets_encodable (p : sigprim) : Prop :=
  headers_bytes (signer_protected (sg_key p)) <> None /\ enc_cosemap (signer_unprotected (sg_key p)) <> None.

Theorem sign_all_is_entries pb ext payload : forall ps, Forall signer_buckets_encodable ps ->
  sign_all ps pb ext payload
  = do l <- sign_entries ps pb ext payload; match all_some (map enc_sigout l) with Some bs => Ok bs | None => Err end.
Proof.
  induction ps as [|p r IH]; intro F; cbn [sign_all sign_entries]; [reflexivity|].
  inversion F as [|p' r' [Hp Hu] Fr]; subst.
  destruct (headers_bytes (signer_protected (sg_key p))) as [sp|] eqn:Esp; [|exfalso; apply Hp; reflexivity].
  destruct (enc_cosemap (signer_unprotected (sg_key p))) as [su|] eqn:Esu; [|exfalso; apply Hu; reflexivity].
  destruct (structure KSign (Some pb) (Some sp) ext payload) as [tbs| |]; cbn [bind]; [|reflexivity|reflexivity].
  destruct (sg_sign p tbs) as [sg| |]; cbn [bind]; [|reflexivity|reflexivity].
  rewrite (IH Fr). destruct (sign_entries r pb ext payload) as [l| |]; cbn [bind]; [|reflexivity|reflexivity].
  cbn [map all_some].
  assert (E : enc_sigout (mk_sigout (Some (signer_protected (sg_key p))) (Some (signer_unprotected (sg_key p))) sg)
              = Some (enc_array [enc_bytes (Some sp); su; enc_bytes (Some sg)])).
  { unfold enc_sigout. cbn [so_prot so_unprot so_sig omap]. rewrite Esp, Esu. reflexivity. }
  rewrite E. destruct (all_some (map enc_sigout l)); reflexivity.
Qed.

Theorem gen_with_sign_loop_is_sign_all ps ext pb payload : Forall signer_buckets_encodable ps ->
  sign_all ps pb ext payload
  = do l <- cose_SignMessage_WithSign_loop ps ext pb payload; match all_some (map enc_sigout l) with Some bs => Ok bs | None => Err end.
Proof. intro F. rewrite gen_with_sign_loop. apply sign_all_is_entries, F. Qed.

(* the per-signer buckets hold at most one integer / one byte string under a small integer label: their encodings never
   fail, whatever the key, so the hypothesis above always holds *)
Lemma signer_buckets_always_encodable p : signer_buckets_encodable p.
Proof.
  unfold signer_buckets_encodable, signer_protected, signer_unprotected. split.
  - destruct (key_alg (sg_key p) =? 0); [cbn; discriminate|].
    generalize (key_alg (sg_key p)); intro z.
    unfold headers_bytes, enc_cosemap. cbn [check_labels].
    replace (check_label (ilabel 1)) with (@Ok label (ilabel 1)) by (vm_compute; reflexivity).
    replace (labels_dup [(ilabel 1, VInt KInt z)]) with false by reflexivity.
    unfold marshal_any. cbn [item_of map opt_all option_map]. discriminate.
  - destruct (kid (sg_key p)) as [|b r]; [cbn; discriminate|].
    generalize (b :: r); intro kd.
    unfold enc_cosemap. cbn [check_labels].
    replace (check_label (ilabel 4)) with (@Ok label (ilabel 4)) by (vm_compute; reflexivity).
    replace (labels_dup [(ilabel 4, VBytes kd)]) with false by reflexivity.
    unfold marshal_any. cbn [item_of map opt_all option_map]. discriminate.
Qed.

Lemma all_signers_encodable ps : Forall signer_buckets_encodable ps.
Proof. induction ps as [|p r IH]; constructor; [apply signer_buckets_always_encodable|exact IH]. Qed.

Theorem gen_with_sign_loop_is_sign_all_total ps ext pb payload :
  sign_all ps pb ext payload
  = do l <- cose_SignMessage_WithSign_loop ps ext pb payload; match all_some (map enc_sigout l) with Some bs => Ok bs | None => Err end.
Proof. apply gen_with_sign_loop_is_sign_all, all_signers_encodable. Qed.

(* the statements that follow the loop install the wire struct and return: nothing else happens after the last signature *)
Lemma with_sign_after_loop : cose_SignMessage_WithSign_after_loop = ["m.mm = mm"%string; "return nil"%string].
Proof. reflexivity. Qed.


(* non-vacuity: a two-signer list, one key with alg and kid, one bare, evaluated *)
Definition ws_p1 : sigprim := {| sg_key := [(ilabel 1, VInt KInt 2); (ilabel 2, VBytes [x01; x02]); (ilabel 3, VInt KInt (-7))]; sg_sign := fun d => Ok (firstn 4 d); sg_verify := fun _ _ => true |}.
Definition ws_p2 : sigprim := {| sg_key := [(ilabel 1, VInt KInt 2)]; sg_sign := fun d => Ok (firstn 2 d); sg_verify := fun _ _ => true |}.
Example with_sign_loop_example :
  cose_SignMessage_WithSign_loop [ws_p1; ws_p2] None [] (Some [x61])
  = Ok [mk_sigout (Some [(ilabel 1, VInt KInt (-7))]) (Some [(ilabel 4, VBytes [x01; x02])]) [x85; x69; x53; x69];
        mk_sigout (Some []) (Some []) [x85; x69]].
Proof. vm_compute. reflexivity. Qed.
Example with_sign_loop_example_encodable : Forall signer_buckets_encodable [ws_p1; ws_p2].
Proof. repeat (apply Forall_cons || apply Forall_nil); (split; vm_compute; discriminate). Qed.

(* ---------------------------------------------------------------- C05 on the source of SignMessage.Verify *)
(* acceptance means: every signature found a verifier by its own kid, and its OWN protected bucket passed the algorithm
   gate of that verifier's key *)
Definition sig_gated (vs : list sigprim) (s : sigent) : Prop :=
  exists v, lookup_prim vs (get_bytes_ (omap (se_unprot s)) 4) = Some v /\ consume_gate (se_prot s) (sg_key v) = true.

Lemma verify_all_gates vs w ext : forall sigs, verify_all vs w ext sigs = Ok tt -> Forall (sig_gated vs) sigs.
Proof.
  induction sigs as [|s r IH]; intro H; [constructor|]. cbn [verify_all] in H.
  destruct (lookup_prim vs (get_bytes_ (omap (se_unprot s)) 4)) as [v|] eqn:L; [|discriminate].
  destruct (consume_gate (se_prot s) (sg_key v)) eqn:G; cbn [negb] in H; [|discriminate].
  destruct (structure KSign (w_prot w) (Some (se_raw s)) ext (w_payload w)) as [tbs| |]; cbn [bind] in H; try discriminate.
  destruct (sg_verify v tbs _); [|discriminate].
  constructor; [exists v; split; [exact L|exact G]|apply IH, H].
Qed.

Theorem gen_sign_verify_gates vs ext w sigs :
  cose_SignMessage_Verify vs ext w (Some sigs) = Ok tt -> sigs <> [] /\ Forall (sig_gated vs) sigs.
Proof.
  rewrite gen_sign_verify. unfold verify_decoded. destruct vs as [|v0 vr]; [discriminate|].
  destruct sigs as [|s r]; [discriminate|]. intro H. split; [discriminate|]. eapply verify_all_gates, H.
Qed.

(* the body's unprotected bucket (and whatever else the wire struct holds beyond the protected bytes and the payload, which
   enter the Sig_structure) has no say: an algorithm named there binds nothing and overrides nothing *)
Lemma verify_all_body_irrelevant vs ext w w' : w_prot w = w_prot w' -> w_payload w = w_payload w' ->
  forall sigs, verify_all vs w ext sigs = verify_all vs w' ext sigs.
Proof.
  intros Hp Hl. induction sigs as [|s r IH]; [reflexivity|]. cbn [verify_all]. rewrite Hp, Hl, IH. reflexivity.
Qed.

Theorem gen_sign_verify_body_irrelevant vs ext w w' sigs : w_prot w = w_prot w' -> w_payload w = w_payload w' ->
  cose_SignMessage_Verify vs ext w sigs = cose_SignMessage_Verify vs ext w' sigs.
Proof.
  intros Hp Hl. rewrite !gen_sign_verify. unfold verify_decoded. destruct vs as [|v0 vr]; [reflexivity|].
  destruct sigs as [[|s r]|]; try reflexivity. apply verify_all_body_irrelevant; assumption.
Qed.

(* non-vacuity of gen_sign_verify_gates: a decoded one-signature message that the source's Verify accepts *)
Definition ws_wire : wire := {| w_prot := Some []; w_unprot := Some []; w_payload := Some [x61]; w_auth := None; w_extra := None |}.
Definition ws_sig1 : sigent :=
  {| se_prot := [(ilabel 1, VInt KInt (-7))]; se_raw := [xa1; x01; x26]; se_unprot := Some [(ilabel 4, VBytes [x01; x02])]; se_sig := Some [x85; x69; x53; x69] |}.
Example sign_verify_gates_example :
  cose_SignMessage_Verify [ws_p1; ws_p2] None ws_wire (Some [ws_sig1]) = Ok tt.
Proof. vm_compute. reflexivity. Qed.
(* ... and one it refuses at the gate: the signature's own protected bucket names ES384, the verifier's key is an ES256 key,
   although the verifier would accept the bytes and although nothing else differs *)
Definition ws_sig1_es384 : sigent :=
  {| se_prot := [(ilabel 1, VInt KInt (-35))]; se_raw := [xa1; x01; x38; x22]; se_unprot := Some [(ilabel 4, VBytes [x01; x02])]; se_sig := Some [x85; x69; x53; x69] |}.
Example sign_verify_gate_refuses_example :
  cose_SignMessage_Verify [ws_p1; ws_p2] None ws_wire (Some [ws_sig1_es384]) = Err.
Proof. vm_compute. reflexivity. Qed.

(* ---------------------------------------------------------------- C02 on the source of SignMessage.Verify *)
(* acceptance by the regenerated source means that EVERY entry of the signature array (the last one and the earlier ones,
   repeated ones included) found its verifier by kid, passed the gate, and was accepted by that verifier over the
   Sig_structure of its own received protected bytes *)
Theorem gen_sign_verify_every_entry vs ext w sigs :
  cose_SignMessage_Verify vs ext w (Some sigs) = Ok tt ->
  sigs <> [] /\
  Forall (fun s => exists v tbs,
            lookup_prim vs (get_bytes_ (omap (se_unprot s)) 4) = Some v /\ consume_gate (se_prot s) (sg_key v) = true /\
            structure KSign (w_prot w) (Some (se_raw s)) ext (w_payload w) = Ok tbs /\
            sg_verify v tbs (match se_sig s with Some b => b | None => [] end) = true) sigs.
Proof.
  rewrite gen_sign_verify. unfold verify_decoded. destruct vs as [|v0 vr]; [discriminate|].
  destruct sigs as [|s r]; [discriminate|]. intro H. split; [discriminate|]. apply MsgProofs.verify_all_sound, H.
Qed.
