(* Lookup by key id (Verifiers / Signers / KeySet .Lookup) and the per-signature loop of SignMessage.Verify, regenerated
   from the source (Gen/LookupGen.v, translator T15), are the model's lookup_prim / lookup_kid and verify_all. *)
From Coq Require Import String.
From Coq Require Import ZArith List Bool Lia.
From Cose Require Import Lib.Base Lib.Cbor Lib.GoSem Lib.GenTypes Model.GoVal Model.Wire Model.Key Model.MsgLogic Model.Msg Model.HdrSem Gen.LookupGen.
Import ListNotations.
Open Scope Z_scope.

(* ---------------------------------------------------------------- Lookup *)
Lemma lookup_prim_loop id : forall (vs : list sigprim) i,
  go_range_from i vs tt (fun _ v _ => if bytes_eqb (kid (sg_key v)) id then Ok (CRet (Some v)) else Ok (CNext tt))
  = Ok (match lookup_prim vs id with Some v => inr (Some v) | None => inl tt end).
Proof.
  induction vs as [|v r IH]; intro i; cbn [go_range_from lookup_prim]; [reflexivity|].
  destruct (bytes_eqb (kid (sg_key v)) id); [reflexivity|]. apply IH.
Qed.

Theorem gen_verifiers_lookup vs id : key_Verifiers_Lookup vs id = Ok (lookup_prim vs id).
Proof. unfold key_Verifiers_Lookup, go_range. rewrite lookup_prim_loop. cbn [bind]. destruct (lookup_prim vs id); reflexivity. Qed.

Theorem gen_signers_lookup vs id : key_Signers_Lookup vs id = Ok (lookup_prim vs id).
Proof. unfold key_Signers_Lookup, go_range. rewrite lookup_prim_loop. cbn [bind]. destruct (lookup_prim vs id); reflexivity. Qed.

Lemma lookup_kid_loop id : forall (ks : list cosemap) i,
  go_range_from i ks tt (fun _ k _ => if bytes_eqb (kid k) id then Ok (CRet (Some k)) else Ok (CNext tt))
  = Ok (match lookup_kid ks id with Some k => inr (Some k) | None => inl tt end).
Proof.
  induction ks as [|k r IH]; intro i; cbn [go_range_from lookup_kid]; [reflexivity|].
  destruct (bytes_eqb (kid k) id); [reflexivity|]. apply IH.
Qed.

Theorem gen_keyset_lookup ks id : key_KeySet_Lookup ks id = Ok (lookup_kid ks id).
Proof. unfold key_KeySet_Lookup, go_range. rewrite lookup_kid_loop. cbn [bind]. destruct (lookup_kid ks id); reflexivity. Qed.

(* ---------------------------------------------------------------- SignMessage.Verify *)
Definition verify_body (vs : list sigprim) (ext : option bytes) (w : wire) : Z -> sigent -> unit -> res (ctl unit unit) :=
  fun _ sig _ =>
    let kid_ := get_bytes_ (omap (se_unprot sig)) 4 in
    match lookup_prim vs kid_ with
    | Some verifier =>
        do _ <- (if has (se_prot sig) 1 then let alg := get_int_ (se_prot sig) 1 in (if negb (alg =? key_alg (sg_key verifier)) then Err else Ok tt) else Ok tt);
        let protected := Some (se_raw sig) in
        do protected0 <- (if is_none protected then let protected1 := headers_bytes (se_prot sig) in Ok protected1 else Ok protected);
        do sig_toSign <- structure KSign (w_prot w) protected0 ext (w_payload w);
        (if negb (sg_verify verifier sig_toSign (match se_sig sig with Some b => b | None => [] end)) then Err else Ok (CNext tt))
    | _ => Err
    end.

Lemma verify_loop vs ext w : forall (l : list sigent) i,
  go_range_from i l tt (verify_body vs ext w) = match verify_all vs w ext l with Ok _ => Ok (inl tt) | Err => Err | Panic => Panic end.
Proof.
  induction l as [|s r IH]; intro i; cbn [go_range_from verify_all]; [reflexivity|]. unfold verify_body at 1.
  destruct (lookup_prim vs (get_bytes_ (omap (se_unprot s)) 4)) as [v|]; [|reflexivity].
  unfold consume_gate, alg_gate. destruct (has (se_prot s) 1).
  - destruct (get_int_ (se_prot s) 1 =? key_alg (sg_key v)); cbn [negb bind is_none]; [|reflexivity].
    destruct (structure KSign (w_prot w) (Some (se_raw s)) ext (w_payload w)) as [tbs| |]; cbn [bind]; [|reflexivity|reflexivity].
    destruct (sg_verify v tbs _); cbn [negb]; [apply IH|reflexivity].
  - cbn [negb bind is_none].
    destruct (structure KSign (w_prot w) (Some (se_raw s)) ext (w_payload w)) as [tbs| |]; cbn [bind]; [|reflexivity|reflexivity].
    destruct (sg_verify v tbs _); cbn [negb]; [apply IH|reflexivity].
Qed.

(* what sign_consume does once the message is decoded *)
Definition verify_decoded (vs : list sigprim) (ext : option bytes) (w : wire) (sigs : option (list sigent)) : res unit :=
  match vs, sigs with
  | [], _ => Err
  | _, None | _, Some [] => Err
  | _, Some l => verify_all vs w ext l
  end.

Theorem gen_sign_verify vs ext w sigs : cose_SignMessage_Verify vs ext w sigs = verify_decoded vs ext w sigs.
Proof.
  unfold cose_SignMessage_Verify, verify_decoded, go_len.
  destruct vs as [|v0 vr]; [reflexivity|].
  replace (Z.of_nat (length (v0 :: vr)) =? 0) with false by (symmetry; apply Z.eqb_neq; cbn [length]; lia).
  destruct sigs as [l|]; cbn [is_none orb olist]; [|reflexivity].
  destruct l as [|s r]; [reflexivity|].
  replace (Z.of_nat (length (s :: r)) =? 0) with false by (symmetry; apply Z.eqb_neq; cbn [length]; lia).
  unfold go_range. pose proof (verify_loop (v0 :: vr) ext w (s :: r) 0) as H.
  match goal with |- context [go_range_from ?a ?b ?c ?f] =>
    replace (go_range_from a b c f) with (match verify_all (v0 :: vr) w ext (s :: r) with Ok _ => @Ok (unit + unit) (inl tt) | Err => Err | Panic => Panic end) by (symmetry; exact H) end.
  destruct (verify_all (v0 :: vr) w ext (s :: r)) as [[]| |]; reflexivity.
Qed.
