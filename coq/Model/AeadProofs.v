From Coq Require Import String.
From Coq Require Import ZArith NArith List Bool Arith Lia.
From Cose Require Import Lib.Base Lib.GenTypes Lib.Aes Lib.CbcMac Lib.Gcm Lib.ChaChaPoly Spec.RFC3610 Model.CcmGo Model.CcmProofs
     Model.GoVal Model.Key Model.Aead Gen.TablesGen Gen.ShapesGen.
Import ListNotations.
Open Scope list_scope.
Open Scope nat_scope.

(* ---------------------------------------------------------------- the eight AES-CCM algorithms *)
Lemma ccm_params alg : is_ccm alg = true ->
  params_ok (ccm_M alg) (ccm_L alg) /\ ccm_nonce alg = (15 - ccm_L alg)%nat /\ (ccm_M alg = 8%nat \/ ccm_M alg = 16%nat) /\ (ccm_L alg = 2%nat \/ ccm_L alg = 8%nat).
Proof.
  unfold is_ccm, memZ. cbn [existsb]. intro H.
  repeat (apply orb_true_iff in H; destruct H as [H|H]); try discriminate;
    apply Z.eqb_eq in H; subst alg; vm_compute; repeat split; auto; try lia.
Qed.

(* C12 for CCM: Encrypt of the library = RFC 3610 with the registered tag and length-field sizes *)
Theorem ccm_encrypt_is_reference alg key iv pt aad : is_ccm alg = true ->
  length iv = ccm_nonce alg -> (N.of_nat (length pt) <= max_length (ccm_M alg) (ccm_L alg))%N ->
  aead_encrypt alg key iv pt aad = Ok (RFC3610.seal (aes_keyed key) (ccm_M alg) (ccm_L alg) iv pt aad).
Proof.
  intros Hc Hiv Hpt. unfold aead_encrypt. replace (is_gcm alg) with false.
  - rewrite Hc. destruct (ccm_params alg Hc) as (HP & Hn & _).
    apply (ccm_encrypt_is_rfc3610 (aes_keyed key) (aes_keyed_length key) _ _ HP); [congruence|exact Hpt].
  - unfold is_ccm, is_gcm, memZ in *. cbn [existsb] in *.
    repeat (apply orb_true_iff in Hc; destruct Hc as [Hc|Hc]); try discriminate; apply Z.eqb_eq in Hc; subst alg; reflexivity.
Qed.

Theorem ccm_decrypt_is_reference alg key iv ct aad : is_ccm alg = true ->
  length iv = ccm_nonce alg -> (N.of_nat (length ct) <= max_length (ccm_M alg) (ccm_L alg) + N.of_nat (ccm_M alg))%N ->
  aead_decrypt alg key iv ct aad = of_opt (RFC3610.open (aes_keyed key) (ccm_M alg) (ccm_L alg) iv ct aad).
Proof.
  intros Hc Hiv Hct. unfold aead_decrypt. replace (is_gcm alg) with false.
  - rewrite Hc. destruct (ccm_params alg Hc) as (HP & Hn & _). unfold decrypt, nonce_size.
    replace (length iv =? 15 - ccm_L alg) with true by (symmetry; apply Nat.eqb_eq; congruence). cbn [negb].
    rewrite (go_open_is_rfc3610 (aes_keyed key) (aes_keyed_length key) _ _ HP); [|rewrite Hiv; exact Hn|exact Hct].
    destruct (RFC3610.open _ _ _ _ _ _); reflexivity.
  - unfold is_ccm, is_gcm, memZ in *. cbn [existsb] in *.
    repeat (apply orb_true_iff in Hc; destruct Hc as [Hc|Hc]); try discriminate; apply Z.eqb_eq in Hc; subst alg; reflexivity.
Qed.

(* beyond the limit, or with a nonce of another length: an error (never a panic) *)
Theorem ccm_limit_refused alg key iv pt aad : is_ccm alg = true ->
  (max_length (ccm_M alg) (ccm_L alg) < N.of_nat (length pt))%N -> aead_encrypt alg key iv pt aad = Err.
Proof.
  intros Hc H. unfold aead_encrypt. replace (is_gcm alg) with false.
  - rewrite Hc. unfold encrypt. destruct (negb (length iv =? nonce_size (ccm_L alg))); [reflexivity|].
    now replace (max_length (ccm_M alg) (ccm_L alg) <? N.of_nat (length pt))%N with true by (symmetry; apply N.ltb_lt; exact H).
  - unfold is_ccm, is_gcm, memZ in *. cbn [existsb] in *.
    repeat (apply orb_true_iff in Hc; destruct Hc as [Hc|Hc]); try discriminate; apply Z.eqb_eq in Hc; subst alg; reflexivity.
Qed.

Theorem nonce_len_refused alg key iv x aad : (is_gcm alg = true \/ is_ccm alg = true \/ alg = 24%Z) ->
  length iv <> (if is_gcm alg then gcm_nonce else if is_ccm alg then ccm_nonce alg else chacha_nonce) ->
  aead_encrypt alg key iv x aad = Err /\ aead_decrypt alg key iv x aad = Err.
Proof.
  intros H Hl. unfold aead_encrypt, aead_decrypt. destruct (is_gcm alg) eqn:G.
  - replace (Nat.eqb (length iv) gcm_nonce) with false by (symmetry; apply Nat.eqb_neq; exact Hl). split; reflexivity.
  - destruct (is_ccm alg) eqn:Cc.
    + destruct (ccm_params alg Cc) as (_ & Hn & _). apply ccm_nonce_len_refused. congruence.
    + destruct H as [H|[H|H]]; try discriminate. subst alg. cbn [Z.eqb Pos.eqb].
      replace (Nat.eqb (length iv) chacha_nonce) with false by (symmetry; apply Nat.eqb_neq; exact Hl). split; reflexivity.
Qed.

(* the CCM L=2 limit is 65535 bytes, the L=8 one is MaxInt64 - tag *)
Lemma ccm_limits : max_length 8 2 = 65535%N /\ max_length 16 2 = 65535%N /\ max_length 8 8 = 9223372036854775799%N /\ max_length 16 8 = 9223372036854775791%N.
Proof. vm_compute. repeat split; reflexivity. Qed.

(* ---------------------------------------------------------------- encrypt-then-MAC references (GCM, ChaCha20-Poly1305) *)
Section EtM.
  Variable stream : nat -> bytes.                       (* keystream of at least n bytes for argument n *)
  Variable tag : bytes -> bytes.                        (* tag over the ciphertext (and fixed aad) *)
  Hypothesis stream_len : forall n, n <= length (stream n).
  Hypothesis tag_len : forall c, length (tag c) = 16.

  Definition etm_seal (p : bytes) : bytes := let c := xor_bytes_trunc p (stream (length p)) in c ++ tag c.
  Definition etm_open (ct : bytes) : option bytes :=
    if length ct <? 16 then None
    else let c := firstn (length ct - 16) ct in
         let t := skipn (length ct - 16) ct in
         if bytes_eqb t (tag c) then Some (xor_bytes_trunc c (stream (length c))) else None.

  Lemma etm_seal_length p : length (etm_seal p) = length p + 16.
  Proof. unfold etm_seal. rewrite app_length, tag_len, xor_trunc_length. pose proof (stream_len (length p)). lia. Qed.

  Lemma etm_open_seal p : etm_open (etm_seal p) = Some p.
  Proof.
    unfold etm_open. rewrite etm_seal_length. replace (length p + 16 <? 16) with false by (symmetry; apply Nat.ltb_ge; lia).
    replace (length p + 16 - 16) with (length p) by lia. unfold etm_seal.
    set (c := xor_bytes_trunc p (stream (length p))).
    assert (Lc : length c = length p) by (subst c; rewrite xor_trunc_length; pose proof (stream_len (length p)); lia).
    rewrite <- Lc. rewrite firstn_app, Nat.sub_diag, firstn_all, firstn_O, app_nil_r.
    rewrite skipn_app, Nat.sub_diag, skipn_all. cbn [skipn app]. rewrite bytes_eqb_refl, Lc.
    subst c. rewrite xor_trunc_involutive by apply stream_len. reflexivity.
  Qed.

  Lemma etm_open_exact ct p : etm_open ct = Some p -> ct = etm_seal p.
  Proof.
    unfold etm_open. destruct (length ct <? 16) eqn:H; [discriminate|]. apply Nat.ltb_ge in H.
    set (c := firstn (length ct - 16) ct). set (t := skipn (length ct - 16) ct).
    destruct (bytes_eqb t (tag c)) eqn:Ht; [|discriminate]. apply bytes_eqb_eq in Ht. intro Hp. inversion Hp; subst p.
    assert (Lc : length c = length ct - 16) by (subst c; rewrite firstn_length; lia).
    unfold etm_seal. rewrite xor_trunc_length. pose proof (stream_len (length c)).
    replace (Nat.min (length c) (length (stream (length c)))) with (length c) by lia.
    rewrite xor_trunc_involutive by apply stream_len. rewrite <- Ht. subst c t. now rewrite firstn_skipn.
  Qed.
End EtM.

Lemma gctr_stream_length E (E_len : forall b, length (E b) = 16) n : forall c, length (gctr_stream E n c) = 16 * n.
Proof. induction n as [|n IH]; intro c; cbn [gctr_stream]; [reflexivity|]. rewrite app_length, E_len, IH. lia. Qed.

Lemma div16_enough n : n <= 16 * ((n + 15) / 16).
Proof. pose proof (Nat.div_mod (n + 15) 16). pose proof (Nat.mod_upper_bound (n + 15) 16). lia. Qed.

Theorem gcm_open_seal E (E_len : forall b, length (E b) = 16) nonce p a : gcm_open E nonce (gcm_seal E nonce p a) a = Some p.
Proof.
  set (j0 := of_be (nonce ++ [Byte.x00; Byte.x00; Byte.x00; Byte.x01])). set (h := of_be (E zero16)).
  pose (stream := fun n => gctr_stream E ((n + 15) / 16) (inc32 j0)).
  pose (tg := fun c => gcm_tag E h j0 a c).
  assert (SL : forall n, n <= length (stream n)) by (intro n; unfold stream; rewrite (gctr_stream_length E E_len); apply div16_enough).
  assert (TL : forall c, length (tg c) = 16).
  { intro c. unfold tg, gcm_tag. rewrite xor_trunc_length, be_length, E_len. reflexivity. }
  exact (etm_open_seal stream tg SL TL p).
Qed.

Theorem gcm_seal_length E (E_len : forall b, length (E b) = 16) nonce p a : length (gcm_seal E nonce p a) = length p + 16.
Proof.
  unfold gcm_seal. rewrite app_length, xor_trunc_length, (gctr_stream_length E E_len).
  unfold gcm_tag. rewrite xor_trunc_length, be_length, E_len. pose proof (div16_enough (length p)). lia.
Qed.
