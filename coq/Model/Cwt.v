(* Model of cwt/validator.go: NewValidator, Validate, ValidateMap, toTime, with
   Go's time.Time arithmetic written out (truncated division in Add, saturation
   in addSec, the int64 addition inside time.Unix). *)
From Coq Require Import String.
From Coq Require Import ZArith List Bool.
From Cose Require Import Lib.Base Lib.GenTypes Model.GoVal Spec.RFC8392 Gen.ShapesGen.
Import ListNotations.
Open Scope Z_scope.

Definition wrap64 (z : Z) : Z := (z + 9223372036854775808) mod 18446744073709551616 - 9223372036854775808.

Definition is_zero (t : gtime) : bool := (fst t =? 0) && (snd t =? 0).
Definition after (a b : gtime) : bool := (fst a >? fst b) || ((fst a =? fst b) && (snd a >? snd b)).

(* Time.addSec without monotonic reading: saturating *)
Definition sat_add (ext d : Z) : Z :=
  let sum := wrap64 (ext + d) in
  if Bool.eqb (sum >? ext) (d >? 0) then sum else if d >? 0 then MaxI64 else - MaxI64.

(* Time.Add *)
Definition add (t : gtime) (d : Z) : gtime :=
  let dsec := Z.quot d G in
  let ns := snd t + Z.rem d G in
  if ns >=? G then (sat_add (fst t) (dsec + 1), ns - G)
  else if ns <? 0 then (sat_add (fst t) (dsec - 1), ns + G)
  else (sat_add (fst t) dsec, ns).

(* toTime (after the F9 fix): the zero Time for values time.Unix cannot hold *)
Definition to_time (u : Z) : gtime :=
  if u >? MaxI64 - K then (0, 0) else (wrap64 (u + K), 0).

Definition max_skew_minutes : Z :=
  match assoc ShapesGen.int_consts "cwt.cwtMaxClockSkewMinutes" with Some z => z | None => -1 end.

(* NewValidator: Duration.Minutes() > cwtMaxClockSkewMinutes, on the exact value *)
Definition new_validator (o : vopts) : res vopts :=
  if o_skew o >? max_skew_minutes * 60 * G then Err else Ok o.

Definition time_checks (o : vopts) (now : gtime) (exp_present : bool) (exp : Z) (nbf_present : bool) (nbf : Z)
           (iat_checked : bool) (iat : Z) : bool :=
  (if exp_present then after (add (to_time exp) (o_skew o)) now else true)
  && (if nbf_present then negb (is_zero (to_time nbf) || after (to_time nbf) (add now (o_skew o))) else true)
  && (if iat_checked then negb (is_zero (to_time iat) || after (to_time iat) (add now (o_skew o))) else true).

(* Validator.Validate (struct path); true = nil error *)
Definition validate (o : vopts) (now : gtime) (c : claims) : bool :=
  negb ((c_exp c =? 0) && negb (o_allow_missing o))
  && time_checks o now (c_exp c >? 0) (c_exp c) (c_nbf c >? 0) (c_nbf c) ((c_iat c >? 0) && o_iat_past o) (c_iat c)
  && negb (negb (is_empty (o_iss o)) && negb (bytes_eqb (o_iss o) (c_iss c)))
  && negb (negb (is_empty (o_aud o)) && negb (bytes_eqb (o_aud o) (c_aud c))).

(* Validator.ValidateMap, statement by statement; each stage is one `if claims.Has(..) { .. }` block *)
Definition chk (b : bool) : res unit := if b then Ok tt else Err.

Definition exp_stage (o : vopts) (now : gtime) (m : cosemap) : res unit :=
  if has m 4 then
    match get_uint64 m 4 with
    | Ok exp => chk (after (add (to_time exp) (o_skew o)) now)
    | _ => Err
    end
  else Ok tt.

Definition nbf_stage (o : vopts) (now : gtime) (m : cosemap) : res unit :=
  if has m 5 then
    match get_uint64 m 5 with
    | Ok nbf => chk (negb (is_zero (to_time nbf) || after (to_time nbf) (add now (o_skew o))))
    | _ => Err
    end
  else Ok tt.

Definition iat_stage (o : vopts) (now : gtime) (m : cosemap) : res unit :=
  if has m 6 then
    match get_uint64 m 6 with
    | Ok iat => if (iat >? 0) && o_iat_past o
                then chk (negb (is_zero (to_time iat) || after (to_time iat) (add now (o_skew o))))
                else Ok tt
    | _ => Err
    end
  else Ok tt.

Definition text_stage (expected : bytes) (m : cosemap) (l : Z) : res unit :=
  match get_string m l with
  | Ok s => chk (negb (negb (is_empty expected) && negb (bytes_eqb expected s)))
  | _ => Err
  end.

Definition validate_map (o : vopts) (now : gtime) (m : cosemap) : bool :=
  if negb (has m 4) && negb (o_allow_missing o) then false else
  is_ok (do _ <- exp_stage o now m; do _ <- nbf_stage o now m; do _ <- iat_stage o now m;
         do _ <- text_stage (o_iss o) m 1; text_stage (o_aud o) m 3).

(* the map a Claims struct encodes to (omitempty) *)
Definition map_of_claims (c : claims) : cosemap :=
  ((if is_empty (c_iss c) then [] else [(ilabel 1, VStr (c_iss c))])
  ++ (if is_empty (c_aud c) then [] else [(ilabel 3, VStr (c_aud c))])
  ++ (if c_exp c =? 0 then [] else [(ilabel 4, VInt KUint64 (c_exp c))])
  ++ (if c_nbf c =? 0 then [] else [(ilabel 5, VInt KUint64 (c_nbf c))])
  ++ (if c_iat c =? 0 then [] else [(ilabel 6, VInt KUint64 (c_iat c))]))%list.
