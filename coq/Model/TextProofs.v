(* C09 / C17: the text and JSON forms are exact round trips, and decode to the same map as the CBOR form. *)
From Coq Require Import NArith List Bool Lia.
From Coq Require Import Strings.Byte.
From Cose Require Import Lib.Base Lib.Hex Lib.HexProofs Lib.Cbor Model.GoVal Model.CborGo Model.Wire Model.Text.
Import ListNotations.

Theorem bytestr_text_roundtrip b : bytestr_of_text (bytestr_text b) = Ok b.
Proof. unfold bytestr_of_text, bytestr_text. now rewrite hex_dec_enc. Qed.

Lemma hex_digit_not_quote n : (n < 16)%N -> hex_digit n <> quote.
Proof.
  intro H. assert (E : forallb (fun k => negb (byte_eqb (hex_digit (N.of_nat k)) quote)) (seq 0 16) = true) by (vm_compute; reflexivity).
  rewrite forallb_forall in E. specialize (E (N.to_nat n)). rewrite N2Nat.id in E.
  intro Q. assert (In (N.to_nat n) (seq 0 16)) as I by (apply in_seq; lia). specialize (E I). rewrite Q in E. cbn in E. discriminate.
Qed.

Lemma unquote_quoted s : unquote (quote :: s ++ [quote]) = Some s.
Proof. unfold unquote. rewrite rev_app_distr. cbn [rev app]. cbn [byte_eqb]. rewrite rev_involutive. reflexivity. Qed.

Lemma json_not_null b : bytes_eqb (bytestr_json b) json_null = false.
Proof. unfold bytestr_json, json_null. cbn [bytes_eqb]. reflexivity. Qed.

Theorem bytestr_json_roundtrip cur b : bytestr_of_json cur (bytestr_json b) = Ok b.
Proof. unfold bytestr_of_json. rewrite json_not_null. unfold bytestr_json. rewrite unquote_quoted. apply bytestr_text_roundtrip. Qed.

(* the written text determines the bytes: two byte strings with the same text (or JSON) form are equal *)
Theorem bytestr_text_inj a b : bytestr_text a = bytestr_text b -> a = b.
Proof. apply hex_enc_inj. Qed.

Theorem bytestr_json_inj a b : bytestr_json a = bytestr_json b -> a = b.
Proof.
  unfold bytestr_json. intro H. inversion H as [H']. apply app_inj_tail in H'. destruct H' as [H' _]. now apply hex_enc_inj.
Qed.

(* the three forms of a map or key decode alike *)
Theorem cosemap_text_as_cbor m bs : enc_cosemap m = Some bs ->
  exists t, cosemap_text m = Some t /\ cosemap_of_text t = cosemap_of_bytes bs.
Proof.
  intro H. exists (bytestr_text bs). unfold cosemap_text, cosemap_of_text. rewrite H. split; [reflexivity|].
  now rewrite bytestr_text_roundtrip.
Qed.

Theorem cosemap_json_as_cbor m bs : enc_cosemap m = Some bs ->
  exists t, cosemap_json m = Some t /\ cosemap_of_json t = cosemap_of_bytes bs.
Proof.
  intro H. exists (bytestr_json bs). unfold cosemap_json, cosemap_of_json. rewrite H. split; [reflexivity|].
  now rewrite bytestr_json_roundtrip.
Qed.

(* whatever text is accepted re-encodes to its lower-case form: no second text decodes to the same bytes except by case *)
Theorem bytestr_text_canonical t b : bytestr_of_text t = Ok b -> bytestr_text b = map lower t.
Proof. unfold bytestr_of_text, bytestr_text. destruct (hex_dec t) eqn:E; [|discriminate]. intro H; inversion H; subst. now apply hex_enc_dec. Qed.
