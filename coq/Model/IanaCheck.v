(* C20: decision procedure comparing the regenerated constant list with the
   registry snapshot, and its soundness. *)
From Coq Require Import List ZArith String Bool.
From Cose Require Import Lib.GenTypes.
Import ListNotations.
Open Scope Z_scope.

Definition gen_entry := (string * (string * cval))%type.
Definition snap_entry := (string * (string * Z))%type.

Definition assigned (s : list snap_entry) (n : string) : option Z := option_map snd (assoc s n).
Definition registry_of (s : list snap_entry) (n : string) : option string := option_map fst (assoc s n).

Definition value_ok (s : list snap_entry) (e : gen_entry) : bool :=
  match e with
  | (n, (_, CInt v)) => match assigned s n with Some a => Z.eqb v a | None => false end
  | _ => false
  end.

Definition opt_string_eqb (a b : option string) : bool :=
  match a, b with Some x, Some y => String.eqb x y | _, _ => false end.

Definition cval_eqb (a b : cval) : bool :=
  match a, b with CInt x, CInt y => Z.eqb x y | _, _ => false end.

(* two different names of one registry must not carry the same value *)
Definition pair_ok (s : list snap_entry) (e1 e2 : gen_entry) : bool :=
  let '(n1, (_, v1)) := e1 in
  let '(n2, (_, v2)) := e2 in
  if String.eqb n1 n2 then true
  else if opt_string_eqb (registry_of s n1) (registry_of s n2) then negb (cval_eqb v1 v2)
  else true.

Definition check (g : list gen_entry) (s : list snap_entry) : bool :=
  forallb (value_ok s) g && forallb (fun e1 => forallb (pair_ok s e1) g) g.

(* diagnostics for the replay: which entries fail, which pairs collide *)
Definition bad_values (g : list gen_entry) (s : list snap_entry) : list gen_entry :=
  filter (fun e => negb (value_ok s e)) g.
Definition collisions (g : list gen_entry) (s : list snap_entry) : list (gen_entry * gen_entry) :=
  flat_map (fun e1 => map (fun e2 => (e1, e2)) (filter (fun e2 => negb (pair_ok s e1 e2)) g)) g.

(* The property, as a proposition about the two lists. *)
Definition iana_ok (g : list gen_entry) (s : list snap_entry) : Prop :=
  (forall n w v, In (n, (w, v)) g -> exists a, assigned s n = Some a /\ v = CInt a) /\
  (forall n1 w1 v1 n2 w2 v2,
      In (n1, (w1, v1)) g -> In (n2, (w2, v2)) g -> n1 <> n2 ->
      forall r, registry_of s n1 = Some r -> registry_of s n2 = Some r -> v1 <> v2).

Lemma check_sound g s : check g s = true -> iana_ok g s.
Proof.
  unfold check. intro H. apply andb_true_iff in H. destruct H as [Hv Hp].
  rewrite forallb_forall in Hv. rewrite forallb_forall in Hp.
  split.
  - intros n w v Hin. specialize (Hv _ Hin). cbn in Hv.
    destruct v as [z|u]; [|discriminate].
    destruct (assigned s n) as [a|] eqn:Ha; [|discriminate].
    exists a. split; [reflexivity|]. apply Z.eqb_eq in Hv. now subst.
  - intros n1 w1 v1 n2 w2 v2 H1 H2 Hne r Hr1 Hr2 Heq.
    specialize (Hp _ H1). rewrite forallb_forall in Hp. specialize (Hp _ H2).
    cbn in Hp. destruct (String.eqb n1 n2) eqn:En.
    + apply String.eqb_eq in En. contradiction.
    + rewrite Hr1, Hr2 in Hp. cbn in Hp. rewrite String.eqb_refl in Hp.
      subst v2. destruct v1 as [z|u]; cbn in Hp.
      * rewrite Z.eqb_refl in Hp. discriminate.
      * (* an Unrecognized value never passes value_ok, but pair_ok alone does not exclude it *)
        specialize (Hv _ H1). cbn in Hv. discriminate.
Qed.
