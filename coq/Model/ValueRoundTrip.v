(* Value round trip through CBOR (C09, C01): a header / key / claim value written by the encoder and decoded again is
   the same value in the decoder's normal form: integers come back as uint64 (non-negative) or int64 (negative),
   maps in the deterministic order. *)
From Coq Require Import String.
From Coq Require Import NArith ZArith List Arith Lia Bool Permutation.
From Cose Require Import Lib.Base Lib.Cbor Lib.CborProofs Model.GoVal Model.CborGo Model.Wire Model.CborGoProofs Model.Key Model.KeyProofs.
Import ListNotations.
Open Scope Z_scope.

(* ---------------------------------------------------------------- the decoder's normal form *)
Definition nint (z : Z) : gval := if z <? 0 then VInt KInt64 z else VInt KUint64 z.
Definition nlabel (l : label) : label :=
  match l with LInt _ z => if z <? 0 then LInt KInt64 z else LInt KUint64 z | LStr s => LStr s end.
Definition lkey (e : label * gval) : bytes := encode (label_item (fst e)).

Fixpoint normv (v : gval) : gval :=
  match v with
  | VInt _ z => nint z
  | VArr l => VArr (map normv l)
  | VMap m => VMap (isort lkey (map (fun e => (nlabel (fst e), normv (snd e))) m))
  | VInts l | VOps (Some l) => VArr (map nint l)     (* []int and key.Ops come back as []any of integers *)
  | VOps None => VNil                                (* a typed nil key.Ops is written as null *)
  | _ => v
  end.

Definition int64ish (z : Z) : bool := (-9223372036854775808 <=? z) && (z <? 18446744073709551616).
Definition lbl_ok (l : label) : bool := match l with LInt _ z => int64ish z | LStr s => utf8_valid s end.

(* the values header and key maps carry: null, booleans, integers, byte and text strings, integer slices ([]int, key.Ops),
   arrays and nested maps of those *)
Fixpoint hv (v : gval) : bool :=
  match v with
  | VNil | VBool _ | VBytes _ => true
  | VInt _ z => int64ish z
  | VStr s => utf8_valid s
  | VArr l => forallb hv l
  | VMap m => forallb (fun e => lbl_ok (fst e) && hv (snd e)) m
  | VInts l | VOps (Some l) => forallb int64ish l
  | VOps None => true
  | _ => false
  end.

(* ---------------------------------------------------------------- leaves *)
Lemma parse_int z s : int64ish z = true -> parse s (int_item z) = Ok (nint z).
Proof.
  unfold int64ish, int_item, nint. intro H. destruct (z <? 0) eqn:E; cbn [parse].
  - replace (MaxI64N <? Z.to_N (-1 - z))%N with false by (unfold MaxI64N; lia). f_equal. f_equal. lia.
  - f_equal. f_equal. lia.
Qed.

Lemma parse_ints l : forallb int64ish l = true -> parse true (canon (IArr (map int_item l))) = Ok (VArr (map nint l)).
Proof.
  intro H. cbn [canon parse]. rewrite map_map.
  assert (E : parse_elems (parse true) (map (fun z => canon (int_item z)) l) = Ok (map nint l)).
  { induction l as [|z r IH]; cbn [map parse_elems]; [reflexivity|]. cbn [forallb] in H. apply andb_true_iff in H. destruct H as [Hz Hr].
    replace (canon (int_item z)) with (int_item z) by (unfold int_item; destruct (z <? 0); reflexivity).
    rewrite (parse_int z true Hz), (IH Hr). reflexivity. }
  now rewrite E.
Qed.

Definition kval (l : label) : gval := match l with LInt _ z => nint z | LStr s => VStr s end.

Lemma parse_label_item l s : lbl_ok l = true -> parse s (label_item l) = Ok (kval l).
Proof.
  destruct l as [k z|t]; cbn [lbl_ok label_item kval]; intro H; [now apply parse_int|]. cbn [parse]. now rewrite H.
Qed.

Lemma label_of_kval l : label_of (kval l) = Some (nlabel l).
Proof. destruct l as [k z|t]; cbn; [unfold nint; destruct (z <? 0); reflexivity|reflexivity]. Qed.

Lemma hashable_kval l : hashable (kval l) = true.
Proof. destruct l as [k z|t]; cbn; [unfold nint; destruct (z <? 0); reflexivity|reflexivity]. Qed.

Lemma canon_label_item l : canon (label_item l) = label_item l.
Proof. destruct l as [k z|t]; cbn; [unfold int_item; destruct (z <? 0); reflexivity|reflexivity]. Qed.

Lemma label_item_nlabel l : label_item (nlabel l) = label_item l.
Proof. destruct l as [k z|t]; cbn; [destruct (z <? 0); reflexivity|reflexivity]. Qed.

(* equal decoded keys were written by equal bytes *)
Lemma key_eqb_kval l1 l2 : lbl_ok l1 = true -> lbl_ok l2 = true -> key_eqb (kval l1) (kval l2) = true -> label_item l1 = label_item l2.
Proof.
  destruct l1 as [k1 z1|t1]; destruct l2 as [k2 z2|t2]; cbn [kval lbl_ok label_item]; unfold nint; intros H1 H2.
  - destruct (z1 <? 0) eqn:E1; destruct (z2 <? 0) eqn:E2; cbn [key_eqb ikind_eqb andb]; try discriminate; intro H; apply Z.eqb_eq in H; now subst.
  - destruct (z1 <? 0); discriminate.
  - destruct (z2 <? 0); discriminate.
  - cbn [key_eqb]. intro H. apply bytes_eqb_eq in H. now subst.
Qed.

(* ---------------------------------------------------------------- arrays and maps *)
Lemma opt_all_map_some {A B} (f : A -> option B) (l : list A) (out : list B) :
  opt_all (map f l) = Some out -> Forall2 (fun a b => f a = Some b) l out.
Proof.
  revert out. induction l as [|a r IH]; intros out H; cbn [map opt_all] in H.
  - inversion H. constructor.
  - destruct (f a) as [b|] eqn:E; [|discriminate]. destruct (opt_all (map f r)) as [bs|] eqn:R; [|discriminate].
    inversion H; subst. constructor; [exact E|now apply IH].
Qed.

Lemma parse_elems_roundtrip (l : list gval) : forall its,
  Forall2 (fun v it => item_of v = Some it) l its ->
  (forall v it, In v l -> item_of v = Some it -> parse true (canon it) = Ok (normv v)) ->
  parse_elems (parse true) (map canon its) = Ok (map normv l).
Proof.
  induction l as [|v r IH]; intros its F H; inversion F as [|? it ? its' Hv Fr]; subst; cbn [map parse_elems]; [reflexivity|].
  rewrite (H v it (or_introl eq_refl) Hv). rewrite (IH its' Fr) by (intros; eapply H; [now right|eassumption]). reflexivity.
Qed.

(* entries of a map, in the order the encoder wrote them *)
Definition tok (itemv : gval -> item) (e : label * gval) : item * item := (label_item (fst e), itemv (snd e)).
Definition nentry (e : label * gval) : label * gval := (nlabel (fst e), normv (snd e)).
Definition kentry (e : label * gval) : gval * gval := (kval (fst e), normv (snd e)).

Lemma parse_entries_roundtrip (itemv : gval -> item) (M : list (label * gval)) : forall seen,
  (forall e, In e M -> lbl_ok (fst e) = true /\ parse true (canon (itemv (snd e))) = Ok (normv (snd e))) ->
  NoDup (map lkey M) ->
  (forall e k, In e M -> In k seen -> key_eqb (kval (fst e)) k = false) ->
  parse_entries (parse true) (map (fun e => canon2 (tok itemv e)) M) seen = Ok (map kentry M).
Proof.
  induction M as [|[l x] r IH]; intros seen H ND Hs; cbn [map parse_entries]; [reflexivity|].
  destruct (H (l, x) (or_introl eq_refl)) as [Hl Hx]. cbn [fst snd] in Hl, Hx.
  unfold canon2, tok. cbn [fst snd]. rewrite canon_label_item, (parse_label_item l true Hl), hashable_kval. cbn [negb]. rewrite Hx.
  assert (E : existsb (key_eqb (kval l)) seen = false).
  { destruct (existsb (key_eqb (kval l)) seen) eqn:Ex; [|reflexivity]. apply existsb_exists in Ex. destruct Ex as [k [Hk Hkk]].
    pose proof (Hs (l, x) k (or_introl eq_refl) Hk) as Hf. cbn [fst] in Hf. congruence. }
  rewrite E. inversion ND as [|? ? Hn ND']; subst.
  fold (tok itemv). change (fun e : label * gval => (canon (fst (tok itemv e)), canon (snd (tok itemv e)))) with (fun e => canon2 (tok itemv e)).
  rewrite IH; [reflexivity| | exact ND'|].
  - intros e He. apply H. now right.
  - intros e k He [Hk|Hk].
    + subst k. destruct (key_eqb (kval (fst e)) (kval l)) eqn:K; [|reflexivity]. exfalso. apply Hn.
      destruct (H e (or_intror He)) as [Hle _].
      pose proof (key_eqb_kval (fst e) l Hle Hl K) as Eq. apply in_map_iff. exists e. split; [|exact He]. unfold lkey. cbn [fst]. now rewrite Eq.
    + apply Hs; [now right|exact Hk].
Qed.

Lemma labels_of_kentries M : labels_of (map kentry M) = Some (map nentry M).
Proof.
  induction M as [|[l x] r IH]; cbn [map labels_of]; [reflexivity|]. unfold kentry at 1. cbn [fst snd]. rewrite label_of_kval, IH. reflexivity.
Qed.

(* ---------------------------------------------------------------- the theorem *)
Definition itemv (v : gval) : item := match item_of v with Some i => i | None => ISimple 22 end.

Lemma map_entries_items (m : list (label * gval)) kvs :
  opt_all (map (fun e : label * gval => let '(k, x) := e in option_map (fun i => (label_item k, i)) (item_of x)) m) = Some kvs ->
  kvs = map (tok itemv) m /\ forall e, In e m -> item_of (snd e) = Some (itemv (snd e)).
Proof.
  revert kvs. induction m as [|[k x] r IH]; intros kvs H; cbn [map opt_all] in H.
  - inversion H. split; [reflexivity|intros e []].
  - destruct (item_of x) as [i|] eqn:E; cbn [option_map] in H; [|discriminate].
    destruct (opt_all _) as [rest|] eqn:R; [|discriminate]. inversion H; subst. destruct (IH rest eq_refl) as [A B]. split.
    + cbn [map]. unfold tok at 1, itemv. cbn [fst snd]. rewrite E. now rewrite A.
    + intros e [<-|He]; [cbn [snd]; unfold itemv; now rewrite E|now apply B].
Qed.

Theorem value_roundtrip v : forall it, item_of v = Some it -> hv v = true -> kd it = true -> parse true (canon it) = Ok (normv v).
Proof.
  induction v as [v Hleaf|l IH|m IH|n x IH] using gval_ind'; intros it Hi Hh Hk.
  - destruct v; try contradiction; cbn [hv] in Hh; try discriminate; cbn [item_of] in Hi; inversion Hi; subst; cbn [normv canon].
    + reflexivity.
    + destruct b; reflexivity.
    + rewrite <- (parse_int z true Hh). unfold int_item. destruct (z <? 0); reflexivity.
    + reflexivity.
    + cbn [parse]. now rewrite Hh.
    + now apply parse_ints.
    + destruct l as [l|]; cbn [item_of] in *; inversion Hi; subst; cbn [normv]; [now apply parse_ints|reflexivity].
  - cbn [item_of] in Hi. destruct (opt_all (map item_of l)) as [its|] eqn:E; [|discriminate]. inversion Hi; subst it.
    cbn [canon parse normv]. cbn [kd] in Hk. cbn [hv] in Hh. rewrite forallb_forall in Hk, Hh. rewrite Forall_forall in IH.
    pose proof (opt_all_map_some item_of l its E) as F.
    rewrite (parse_elems_roundtrip l its F); [reflexivity|].
    intros v it Hv Hit. apply (IH v Hv it Hit (Hh v Hv)). apply Hk.
    clear - F Hv Hit. induction F as [|a b ra rb Hab Fr IHf]; [destruct Hv|]. destruct Hv as [->|Hv]; [left; congruence|right; now apply IHf].
  - cbn [item_of] in Hi. destruct (opt_all _) as [kvs|] eqn:E; [|discriminate]. inversion Hi; subst it.
    destruct (map_entries_items m kvs E) as [Ekvs Hitems]. subst kvs.
    cbn [kd] in Hk. apply andb_true_iff in Hk. destruct Hk as [Kd Kf]. rewrite forallb_forall in Kf.
    cbn [hv] in Hh. rewrite forallb_forall in Hh. rewrite Forall_forall in IH.
    rewrite canon_map_unfold. cbn [parse normv].
    (* the encoder's order, on the side of the Go value *)
    assert (Ek : forall e, ekey (canon2 (tok itemv e)) = lkey e).
    { intros [l x]. unfold ekey, canon2, tok, lkey. cbn [fst snd]. now rewrite canon_label_item. }
    rewrite map_map.
    rewrite (isort_map (fun e => canon2 (tok itemv e)) ekey).
    rewrite (isort_ext (fun a => ekey (canon2 (tok itemv a))) lkey) by (intros; apply Ek).
    set (M := isort lkey m).
    assert (HM : forall e, In e M -> In e m) by (intros e He; unfold M in He; now apply (proj1 (isort_In lkey e m)) in He).
    assert (Elk : map ekey (map (tok itemv) m) = map lkey m).
    { rewrite map_map. apply map_ext. intros [l x]. reflexivity. }
    rewrite Elk in Kd.
    assert (ND : NoDup (map lkey M)).
    { eapply Permutation_NoDup; [apply Permutation_map; apply isort_perm|]. apply distinct_NoDup. exact Kd. }
    rewrite (parse_entries_roundtrip itemv M []).
    + cbn [wrap_map]. rewrite labels_of_kentries. f_equal. f_equal.
      rewrite (isort_map nentry lkey). unfold M. f_equal. apply isort_ext. intros [l x] _. unfold lkey, nentry. cbn [fst]. now rewrite label_item_nlabel.
    + intros e He. specialize (HM e He). specialize (Hh e HM). apply andb_true_iff in Hh. destruct Hh as [Hl Hx]. split; [exact Hl|].
      apply (IH e HM (itemv (snd e)) (Hitems e HM) Hx).
      specialize (Kf (tok itemv e)). assert (In (tok itemv e) (map (tok itemv) m)) by now apply in_map. specialize (Kf H). apply andb_true_iff in Kf. apply Kf.
    + exact ND.
    + intros e k _ [].
  - cbn [hv] in Hh. discriminate.
Qed.

(* ---------------------------------------------------------------- header / key / claim maps: CoseMap.MarshalCBOR then CoseMap.UnmarshalCBOR *)
Definition checked (l : label) : bool :=
  match l with LInt KInt z => (MinInt32 <=? z) && (z <=? MaxInt32) | LStr _ => true | _ => false end.

Lemma check_label_id l : checked l = true -> check_label l = Ok l.
Proof. destruct l as [k z|s]; cbn [checked check_label]; [destruct k; try discriminate; intro H; now rewrite H|reflexivity]. Qed.

Lemma check_labels_id m : forallb (fun e => checked (fst e)) m = true -> check_labels m = Ok m.
Proof.
  induction m as [|[l v] r IH]; cbn [forallb check_labels fst]; [reflexivity|]. intro H. apply andb_true_iff in H. destruct H as [H1 H2].
  now rewrite (check_label_id l H1), (IH H2).
Qed.

Lemma check_label_nlabel l : checked l = true -> check_label (nlabel l) = Ok l.
Proof.
  destruct l as [k z|s]; cbn [checked nlabel]; [|reflexivity]. destruct k; try discriminate. intro H.
  destruct (z <? 0) eqn:E; cbn [check_label]; [now rewrite H|]. unfold MinInt32, MaxInt32 in *. replace (z <=? 2147483647) with true by lia. reflexivity.
Qed.

Definition ventry (e : label * gval) : label * gval := (fst e, normv (snd e)).

Lemma check_labels_nentry m : forallb (fun e => checked (fst e)) m = true -> check_labels (map nentry m) = Ok (map ventry m).
Proof.
  induction m as [|[l v] r IH]; cbn [forallb map check_labels fst]; [reflexivity|]. intro H. apply andb_true_iff in H. destruct H as [H1 H2].
  unfold nentry at 1. cbn [fst snd]. now rewrite (check_label_nlabel l H1), (IH H2).
Qed.

(* what a header map reads back as: the same labels, values in normal form, in the deterministic order *)
Definition read_back (m : cosemap) : cosemap := map ventry (isort lkey m).

Theorem cosemap_roundtrip m bs :
  forallb (fun e => checked (fst e)) m = true -> hv (VMap m) = true ->
  enc_cosemap m = Some bs ->
  (forall it, item_of (VMap m) = Some it -> encodable it = true) ->
  cosemap_of_bytes bs = Ok (read_back m).
Proof.
  intros Hc Hh He Henc. unfold enc_cosemap in He. rewrite (check_labels_id m Hc) in He.
  destruct (labels_dup m); [discriminate|]. unfold marshal_any in He.
  destruct (item_of (VMap m)) as [it|] eqn:Ei; [|discriminate]. cbn [option_map] in He. inversion He; subst bs.
  specialize (Henc it eq_refl). unfold cosemap_of_bytes, bind. rewrite (decode_encode it Henc).
  assert (Hk : kd it = true) by (apply andb_true_iff in Henc; tauto).
  pose proof (value_roundtrip (VMap m) it Ei Hh Hk) as P.
  (* the item is a map, and stays one in canonical form *)
  cbn [item_of] in Ei. destruct (opt_all _) as [kvs|]; [|discriminate]. inversion Ei; subst it.
  rewrite canon_map_unfold in *. unfold cosemap_of_item, bind. cbn [through_tags]. rewrite P. cbn [normv].
  change (fun e : label * gval => (nlabel (fst e), normv (snd e))) with nentry.
  rewrite (isort_map nentry lkey).
  rewrite (isort_ext (fun a => lkey (nentry a)) lkey) by (intros [l x] _; unfold lkey, nentry; cbn [fst]; now rewrite label_item_nlabel).
  unfold read_back. apply check_labels_nentry.
  rewrite forallb_forall in *. intros e He'. apply Hc. now apply (proj1 (isort_In lkey e m)).
Qed.

(* the accessors read the same from the map that came back *)
Lemma lookup_map_ventry M l : lookup (map ventry M) l = option_map normv (lookup M l).
Proof. induction M as [|[k v] r IH]; cbn [map lookup ventry fst snd]; [reflexivity|]. destruct (label_eqb k l); [reflexivity|exact IH]. Qed.

Lemma lookup_perm (m1 m2 : cosemap) l : Permutation m1 m2 -> NoDup (map fst m1) -> lookup m1 l = lookup m2 l.
Proof.
  intros P. induction P as [|[k v] a b P IH|[k1 v1] [k2 v2] a|a b c P1 IH1 P2 IH2]; intro ND.
  - reflexivity.
  - cbn [lookup]. inversion ND; subst. destruct (label_eqb k l); [reflexivity|now apply IH].
  - cbn [lookup]. cbn [map fst] in ND. inversion ND as [|? ? Hn ND']; subst.
    destruct (label_eqb k2 l) eqn:E2; destruct (label_eqb k1 l) eqn:E1; try reflexivity.
    exfalso. apply Model.KeyProofs.label_eqb_eq in E1. apply Model.KeyProofs.label_eqb_eq in E2. subst. apply Hn. now left.
  - rewrite IH1 by exact ND. apply IH2. eapply Permutation_NoDup; [apply Permutation_map; exact P1|exact ND].
Qed.

Theorem read_back_lookup m l : NoDup (map fst m) -> lookup (read_back m) l = option_map normv (lookup m l).
Proof.
  intro ND. unfold read_back. rewrite lookup_map_ventry. f_equal. symmetry. apply lookup_perm; [apply isort_perm|exact ND].
Qed.

(* integers keep their value; byte strings, text, booleans are unchanged *)
Lemma to_int_normv k z : in_kind k z = true -> to_int (normv (VInt k z)) = to_int (VInt k z).
Proof.
  unfold in_kind, kind_min, kind_max. cbn [normv]. unfold nint. intro H.
  destruct (z <? 0) eqn:E; cbn [to_int is_signed]; destruct k; cbn [is_signed] in *; unfold MinInt32, MaxInt32; try reflexivity;
    try (exfalso; lia);
    repeat match goal with |- context [if ?c then _ else _] => destruct c eqn:? end; try reflexivity; try lia.
Qed.

Definition ints_in_kind (v : gval) : bool := match v with VInt k z => in_kind k z | _ => true end.

Theorem read_back_accessors m l : NoDup (map fst m) -> forallb (fun e => ints_in_kind (snd e)) m = true ->
  get_int (read_back m) l = get_int m l /\ get_bytes (read_back m) l = get_bytes m l
  /\ get_string (read_back m) l = get_string m l /\ get_bool (read_back m) l = get_bool m l /\ has (read_back m) l = has m l.
Proof.
  intros ND Hk. unfold get_int, get_bytes, get_string, get_bool, has. rewrite (read_back_lookup m (ilabel l) ND).
  destruct (lookup m (ilabel l)) as [v|] eqn:E; cbn [option_map]; [|repeat split; reflexivity].
  assert (Hv : ints_in_kind v = true).
  { rewrite forallb_forall in Hk. clear - E Hk. induction m as [|[k x] r IH]; cbn [lookup] in E; [discriminate|].
    destruct (label_eqb k (ilabel l)); [inversion E; subst; apply (Hk (k, v)); now left|]. apply IH; [|exact E]. intros y Hy. apply Hk. now right. }
  destruct v; try match goal with o : option (list Z) |- _ => destruct o end;
    cbn [normv]; repeat split; try reflexivity; try (unfold nint; destruct (z <? 0); reflexivity).
  apply to_int_normv. exact Hv.
Qed.
