(* ECDH as key/ecdh performs it: ECDHer.ECDH = key_ops gate, refusal of a private remote key, KeyToPublic (CheckKey,
   integer decoding of x and y or point decompression, conversion to crypto/ecdh's encoded point), then the curve's
   Diffie-Hellman function. The NIST curve equation and point decompression are computed (Lib/Curves.v); the
   Diffie-Hellman function itself is a parameter. *)
From Coq Require Import String.
From Coq Require Import NArith ZArith List Arith Lia Bool.
From Cose Require Import Lib.Base Lib.GenTypes Lib.BeLemmas Lib.Curves Model.GoVal Model.Key.
Import ListNotations.
Open Scope Z_scope.

(* crypto/ecdh's encoding of a NIST point: 04 || X || Y, each of the field size *)
Definition point_bytes (c : curve) (x y : Z) : bytes := (Byte.x04 :: i2osp (csize c) x ++ i2osp (csize c) y)%list.

(* KeyToPublic(remote): the curve and the encoded point handed to crypto/ecdh *)
Definition remote_point (k : cosemap) : res (Z * bytes) :=
  if negb (check_key_ecdh k) then Err else
  let crv := get_int_ k (-1) in
  let x := get_bytes_ k (-2) in
  if crv =? 4 then (if Nat.eqb (length x) 32 then Ok (4, x) else Err)
  else match curve_of crv with
       | None => Err
       | Some c =>
           match lookup k (ilabel (-3)) with
           | Some (VBytes ((_ :: _) as y)) =>
               if on_curve c (os2ip x) (os2ip y) then Ok (crv, point_bytes c (os2ip x) (os2ip y)) else Err
           | Some (VBytes []) => Err
           | _ =>
               match get_bool k (-3) with
               | Ok b => if Nat.ltb (csize c) (length x) then Err
                         else match decompress c (os2ip x) b with
                              | Some (ix, iy) => Ok (crv, point_bytes c ix iy)
                              | None => Err
                              end
               | _ => Err
               end
           end
       end.

Section WithDH.
  (* PrivateKey.ECDH of crypto/ecdh: curve, private scalar bytes, encoded peer point; errors on low-order X25519 results *)
  Variable dh : Z -> bytes -> bytes -> res bytes.

  (* ECDHer.ECDH(remote), for an ECDHer that NewECDHer built from `local` *)
  Definition ecdh (local remote : cosemap) : res bytes :=
    if negb (empty_or_has (key_ops local) 7 || empty_or_has (key_ops local) 8) then Err
    else if has remote (-4) then Err
    else do p <- remote_point remote;
         let '(rcrv, pt) := p in
         if rcrv =? get_int_ local (-1) then dh rcrv (get_bytes_ local (-4)) pt else Err.
End WithDH.

(* ---------------------------------------------------------------- encoding independence *)
Lemma os2ip_zeros_app n b : os2ip (zeros n ++ b) = os2ip b.
Proof.
  unfold os2ip. f_equal. rewrite of_be_app, of_be_zeros. lia.
Qed.

(* two public keys that differ only in how x and y are written denote the same point *)
Theorem remote_point_integers_only k1 k2 c x1 y1 x2 y2 :
  check_key_ecdh k1 = true -> check_key_ecdh k2 = true ->
  get_int_ k1 (-1) = get_int_ k2 (-1) -> get_int_ k1 (-1) <> 4 -> curve_of (get_int_ k1 (-1)) = Some c ->
  get_bytes_ k1 (-2) = x1 -> get_bytes_ k2 (-2) = x2 ->
  lookup k1 (ilabel (-3)) = Some (VBytes y1) -> lookup k2 (ilabel (-3)) = Some (VBytes y2) -> y1 <> [] -> y2 <> [] ->
  os2ip x1 = os2ip x2 -> os2ip y1 = os2ip y2 ->
  remote_point k1 = remote_point k2.
Proof.
  intros C1 C2 Ec N4 Hc X1 X2 Y1 Y2 N1 N2 Ex Ey. unfold remote_point.
  rewrite C1, C2, <- Ec. cbn [negb]. replace (get_int_ k1 (-1) =? 4) with false by lia.
  rewrite Hc, X1, X2, Y1, Y2. destruct y1 as [|a y1]; [congruence|]. destruct y2 as [|b y2]; [congruence|].
  now rewrite Ex, Ey.
Qed.

Corollary leading_zeros_irrelevant k1 k2 c x y n m :
  check_key_ecdh k1 = true -> check_key_ecdh k2 = true ->
  get_int_ k1 (-1) = get_int_ k2 (-1) -> get_int_ k1 (-1) <> 4 -> curve_of (get_int_ k1 (-1)) = Some c ->
  get_bytes_ k1 (-2) = x -> get_bytes_ k2 (-2) = (zeros n ++ x)%list ->
  lookup k1 (ilabel (-3)) = Some (VBytes y) -> lookup k2 (ilabel (-3)) = Some (VBytes (zeros m ++ y)%list) -> y <> [] ->
  remote_point k1 = remote_point k2.
Proof.
  intros. eapply remote_point_integers_only; eauto.
  - destruct y; [congruence|]. destruct m; discriminate.
  - now rewrite os2ip_zeros_app.
  - now rewrite os2ip_zeros_app.
Qed.

(* the compressed form (x and the sign bit of y) denotes the same point, given that decompression inverts compression *)
Theorem compressed_form_same_point k1 k2 c x y :
  check_key_ecdh k1 = true -> check_key_ecdh k2 = true ->
  get_int_ k1 (-1) = get_int_ k2 (-1) -> get_int_ k1 (-1) <> 4 -> curve_of (get_int_ k1 (-1)) = Some c ->
  get_bytes_ k1 (-2) = x -> get_bytes_ k2 (-2) = x -> (length x <= csize c)%nat ->
  lookup k1 (ilabel (-3)) = Some (VBytes y) -> y <> [] ->
  lookup k2 (ilabel (-3)) = Some (VBool (Z.odd (os2ip y))) ->
  on_curve c (os2ip x) (os2ip y) = true ->
  decompress c (os2ip x) (Z.odd (os2ip y)) = Some (os2ip x, os2ip y) ->
  remote_point k1 = remote_point k2.
Proof.
  intros C1 C2 Ec N4 Hc X1 X2 Lx Y1 Ny Y2 On De. unfold remote_point.
  rewrite C1, C2, <- Ec. cbn [negb]. replace (get_int_ k1 (-1) =? 4) with false by lia.
  rewrite Hc, X1, X2, Y1, Y2. destruct y as [|a y]; [congruence|]. rewrite On.
  unfold get_bool. rewrite Y2. replace (Nat.ltb (csize c) (length x)) with false by (symmetry; apply Nat.ltb_ge; lia).
  now rewrite De.
Qed.

(* ---------------------------------------------------------------- agreement and refusals *)
Section Agreement.
  Variable dh : Z -> bytes -> bytes -> res bytes.

  (* each side computes the same secret, whichever accepted encodings of the public keys are used: it is a function of the
     decoded points only, and the Diffie-Hellman function is symmetric (the group law; a hypothesis about Go's crypto/ecdh) *)
  Theorem agreement la lb pa pb ra rb crv :
    (empty_or_has (key_ops la) 7 || empty_or_has (key_ops la) 8) = true ->
    (empty_or_has (key_ops lb) 7 || empty_or_has (key_ops lb) 8) = true ->
    has pa (-4) = false -> has pb (-4) = false ->
    get_int_ la (-1) = crv -> get_int_ lb (-1) = crv ->
    remote_point pa = Ok (crv, ra) -> remote_point pb = Ok (crv, rb) ->
    dh crv (get_bytes_ la (-4)) rb = dh crv (get_bytes_ lb (-4)) ra ->
    ecdh dh la pb = ecdh dh lb pa.
  Proof.
    intros Oa Ob Ha Hb Ca Cb Ra Rb Sym. unfold ecdh, bind. rewrite Oa, Ob, Ha, Hb, Ra, Rb, Ca, Cb. cbn [negb]. now rewrite Z.eqb_refl.
  Qed.

  Theorem private_remote_refused l r : has r (-4) = true -> ecdh dh l r = Err.
  Proof. intro H. unfold ecdh. destruct (negb _); [reflexivity|]. now rewrite H. Qed.

  Theorem other_curve_refused l r crv pt : remote_point r = Ok (crv, pt) -> crv <> get_int_ l (-1) -> ecdh dh l r = Err.
  Proof.
    intros H N. unfold ecdh, bind. destruct (negb _); [reflexivity|]. destruct (has r (-4)); [reflexivity|]. rewrite H.
    replace (crv =? get_int_ l (-1)) with false by lia. reflexivity.
  Qed.

  Theorem bad_point_refused l r : remote_point r = Err -> ecdh dh l r = Err.
  Proof. intro H. unfold ecdh, bind. destruct (negb _); [reflexivity|]. destruct (has r (-4)); [reflexivity|]. now rewrite H. Qed.

  (* no secret unless the remote key decoded to a point and the primitive returned one *)
  Theorem secret_only_from_primitive l r s : ecdh dh l r = Ok s ->
    exists pt, remote_point r = Ok (get_int_ l (-1), pt) /\ has r (-4) = false /\ dh (get_int_ l (-1)) (get_bytes_ l (-4)) pt = Ok s.
  Proof.
    unfold ecdh, bind. destruct (negb _); [discriminate|]. destruct (has r (-4)); [discriminate|].
    destruct (remote_point r) as [[crv pt]| |]; try discriminate. destruct (crv =? get_int_ l (-1)) eqn:E; [|discriminate].
    apply Z.eqb_eq in E. subst crv. intro H. now exists pt.
  Qed.
End Agreement.

(* a point that does not satisfy the curve equation is refused *)
Theorem off_curve_refused k c x y : check_key_ecdh k = true -> get_int_ k (-1) <> 4 -> curve_of (get_int_ k (-1)) = Some c ->
  get_bytes_ k (-2) = x -> lookup k (ilabel (-3)) = Some (VBytes y) -> on_curve c (os2ip x) (os2ip y) = false -> remote_point k = Err.
Proof.
  intros C N4 Hc X Y On. unfold remote_point. rewrite C. cbn [negb]. replace (get_int_ k (-1) =? 4) with false by lia.
  rewrite Hc, X, Y. destruct y; [reflexivity|]. now rewrite On.
Qed.

(* ---------------------------------------------------------------- correspondence cases *)
Inductive ecdh_case :=
| RemotePoint (k : cosemap) (out : option (Z * bytes))
| OnCurve (crv : Z) (x y : Z) (out : bool)
| Decompress (crv : Z) (x : Z) (odd : bool) (out : option (Z * Z))
| X25519Case (k u out : bytes).

Definition check_ecdh_case (c : ecdh_case) : bool :=
  match c with
  | RemotePoint k out =>
      match remote_point k, out with
      | Ok (crv, pt), Some (crv', pt') => (crv =? crv') && bytes_eqb pt pt'
      | Err, None => true
      | _, _ => false
      end
  | OnCurve crv x y out => match curve_of crv with Some c => Bool.eqb (on_curve c x y) out | None => false end
  | Decompress crv x odd out =>
      match curve_of crv with
      | Some c => match decompress c x odd, out with
                  | Some (a, b), Some (a', b') => (a =? a') && (b =? b')
                  | None, None => true
                  | _, _ => false
                  end
      | None => false
      end
  | X25519Case k u out => bytes_eqb (x25519 k u) out
  end.
