From Coq Require Import String.
From Coq Require Import ZArith List Bool Lia.
From Cose Require Import Lib.Base Lib.GenTypes Model.GoVal Model.Key Model.KeyProofs Model.MsgLogicProofs Model.Dispatch
     Gen.RegistryGen Gen.TablesGen Gen.ShapesGen Spec.RFC9053.
Import ListNotations.
Open Scope Z_scope.

(* ---------------------------------------------------------------- the registry *)

Definition reg5_eqb (a b : string * Z * Z * Z * string) : bool :=
  match a, b with
  | (k1, t1, a1, c1, p1), (k2, t2, a2, c2, p2) => String.eqb k1 k2 && Z.eqb t1 t2 && Z.eqb a1 a2 && Z.eqb c1 c2 && String.eqb p1 p2
  end.
Lemma reg5_eqb_eq a b : reg5_eqb a b = true -> a = b.
Proof.
  destruct a as [[[[k1 t1] a1] c1] p1], b as [[[[k2 t2] a2] c2] p2]. cbn. intro H.
  repeat (apply andb_true_iff in H; destruct H as [H ?]).
  apply String.eqb_eq in H. apply String.eqb_eq in H0. apply Z.eqb_eq in H1, H2, H3. now subst.
Qed.
Definition subset5 (l m : list (string * Z * Z * Z * string)) : bool := forallb (fun x => existsb (reg5_eqb x) m) l.
Lemma subset5_sound l m : subset5 l m = true -> forall x, In x l -> In x m.
Proof.
  unfold subset5. rewrite forallb_forall. intros H x Hx. specialize (H x Hx). apply existsb_exists in H.
  destruct H as [y [Hy E]]. apply reg5_eqb_eq in E. now subst.
Qed.

Definition gen_regs : list (string * Z * Z * Z * string) := map proj_reg RegistryGen.registrations.

(* the registrations found in the source are exactly the 28 the specification lists, all made from init() *)
Theorem registrations_are_spec : forall r, In r gen_regs <-> In r Spec.RFC9053.registrations.
Proof.
  assert (A : subset5 gen_regs Spec.RFC9053.registrations = true) by (vm_compute; reflexivity).
  assert (B : subset5 Spec.RFC9053.registrations gen_regs = true) by (vm_compute; reflexivity).
  intro r. split; [apply (subset5_sound _ _ A) | apply (subset5_sound _ _ B)].
Qed.

Theorem registrations_only_in_init :
  forallb (fun r => match r with (_, _, _, _, _, _, fn) => String.eqb fn "init" end) RegistryGen.registrations = true
  /\ RegistryGen.unrecognized_registrations = [].
Proof. split; vm_compute; reflexivity. Qed.

(* no two registrations of one kind share a triple (a duplicate would panic at start-up) *)
Theorem registrations_distinct :
  NoDup (map (fun r => match r with (kd, t, a, c, _) => (kd, t, a, c) end) gen_regs).
Proof.
  assert (D : forall (l : list (string * Z * Z * Z)),
             (fix nd (l : list (string * Z * Z * Z)) : bool :=
                match l with [] => true | x :: r =>
                  negb (existsb (fun y => match x, y with (k1, t1, a1, c1), (k2, t2, a2, c2) =>
                          String.eqb k1 k2 && Z.eqb t1 t2 && Z.eqb a1 a2 && Z.eqb c1 c2 end) r) && nd r end) l = true -> NoDup l).
  { induction l as [|x r IH]; intro H; constructor.
    - apply andb_true_iff in H. destruct H as [H _]. apply negb_true_iff in H. intro Hin.
      assert (existsb (fun y => match x, y with (k1, t1, a1, c1), (k2, t2, a2, c2) =>
                          String.eqb k1 k2 && Z.eqb t1 t2 && Z.eqb a1 a2 && Z.eqb c1 c2 end) r = true).
      { apply existsb_exists. exists x. split; [exact Hin|]. destruct x as [[[k1 t1] a1] c1].
        now rewrite String.eqb_refl, !Z.eqb_refl. }
      congruence.
    - apply IH. apply andb_true_iff in H. tauto. }
  apply D. vm_compute. reflexivity.
Qed.

(* ---------------------------------------------------------------- dispatch *)

Lemma reg_pkg_in kind t pkg : reg_pkg kind t = Some pkg -> In (kind, fst (fst t), snd (fst t), snd t, pkg) gen_regs.
Proof.
  unfold reg_pkg, gen_regs. generalize RegistryGen.registrations as l.
  induction l as [|r l IH]; cbn [find map]; [discriminate|].
  destruct r as [[[[[[kd rt] ra] rc] f] p] fn].
  destruct (String.eqb kd kind && (rt =? fst (fst t)) && (ra =? snd (fst t)) && (rc =? snd t)) eqn:E.
  - intro H. inversion H; subst. repeat (apply andb_true_iff in E; destruct E as [E ?]).
    apply String.eqb_eq in E. apply Z.eqb_eq in H0, H1, H2. subst. left. reflexivity.
  - intro H. right. now apply IH.
Qed.

(* an implementation is obtained only for a registered (kind, key type, algorithm, curve) *)
Theorem dispatch_registered_only kind k pkg : dispatch kind (Some k) = Some pkg ->
  In (kind, fst (fst (triple k)), snd (fst (triple k)), snd (triple k), pkg) Spec.RFC9053.registrations.
Proof. intro H. apply registrations_are_spec. now apply reg_pkg_in. Qed.

Theorem dispatch_nil_key kind : dispatch kind None = None.
Proof. reflexivity. Qed.

(* the lookup key depends only on key type, algorithm and curve (with the two documented defaults) *)
Theorem triple_depends_only_on k k' :
  kty k = kty k' -> key_alg k = key_alg k' -> get_int_ k (-1) = get_int_ k' (-1) -> triple k = triple k'.
Proof. intros H1 H2 H3. unfold triple. now rewrite H1, H2, H3. Qed.

Theorem triple_defaults k : key_alg k = 0 ->
  triple k = if kty k =? 1 then (1, -8, 6) else if kty k =? 2 then (2, -7, 1) else (kty k, 0, get_int_ k (-1)).
Proof.
  intro H. unfold triple. rewrite H. cbn.
  destruct (kty k =? 1) eqn:E1; [apply Z.eqb_eq in E1; now rewrite E1|].
  destruct (kty k =? 2) eqn:E2; [apply Z.eqb_eq in E2; now rewrite E2|]. reflexivity.
Qed.

Theorem triple_with_alg k : key_alg k <> 0 -> triple k = (kty k, key_alg k, get_int_ k (-1)).
Proof. intro H. unfold triple. apply Z.eqb_neq in H. now rewrite H. Qed.

(* ---------------------------------------------------------------- the implementation obtained realises the key's algorithm *)

Section R.
Variable C : crypto.

Lemma factory_ok_has_alg kind pkg k : factory_ok C kind pkg k = true -> key_alg k <> 0.
Proof.
  unfold factory_ok.
  repeat match goal with |- context [String.eqb pkg ?s] => destruct (String.eqb pkg s) end;
    try (apply checked_sym_key_has_alg); try discriminate.
  - destruct (String.eqb kind "Signer").
    + unfold ecdsa_signer_ok. intro H. apply checked_ecdsa_key_has_alg.
      apply andb_true_iff in H. destruct H as [H _]. apply andb_true_iff in H. tauto.
    + unfold ecdsa_to_public. destruct (check_key_ecdsa k) eqn:E; cbn [negb]; [|discriminate].
      intros _. now apply checked_ecdsa_key_has_alg.
  - destruct (String.eqb kind "Signer").
    + unfold ed_signer_ok. intro H. apply checked_ed_key_has_alg.
      apply andb_true_iff in H. destruct H as [H _]. apply andb_true_iff in H. tauto.
    + unfold ed_to_public. destruct (check_key_ed k) eqn:E; cbn [negb]; [|discriminate].
      intros _. now apply checked_ed_key_has_alg.
Qed.

(* whatever was obtained was registered for exactly the key's own algorithm *)
Theorem impl_realises_alg kind k : obtain C kind k = true ->
  exists pkg, In (kind, kty k, key_alg k, get_int_ k (-1), pkg) Spec.RFC9053.registrations
              /\ factory_ok C kind pkg k = true /\ key_alg k <> 0.
Proof.
  unfold obtain. destruct (dispatch kind (Some k)) as [pkg|] eqn:D; [|discriminate].
  intro F. exists pkg. pose proof (factory_ok_has_alg kind pkg k F) as Ha.
  pose proof (dispatch_registered_only kind k pkg D) as R. rewrite (triple_with_alg k Ha) in R. cbn [fst snd] in R.
  repeat split; assumption.
Qed.

End R.

(* ---------------------------------------------------------------- sizes of what is obtained = RFC 9053 *)

Theorem tables_are_rfc9053 :
  forallb (fun e => (key_size "key/hmac" (fst e) =? fst (snd e)) && (tag_size "key/hmac" (fst e) =? snd (snd e))) hmac_table = true
  /\ forallb (fun e => (key_size "key/aesmac" (fst e) =? fst (snd e)) && (tag_size "key/aesmac" (fst e) =? snd (snd e))) aesmac_table = true
  /\ forallb (fun e => key_size "key/aesgcm" (fst e) =? snd e) aesgcm_table = true
  /\ forallb (fun e => match snd e with (ks, ts, ns) =>
        (key_size "key/aesccm" (fst e) =? ks) && (tag_size "key/aesccm" (fst e) =? ts) && (tcol key_aesccm_getKeySize (fst e) 2 =? ns) end) aesccm_table = true
  /\ forallb (fun e => match snd e with (ks, _, _) => key_size "key/chacha20poly1305" (fst e) =? ks end) chacha_table = true
  /\ forallb (fun e => hash_func (fst e) =? snd e) hmac_hash = true
  /\ forallb (fun e => match snd e with (t, c, h, _) => (hash_func (fst e) =? h) && (crv_alg c =? fst e) end) sig_table = true
  /\ forallb (fun e => match snd e with (_, c, _, _) => if fst e =? -8 then true else ecdsa_crv (fst e) =? c end) sig_table = true.
Proof. repeat split; vm_compute; reflexivity. Qed.

(* an algorithm outside a package's table has no key size: the package's CheckKey refuses it *)
Theorem foreign_alg_refused f k : sym_keysize f (key_alg k) = 0 -> check_key_sym f k = false.
Proof.
  intro H. unfold check_key_sym. rewrite H. cbn [Z.eqb negb andb].
  destruct (get_bytes k (-1)); rewrite ?andb_false_r; reflexivity.
Qed.
