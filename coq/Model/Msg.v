(* The six COSE message kinds of package cose: building the authenticated structures, producing
   (WithSign / Compute / Encrypt + MarshalCBOR) and consuming (UnmarshalCBOR + Verify / Decrypt), over
   abstract primitives. Context strings, prefixes and arities come from the translator. *)
From Coq Require Import String.
From Coq Require Import NArith ZArith List Arith Lia Bool.
From Cose Require Import Lib.Base Lib.GenTypes Lib.Cbor Model.GoVal Model.CborGo Model.Wire Model.Key Model.MsgLogic Model.Nonce
     Gen.ShapesGen Gen.StructsGen.
Import ListNotations.
Open Scope Z_scope.

Inductive kind := KSign1 | KMac0 | KMac | KEnc0 | KEnc | KSign.

Definition kind_name (k : kind) : string :=
  match k with KSign1 => "sign1" | KMac0 => "mac0" | KMac => "mac" | KEnc0 => "encrypt0" | KEnc => "encrypt" | KSign => "sign" end.

Definition to_bytes (l : list Z) : bytes := map (fun z => b8 (Z.to_N z)) l.
Definition byte_var (name : string) : bytes := match assoc ShapesGen.byte_vars name with Some l => to_bytes l | None => [] end.

Definition cwt_prefix : bytes := byte_var "cose.cwtPrefix".
Definition msg_prefix (k : kind) : bytes := byte_var ("cose." ++ kind_name k ++ "MessagePrefix").
(* how many bytes UnmarshalCBOR drops when the prefix matches: the tag head only *)
Definition tag_len (k : kind) : nat := match k with KSign1 | KMac0 | KEnc0 => 1%nat | _ => 2%nat end.
Definition cose_tag (k : kind) : N := match k with KSign1 => 18 | KMac0 => 17 | KMac => 97 | KEnc0 => 16 | KEnc => 96 | KSign => 98 end.
Definition arity (k : kind) : nat := match k with KMac => 5%nat | KEnc0 => 3%nat | _ => 4%nat end.

(* ---------------------------------------------------------------- Sig / MAC / Enc structures *)
Definition builder_name (k : kind) : string :=
  match k with
  | KSign1 => "cose.sign1Message_toSign" | KSign => "cose.signMessage_toSign"
  | KMac0 => "cose.mac0Message_toMac" | KMac => "cose.macMessage_toMac"
  | KEnc0 => "cose.encrypt0Message_toEnc" | KEnc => "cose.encryptMessage_toEnc"
  end.

Definition builder (k : kind) : list selem * bool * string :=
  match assoc StructsGen.structure_builders (builder_name k) with
  | Some b => b
  | None => ([SUnknown "missing"], false, ""%string)
  end.

Fixpoint str_bytes (s : string) : bytes :=
  match s with EmptyString => [] | String a r => b8 (Ascii.N_of_ascii a) :: str_bytes r end.

(* the []any literal handed to key.MustMarshalCBOR; None when the translator met a shape it does not know *)
Definition structure_items (k : kind) (prot : option bytes) (sprot : option bytes) (ext : option bytes) (payload : option bytes)
  : option (list bytes) :=
  let '(elems, defaulted, encoder) := builder k in
  let ext' := match ext with None => if defaulted then Some [] else None | Some e => Some e end in
  if negb (String.eqb encoder "key.MustMarshalCBOR") then None else
  (fix go (l : list selem) : option (list bytes) :=
     match l with
     | [] => Some []
     | e :: r =>
         let this := match e with
                     | SCtx s => Some (encode (ITstr (str_bytes s)))
                     | SField "Protected" => Some (enc_bytes prot)
                     | SField "Payload" => Some (enc_bytes payload)
                     | SParam "external_aad" => Some (enc_bytes ext')
                     | SParam "sign_protected" => Some (enc_bytes sprot)
                     | _ => None
                     end in
         match this, go r with Some x, Some xs => Some (x :: xs) | _, _ => None end
     end) elems.

Definition structure (k : kind) (prot sprot ext payload : option bytes) : res bytes :=
  match structure_items k prot sprot ext payload with
  | Some fs => Ok (enc_array fs)
  | None => Panic            (* unknown builder shape: the model fails closed *)
  end.

(* ---------------------------------------------------------------- primitives (what key.Signer etc. provide) *)
Record sigprim := { sg_key : cosemap; sg_sign : bytes -> res bytes; sg_verify : bytes -> bytes -> bool }.
Record macprim := { mc_key : cosemap; mc_create : bytes -> res bytes; mc_verify : bytes -> bytes -> bool }.
Record encprim := { en_key : cosemap; en_nonce : nat;
                    en_encrypt : bytes -> bytes -> bytes -> res bytes;      (* nonce plaintext aad *)
                    en_decrypt : bytes -> bytes -> bytes -> res bytes }.

(* ---------------------------------------------------------------- wire structures *)
Record wire := { w_prot : option bytes; w_unprot : option cosemap; w_payload : option bytes; w_auth : option bytes;
                 w_extra : option (list (option bytes)) }.     (* signatures / recipients: raw elements *)

Definition enc_headers_field (u : option cosemap) : option bytes :=
  match u with None => Some (encode (ISimple 22)) | Some m => enc_cosemap m end.

(* MarshalCBOR of a single-layer message: tag, then the toarray struct *)
Definition marshal_simple (k : kind) (w : wire) : option bytes :=
  match enc_headers_field (w_unprot w) with
  | Some u =>
      let fields :=
        match k with
        | KEnc0 => [enc_bytes (w_prot w); u; enc_bytes (w_auth w)]
        | _ => [enc_bytes (w_prot w); u; enc_bytes (w_payload w); enc_bytes (w_auth w)]
        end in
      Some (enc_tagged (cose_tag k) (enc_array fields))
  | None => None
  end.

(* UnmarshalCBOR: prefix handling, then the struct *)
Definition strip_prefixes (k : kind) (data : bytes) : bytes :=
  let d1 := if has_prefix cwt_prefix data then skipn 2 data else data in
  if has_prefix (msg_prefix k) d1 then skipn (tag_len k) d1 else d1.

Definition empty_wire : wire := {| w_prot := None; w_unprot := None; w_payload := None; w_auth := None; w_extra := None |}.

Definition unmarshal_wire (k : kind) (data : bytes) : res wire :=
  do fs <- struct_fields (arity k) (strip_prefixes k data);
  match fs with
  | None => Ok empty_wire
  | Some l =>
      match k, l with
      | KEnc0, [p; u; c] =>
          do p' <- fld_bytes p; do u' <- fld_headers u; do c' <- fld_bytes c;
          Ok {| w_prot := p'; w_unprot := Some u'; w_payload := None; w_auth := c'; w_extra := None |}
      | KSign1, [p; u; pl; s] | KMac0, [p; u; pl; s] =>
          do p' <- fld_bytes p; do u' <- fld_headers u; do pl' <- fld_bytes pl; do s' <- fld_bytes s;
          Ok {| w_prot := p'; w_unprot := Some u'; w_payload := pl'; w_auth := s'; w_extra := None |}
      | KSign, [p; u; pl; sigs] =>
          do p' <- fld_bytes p; do u' <- fld_headers u; do pl' <- fld_bytes pl; do x <- ptr_elems sigs;
          Ok {| w_prot := p'; w_unprot := Some u'; w_payload := pl'; w_auth := None; w_extra := x |}
      | KEnc, [p; u; c; rs] =>
          do p' <- fld_bytes p; do u' <- fld_headers u; do c' <- fld_bytes c; do x <- ptr_elems rs;
          Ok {| w_prot := p'; w_unprot := Some u'; w_payload := None; w_auth := c'; w_extra := x |}
      | KMac, [p; u; pl; t; rs] =>
          do p' <- fld_bytes p; do u' <- fld_headers u; do pl' <- fld_bytes pl; do t' <- fld_bytes t; do x <- ptr_elems rs;
          Ok {| w_prot := p'; w_unprot := Some u'; w_payload := pl'; w_auth := t'; w_extra := x |}
      | _, _ => Err
      end
  end.

(* what a decoded message exposes *)
Record view := { v_prot : cosemap; v_unprot : option cosemap; v_payload : option bytes }.

(* ---------------------------------------------------------------- Sign1 *)
Definition sign1_produce (p : sigprim) (prot unprot : option cosemap) (payload ext : option bytes) : res bytes :=
  do prot' <- prepare_protected prot (sg_key p);
  let unprot' := prepare_unprotected unprot (sg_key p) in
  match headers_bytes prot' with
  | None => Err
  | Some pb =>
      do tbs <- structure KSign1 (Some pb) None ext payload;
      do sig <- sg_sign p tbs;
      match marshal_simple KSign1 {| w_prot := Some pb; w_unprot := Some unprot'; w_payload := payload; w_auth := Some sig; w_extra := None |} with
      | Some b => Ok b
      | None => Err
      end
  end.

(* the typed payload: T = []byte / cbor.RawMessage keep the bytes; any other T (pany) decodes them *)
Definition payload_ok (pany : bool) (b : option bytes) : res (option bytes) :=
  match b with
  | Some ((_ :: _) as x) => if pany then (do _ <- unmarshal_any x; Ok (Some x)) else Ok (Some x)
  | _ => Ok None
  end.

Definition decoded_view (pany : bool) (w : wire) : res view :=
  do prot <- headers_from_bytes (w_prot w);
  do pl <- payload_ok pany (w_payload w);
  Ok {| v_prot := prot; v_unprot := w_unprot w; v_payload := pl |}.

Definition sign1_consume (pany : bool) (p : sigprim) (data : bytes) (ext : option bytes) : res view :=
  do w <- unmarshal_wire KSign1 data;
  do v <- decoded_view pany w;
  match w_auth w with
  | None => Err
  | Some sig =>
      if negb (consume_gate (v_prot v) (sg_key p)) then Err
      else do tbs <- structure KSign1 (w_prot w) None ext (w_payload w);
           if sg_verify p tbs sig then Ok v else Err
  end.

(* ---------------------------------------------------------------- Mac0 *)
Definition mac0_produce (p : macprim) (prot unprot : option cosemap) (payload ext : option bytes) : res bytes :=
  do prot' <- prepare_protected prot (mc_key p);
  let unprot' := prepare_unprotected unprot (mc_key p) in
  match headers_bytes prot' with
  | None => Err
  | Some pb =>
      do tbm <- structure KMac0 (Some pb) None ext payload;
      do tag <- mc_create p tbm;
      match marshal_simple KMac0 {| w_prot := Some pb; w_unprot := Some unprot'; w_payload := payload; w_auth := Some tag; w_extra := None |} with
      | Some b => Ok b
      | None => Err
      end
  end.

Definition mac0_consume (pany : bool) (p : macprim) (data : bytes) (ext : option bytes) : res view :=
  do w <- unmarshal_wire KMac0 data;
  do v <- decoded_view pany w;
  match w_auth w with
  | None => Err
  | Some tag =>
      if negb (consume_gate (v_prot v) (mc_key p)) then Err
      else do tbm <- structure KMac0 (w_prot w) None ext (w_payload w);
           if mc_verify p tbm tag then Ok v else Err
  end.

(* ---------------------------------------------------------------- Encrypt0 *)
Definition enc0_produce (p : encprim) (prot unprot : option cosemap) (payload ext : option bytes) (draw : bytes) : res bytes :=
  do prot' <- prepare_protected prot (en_key p);
  let unprot0 := prepare_unprotected unprot (en_key p) in
  do nu <- choose_nonce unprot0 (en_key p) (en_nonce p) draw;
  let '(nonce, unprot') := nu in
  match headers_bytes prot' with
  | None => Err
  | Some pb =>
      do aad <- structure KEnc0 (Some pb) None ext None;
      do ct <- en_encrypt p nonce (match payload with Some b => b | None => [] end) aad;
      match marshal_simple KEnc0 {| w_prot := Some pb; w_unprot := Some unprot'; w_payload := None; w_auth := Some ct; w_extra := None |} with
      | Some b => Ok b
      | None => Err
      end
  end.

Definition enc0_consume (pany : bool) (p : encprim) (data : bytes) (ext : option bytes) : res view :=
  do w <- unmarshal_wire KEnc0 data;
  do prot <- headers_from_bytes (w_prot w);
  match w_auth w with
  | None => Err
  | Some ct =>
      if negb (consume_gate prot (en_key p)) then Err
      else do aad <- structure KEnc0 (w_prot w) None ext None;
           do nonce <- derive_nonce (match w_unprot w with Some u => u | None => [] end) (en_key p) (en_nonce p);
           do pt <- en_decrypt p nonce ct aad;
           do pl <- payload_ok pany (Some pt);
           Ok {| v_prot := prot; v_unprot := w_unprot w; v_payload := pl |}
  end.

(* ---------------------------------------------------------------- recipients *)
Record rleaf := { rl_prot : option cosemap; rl_unprot : option cosemap; rl_ct : option bytes }.
Record recip := { rc_leaf : rleaf; rc_subs : list rleaf }.

Definition omap (m : option cosemap) : cosemap := match m with Some x => x | None => [] end.

Definition rleaf_fields (r : rleaf) : option (list bytes) :=
  match headers_bytes (omap (rl_prot r)), enc_cosemap (omap (rl_unprot r)) with
  | Some pb, Some u => Some [enc_bytes (Some pb); u; enc_bytes (rl_ct r)]
  | _, _ => None
  end.

Fixpoint all_some {A} (l : list (option A)) : option (list A) :=
  match l with
  | [] => Some []
  | Some x :: r => match all_some r with Some xs => Some (x :: xs) | None => None end
  | None :: _ => None
  end.

Definition marshal_rleaf (r : rleaf) : option bytes := option_map enc_array (rleaf_fields r).

Definition marshal_recip (r : recip) : option bytes :=
  match rleaf_fields (rc_leaf r) with
  | Some fs =>
      match rc_subs r with
      | [] => Some (enc_array fs)
      | subs => match all_some (map marshal_rleaf subs) with
                | Some ss => Some (enc_array (fs ++ [enc_array ss]))
                | None => None
                end
      end
  | None => None
  end.

Definition first_is (b : Byte.byte) (raw : bytes) : bool :=
  match raw with x :: _ => byte_eqb x b | [] => false end.

Definition leaf_of_fields (l : list bytes) : res rleaf :=
  match l with
  | p :: u :: c :: _ =>
      do p' <- fld_bytes p; do u' <- fld_headers u; do c' <- fld_bytes c;
      do prot <- headers_from_bytes p';
      Ok {| rl_prot := Some prot; rl_unprot := Some u'; rl_ct := c' |}
  | _ => Err
  end.

(* Recipient.UnmarshalCBOR below the top level: a nested recipient that itself nests is refused *)
Definition rleaf_decode (raw : bytes) : res rleaf :=
  if first_is Byte.x83 raw then
    do fs <- struct_fields 3 raw;
    match fs with Some l => leaf_of_fields l | None => Err end
  else Err.

Fixpoint res_all {A} (l : list (res A)) : res (list A) :=
  match l with
  | [] => Ok []
  | x :: r => match x, res_all r with
              | Ok a, Ok rs => Ok (a :: rs)
              | Panic, _ | _, Panic => Panic
              | _, _ => Err
              end
  end.

Definition recip_decode (raw : bytes) : res recip :=
  if first_is Byte.x83 raw then
    do l <- rleaf_decode raw; Ok {| rc_leaf := l; rc_subs := [] |}
  else if first_is Byte.x84 raw then
    do fs <- struct_fields 4 raw;
    match fs with
    | Some ((p :: u :: c :: rs :: _) as l) =>
        do leaf <- leaf_of_fields l;
        do es <- ptr_elems rs;
        match es with
        | None | Some [] => Err
        | Some elems =>
            match all_some elems with
            | None => Err
            | Some raws => do subs <- res_all (map rleaf_decode raws); Ok {| rc_leaf := leaf; rc_subs := subs |}
            end
        end
    | _ => Err
    end
  else Err.

Definition recips_decode (x : option (list (option bytes))) : res (list recip) :=
  match x with
  | None | Some [] => Err                       (* no recipients *)
  | Some elems => match all_some elems with
                  | None => Err                 (* nil Recipient *)
                  | Some raws => res_all (map recip_decode raws)
                  end
  end.

Definition enc_recips (rs : list recip) : option bytes :=
  match rs with
  | [] => None                                  (* MarshalCBOR: no recipients *)
  | _ => option_map enc_array (all_some (map marshal_recip rs))
  end.

(* ---------------------------------------------------------------- Mac *)
Definition mac_produce (p : macprim) (prot unprot : option cosemap) (payload ext : option bytes) (rs : list recip) : res bytes :=
  do prot' <- prepare_protected prot (mc_key p);
  let unprot' := prepare_unprotected unprot (mc_key p) in
  match headers_bytes prot' with
  | None => Err
  | Some pb =>
      do tbm <- structure KMac (Some pb) None ext payload;
      do tag <- mc_create p tbm;
      match enc_cosemap unprot', enc_recips rs with
      | Some u, Some r =>
          Ok (enc_tagged (cose_tag KMac) (enc_array [enc_bytes (Some pb); u; enc_bytes payload; enc_bytes (Some tag); r]))
      | _, _ => Err
      end
  end.

Definition mac_consume (pany : bool) (p : macprim) (data : bytes) (ext : option bytes) : res (view * list recip) :=
  do w <- unmarshal_wire KMac data;
  do rs <- recips_decode (w_extra w);
  do v <- decoded_view pany w;
  match w_auth w with
  | None => Err
  | Some tag =>
      if negb (consume_gate (v_prot v) (mc_key p)) then Err
      else do tbm <- structure KMac (w_prot w) None ext (w_payload w);
           if mc_verify p tbm tag then Ok (v, rs) else Err
  end.

(* ---------------------------------------------------------------- Encrypt *)
Definition enc_produce (p : encprim) (prot unprot : option cosemap) (payload ext : option bytes) (draw : bytes) (rs : list recip) : res bytes :=
  do prot' <- prepare_protected prot (en_key p);
  let unprot0 := prepare_unprotected unprot (en_key p) in
  do nu <- choose_nonce unprot0 (en_key p) (en_nonce p) draw;
  let '(nonce, unprot') := nu in
  match headers_bytes prot' with
  | None => Err
  | Some pb =>
      do aad <- structure KEnc (Some pb) None ext None;
      do ct <- en_encrypt p nonce (match payload with Some b => b | None => [] end) aad;
      match enc_cosemap unprot', enc_recips rs with
      | Some u, Some r => Ok (enc_tagged (cose_tag KEnc) (enc_array [enc_bytes (Some pb); u; enc_bytes (Some ct); r]))
      | _, _ => Err
      end
  end.

Definition enc_consume (pany : bool) (p : encprim) (data : bytes) (ext : option bytes) : res (view * list recip) :=
  do w <- unmarshal_wire KEnc data;
  do rs <- recips_decode (w_extra w);
  do prot <- headers_from_bytes (w_prot w);
  match w_auth w with
  | None => Err
  | Some ct =>
      if negb (consume_gate prot (en_key p)) then Err
      else do aad <- structure KEnc (w_prot w) None ext None;
           do nonce <- derive_nonce (omap (w_unprot w)) (en_key p) (en_nonce p);
           do pt <- en_decrypt p nonce ct aad;
           do pl <- payload_ok pany (Some pt);
           Ok ({| v_prot := prot; v_unprot := w_unprot w; v_payload := pl |}, rs)
  end.

(* ---------------------------------------------------------------- Sign *)
Record sigent := { se_prot : cosemap; se_raw : bytes; se_unprot : option cosemap; se_sig : option bytes }.

(* one entry as SignMessage.WithSign builds it: the two buckets (None = a nil map) and the signature *)
Record sigout := mk_sigout { so_prot : option cosemap; so_unprot : option cosemap; so_sig : bytes }.

Definition sig_decode (raw : bytes) : res sigent :=
  do fs <- struct_fields 3 raw;
  match fs with
  | None => Ok {| se_prot := []; se_raw := []; se_unprot := None; se_sig := None |}
  | Some [p; u; s] =>
      do p' <- fld_bytes p; do u' <- fld_headers u; do s' <- fld_bytes s;
      do prot <- headers_from_bytes p';
      Ok {| se_prot := prot; se_raw := match p' with Some b => b | None => [] end; se_unprot := Some u'; se_sig := s' |}
  | Some _ => Err
  end.

Definition sigs_decode (x : option (list (option bytes))) : res (option (list sigent)) :=
  match x with
  | None => Ok None
  | Some elems => match all_some elems with
                  | None => Err                 (* nil Signature *)
                  | Some raws => do l <- res_all (map sig_decode raws); Ok (Some l)
                  end
  end.

Fixpoint sign_all (ps : list sigprim) (pb : bytes) (ext payload : option bytes) : res (list bytes) :=
  match ps with
  | [] => Ok []
  | p :: r =>
      match headers_bytes (signer_protected (sg_key p)), enc_cosemap (signer_unprotected (sg_key p)) with
      | Some sp, Some su =>
          do tbs <- structure KSign (Some pb) (Some sp) ext payload;
          do sig <- sg_sign p tbs;
          do rest <- sign_all r pb ext payload;
          Ok (enc_array [enc_bytes (Some sp); su; enc_bytes (Some sig)] :: rest)
      | _, _ => Err
      end
  end.

Definition sign_produce (ps : list sigprim) (prot unprot : option cosemap) (payload ext : option bytes) : res bytes :=
  match ps with
  | [] => Err
  | _ =>
      match headers_bytes (omap prot), enc_cosemap (omap unprot) with
      | Some pb, Some u =>
          do sigs <- sign_all ps pb ext payload;
          Ok (enc_tagged (cose_tag KSign) (enc_array [enc_bytes (Some pb); u; enc_bytes payload; enc_array sigs]))
      | None, _ => Err
      | Some pb, None => do _ <- sign_all ps pb ext payload; Err
      end
  end.

Fixpoint lookup_prim (vs : list sigprim) (id : bytes) : option sigprim :=
  match vs with
  | [] => None
  | v :: r => if bytes_eqb (kid (sg_key v)) id then Some v else lookup_prim r id
  end.

Fixpoint verify_all (vs : list sigprim) (w : wire) (ext : option bytes) (sigs : list sigent) : res unit :=
  match sigs with
  | [] => Ok tt
  | s :: r =>
      match lookup_prim vs (get_bytes_ (omap (se_unprot s)) 4) with
      | None => Err
      | Some v =>
          if negb (consume_gate (se_prot s) (sg_key v)) then Err
          else do tbs <- structure KSign (w_prot w) (Some (se_raw s)) ext (w_payload w);
               if sg_verify v tbs (match se_sig s with Some b => b | None => [] end) then verify_all vs w ext r else Err
      end
  end.

Definition sign_consume (pany : bool) (vs : list sigprim) (data : bytes) (ext : option bytes) : res (view * list sigent) :=
  do w <- unmarshal_wire KSign data;
  do sigs <- sigs_decode (w_extra w);
  do v <- decoded_view pany w;
  match vs, sigs with
  | [], _ => Err
  | _, None | _, Some [] => Err
  | _, Some l => do _ <- verify_all vs w ext l; Ok (v, l)
  end.

(* ---------------------------------------------------------------- re-encoding a decoded message (MarshalCBOR after UnmarshalCBOR) *)
Definition remarshal_recips (k : kind) (w : wire) : res (option bytes) :=
  match k with
  | KMac | KEnc => do rs <- recips_decode (w_extra w); Ok (enc_recips rs)
  | _ => Ok (Some [])
  end.

Definition sigent_marshal (s : sigent) : option bytes :=
  match se_sig s, enc_headers_field (se_unprot s) with
  | Some sg, Some u => Some (enc_array [enc_bytes (Some (se_raw s)); u; enc_bytes (Some sg)])
  | _, _ => None
  end.

Definition reencode (k : kind) (data : bytes) : res bytes :=
  do w <- unmarshal_wire k data;
  do _ <- decoded_view false w;
  match enc_headers_field (w_unprot w) with
  | None => Err
  | Some u =>
    match k with
    | KSign1 | KMac0 | KEnc0 =>
        match w_auth w, marshal_simple k w with
        | Some _, Some b => Ok b
        | _, _ => Err
        end
    | KSign =>
        do sigs <- sigs_decode (w_extra w);
        match sigs with
        | None => Err
        | Some l => match all_some (map sigent_marshal l) with
                    | Some ss => Ok (enc_tagged (cose_tag k) (enc_array [enc_bytes (w_prot w); u; enc_bytes (w_payload w); enc_array ss]))
                    | None => Err
                    end
        end
    | KMac =>
        do rs <- recips_decode (w_extra w);
        match w_auth w, enc_recips rs with
        | Some _, Some r => Ok (enc_tagged (cose_tag k) (enc_array [enc_bytes (w_prot w); u; enc_bytes (w_payload w); enc_bytes (w_auth w); r]))
        | _, _ => Err
        end
    | KEnc =>
        do rs <- recips_decode (w_extra w);
        match w_auth w, enc_recips rs with
        | Some _, Some r => Ok (enc_tagged (cose_tag k) (enc_array [enc_bytes (w_prot w); u; enc_bytes (w_auth w); r]))
        | _, _ => Err
        end
    end
  end.

(* RemoveCBORTag *)
Definition remove_cbor_tag (data : bytes) : bytes :=
  let d1 := if has_prefix cwt_prefix data then skipn 2 data else data in
  if has_prefix (msg_prefix KSign1) d1 || has_prefix (msg_prefix KMac0) d1 || has_prefix (msg_prefix KEnc0) d1 then skipn 1 d1
  else if has_prefix (msg_prefix KSign) d1 || has_prefix (msg_prefix KMac) d1 || has_prefix (msg_prefix KEnc) d1 then skipn 2 d1
  else d1.

(* ---------------------------------------------------------------- COSE_KDF_Context *)
Record party := { pi_identity : option bytes; pi_nonce : option bytes; pi_other : option bytes }.
Record supp_pub := { sp_len : Z; sp_prot : option cosemap; sp_other : option bytes }.
Record kdf_ctx := { kc_alg : Z; kc_u : party; kc_v : party; kc_pub : supp_pub; kc_priv : option bytes }.

Definition enc_party (p : party) : bytes := enc_array [enc_bytes (pi_identity p); enc_bytes (pi_nonce p); enc_bytes (pi_other p)].
Definition enc_supp_pub (s : supp_pub) : option bytes :=
  match headers_bytes (omap (sp_prot s)) with
  | Some pb =>
      Some (enc_array ([encode (int_item (sp_len s)); enc_bytes (Some pb)]
                       ++ match sp_other s with Some o => [enc_bytes (Some o)] | None => [] end))
  | None => None
  end.
Definition enc_kdf_ctx (c : kdf_ctx) : option bytes :=
  match enc_supp_pub (kc_pub c) with
  | Some sp =>
      Some (enc_array ([encode (int_item (kc_alg c)); enc_party (kc_u c); enc_party (kc_v c); sp]
                       ++ match kc_priv c with Some o => [enc_bytes (Some o)] | None => [] end))
  | None => None
  end.

Definition dec_party (raw : bytes) : res party :=
  do fs <- struct_fields 3 raw;
  match fs with
  | None => Ok {| pi_identity := None; pi_nonce := None; pi_other := None |}
  | Some [a; b; c] => do a' <- fld_bytes a; do b' <- fld_bytes b; do c' <- fld_bytes c;
                      Ok {| pi_identity := a'; pi_nonce := b'; pi_other := c' |}
  | Some _ => Err
  end.

Definition dec_supp_pub (raw0 : bytes) : res supp_pub :=
  let raw := strip_sd 70 raw0 in
  if first_is Byte.x82 raw then
    do fs <- struct_fields 2 raw;
    match fs with
    | Some [l; p] => do l' <- fld_uint l; do p' <- fld_bytes p; do prot <- headers_from_bytes p';
                     Ok {| sp_len := l'; sp_prot := Some prot; sp_other := None |}
    | _ => Err
    end
  else if first_is Byte.x83 raw then
    do fs <- struct_fields 3 raw;
    match fs with
    | Some [l; p; o] => do l' <- fld_uint l; do p' <- fld_bytes p; do o' <- fld_bytes o; do prot <- headers_from_bytes p';
                        Ok {| sp_len := l'; sp_prot := Some prot; sp_other := o' |}
    | _ => Err
    end
  else Err.

Definition dec_kdf_ctx (raw0 : bytes) : res kdf_ctx :=
  let raw := strip_sd 70 raw0 in
  if first_is Byte.x84 raw then
    do fs <- struct_fields 4 raw;
    match fs with
    | Some [a; u; v; s] => do a' <- fld_int a; do u' <- dec_party u; do v' <- dec_party v; do s' <- dec_supp_pub s;
                           Ok {| kc_alg := a'; kc_u := u'; kc_v := v'; kc_pub := s'; kc_priv := None |}
    | _ => Err
    end
  else if first_is Byte.x85 raw then
    do fs <- struct_fields 5 raw;
    match fs with
    | Some [a; u; v; s; pr] => do a' <- fld_int a; do u' <- dec_party u; do v' <- dec_party v; do s' <- dec_supp_pub s; do pr' <- fld_bytes pr;
                               Ok {| kc_alg := a'; kc_u := u'; kc_v := v'; kc_pub := s'; kc_priv := pr' |}
    | _ => Err
    end
  else Err.
