(* ECDSA / EdDSA signing and verification as key/ecdsa and key/ed25519 perform them around Go's primitives:
   hash selection, the fixed-length r || s codec (EncodeSignature / DecodeSignature), and the checks before the primitive. *)
From Coq Require Import String.
From Coq Require Import NArith ZArith List Arith Lia Bool.
From Coq Require Import ZifyBool ZifyNat ZifyN.
From Cose Require Import Lib.Base Lib.GenTypes Lib.BeLemmas Lib.Sha2 Model.GoVal Model.Key Gen.TablesGen.
Import ListNotations.
Open Scope Z_scope.

(* bytes of the group order: (N.BitLen() + 7) / 8 for P-256 / P-384 / P-521 *)
Definition order_size (crv : Z) : nat := crv_size crv.

Definition pow256 (n : nat) : Z := Z.of_N (256 ^ N.of_nat n).

(* i2osp of ecdsa.go: negative or too large is an error *)
Definition i2osp_chk (n : nat) (x : Z) : res bytes :=
  if x <? 0 then Err else if pow256 n <=? x then Err else Ok (i2osp n x).

Definition encode_sig (n : nat) (r s : Z) : res bytes :=
  match i2osp_chk n r, i2osp_chk n s with
  | Ok a, Ok b => Ok (a ++ b)%list
  | _, _ => Err
  end.

Definition decode_sig (n : nat) (sig : bytes) : res (Z * Z) :=
  if Nat.eqb (length sig) (2 * n) then Ok (os2ip (firstn n sig), os2ip (skipn n sig)) else Err.

(* key.ComputeHash with the hash the algorithm table selects (crypto.Hash numbers: 5 SHA-256, 6 SHA-384, 7 SHA-512) *)
Definition compute_hash (h : Z) (msg : bytes) : res bytes :=
  if h =? 5 then Ok (sha256 msg) else if h =? 6 then Ok (sha384 msg) else if h =? 7 then Ok (sha512 msg) else Err.

Section WithPrimitive.
  (* crypto/ecdsa: Sign (with the randomness it draws) and Verify, on integers *)
  Variable prim_sign : Z -> bytes -> bytes -> bytes -> Z * Z.          (* crv, d, digest, randomness *)
  Variable prim_verify : Z -> Z * Z -> bytes -> Z -> Z -> bool.        (* crv, public point, digest, r, s *)

  Definition ecdsa_sign (alg : Z) (d rnd msg : bytes) : res bytes :=
    let crv := ecdsa_crv alg in
    do h <- compute_hash (hash_func alg) msg;
    let '(r, s) := prim_sign crv d h rnd in
    encode_sig (order_size crv) r s.

  Definition ecdsa_verify (alg : Z) (pub : Z * Z) (msg sig : bytes) : bool :=
    let crv := ecdsa_crv alg in
    match compute_hash (hash_func alg) msg with
    | Ok h => match decode_sig (order_size crv) sig with
              | Ok (r, s) => prim_verify crv pub h r s
              | _ => false
              end
    | _ => false
    end.
End WithPrimitive.

(* ---------------------------------------------------------------- the codec *)
Lemma i2osp_length n x : length (i2osp n x) = n.
Proof. unfold i2osp. apply be_length. Qed.

Lemma os2ip_i2osp n x : 0 <= x < pow256 n -> os2ip (i2osp n x) = x.
Proof.
  intros [H0 H1]. unfold os2ip, i2osp, pow256 in *. rewrite of_be_be. rewrite N.mod_small; lia.
Qed.

Lemma i2osp_os2ip b : i2osp (length b) (os2ip b) = b.
Proof. unfold i2osp, os2ip. rewrite N2Z.id. apply be_of_be. Qed.

Lemma os2ip_bound b : 0 <= os2ip b < pow256 (length b).
Proof. unfold os2ip, pow256. pose proof (of_be_lt b). lia. Qed.

Theorem encode_sig_length n r s sig : encode_sig n r s = Ok sig -> length sig = (2 * n)%nat.
Proof.
  unfold encode_sig, i2osp_chk. destruct (r <? 0); [discriminate|]. destruct (pow256 n <=? r); [discriminate|].
  destruct (s <? 0); [discriminate|]. destruct (pow256 n <=? s); [discriminate|].
  intro H. inversion H. rewrite app_length, !i2osp_length. lia.
Qed.

Theorem decode_encode_sig n r s sig : encode_sig n r s = Ok sig -> decode_sig n sig = Ok (r, s).
Proof.
  intro H. pose proof (encode_sig_length _ _ _ _ H) as L. unfold decode_sig. rewrite L, Nat.eqb_refl.
  unfold encode_sig, i2osp_chk in H. destruct (r <? 0) eqn:R0; [discriminate|]. destruct (pow256 n <=? r) eqn:R1; [discriminate|].
  destruct (s <? 0) eqn:S0; [discriminate|]. destruct (pow256 n <=? s) eqn:S1; [discriminate|].
  inversion H; subst.
  rewrite firstn_app, i2osp_length, Nat.sub_diag, firstn_all2 by (rewrite i2osp_length; lia). cbn [firstn]. rewrite app_nil_r.
  rewrite skipn_app, i2osp_length, Nat.sub_diag, skipn_all2 by (rewrite i2osp_length; lia). cbn [skipn app].
  rewrite !os2ip_i2osp by lia. reflexivity.
Qed.

Theorem encode_decode_sig n sig r s : decode_sig n sig = Ok (r, s) -> encode_sig n r s = Ok sig.
Proof.
  unfold decode_sig. destruct (Nat.eqb (length sig) (2 * n)) eqn:L; [|discriminate]. apply Nat.eqb_eq in L. intro H. inversion H; subst.
  assert (L1 : length (firstn n sig) = n) by (rewrite firstn_length; lia).
  assert (L2 : length (skipn n sig) = n) by (rewrite skipn_length; lia).
  pose proof (os2ip_bound (firstn n sig)) as B1. pose proof (os2ip_bound (skipn n sig)) as B2. rewrite L1 in B1. rewrite L2 in B2.
  unfold encode_sig, i2osp_chk.
  replace (os2ip (firstn n sig) <? 0) with false by lia. replace (pow256 n <=? os2ip (firstn n sig)) with false by lia.
  replace (os2ip (skipn n sig) <? 0) with false by lia. replace (pow256 n <=? os2ip (skipn n sig)) with false by lia.
  assert (A1 : i2osp n (os2ip (firstn n sig)) = firstn n sig). { pose proof (i2osp_os2ip (firstn n sig)) as T. rewrite L1 in T. exact T. }
  assert (A2 : i2osp n (os2ip (skipn n sig)) = skipn n sig). { pose proof (i2osp_os2ip (skipn n sig)) as T. rewrite L2 in T. exact T. }
  rewrite A1, A2. now rewrite firstn_skipn.
Qed.

Theorem decode_sig_wrong_length n sig : length sig <> (2 * n)%nat -> decode_sig n sig = Err.
Proof. intro H. unfold decode_sig. apply Nat.eqb_neq in H. now rewrite H. Qed.

(* two different signatures of the right length are two different (r, s) pairs: no two encodings of one pair *)
Theorem decode_sig_injective n sig1 sig2 p : decode_sig n sig1 = Ok p -> decode_sig n sig2 = Ok p -> sig1 = sig2.
Proof.
  destruct p as [r s]. intros H1 H2. apply encode_decode_sig in H1. apply encode_decode_sig in H2. congruence.
Qed.

Theorem encode_sig_refuses n r s : r < 0 \/ s < 0 \/ pow256 n <= r \/ pow256 n <= s -> encode_sig n r s = Err.
Proof.
  intro H. unfold encode_sig, i2osp_chk.
  destruct (r <? 0) eqn:R0; [reflexivity|]. destruct (pow256 n <=? r) eqn:R1; [reflexivity|].
  destruct (s <? 0) eqn:S0; [reflexivity|]. destruct (pow256 n <=? s) eqn:S1; [reflexivity|]. lia.
Qed.

(* ---------------------------------------------------------------- sign then verify *)
Section Correct.
  Variable prim_sign : Z -> bytes -> bytes -> bytes -> Z * Z.
  Variable prim_verify : Z -> Z * Z -> bytes -> Z -> Z -> bool.

  (* what ECDSA itself guarantees: r and s lie in [1, order - 1], below 256^order_size, and verify under the public point of d *)
  Definition prim_correct (crv : Z) (d : bytes) (pub : Z * Z) : Prop :=
    forall h rnd, let '(r, s) := prim_sign crv d h rnd in
                  0 <= r < pow256 (order_size crv) /\ 0 <= s < pow256 (order_size crv) /\ prim_verify crv pub h r s = true.

  Theorem verify_sign alg d pub rnd msg sig : prim_correct (ecdsa_crv alg) d pub ->
    ecdsa_sign prim_sign alg d rnd msg = Ok sig -> ecdsa_verify prim_verify alg pub msg sig = true /\ length sig = (2 * order_size (ecdsa_crv alg))%nat.
  Proof.
    intros Hc H. unfold ecdsa_sign, bind in H. unfold ecdsa_verify.
    destruct (compute_hash (hash_func alg) msg) as [h| |]; try discriminate.
    specialize (Hc h rnd). destruct (prim_sign (ecdsa_crv alg) d h rnd) as [r s]. destruct Hc as [_ [_ Hv]].
    rewrite (decode_encode_sig _ _ _ _ H). split; [exact Hv|]. exact (encode_sig_length _ _ _ _ H).
  Qed.

  Theorem sign_never_fails alg d pub rnd msg : prim_correct (ecdsa_crv alg) d pub ->
    compute_hash (hash_func alg) msg <> Err -> exists sig, ecdsa_sign prim_sign alg d rnd msg = Ok sig.
  Proof.
    intros Hc Hh. unfold ecdsa_sign, bind. destruct (compute_hash (hash_func alg) msg) as [h| |] eqn:E; try congruence.
    - specialize (Hc h rnd). destruct (prim_sign (ecdsa_crv alg) d h rnd) as [r s]. destruct Hc as [Hr [Hs _]].
      unfold encode_sig, i2osp_chk.
      replace (r <? 0) with false by lia. replace (pow256 (order_size (ecdsa_crv alg)) <=? r) with false by lia.
      replace (s <? 0) with false by lia. replace (pow256 (order_size (ecdsa_crv alg)) <=? s) with false by lia. eauto.
    - unfold compute_hash in E. destruct (hash_func alg =? 5); [discriminate|]. destruct (hash_func alg =? 6); [discriminate|]. destruct (hash_func alg =? 7); discriminate.
  Qed.

  (* a signature of any other length is refused before the primitive is consulted *)
  Theorem verify_wrong_length alg pub msg sig : length sig <> (2 * order_size (ecdsa_crv alg))%nat -> ecdsa_verify prim_verify alg pub msg sig = false.
  Proof.
    intro H. unfold ecdsa_verify. destruct (compute_hash (hash_func alg) msg); try reflexivity. now rewrite decode_sig_wrong_length.
  Qed.

  (* acceptance means: the primitive accepted the digest the algorithm prescribes and the pair the bytes spell *)
  Theorem verify_exact alg pub msg sig : ecdsa_verify prim_verify alg pub msg sig = true ->
    exists h r s, compute_hash (hash_func alg) msg = Ok h /\ sig = (i2osp (order_size (ecdsa_crv alg)) r ++ i2osp (order_size (ecdsa_crv alg)) s)%list
                  /\ 0 <= r < pow256 (order_size (ecdsa_crv alg)) /\ 0 <= s < pow256 (order_size (ecdsa_crv alg))
                  /\ prim_verify (ecdsa_crv alg) pub h r s = true.
  Proof.
    unfold ecdsa_verify. destruct (compute_hash (hash_func alg) msg) as [h| |]; try discriminate.
    destruct (decode_sig (order_size (ecdsa_crv alg)) sig) as [[r s]| |] eqn:D; try discriminate. intro Hv.
    exists h, r, s. split; [reflexivity|].
    pose proof (encode_decode_sig _ _ _ _ D) as E. unfold encode_sig, i2osp_chk in E.
    destruct (r <? 0) eqn:R0; [discriminate|]. destruct (pow256 _ <=? r) eqn:R1; [discriminate|].
    destruct (s <? 0) eqn:S0; [discriminate|]. destruct (pow256 _ <=? s) eqn:S1; [discriminate|].
    inversion E. repeat split; auto; lia.
  Qed.
End Correct.

(* ---------------------------------------------------------------- tables: RFC 9053 section 2.1 *)
Theorem ecdsa_tables_are_rfc9053 :
  map (fun a => (ecdsa_crv a, hash_func a, order_size (ecdsa_crv a))) [-7; -35; -36] = [(1, 5, 32%nat); (2, 6, 48%nat); (3, 7, 66%nat)].
Proof. vm_compute. reflexivity. Qed.

Theorem signature_lengths : map (fun a => (2 * order_size (ecdsa_crv a))%nat) [-7; -35; -36] = [64; 96; 132]%nat.
Proof. vm_compute. reflexivity. Qed.

(* ---------------------------------------------------------------- Ed25519: the raw message goes to the primitive; 64 bytes or refused *)
Section Ed.
  Variable ed_sign : bytes -> bytes -> bytes.                 (* seed, message -> 64 bytes *)
  Variable ed_verify : bytes -> bytes -> bytes -> bool.       (* public key, message, signature *)
  Definition eddsa_sign (seed msg : bytes) : bytes := ed_sign seed msg.
  Definition eddsa_verify (pub msg sig : bytes) : bool := ed_verify pub msg sig.
  Theorem eddsa_verify_sign seed pub msg : (forall m, ed_verify pub m (ed_sign seed m) = true) -> eddsa_verify pub msg (eddsa_sign seed msg) = true.
  Proof. intro H. apply H. Qed.
End Ed.

(* ---------------------------------------------------------------- correspondence cases *)
Inductive sig_case :=
| SigEnc (crv : Z) (r s : Z) (out : option bytes)
| SigDec (crv : Z) (sig : bytes) (out : option (Z * Z))
| HashCase (h : Z) (msg : bytes) (out : option bytes)
| AlgCase (alg : Z) (hashf : Z) (siglen : Z).

Definition check_sig_case (c : sig_case) : bool :=
  match c with
  | SigEnc crv r s out =>
      match encode_sig (order_size crv) r s, out with
      | Ok a, Some b => bytes_eqb a b
      | Err, None => true
      | _, _ => false
      end
  | SigDec crv sig out =>
      match decode_sig (order_size crv) sig, out with
      | Ok (r, s), Some (r', s') => (r =? r') && (s =? s')
      | Err, None => true
      | _, _ => false
      end
  | HashCase h msg out =>
      match compute_hash h msg, out with
      | Ok a, Some b => bytes_eqb a b
      | Err, None => true
      | _, _ => false
      end
  | AlgCase alg hashf siglen => (hash_func alg =? hashf) && (Z.of_nat (2 * order_size (ecdsa_crv alg)) =? siglen)
  end.
