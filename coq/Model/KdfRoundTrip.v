(* C09: COSE_KDF_Context (cose/kdf_context.go): MarshalCBOR then UnmarshalCBOR gives the context back, with the protected
   header map of SuppPubInfo in the decoder's normal form; nil and empty members are kept apart. *)
From Coq Require Import String.
From Coq Require Import NArith ZArith List Arith Lia Bool.
From Cose Require Import Lib.Base Lib.Cbor Lib.CborProofs Model.GoVal Model.CborGo Model.Wire Model.Key Model.MsgLogic Model.Nonce Model.Msg
     Model.MsgProofs Model.MsgRoundTrip Model.ValueRoundTrip Model.MsgRoundTripFull Model.MsgRoundTripSign Model.MsgRoundTripRecip.
Import ListNotations.
Open Scope Z_scope.

Definition opt_item (o : option bytes) : list item := match o with Some b => [IBstr b] | None => [] end.
Definition party_item (p : party) : item := IArr [ob (pi_identity p); ob (pi_nonce p); ob (pi_other p)].
Definition supp_item (len : Z) (pb : bytes) (other : option bytes) : item := IArr ([int_item len; IBstr pb] ++ opt_item other).
Definition kdf_item (c : kdf_ctx) (pb : bytes) : item :=
  IArr ([int_item (kc_alg c); party_item (kc_u c); party_item (kc_v c); supp_item (sp_len (kc_pub c)) pb (sp_other (kc_pub c))] ++ opt_item (kc_priv c)).

Lemma enc_party_item p : enc_party p = encode (party_item p).
Proof. unfold enc_party, party_item. rewrite !enc_bytes_ob. change [encode (ob (pi_identity p)); encode (ob (pi_nonce p)); encode (ob (pi_other p))] with (map encode [ob (pi_identity p); ob (pi_nonce p); ob (pi_other p)]). apply enc_array_items. Qed.

Lemma opt_item_enc o : match o with Some x => [enc_bytes (Some x)] | None => [] end = map encode (opt_item o).
Proof. destruct o; reflexivity. Qed.

Lemma enc_kdf_ctx_item c bs : enc_kdf_ctx c = Some bs ->
  exists pb, headers_bytes (omap (sp_prot (kc_pub c))) = Some pb /\ bs = encode (kdf_item c pb).
Proof.
  unfold enc_kdf_ctx, enc_supp_pub. destruct (headers_bytes (omap (sp_prot (kc_pub c)))) as [pb|] eqn:E; [|discriminate]. intro H.
  exists pb. split; [reflexivity|]. assert (Hb : bs = enc_array
     ([encode (int_item (kc_alg c)); enc_party (kc_u c); enc_party (kc_v c);
       enc_array ([encode (int_item (sp_len (kc_pub c))); enc_bytes (Some pb)] ++ match sp_other (kc_pub c) with Some o => [enc_bytes (Some o)] | None => [] end)]
      ++ match kc_priv c with Some o => [enc_bytes (Some o)] | None => [] end)) by congruence.
  subst bs. clear H. unfold kdf_item, supp_item. rewrite !opt_item_enc, !enc_party_item.
  rewrite <- enc_array_items. f_equal. rewrite map_app. f_equal. cbn [map].
  assert (X : enc_array ([encode (int_item (sp_len (kc_pub c))); enc_bytes (Some pb)] ++ map encode (opt_item (sp_other (kc_pub c))))
              = encode (IArr ([int_item (sp_len (kc_pub c)); IBstr pb] ++ opt_item (sp_other (kc_pub c))))).
  { rewrite <- enc_array_items. reflexivity. }
  now rewrite X.
Qed.

(* integer members *)
Lemma fld_int_item z : -9223372036854775808 <= z <= 9223372036854775807 -> fld_int (encode (int_item z)) = Ok z.
Proof.
  intro R. unfold fld_int, bind. assert (E : encodable (int_item z) = true).
  { unfold encodable, int_item. destruct (z <? 0) eqn:S; cbn [kd fits andb]; apply N.ltb_lt; lia. }
  rewrite (decode_encode _ E). unfold int_item. destruct (z <? 0) eqn:S; cbn [canon as_int64 through_tags bind].
  - replace (Z.to_N (-1 - z) <=? 9223372036854775807)%N with true by lia. f_equal. lia.
  - replace (Z.to_N z <=? 9223372036854775807)%N with true by lia. f_equal. lia.
Qed.

Lemma fld_uint_item z : 0 <= z <= 18446744073709551615 -> fld_uint (encode (int_item z)) = Ok z.
Proof.
  intro R. unfold fld_uint, bind. assert (E : encodable (int_item z) = true).
  { unfold encodable, int_item. replace (z <? 0) with false by lia. cbn [kd fits andb]. apply N.ltb_lt. lia. }
  rewrite (decode_encode _ E). unfold int_item. replace (z <? 0) with false by lia. cbn [canon as_uint64 through_tags bind]. f_equal. lia.
Qed.

Lemma dec_party_item p : encodable (party_item p) = true -> dec_party (encode (party_item p)) = Ok p.
Proof.
  intro E. unfold dec_party, bind, party_item in *.
  change 3%nat with (length [ob (pi_identity p); ob (pi_nonce p); ob (pi_other p)]). rewrite (struct_fields_encode _ E). cbn [map].
  rewrite !fld_bytes_ob by (apply (sub_encodable _ _ E); cbn; tauto). destruct p; reflexivity.
Qed.

Lemma arr_len_le its : encodable (IArr its) = true -> (N.of_nat (length its) <= max_elems)%N.
Proof.
  intro E. apply andb_true_iff in E. destruct E as [_ F]. cbn [fits] in F. apply andb_true_iff in F. destruct F as [F _].
  apply andb_true_iff in F. destruct F as [_ Fn]. now apply N.leb_le in Fn.
Qed.

Definition supp_rb (s : supp_pub) : supp_pub := {| sp_len := sp_len s; sp_prot := Some (read_back (omap (sp_prot s))); sp_other := sp_other s |}.
Definition kdf_rb (c : kdf_ctx) : kdf_ctx :=
  {| kc_alg := kc_alg c; kc_u := kc_u c; kc_v := kc_v c; kc_pub := supp_rb (kc_pub c); kc_priv := kc_priv c |}.

Lemma dec_supp_item s pb : encodable (supp_item (sp_len s) pb (sp_other s)) = true ->
  0 <= sp_len s <= 18446744073709551615 -> good_map (omap (sp_prot s)) -> headers_bytes (omap (sp_prot s)) = Some pb ->
  dec_supp_pub (encode (supp_item (sp_len s) pb (sp_other s))) = Ok (supp_rb s).
Proof.
  intros E R G Hb. unfold dec_supp_pub, supp_item in *. rewrite (strip_sd_arr _ (arr_len_le _ E)).
  pose proof (headers_roundtrip _ pb G Hb) as Hh.
  destruct (sp_other s) as [o|] eqn:Eo; cbn [opt_item app] in *.
  - replace (first_is Byte.x82 (encode (IArr [int_item (sp_len s); IBstr pb; IBstr o]))) with false by reflexivity.
    replace (first_is Byte.x83 (encode (IArr [int_item (sp_len s); IBstr pb; IBstr o]))) with true by reflexivity.
    unfold bind. change 3%nat with (length [int_item (sp_len s); IBstr pb; IBstr o]). rewrite (struct_fields_encode _ E). cbn [map].
    rewrite (fld_uint_item _ R). change (encode (IBstr pb)) with (encode (ob (Some pb))). change (encode (IBstr o)) with (encode (ob (Some o))).
    rewrite !fld_bytes_ob by (apply (sub_encodable _ _ E); cbn; tauto). rewrite Hh. unfold supp_rb. now rewrite Eo.
  - replace (first_is Byte.x82 (encode (IArr [int_item (sp_len s); IBstr pb]))) with true by reflexivity.
    unfold bind. change 2%nat with (length [int_item (sp_len s); IBstr pb]). rewrite (struct_fields_encode _ E). cbn [map].
    rewrite (fld_uint_item _ R). change (encode (IBstr pb)) with (encode (ob (Some pb))).
    rewrite !fld_bytes_ob by (apply (sub_encodable _ _ E); cbn; tauto). rewrite Hh. unfold supp_rb. now rewrite Eo.
Qed.

Theorem kdf_roundtrip c bs : enc_kdf_ctx c = Some bs ->
  -9223372036854775808 <= kc_alg c <= 9223372036854775807 -> 0 <= sp_len (kc_pub c) <= 18446744073709551615 ->
  good_map (omap (sp_prot (kc_pub c))) ->
  (forall it, bs = encode it -> encodable it = true) ->
  dec_kdf_ctx bs = Ok (kdf_rb c).
Proof.
  intros H Ra Rl G Hsize. destruct (enc_kdf_ctx_item c bs H) as [pb [Hb ->]]. specialize (Hsize _ eq_refl).
  unfold dec_kdf_ctx, kdf_item in *. rewrite (strip_sd_arr _ (arr_len_le _ Hsize)).
  set (S := supp_item (sp_len (kc_pub c)) pb (sp_other (kc_pub c))) in *.
  destruct (kc_priv c) as [o|] eqn:Eo; cbn [opt_item app] in *.
  - replace (first_is Byte.x84 (encode (IArr [int_item (kc_alg c); party_item (kc_u c); party_item (kc_v c); S; IBstr o]))) with false by reflexivity.
    replace (first_is Byte.x85 (encode (IArr [int_item (kc_alg c); party_item (kc_u c); party_item (kc_v c); S; IBstr o]))) with true by reflexivity.
    unfold bind. change 5%nat with (length [int_item (kc_alg c); party_item (kc_u c); party_item (kc_v c); S; IBstr o]).
    rewrite (struct_fields_encode _ Hsize). cbn [map]. rewrite (fld_int_item _ Ra).
    rewrite !dec_party_item by (apply (sub_encodable _ _ Hsize); cbn; tauto).
    unfold S. rewrite (dec_supp_item (kc_pub c) pb) by (try assumption; apply (sub_encodable _ _ Hsize); cbn; tauto).
    change (encode (IBstr o)) with (encode (ob (Some o))). rewrite fld_bytes_ob by (apply (sub_encodable _ _ Hsize); cbn; tauto).
    unfold kdf_rb. now rewrite Eo.
  - replace (first_is Byte.x84 (encode (IArr [int_item (kc_alg c); party_item (kc_u c); party_item (kc_v c); S]))) with true by reflexivity.
    unfold bind. change 4%nat with (length [int_item (kc_alg c); party_item (kc_u c); party_item (kc_v c); S]).
    rewrite (struct_fields_encode _ Hsize). cbn [map]. rewrite (fld_int_item _ Ra).
    rewrite !dec_party_item by (apply (sub_encodable _ _ Hsize); cbn; tauto).
    unfold S. rewrite (dec_supp_item (kc_pub c) pb) by (try assumption; apply (sub_encodable _ _ Hsize); cbn; tauto).
    unfold kdf_rb. now rewrite Eo.
Qed.

(* nil and empty members stay apart; a context with every optional member, by computation *)
Example kdf_example :
  let c := {| kc_alg := -27; kc_u := {| pi_identity := Some (hex "416c696365"); pi_nonce := None; pi_other := Some [] |};
              kc_v := {| pi_identity := None; pi_nonce := Some (hex "01"); pi_other := None |};
              kc_pub := {| sp_len := 128; sp_prot := Some [(ilabel 1, VInt KInt (-29))]; sp_other := Some (hex "aa") |}; kc_priv := Some [] |} in
  match enc_kdf_ctx c with Some bs => dec_kdf_ctx bs = Ok (kdf_rb c) /\ kdf_rb c <> c | None => False end.
Proof. vm_compute. split; [reflexivity|discriminate]. Qed.
