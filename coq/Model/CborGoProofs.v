(* Strictness and determinism of the Go-level CBOR layer (Model/CborGo.v, Model/Wire.v): duplicate keys are
   refused at every depth, including keys that coincide after integer normalisation; labels of header / key /
   claim maps are text or 32-bit integers; arrays of the wrong arity are refused; the bytes written for a value
   do not depend on the Go integer type that held its integers. *)
From Coq Require Import String.
From Coq Require Import NArith ZArith List Arith Lia Bool.
From Cose Require Import Lib.Base Lib.Cbor Lib.CborProofs Model.GoVal Model.CborGo Model.Wire.
Import ListNotations.
Open Scope Z_scope.

(* ---------------------------------------------------------------- duplicate keys *)
Fixpoint nodup_from (seen ks : list gval) : bool :=
  match ks with
  | [] => true
  | a :: r => negb (existsb (key_eqb a) seen) && nodup_from (a :: seen) r
  end.

Lemma entries_keys P l : forall seen es, parse_entries P l seen = Ok es ->
  Forall2 (fun kv e => P (fst kv) = Ok (fst e)) l es /\ nodup_from seen (map fst es) = true.
Proof.
  induction l as [|[k v] r IH]; intros seen es H; cbn [parse_entries] in H.
  - inversion H; subst. split; [constructor|reflexivity].
  - destruct (P k) as [kv| |] eqn:Ek; try discriminate.
    destruct (negb (hashable kv)); [discriminate|].
    destruct (P v) as [vv| |] eqn:Ev; try discriminate.
    destruct (existsb (key_eqb kv) seen) eqn:Ex; [discriminate|].
    destruct (parse_entries P r (kv :: seen)) as [es'| |] eqn:Er; try discriminate.
    inversion H; subst. destruct (IH _ _ Er) as [F N]. split.
    + constructor; [exact Ek|exact F].
    + cbn [map fst nodup_from]. rewrite Ex. exact N.
Qed.

Lemma nodup_from_seen a : forall ks seen, In a seen -> forall b, In b ks -> key_eqb b a = true -> nodup_from seen ks = false.
Proof.
  induction ks as [|x r IH]; intros seen Ha b Hb E; [destruct Hb|]. cbn [nodup_from].
  destruct Hb as [->|Hb].
  - replace (existsb (key_eqb b) seen) with true; [reflexivity|]. symmetry. apply existsb_exists. exists a. now split.
  - rewrite (IH (x :: seen) (or_intror Ha) b Hb E). apply andb_false_r.
Qed.

(* two keys of one map that decode to equal Go values: the map is refused *)
Theorem dup_key_refused P l1 k v l2 k' v' l3 seen a b :
  P k = Ok a -> P k' = Ok b -> key_eqb b a = true ->
  is_ok (parse_entries P (l1 ++ (k, v) :: l2 ++ (k', v') :: l3) seen) = false.
Proof.
  intros Ha Hb E. destruct (parse_entries P _ seen) as [es| |] eqn:H; try reflexivity. exfalso.
  destruct (entries_keys _ _ _ _ H) as [F N]. clear H.
  revert seen es F N. induction l1 as [|[k1 v1] r1 IH]; intros seen es F N.
  - cbn [app] in F. inversion F as [|? e1 ? es1 H1 F1]; subst. cbn [fst] in H1. rewrite Ha in H1. inversion H1 as [A]. 
    cbn [map nodup_from] in N. apply andb_true_iff in N. destruct N as [_ N]. rewrite <- A in N.
    assert (In b (map fst es1)).
    { clear - F1 Hb. revert es1 F1. induction l2 as [|[k2 v2] r2 IH2]; intros es1 F1.
      - cbn [app] in F1. inversion F1 as [|? e2 ? es2 H2 F2]; subst. cbn [fst] in H2. rewrite Hb in H2. inversion H2. now left.
      - cbn [app] in F1. inversion F1 as [|? e2 ? es2 H2 F2]; subst. right. now apply IH2. }
    rewrite (nodup_from_seen a (map fst es1) (a :: seen) (or_introl eq_refl) b H E) in N. discriminate.
  - cbn [app] in F. inversion F as [|? e1 ? es1 H1 F1]; subst. cbn [map nodup_from] in N. apply andb_true_iff in N. destruct N as [_ N].
    exact (IH _ _ F1 N).
Qed.

(* integer keys are compared after normalisation: every encoding width of the same integer yields the same key *)
Lemma uint_key_normalised n : parse true (IUint n) = Ok (VInt KUint64 (Z.of_N n)).
Proof. reflexivity. Qed.

(* ... and this holds at every depth: a value is decoded only if every nested item is *)
Inductive sub : item -> item -> Prop :=
| sub_refl x : sub x x
| sub_arr l x y : In x l -> sub x y -> sub (IArr l) y
| sub_key l k v y : In (k, v) l -> sub k y -> sub (IMap l) y
| sub_val l k v y : In (k, v) l -> sub v y -> sub (IMap l) y
| sub_tag t x y : sub x y -> sub (ITag t x) y.

Lemma elems_ok P l vs : parse_elems P l = Ok vs -> forall x, In x l -> is_ok (P x) = true.
Proof.
  revert vs. induction l as [|y r IH]; intros vs H x Hin; [destruct Hin|]. cbn [parse_elems] in H.
  destruct (P y) as [v| |] eqn:Ey; destruct (parse_elems P r) as [vs'| |] eqn:Er; try discriminate.
  destruct Hin as [->|Hin]; [now rewrite Ey|]. exact (IH _ eq_refl x Hin).
Qed.

Lemma entries_ok P l : forall seen es, parse_entries P l seen = Ok es -> forall k v, In (k, v) l -> is_ok (P k) = true /\ is_ok (P v) = true.
Proof.
  induction l as [|[k0 v0] r IH]; intros seen es H k v Hin; [destruct Hin|]. cbn [parse_entries] in H.
  destruct (P k0) as [kv| |] eqn:Ek; try discriminate.
  destruct (negb (hashable kv)); [discriminate|].
  destruct (P v0) as [vv| |] eqn:Ev; try discriminate.
  destruct (existsb (key_eqb kv) seen); [discriminate|].
  destruct (parse_entries P r (kv :: seen)) as [es'| |] eqn:Er; try discriminate.
  destruct Hin as [Heq|Hin]; [inversion Heq; subst; now rewrite Ek, Ev|]. exact (IH _ _ Er k v Hin).
Qed.

Theorem nested_maps_decoded x m : sub x (IMap m) -> forall s, is_ok (parse s x) = true -> exists s', is_ok (parse s' (IMap m)) = true.
Proof.
  remember (IMap m) as y eqn:Ey. induction 1 as [x|l x y Hin Hs IH|l k v y Hin Hs IH|l k v y Hin Hs IH|t x y Hs IH]; intros s H.
  - now exists s.
  - cbn [parse] in H. destruct (parse_elems (parse true) l) as [vs| |] eqn:E; try discriminate.
    apply (IH Ey true). exact (elems_ok _ _ _ E x Hin).
  - cbn [parse] in H. destruct (parse_entries (parse true) l []) as [es| |] eqn:E; try discriminate.
    apply (IH Ey true). exact (proj1 (entries_ok _ _ _ _ E k v Hin)).
  - cbn [parse] in H. destruct (parse_entries (parse true) l []) as [es| |] eqn:E; try discriminate.
    apply (IH Ey true). exact (proj2 (entries_ok _ _ _ _ E k v Hin)).
  - cbn [parse] in H.
    destruct (s && (t =? 55799)%N); [exact (IH Ey true H)|].
    destruct (negb (chain_ok (ITag t x))) eqn:C; [discriminate|].
    destruct ((t =? 0)%N || (t =? 1)%N) eqn:T01.
    { (* time tags: the content is a text string or a number, which has no nested items *)
      apply negb_false_iff in C. cbn [chain_ok] in C. apply andb_true_iff in C. destruct C as [C _].
      assert (L : match x with ITstr _ | IUint _ | INint _ | IFloat _ _ => True | _ => False end).
      { destruct (t =? 0)%N; [destruct x; try discriminate; exact I|]. destruct (t =? 1)%N; [destruct x; try discriminate; exact I|discriminate]. }
      exfalso. subst y. destruct x; try contradiction; inversion Hs. }
    destruct (t =? 2)%N. { destruct x; try discriminate. subst y. inversion Hs. }
    destruct (t =? 3)%N. { destruct x; try discriminate. subst y. inversion Hs. }
    destruct (parse false x) eqn:E; try discriminate. apply (IH Ey false). now rewrite E.
Qed.

(* hence: a duplicate key anywhere inside a value makes the whole value undecodable *)
Corollary nested_dup_key_refused x l1 k v l2 k' v' l3 a b s :
  sub x (IMap (l1 ++ (k, v) :: l2 ++ (k', v') :: l3)) ->
  parse true k = Ok a -> parse true k' = Ok b -> key_eqb b a = true ->
  is_ok (parse s x) = false.
Proof.
  intros Hs Ha Hb E. destruct (is_ok (parse s x)) eqn:O; [|reflexivity]. exfalso.
  destruct (nested_maps_decoded _ _ Hs s O) as [s' H]. cbn [parse] in H.
  pose proof (dup_key_refused (parse true) l1 k v l2 k' v' l3 [] a b Ha Hb E) as D.
  destruct (parse_entries (parse true) _ []); cbn in *; congruence.
Qed.

(* ---------------------------------------------------------------- labels *)
Definition label_ok (l : label) : bool :=
  match l with
  | LStr _ => true
  | LInt KInt z => (MinInt32 <=? z) && (z <=? MaxInt32)
  | _ => false
  end.

(* what any-decoding produces for a key: uint64 from major type 0, int64 from major type 1, or text *)
Definition parsed_label (l : label) : bool :=
  match l with LInt KUint64 z => 0 <=? z | LInt KInt64 _ => true | LStr _ => true | _ => false end.

Lemma parse_label it : forall s v l, parse s it = Ok v -> label_of v = Some l -> parsed_label l = true.
Proof.
  induction it as [n|n|b|b|l0 IH|l0 IH|t x IH|n|ai bits] using item_ind'; intros s v l P L; cbn [parse] in P.
  - inversion P; subst. cbn in L. inversion L; subst. cbn. lia.
  - destruct (MaxI64N <? n)%N; inversion P; subst; cbn in L; [discriminate|]. inversion L; subst. reflexivity.
  - inversion P; subst. discriminate L.
  - destruct (utf8_valid b); inversion P; subst. cbn in L. inversion L. reflexivity.
  - destruct (parse_elems (parse true) l0); cbn in P; inversion P; subst. discriminate L.
  - destruct (parse_entries (parse true) l0 []) as [es| |]; cbn in P; try discriminate. destruct (labels_of es); inversion P; subst; discriminate L.
  - destruct (s && (t =? 55799)%N); [exact (IH _ _ _ P L)|].
    destruct (negb (chain_ok (ITag t x))); [discriminate|].
    destruct ((t =? 0)%N || (t =? 1)%N); [inversion P; subst; discriminate L|].
    destruct (t =? 2)%N; [destruct x; inversion P; subst; discriminate L|].
    destruct (t =? 3)%N; [destruct x; inversion P; subst; discriminate L|].
    destruct (parse false x); inversion P; subst; discriminate L.
  - destruct (n =? 20)%N; [inversion P; subst; discriminate L|]. destruct (n =? 21)%N; [inversion P; subst; discriminate L|].
    destruct ((n =? 22)%N || (n =? 23)%N); inversion P; subst; discriminate L.
  - inversion P; subst. discriminate L.
Qed.

Lemma check_label_ok l l' : parsed_label l = true -> check_label l = Ok l' -> label_ok l' = true.
Proof.
  destruct l as [k z|s]; cbn [check_label parsed_label]; [|intros _ H; inversion H; reflexivity].
  destruct k; try discriminate; intro W;
    match goal with |- (if ?c then _ else _) = _ -> _ => destruct c eqn:E end; try discriminate; intro H; inversion H; subst; cbn [label_ok];
    unfold MinInt32, MaxInt32 in *; lia.
Qed.

Lemma check_labels_ok m : forall m', forallb (fun e => parsed_label (fst e)) m = true -> check_labels m = Ok m' -> forallb (fun e => label_ok (fst e)) m' = true.
Proof.
  induction m as [|[l v] r IH]; intros m' W H; cbn [check_labels] in H.
  - inversion H. reflexivity.
  - cbn [forallb fst] in W. apply andb_true_iff in W. destruct W as [W1 W2].
    destruct (check_label l) as [l'| |] eqn:El; destruct (check_labels r) as [r'| |] eqn:Er; try discriminate.
    inversion H; subst. cbn [forallb fst]. rewrite (check_label_ok _ _ W1 El). exact (IH _ W2 eq_refl).
Qed.

Lemma labels_of_parsed es m : (forall e, In e es -> exists it s, parse s it = Ok (fst e)) -> labels_of es = Some m ->
  forallb (fun e => parsed_label (fst e)) m = true.
Proof.
  revert m. induction es as [|[k v] r IH]; intros m Hk H; cbn [labels_of] in H.
  - inversion H. reflexivity.
  - destruct (label_of k) as [l|] eqn:L; [|discriminate]. destruct (labels_of r) as [ls|] eqn:R; [|discriminate]. inversion H; subst.
    cbn [forallb fst]. destruct (Hk (k, v) (or_introl eq_refl)) as [it [s P]]. cbn [fst] in P. rewrite (parse_label _ _ _ _ P L).
    apply IH; [|reflexivity]. intros e He. apply Hk. now right.
Qed.

Lemma entries_parsed P l : forall seen es, parse_entries P l seen = Ok es -> forall e, In e es -> exists k, P k = Ok (fst e).
Proof.
  induction l as [|[k v] r IH]; intros seen es H e He; cbn [parse_entries] in H.
  - inversion H; subst. destruct He.
  - destruct (P k) as [kv| |] eqn:Ek; try discriminate.
    destruct (negb (hashable kv)); [discriminate|].
    destruct (P v) as [vv| |] eqn:Ev; try discriminate.
    destruct (existsb (key_eqb kv) seen); [discriminate|].
    destruct (parse_entries P r (kv :: seen)) as [es'| |] eqn:Er; try discriminate.
    inversion H; subst. destruct He as [<-|He]; [exists k; exact Ek|]. exact (IH _ _ Er e He).
Qed.

(* every label of a decoded header / key / claim map is text or an integer in the 32-bit range *)
Theorem decoded_labels_ok it m : cosemap_of_item it = Ok m -> forallb (fun e => label_ok (fst e)) m = true.
Proof.
  unfold cosemap_of_item, bind. destruct (through_tags it) as [t| |]; try discriminate.
  destruct t; try discriminate.
  - destruct (parse true (IMap l)) as [v| |] eqn:P; try discriminate. destruct v; try discriminate. intro H.
    apply (check_labels_ok m0); [|exact H].
    cbn [parse] in P. destruct (parse_entries (parse true) l []) as [es| |] eqn:E; try discriminate. cbn [wrap_map] in P.
    destruct (labels_of es) as [m1|] eqn:L; inversion P; subst.
    apply (labels_of_parsed es); [|exact L]. intros e He. destruct (entries_parsed _ _ _ _ E e He) as [k Hk]. now exists k, true.
  - destruct ((n =? 22)%N || (n =? 23)%N); [|discriminate]. intro H. inversion H. reflexivity.
Qed.

(* a map key that is neither an integer nor text is refused *)
Theorem non_label_key_refused it l : through_tags it = Ok (IMap l) -> parse true (IMap l) = Ok (VOther "map[any]any with non-label keys") ->
  cosemap_of_item it = Err.
Proof. intros T P. unfold cosemap_of_item, bind. rewrite T, P. reflexivity. Qed.

(* ---------------------------------------------------------------- arity and member types *)
Theorem wrong_arity_refused n raw it l : decode raw = Ok it -> through_tags it = Ok (IArr l) -> length l <> n -> struct_fields n raw = Err.
Proof.
  intros D T H. unfold struct_fields, bind. rewrite D, T. apply Nat.eqb_neq in H. now rewrite H.
Qed.

Theorem non_array_refused n raw it t : decode raw = Ok it -> through_tags it = Ok t ->
  match t with IArr _ => False | ISimple 22 | ISimple 23 => False | _ => True end -> struct_fields n raw = Err.
Proof.
  intros D T H. unfold struct_fields, bind. rewrite D, T. destruct t; try contradiction; try reflexivity.
  destruct ((n0 =? 22)%N || (n0 =? 23)%N) eqn:E; [|reflexivity]. exfalso.
  apply orb_true_iff in E. destruct E as [E|E]; apply N.eqb_eq in E; subst; exact H.
Qed.

Theorem malformed_refused n raw : decode raw = Err -> struct_fields n raw = Err /\ cosemap_of_bytes raw = Err /\ unmarshal_any raw = Err.
Proof. intro D. unfold struct_fields, cosemap_of_bytes, unmarshal_any, bind. now rewrite D. Qed.

(* ---------------------------------------------------------------- the Go integer type does not reach the wire *)
Section GvalInd.
  Variable P : gval -> Prop.
  Hypothesis Hleaf : forall v, match v with VArr _ | VMap _ | VTag _ _ => False | _ => True end -> P v.
  Hypothesis Harr : forall l, Forall P l -> P (VArr l).
  Hypothesis Hmap : forall m, Forall (fun e => P (snd e)) m -> P (VMap m).
  Hypothesis Htag : forall n x, P x -> P (VTag n x).
  Fixpoint gval_ind' (v : gval) : P v :=
    match v with
    | VArr l => Harr l ((fix go (l : list gval) : Forall P l := match l with [] => Forall_nil _ | x :: r => Forall_cons _ (gval_ind' x) (go r) end) l)
    | VMap m => Hmap m ((fix go (m : list (label * gval)) : Forall (fun e => P (snd e)) m :=
                           match m with [] => Forall_nil _ | (k, x) :: r => Forall_cons (k, x) (gval_ind' x) (go r) end) m)
    | VTag n x => Htag n x (gval_ind' x)
    | VNil => Hleaf VNil I | VBool b => Hleaf (VBool b) I | VInt k z => Hleaf (VInt k z) I | VFloat b => Hleaf (VFloat b) I
    | VBytes b => Hleaf (VBytes b) I | VStr s => Hleaf (VStr s) I | VInts l => Hleaf (VInts l) I | VOps l => Hleaf (VOps l) I
    | VOther t => Hleaf (VOther t) I | VSimple n => Hleaf (VSimple n) I | VBig z => Hleaf (VBig z) I
    end.
End GvalInd.

Definition erase_label (l : label) : label := match l with LInt _ z => LInt KInt z | LStr s => LStr s end.
Fixpoint erase (v : gval) : gval :=
  match v with
  | VInt _ z => VInt KInt z
  | VArr l => VArr (map erase l)
  | VMap m => VMap (map (fun e => let '(k, x) := e in (erase_label k, erase x)) m)
  | VTag n x => VTag n (erase x)
  | _ => v
  end.

Theorem item_of_kind_irrelevant v : item_of (erase v) = item_of v.
Proof.
  induction v as [v Hv|l IH|m IH|n x IH] using gval_ind'.
  - destruct v; try contradiction; reflexivity.
  - cbn [erase item_of]. f_equal. f_equal. rewrite map_map. apply map_ext_in. intros a Ha. rewrite Forall_forall in IH. now apply IH.
  - cbn [erase item_of]. f_equal. f_equal. rewrite map_map. apply map_ext_in. intros [k x] Ha. rewrite Forall_forall in IH.
    pose proof (IH (k, x) Ha) as E. cbn [snd] in E. rewrite E. destruct k; reflexivity.
  - cbn [erase item_of]. now rewrite IH.
Qed.

Corollary marshal_kind_irrelevant v : marshal_any (erase v) = marshal_any v.
Proof. unfold marshal_any. now rewrite item_of_kind_irrelevant. Qed.
