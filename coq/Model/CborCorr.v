From Coq Require Import String.
From Coq Require Import NArith ZArith List Bool.
From Cose Require Import Lib.Base Lib.Cbor Model.GoVal Model.CborGo.
Import ListNotations.
Open Scope Z_scope.

(* equality of Go values up to the order of map entries (the harness prints maps in its own order) *)
Fixpoint geq (fuel : nat) (a b : gval) : bool :=
  match fuel with
  | O => false
  | S f =>
    match a, b with
    | VNil, VNil => true
    | VBool x, VBool y => Bool.eqb x y
    | VInt k1 z1, VInt k2 z2 => ikind_eqb k1 k2 && Z.eqb z1 z2
    | VFloat x, VFloat y => Z.eqb x y
    | VBytes x, VBytes y => bytes_eqb x y
    | VStr x, VStr y => bytes_eqb x y
    | VArr x, VArr y =>
        (fix go (l1 l2 : list gval) : bool :=
           match l1, l2 with [], [] => true | u :: r1, v :: r2 => geq f u v && go r1 r2 | _, _ => false end) x y
    | VInts x, VInts y => if list_eq_dec Z.eq_dec x y then true else false
    | VOps x, VOps y => match x, y with
                        | None, None => true
                        | Some p, Some q => if list_eq_dec Z.eq_dec p q then true else false
                        | _, _ => false
                        end
    | VMap x, VMap y =>
        Nat.eqb (length x) (length y)
        && forallb (fun e => match lookup y (fst e) with Some w => geq f (snd e) w | None => false end) x
    | VOther x, VOther y => String.eqb x y
    | VTag n x, VTag m y => Z.eqb n m && geq f x y
    | VSimple x, VSimple y => Z.eqb x y
    | VBig x, VBig y => Z.eqb x y
    | _, _ => false
    end
  end.

Inductive cbor_case :=
| CbAny (bs : bytes) (wellformed : bool) (ok : bool) (v : gval)
| CbEnc (v : gval) (out : bytes).

Definition check_cbor_case (c : cbor_case) : bool :=
  match c with
  | CbAny bs wf ok v =>
      Bool.eqb (is_ok (decode bs)) wf
      && match unmarshal_any bs with
         | Ok m => ok && geq 40 m v
         | Err => negb ok
         | Panic => false
         end
  | CbEnc v out => match marshal_any v with Some b => bytes_eqb b out | None => true end
  end.
