(* The operations on header buckets that the header-logic slices of the message methods use (translator T12,
   Gen/SlicesGen.v), in terms of the hand model's accessors. A bucket is a Go map that may be nil. *)
From Coq Require Import ZArith List Bool.
From Cose Require Import Lib.Base Model.GoVal Model.Key Model.Nonce.
Import ListNotations.
Open Scope Z_scope.

Definition hdr := option cosemap.
Definition hmap (h : hdr) : cosemap := match h with Some m => m | None => [] end.   (* reading a nil map reads an empty one *)
Definition is_none {A} (h : option A) : bool := match h with None => true | Some _ => false end.
Definition olist {A} (o : option (list A)) : list A := match o with Some l => l | None => [] end.   (* ranging over / len of a nil slice *)
Definition ohas (h : hdr) (l : Z) : bool := has (hmap h) l.
Definition oget_int_ (h : hdr) (l : Z) : Z := get_int_ (hmap h) l.                  (* GetInt with the error dropped *)
Definition oget_bytes (h : hdr) (l : Z) : res bytes := get_bytes (hmap h) l.
(* h[l] = v: assignment to an entry of a nil map panics *)
Definition oset (h : hdr) (l : Z) (v : gval) : res hdr :=
  match h with None => Panic | Some m => Ok (Some (set_label m (ilabel l) v)) end.

(* the value of a (value, error) pair: Go functions here return the zero value together with an error *)
Definition val_or {A} (d : A) (r : res A) : A := match r with Ok a => a | _ => d end.
