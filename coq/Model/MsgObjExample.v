(* Non-vacuity of the history theorems of MsgObjProofs: a concrete history that ends with a marshalled message made by
   a produce call, with edits of the exported fields in between. *)
From Coq Require Import String.
From Coq Require Import NArith ZArith List Bool Lia.
From Cose Require Import Lib.Base Lib.Cbor Model.GoVal Model.Wire Model.Key Model.MsgLogic Model.Msg Model.MsgWireCorr Model.MsgObj Model.MsgObjCorr Model.MsgObjProofs.
Import ListNotations.
Open Scope Z_scope.

Definition ex_key : fkey :=
  {| fk_map := [(ilabel 1, VInt KInt 4); (ilabel 3, VInt KInt 5); (ilabel 2, VBytes [b8 1%N])]; fk_secret := [b8 7%N]; fk_nsize := 12%nat; fk_fail := false |}.
Definition ex_ops : list op :=
  [OSetPayload (Some [b8 1%N; b8 2%N]); OProduce (fp ex_key) None []; OSetProt 1 (VInt KInt 7); OConsume (fp ex_key) None; OSetUnprot 99 (VInt KInt 1); OMarshal].

Example ex_history_is_covered :
  single KMac0 = true /\ Forall (op_wf KMac0) ex_ops
  /\ origin_after KMac0 fresh FromNothing ex_ops = FromProduce (fk_map ex_key)
  /\ exists b, marshal_out KMac0 (final KMac0 fresh ex_ops) = RBytes b.
Proof.
  split; [reflexivity|]. split.
  - unfold ex_ops. repeat (apply Forall_cons; [cbn [op_wf]; try exact I; unfold alg_in_range; vm_compute; split; discriminate|]). apply Forall_nil.
  - split; [vm_compute; reflexivity|]. eexists. vm_compute. reflexivity.
Qed.

(* the edit of the protected map after the produce call made Verify refuse (the gate reads the exported map) but did
   not change what MarshalCBOR emits *)
Example ex_trace : map fst (run KMac0 fresh ex_ops) =
  [RNone; ROk; RNone; RErr; RNone;
   RBytes (to_bytes [209; 132; 67; 161; 1; 5; 162; 4; 65; 1; 24; 99; 1; 66; 1; 2; 79; 7; 132; 100; 77; 65; 67; 48; 67; 161; 1; 5; 64; 66; 1; 2])].
Proof. vm_compute. reflexivity. Qed.
