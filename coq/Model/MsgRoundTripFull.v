(* C01 with the header codec discharged: produce, then consume, yields the header maps in the decoder's normal form. *)
From Coq Require Import String.
From Coq Require Import NArith ZArith List Arith Lia Bool.
From Cose Require Import Lib.Base Lib.Cbor Lib.CborProofs Model.GoVal Model.CborGo Model.Wire Model.Key Model.MsgLogic Model.MsgLogicProofs Model.Nonce Model.Msg
     Spec.RFC9052 Model.MsgProofs Model.MsgRoundTrip Model.ValueRoundTrip Model.NonceProofs.
Import ListNotations.
Open Scope Z_scope.

(* a header map as applications write it: labels are Go ints in the 32-bit range or text, no label twice, values are
   null / booleans / integers / byte strings / text / arrays / nested maps, everything within the decoder's limits *)
Definition good_map (m : cosemap) : Prop :=
  forallb (fun e => checked (fst e)) m = true /\ hv (VMap m) = true /\ NoDup (map fst m)
  /\ forallb (fun e => ints_in_kind (snd e)) m = true
  /\ (forall it, item_of (VMap m) = Some it -> encodable it = true).

Lemma alg_gate_read_back m a : good_map m -> alg_gate (read_back m) a = alg_gate m a.
Proof.
  intros [_ [_ [ND [Hk _]]]]. destruct (read_back_accessors m 1 ND Hk) as [Hi [_ [_ [_ Hh]]]].
  unfold alg_gate, get_int_. now rewrite Hh, Hi.
Qed.

Lemma encode_not_nil it : encode it <> [].
Proof. pose proof (encode_nonempty it) as H. destruct (encode it); [cbn in H; lia|discriminate]. Qed.

(* Headers.Bytes then HeadersFromBytes *)
Theorem headers_roundtrip m pb : good_map m -> headers_bytes m = Some pb -> headers_from_bytes (Some pb) = Ok (read_back m).
Proof.
  intros G H. destruct G as [Hc [Hh [ND [Hk He]]]]. unfold headers_bytes in H. destruct m as [|e r]; [inversion H; reflexivity|].
  pose proof (cosemap_roundtrip (e :: r) pb Hc Hh H He) as R.
  unfold headers_from_bytes. destruct pb as [|b pb']; [|exact R].
  (* the encoding of a map is never empty *)
  exfalso. unfold enc_cosemap in H. rewrite (check_labels_id _ Hc) in H. destruct (labels_dup (e :: r)); [discriminate|].
  unfold marshal_any in H. destruct (item_of (VMap (e :: r))); [|discriminate]. cbn in H. inversion H as [E]. exact (encode_not_nil _ E).
Qed.

Theorem sign1_roundtrip_full p prot unprot pl ext out prot' :
  sign1_produce p prot unprot (Some pl) ext = Ok out ->
  (forall tbs sig, sg_sign p tbs = Ok sig -> sg_verify p tbs sig = true) ->
  prepare_protected prot (sg_key p) = Ok prot' -> alg_gate prot' (key_alg (sg_key p)) = true ->
  good_map prot' -> good_map (prepare_unprotected unprot (sg_key p)) ->
  (forall pb sig itU, headers_bytes prot' = Some pb -> item_of (VMap (prepare_unprotected unprot (sg_key p))) = Some itU ->
      encodable (IArr [ob (Some pb); itU; ob (Some pl); ob (Some sig)]) = true) ->
  sign1_consume false p out ext
  = Ok {| v_prot := read_back prot'; v_unprot := Some (read_back (prepare_unprotected unprot (sg_key p))); v_payload := payload_view pl |}.
Proof.
  intros Hp Hprim Epp Hgate Gp Gu Hsize.
  apply (sign1_roundtrip p prot unprot pl ext out (read_back prot') (read_back (prepare_unprotected unprot (sg_key p))) Hp Hprim).
  intros prot'' pb sig u E1 E2 E4 E3. rewrite Epp in E1. inversion E1; subst prot''.
  set (um := prepare_unprotected unprot (sg_key p)) in *.
  destruct Gu as [Hc [Hh [ND [Hk He]]]].
  pose proof (cosemap_roundtrip um u Hc Hh E4 He) as R.
  assert (Eu := E4). unfold enc_cosemap in Eu. rewrite (check_labels_id um Hc) in Eu. destruct (labels_dup um); [discriminate|].
  unfold marshal_any in Eu. destruct (item_of (VMap um)) as [itU|] eqn:Ei; [|discriminate]. cbn [option_map] in Eu. inversion Eu as [Eu'].
  exists itU. split; [reflexivity|]. split; [apply (Hsize pb sig itU E2 eq_refl)|]. split.
  - unfold fld_headers. rewrite Eu'. exact R.
  - split; [apply (headers_roundtrip prot' pb Gp E2)|]. unfold consume_gate. now rewrite (alg_gate_read_back prot' _ Gp).
Qed.

Theorem mac0_roundtrip_full p prot unprot pl ext out prot' :
  mac0_produce p prot unprot (Some pl) ext = Ok out ->
  (forall tbm tag, mc_create p tbm = Ok tag -> mc_verify p tbm tag = true) ->
  prepare_protected prot (mc_key p) = Ok prot' -> alg_gate prot' (key_alg (mc_key p)) = true ->
  good_map prot' -> good_map (prepare_unprotected unprot (mc_key p)) ->
  (forall pb tag itU, headers_bytes prot' = Some pb -> item_of (VMap (prepare_unprotected unprot (mc_key p))) = Some itU ->
      encodable (IArr [ob (Some pb); itU; ob (Some pl); ob (Some tag)]) = true) ->
  mac0_consume false p out ext
  = Ok {| v_prot := read_back prot'; v_unprot := Some (read_back (prepare_unprotected unprot (mc_key p))); v_payload := payload_view pl |}.
Proof.
  intros Hp Hprim Epp Hgate Gp Gu Hsize.
  apply (mac0_roundtrip p prot unprot pl ext out (read_back prot') (read_back (prepare_unprotected unprot (mc_key p))) Hp Hprim).
  intros prot'' pb tag u E1 E2 E4 E3. rewrite Epp in E1. inversion E1; subst prot''.
  set (um := prepare_unprotected unprot (mc_key p)) in *.
  destruct Gu as [Hc [Hh [ND [Hk He]]]].
  pose proof (cosemap_roundtrip um u Hc Hh E4 He) as R.
  assert (Eu := E4). unfold enc_cosemap in Eu. rewrite (check_labels_id um Hc) in Eu. destruct (labels_dup um); [discriminate|].
  unfold marshal_any in Eu. destruct (item_of (VMap um)) as [itU|] eqn:Ei; [|discriminate]. cbn [option_map] in Eu. inversion Eu as [Eu'].
  exists itU. split; [reflexivity|]. split; [apply (Hsize pb tag itU E2 eq_refl)|]. split.
  - unfold fld_headers. rewrite Eu'. exact R.
  - split; [apply (headers_roundtrip prot' pb Gp E2)|]. unfold consume_gate. now rewrite (alg_gate_read_back prot' _ Gp).
Qed.

(* ---- COSE_Encrypt0: the nonce Decrypt derives from the decoded headers is the one Encrypt used *)
Lemma derive_nonce_read_back m k n : NoDup (map fst m) -> forallb (fun e => ints_in_kind (snd e)) m = true ->
  derive_nonce (read_back m) k n = derive_nonce m k n.
Proof.
  intros ND Hk. unfold derive_nonce.
  destruct (read_back_accessors m 5 ND Hk) as [_ [H5 _]]. destruct (read_back_accessors m 6 ND Hk) as [_ [H6 _]]. now rewrite H5, H6.
Qed.

Lemma derive_ok_iv_typed u k n iv : derive_nonce u k n = Ok iv -> forall v, lookup u (ilabel 5) = Some v -> exists b, v = VBytes b.
Proof.
  unfold derive_nonce, get_bytes at 1. intros H v Hv. rewrite Hv in H. destruct v; try discriminate. now eexists.
Qed.

Lemma chosen_nonce_nonempty u k n d nonce u' : d <> [] -> (0 < n)%nat -> choose_nonce u k n d = Ok (nonce, u') -> nonce <> [].
Proof.
  intros Hd Hn H. unfold choose_nonce in H. destruct (derive_nonce u k n) as [iv| |] eqn:D; try discriminate.
  destruct (Nat.eqb (length iv) 0) eqn:Z; inversion H; subst; [exact Hd|]. intro E. subst. discriminate.
Qed.

Theorem enc0_roundtrip_full p prot unprot payload ext draw out prot' nonce unprot' :
  enc0_produce p prot unprot payload ext draw = Ok out ->
  (forall nc pt ad ct, en_encrypt p nc pt ad = Ok ct -> en_decrypt p nc ct ad = Ok pt) ->
  prepare_protected prot (en_key p) = Ok prot' -> alg_gate prot' (key_alg (en_key p)) = true ->
  choose_nonce (prepare_unprotected unprot (en_key p)) (en_key p) (en_nonce p) draw = Ok (nonce, unprot') ->
  draw <> [] -> (0 < en_nonce p)%nat ->
  good_map prot' -> good_map unprot' ->
  (forall pb ct itU, headers_bytes prot' = Some pb -> item_of (VMap unprot') = Some itU ->
      encodable (IArr [ob (Some pb); itU; ob (Some ct)]) = true) ->
  enc0_consume false p out ext
  = Ok {| v_prot := read_back prot'; v_unprot := Some (read_back unprot'); v_payload := payload_view (match payload with Some b => b | None => [] end) |}.
Proof.
  intros Hp Hprim Epp Hgate Ech Hd Hn Gp Gu Hsize.
  apply (enc0_roundtrip p prot unprot payload ext draw out (read_back prot') (read_back unprot') Hp Hprim).
  intros prot'' pb nonce' um ct u E1 E2 E3 E4. rewrite Epp in E1. inversion E1; subst prot''.
  rewrite Ech in E3. inversion E3; subst nonce' um. clear E3.
  destruct Gu as [Hc [Hh [ND [Hk He]]]].
  pose proof (cosemap_roundtrip unprot' u Hc Hh E4 He) as R.
  assert (Eu := E4). unfold enc_cosemap in Eu. rewrite (check_labels_id unprot' Hc) in Eu. destruct (labels_dup unprot'); [discriminate|].
  unfold marshal_any in Eu. destruct (item_of (VMap unprot')) as [itU|] eqn:Ei; [|discriminate]. cbn [option_map] in Eu. inversion Eu as [Eu'].
  exists itU. split; [reflexivity|]. split; [apply (Hsize pb ct itU E2 eq_refl)|]. split; [unfold fld_headers; rewrite Eu'; exact R|].
  split; [apply (headers_roundtrip prot' pb Gp E2)|]. split; [unfold consume_gate; now rewrite (alg_gate_read_back prot' _ Gp)|].
  rewrite (derive_nonce_read_back unprot' _ _ ND Hk).
  apply (decrypt_same_nonce (prepare_unprotected unprot (en_key p)) (en_key p) (en_nonce p) draw nonce unprot').
  - exact (chosen_nonce_nonempty _ _ _ _ _ _ Hd Hn Ech).
  - unfold choose_nonce in Ech. destruct (derive_nonce (prepare_unprotected unprot (en_key p)) (en_key p) (en_nonce p)) as [iv| |] eqn:D; try discriminate.
    exact (derive_ok_iv_typed _ _ _ _ D).
  - exact Ech.
Qed.

(* the gate hypothesis is what producing established *)
Lemma prepared_passes_gate prot k prot' : MinInt32 <= key_alg k <= MaxInt32 -> prepare_protected prot k = Ok prot' -> alg_gate prot' (key_alg k) = true.
Proof.
  intros R H. unfold prepare_protected in H. destruct prot as [p0|].
  - destruct (alg_gate p0 (key_alg k)) eqn:E; inversion H; subst; exact E.
  - inversion H; subst. destruct (key_alg k =? 0) eqn:E0; [reflexivity|].
    unfold alg_gate, has, get_int_, get_int. cbn [lookup ilabel label_eqb ikind_eqb andb]. rewrite Z.eqb_refl. cbn [to_int is_signed].
    replace ((MinInt32 <=? key_alg k) && (key_alg k <=? MaxInt32)) with true by lia. apply Z.eqb_refl.
Qed.

(* an example that meets every hypothesis: headers with several kinds of values, checked by computation *)
Example good_map_example :
  let m := [(ilabel 1, VInt KInt (-7)); (ilabel 4, VBytes (hex "3131")); (LStr (hex "78"), VArr [VBool true; VNil; VStr (hex "61")]); (ilabel 33, VMap [(ilabel 2, VInt KInt 500)])] in
  forallb (fun e => checked (fst e)) m = true /\ hv (VMap m) = true /\ forallb (fun e => ints_in_kind (snd e)) m = true
  /\ match item_of (VMap m) with Some it => encodable it = true | None => False end
  /\ match enc_cosemap m with Some bs => cosemap_of_bytes bs = Ok (read_back m) | None => False end.
Proof. vm_compute. repeat split; reflexivity. Qed.
