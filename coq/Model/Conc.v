(* C19: sharing signers, verifiers, MACers, encryptors, ECDH objects, validators and the key registry between goroutines.
   Two parts. (1) From the translator's SSA effect inventory (Gen/EffectsGen.v): the methods of the shared objects store
   to no field of their receiver and to no package-level variable; the only writers of package-level state are the
   four Register functions, and those are called from package init functions only. (2) For an object whose operations
   leave its state unchanged, every interleaving of calls from any number of threads gives each call the result it would
   have when run alone. *)
From Coq Require Import String.
From Coq Require Import NArith ZArith List Arith Lia Bool.
From Cose Require Import Lib.Base Lib.GenTypes Gen.EffectsGen Gen.RegistryGen.
Import ListNotations.
Open Scope string_scope.

Fixpoint prefixb (p s : string) : bool :=
  match p, s with
  | EmptyString, _ => true
  | String a p', String b s' => Ascii.eqb a b && prefixb p' s'
  | _, _ => false
  end.

(* ---------------------------------------------------------------- (1) the effect inventory *)
(* receivers whose methods are called concurrently on one shared instance *)
Definition shared_receivers : list string :=
  ["(*key/hmac.hMAC)."; "(*key/aesmac.aesMAC)."; "(*key/aesgcm.aesGCM)."; "(*key/aesccm.aesCCM)."; "(*key/aesccm.ccm).";
   "(*key/chacha20poly1305.chacha)."; "(*key/ecdsa.ecdsaSigner)."; "(*key/ecdsa.ecdsaVerifier).";
   "(*key/ed25519.ed25519Signer)."; "(*key/ed25519.ed25519Verifier)."; "(*key/ecdh.ECDHer)."; "(*cwt.Validator)."].

(* readers of a shared key: the factories and the accessors the implementations call at every operation *)
Definition shared_key_methods : list string :=
  ["(key.Key).Signer"; "(key.Key).Verifier"; "(key.Key).MACer"; "(key.Key).Encryptor"; "(key.Key).Alg"; "(key.Key).Ops"; "(key.Key).Kty"; "(key.Key).Kid";
   "(key.Key).GetBytes"; "(key.Key).GetInt"; "(key.Key).Has"; "(key.Key).BaseIV"; "(key.KeySet).Lookup"; "(key.KeySet).Signers"; "(key.KeySet).Verifiers";
   "(key.Signers).Lookup"; "(key.Verifiers).Lookup"; "(key.Signers).KeySet"; "(key.Verifiers).KeySet"].

Definition is_shared (fn : string) : bool :=
  existsb (fun r => prefixb r fn) shared_receivers || existsb (String.eqb fn) shared_key_methods.

(* a write that another goroutine could observe: a field of the receiver, or a package-level variable *)
Definition writes_shared (e : string * string) : bool := prefixb "recv" (snd e) || prefixb "global:" (snd e).

Definition shared_methods : list string := map fst (filter (fun f => is_shared (fst f)) effects).

Theorem shared_methods_write_nothing :
  forallb (fun f => if is_shared (fst f) then negb (existsb writes_shared (snd f)) else true) effects = true.
Proof. vm_compute. reflexivity. Qed.

(* the inventory does contain them: the statement above is not about an empty set *)
Theorem shared_methods_inventory : Nat.leb 50 (length shared_methods) = true /\ forallb (fun m => existsb (String.eqb m) (map fst effects)) shared_key_methods = true.
Proof. vm_compute. split; reflexivity. Qed.

(* package-level state is written by the Register functions only, and those are called from init functions only *)
Theorem only_register_writes_globals :
  map fst (filter (fun f => existsb (fun e => prefixb "global:" (snd e)) (snd f)) effects)
  = ["key.RegisterEncryptor"; "key.RegisterMACer"; "key.RegisterSigner"; "key.RegisterVerifier"].
Proof. vm_compute. reflexivity. Qed.

Theorem registration_happens_in_init_only :
  forallb (fun r => String.eqb (snd r) "init") registrations = true /\ unrecognized_registrations = [].
Proof. vm_compute. split; reflexivity. Qed.

(* the one stateful reader in the library is the HKDF-AES stream (one per derivation, never shared): it is the only
   implementation method that stores to its receiver *)
Theorem the_only_stateful_method :
  map fst (filter (fun f => prefixb "(*key/" (fst f) && existsb (fun e => prefixb "recv" (snd e)) (snd f)) effects) = ["(*key/hkdf.aesHKDF).Read"].
Proof. vm_compute. reflexivity. Qed.

(* ---------------------------------------------------------------- (2) interleavings *)
Section Schedules.
  Variables (S Op Out : Type).
  Variable step : S -> Op -> S * Out.

  (* a schedule: which thread runs which operation next; an operation is one call on the shared object *)
  Fixpoint run (s : S) (sched : list (nat * Op)) : list (nat * Op * Out) :=
    match sched with
    | [] => []
    | (t, o) :: r => let '(s', out) := step s o in (t, o, out) :: run s' r
    end.

  Definition alone (s : S) (o : Op) : Out := snd (step s o).

  (* operations that leave the object's state as it was (what part (1) establishes for the code) *)
  Hypothesis step_reads_only : forall s o, fst (step s o) = s.

  Theorem every_call_returns_as_alone s sched : Forall (fun r => snd r = alone s (snd (fst r))) (run s sched).
  Proof.
    induction sched as [|[t o] r IH]; cbn [run]; [constructor|].
    pose proof (step_reads_only s o) as H. destruct (step s o) as [s' out] eqn:E. cbn [fst] in H. subst s'.
    constructor; [|exact IH]. cbn [snd fst]. unfold alone. now rewrite E.
  Qed.

  (* hence the results of one thread do not depend on what the other threads do or when *)
  Definition of_thread (t : nat) (l : list (nat * Op * Out)) : list (Op * Out) :=
    map (fun r => (snd (fst r), snd r)) (filter (fun r => Nat.eqb (fst (fst r)) t) l).

  Lemma run_outputs s sched : run s sched = map (fun p => (fst p, snd p, alone s (snd p))) sched.
  Proof.
    induction sched as [|[t o] r IH]; cbn [run map]; [reflexivity|].
    pose proof (step_reads_only s o) as H. destruct (step s o) as [s' out] eqn:E. cbn [fst] in H. subst s'.
    rewrite IH. cbn [fst snd]. unfold alone at 2. now rewrite E.
  Qed.

  Theorem thread_results_schedule_independent s t sched1 sched2 :
    filter (fun p => Nat.eqb (fst p) t) sched1 = filter (fun p => Nat.eqb (fst p) t) sched2 ->
    of_thread t (run s sched1) = of_thread t (run s sched2).
  Proof.
    intro H. unfold of_thread. rewrite !run_outputs.
    assert (G : forall sched, map (fun r : nat * Op * Out => (snd (fst r), snd r)) (filter (fun r => Nat.eqb (fst (fst r)) t) (map (fun p : nat * Op => (fst p, snd p, alone s (snd p))) sched))
                = map (fun p : nat * Op => (snd p, alone s (snd p))) (filter (fun p => Nat.eqb (fst p) t) sched)).
    { induction sched as [|[t' o] r IH]; cbn [map filter fst snd]; [reflexivity|]. destruct (Nat.eqb t' t); cbn [map fst snd]; now rewrite IH. }
    now rewrite !G, H.
  Qed.
End Schedules.

(* the premise is satisfiable and the conclusion not trivial: a keyed object answering queries *)
Example schedules_nonvacuous :
  let step (k : nat) (q : nat) := (k, k + q)%nat in
  of_thread nat nat 1%nat (run nat nat nat step 5%nat [(1, 1); (2, 10); (1, 2); (3, 7)]%nat) = [(1, 6); (2, 7)]%nat
  /\ of_thread nat nat 1%nat (run nat nat nat step 5%nat [(3, 7); (1, 1); (1, 2); (2, 10)]%nat) = [(1, 6); (2, 7)]%nat.
Proof. vm_compute. split; reflexivity. Qed.
