(* The text and JSON forms of ByteStr, CoseMap and Key (key/bytestr.go, key/cosemap.go, key/key.go):
   text = lower-case hex of the CBOR encoding, JSON = the same between double quotes. *)
From Coq Require Import NArith List Bool.
From Coq Require Import Strings.Byte.
From Cose Require Import Lib.Base Lib.Hex Lib.Cbor Model.GoVal Model.CborGo Model.Wire.
Import ListNotations.

Definition quote : byte := x22.
Definition json_null : bytes := [x6e; x75; x6c; x6c].

(* ByteStr.MarshalText / MarshalJSON *)
Definition bytestr_text (b : bytes) : bytes := hex_enc b.
Definition bytestr_json (b : bytes) : bytes := quote :: hex_enc b ++ [quote].

(* ByteStr.UnmarshalText: the receiver keeps its old value when the text is refused (cur) *)
Definition bytestr_of_text (t : bytes) : res bytes :=
  match hex_dec t with Some d => Ok d | None => Err end.

(* ByteStr.UnmarshalJSON: `null` leaves the receiver as it is; otherwise the text must be a quoted hex string *)
Definition unquote (t : bytes) : option bytes :=
  match t with
  | q :: r =>
      match rev r with
      | q' :: inner => if byte_eqb q quote && byte_eqb q' quote then Some (rev inner) else None
      | [] => None
      end
  | [] => None
  end.

Definition bytestr_of_json (cur : bytes) (t : bytes) : res bytes :=
  if bytes_eqb t json_null then Ok cur
  else match unquote t with
       | Some inner => bytestr_of_text inner
       | None => Err
       end.

(* CoseMap / Key *)
Definition cosemap_text (m : cosemap) : option bytes := option_map bytestr_text (enc_cosemap m).
Definition cosemap_json (m : cosemap) : option bytes := option_map bytestr_json (enc_cosemap m).
Definition cosemap_of_text (t : bytes) : res cosemap := do d <- bytestr_of_text t; cosemap_of_bytes d.
(* the intermediate ByteStr starts nil, so `null` hands the empty string to UnmarshalCBOR *)
Definition cosemap_of_json (t : bytes) : res cosemap := do d <- bytestr_of_json [] t; cosemap_of_bytes d.
