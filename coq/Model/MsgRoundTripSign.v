(* C01 for COSE_Sign: a message produced for n signers is accepted by verifiers holding the same keys, whatever n. *)
From Coq Require Import String.
From Coq Require Import NArith ZArith List Arith Lia Bool.
From Cose Require Import Lib.Base Lib.Cbor Lib.CborProofs Model.GoVal Model.CborGo Model.Wire Model.Key Model.MsgLogic Model.MsgLogicProofs Model.Nonce Model.Msg
     Spec.RFC9052 Model.MsgProofs Model.MsgRoundTrip Model.ValueRoundTrip Model.MsgRoundTripFull.
Import ListNotations.
Open Scope Z_scope.

(* ---------------------------------------------------------------- arrays of pointer elements *)
Lemma array_elems_raw_encode its : encodable (IArr its) = true -> array_elems_raw (encode (IArr its)) = Ok (map encode its).
Proof.
  intro E. apply andb_true_iff in E. destruct E as [K F]. cbn [kd] in K. cbn [fits] in F.
  apply andb_true_iff in F. destruct F as [F Fl]. apply andb_true_iff in F. destruct F as [_ Fn]. apply N.leb_le in Fn. rewrite max_elems_val in Fn.
  assert (D : dhead (encode (IArr its)) = Ok (4%N, head_ai (N.of_nat (length its)), N.of_nat (length its), flat_map encode its)).
  { cbn [encode]. apply dhead_head; lia. }
  unfold array_elems_raw.
  assert (S0 : skip_tag_heads 70 (encode (IArr its)) = encode (IArr its)) by (cbn [skip_tag_heads]; rewrite D; reflexivity).
  rewrite S0, D. cbn [N.eqb Pos.eqb]. rewrite Nat2N.id.
  rewrite <- (app_nil_r (flat_map encode its)), split_items_encode; [reflexivity|].
  rewrite forallb_forall in K, Fl. rewrite Forall_forall. intros x Hx. split; [now apply K|]. apply fits_mono. now apply Fl.
Qed.

(* an element that is itself a non-empty definite array: neither a self-described tag nor null *)
Definition is_arr (it : item) : bool := match it with IArr _ => true | _ => false end.

Lemma arr_first_byte l r : (N.of_nat (length l) <= max_elems)%N -> exists b, (encode (IArr l) ++ r)%list = b :: (skipn 1 (encode (IArr l) ++ r))%list /\ (Byte.to_N b / 32 = 4)%N.
Proof.
  intro H. rewrite max_elems_val in H.
  pose proof (dhead_head 4 (N.of_nat (length l)) (flat_map encode l ++ r) ltac:(lia) ltac:(lia)) as D.
  cbn [encode]. rewrite <- app_assoc. destruct (head 4 (N.of_nat (length l)) ++ flat_map encode l ++ r)%list as [|b t] eqn:E; [discriminate D|].
  exists b. split; [reflexivity|]. cbn [dhead] in D.
  destruct (Byte.to_N b mod 32 <? 24)%N; [now inversion D|].
  destruct (if (Byte.to_N b mod 32 =? 24)%N then _ else _) as [k|]; [|discriminate]. destruct (take k t) as [[a r']|]; [|discriminate].
  destruct (_ && _ && _); [discriminate|]. now inversion D.
Qed.

Lemma strip_sd_arr l : (N.of_nat (length l) <= max_elems)%N -> strip_sd 70 (encode (IArr l)) = encode (IArr l).
Proof.
  intro H. rewrite max_elems_val in H. change (strip_sd 70 (encode (IArr l))) with (match dhead (encode (IArr l)) with Ok (mt, _, n, r) => if (mt =? 6)%N && (n =? 55799)%N then strip_sd 69 r else encode (IArr l) | _ => encode (IArr l) end).
  cbn [encode]. rewrite (dhead_head 4 (N.of_nat (length l)) (flat_map encode l)) by lia. reflexivity.
Qed.

Lemma arr_not_null l : (N.of_nat (length l) <= max_elems)%N ->
  match encode (IArr l) with b :: _ => byte_eqb b Byte.xf6 || byte_eqb b Byte.xf7 | [] => false end = false.
Proof.
  intro H. destruct (arr_first_byte l [] H) as [b [E Hb]]. rewrite app_nil_r in E. rewrite E.
  destruct (byte_eqb b Byte.xf6) eqn:E1; [apply byte_eqb_eq in E1; subst; vm_compute in Hb; discriminate|].
  destruct (byte_eqb b Byte.xf7) eqn:E2; [apply byte_eqb_eq in E2; subst; vm_compute in Hb; discriminate|]. reflexivity.
Qed.

Lemma ptr_elems_encode (ls : list (list item)) :
  encodable (IArr (map IArr ls)) = true ->
  ptr_elems (encode (IArr (map IArr ls))) = Ok (Some (map (fun l => Some (encode (IArr l))) ls)).
Proof.
  intro E. unfold ptr_elems, bind. rewrite (decode_encode _ E). cbn [canon through_tags].
  rewrite (array_elems_raw_encode _ E). f_equal. f_equal. rewrite !map_map. apply map_ext_in. intros l Hl.
  assert (Hn : (N.of_nat (length l) <= max_elems)%N).
  { pose proof (sub_encodable _ (IArr l) E (in_map IArr ls l Hl)) as El. apply andb_true_iff in El. destruct El as [_ F]. cbn [fits] in F.
    apply andb_true_iff in F. destruct F as [F _]. apply andb_true_iff in F. destruct F as [_ Fn]. now apply N.leb_le in Fn. }
  rewrite (strip_sd_arr l Hn). pose proof (arr_not_null l Hn) as N0. destruct (encode (IArr l)) as [|b t]; [reflexivity|]. now rewrite N0.
Qed.

(* ---------------------------------------------------------------- COSE_Sign in the form the library writes *)
Record sigdata := { sd_prim : sigprim; sd_prot : bytes; sd_unprot : item; sd_sig : bytes }.

Definition sig_items (d : sigdata) : list item := [IBstr (sd_prot d); sd_unprot d; IBstr (sd_sig d)].
Definition sig_bytes (d : sigdata) : bytes := enc_array [enc_bytes (Some (sd_prot d)); encode (sd_unprot d); enc_bytes (Some (sd_sig d))].

Lemma sig_bytes_encode d : sig_bytes d = encode (IArr (sig_items d)).
Proof. unfold sig_bytes, sig_items. rewrite !enc_bytes_ob. cbn [ob]. change [encode (IBstr (sd_prot d)); encode (sd_unprot d); encode (IBstr (sd_sig d))] with (map encode [IBstr (sd_prot d); sd_unprot d; IBstr (sd_sig d)]). apply enc_array_items. Qed.

Definition sign_whole (pb : bytes) (itU : item) (pl : bytes) (ds : list sigdata) : item :=
  IArr [ob (Some pb); itU; ob (Some pl); IArr (map (fun d => IArr (sig_items d)) ds)].

Definition sign_wire (pb : bytes) (itU : item) (pl : bytes) (ds : list sigdata) : bytes :=
  enc_tagged 98 (enc_array [enc_bytes (Some pb); encode itU; enc_bytes (Some pl); enc_array (map sig_bytes ds)]).

Lemma sign_wire_encode pb itU pl ds : sign_wire pb itU pl ds = enc_tagged 98 (encode (sign_whole pb itU pl ds)).
Proof.
  unfold sign_wire, sign_whole. f_equal. rewrite !enc_bytes_ob.
  assert (E : enc_array (map sig_bytes ds) = encode (IArr (map (fun d => IArr (sig_items d)) ds))).
  { rewrite <- enc_array_items, map_map. apply (f_equal enc_array). apply map_ext. intro d. apply sig_bytes_encode. }
  rewrite E.
  change [encode (ob (Some pb)); encode itU; encode (ob (Some pl)); encode (IArr (map (fun d : sigdata => IArr (sig_items d)) ds))]
    with (map encode [ob (Some pb); itU; ob (Some pl); IArr (map (fun d : sigdata => IArr (sig_items d)) ds)]).
  apply enc_array_items.
Qed.

(* what each decoded signature entry must be *)
Definition sigent_of (d : sigdata) (sprot sun : cosemap) : sigent :=
  {| se_prot := sprot; se_raw := sd_prot d; se_unprot := Some sun; se_sig := Some (sd_sig d) |}.

Lemma sig_decode_wire d sprot sun : encodable (IArr (sig_items d)) = true ->
  headers_from_bytes (Some (sd_prot d)) = Ok sprot -> fld_headers (encode (sd_unprot d)) = Ok sun ->
  sig_decode (encode (IArr (sig_items d))) = Ok (sigent_of d sprot sun).
Proof.
  intros E Hp Hu. unfold sig_decode, bind.
  change 3%nat with (length (sig_items d)). rewrite (struct_fields_encode _ E). unfold sig_items. cbn [map].
  change (encode (IBstr (sd_prot d))) with (encode (ob (Some (sd_prot d)))). change (encode (IBstr (sd_sig d))) with (encode (ob (Some (sd_sig d)))).
  rewrite (fld_bytes_ob (Some (sd_prot d))) by (apply (sub_encodable _ _ E); cbn; tauto).
  rewrite Hu. rewrite (fld_bytes_ob (Some (sd_sig d))) by (apply (sub_encodable _ _ E); cbn; tauto).
  rewrite Hp. reflexivity.
Qed.

Section Verify.
  Variable vs : list sigprim.
  Variables (pb pl : bytes) (ext : option bytes).

  (* every signature finds its verifier by key id, passes the algorithm gate, and verifies over the RFC structure *)
  Definition sig_good (d : sigdata) (sprot sun : cosemap) : Prop :=
    headers_from_bytes (Some (sd_prot d)) = Ok sprot /\ fld_headers (encode (sd_unprot d)) = Ok sun /\
    lookup_prim vs (get_bytes_ sun 4) = Some (sd_prim d) /\ consume_gate sprot (sg_key (sd_prim d)) = true /\
    sg_verify (sd_prim d) (encode (Sig_structure Signature pb (Some (sd_prot d)) (aad ext) pl)) (sd_sig d) = true.

  Lemma verify_all_wire w (tr : list (sigdata * (cosemap * cosemap))) :
    w_prot w = Some pb -> w_payload w = Some pl ->
    Forall (fun t => sig_good (fst t) (fst (snd t)) (snd (snd t))) tr ->
    verify_all vs w ext (map (fun t => sigent_of (fst t) (fst (snd t)) (snd (snd t))) tr) = Ok tt.
  Proof.
    intros Wp Wl H. induction H as [|[d [sprot sun]] r [Hp [Hu [Hl [Hg Hv]]]] _ IH]; cbn [map verify_all]; [reflexivity|].
    cbn [fst snd sigent_of se_unprot se_prot se_raw se_sig omap] in *. rewrite Hl, Hg. cbn [negb].
    rewrite Wp, Wl, sign_structure_is_rfc. cbn [bind]. rewrite Hv. exact IH.
  Qed.
End Verify.

Theorem sign_accepts_wire_form vs pb itU pl ext um pm (tr : list (sigdata * (cosemap * cosemap))) :
  let ds := map fst tr in
  encodable (sign_whole pb itU pl ds) = true ->
  fld_headers (encode itU) = Ok um -> headers_from_bytes (Some pb) = Ok pm ->
  vs <> [] -> tr <> [] ->
  Forall (fun t => sig_good vs pb pl ext (fst t) (fst (snd t)) (snd (snd t))) tr ->
  sign_consume false vs (sign_wire pb itU pl ds) ext
  = Ok ({| v_prot := pm; v_unprot := Some um; v_payload := payload_view pl |}, map (fun t => sigent_of (fst t) (fst (snd t)) (snd (snd t))) tr).
Proof.
  intros ds E Hu Hp Hvs Htr Hg. unfold sign_consume.
  (* the wire struct *)
  assert (W : unmarshal_wire KSign (sign_wire pb itU pl ds)
              = Ok {| w_prot := Some pb; w_unprot := Some um; w_payload := Some pl; w_auth := None;
                      w_extra := Some (map (fun d => Some (encode (IArr (sig_items d)))) ds) |}).
  { unfold unmarshal_wire. rewrite sign_wire_encode.
    assert (Sh : enc_tagged 98 (encode (sign_whole pb itU pl ds)) = enc_tagged (cose_tag KSign) (enc_array (map encode [ob (Some pb); itU; ob (Some pl); IArr (map (fun d => IArr (sig_items d)) ds)]))).
    { rewrite enc_array_items. reflexivity. }
    rewrite Sh, strip_tagged by reflexivity. rewrite enc_array_items.
    change (arity KSign) with (length [ob (Some pb); itU; ob (Some pl); IArr (map (fun d => IArr (sig_items d)) ds)]).
    pose proof (struct_fields_encode [ob (Some pb); itU; ob (Some pl); IArr (map (fun d => IArr (sig_items d)) ds)] E) as SF. rewrite SF. cbn [bind map].
    rewrite (fld_bytes_ob (Some pb)) by (apply (sub_encodable _ _ E); cbn; tauto).
    rewrite Hu. rewrite (fld_bytes_ob (Some pl)) by (apply (sub_encodable _ _ E); cbn; tauto).
    replace (map (fun d : sigdata => IArr (sig_items d)) ds) with (map IArr (map sig_items ds)) by (rewrite map_map; reflexivity).
    rewrite ptr_elems_encode.
    - cbn [bind]. rewrite map_map. reflexivity.
    - replace (map IArr (map sig_items ds)) with (map (fun d : sigdata => IArr (sig_items d)) ds) by (rewrite map_map; reflexivity).
      apply (sub_encodable _ _ E). cbn. tauto. }
  rewrite W. cbn [bind w_extra].
  (* the signature entries *)
  assert (Ea : all_some (map (fun d => Some (encode (IArr (sig_items d)))) ds) = Some (map (fun d => encode (IArr (sig_items d))) ds)).
  { clear. induction ds as [|d r IH]; cbn [map all_some]; [reflexivity|]. now rewrite IH. }
  unfold sigs_decode. rewrite Ea.
  assert (Esub : forall d, In d ds -> encodable (IArr (sig_items d)) = true).
  { intros d Hd. assert (Ein : encodable (IArr (map (fun d => IArr (sig_items d)) ds)) = true) by (apply (sub_encodable _ _ E); cbn; tauto).
    apply (sub_encodable _ _ Ein). apply in_map_iff. now exists d. }
  assert (Er : res_all (map sig_decode (map (fun d => encode (IArr (sig_items d))) ds)) = Ok (map (fun t => sigent_of (fst t) (fst (snd t)) (snd (snd t))) tr)).
  { unfold ds in *. clear - Hg Esub. induction Hg as [|[d [sprot sun]] r [Hp' [Hu' _]] _ IH]; cbn [map res_all]; [reflexivity|].
    cbn [fst snd] in *. rewrite (sig_decode_wire d sprot sun (Esub d (or_introl eq_refl)) Hp' Hu').
    rewrite IH by (intros; apply Esub; now right). reflexivity. }
  rewrite Er. cbn [bind]. unfold decoded_view. cbn [w_prot w_payload w_unprot]. rewrite Hp. cbn [bind]. rewrite payload_ok_bytes. cbn [bind].
  destruct vs as [|v0 vr]; [congruence|]. destruct tr as [|t0 tr']; [congruence|]. cbn [map].
  pose proof (verify_all_wire (v0 :: vr) pb pl ext
                {| w_prot := Some pb; w_unprot := Some um; w_payload := Some pl; w_auth := None; w_extra := Some (map (fun d => Some (encode (IArr (sig_items d)))) ds) |}
                (t0 :: tr') eq_refl eq_refl Hg) as V.
  cbn [map] in V. rewrite V. reflexivity.
Qed.

(* end to end, by computation: three signers with distinct key ids, produced by the model of SignAndEncode and
   consumed by the model of VerifySignMessage in the three tagging forms *)
Example sign_three_signers :
  let mk (kid0 : bytes) (alg : Z) (sec : bytes) :=
    {| sg_key := [(ilabel 1, VInt KInt 2); (ilabel 3, VInt KInt alg); (ilabel 2, VBytes kid0)];
       sg_sign := fun tbs => Ok (sec ++ tbs)%list; sg_verify := fun tbs sig => bytes_eqb sig (sec ++ tbs)%list |} in
  let ps := [mk (hex "6131") (-7) (hex "01"); mk (hex "6232") (-35) (hex "02"); mk (hex "6333") (-36) (hex "03")] in
  match sign_produce ps (Some [(ilabel 3, VInt KInt 60)]) None (Some (hex "0102")) (Some (hex "ee")) with
  | Ok out =>
      is_ok (sign_consume false ps out (Some (hex "ee"))) = true
      /\ is_ok (sign_consume false (rev ps) (remove_cbor_tag out) (Some (hex "ee"))) = true
      /\ is_ok (sign_consume false ps (cwt_prefix ++ out)%list (Some (hex "ee"))) = true
      /\ is_ok (sign_consume false (tl ps) out (Some (hex "ee"))) = false
      /\ is_ok (sign_consume false ps out None) = false
  | _ => False
  end.
Proof. vm_compute. repeat split; reflexivity. Qed.
