(* The header-logic slices regenerated from the message methods (Gen/SlicesGen.v, translator T12) are the functions of
   the hand model (Model/MsgLogic.v, Model/Nonce.v) that the property theorems of C05 / C06 / C01 are about:
   algorithm gate of Verify / Decrypt, preparation of the header buckets in WithSign / Compute / Encrypt, nonce selection
   in Encrypt and Decrypt. One slice of each kind is compared with the model; the slices of the other message kinds are
   the same term (reflexivity), which is itself a checked fact: the five kinds share their header logic. *)
From Coq Require Import String.
From Coq Require Import ZArith List Bool Lia Arith.
From Cose Require Import Lib.Base Lib.GoSem Lib.GenTypes Model.GoVal Model.Key Model.MsgLogic Model.Nonce Model.NonceProofs Model.HdrSem
     Gen.FuncsGen Gen.SlicesGen Model.FuncsXorIV Model.SlicesProofs.
Import ListNotations.
Open Scope Z_scope.

(* ---------------------------------------------------------------- nonce selection *)
Lemma get_bytes_np (m : cosemap) l : get_bytes m l <> Panic.
Proof. unfold get_bytes. destruct (lookup m (ilabel l)) as [v|]; [destruct v|]; discriminate. Qed.

Lemma go_len_zero {A} (l : list A) : (go_len l =? 0) = Nat.eqb (length l) 0.
Proof. unfold go_len. destruct l; cbn [length]; [reflexivity|]. cbn [Nat.eqb]. apply Z.eqb_neq. lia. Qed.

Lemma go_len_leb {A} (l : list A) (n : nat) : (Z.of_nat n <=? go_len l) = Nat.leb n (length l).
Proof.
  unfold go_len. destruct (Nat.leb n (length l)) eqn:E.
  - apply Nat.leb_le in E. apply Z.leb_le. lia.
  - apply Nat.leb_gt in E. apply Z.leb_gt. lia.
Qed.

Theorem gen_nonce_dec_enc0 mp mu kalg kkid kkey (n : nat) draw :
  cose_Encrypt0Message_Decrypt_nonce_dec mp mu kalg kkid kkey (Z.of_nat n) draw = derive_nonce (hmap mu) kkey n.
Proof.
  unfold cose_Encrypt0Message_Decrypt_nonce_dec, derive_nonce, oget_bytes.
  destruct (get_bytes (hmap mu) 5) as [iv| |] eqn:E5; cbn [bind]; [|reflexivity|exfalso; eapply get_bytes_np; exact E5].
  destruct (get_bytes (hmap mu) 6) as [piv| |] eqn:E6; cbn [bind]; [|reflexivity|exfalso; eapply get_bytes_np; exact E6].
  rewrite !go_len_pos. destruct (negb (Nat.eqb (length piv) 0)); [|reflexivity].
  destruct (negb (Nat.eqb (length iv) 0)); [reflexivity|].
  rewrite go_len_leb. destruct (Nat.leb n (length piv)); [reflexivity|].
  destruct (get_bytes kkey 5) as [base| |] eqn:Eb; cbn [bind]; [|reflexivity|exfalso; eapply get_bytes_np; exact Eb].
  rewrite go_len_zero. destruct (Nat.eqb (length base) 0); [reflexivity|].
  rewrite gen_xor_iv. destruct (xor_iv base piv n); reflexivity.
Qed.

Theorem gen_nonce_decs_alike : cose_EncryptMessage_Decrypt_nonce_dec = cose_Encrypt0Message_Decrypt_nonce_dec.
Proof. reflexivity. Qed.

Definition chosen (u key : cosemap) (n : nat) (draw : bytes) : res (bytes * hdr) :=
  match choose_nonce u key n draw with
  | Ok (nonce, u') => Ok (nonce, Some u')
  | Err => Err
  | Panic => Panic
  end.

Theorem gen_nonce_enc_enc0 mp u kalg kkid kkey (n : nat) draw :
  cose_Encrypt0Message_Encrypt_nonce_enc mp (Some u) kalg kkid kkey (Z.of_nat n) draw = chosen u kkey n draw.
Proof.
  unfold chosen, choose_nonce. change (derive_nonce u kkey n) with (derive_nonce (hmap (Some u)) kkey n).
  rewrite <- (gen_nonce_dec_enc0 mp (Some u) kalg kkid kkey n draw).
  unfold cose_Encrypt0Message_Encrypt_nonce_enc, cose_Encrypt0Message_Decrypt_nonce_dec.
  destruct (oget_bytes (Some u) 5) as [iv| |]; cbn [bind]; [|reflexivity|reflexivity].
  destruct (oget_bytes (Some u) 6) as [piv| |]; cbn [bind]; [|reflexivity|reflexivity].
  match goal with |- (do iv0 <- ?X; _) = _ => destruct X as [iv'| |] end; cbn [bind]; [|reflexivity|reflexivity].
  rewrite go_len_zero. destruct (Nat.eqb (length iv') 0); cbn [oset bind hmap]; reflexivity.
Qed.

Theorem gen_nonce_encs_alike : cose_EncryptMessage_Encrypt_nonce_enc = cose_Encrypt0Message_Encrypt_nonce_enc.
Proof. reflexivity. Qed.

