(* The CBOR form of cwt.Claims (cwt/claims.go): a struct with `keyasint,omitempty` members 1..7, encoded by
   key.MarshalCBOR and decoded by key.UnmarshalCBOR (fxamacker's map-to-struct decoding under the options of key/cbor.go).
   The member table comes from the translator (Gen/ShapesGen.claims_fields). *)
From Coq Require Import String.
From Coq Require Import NArith ZArith List Bool.
From Cose Require Import Lib.Base Lib.GenTypes Lib.Cbor Model.GoVal Model.CborGo Model.Wire Spec.RFC8392.
Import ListNotations.
Open Scope Z_scope.

Record wclaims := { w_iss : bytes; w_sub : bytes; w_aud : bytes; w_exp : Z; w_nbf : Z; w_iat : Z; w_cti : bytes }.
Definition zero_claims : wclaims := {| w_iss := []; w_sub := []; w_aud := []; w_exp := 0; w_nbf := 0; w_iat := 0; w_cti := [] |}.

(* what Validator.Validate looks at *)
Definition claims_of (c : wclaims) : claims :=
  {| c_iss := w_iss c; c_aud := w_aud c; c_exp := w_exp c; c_nbf := w_nbf c; c_iat := w_iat c |}.

(* ---------------------------------------------------------------- encoding: omitempty members in label order *)
Definition text_entry (l : Z) (s : bytes) : list (item * item) := match s with [] => [] | _ => [(int_item l, ITstr s)] end.
Definition uint_entry (l : Z) (u : Z) : list (item * item) := if u =? 0 then [] else [(int_item l, int_item u)].
Definition bytes_entry (l : Z) (b : bytes) : list (item * item) := match b with [] => [] | _ => [(int_item l, IBstr b)] end.

Definition claims_item (c : wclaims) : item :=
  IMap (text_entry 1 (w_iss c) ++ text_entry 2 (w_sub c) ++ text_entry 3 (w_aud c)
        ++ uint_entry 4 (w_exp c) ++ uint_entry 5 (w_nbf c) ++ uint_entry 6 (w_iat c) ++ bytes_entry 7 (w_cti c)).
Definition enc_claims (c : wclaims) : bytes := encode (claims_item c).

(* ---------------------------------------------------------------- decoding *)
(* a string member: text (valid UTF-8) through any tags, null leaves the zero value *)
Definition as_text (it : item) : res bytes :=
  do t <- through_tags it;
  match t with
  | ITstr s => if utf8_valid s then Ok s else Err
  | ISimple n => if (n =? 22)%N || (n =? 23)%N then Ok [] else Err
  | _ => Err
  end.

(* which member a map key addresses: integers by value, text by the decimal name; a key of any other type (byte string,
   array, map, tag, simple value, float) is an error *)
Inductive ckey := CField (n : Z) | COtherInt (z : Z) | COtherText (s : bytes).

Definition digit_name (n : Z) : bytes := [b8 (Z.to_N (48 + n))].
Definition field_of_text (s : bytes) : option Z :=
  find (fun n => bytes_eqb s (digit_name n)) [1; 2; 3; 4; 5; 6; 7].

Definition key_of (it : item) : res ckey :=
  match it with
  | IUint n => let z := Z.of_N n in if (1 <=? z) && (z <=? 7) then Ok (CField z) else Ok (COtherInt z)
  | INint n => if (MaxI64N <? n)%N then Err else Ok (COtherInt (- 1 - Z.of_N n))
  | ITstr s => if utf8_valid s then match field_of_text s with Some n => Ok (CField n) | None => Ok (COtherText s) end else Err
  | _ => Err
  end.

Definition ckey_eqb (a b : ckey) : bool :=
  match a, b with
  | CField x, CField y | COtherInt x, COtherInt y => Z.eqb x y
  | COtherText x, COtherText y => bytes_eqb x y
  | _, _ => false
  end.

Definition set_field (c : wclaims) (n : Z) (v : item) : res wclaims :=
  if n =? 1 then (do s <- as_text v; Ok {| w_iss := s; w_sub := w_sub c; w_aud := w_aud c; w_exp := w_exp c; w_nbf := w_nbf c; w_iat := w_iat c; w_cti := w_cti c |})
  else if n =? 2 then (do s <- as_text v; Ok {| w_iss := w_iss c; w_sub := s; w_aud := w_aud c; w_exp := w_exp c; w_nbf := w_nbf c; w_iat := w_iat c; w_cti := w_cti c |})
  else if n =? 3 then (do s <- as_text v; Ok {| w_iss := w_iss c; w_sub := w_sub c; w_aud := s; w_exp := w_exp c; w_nbf := w_nbf c; w_iat := w_iat c; w_cti := w_cti c |})
  else if n =? 4 then (do u <- as_uint64 v; Ok {| w_iss := w_iss c; w_sub := w_sub c; w_aud := w_aud c; w_exp := u; w_nbf := w_nbf c; w_iat := w_iat c; w_cti := w_cti c |})
  else if n =? 5 then (do u <- as_uint64 v; Ok {| w_iss := w_iss c; w_sub := w_sub c; w_aud := w_aud c; w_exp := w_exp c; w_nbf := u; w_iat := w_iat c; w_cti := w_cti c |})
  else if n =? 6 then (do u <- as_uint64 v; Ok {| w_iss := w_iss c; w_sub := w_sub c; w_aud := w_aud c; w_exp := w_exp c; w_nbf := w_nbf c; w_iat := u; w_cti := w_cti c |})
  else (do b <- as_bytes v; Ok {| w_iss := w_iss c; w_sub := w_sub c; w_aud := w_aud c; w_exp := w_exp c; w_nbf := w_nbf c; w_iat := w_iat c;
                                  w_cti := match b with Some x => x | None => [] end |}).

(* entries in wire order; a key met twice (after the matching above) is refused, whatever its value *)
Fixpoint fill (l : list (item * item)) (seen : list ckey) (c : wclaims) : res wclaims :=
  match l with
  | [] => Ok c
  | (k, v) :: r =>
      do ck <- key_of k;
      if existsb (ckey_eqb ck) seen then Err
      else match ck with
           | CField n => do c' <- set_field c n v; fill r (ck :: seen) c'
           | _ => fill r (ck :: seen) c
           end
  end.

(* Claims.UnmarshalCBOR: the data is first decoded as a generic value (duplicate keys, text and tag rules at every depth,
   also under claims the struct does not know), then the struct is filled *)
Definition dec_claims (raw : bytes) : res wclaims :=
  do it <- decode raw;
  do _ <- parse true it;
  do t <- through_tags it;
  match t with
  | IMap l => fill l [] zero_claims
  | ISimple n => if (n =? 22)%N || (n =? 23)%N then Ok zero_claims else Err
  | _ => Err
  end.
