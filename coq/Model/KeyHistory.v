(* C16, "the restriction is evaluated at every operation": histories of SetOps / Do on one implementation. *)
From Coq Require Import String.
From Coq Require Import ZArith List Bool Lia.
From Cose Require Import Lib.Base Lib.GenTypes Model.GoVal Model.Key Model.KeyCorr Model.KeyProofs.
Import ListNotations.
Open Scope Z_scope.

Definition st_after (l : list Z) : ops_state := match l with [] => OpsAbsent | _ => OpsList l end.

(* abstract history semantics: the state is just "the list in effect" *)
Fixpoint spec_steps (allow : Z -> ops_state -> bool) (st : ops_state) (ss : list step) : list bool :=
  match ss with
  | [] => []
  | SetOps l :: r => spec_steps allow (st_after l) r
  | Do op :: r => allow op st :: spec_steps allow st r
  end.

Definition fam_gate (f : fam) (op : Z) (st : ops_state) : bool :=
  match f with FEcdh => gate_allow 7 st || gate_allow 8 st | _ => gate_allow op st end.

Definition fam_ops_of (f : fam) : list Z :=
  match f with
  | FSym s => [sym_op1 s; sym_op2 s]
  | FEcdh => [7; 8]
  | _ => [1; 2]
  end.
Definition fam_allow (f : fam) (op : Z) (st : ops_state) : bool :=
  match f with FEcdh => ops_allow_dh st | _ => ops_allow (fam_ops_of f) op st end.

Lemma gate_fam_gate f op k : ops_state_of k <> OpsBad -> gate f op k = fam_gate f op (ops_state_of k).
Proof.
  intro H. unfold gate, fam_gate.
  destruct f; try (destruct (gate_is_gate_allow k op) as [E|E]; [exact E|contradiction]).
  destruct (gate_is_gate_allow k 7) as [E7|E7]; [|contradiction].
  destruct (gate_is_gate_allow k 8) as [E8|E8]; [|contradiction]. now rewrite E7, E8.
Qed.

Lemma st_after_not_bad l : st_after l <> OpsBad.
Proof. destruct l; discriminate. Qed.

(* every Do is decided by the list in effect at that moment, whatever was in effect at construction *)
Theorem history_gate f ss : forall k, ops_state_of k <> OpsBad ->
  run_steps f true k k ss = spec_steps (fam_gate f) (ops_state_of k) ss.
Proof.
  induction ss as [|[l|op] r IH]; intros k Hk; cbn [run_steps spec_steps]; [reflexivity| |].
  - rewrite IH by (rewrite ops_state_set_ops; apply st_after_not_bad).
    rewrite ops_state_set_ops. reflexivity.
  - rewrite (gate_fam_gate f op k Hk). f_equal. apply IH. exact Hk.
Qed.

(* on lists made of the family's own operations the gate is exactly what the property demands *)
Definition in_family (f : fam) (st : ops_state) : bool :=
  match st with OpsList l => forallb (fun o => memZ o (fam_ops_of f)) l | OpsAbsent => true | OpsBad => false end.

Lemma gate_is_allow_in_family f op st : in_family f st = true -> fam_gate f op st = fam_allow f op st.
Proof.
  destruct st as [| |l]; cbn; intro H; try discriminate.
  - destruct f; reflexivity.
  - destruct l as [|o r]; [destruct f; reflexivity|].
    destruct f; cbn [fam_gate fam_allow gate_allow ops_allow ops_allow_dh fam_ops_of] in *; rewrite ?H; try reflexivity.
Qed.

Fixpoint sets_in_family (f : fam) (ss : list step) : bool :=
  match ss with
  | [] => true
  | SetOps l :: r => in_family f (st_after l) && sets_in_family f r
  | Do _ :: r => sets_in_family f r
  end.

Lemma spec_steps_partial f ss : forall st, in_family f st = true -> sets_in_family f ss = true ->
  spec_steps (fam_gate f) st ss = spec_steps (fam_allow f) st ss.
Proof.
  induction ss as [|[l|op] r IH]; intros st Hst Hss; cbn [spec_steps]; [reflexivity| |].
  - cbn in Hss. apply andb_true_iff in Hss. destruct Hss. now apply IH.
  - rewrite (gate_is_allow_in_family f op st Hst). f_equal. now apply IH.
Qed.

(* PARTIAL form of the history clause: as long as every list ever put into key_ops consists of the
   family's own operations, each call is performed iff the list in effect at that call permits it. *)
Theorem history_partial f k ss :
  in_family f (ops_state_of k) = true -> sets_in_family f ss = true ->
  run_steps f true k k ss = spec_steps (fam_allow f) (ops_state_of k) ss.
Proof.
  intros Hk Hss. rewrite history_gate.
  - now apply spec_steps_partial.
  - intro E. rewrite E in Hk. discriminate.
Qed.

(* The full statement (any list, foreign operations included) is FALSE of the faithful model: a list
   changed after construction to hold the operation together with a foreign one still performs.
   Witness: HMAC key, SetOps [3; 9] (3 = encrypt) after hmac.New, then MACCreate. Recorded as finding F15. *)
Theorem history_full_refuted :
  exists f k ss, build (crypto_of {| or_ed_pub := []; or_point := (0, 0); or_on_curve := true; or_dh_priv_ok := true |}) f k = Some (true, k)
                 /\ run_steps f true k k ss <> spec_steps (fam_allow f) (ops_state_of k) ss.
Proof.
  exists (FSym Hmac),
         [(ilabel 1, VInt KInt 4); (ilabel 3, VInt KInt 5); (ilabel (-1), VBytes (zeros 32))],
         [SetOps [3; 9]; Do 9].
  split; [vm_compute; reflexivity | vm_compute; discriminate].
Qed.

Example history_hypotheses_satisfiable :
  let k := [(ilabel 1, VInt KInt 4); (ilabel 3, VInt KInt 5); (ilabel (-1), VBytes (zeros 32)); (ilabel 4, VInts [9; 10])] in
  let ss := [Do 9; SetOps [10]; Do 9; Do 10; SetOps []; Do 9] in
  in_family (FSym Hmac) (ops_state_of k) = true /\ sets_in_family (FSym Hmac) ss = true /\
  run_steps (FSym Hmac) true k k ss = [true; false; true; true].
Proof. vm_compute. repeat split; reflexivity. Qed.
