(* The function bodies regenerated from the source (Gen/FuncsGen.v, translator T11) compute what the hand-written
   models used by the property theorems compute, for every input. A change to one of these Go functions changes the
   generated definition; if it changes its meaning, the corresponding lemma below no longer checks. *)
From Coq Require Import String.
From Coq Require Import ZArith List Bool Lia Arith.
From Coq Require Import Strings.Byte.
From Cose Require Import Lib.Base Lib.GoSem Lib.GenTypes Lib.Cbor Model.GoVal Model.Wire Model.Key Model.Nonce Model.NonceProofs Model.Msg Model.MsgProofs Model.MsgRoundTrip Gen.FuncsGen.
Import ListNotations.
Open Scope Z_scope.

(* ---------------------------------------------------------------- key.Ops.Has / EmptyOrHas *)
Lemma ops_has_loop op : forall (os : list Z) i,
  go_range_from i os tt (fun _ o _ => if o =? op then Ok (CRet true) else Ok (CNext tt))
  = Ok (if memZ op os then inr true else inl tt).
Proof.
  induction os as [|o r IH]; intro i; cbn [go_range_from memZ existsb]; [reflexivity|].
  rewrite (Z.eqb_sym op o). destruct (o =? op); cbn [orb]; [reflexivity|]. rewrite IH. reflexivity.
Qed.

Theorem gen_ops_has os op : key_Ops_Has os op = Ok (memZ op os).
Proof.
  unfold key_Ops_Has, go_range. rewrite ops_has_loop. cbn [bind]. destruct (memZ op os); reflexivity.
Qed.

Theorem gen_ops_empty_or_has os op : key_Ops_EmptyOrHas os op = Ok (empty_or_has (Some os) op).
Proof.
  unfold key_Ops_EmptyOrHas, empty_or_has, go_len. destruct os as [|o r]; [reflexivity|].
  replace (Z.of_nat (length (o :: r)) =? 0) with false by (symmetry; apply Z.eqb_neq; cbn [length]; lia).
  apply gen_ops_has.
Qed.

(* a nil Ops (the model's None) has length 0 in Go: EmptyOrHas is true *)
Theorem gen_ops_empty_or_has_nil op : key_Ops_EmptyOrHas [] op = Ok (empty_or_has None op).
Proof. reflexivity. Qed.

Theorem gen_gate_is_model os op :
  key_Ops_EmptyOrHas os op = Ok (empty_or_has (Some os) op) /\ key_Ops_Has os op = Ok (memZ op os)
  /\ key_Ops_EmptyOrHas [] op = Ok (empty_or_has None op).
Proof. split; [apply gen_ops_empty_or_has|split; [apply gen_ops_has|apply gen_ops_empty_or_has_nil]]. Qed.
