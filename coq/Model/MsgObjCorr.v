(* Correspondence cases for the object-history model (Model/MsgObj.v): the harness stream objhist runs random
   histories of calls and field edits on one Sign1Message / Mac0Message / Encrypt0Message with the transparent fake
   primitives of MsgWireCorr and records the outcome of every call and the exported fields after it. *)
From Coq Require Import String.
From Coq Require Import NArith ZArith List Bool.
From Cose Require Import Lib.Base Lib.Cbor Model.GoVal Model.CborGo Model.CborCorr Model.Wire Model.Key Model.MsgLogic Model.Nonce Model.Msg Model.MsgWireCorr Model.MsgObj.
Import ListNotations.
Open Scope Z_scope.

Definition fp (k : fkey) : prims := {| pr_sig := fake_sig k; pr_mac := fake_mac k; pr_enc := fake_enc k; pr_sigs := [fake_sig k] |}.
(* COSE_Sign: several signers / verifiers (the single-key members are those of the first key, unused there) *)
Definition fps (ks : list fkey) : prims :=
  let k0 := match ks with k :: _ => k | [] => {| fk_map := []; fk_secret := []; fk_nsize := 0; fk_fail := true |} end in
  {| pr_sig := fake_sig k0; pr_mac := fake_mac k0; pr_enc := fake_enc k0; pr_sigs := map fake_sig ks |}.

Definition out_eqb (a b : out) : bool :=
  match a, b with
  | RNone, RNone | RErr, RErr | RPanic, RPanic | ROk, ROk => true
  | RBytes x, RBytes y => bytes_eqb x y
  | _, _ => false
  end.

(* what the harness reads off the object: the exported fields, Recipients() and Signatures() *)
Definition csnap := (option cosemap * option cosemap * option bytes * list recip * option (list (cosemap * option cosemap * option bytes)))%type.

Definition osigs_match (a : option (list sigent)) (b : option (list (cosemap * option cosemap * option bytes))) : bool :=
  match a, b with
  | None, None => true
  | Some x, Some y => list_eqb sig_matches x y
  | _, _ => false
  end.

Definition snap_eqb (a : snap) (b : csnap) : bool :=
  let '(p1, u1, b1, r1, s1) := a in let '(p2, u2, b2, r2, s2) := b in
  omap_eq p1 p2 && omap_eq u1 u2 && obytes_eq b1 b2 && list_eqb recip_eq r1 r2 && osigs_match s1 s2.

Inductive obj_case := OCase (k : kind) (ops : list op) (trace : list (out * csnap)).

Fixpoint trace_eqb (a : list (out * snap)) (b : list (out * csnap)) : bool :=
  match a, b with
  | [], [] => true
  | (x, s) :: r, (y, t) :: q => out_eqb x y && snap_eqb s t && trace_eqb r q
  | _, _ => false
  end.

Definition check_obj_case (c : obj_case) : bool :=
  match c with OCase k ops tr => trace_eqb (run k fresh ops) tr end.
