(* Correspondence cases for the object-history model (Model/MsgObj.v): the harness stream objhist runs random
   histories of calls and field edits on one Sign1Message / Mac0Message / Encrypt0Message with the transparent fake
   primitives of MsgWireCorr and records the outcome of every call and the exported fields after it. *)
From Coq Require Import String.
From Coq Require Import NArith ZArith List Bool.
From Cose Require Import Lib.Base Lib.Cbor Model.GoVal Model.CborGo Model.CborCorr Model.Wire Model.Key Model.MsgLogic Model.Nonce Model.Msg Model.MsgWireCorr Model.MsgObj.
Import ListNotations.
Open Scope Z_scope.

Definition fp (k : fkey) : prims := {| pr_sig := fake_sig k; pr_mac := fake_mac k; pr_enc := fake_enc k |}.

Definition out_eqb (a b : out) : bool :=
  match a, b with
  | RNone, RNone | RErr, RErr | RPanic, RPanic | ROk, ROk => true
  | RBytes x, RBytes y => bytes_eqb x y
  | _, _ => false
  end.

Definition snap_eqb (a b : snap) : bool :=
  let '(p1, u1, b1, r1) := a in let '(p2, u2, b2, r2) := b in
  omap_eq p1 p2 && omap_eq u1 u2 && obytes_eq b1 b2 && list_eqb recip_eq r1 r2.

Inductive obj_case := OCase (k : kind) (ops : list op) (trace : list (out * snap)).

Fixpoint trace_eqb (a b : list (out * snap)) : bool :=
  match a, b with
  | [], [] => true
  | (x, s) :: r, (y, t) :: q => out_eqb x y && snap_eqb s t && trace_eqb r q
  | _, _ => false
  end.

Definition check_obj_case (c : obj_case) : bool :=
  match c with OCase k ops tr => trace_eqb (run k fresh ops) tr end.
