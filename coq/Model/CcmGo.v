(* The CCM implementation of key/aesccm/ccm.go and the Encrypt / Decrypt of key/aesccm/aes_ccm.go (after the
   key_ops gate), statement by statement, over an arbitrary 16-byte block function. *)
From Coq Require Import String.
From Coq Require Import NArith ZArith List Arith Lia Bool.
From Cose Require Import Lib.Base Lib.CbcMac Spec.RFC3610.
Import ListNotations.

Section G.
  Variable E : bytes -> bytes.
  Variables M L : nat.

  Definition nonce_size : nat := 15 - L.
  (* maxlen(L, tagsize): 2^(8L) - 1, capped at MaxInt64 - tagsize *)
  Definition max_length : N :=
    let m := (256 ^ N.of_nat L - 1)%N in
    let cap := (9223372036854775807 - N.of_nat M)%N in
    if (8 <? L)%nat || (cap <? m)%N then cap else m.

  (* cbcRound: mac ^= data (16 bytes); mac = E(mac) *)
  Definition cbc_round (mac data : bytes) : bytes := E (xor16 mac data).

  (* cbcData: full blocks, then a zero-padded partial block *)
  Fixpoint cbc_data (fuel : nat) (mac data : bytes) : bytes :=
    match fuel with
    | O => mac
    | S f =>
        if 16 <=? length data then cbc_data f (cbc_round mac (firstn 16 data)) (skipn 16 data)
        else if 0 <? length data then cbc_round mac (data ++ zeros (16 - length data))
        else mac
    end.

  (* the length prefix written into the first authenticated-data block *)
  Definition go_alen (n : N) : bytes :=
    if (n <=? 65279)%N then be 2 n
    else if (n <? 4294967296)%N then Byte.xff :: Byte.xfe :: be 4 n
    else Byte.xff :: Byte.xff :: be 8 n.

  (* ccm.tag *)
  Definition go_tag (nonce plaintext adata : bytes) : res bytes :=
    let adata_flag : N := if Nat.ltb 0 (length adata) then 64%N else 0%N in
    let flags := (adata_flag + (N.of_nat M - 2) * 4 + (N.of_nat L - 1))%N in
    if negb (length nonce =? nonce_size) then Err
    else if (max_length <? N.of_nat (length plaintext))%N then Err
    else
      (* mac[0] = flags; PutUint64(mac[8:], len(plaintext)); copy(mac[1:16-L], nonce) *)
      let mac1 := b8 flags :: zeros 7 ++ be 8 (N.of_nat (length plaintext)) in
      let mac2 := firstn 1 mac1 ++ nonce ++ skipn (1 + length nonce) mac1 in
      let mac3 := E mac2 in
      let mac4 :=
        if 0 <? length adata then
          let pre := go_alen (N.of_nat (length adata)) in
          let i := length pre in
          let copied := Nat.min (16 - i) (length adata) in
          let block := pre ++ firstn copied adata ++ zeros (16 - i - copied) in
          cbc_data (length adata) (cbc_round mac3 block) (skipn copied adata)
        else mac3 in
      let mac5 := if 0 <? length plaintext then cbc_data (length plaintext) mac4 plaintext else mac4 in
      Ok (firstn M mac5).

  (* cipher.NewCTR(block, iv).XORKeyStream: the whole 16-byte IV is a big-endian counter *)
  Definition ctr_block (iv : bytes) (j : nat) : bytes :=
    E (be 16 ((of_be iv + N.of_nat j) mod 340282366920938463463374607431768211456)%N).
  Definition ctr_stream (iv : bytes) (nblocks : nat) : bytes := concat (map (ctr_block iv) (seq 0 nblocks)).

  Definition go_iv0 (nonce : bytes) : bytes := b8 (N.of_nat L - 1) :: nonce ++ zeros L.
  Definition go_iv1 (nonce : bytes) : bytes := b8 (N.of_nat L - 1) :: nonce ++ zeros (L - 1) ++ [Byte.x01].

  (* ccm.Seal: a failing tag() panics *)
  Definition go_seal (nonce plaintext adata : bytes) : res bytes :=
    match go_tag nonce plaintext adata with
    | Ok tag =>
        let s0 := E (go_iv0 nonce) in
        let tag' := xor_bytes_trunc tag s0 in
        Ok (xor_bytes_trunc plaintext (ctr_stream (go_iv1 nonce) ((length plaintext + 15) / 16)) ++ tag')
    | _ => Panic
    end.

  (* ccm.Open *)
  Definition go_open (nonce ciphertext adata : bytes) : res bytes :=
    if length ciphertext <? M then Err
    else if (max_length + N.of_nat M <? N.of_nat (length ciphertext))%N then Err
    else
      let ct := firstn (length ciphertext - M) ciphertext in
      let tag := xor_bytes_trunc (skipn (length ciphertext - M) ciphertext) (E (go_iv0 nonce)) in
      let plaintext := xor_bytes_trunc ct (ctr_stream (go_iv1 nonce) ((length ct + 15) / 16)) in
      match go_tag nonce plaintext adata with
      | Ok expected => if bytes_eqb tag expected then Ok plaintext else Err
      | Err => Err
      | Panic => Panic
      end.

  (* aesCCM.Encrypt / Decrypt after the key_ops gate *)
  Definition encrypt (iv plaintext adata : bytes) : res bytes :=
    if negb (length iv =? nonce_size) then Err
    else if (max_length <? N.of_nat (length plaintext))%N then Err
    else go_seal iv plaintext adata.
  Definition decrypt (iv ciphertext adata : bytes) : res bytes :=
    if negb (length iv =? nonce_size) then Err else go_open iv ciphertext adata.
End G.
