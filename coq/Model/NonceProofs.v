From Coq Require Import String.
From Coq Require Import ZArith List Bool Lia.
From Cose Require Import Lib.Base Lib.GenTypes Model.GoVal Model.Key Model.KeyProofs Model.Nonce.
Import ListNotations.
Open Scope Z_scope.

Lemma zeros_length n : length (zeros n) = n.
Proof. unfold zeros. apply repeat_length. Qed.

Lemma xor_bytes_length a b : length (xor_bytes a b) = length a.
Proof. revert b. induction a as [|x a IH]; intros [|y b]; cbn; auto. Qed.

(* xorIV never panics under the guard its callers establish, and always yields `size` bytes *)
Theorem xor_iv_no_panic context partial size : (length partial <= size)%nat ->
  exists iv, xor_iv context partial size = Ok iv /\ length iv = size.
Proof.
  intro H. unfold xor_iv. replace (Nat.ltb size (length partial)) with false by (symmetry; apply Nat.ltb_ge; lia).
  eexists. split; [reflexivity|]. rewrite xor_bytes_length, app_length, zeros_length. lia.
Qed.

Lemma xor_byte_zero_r x : xor_byte x Byte.x00 = x.
Proof. unfold xor_byte. change (Byte.to_N Byte.x00) with 0%N. rewrite N.lxor_0_r. apply b8_to_N. Qed.

Lemma xor_bytes_zeros a n : map (fun p => xor_byte (fst p) (snd p)) (combine a (zeros n)) = firstn n a.
Proof.
  revert a. induction n as [|n IH]; intros [|x a]; cbn; try reflexivity.
  rewrite xor_byte_zero_r. f_equal. apply IH.
Qed.

Lemma zeros_S n : zeros (S n) = Byte.x00 :: zeros n.
Proof. reflexivity. Qed.

Lemma firstn_app_zeros n : forall (b : bytes) m, (n <= m)%nat -> firstn n (b ++ zeros m) = firstn n (b ++ zeros n).
Proof.
  induction n as [|n IH]; intros b m H; [reflexivity|].
  destruct b as [|y b].
  - destruct m as [|m]; [lia|]. cbn [app]. rewrite !zeros_S. cbn [firstn]. f_equal.
    apply (IH [] m). lia.
  - cbn [app firstn]. f_equal. rewrite (IH b m) by lia. rewrite (IH b (S n)) by lia. reflexivity.
Qed.

Lemma fit_cons n y b : fit (S n) (y :: b) = y :: fit n b.
Proof. unfold fit. cbn [app firstn]. f_equal. apply firstn_app_zeros. lia. Qed.
Lemma fit_nil n : fit (S n) [] = Byte.x00 :: fit n [].
Proof. unfold fit. cbn [app]. rewrite zeros_S. cbn [firstn]. f_equal. Qed.

(* the loop of xorIV computes the RFC 9052 nonce *)
Lemma xor_bytes_fit a : forall b, xor_bytes a b = map (fun p => xor_byte (fst p) (snd p)) (combine a (fit (length a) b)).
Proof.
  induction a as [|x a IH]; intros b; [reflexivity|].
  destruct b as [|y b]; cbn [xor_bytes length].
  - rewrite fit_nil. cbn [combine map fst snd]. rewrite xor_byte_zero_r. f_equal.
    specialize (IH []). destruct a as [|x' a']; [reflexivity|]. cbn [xor_bytes] in IH. exact IH.
  - rewrite fit_cons. cbn [combine map fst snd]. f_equal. apply IH.
Qed.

Theorem xor_iv_is_rfc base partial size : (length partial <= size)%nat ->
  xor_iv base partial size = Ok (rfc_nonce base partial size).
Proof.
  intro H. unfold xor_iv, rfc_nonce.
  replace (Nat.ltb size (length partial)) with false by (symmetry; apply Nat.ltb_ge; lia).
  rewrite xor_bytes_fit. rewrite app_length, zeros_length.
  replace (size - length partial + length partial)%nat with size by lia. reflexivity.
Qed.

(* ---- decisions of derive_nonce / choose_nonce ---- *)
Definition bytes_at (m : cosemap) (l : Z) : bytes := get_bytes_ m l.

Theorem refusals unprot key nsize :
  (get_bytes unprot 5 = Err \/ get_bytes unprot 6 = Err
   \/ (bytes_at unprot 6 <> [] /\ bytes_at unprot 5 <> [])
   \/ (bytes_at unprot 6 <> [] /\ (nsize <= length (bytes_at unprot 6))%nat)
   \/ (bytes_at unprot 6 <> [] /\ (get_bytes key 5 = Err \/ bytes_at key 5 = []))) ->
  derive_nonce unprot key nsize = Err.
Proof.
  unfold derive_nonce, bytes_at, get_bytes_.
  intros [H|[H|[[H1 H2]|[[H1 H2]|[H1 H2]]]]].
  - now rewrite H.
  - rewrite H. destruct (get_bytes unprot 5); reflexivity.
  - destruct (get_bytes unprot 5) as [iv| |]; try reflexivity. destruct (get_bytes unprot 6) as [piv| |]; try reflexivity.
    destruct piv; [contradiction|]. destruct iv; [contradiction|]. reflexivity.
  - destruct (get_bytes unprot 5) as [iv| |]; try reflexivity. destruct (get_bytes unprot 6) as [piv| |]; try reflexivity.
    destruct piv as [|p piv]; [contradiction|]. cbn [length Nat.eqb negb].
    destruct iv; cbn [length Nat.eqb negb]; [|reflexivity].
    cbn [length] in H2. replace (Nat.leb nsize (S (length piv))) with true by (symmetry; apply Nat.leb_le; exact H2). reflexivity.
  - destruct (get_bytes unprot 5) as [iv| |]; try reflexivity. destruct (get_bytes unprot 6) as [piv| |]; try reflexivity.
    destruct piv as [|p piv]; [contradiction|]. cbn [length Nat.eqb negb].
    destruct iv; cbn [length Nat.eqb negb]; [|reflexivity].
    destruct (Nat.leb nsize (S (length piv))); [reflexivity|].
    destruct H2 as [H2|H2]; [now rewrite H2|].
    destruct (get_bytes key 5) as [base| |]; try reflexivity. subst base. reflexivity.
Qed.

(* the caller's IV is used verbatim *)
Theorem iv_verbatim unprot key nsize iv : get_bytes unprot 5 = Ok iv -> iv <> [] -> get_bytes unprot 6 = Ok [] ->
  forall draw, choose_nonce unprot key nsize draw = Ok (iv, unprot).
Proof.
  intros H5 Hne H6 draw. unfold choose_nonce, derive_nonce. rewrite H5, H6. cbn [length Nat.eqb negb].
  destruct iv; [contradiction|reflexivity].
Qed.

(* a Partial IV yields the RFC 9052 nonce, of exactly the nonce length *)
Theorem partial_iv_rfc unprot key nsize piv base :
  get_bytes unprot 5 = Ok [] -> get_bytes unprot 6 = Ok piv -> piv <> [] -> (length piv < nsize)%nat ->
  get_bytes key 5 = Ok base -> base <> [] ->
  derive_nonce unprot key nsize = Ok (rfc_nonce base piv nsize) /\ length (rfc_nonce base piv nsize) = nsize.
Proof.
  intros H5 H6 Hp Hl Hb Hbn. unfold derive_nonce. rewrite H5, H6, Hb.
  destruct piv as [|p piv]; [contradiction|]. cbn [length Nat.eqb negb] in *.
  replace (Nat.leb nsize (S (length piv))) with false by (symmetry; apply Nat.leb_gt; exact Hl).
  destruct base as [|b0 base]; [contradiction|]. cbn [length Nat.eqb].
  rewrite xor_iv_is_rfc by (cbn [length]; lia). split; [reflexivity|].
  destruct (xor_iv_no_panic (b0 :: base) (p :: piv) nsize) as [iv [E L]]; [cbn [length]; lia|].
  rewrite xor_iv_is_rfc in E by (cbn [length]; lia). inversion E as [E']. rewrite E'. exact L.
Qed.

(* neither IV nor Partial IV: the draw is the nonce and is published in the unprotected IV header *)
Theorem random_published unprot key nsize draw :
  get_bytes unprot 5 = Ok [] -> get_bytes unprot 6 = Ok [] ->
  choose_nonce unprot key nsize draw = Ok (draw, set_label unprot (ilabel 5) (VBytes draw))
  /\ get_bytes (set_label unprot (ilabel 5) (VBytes draw)) 5 = Ok draw.
Proof.
  intros H5 H6. unfold choose_nonce, derive_nonce. rewrite H5, H6. cbn [length Nat.eqb negb]. split; [reflexivity|].
  unfold get_bytes, set_label. cbn [lookup]. rewrite label_eqb_refl. reflexivity.
Qed.

(* every nonce that reaches the cipher has exactly the algorithm's nonce length *)
Theorem nonce_len unprot key nsize draw nonce u' : length draw = nsize ->
  choose_nonce unprot key nsize draw = Ok (nonce, u') -> aead_takes nsize nonce = true -> length nonce = nsize.
Proof. intros _ _ H. unfold aead_takes in H. now apply Nat.eqb_eq in H. Qed.

(* without relying on the cipher's own check: derived and drawn nonces have the right length *)
Theorem nonce_len_unless_caller_iv unprot key nsize draw nonce u' : length draw = nsize ->
  get_bytes unprot 5 = Ok [] ->
  choose_nonce unprot key nsize draw = Ok (nonce, u') -> length nonce = nsize.
Proof.
  intros Hd H5 H. unfold choose_nonce, derive_nonce in H. rewrite H5 in H.
  destruct (get_bytes unprot 6) as [piv| |]; try discriminate.
  destruct piv as [|p piv]; cbn [length Nat.eqb negb] in H.
  - inversion H as [[E1 E2]]. rewrite <- E1. exact Hd.
  - destruct (Nat.leb nsize (S (length piv))) eqn:L; [discriminate|]. apply Nat.leb_gt in L.
    destruct (get_bytes key 5) as [base| |]; try discriminate.
    destruct (Nat.eqb (length base) 0); [discriminate|].
    destruct (xor_iv_no_panic base (p :: piv) nsize) as [iv [E Li]]; [cbn [length]; lia|].
    rewrite E in H. destruct (Nat.eqb (length iv) 0) eqn:Z; inversion H as [[E1 E2]]; rewrite <- E1; [exact Hd|exact Li].
Qed.

(* Decrypt derives the identical nonce from the headers Encrypt left behind *)
Theorem decrypt_same_nonce unprot key nsize draw nonce u' : nonce <> [] ->
  (forall v, lookup unprot (ilabel 5) = Some v -> exists b, v = VBytes b) ->
  choose_nonce unprot key nsize draw = Ok (nonce, u') -> derive_nonce u' key nsize = Ok nonce.
Proof.
  intros Hne Hty H. unfold choose_nonce in H.
  destruct (derive_nonce unprot key nsize) as [iv| |] eqn:D; try discriminate.
  destruct (Nat.eqb (length iv) 0) eqn:Z; inversion H; subst; clear H; [|exact D].
  (* the published IV is read back; a Partial IV cannot be present, or the derivation above would not be empty *)
  unfold derive_nonce in *. unfold get_bytes at 1. unfold set_label. cbn [lookup]. rewrite label_eqb_refl.
  assert (G6 : get_bytes ((ilabel 5, VBytes nonce) :: remove_label unprot (ilabel 5)) 6 = get_bytes unprot 6).
  { unfold get_bytes. cbn [lookup]. rewrite label_eqb_neq by (unfold ilabel; congruence).
    rewrite lookup_remove_other by (unfold ilabel; congruence). reflexivity. }
  rewrite G6.
  destruct (get_bytes unprot 5) as [iv0| |]; try discriminate.
  destruct (get_bytes unprot 6) as [piv| |]; try discriminate.
  destruct piv as [|p piv]; cbn [length Nat.eqb negb] in *; [reflexivity|].
  destruct iv0; cbn [length Nat.eqb negb] in D; [|discriminate].
  destruct (Nat.leb nsize (S (length piv))) eqn:L; [discriminate|]. apply Nat.leb_gt in L.
  destruct (get_bytes key 5) as [base| |]; try discriminate.
  destruct (Nat.eqb (length base) 0); [discriminate|].
  destruct (xor_iv_no_panic base (p :: piv) nsize) as [iv' [E Li]]; [cbn [length]; lia|].
  rewrite E in D. inversion D; subst. apply Nat.eqb_eq in Z. lia.
Qed.

(* ---- freshness over a history of encryptions ---- *)
Definition fresh_message (u : cosemap) : Prop := get_bytes u 5 = Ok [] /\ get_bytes u 6 = Ok [].

Lemma fresh_nonces_are_draws key nsize : forall draws us, Forall fresh_message us -> (length us <= length draws)%nat ->
  fresh_nonces key nsize draws us = map (@Ok bytes) (firstn (length us) draws).
Proof.
  induction draws as [|d ds IH]; intros [|u us] Hf Hl; cbn [fresh_nonces length firstn map]; try reflexivity; try (cbn in Hl; lia).
  inversion Hf as [|? ? [H5 H6] Hr]; subst.
  destruct (random_published u key nsize d H5 H6) as [E _]. rewrite E. f_equal. apply IH; [assumption|cbn in Hl; lia].
Qed.

Lemma NoDup_firstn {A} (l : list A) : forall n, NoDup l -> NoDup (firstn n l).
Proof.
  induction l as [|x l IH]; intros [|n] H; cbn; try constructor.
  - inversion H; subst. intro Hin. apply H2. clear -Hin. revert n Hin. induction l as [|y l IHl]; intros [|n] Hin; cbn in *; try contradiction.
    destruct Hin as [->|Hin]; [now left|right; eapply IHl; exact Hin].
  - inversion H; subst. now apply IH.
Qed.

Lemma NoDup_map_Ok (l : list bytes) : NoDup l -> NoDup (map (@Ok bytes) l).
Proof.
  induction 1 as [|x l Hx Hl IH]; cbn; constructor; [|exact IH].
  intro Hin. apply in_map_iff in Hin. destruct Hin as [y [E Hy]]. inversion E; subst. contradiction.
Qed.

Theorem fresh_nonces_distinct key nsize draws us :
  NoDup draws -> Forall fresh_message us -> (length us <= length draws)%nat ->
  NoDup (fresh_nonces key nsize draws us).
Proof.
  intros Hnd Hf Hl. rewrite fresh_nonces_are_draws by assumption.
  apply NoDup_map_Ok. apply NoDup_firstn. exact Hnd.
Qed.

(* nonce sizes read from the source are the RFC 9053 ones *)
Lemma nonce_sizes_rfc9053 :
  map nonce_size_of [1; 2; 3; 24; 10; 11; 30; 31; 12; 13; 32; 33] = [12; 12; 12; 12; 13; 13; 13; 13; 7; 7; 7; 7].
Proof. vm_compute. reflexivity. Qed.

Example hypotheses_satisfiable :
  let key := [(ilabel 1, VInt KInt 4); (ilabel 5, VBytes (hex "0102030405060708"))] in
  let u := [(ilabel 6, VBytes (hex "0a0b"))] in
  derive_nonce u key 12 = Ok (hex "010203040506070800000a0b")
  /\ choose_nonce [] key 12 (hex "aabbccddeeff001122334455") = Ok (hex "aabbccddeeff001122334455", [(ilabel 5, VBytes (hex "aabbccddeeff001122334455"))])
  /\ derive_nonce [(ilabel 6, VBytes (hex "0a0b")); (ilabel 5, VBytes (hex "01"))] key 12 = Err.
Proof. vm_compute. repeat split; reflexivity. Qed.

(* ---- C03: the nonce material binds. For one key (one Base IV) and one nonce length, two Partial IVs of the same
   length that yield the same nonce are the same bytes; two caller IVs that yield the same nonce are the same bytes.
   (A Partial IV and the same value with leading zero bytes denote the same RFC 9052 nonce: lengths are compared.) *)
Lemma log2_lt8 x : (x < 256)%N -> (N.log2 x < 8)%N.
Proof.
  intro H. destruct (N.eq_dec x 0) as [->|Hx]; [cbn; lia|]. apply N.log2_lt_pow2; [lia|exact H].
Qed.

Lemma lxor_lt256 x y : (x < 256)%N -> (y < 256)%N -> (N.lxor x y < 256)%N.
Proof.
  intros Hx Hy. destruct (N.eq_dec (N.lxor x y) 0) as [E|E]; [lia|].
  apply (N.log2_lt_pow2 (N.lxor x y) 8); [lia|].
  eapply N.le_lt_trans; [apply N.log2_lxor|]. apply N.max_lub_lt; apply log2_lt8; assumption.
Qed.

Lemma xor_byte_cancel_r a b c : xor_byte a c = xor_byte b c -> a = b.
Proof.
  unfold xor_byte. intro H.
  pose proof (to_N_lt a) as Ba. pose proof (to_N_lt b) as Bb. pose proof (to_N_lt c) as Bc.
  assert (E : N.lxor (Byte.to_N a) (Byte.to_N c) = N.lxor (Byte.to_N b) (Byte.to_N c)).
  { apply (f_equal Byte.to_N) in H. rewrite !to_N_b8 in H.
    rewrite !N.mod_small in H by (apply lxor_lt256; assumption). exact H. }
  assert (E2 : Byte.to_N a = Byte.to_N b).
  { apply (f_equal (fun z => N.lxor z (Byte.to_N c))) in E.
    rewrite !N.lxor_assoc, !N.lxor_nilpotent, !N.lxor_0_r in E. exact E. }
  rewrite <- (b8_to_N a), <- (b8_to_N b). now rewrite E2.
Qed.

Lemma xor_combine_inj : forall (a b c : bytes), length a = length b ->
  map (fun p => xor_byte (fst p) (snd p)) (combine a c) = map (fun p => xor_byte (fst p) (snd p)) (combine b c) ->
  (length a <= length c)%nat -> a = b.
Proof.
  induction a as [|x a IH]; intros [|y b] c L H Hc; try discriminate; [reflexivity|].
  destruct c as [|z c]; [cbn [length] in Hc; lia|]. cbn [combine map fst snd] in H. inversion H as [[H0 H1]].
  apply xor_byte_cancel_r in H0. subst y. f_equal. apply (IH b c); [now inversion L|exact H1|cbn [length] in Hc; lia].
Qed.

Lemma fit_length n b : length (fit n b) = n.
Proof. unfold fit. rewrite firstn_length, app_length, zeros_length. lia. Qed.

Theorem rfc_nonce_injective base p1 p2 n : length p1 = length p2 -> (length p1 <= n)%nat ->
  rfc_nonce base p1 n = rfc_nonce base p2 n -> p1 = p2.
Proof.
  intros L Hn H. unfold rfc_nonce in H. rewrite <- L in H.
  apply xor_combine_inj in H.
  - now apply app_inv_head in H.
  - rewrite !app_length. lia.
  - rewrite app_length, zeros_length, fit_length. lia.
Qed.

(* Decrypt (and Encrypt) of two messages under one key: equal derived nonces come from equal nonce material *)
Theorem nonce_material_binds u1 u2 key nsize nonce :
  derive_nonce u1 key nsize = Ok nonce -> derive_nonce u2 key nsize = Ok nonce -> nonce <> [] ->
  forall iv1 piv1 iv2 piv2, get_bytes u1 5 = Ok iv1 -> get_bytes u1 6 = Ok piv1 -> get_bytes u2 5 = Ok iv2 -> get_bytes u2 6 = Ok piv2 ->
  (piv1 = [] -> piv2 = [] -> iv1 = iv2) /\ (length piv1 = length piv2 -> piv1 = piv2).
Proof.
  intros D1 D2 Hne iv1 piv1 iv2 piv2 A1 B1 A2 B2. unfold derive_nonce in D1, D2. rewrite A1, B1 in D1. rewrite A2, B2 in D2.
  split.
  - intros -> ->. cbn [length Nat.eqb negb] in D1, D2. congruence.
  - intro L. destruct piv1 as [|x1 p1]; destruct piv2 as [|x2 p2]; try discriminate; [reflexivity|].
    cbn [length Nat.eqb negb] in D1, D2.
    destruct (negb (Nat.eqb (length iv1) 0)); [discriminate|]. destruct (negb (Nat.eqb (length iv2) 0)); [discriminate|].
    destruct (Nat.leb nsize (S (length p1))) eqn:G1; [discriminate|]. destruct (Nat.leb nsize (S (length p2))) eqn:G2; [discriminate|].
    apply Nat.leb_gt in G1. apply Nat.leb_gt in G2.
    destruct (get_bytes key 5) as [base| |]; try discriminate.
    destruct (Nat.eqb (length base) 0); [discriminate|].
    rewrite xor_iv_is_rfc in D1 by (cbn [length]; lia). rewrite xor_iv_is_rfc in D2 by (cbn [length]; lia).
    apply (rfc_nonce_injective base (x1 :: p1) (x2 :: p2) nsize); [exact L|cbn [length]; lia|congruence].
Qed.
