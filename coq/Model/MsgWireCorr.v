(* Correspondence cases for the message layer: transparent fake primitives that both sides compute,
   so that the produced bytes expose the authenticated structures and consumption exposes every gate. *)
From Coq Require Import String.
From Coq Require Import NArith ZArith List Bool.
From Cose Require Import Lib.Base Lib.Cbor Model.GoVal Model.CborGo Model.CborCorr Model.Wire Model.Key Model.MsgLogic Model.Nonce Model.Msg.
Import ListNotations.
Open Scope Z_scope.

Record fkey := { fk_map : cosemap; fk_secret : bytes; fk_nsize : nat; fk_fail : bool }.

(* signature / tag = secret || data *)
Definition fake_sig (k : fkey) : sigprim :=
  {| sg_key := fk_map k;
     sg_sign := fun tbs => if fk_fail k then Err else Ok (fk_secret k ++ tbs)%list;
     sg_verify := fun tbs sig => bytes_eqb sig (fk_secret k ++ tbs)%list |}.
Definition fake_mac (k : fkey) : macprim :=
  {| mc_key := fk_map k;
     mc_create := fun tbm => if fk_fail k then Err else Ok (fk_secret k ++ tbm)%list;
     mc_verify := fun tbm tag => bytes_eqb tag (fk_secret k ++ tbm)%list |}.
(* ciphertext = secret || len(nonce) || nonce || be32 len(aad) || aad || plaintext *)
Definition fake_hdr (k : fkey) (nonce aad : bytes) : bytes :=
  (fk_secret k ++ b8 (N.of_nat (length nonce)) :: nonce ++ be 4 (N.of_nat (length aad)) ++ aad)%list.
Definition fake_enc (k : fkey) : encprim :=
  {| en_key := fk_map k; en_nonce := fk_nsize k;
     en_encrypt := fun nonce pt aad =>
       if fk_fail k || negb (Nat.eqb (length nonce) (fk_nsize k)) then Err else Ok (fake_hdr k nonce aad ++ pt)%list;
     en_decrypt := fun nonce ct aad =>
       if negb (Nat.eqb (length nonce) (fk_nsize k)) then Err
       else let h := fake_hdr k nonce aad in
            if has_prefix h ct then Ok (skipn (length h) ct) else Err |}.

Definition omap_eq (a b : option cosemap) : bool :=
  match a, b with
  | None, None => true
  | Some x, Some y => geq 40 (VMap x) (VMap y)
  | _, _ => false
  end.
Definition obytes_eq (a b : option bytes) : bool :=
  match a, b with None, None => true | Some x, Some y => bytes_eqb x y | _, _ => false end.

Definition rleaf_eq (a b : rleaf) : bool :=
  omap_eq (rl_prot a) (rl_prot b) && omap_eq (rl_unprot a) (rl_unprot b) && obytes_eq (rl_ct a) (rl_ct b).
Fixpoint list_eqb {A B} (f : A -> B -> bool) (a : list A) (b : list B) : bool :=
  match a, b with [], [] => true | x :: r, y :: s => f x y && list_eqb f r s | _, _ => false end.
Definition recip_eq (a b : recip) : bool := rleaf_eq (rc_leaf a) (rc_leaf b) && list_eqb rleaf_eq (rc_subs a) (rc_subs b).

(* what the harness reads off a consumed message *)
Record seen := { s_prot : cosemap; s_unprot : option cosemap; s_payload : gval;
                 s_recips : list recip; s_sigs : list (cosemap * option cosemap * option bytes) }.

Definition payload_val (pany : bool) (p : option bytes) : res gval :=
  match p with
  | None => Ok VNil
  | Some b => if pany then unmarshal_any b else Ok (VBytes b)
  end.

Definition view_matches (pany : bool) (v : view) (s : seen) : bool :=
  geq 40 (VMap (v_prot v)) (VMap (s_prot s)) && omap_eq (v_unprot v) (s_unprot s)
  && match payload_val pany (v_payload v) with Ok g => geq 40 g (s_payload s) | _ => false end.

Definition sig_matches (e : sigent) (s : cosemap * option cosemap * option bytes) : bool :=
  let '(p, u, g) := s in
  geq 40 (VMap (se_prot e)) (VMap p) && omap_eq (se_unprot e) u && obytes_eq (se_sig e) g.

Definition out_matches {A} (r : res A) (o : option seen) (f : A -> seen -> bool) : bool :=
  match r, o with
  | Ok a, Some s => f a s
  | Err, None => true
  | _, _ => false
  end.

Definition prod_matches (r : res bytes) (o : option bytes) : bool :=
  match r, o with
  | Ok a, Some b => bytes_eqb a b
  | Err, None => true
  | _, _ => false
  end.

(* typed payload on the producing side: the bytes placed on the wire *)
Inductive pay := PNil | PBytes (b : bytes) | PAny (v : gval).
Definition pay_bytes (p : pay) : option (option bytes) :=
  match p with
  | PNil => Some None
  | PBytes b => Some (Some b)
  | PAny v => match marshal_any v with Some b => Some (Some b) | None => None end
  end.

(* values the model keeps opaque (maps keyed by something other than a label, time.Time): it cannot re-encode them *)
Fixpoint has_other (fuel : nat) (v : gval) : bool :=
  match fuel with
  | O => true
  | S f =>
    match v with
    | VOther _ => true
    | VArr l => existsb (has_other f) l
    | VMap m => existsb (fun e => has_other f (snd e)) m
    | VTag _ x => has_other f x
    | _ => false
    end
  end.
Definition wire_opaque (k : kind) (data : bytes) : bool :=
  match unmarshal_wire k data with
  | Ok w => has_other 40 (VMap (omap (w_unprot w)))
  | _ => false
  end.

Inductive msg_case :=
| MProd (k : kind) (key : fkey) (prot unprot : option cosemap) (payload : pay) (ext : option bytes) (draw : bytes) (rs : list recip) (out : option bytes)
| MProdS (keys : list fkey) (prot unprot : option cosemap) (payload : pay) (ext : option bytes) (out : option bytes)
| MCons (k : kind) (pany : bool) (key : fkey) (data : bytes) (ext : option bytes) (out : option seen)
| MConsS (pany : bool) (keys : list fkey) (data : bytes) (ext : option bytes) (out : option seen)
| MReenc (k : kind) (data : bytes) (out : option bytes)
| MUntag (data out : bytes)
| MKdfEnc (c : kdf_ctx) (out : option bytes)
| MKdfDec (data : bytes) (out : option kdf_ctx)
| MRecEnc (r : recip) (out : option bytes)
| MRecDec (data : bytes) (out : option recip)
| MHdr (data : option bytes) (out : option cosemap)
| MHdrEnc (m : cosemap) (out : option bytes)
| MGetMap (m : cosemap) (l : Z) (ok : bool) (out : option cosemap).

Definition party_eq (a b : party) : bool :=
  obytes_eq (pi_identity a) (pi_identity b) && obytes_eq (pi_nonce a) (pi_nonce b) && obytes_eq (pi_other a) (pi_other b).
Definition kdf_eq (a b : kdf_ctx) : bool :=
  (kc_alg a =? kc_alg b) && party_eq (kc_u a) (kc_u b) && party_eq (kc_v a) (kc_v b)
  && (sp_len (kc_pub a) =? sp_len (kc_pub b)) && omap_eq (sp_prot (kc_pub a)) (sp_prot (kc_pub b))
  && obytes_eq (sp_other (kc_pub a)) (sp_other (kc_pub b)) && obytes_eq (kc_priv a) (kc_priv b).

Definition check_msg_case (c : msg_case) : bool :=
  match c with
  | MProd k key prot unprot payload ext draw rs out =>
      match pay_bytes payload with
      | None => true                        (* a payload value outside the model's encoder *)
      | Some pl =>
          prod_matches
            (match k with
             | KSign1 => sign1_produce (fake_sig key) prot unprot pl ext
             | KMac0 => mac0_produce (fake_mac key) prot unprot pl ext
             | KMac => mac_produce (fake_mac key) prot unprot pl ext rs
             | KEnc0 => enc0_produce (fake_enc key) prot unprot pl ext draw
             | KEnc => enc_produce (fake_enc key) prot unprot pl ext draw rs
             | KSign => Err
             end) out
      end
  | MProdS keys prot unprot payload ext out =>
      match pay_bytes payload with
      | None => true
      | Some pl => prod_matches (sign_produce (map fake_sig keys) prot unprot pl ext) out
      end
  | MCons k pany key data ext out =>
      match k with
      | KSign1 => out_matches (sign1_consume pany (fake_sig key) data ext) out (fun v s => view_matches pany v s)
      | KMac0 => out_matches (mac0_consume pany (fake_mac key) data ext) out (fun v s => view_matches pany v s)
      | KEnc0 => out_matches (enc0_consume pany (fake_enc key) data ext) out (fun v s => view_matches pany v s)
      | KMac => out_matches (mac_consume pany (fake_mac key) data ext) out
                  (fun v s => view_matches pany (fst v) s && list_eqb recip_eq (snd v) (s_recips s))
      | KEnc => out_matches (enc_consume pany (fake_enc key) data ext) out
                  (fun v s => view_matches pany (fst v) s && list_eqb recip_eq (snd v) (s_recips s))
      | KSign => false
      end
  | MConsS pany keys data ext out =>
      out_matches (sign_consume pany (map fake_sig keys) data ext) out
        (fun v s => view_matches pany (fst v) s && list_eqb sig_matches (snd v) (s_sigs s))
  | MReenc k data out => prod_matches (reencode k data) out || wire_opaque k data
  | MUntag data out => bytes_eqb (remove_cbor_tag data) out
  | MKdfEnc c out => match enc_kdf_ctx c, out with
                     | Some a, Some b => bytes_eqb a b
                     | None, None => true
                     | None, Some _ => has_other 40 (VMap (omap (sp_prot (kc_pub c))))
                     | _, _ => false
                     end
  | MKdfDec data out => match dec_kdf_ctx data, out with
                        | Ok a, Some b => kdf_eq a b
                        | Err, None => true
                        | _, _ => false
                        end
  | MRecEnc r out => match marshal_recip r, out with
                     | Some a, Some b => bytes_eqb a b
                     | None, None => true
                     | None, Some _ => existsb (fun l => has_other 40 (VMap (omap (rl_prot l))) || has_other 40 (VMap (omap (rl_unprot l)))) (rc_leaf r :: rc_subs r)
                     | _, _ => false
                     end
  | MRecDec data out => match recip_decode data, out with
                        | Ok a, Some b => recip_eq a b
                        | Err, None => true
                        | _, _ => false
                        end
  | MHdr data out => match headers_from_bytes data, out with
                     | Ok a, Some b => geq 40 (VMap a) (VMap b)
                     | Err, None => true
                     | _, _ => false
                     end
  | MHdrEnc m out => match headers_bytes m, out with
                     | Some a, Some b => bytes_eqb a b
                     | None, None => true
                     | None, Some _ => has_other 40 (VMap m)
                     | _, _ => false
                     end
  | MGetMap m l ok out => match get_map m l with
                          | Ok None => ok && match out with None => true | Some _ => false end
                          | Ok (Some r) => ok && match out with Some o => geq 40 (VMap r) (VMap o) | None => false end
                          | Err => negb ok
                          | Panic => false
                          end
  end.
