(* The function bodies regenerated from the source (Gen/FuncsGen.v, translator T11) compute what the hand-written
   models used by the property theorems compute, for every input. A change to one of these Go functions changes the
   generated definition; if it changes its meaning, the corresponding lemma below no longer checks. *)
From Coq Require Import String.
From Coq Require Import ZArith List Bool Lia Arith.
From Coq Require Import Strings.Byte.
From Cose Require Import Lib.Base Lib.GoSem Lib.GenTypes Lib.Cbor Model.GoVal Model.Wire Model.Key Model.Nonce Model.NonceProofs Model.Msg Model.MsgProofs Model.MsgRoundTrip Gen.FuncsGen.
Import ListNotations.
Open Scope Z_scope.

(* ---------------------------------------------------------------- cose.xorIV *)
Lemma skipn_cons_tail {A} : forall n (l : list A) y r, skipn n l = y :: r -> skipn (S n) l = r.
Proof.
  induction n as [|n IH]; intros l y r H.
  - cbn [skipn] in H. subst l. reflexivity.
  - destruct l as [|a l]; [discriminate|]. cbn [skipn] in H. change (skipn (S (S n)) (a :: l)) with (skipn (S n) l). now apply IH with (y := y).
Qed.

Lemma firstn_zeros : forall n m, (n <= m)%nat -> firstn n (zeros m) = zeros n.
Proof.
  induction n as [|n IH]; intros m H; [reflexivity|]. destruct m as [|m]; [lia|].
  change (zeros (S m)) with (x00 :: zeros m). change (zeros (S n)) with (x00 :: zeros n). cbn [firstn]. f_equal. apply IH. lia.
Qed.

Definition xor_body (ctx : bytes) : Z -> bytes -> res (ctl bytes bytes) :=
  fun i iv => if go_len ctx <=? i then Ok (CBreak iv)
              else do iv0 <- (do t3_ <- (do t1_ <- go_idx iv i; do t2_ <- go_idx ctx i; Ok (xor_byte t1_ t2_)); go_set iv i t3_); Ok (CNext iv0).

(* the loop: positions below min(len iv, len context) are XORed with the context, the rest is left alone *)
Lemma xor_loop (ctx : bytes) : forall (n : nat) (done rest : bytes),
  length rest = n ->
  go_count_from (Z.of_nat (length done)) n (done ++ rest)%list (xor_body ctx)
  = Ok (inl (done ++ xor_bytes rest (skipn (length done) ctx))%list).
Proof.
  induction n as [|n IH]; intros done rest Hn.
  - destruct rest; [|discriminate]. cbn [go_count_from xor_bytes]. reflexivity.
  - destruct rest as [|x rest]; [discriminate|]. cbn [go_count_from]. unfold xor_body at 1.
    destruct (go_len ctx <=? Z.of_nat (length done)) eqn:G.
    + apply Z.leb_le in G. unfold go_len in G. rewrite skipn_all2 by lia. cbn [xor_bytes]. reflexivity.
    + apply Z.leb_gt in G. unfold go_len in G.
      assert (Hlt : (length done < length ctx)%nat) by lia.
      destruct (skipn (length done) ctx) as [|y ctx'] eqn:Es.
      { apply (f_equal (@length byte)) in Es. rewrite skipn_length in Es. cbn [length] in Es. lia. }
      assert (I1 : go_idx (done ++ x :: rest) (Z.of_nat (length done)) = Ok x).
      { unfold go_idx, go_len. rewrite app_length. cbn [length].
        replace (Z.of_nat (length done) <? 0) with false by (symmetry; apply Z.ltb_ge; lia).
        replace (Z.of_nat (length done + S (length rest)) <=? Z.of_nat (length done)) with false by (symmetry; apply Z.leb_gt; lia).
        cbn [orb]. rewrite Nat2Z.id, nth_error_app2, Nat.sub_diag by lia. reflexivity. }
      assert (I2 : go_idx ctx (Z.of_nat (length done)) = Ok y).
      { unfold go_idx, go_len.
        replace (Z.of_nat (length done) <? 0) with false by (symmetry; apply Z.ltb_ge; lia).
        replace (Z.of_nat (length ctx) <=? Z.of_nat (length done)) with false by (symmetry; apply Z.leb_gt; lia).
        cbn [orb]. rewrite Nat2Z.id.
        rewrite <- (firstn_skipn (length done) ctx) at 1. rewrite nth_error_app2 by (rewrite firstn_length; lia).
        rewrite firstn_length, Nat.min_l, Nat.sub_diag, Es by lia. reflexivity. }
      assert (I3 : go_set (done ++ x :: rest) (Z.of_nat (length done)) (xor_byte x y) = Ok ((done ++ [xor_byte x y]) ++ rest)%list).
      { unfold go_set, go_len. rewrite app_length. cbn [length].
        replace (Z.of_nat (length done) <? 0) with false by (symmetry; apply Z.ltb_ge; lia).
        replace (Z.of_nat (length done + S (length rest)) <=? Z.of_nat (length done)) with false by (symmetry; apply Z.leb_gt; lia).
        cbn [orb]. rewrite Nat2Z.id. rewrite firstn_app, Nat.sub_diag, firstn_all. cbn [firstn]. rewrite app_nil_r.
        assert (Sk : skipn (S (length done)) (done ++ x :: rest) = rest).
        { apply skipn_cons_tail with (y := x). rewrite skipn_app, skipn_all, Nat.sub_diag. reflexivity. }
        rewrite Sk. now rewrite <- app_assoc. }
      rewrite I1, I2. cbn [bind]. rewrite I3. cbn [bind].
      replace (Z.of_nat (length done) + 1) with (Z.of_nat (length (done ++ [xor_byte x y]))) by (rewrite app_length; cbn [length]; lia).
      rewrite (IH (done ++ [xor_byte x y])%list rest) by (cbn [length] in Hn; lia).
      rewrite app_length. cbn [length]. replace (length done + 1)%nat with (S (length done)) by lia.
      rewrite (skipn_cons_tail _ _ _ _ Es). cbn [xor_bytes]. rewrite <- app_assoc. reflexivity.
Qed.

Theorem gen_xor_iv ctx piv (size : nat) : cose_xorIV ctx piv (Z.of_nat size) = xor_iv ctx piv size.
Proof.
  unfold cose_xorIV, xor_iv, go_make.
  replace (Z.of_nat size <? 0) with false by (symmetry; apply Z.ltb_ge; lia). cbn [bind]. rewrite Nat2Z.id.
  unfold go_copy_at, go_len. rewrite zeros_length.
  destruct (Nat.ltb size (length piv)) eqn:L.
  - apply Nat.ltb_lt in L.
    replace (Z.of_nat size - Z.of_nat (length piv) <? 0) with true by (symmetry; apply Z.ltb_lt; lia). reflexivity.
  - apply Nat.ltb_ge in L.
    replace (Z.of_nat size - Z.of_nat (length piv) <? 0) with false by (symmetry; apply Z.ltb_ge; lia).
    replace (Z.of_nat size <? Z.of_nat size - Z.of_nat (length piv)) with false by (symmetry; apply Z.ltb_ge; lia).
    cbn [orb bind].
    replace (Z.to_nat (Z.of_nat size - Z.of_nat (length piv))) with (size - length piv)%nat by lia.
    replace (Nat.min (size - (size - length piv)) (length piv)) with (length piv) by lia.
    rewrite firstn_all. replace (size - length piv + length piv)%nat with size by lia.
    assert (F : firstn (size - length piv) (zeros size) = zeros (size - length piv)).
    { apply firstn_zeros. lia. }
    assert (K : skipn size (zeros size) = []) by (apply skipn_all2; rewrite zeros_length; lia).
    rewrite F, K, app_nil_r.
    set (iv := (zeros (size - length piv) ++ piv)%list).
    assert (Liv : length iv = size) by (subst iv; rewrite app_length, zeros_length; lia).
    unfold go_range_idx. rewrite Liv, Nat2Z.id.
    pose proof (xor_loop ctx size [] iv Liv) as H. cbn [length app skipn] in H. change (Z.of_nat 0) with 0 in H.
    match goal with |- context [go_count_from ?a ?b ?c ?f] =>
      replace (go_count_from a b c f) with (@Ok (list byte + list byte) (inl (xor_bytes iv ctx))) by (symmetry; exact H) end.
    reflexivity.
Qed.

(* ---------------------------------------------------------------- composed with the properties *)
(* C06: the source of xorIV computes the RFC 9052 nonce (Base IV cut or zero-extended on the right, Partial IV
   left-padded) whenever the Partial IV fits, and panics exactly when it does not *)
Theorem gen_xor_iv_is_rfc base piv (size : nat) : (length piv <= size)%nat ->
  cose_xorIV base piv (Z.of_nat size) = Ok (rfc_nonce base piv size).
Proof. intro H. rewrite gen_xor_iv. now apply xor_iv_is_rfc. Qed.

Theorem gen_xor_iv_panics_iff base piv (size : nat) : cose_xorIV base piv (Z.of_nat size) = Panic <-> (size < length piv)%nat.
Proof.
  rewrite gen_xor_iv. unfold xor_iv. destruct (Nat.ltb size (length piv)) eqn:L.
  - apply Nat.ltb_lt in L. split; [intros _; exact L|reflexivity].
  - apply Nat.ltb_ge in L. split; [discriminate|lia].
Qed.

