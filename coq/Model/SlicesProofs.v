(* The header-logic slices regenerated from the message methods (Gen/SlicesGen.v, translator T12) are the functions of
   the hand model (Model/MsgLogic.v, Model/Nonce.v) that the property theorems of C05 / C06 / C01 are about:
   algorithm gate of Verify / Decrypt, preparation of the header buckets in WithSign / Compute / Encrypt, nonce selection
   in Encrypt and Decrypt. One slice of each kind is compared with the model; the slices of the other message kinds are
   the same term (reflexivity), which is itself a checked fact: the five kinds share their header logic. *)
From Coq Require Import String.
From Coq Require Import ZArith List Bool Lia Arith.
From Cose Require Import Lib.Base Lib.GoSem Lib.GenTypes Model.GoVal Model.Key Model.MsgLogic Model.Nonce Model.NonceProofs Model.HdrSem
     Gen.FuncsGen Gen.SlicesGen.
Import ListNotations.
Open Scope Z_scope.

(* ---------------------------------------------------------------- algorithm gate (consume) *)
Theorem gen_gate_sign1 mp mu kalg kkid kkey nsize draw :
  cose_Sign1Message_Verify_gate mp mu kalg kkid kkey nsize draw = if alg_gate (hmap mp) kalg then Ok tt else Err.
Proof.
  unfold cose_Sign1Message_Verify_gate, alg_gate, ohas, oget_int_.
  destruct (has (hmap mp) 1); [|reflexivity]. destruct (get_int_ (hmap mp) 1 =? kalg); reflexivity.
Qed.

Theorem gen_gates_alike :
  cose_Mac0Message_Verify_gate = cose_Sign1Message_Verify_gate /\ cose_MacMessage_Verify_gate = cose_Sign1Message_Verify_gate
  /\ cose_Encrypt0Message_Decrypt_gate = cose_Sign1Message_Verify_gate /\ cose_EncryptMessage_Decrypt_gate = cose_Sign1Message_Verify_gate.
Proof. repeat split; reflexivity. Qed.

(* ---------------------------------------------------------------- header preparation (produce) *)
Definition prepared (mp mu : hdr) (k : cosemap) : res (hdr * hdr) :=
  match prepare_protected mp k with
  | Ok p => Ok (Some p, Some (prepare_unprotected mu k))
  | Err => Err
  | Panic => Panic
  end.

Lemma go_len_pos {A} (l : list A) : (0 <? go_len l) = negb (Nat.eqb (length l) 0).
Proof. unfold go_len. destruct l; cbn [length]; [reflexivity|]. cbn [Nat.eqb negb]. apply Z.ltb_lt. lia. Qed.

Theorem gen_prepare_sign1 mp mu k kkey nsize draw :
  cose_Sign1Message_WithSign_prepare mp mu (key_alg k) (kid k) kkey nsize draw = prepared mp mu k.
Proof.
  unfold cose_Sign1Message_WithSign_prepare, prepared, prepare_protected, prepare_unprotected.
  destruct mp as [p|].
  - cbn [is_none]. unfold alg_gate, ohas, oget_int_. cbn [hmap].
    destruct (has p 1).
    + destruct (get_int_ p 1 =? key_alg k); cbn [negb bind]; [|reflexivity].
      destruct mu as [u|]; cbn [is_none bind]; [reflexivity|].
      rewrite go_len_pos. destruct (kid k) as [|b r]; cbn [length Nat.eqb negb oset bind]; reflexivity.
    + cbn [bind]. destruct mu as [u|]; cbn [is_none bind]; [reflexivity|].
      rewrite go_len_pos. destruct (kid k) as [|b r]; cbn [length Nat.eqb negb oset bind]; reflexivity.
  - cbn [is_none]. destruct (key_alg k =? 0); cbn [negb oset bind set_label remove_label].
    + destruct mu as [u|]; cbn [is_none bind]; [reflexivity|].
      rewrite go_len_pos. destruct (kid k) as [|b r]; cbn [length Nat.eqb negb oset bind set_label remove_label]; reflexivity.
    + destruct mu as [u|]; cbn [is_none bind]; [reflexivity|].
      rewrite go_len_pos. destruct (kid k) as [|b r]; cbn [length Nat.eqb negb oset bind set_label remove_label]; reflexivity.
Qed.

Theorem gen_prepares_alike :
  cose_Mac0Message_Compute_prepare = cose_Sign1Message_WithSign_prepare /\ cose_MacMessage_Compute_prepare = cose_Sign1Message_WithSign_prepare
  /\ cose_Encrypt0Message_Encrypt_prepare = cose_Sign1Message_WithSign_prepare /\ cose_EncryptMessage_Encrypt_prepare = cose_Sign1Message_WithSign_prepare.
Proof. repeat split; reflexivity. Qed.

(* ---------------------------------------------------------------- what reaches the primitive
   In each of the ten methods there is exactly one assignment to m.toSign / m.toMac / m.toEnc and exactly one call of
   the primitive. Producing: the structure is built by the builder of the wire struct being assembled (mm) from the
   caller's external data and handed to the primitive as it is. Consuming: it is built by the builder of the DECODED
   wire struct (m.mm: the received protected bytes and payload, never re-encoded values) from the caller's external
   data, and the primitive is handed that and the received signature / tag / ciphertext; the AEAD gets `iv` as nonce
   (the variable the nonce-selection slice computes). The builders themselves are Gen/StructsGen.structure_builders. *)
Open Scope string_scope.
Definition expected_prim_calls : list (string * (list string * list string)) :=
  [("cose.Sign1Message_WithSign", (["m.toSign = mm.toSign(ext)"], ["p.Sign(m.toSign)"]));
   ("cose.Mac0Message_Compute", (["m.toMac = mm.toMac(ext)"], ["p.MACCreate(m.toMac)"]));
   ("cose.MacMessage_Compute", (["m.toMac = mm.toMac(ext)"], ["p.MACCreate(m.toMac)"]));
   ("cose.Encrypt0Message_Encrypt", (["m.toEnc = mm.toEnc(ext)"], ["p.Encrypt(iv, plaintext, m.toEnc)"]));
   ("cose.EncryptMessage_Encrypt", (["m.toEnc = mm.toEnc(ext)"], ["p.Encrypt(iv, plaintext, m.toEnc)"]));
   ("cose.Sign1Message_Verify", (["m.toSign = m.mm.toSign(ext)"], ["p.Verify(m.toSign, m.mm.Signature)"]));
   ("cose.Mac0Message_Verify", (["m.toMac = m.mm.toMac(ext)"], ["p.MACVerify(m.toMac, m.mm.Tag)"]));
   ("cose.MacMessage_Verify", (["m.toMac = m.mm.toMac(ext)"], ["p.MACVerify(m.toMac, m.mm.Tag)"]));
   ("cose.Encrypt0Message_Decrypt", (["m.toEnc = m.mm.toEnc(ext)"], ["p.Decrypt(iv, m.mm.Ciphertext, m.toEnc)"]));
   ("cose.EncryptMessage_Decrypt", (["m.toEnc = m.mm.toEnc(ext)"], ["p.Decrypt(iv, m.mm.Ciphertext, m.toEnc)"]))].
Theorem primitives_get_the_structure : prim_calls = expected_prim_calls.
Proof. reflexivity. Qed.
