(* Theorems about the message layer (Model/Msg.v) for arbitrary primitives:
   the authenticated structures are RFC 9052's, built from the wire bytes; consumption binds them. *)
From Coq Require Import String.
From Coq Require Import NArith ZArith List Arith Lia Bool.
From Cose Require Import Lib.Base Lib.GenTypes Lib.Cbor Lib.CborProofs Model.GoVal Model.CborGo Model.Wire Model.Key Model.MsgLogic Model.Nonce Model.Msg
     Spec.RFC9052 Gen.StructsGen.
Import ListNotations.
Open Scope Z_scope.

Definition ctx_of (k : kind) : context :=
  match k with KSign1 => Signature1 | KSign => Signature | KMac0 => MAC0 | KMac => MAC | KEnc0 => Encrypt0 | KEnc => Encrypt end.

(* ---------------------------------------------------------------- C04: the structures are the RFC's *)
Theorem sign1_structure_is_rfc pb ext pl sp :
  structure KSign1 (Some pb) sp ext (Some pl) = Ok (encode (Sig_structure Signature1 pb None (aad ext) pl)).
Proof. destruct ext; reflexivity. Qed.

Theorem sign_structure_is_rfc pb sp ext pl :
  structure KSign (Some pb) (Some sp) ext (Some pl) = Ok (encode (Sig_structure Signature pb (Some sp) (aad ext) pl)).
Proof. destruct ext; reflexivity. Qed.

Theorem mac0_structure_is_rfc pb ext pl sp :
  structure KMac0 (Some pb) sp ext (Some pl) = Ok (encode (MAC_structure MAC0 pb (aad ext) pl)).
Proof. destruct ext; reflexivity. Qed.

Theorem mac_structure_is_rfc pb ext pl sp :
  structure KMac (Some pb) sp ext (Some pl) = Ok (encode (MAC_structure MAC pb (aad ext) pl)).
Proof. destruct ext; reflexivity. Qed.

Theorem enc0_structure_is_rfc pb ext sp pl :
  structure KEnc0 (Some pb) sp ext pl = Ok (encode (Enc_structure Encrypt0 pb (aad ext))).
Proof. destruct ext; reflexivity. Qed.

Theorem enc_structure_is_rfc pb ext sp pl :
  structure KEnc (Some pb) sp ext pl = Ok (encode (Enc_structure Encrypt pb (aad ext))).
Proof. destruct ext; reflexivity. Qed.

Theorem empty_map_is_empty_string : headers_bytes [] = Some [].
Proof. reflexivity. Qed.

Ltac inv_bind H :=
  repeat match type of H with
  | bind ?r _ = Ok _ => let E := fresh "E" in destruct r eqn:E; cbn [bind] in H; [|discriminate H|discriminate H]
  | (match ?r with Ok _ => _ | Err => _ | Panic => _ end) = Ok _ => let E := fresh "E" in destruct r eqn:E; [|discriminate H|discriminate H]
  | (match ?r with Some _ => _ | None => _ end) = Ok _ => let E := fresh "E" in destruct r eqn:E; [|discriminate H]
  | (if ?c then _ else _) = Ok _ => let E := fresh "E" in destruct c eqn:E; try discriminate H
  | (let '(_, _) := ?p in _) = Ok _ => destruct p
  end.

(* producing: the signer / MACer / AEAD receives the structure of exactly the bytes that are then written *)
Theorem sign1_produce_signs_wire p prot unprot pl ext out :
  sign1_produce p prot unprot (Some pl) ext = Ok out ->
  exists prot' pb sig u,
    prepare_protected prot (sg_key p) = Ok prot' /\ headers_bytes prot' = Some pb /\
    sg_sign p (encode (Sig_structure Signature1 pb None (aad ext) pl)) = Ok sig /\
    enc_cosemap (prepare_unprotected unprot (sg_key p)) = Some u /\
    out = enc_tagged 18 (enc_array [enc_bytes (Some pb); u; enc_bytes (Some pl); enc_bytes (Some sig)]).
Proof.
  unfold sign1_produce. intro H.
  destruct (prepare_protected prot (sg_key p)) as [prot'| |] eqn:Ep; cbn [bind] in H; try discriminate.
  destruct (headers_bytes prot') as [pb|] eqn:Eb; [|discriminate].
  rewrite (sign1_structure_is_rfc pb ext pl None) in H. cbn [bind] in H.
  destruct (sg_sign p _) as [sig| |] eqn:Es; cbn [bind] in H; try discriminate.
  unfold marshal_simple, enc_headers_field in H. cbn [w_unprot w_prot w_payload w_auth] in H.
  destruct (enc_cosemap (prepare_unprotected unprot (sg_key p))) as [u|] eqn:U; [|discriminate].
  inversion H; subst. now exists prot', pb, sig, u.
Qed.

Theorem mac0_produce_macs_wire p prot unprot pl ext out :
  mac0_produce p prot unprot (Some pl) ext = Ok out ->
  exists prot' pb tag u,
    prepare_protected prot (mc_key p) = Ok prot' /\ headers_bytes prot' = Some pb /\
    mc_create p (encode (MAC_structure MAC0 pb (aad ext) pl)) = Ok tag /\
    enc_cosemap (prepare_unprotected unprot (mc_key p)) = Some u /\
    out = enc_tagged 17 (enc_array [enc_bytes (Some pb); u; enc_bytes (Some pl); enc_bytes (Some tag)]).
Proof.
  unfold mac0_produce. intro H.
  destruct (prepare_protected prot (mc_key p)) as [prot'| |] eqn:Ep; cbn [bind] in H; try discriminate.
  destruct (headers_bytes prot') as [pb|] eqn:Eb; [|discriminate].
  rewrite (mac0_structure_is_rfc pb ext pl None) in H. cbn [bind] in H.
  destruct (mc_create p _) as [tag| |] eqn:Es; cbn [bind] in H; try discriminate.
  unfold marshal_simple, enc_headers_field in H. cbn [w_unprot w_prot w_payload w_auth] in H.
  destruct (enc_cosemap (prepare_unprotected unprot (mc_key p))) as [u|] eqn:U; [|discriminate].
  inversion H; subst. now exists prot', pb, tag, u.
Qed.

Theorem enc0_produce_aad_is_wire p prot unprot payload ext draw out :
  enc0_produce p prot unprot payload ext draw = Ok out ->
  exists prot' pb nonce unprot' ct u,
    prepare_protected prot (en_key p) = Ok prot' /\ headers_bytes prot' = Some pb /\
    choose_nonce (prepare_unprotected unprot (en_key p)) (en_key p) (en_nonce p) draw = Ok (nonce, unprot') /\
    en_encrypt p nonce (match payload with Some b => b | None => [] end) (encode (Enc_structure Encrypt0 pb (aad ext))) = Ok ct /\
    enc_cosemap unprot' = Some u /\
    out = enc_tagged 16 (enc_array [enc_bytes (Some pb); u; enc_bytes (Some ct)]).
Proof.
  unfold enc0_produce. intro H.
  destruct (prepare_protected prot (en_key p)) as [prot'| |] eqn:Ep; cbn [bind] in H; try discriminate.
  destruct (choose_nonce _ _ _ _) as [[nonce unprot']| |] eqn:En; cbn [bind] in H; try discriminate.
  destruct (headers_bytes prot') as [pb|] eqn:Eb; [|discriminate].
  rewrite (enc0_structure_is_rfc pb ext None None) in H. cbn [bind] in H.
  destruct (en_encrypt p _ _ _) as [ct| |] eqn:Es; cbn [bind] in H; try discriminate.
  unfold marshal_simple, enc_headers_field in H. cbn [w_unprot w_prot w_payload w_auth] in H.
  destruct (enc_cosemap unprot') as [u|] eqn:U; [|discriminate].
  inversion H; subst. now exists prot', pb, nonce, unprot', ct, u.
Qed.

(* ---------------------------------------------------------------- consuming: what a successful verification established *)
Theorem sign1_consume_sound pany p data ext v :
  sign1_consume pany p data ext = Ok v ->
  exists w sig tbs,
    unmarshal_wire KSign1 data = Ok w /\ w_auth w = Some sig /\
    headers_from_bytes (w_prot w) = Ok (v_prot v) /\ consume_gate (v_prot v) (sg_key p) = true /\
    structure KSign1 (w_prot w) None ext (w_payload w) = Ok tbs /\ sg_verify p tbs sig = true /\
    v_unprot v = w_unprot w /\ payload_ok pany (w_payload w) = Ok (v_payload v).
Proof.
  unfold sign1_consume, decoded_view. intro H.
  destruct (unmarshal_wire KSign1 data) as [w| |] eqn:Ew; cbn [bind] in H; try discriminate.
  destruct (headers_from_bytes (w_prot w)) as [pm| |] eqn:Eh; cbn [bind] in H; try discriminate.
  destruct (payload_ok pany (w_payload w)) as [pl| |] eqn:Epl; cbn [bind] in H; try discriminate.
  destruct (w_auth w) as [sig|] eqn:Ea; [|discriminate]. cbn [v_prot] in H.
  destruct (consume_gate pm (sg_key p)) eqn:Eg; cbn [negb] in H; [|discriminate].
  destruct (structure KSign1 (w_prot w) None ext (w_payload w)) as [tbs| |] eqn:Et; cbn [bind] in H; try discriminate.
  destruct (sg_verify p tbs sig) eqn:Ev; [|discriminate]. inversion H; subst. cbn [v_prot v_unprot v_payload].
  exists w, sig, tbs. repeat split; auto.
Qed.

Theorem mac0_consume_sound pany p data ext v :
  mac0_consume pany p data ext = Ok v ->
  exists w tag tbm,
    unmarshal_wire KMac0 data = Ok w /\ w_auth w = Some tag /\
    headers_from_bytes (w_prot w) = Ok (v_prot v) /\ consume_gate (v_prot v) (mc_key p) = true /\
    structure KMac0 (w_prot w) None ext (w_payload w) = Ok tbm /\ mc_verify p tbm tag = true /\
    v_unprot v = w_unprot w /\ payload_ok pany (w_payload w) = Ok (v_payload v).
Proof.
  unfold mac0_consume, decoded_view. intro H.
  destruct (unmarshal_wire KMac0 data) as [w| |] eqn:Ew; cbn [bind] in H; try discriminate.
  destruct (headers_from_bytes (w_prot w)) as [pm| |] eqn:Eh; cbn [bind] in H; try discriminate.
  destruct (payload_ok pany (w_payload w)) as [pl| |] eqn:Epl; cbn [bind] in H; try discriminate.
  destruct (w_auth w) as [tag|] eqn:Ea; [|discriminate]. cbn [v_prot] in H.
  destruct (consume_gate pm (mc_key p)) eqn:Eg; cbn [negb] in H; [|discriminate].
  destruct (structure KMac0 (w_prot w) None ext (w_payload w)) as [tbm| |] eqn:Et; cbn [bind] in H; try discriminate.
  destruct (mc_verify p tbm tag) eqn:Ev; [|discriminate]. inversion H; subst. cbn [v_prot v_unprot v_payload].
  exists w, tag, tbm. repeat split; auto.
Qed.

Theorem mac_consume_sound pany p data ext v rs :
  mac_consume pany p data ext = Ok (v, rs) ->
  exists w tag tbm,
    unmarshal_wire KMac data = Ok w /\ w_auth w = Some tag /\ recips_decode (w_extra w) = Ok rs /\
    headers_from_bytes (w_prot w) = Ok (v_prot v) /\ consume_gate (v_prot v) (mc_key p) = true /\
    structure KMac (w_prot w) None ext (w_payload w) = Ok tbm /\ mc_verify p tbm tag = true /\
    v_unprot v = w_unprot w /\ payload_ok pany (w_payload w) = Ok (v_payload v).
Proof.
  unfold mac_consume, decoded_view. intro H.
  destruct (unmarshal_wire KMac data) as [w| |] eqn:Ew; cbn [bind] in H; try discriminate.
  destruct (recips_decode (w_extra w)) as [rs'| |] eqn:Er; cbn [bind] in H; try discriminate.
  destruct (headers_from_bytes (w_prot w)) as [pm| |] eqn:Eh; cbn [bind] in H; try discriminate.
  destruct (payload_ok pany (w_payload w)) as [pl| |] eqn:Epl; cbn [bind] in H; try discriminate.
  destruct (w_auth w) as [tag|] eqn:Ea; [|discriminate]. cbn [v_prot] in H.
  destruct (consume_gate pm (mc_key p)) eqn:Eg; cbn [negb] in H; [|discriminate].
  destruct (structure KMac (w_prot w) None ext (w_payload w)) as [tbm| |] eqn:Et; cbn [bind] in H; try discriminate.
  destruct (mc_verify p tbm tag) eqn:Ev; [|discriminate]. inversion H; subst. cbn [v_prot v_unprot v_payload].
  exists w, tag, tbm. repeat split; auto.
Qed.

Theorem enc0_consume_sound pany p data ext v :
  enc0_consume pany p data ext = Ok v ->
  exists w ct aad nonce pt,
    unmarshal_wire KEnc0 data = Ok w /\ w_auth w = Some ct /\
    headers_from_bytes (w_prot w) = Ok (v_prot v) /\ consume_gate (v_prot v) (en_key p) = true /\
    structure KEnc0 (w_prot w) None ext None = Ok aad /\
    derive_nonce (omap (w_unprot w)) (en_key p) (en_nonce p) = Ok nonce /\
    en_decrypt p nonce ct aad = Ok pt /\
    v_unprot v = w_unprot w /\ payload_ok pany (Some pt) = Ok (v_payload v).
Proof.
  unfold enc0_consume. intro H.
  destruct (unmarshal_wire KEnc0 data) as [w| |] eqn:Ew; cbn [bind] in H; try discriminate.
  destruct (headers_from_bytes (w_prot w)) as [pm| |] eqn:Eh; cbn [bind] in H; try discriminate.
  destruct (w_auth w) as [ct|] eqn:Ea; [|discriminate].
  destruct (consume_gate pm (en_key p)) eqn:Eg; cbn [negb] in H; [|discriminate].
  destruct (structure KEnc0 (w_prot w) None ext None) as [ad| |] eqn:Et; cbn [bind] in H; try discriminate.
  destruct (derive_nonce _ (en_key p) (en_nonce p)) as [nonce| |] eqn:En; cbn [bind] in H; try discriminate.
  destruct (en_decrypt p nonce ct ad) as [pt| |] eqn:Ed; cbn [bind] in H; try discriminate.
  destruct (payload_ok pany (Some pt)) as [pl| |] eqn:Epl; cbn [bind] in H; try discriminate.
  inversion H; subst. cbn [v_prot v_unprot v_payload].
  exists w, ct, ad, nonce, pt. repeat split; auto.
Qed.

Theorem enc_consume_sound pany p data ext v rs :
  enc_consume pany p data ext = Ok (v, rs) ->
  exists w ct aad nonce pt,
    unmarshal_wire KEnc data = Ok w /\ w_auth w = Some ct /\ recips_decode (w_extra w) = Ok rs /\
    headers_from_bytes (w_prot w) = Ok (v_prot v) /\ consume_gate (v_prot v) (en_key p) = true /\
    structure KEnc (w_prot w) None ext None = Ok aad /\
    derive_nonce (omap (w_unprot w)) (en_key p) (en_nonce p) = Ok nonce /\
    en_decrypt p nonce ct aad = Ok pt /\
    v_unprot v = w_unprot w /\ payload_ok pany (Some pt) = Ok (v_payload v).
Proof.
  unfold enc_consume. intro H.
  destruct (unmarshal_wire KEnc data) as [w| |] eqn:Ew; cbn [bind] in H; try discriminate.
  destruct (recips_decode (w_extra w)) as [rs'| |] eqn:Er; cbn [bind] in H; try discriminate.
  destruct (headers_from_bytes (w_prot w)) as [pm| |] eqn:Eh; cbn [bind] in H; try discriminate.
  destruct (w_auth w) as [ct|] eqn:Ea; [|discriminate].
  destruct (consume_gate pm (en_key p)) eqn:Eg; cbn [negb] in H; [|discriminate].
  destruct (structure KEnc (w_prot w) None ext None) as [ad| |] eqn:Et; cbn [bind] in H; try discriminate.
  destruct (derive_nonce _ (en_key p) (en_nonce p)) as [nonce| |] eqn:En; cbn [bind] in H; try discriminate.
  destruct (en_decrypt p nonce ct ad) as [pt| |] eqn:Ed; cbn [bind] in H; try discriminate.
  destruct (payload_ok pany (Some pt)) as [pl| |] eqn:Epl; cbn [bind] in H; try discriminate.
  inversion H; subst. cbn [v_prot v_unprot v_payload].
  exists w, ct, ad, nonce, pt. repeat split; auto.
Qed.

(* a refused decryption yields no view at all: no plaintext, partial or complete, reaches the caller *)
Theorem enc0_refusal_yields_nothing pany p data ext w ct aad nonce :
  unmarshal_wire KEnc0 data = Ok w -> w_auth w = Some ct ->
  structure KEnc0 (w_prot w) None ext None = Ok aad ->
  derive_nonce (omap (w_unprot w)) (en_key p) (en_nonce p) = Ok nonce ->
  en_decrypt p nonce ct aad = Err ->
  forall v, enc0_consume pany p data ext <> Ok v.
Proof.
  intros Ew Ea Et En Ed v H. destruct (enc0_consume_sound _ _ _ _ _ H) as [w' [ct' [aad' [nonce' [pt [Ew' [Ea' [_ [_ [Et' [En' [Ed' _]]]]]]]]]]]].
  rewrite Ew in Ew'. inversion Ew'; subst w'. rewrite Ea in Ea'. inversion Ea'; subst ct'.
  rewrite Et in Et'. inversion Et'; subst aad'. rewrite En in En'. inversion En'; subst nonce'. congruence.
Qed.

Theorem enc_refusal_yields_nothing pany p data ext w ct aad nonce :
  unmarshal_wire KEnc data = Ok w -> w_auth w = Some ct ->
  structure KEnc (w_prot w) None ext None = Ok aad ->
  derive_nonce (omap (w_unprot w)) (en_key p) (en_nonce p) = Ok nonce ->
  en_decrypt p nonce ct aad = Err ->
  forall v, enc_consume pany p data ext <> Ok v.
Proof.
  intros Ew Ea Et En Ed [v rs] H. destruct (enc_consume_sound _ _ _ _ _ _ H) as [w' [ct' [aad' [nonce' [pt [Ew' [Ea' [_ [_ [_ [Et' [En' [Ed' _]]]]]]]]]]]]].
  rewrite Ew in Ew'. inversion Ew'; subst w'. rewrite Ea in Ea'. inversion Ea'; subst ct'.
  rewrite Et in Et'. inversion Et'; subst aad'. rewrite En in En'. inversion En'; subst nonce'. congruence.
Qed.

(* ---------------------------------------------------------------- COSE_Sign *)
Lemma verify_all_sound vs w ext sigs : verify_all vs w ext sigs = Ok tt ->
  Forall (fun s => exists v tbs,
            lookup_prim vs (get_bytes_ (omap (se_unprot s)) 4) = Some v /\ consume_gate (se_prot s) (sg_key v) = true /\
            structure KSign (w_prot w) (Some (se_raw s)) ext (w_payload w) = Ok tbs /\
            sg_verify v tbs (match se_sig s with Some b => b | None => [] end) = true) sigs.
Proof.
  induction sigs as [|s r IH]; intro H; [constructor|]. cbn [verify_all] in H.
  destruct (lookup_prim vs _) as [v|] eqn:El; [|discriminate].
  destruct (consume_gate (se_prot s) (sg_key v)) eqn:Eg; cbn [negb] in H; [|discriminate].
  destruct (structure KSign (w_prot w) (Some (se_raw s)) ext (w_payload w)) as [tbs| |] eqn:Et; cbn [bind] in H; try discriminate.
  destruct (sg_verify v tbs _) eqn:Ev; [|discriminate].
  constructor; [|exact (IH H)]. exists v, tbs. repeat split; auto.
Qed.

Theorem sign_consume_sound pany vs data ext v sigs :
  sign_consume pany vs data ext = Ok (v, sigs) ->
  vs <> [] /\ sigs <> [] /\
  exists w, unmarshal_wire KSign data = Ok w /\ sigs_decode (w_extra w) = Ok (Some sigs) /\
    headers_from_bytes (w_prot w) = Ok (v_prot v) /\
    Forall (fun s => exists p tbs,
              lookup_prim vs (get_bytes_ (omap (se_unprot s)) 4) = Some p /\ consume_gate (se_prot s) (sg_key p) = true /\
              structure KSign (w_prot w) (Some (se_raw s)) ext (w_payload w) = Ok tbs /\
              sg_verify p tbs (match se_sig s with Some b => b | None => [] end) = true) sigs.
Proof.
  unfold sign_consume, decoded_view. intro H.
  destruct (unmarshal_wire KSign data) as [w| |] eqn:Ew; cbn [bind] in H; try discriminate.
  destruct (sigs_decode (w_extra w)) as [os| |] eqn:Es; cbn [bind] in H; try discriminate.
  destruct (headers_from_bytes (w_prot w)) as [pm| |] eqn:Eh; cbn [bind] in H; try discriminate.
  destruct (payload_ok pany (w_payload w)) as [pl| |] eqn:Epl; cbn [bind] in H; try discriminate.
  destruct vs as [|v0 vr]; [discriminate|]. destruct os as [[|s0 sr]|]; try discriminate.
  destruct (verify_all (v0 :: vr) w ext (s0 :: sr)) as [[]| |] eqn:Ev; cbn [bind] in H; try discriminate.
  inversion H; subst. cbn [v_prot]. split; [discriminate|]. split; [discriminate|].
  exists w. repeat split; auto. exact (verify_all_sound _ _ _ _ Ev).
Qed.

(* no verifiers, no signatures, or a signature without a verifier of that key id: never verifies *)
Theorem sign_no_verifiers pany data ext : forall r, sign_consume pany [] data ext <> Ok r.
Proof.
  intros [v sigs] H. destruct (sign_consume_sound _ _ _ _ _ _ H) as [Hn _]. congruence.
Qed.

Theorem sign_zero_signatures pany vs data ext w : unmarshal_wire KSign data = Ok w ->
  (sigs_decode (w_extra w) = Ok (Some []) \/ sigs_decode (w_extra w) = Ok None) -> forall r, sign_consume pany vs data ext <> Ok r.
Proof.
  intros Ew Es [v sigs] H. destruct (sign_consume_sound _ _ _ _ _ _ H) as [_ [Hn [w' [Ew' [Es' _]]]]].
  rewrite Ew in Ew'. inversion Ew'; subst w'. destruct Es as [Es|Es]; rewrite Es in Es'; inversion Es'; subst; congruence.
Qed.

Theorem sign_unmatched_signature pany vs data ext v sigs s :
  sign_consume pany vs data ext = Ok (v, sigs) -> In s sigs -> lookup_prim vs (get_bytes_ (omap (se_unprot s)) 4) <> None.
Proof.
  intros H Hin. destruct (sign_consume_sound _ _ _ _ _ _ H) as [_ [_ [w [_ [_ [_ F]]]]]].
  rewrite Forall_forall in F. destruct (F s Hin) as [p [tbs [L _]]]. congruence.
Qed.

(* ---------------------------------------------------------------- C02 / C03: the structures determine their parts *)
Definition small (b : bytes) : Prop := (N.of_nat (length b) <= int_max)%N.

Lemma encode_inj a b : encodable a = true -> encodable b = true -> encode a = encode b -> canon a = canon b.
Proof.
  intros Ea Eb H. pose proof (decode_encode a Ea) as Da. pose proof (decode_encode b Eb) as Db. rewrite H in Da. congruence.
Qed.

Lemma small_leb b : small b -> (N.of_nat (length b) <=? int_max)%N = true.
Proof. intro H. apply N.leb_le. exact H. Qed.

Lemma text_small c : small (text (context_string c)).
Proof. destruct c; vm_compute; discriminate. Qed.

Lemma sig_structure_encodable c pb sp ext pl : small pb -> match sp with Some s => small s | None => True end -> small ext -> small pl ->
  encodable (Sig_structure c pb sp ext pl) = true.
Proof.
  intros H1 H2 H3 H4. unfold encodable, Sig_structure. destruct sp as [s|]; cbn [app kd fits forallb andb length];
    rewrite ?small_leb by (try apply text_small; assumption); reflexivity.
Qed.

Lemma context_string_inj c1 c2 : text (context_string c1) = text (context_string c2) -> c1 = c2.
Proof. destruct c1, c2; vm_compute; intro H; try reflexivity; discriminate H. Qed.

(* equal to-be-signed bytes: same context, same protected bytes, same external data, same payload *)
Theorem sig_structure_inj c1 c2 pb1 pb2 sp1 sp2 e1 e2 pl1 pl2 :
  small pb1 -> small pb2 -> match sp1 with Some s => small s | None => True end -> match sp2 with Some s => small s | None => True end ->
  small e1 -> small e2 -> small pl1 -> small pl2 ->
  encode (Sig_structure c1 pb1 sp1 e1 pl1) = encode (Sig_structure c2 pb2 sp2 e2 pl2) ->
  c1 = c2 /\ pb1 = pb2 /\ sp1 = sp2 /\ e1 = e2 /\ pl1 = pl2.
Proof.
  intros. assert (E : canon (Sig_structure c1 pb1 sp1 e1 pl1) = canon (Sig_structure c2 pb2 sp2 e2 pl2)).
  { apply encode_inj; [apply sig_structure_encodable; assumption|apply sig_structure_encodable; assumption|assumption]. }
  unfold Sig_structure in E. destruct sp1, sp2; cbn in E; inversion E; subst; repeat split; auto; apply context_string_inj; assumption.
Qed.

Theorem mac_structure_inj c1 c2 pb1 pb2 e1 e2 pl1 pl2 :
  small pb1 -> small pb2 -> small e1 -> small e2 -> small pl1 -> small pl2 ->
  encode (MAC_structure c1 pb1 e1 pl1) = encode (MAC_structure c2 pb2 e2 pl2) ->
  c1 = c2 /\ pb1 = pb2 /\ e1 = e2 /\ pl1 = pl2.
Proof.
  intros. change (MAC_structure c1 pb1 e1 pl1) with (Sig_structure c1 pb1 None e1 pl1) in *.
  change (MAC_structure c2 pb2 e2 pl2) with (Sig_structure c2 pb2 None e2 pl2) in *.
  destruct (sig_structure_inj c1 c2 pb1 pb2 None None e1 e2 pl1 pl2) as [A [B [_ [C D]]]]; auto.
Qed.

Lemma enc_structure_encodable c pb ext : small pb -> small ext -> encodable (Enc_structure c pb ext) = true.
Proof.
  intros H1 H2. unfold encodable, Enc_structure. cbn [kd fits forallb andb length].
  rewrite ?small_leb by (try apply text_small; assumption). reflexivity.
Qed.

Theorem enc_structure_inj c1 c2 pb1 pb2 e1 e2 :
  small pb1 -> small pb2 -> small e1 -> small e2 ->
  encode (Enc_structure c1 pb1 e1) = encode (Enc_structure c2 pb2 e2) -> c1 = c2 /\ pb1 = pb2 /\ e1 = e2.
Proof.
  intros. assert (E : canon (Enc_structure c1 pb1 e1) = canon (Enc_structure c2 pb2 e2)).
  { apply encode_inj; [apply enc_structure_encodable; assumption|apply enc_structure_encodable; assumption|assumption]. }
  cbn in E. inversion E; subst. repeat split; auto. apply context_string_inj; assumption.
Qed.

(* the structure built from whatever the wire held (a byte string, or null) *)
Definition ob (b : option bytes) : item := match b with Some x => IBstr x | None => ISimple 22 end.
Definition osmall (b : option bytes) : Prop := match b with Some x => small x | None => True end.

Definition structure_item (k : kind) (prot sprot ext payload : option bytes) : item :=
  let c := ITstr (text (context_string (ctx_of k))) in
  let e := IBstr (aad ext) in
  match k with
  | KSign1 | KMac0 | KMac => IArr [c; ob prot; e; ob payload]
  | KSign => IArr [c; ob prot; ob sprot; e; ob payload]
  | KEnc0 | KEnc => IArr [c; ob prot; e]
  end.

Lemma structure_general k prot sprot ext payload :
  structure k prot sprot ext payload = Ok (encode (structure_item k prot sprot ext payload)).
Proof. destruct k, ext, prot, sprot, payload; reflexivity. Qed.

Lemma structure_item_encodable k prot sprot ext payload :
  osmall prot -> osmall sprot -> small (aad ext) -> osmall payload -> encodable (structure_item k prot sprot ext payload) = true.
Proof.
  intros H1 H2 H3 H4. unfold encodable, structure_item.
  destruct k, prot, sprot, payload; cbn [ob kd fits forallb andb length osmall] in *;
    rewrite ?small_leb by (try apply text_small; assumption); reflexivity.
Qed.

(* if what the primitive accepted is the RFC structure of (pb, sp, e, pl) under context c, the wire held exactly those *)
Theorem signed_structure_binds k prot sprot ext payload c pb sp e pl :
  match k with KEnc0 | KEnc => False | _ => True end ->
  osmall prot -> osmall sprot -> small (aad ext) -> osmall payload -> small pb -> osmall sp -> small e -> small pl ->
  structure k prot sprot ext payload = Ok (encode (Sig_structure c pb sp e pl)) ->
  c = ctx_of k /\ prot = Some pb /\ aad ext = e /\ payload = Some pl /\ (k = KSign -> sprot = sp) /\ (k <> KSign -> sp = None).
Proof.
  intros Hk H1 H2 H3 H4 H5 H6 H7 H8 H. rewrite structure_general in H.
  assert (E : encode (structure_item k prot sprot ext payload) = encode (Sig_structure c pb sp e pl)) by congruence. clear H.
  apply encode_inj in E; [|apply structure_item_encodable; assumption|apply sig_structure_encodable; try assumption; destruct sp; assumption].
  unfold structure_item, Sig_structure in E.
  destruct k; try contradiction; destruct prot, sprot, payload, sp; cbn in E; inversion E; subst;
    repeat split; try reflexivity; try congruence; try (symmetry; apply context_string_inj; assumption).
Qed.

Theorem enc_structure_binds k prot sprot ext payload c pb e :
  match k with KEnc0 | KEnc => True | _ => False end ->
  osmall prot -> small (aad ext) -> small pb -> small e ->
  structure k prot sprot ext payload = Ok (encode (Enc_structure c pb e)) ->
  c = ctx_of k /\ prot = Some pb /\ aad ext = e.
Proof.
  intros Hk H1 H3 H5 H7 H. rewrite structure_general in H.
  assert (E : encode (structure_item k prot sprot ext payload) = encode (Enc_structure c pb e)) by congruence. clear H.
  assert (Ee : encodable (structure_item k prot None ext None) = true) by (apply structure_item_encodable; cbn; auto).
  assert (Same : structure_item k prot sprot ext payload = structure_item k prot None ext None) by (destruct k; try contradiction; reflexivity).
  rewrite Same in E.
  apply encode_inj in E; [|exact Ee|apply enc_structure_encodable; assumption].
  unfold structure_item, Enc_structure in E.
  destruct k; try contradiction; destruct prot; cbn in E; inversion E; subst;
    repeat split; try reflexivity; try (symmetry; apply context_string_inj; assumption).
Qed.

(* ---------------------------------------------------------------- C02: verification binds protected bytes, payload, external data, kind *)
(* an ideal signature or tag: valid for the bytes it was computed over and for nothing else *)
Definition valid_only_for (verify : bytes -> bytes -> bool) (sig tbs0 : bytes) : Prop :=
  forall tbs, verify tbs sig = true -> tbs = tbs0.

Theorem sign1_verifies_only_the_signed pany p data ext v c pb e pl sig :
  sign1_consume pany p data ext = Ok v ->
  (forall w, unmarshal_wire KSign1 data = Ok w -> w_auth w = Some sig /\ osmall (w_prot w) /\ osmall (w_payload w)) ->
  small (aad ext) -> small pb -> small e -> small pl ->
  valid_only_for (sg_verify p) sig (encode (Sig_structure c pb None e pl)) ->
  c = Signature1 /\ aad ext = e /\
  exists w, unmarshal_wire KSign1 data = Ok w /\ w_prot w = Some pb /\ w_payload w = Some pl.
Proof.
  intros H Hw S1 S2 S3 S4 Hid.
  destruct (sign1_consume_sound _ _ _ _ _ H) as [w [sig' [tbs [Ew [Ea [_ [_ [Et [Ev _]]]]]]]]].
  destruct (Hw w Ew) as [Ea' [Sp Spl]]. rewrite Ea in Ea'. inversion Ea'; subst sig'.
  pose proof (Hid tbs Ev) as T. subst tbs.
  destruct (signed_structure_binds KSign1 (w_prot w) None ext (w_payload w) c pb None e pl I Sp I S1 Spl S2 I S3 S4 Et) as [A [B [C [D _]]]].
  subst c. repeat split; auto. exists w. auto.
Qed.

Theorem mac0_verifies_only_the_maced pany p data ext v c pb e pl tag :
  mac0_consume pany p data ext = Ok v ->
  (forall w, unmarshal_wire KMac0 data = Ok w -> w_auth w = Some tag /\ osmall (w_prot w) /\ osmall (w_payload w)) ->
  small (aad ext) -> small pb -> small e -> small pl ->
  valid_only_for (mc_verify p) tag (encode (MAC_structure c pb e pl)) ->
  c = MAC0 /\ aad ext = e /\
  exists w, unmarshal_wire KMac0 data = Ok w /\ w_prot w = Some pb /\ w_payload w = Some pl.
Proof.
  intros H Hw S1 S2 S3 S4 Hid.
  destruct (mac0_consume_sound _ _ _ _ _ H) as [w [tag' [tbm [Ew [Ea [_ [_ [Et [Ev _]]]]]]]]].
  destruct (Hw w Ew) as [Ea' [Sp Spl]]. rewrite Ea in Ea'. inversion Ea'; subst tag'.
  pose proof (Hid tbm Ev) as T. subst tbm.
  change (MAC_structure c pb e pl) with (Sig_structure c pb None e pl) in Et.
  destruct (signed_structure_binds KMac0 (w_prot w) None ext (w_payload w) c pb None e pl I Sp I S1 Spl S2 I S3 S4 Et) as [A [B [C [D _]]]].
  subst c. repeat split; auto. exists w. auto.
Qed.

Theorem mac_verifies_only_the_maced pany p data ext v rs c pb e pl tag :
  mac_consume pany p data ext = Ok (v, rs) ->
  (forall w, unmarshal_wire KMac data = Ok w -> w_auth w = Some tag /\ osmall (w_prot w) /\ osmall (w_payload w)) ->
  small (aad ext) -> small pb -> small e -> small pl ->
  valid_only_for (mc_verify p) tag (encode (MAC_structure c pb e pl)) ->
  c = MAC /\ aad ext = e /\
  exists w, unmarshal_wire KMac data = Ok w /\ w_prot w = Some pb /\ w_payload w = Some pl.
Proof.
  intros H Hw S1 S2 S3 S4 Hid.
  destruct (mac_consume_sound _ _ _ _ _ _ H) as [w [tag' [tbm [Ew [Ea [_ [_ [_ [Et [Ev _]]]]]]]]]].
  destruct (Hw w Ew) as [Ea' [Sp Spl]]. rewrite Ea in Ea'. inversion Ea'; subst tag'.
  pose proof (Hid tbm Ev) as T. subst tbm.
  change (MAC_structure c pb e pl) with (Sig_structure c pb None e pl) in Et.
  destruct (signed_structure_binds KMac (w_prot w) None ext (w_payload w) c pb None e pl I Sp I S1 Spl S2 I S3 S4 Et) as [A [B [C [D _]]]].
  subst c. repeat split; auto. exists w. auto.
Qed.

(* COSE_Sign: every signature in the message was accepted by the verifier with that key id, over the body protected
   bytes, that signer's protected bytes, the external data and the payload of the wire *)
Theorem sign_verifies_only_the_signed pany vs data ext v sigs s c pb sp e pl :
  sign_consume pany vs data ext = Ok (v, sigs) -> In s sigs ->
  (forall w, unmarshal_wire KSign data = Ok w -> osmall (w_prot w) /\ osmall (w_payload w)) -> small (se_raw s) ->
  small (aad ext) -> small pb -> small sp -> small e -> small pl ->
  (forall p, lookup_prim vs (get_bytes_ (omap (se_unprot s)) 4) = Some p ->
     valid_only_for (sg_verify p) (match se_sig s with Some b => b | None => [] end) (encode (Sig_structure c pb (Some sp) e pl))) ->
  c = Signature /\ aad ext = e /\ se_raw s = sp /\
  exists w, unmarshal_wire KSign data = Ok w /\ w_prot w = Some pb /\ w_payload w = Some pl.
Proof.
  intros H Hin Hw Sr S1 S2 S3 S4 S5 Hid.
  destruct (sign_consume_sound _ _ _ _ _ _ H) as [_ [_ [w [Ew [_ [_ F]]]]]].
  rewrite Forall_forall in F. destruct (F s Hin) as [p [tbs [L [_ [Et Ev]]]]].
  destruct (Hw w Ew) as [Sp Spl]. pose proof (Hid p L tbs Ev) as T. subst tbs.
  destruct (signed_structure_binds KSign (w_prot w) (Some (se_raw s)) ext (w_payload w) c pb (Some sp) e pl I Sp Sr S1 Spl S2 S3 S4 S5 Et) as [A [B [C [D [E _]]]]].
  specialize (E eq_refl). inversion E. subst c. repeat split; auto. exists w. auto.
Qed.

(* ---------------------------------------------------------------- C03: decryption binds ciphertext, nonce, protected bytes, external data *)
(* an ideal AEAD: a ciphertext opens under the nonce and additional data it was sealed with and under nothing else *)
Definition opens_only_with (decrypt : bytes -> bytes -> bytes -> res bytes) (ct nonce0 aad0 : bytes) : Prop :=
  forall nonce aad pt, decrypt nonce ct aad = Ok pt -> nonce = nonce0 /\ aad = aad0.

Theorem enc0_decrypts_only_the_sealed pany p data ext v c pb e ct nonce0 :
  enc0_consume pany p data ext = Ok v ->
  (forall w, unmarshal_wire KEnc0 data = Ok w -> w_auth w = Some ct /\ osmall (w_prot w)) ->
  small (aad ext) -> small pb -> small e ->
  opens_only_with (en_decrypt p) ct nonce0 (encode (Enc_structure c pb e)) ->
  c = Encrypt0 /\ aad ext = e /\
  exists w, unmarshal_wire KEnc0 data = Ok w /\ w_prot w = Some pb /\ derive_nonce (omap (w_unprot w)) (en_key p) (en_nonce p) = Ok nonce0.
Proof.
  intros H Hw S1 S2 S3 Hid.
  destruct (enc0_consume_sound _ _ _ _ _ H) as [w [ct' [ad [nonce [pt [Ew [Ea [_ [_ [Et [En [Ed _]]]]]]]]]]]].
  destruct (Hw w Ew) as [Ea' Sp]. rewrite Ea in Ea'. inversion Ea'; subst ct'.
  destruct (Hid _ _ _ Ed) as [N A]. subst nonce ad.
  destruct (enc_structure_binds KEnc0 (w_prot w) None ext None c pb e I Sp S1 S2 S3 Et) as [A [B C]].
  subst c. repeat split; auto. exists w. auto.
Qed.

Theorem enc_decrypts_only_the_sealed pany p data ext v rs c pb e ct nonce0 :
  enc_consume pany p data ext = Ok (v, rs) ->
  (forall w, unmarshal_wire KEnc data = Ok w -> w_auth w = Some ct /\ osmall (w_prot w)) ->
  small (aad ext) -> small pb -> small e ->
  opens_only_with (en_decrypt p) ct nonce0 (encode (Enc_structure c pb e)) ->
  c = Encrypt /\ aad ext = e /\
  exists w, unmarshal_wire KEnc data = Ok w /\ w_prot w = Some pb /\ derive_nonce (omap (w_unprot w)) (en_key p) (en_nonce p) = Ok nonce0.
Proof.
  intros H Hw S1 S2 S3 Hid.
  destruct (enc_consume_sound _ _ _ _ _ _ H) as [w [ct' [ad [nonce [pt [Ew [Ea [_ [_ [_ [Et [En [Ed _]]]]]]]]]]]]].
  destruct (Hw w Ew) as [Ea' Sp]. rewrite Ea in Ea'. inversion Ea'; subst ct'.
  destruct (Hid _ _ _ Ed) as [N A]. subst nonce ad.
  destruct (enc_structure_binds KEnc (w_prot w) None ext None c pb e I Sp S1 S2 S3 Et) as [A [B C]].
  subst c. repeat split; auto. exists w. auto.
Qed.
