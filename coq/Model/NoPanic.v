(* C07: the models of the decoding and consuming entry points never take the Panic outcome, for any input.
   The models are total functions; `Panic` is the outcome they give where the Go code would index out of range,
   dereference nil, or call a Must- helper that fails. *)
From Coq Require Import String.
From Coq Require Import NArith ZArith List Arith Lia Bool.
From Cose Require Import Lib.Base Lib.GenTypes Lib.Cbor Model.GoVal Model.CborGo Model.Wire Model.Key Model.MsgLogic Model.MsgLogicProofs
     Model.Nonce Model.NonceProofs Model.Msg Model.MsgProofs Gen.ApiGen.
Import ListNotations.
Open Scope Z_scope.

Definition np {A} (r : res A) : Prop := r <> Panic.

Lemma np_bind {A B} (r : res A) (f : A -> res B) : np r -> (forall a, r = Ok a -> np (f a)) -> np (bind r f).
Proof. unfold np, bind. intros H1 H2. destruct r; try congruence. now apply H2. Qed.
Lemma np_ok {A} (a : A) : np (Ok a). Proof. discriminate. Qed.
Lemma np_err {A} : np (@Err A). Proof. discriminate. Qed.
Lemma np_if {A} (c : bool) (a b : res A) : np a -> np b -> np (if c then a else b).
Proof. destruct c; auto. Qed.
#[local] Hint Resolve np_ok np_err : np.

(* ---------------------------------------------------------------- the CBOR codec *)
Lemma dhead_np bs : np (dhead bs).
Proof.
  unfold np, dhead. destruct bs as [|b r]; [discriminate|]. cbv zeta.
  destruct (Byte.to_N b mod 32 <? 24)%N; [discriminate|].
  destruct (if (Byte.to_N b mod 32 =? 24)%N then _ else _) as [k|]; [|discriminate].
  destruct (take k r) as [[a r']|]; [|discriminate].
  destruct ((Byte.to_N b / 32 =? 7)%N && (Byte.to_N b mod 32 =? 24)%N && (of_be a <? 32)%N); discriminate.
Qed.

Lemma dec_seq_np (sub : nat -> bool -> bytes -> res (item * bytes)) : (forall d c bs, np (sub d c bs)) ->
  forall k d bs, np (dec_seq sub k d bs).
Proof.
  intros Hs k. induction k as [|k IH]; intros d bs; cbn [dec_seq]; [discriminate|].
  pose proof (Hs d false bs) as H1. destruct (sub d false bs) as [[x r1]| |]; try discriminate; [|contradiction].
  pose proof (IH d r1) as H2. destruct (dec_seq sub k d r1) as [[xs r2]| |]; try discriminate. contradiction.
Qed.

Lemma dec_np fuel : forall d c bs, np (dec fuel d c bs).
Proof.
  induction fuel as [|f IH]; intros d c bs; [discriminate|]. unfold np. rewrite Lib.CborProofs.dec_unfold.
  pose proof (dhead_np bs) as Hd. destruct (dhead bs) as [[[[mt ai] n] r]| |]; try discriminate; [|contradiction].
  destruct (mt =? 0)%N; [discriminate|]. destruct (mt =? 1)%N; [discriminate|].
  destruct ((mt =? 2) || (mt =? 3))%N.
  { destruct (int_max <? n)%N; [discriminate|]. destruct (N.of_nat (length r) <? n)%N; [discriminate|]. destruct (take (N.to_nat n) r) as [[b r']|]; discriminate. }
  destruct ((mt =? 4) || (mt =? 5))%N.
  { cbv zeta. destruct (Nat.ltb max_nested (S d)); [discriminate|]. destruct (int_max <? n)%N; [discriminate|].
    destruct (max_elems <? n)%N; [discriminate|]. destruct (N.of_nat (length r) <? n)%N; [discriminate|].
    destruct (mt =? 4)%N.
    - pose proof (dec_seq_np (dec f) IH (N.to_nat n) (S d) r) as H. destruct (dec_seq (dec f) (N.to_nat n) (S d) r) as [[l r']| |]; try discriminate. contradiction.
    - pose proof (dec_seq_np (dec f) IH (2 * N.to_nat n) (S d) r) as H. destruct (dec_seq (dec f) (2 * N.to_nat n) (S d) r) as [[l r']| |]; try discriminate; [|contradiction].
      destruct (pairs l); discriminate. }
  destruct (mt =? 6)%N.
  { cbv zeta. destruct (Nat.ltb max_nested _); [discriminate|].
    match goal with |- context [dec f ?d' true r] => pose proof (IH d' true r) as H; destruct (dec f d' true r) as [[x r']| |] end; try discriminate. contradiction. }
  destruct (ai <? 25)%N; discriminate.
Qed.

Theorem decode_np bs : np (decode bs).
Proof.
  unfold np, decode. pose proof (dec_np dec_fuel 0%nat false bs) as H. destruct (dec dec_fuel 0 false bs) as [[v [|? ?]]| |]; try discriminate. contradiction.
Qed.

Lemma parse_elems_np P l : (forall x, In x l -> np (P x)) -> np (parse_elems P l).
Proof.
  induction l as [|x r IH]; intro H; cbn [parse_elems]; [discriminate|].
  pose proof (H x (or_introl eq_refl)) as Hx. assert (Hr : np (parse_elems P r)) by (apply IH; intros; apply H; now right).
  unfold np in *. destruct (P x); destruct (parse_elems P r); try discriminate; contradiction.
Qed.

Lemma parse_entries_np P l : (forall k v, In (k, v) l -> np (P k) /\ np (P v)) -> forall seen, np (parse_entries P l seen).
Proof.
  induction l as [|[k v] r IH]; intros H seen; cbn [parse_entries]; [discriminate|].
  destruct (H k v (or_introl eq_refl)) as [Hk Hv]. unfold np in *.
  destruct (P k) as [kv| |]; try discriminate; [|contradiction].
  destruct (negb (hashable kv)); [discriminate|].
  destruct (P v) as [vv| |]; try discriminate; [|contradiction].
  destruct (existsb (key_eqb kv) seen); [discriminate|].
  assert (Hr : parse_entries P r (kv :: seen) <> Panic) by (apply IH; intros; apply H; now right).
  destruct (parse_entries P r (kv :: seen)); try discriminate. contradiction.
Qed.

Theorem parse_np it : forall s, np (parse s it).
Proof.
  induction it as [n|n|b|b|l IH|l IH|t x IH|n|ai bits] using Lib.CborProofs.item_ind'; intro s; unfold np; cbn [parse].
  - discriminate.
  - destruct (MaxI64N <? n)%N; discriminate.
  - discriminate.
  - destruct (utf8_valid b); discriminate.
  - rewrite Forall_forall in IH. pose proof (parse_elems_np (parse true) l (fun x Hx => IH x Hx true)) as H.
    unfold np in H. destruct (parse_elems (parse true) l); cbn; try discriminate. contradiction.
  - rewrite Forall_forall in IH.
    assert (H : np (parse_entries (parse true) l [])).
    { apply parse_entries_np. intros k v Hin. destruct (IH (k, v) Hin) as [A B]. split; [apply A|apply B]. }
    unfold np in H. destruct (parse_entries (parse true) l []) as [es| |]; cbn; try discriminate; [|contradiction]. destruct (labels_of es); discriminate.
  - destruct (s && (t =? 55799)%N); [apply IH|]. destruct (negb (chain_ok (ITag t x))); [discriminate|].
    destruct ((t =? 0)%N || (t =? 1)%N); [discriminate|]. destruct (t =? 2)%N; [destruct x; discriminate|]. destruct (t =? 3)%N; [destruct x; discriminate|].
    pose proof (IH false) as H. unfold np in H. destruct (parse false x); try discriminate. contradiction.
  - destruct (n =? 20)%N; [discriminate|]. destruct (n =? 21)%N; [discriminate|]. destruct ((n =? 22)%N || (n =? 23)%N); discriminate.
  - discriminate.
Qed.

Theorem unmarshal_any_np bs : np (unmarshal_any bs).
Proof.
  unfold np, unmarshal_any. pose proof (decode_np bs) as H. destruct (decode bs); try discriminate; [apply parse_np|contradiction].
Qed.

(* ---------------------------------------------------------------- wire structures *)
Lemma through_tags_np it : np (through_tags it).
Proof.
  induction it as [n|n|b|b|l IH|l IH|t x IH|n|ai bits] using Lib.CborProofs.item_ind'; unfold np; cbn [through_tags]; try discriminate.
  destruct (t =? 55799)%N; [exact IH|]. destruct (negb (chain_ok (ITag t x))); [discriminate|]. destruct ((t =? 2)%N || (t =? 3)%N); [discriminate|exact IH].
Qed.

Lemma as_uint8_np it : np (as_uint8 it).
Proof.
  unfold as_uint8. apply np_bind; [apply through_tags_np|]. intros t _. unfold np.
  destruct t as [n|n|b|b|l|l|tg x|n|ai bits]; try discriminate.
  - destruct (n <=? 255)%N; discriminate.
  - destruct tg as [|tg]; try discriminate. do 2 (destruct tg as [tg|tg|]; try discriminate). destruct x as [n|n|b|b|l|l|t2 x2|n|ai bits]; try discriminate. destruct (of_be b <=? 255)%N; discriminate.
  - destruct ((n =? 20)%N || (n =? 21)%N); [discriminate|]. destruct ((n =? 22)%N || (n =? 23)%N); discriminate.
Qed.

Lemma all_uint8_np l : np (all_uint8 l).
Proof.
  induction l as [|x r IH]; unfold np in *; cbn [all_uint8]; [discriminate|].
  pose proof (as_uint8_np x) as H. unfold np in H. destruct (as_uint8 x); destruct (all_uint8 r); try discriminate; contradiction.
Qed.

Lemma as_bytes_np it : np (as_bytes it).
Proof.
  unfold as_bytes. apply np_bind; [apply through_tags_np|]. intros t _. unfold np.
  destruct t as [n|n|b|b|l|l|tg x|n|ai bits]; try discriminate.
  - pose proof (all_uint8_np l) as H. unfold np in H. destruct (all_uint8 l); try discriminate. contradiction.
  - destruct x; discriminate.
  - destruct ((n =? 22)%N || (n =? 23)%N); discriminate.
Qed.

Lemma check_labels_np m : np (check_labels m).
Proof.
  induction m as [|[l v] r IH]; unfold np in *; cbn [check_labels]; [discriminate|].
  assert (H : check_label l <> Panic) by (destruct l as [k z|s]; cbn; [destruct k; try discriminate; match goal with |- (if ?c then _ else _) <> _ => destruct c end; discriminate|discriminate]).
  destruct (check_label l); destruct (check_labels r); try discriminate; contradiction.
Qed.

Lemma cosemap_of_item_np it : np (cosemap_of_item it).
Proof.
  unfold cosemap_of_item. apply np_bind; [apply through_tags_np|]. intros t _. unfold np.
  destruct t as [n|n|b|b|l|l|tg x|n|ai bits]; try discriminate.
  - pose proof (parse_np (IMap l) true) as H. unfold np in H. destruct (parse true (IMap l)) as [v| |]; try discriminate; [|contradiction].
    destruct v; try discriminate. apply check_labels_np.
  - destruct ((n =? 22)%N || (n =? 23)%N); discriminate.
Qed.

Theorem cosemap_of_bytes_np raw : np (cosemap_of_bytes raw).
Proof. unfold cosemap_of_bytes. apply np_bind; [apply decode_np|]. intros; apply cosemap_of_item_np. Qed.

Theorem headers_from_bytes_np b : np (headers_from_bytes b).
Proof. unfold headers_from_bytes. destruct b as [[|x d]|]; try discriminate. apply cosemap_of_bytes_np. Qed.

Lemma split_items_np n : forall bs, np (split_items n bs).
Proof.
  induction n as [|n IH]; intro bs; unfold np in *; cbn [split_items]; [discriminate|].
  pose proof (dec_np dec_fuel 0%nat false bs) as H. unfold np in H. destruct (dec dec_fuel 0 false bs) as [[x rest]| |]; try discriminate; [|contradiction].
  specialize (IH rest). destruct (split_items n rest); try discriminate. contradiction.
Qed.

Lemma array_elems_raw_np raw : np (array_elems_raw raw).
Proof.
  unfold np, array_elems_raw. destruct (dhead (skip_tag_heads 70 raw)) as [[[[mt ai] n] r]| |]; try discriminate.
  destruct (mt =? 4)%N; [apply split_items_np|discriminate].
Qed.

Theorem struct_fields_np n raw : np (struct_fields n raw).
Proof.
  unfold struct_fields. apply np_bind; [apply decode_np|]. intros it _. apply np_bind; [apply through_tags_np|]. intros t _.
  destruct t as [n0|n0|b|b|l|l|tg x|n0|ai bits]; try apply np_err.
  - apply np_if; [|apply np_err]. apply np_bind; [apply array_elems_raw_np|]. intros; apply np_ok.
  - apply np_if; [apply np_ok|apply np_err].
Qed.

Lemma fld_bytes_np raw : np (fld_bytes raw).
Proof. unfold fld_bytes. apply np_bind; [apply decode_np|]. intros; apply as_bytes_np. Qed.
Lemma fld_headers_np raw : np (fld_headers raw).
Proof. apply cosemap_of_bytes_np. Qed.
Lemma ptr_elems_np raw : np (ptr_elems raw).
Proof.
  unfold ptr_elems. apply np_bind; [apply decode_np|]. intros it _. apply np_bind; [apply through_tags_np|]. intros t _.
  destruct t as [n0|n0|b|b|l|l|tg x|n0|ai bits]; try apply np_err.
  - apply np_bind; [apply array_elems_raw_np|]. intros; apply np_ok.
  - apply np_if; [apply np_ok|apply np_err].
Qed.

Ltac np_binds :=
  repeat first
    [ apply np_ok | apply np_err
    | apply np_bind; [first [apply struct_fields_np | apply fld_bytes_np | apply fld_headers_np | apply ptr_elems_np | apply headers_from_bytes_np | apply decode_np] | intros]
    ].

Theorem unmarshal_wire_np k data : np (unmarshal_wire k data).
Proof.
  unfold unmarshal_wire. apply np_bind; [apply struct_fields_np|]. intros fs _.
  destruct fs as [l|]; [|apply np_ok].
  destruct k; repeat (destruct l as [|? l]; try apply np_err); np_binds.
Qed.

(* ---------------------------------------------------------------- the structures: MustMarshalCBOR never fails on them *)
Theorem structure_np k prot sprot ext payload : np (structure k prot sprot ext payload).
Proof. rewrite structure_general. apply np_ok. Qed.

(* ---------------------------------------------------------------- nonce derivation *)
Lemma to_keys_np m : np (to_keys m).
Proof.
  induction m as [|[l v] r IH]; cbn [to_keys]; [discriminate|].
  assert (np (to_key l)). { destruct l as [k z|s]; cbn [to_key]; [|discriminate]. destruct (is_signed k); repeat apply np_if; discriminate. }
  destruct (to_key l); destruct (to_keys r); try discriminate; contradiction.
Qed.
Theorem get_map_np m l : np (get_map m l).
Proof.
  unfold get_map. destruct (lookup m (ilabel l)) as [v|]; [|discriminate]. destruct v; try discriminate.
  pose proof (to_keys_np m0) as H. destruct (to_keys m0); try discriminate. contradiction.
Qed.

Theorem derive_nonce_np unprot key nsize : np (derive_nonce unprot key nsize).
Proof.
  unfold np, derive_nonce. destruct (get_bytes unprot 5) as [iv| |] eqn:E5; try discriminate.
  destruct (get_bytes unprot 6) as [piv| |] eqn:E6; try discriminate.
  destruct (negb (Nat.eqb (length piv) 0)); [|discriminate].
  destruct (negb (Nat.eqb (length iv) 0)); [discriminate|].
  destruct (Nat.leb nsize (length piv)) eqn:L; [discriminate|]. apply Nat.leb_gt in L.
  destruct (get_bytes key 5) as [base| |]; try discriminate. destruct (Nat.eqb (length base) 0); [discriminate|].
  destruct (xor_iv_no_panic base piv nsize) as [x [Ex _]]; [lia|]. rewrite Ex. discriminate.
Qed.

(* ---------------------------------------------------------------- consuming a message: no input makes it panic *)
Lemma payload_ok_np pany b : np (payload_ok pany b).
Proof.
  unfold payload_ok. destruct b as [[|x r]|]; try apply np_ok. destruct pany; [|apply np_ok].
  apply np_bind; [apply unmarshal_any_np|]. intros; apply np_ok.
Qed.

Lemma decoded_view_np pany w : np (decoded_view pany w).
Proof. unfold decoded_view. apply np_bind; [apply headers_from_bytes_np|]. intros. apply np_bind; [apply payload_ok_np|]. intros; apply np_ok. Qed.

Theorem sign1_consume_np pany p data ext : np (sign1_consume pany p data ext).
Proof.
  unfold sign1_consume. apply np_bind; [apply unmarshal_wire_np|]. intros w _. apply np_bind; [apply decoded_view_np|]. intros v _.
  destruct (w_auth w); [|apply np_err]. apply np_if; [apply np_err|]. apply np_bind; [apply structure_np|]. intros. apply np_if; [apply np_ok|apply np_err].
Qed.

Theorem mac0_consume_np pany p data ext : np (mac0_consume pany p data ext).
Proof.
  unfold mac0_consume. apply np_bind; [apply unmarshal_wire_np|]. intros w _. apply np_bind; [apply decoded_view_np|]. intros v _.
  destruct (w_auth w); [|apply np_err]. apply np_if; [apply np_err|]. apply np_bind; [apply structure_np|]. intros. apply np_if; [apply np_ok|apply np_err].
Qed.

Lemma res_all_np {A} (l : list (res A)) : (forall x, In x l -> np x) -> np (res_all l).
Proof.
  induction l as [|x r IH]; intro H; unfold np in *; cbn [res_all]; [discriminate|].
  pose proof (H x (or_introl eq_refl)) as Hx. assert (Hr : res_all r <> Panic) by (apply IH; intros; apply H; now right).
  destruct x; destruct (res_all r); try discriminate; contradiction.
Qed.

Lemma leaf_of_fields_np l : np (leaf_of_fields l).
Proof. unfold leaf_of_fields. do 3 (destruct l as [|? l]; try apply np_err). np_binds. Qed.

Lemma rleaf_decode_np raw : np (rleaf_decode raw).
Proof.
  unfold rleaf_decode. apply np_if; [|apply np_err]. apply np_bind; [apply struct_fields_np|]. intros fs _. destruct fs; [apply leaf_of_fields_np|apply np_err].
Qed.

Lemma recip_decode_np raw : np (recip_decode raw).
Proof.
  unfold recip_decode. apply np_if.
  - apply np_bind; [apply rleaf_decode_np|]. intros; apply np_ok.
  - apply np_if; [|apply np_err]. apply np_bind; [apply struct_fields_np|]. intros fs _.
    destruct fs as [l|]; [|apply np_err]. do 4 (destruct l as [|? l]; try apply np_err).
    all: apply np_bind; [apply leaf_of_fields_np|]; intros leaf _; apply np_bind; [apply ptr_elems_np|]; intros es _;
      destruct es as [[|e es]|]; try apply np_err; destruct (all_some (e :: es)); try apply np_err;
      apply np_bind; [apply res_all_np; intros x Hx; apply in_map_iff in Hx; destruct Hx as [y [<- _]]; apply rleaf_decode_np|intros; apply np_ok].
Qed.

Lemma recips_decode_np x : np (recips_decode x).
Proof.
  unfold recips_decode. destruct x as [[|e es]|]; try apply np_err. destruct (all_some (e :: es)); [|apply np_err].
  apply res_all_np. intros y Hy. apply in_map_iff in Hy. destruct Hy as [z [<- _]]. apply recip_decode_np.
Qed.

Theorem mac_consume_np pany p data ext : np (mac_consume pany p data ext).
Proof.
  unfold mac_consume. apply np_bind; [apply unmarshal_wire_np|]. intros w _. apply np_bind; [apply recips_decode_np|]. intros rs _.
  apply np_bind; [apply decoded_view_np|]. intros v _.
  destruct (w_auth w); [|apply np_err]. apply np_if; [apply np_err|]. apply np_bind; [apply structure_np|]. intros. apply np_if; [apply np_ok|apply np_err].
Qed.

(* decryption: given that the AEAD itself does not panic (C12 proves it for CCM; GCM and ChaCha20-Poly1305 are Go's) *)
Theorem enc0_consume_np pany p data ext : (forall n c a, np (en_decrypt p n c a)) -> np (enc0_consume pany p data ext).
Proof.
  intro Hd. unfold enc0_consume. apply np_bind; [apply unmarshal_wire_np|]. intros w _. apply np_bind; [apply headers_from_bytes_np|]. intros prot _.
  destruct (w_auth w); [|apply np_err]. apply np_if; [apply np_err|]. apply np_bind; [apply structure_np|]. intros aad _.
  apply np_bind; [apply derive_nonce_np|]. intros nonce _. apply np_bind; [apply Hd|]. intros pt _.
  apply np_bind; [apply payload_ok_np|]. intros; apply np_ok.
Qed.

Theorem enc_consume_np pany p data ext : (forall n c a, np (en_decrypt p n c a)) -> np (enc_consume pany p data ext).
Proof.
  intro Hd. unfold enc_consume. apply np_bind; [apply unmarshal_wire_np|]. intros w _. apply np_bind; [apply recips_decode_np|]. intros rs _.
  apply np_bind; [apply headers_from_bytes_np|]. intros prot _.
  destruct (w_auth w); [|apply np_err]. apply np_if; [apply np_err|]. apply np_bind; [apply structure_np|]. intros aad _.
  apply np_bind; [apply derive_nonce_np|]. intros nonce _. apply np_bind; [apply Hd|]. intros pt _.
  apply np_bind; [apply payload_ok_np|]. intros; apply np_ok.
Qed.

Lemma sig_decode_np raw : np (sig_decode raw).
Proof.
  unfold sig_decode. apply np_bind; [apply struct_fields_np|]. intros fs _. destruct fs as [l|]; [|apply np_ok].
  repeat (destruct l as [|? l]; try apply np_err). np_binds.
Qed.

Lemma sigs_decode_np x : np (sigs_decode x).
Proof.
  unfold sigs_decode. destruct x as [es|]; [|apply np_ok]. destruct (all_some es); [|apply np_err].
  apply np_bind; [|intros; apply np_ok]. apply res_all_np. intros y Hy. apply in_map_iff in Hy. destruct Hy as [z [<- _]]. apply sig_decode_np.
Qed.

Lemma verify_all_np vs w ext sigs : np (verify_all vs w ext sigs).
Proof.
  induction sigs as [|s r IH]; cbn [verify_all]; [apply np_ok|].
  destruct (lookup_prim vs _); [|apply np_err]. apply np_if; [apply np_err|]. apply np_bind; [apply structure_np|]. intros. apply np_if; [exact IH|apply np_err].
Qed.

Theorem sign_consume_np pany vs data ext : np (sign_consume pany vs data ext).
Proof.
  unfold sign_consume. apply np_bind; [apply unmarshal_wire_np|]. intros w _. apply np_bind; [apply sigs_decode_np|]. intros sigs _.
  apply np_bind; [apply decoded_view_np|]. intros v _.
  destruct vs; [apply np_err|]. destruct sigs as [[|s0 sr]|]; try apply np_err.
  apply np_bind; [apply verify_all_np|]. intros; apply np_ok.
Qed.

(* typed accessors *)
Theorem accessors_np m l : np (get_int m l) /\ np (get_int64 m l) /\ np (get_uint64 m l) /\ np (get_bytes m l) /\ np (get_string m l) /\ np (get_bool m l).
Proof.
  unfold np, get_int, get_int64, get_uint64, get_bytes, get_string, get_bool. destruct (lookup m (ilabel l)) as [v|]; [|repeat split; discriminate].
  repeat split; try (destruct v; discriminate).
  - apply to_int_not_panic.
  - destruct v; try discriminate. destruct (is_signed k); [discriminate|]. destruct (z <=? MaxInt64); discriminate.
  - destruct v; try discriminate. destruct (is_signed k); [destruct (0 <=? z); discriminate|discriminate].
Qed.

(* ---------------------------------------------------------------- the explicit panics in the source are the documented ones *)
Definition explicit_panics : list string := map (fun s => fst (fst s)) (filter (fun s => String.eqb (snd (fst s)) "panic") panic_sites).

Theorem explicit_panics_are_documented :
  explicit_panics = ["key.MustMarshalCBOR"; "key.RegisterEncryptor"; "key.RegisterMACer"; "key.RegisterSigner"; "key.RegisterVerifier"; "key.UnwrapBytes"; "key/aesccm.ccm_Seal"]%string.
Proof. vm_compute. reflexivity. Qed.

(* MustMarshalCBOR is called by the library only from the six structure builders (whose arguments always encode: structure_np) *)
Theorem must_calls_are_the_structure_builders :
  map (fun s => fst (fst s)) (filter (fun s => String.eqb (snd (fst s)) "mustcall") panic_sites)
  = ["cose.encrypt0Message_toEnc"; "cose.encryptMessage_toEnc"; "cose.mac0Message_toMac"; "cose.macMessage_toMac"; "cose.sign1Message_toSign"; "cose.signMessage_toSign"]%string.
Proof. vm_compute. reflexivity. Qed.

(* ---------------------------------------------------------------- which entry points the nopanic stream drives *)
Fixpoint prefixb (p s : string) : bool :=
  match p, s with
  | EmptyString, _ => true
  | String a p', String b s' => Ascii.eqb a b && prefixb p' s'
  | _, _ => false
  end.
Fixpoint containsb (p s : string) : bool :=
  prefixb p s || match s with String _ s' => containsb p s' | EmptyString => false end.

(* producers and plain getters of already-decoded state take no untrusted input; conversions from Go's own key objects
   (crypto/ecdsa, crypto/ecdh values) are outside "byte strings presented as ..." *)
Definition takes_no_untrusted_input (pkg nm : string) : bool :=
  if containsb "Unmarshal" nm then false
  else if String.eqb nm "Base64Bytesify" || String.eqb nm "HexBytesify" then false
  else existsb (fun p => containsb p nm)
         ["Marshal"; "Bytesify"; "AndEncode"; "WithSign"; "_Compute"; "_Encrypt"; "GenerateKey"; "_Set"; "AddRecipient"; "_Recipients"; "_Signature"; "_Tag";
          "String"; "SumKid"; "GetRandom"; "_Base64"; "CrvAlg"; "Headers_Bytes"]%string
       || ((String.eqb pkg "key/ecdh" || String.eqb pkg "key/ecdsa") && (String.eqb nm "KeyFromPrivate" || String.eqb nm "KeyFromPublic")).

Definition must_be_driven : list string :=
  map (fun a => (fst (fst a) ++ "." ++ snd (fst a))%string)
      (filter (fun a => negb (snd a) && negb (takes_no_untrusted_input (fst (fst a)) (snd (fst a)))) api).

Inductive np_case := ApiCovered (names : list string).

Definition check_np_case (c : np_case) : bool :=
  match c with
  | ApiCovered names => forallb (fun n => existsb (String.eqb n) names) must_be_driven
  end.

(* entry points documented to panic are exactly the Must- / Unwrap- / Register- helpers *)
Theorem documented_to_panic :
  map (fun a => (fst (fst a) ++ "." ++ snd (fst a))%string) (filter (fun a => snd a) api)
  = ["key.MustMarshalCBOR"; "key.RegisterEncryptor"; "key.RegisterMACer"; "key.RegisterSigner"; "key.RegisterVerifier"; "key.UnwrapBytes"]%string.
Proof. vm_compute. reflexivity. Qed.
