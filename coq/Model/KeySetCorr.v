From Coq Require Import String.
From Coq Require Import NArith ZArith List Bool.
From Cose Require Import Lib.Base Lib.Cbor Model.GoVal Model.CborGo Model.CborCorr Model.Wire Model.KeySet.
Import ListNotations.

Inductive keyset_case :=
| KsEnc (ks : option (list (option cosemap))) (ok : bool) (out : bytes)
| KsDec (data : bytes) (ok : bool) (out : option (list cosemap)).

Fixpoint maps_eqb (a b : list cosemap) : bool :=
  match a, b with
  | [], [] => true
  | x :: r, y :: s => geq 40 (VMap x) (VMap y) && maps_eqb r s
  | _, _ => false
  end.

Definition check_keyset_case (c : keyset_case) : bool :=
  match c with
  | KsEnc ks ok out => match enc_keyset ks with Some b => ok && bytes_eqb b out | None => negb ok end
  | KsDec data ok out =>
      match dec_keyset data with
      | Ok None => ok && match out with None => true | Some _ => false end
      | Ok (Some l) => ok && match out with Some l' => maps_eqb l l' | None => false end
      | Err => negb ok
      | Panic => false
      end
  end.
