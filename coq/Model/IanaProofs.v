From Coq Require Import List ZArith String Bool.
From Cose Require Import Lib.GenTypes Gen.IanaGen Spec.IanaSnapshot Model.IanaCheck.

(* finite domain: the decision procedure is evaluated by the kernel's VM and lifted by check_sound *)
Lemma iana_check_true : check IanaGen.consts IanaSnapshot.snapshot = true.
Proof. vm_compute. reflexivity. Qed.

Lemma iana_consistent : iana_ok IanaGen.consts IanaSnapshot.snapshot.
Proof. apply check_sound. exact iana_check_true. Qed.

Lemma domain_size : (190 <= Z.of_nat (List.length IanaGen.consts))%Z.
Proof. vm_compute. discriminate. Qed.

(* the package compiled under every build tag its own sources mention has the same constants *)
Lemma no_tag_variants : IanaGen.tag_variants = nil.
Proof. reflexivity. Qed.
