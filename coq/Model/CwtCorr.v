(* Correspondence cases for the cwt stream: the harness records the decision of
   the real Validator; check_cwt_case recomputes it with the model. *)
From Coq Require Import String.
From Coq Require Import ZArith List Bool.
From Cose Require Import Lib.Base Model.GoVal Spec.RFC8392 Model.Cwt.
Import ListNotations.
Open Scope Z_scope.

Inductive cwt_case :=
| CStruct (o : vopts) (now : gtime) (c : claims) (accepted : bool)
| CMap (o : vopts) (now : gtime) (m : cosemap) (accepted : bool)
| CNew (skew : Z) (constructed : bool).

Definition check_cwt_case (c : cwt_case) : bool :=
  match c with
  | CStruct o now cl ok => Bool.eqb (validate o now cl) ok
  | CMap o now m ok => Bool.eqb (validate_map o now m) ok
  | CNew s ok => Bool.eqb (is_ok (new_validator {| o_iss := []; o_aud := []; o_allow_missing := false; o_iat_past := false; o_skew := s |})) ok
  end.
