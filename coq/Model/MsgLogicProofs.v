From Coq Require Import String.
From Coq Require Import ZArith List Bool Lia.
From Cose Require Import Lib.Base Lib.GenTypes Model.GoVal Model.Key Model.KeyProofs Model.MsgLogic.
Import ListNotations.
Open Scope Z_scope.

(* the value a header carries as algorithm identifier, as an integer when it is one in any Go kind *)
Definition header_alg (prot : cosemap) : option gval := lookup prot (ilabel 1).

(* any integer representation: the comparison is on the value, never on the Go kind *)
Lemma alg_gate_int prot kd a kalg : header_alg prot = Some (VInt kd a) -> in_kind kd a = true ->
  alg_gate prot kalg = true -> kalg = a \/ (kalg = 0 /\ (a < MinInt32 \/ a > MaxInt32)).
Proof.
  unfold header_alg, alg_gate, has, get_int_, get_int. intros L K.
  rewrite L. cbn [to_int]. unfold in_kind in K.
  destruct (is_signed kd) eqn:S.
  - destruct ((MinInt32 <=? a) && (a <=? MaxInt32)) eqn:R; intro H; apply Z.eqb_eq in H; [left; congruence|right].
    split; [congruence|]. unfold MinInt32, MaxInt32 in *. lia.
  - destruct (a <=? MaxInt32) eqn:R; intro H; apply Z.eqb_eq in H; [left; congruence|right].
    split; [congruence|]. unfold MaxInt32 in *. lia.
Qed.

(* C05 core: a header algorithm different from the key's is refused, for every integer kind, for every key with an algorithm *)
Theorem alg_mismatch_refused prot kd a kalg :
  header_alg prot = Some (VInt kd a) -> in_kind kd a = true -> kalg <> 0 -> a <> kalg -> alg_gate prot kalg = false.
Proof.
  intros L K Hk Hne. destruct (alg_gate prot kalg) eqn:G; [|reflexivity].
  destruct (alg_gate_int prot kd a kalg L K G) as [E|[E _]]; congruence.
Qed.

Theorem alg_match_passes prot kd a :
  header_alg prot = Some (VInt kd a) -> MinInt32 <= a <= MaxInt32 -> alg_gate prot a = true.
Proof.
  unfold header_alg, alg_gate, has, get_int_, get_int. intros L R. rewrite L. cbn [to_int].
  destruct (is_signed kd).
  - replace ((MinInt32 <=? a) && (a <=? MaxInt32)) with true by (symmetry; apply andb_true_iff; split; lia). apply Z.eqb_refl.
  - replace (a <=? MaxInt32) with true by lia. apply Z.eqb_refl.
Qed.

(* text, null, bool, float, bytes ... : an identifier that is not an integer never matches a key that has an algorithm *)
Theorem non_int_alg_refused prot v kalg :
  header_alg prot = Some v -> (forall kd a, v <> VInt kd a) -> kalg <> 0 -> alg_gate prot kalg = false.
Proof.
  unfold header_alg, alg_gate, has, get_int_, get_int. intros L Hv Hk. rewrite L.
  destruct v; try (exfalso; eapply Hv; reflexivity); cbn [to_int]; apply Z.eqb_neq; lia.
Qed.

Theorem no_header_alg_no_gate prot kalg : header_alg prot = None -> alg_gate prot kalg = true.
Proof. unfold header_alg, alg_gate, has. intro L. now rewrite L. Qed.

(* every key accepted by a CheckKey has an algorithm, so the side condition kalg <> 0 is met by every usable key *)
Lemma sym_keysize_zero f : sym_keysize f 0 = 0.
Proof. destruct f; vm_compute; reflexivity. Qed.

Theorem checked_sym_key_has_alg f k : check_key_sym f k = true -> key_alg k <> 0.
Proof.
  unfold check_key_sym. intros H E.
  apply andb_true_iff in H. destruct H as [H _]. apply andb_true_iff in H. destruct H as [_ H].
  rewrite E in H. destruct (get_bytes k (-1)); try discriminate.
  rewrite sym_keysize_zero in H. cbn in H. discriminate.
Qed.

Theorem checked_ecdsa_key_has_alg k : check_key_ecdsa k = true -> key_alg k <> 0.
Proof.
  unfold check_key_ecdsa. intros H E.
  apply andb_true_iff in H. destruct H as [H _]. apply andb_true_iff in H. destruct H as [H _].
  apply andb_true_iff in H. destruct H as [_ H].
  assert (Z0 : ecdsa_curve_known 0 = false) by (vm_compute; reflexivity).
  rewrite E, Z0 in H. destruct (get_int k (-1)); discriminate.
Qed.

Lemma to_int_not_panic v : to_int v <> Panic.
Proof.
  destruct v; cbn; try discriminate.
  destruct (is_signed k).
  - destruct ((MinInt32 <=? z) && (z <=? MaxInt32)); discriminate.
  - destruct (z <=? MaxInt32); discriminate.
Qed.

Lemma crv_alg_6 : crv_alg 6 = -8.
Proof. vm_compute. reflexivity. Qed.

Theorem checked_ed_key_has_alg k : check_key_ed k = true -> key_alg k <> 0.
Proof.
  unfold check_key_ed. intros H.
  repeat (apply andb_true_iff in H; destruct H as [H ?]).
  unfold key_alg. destruct (get_int k (-1)) as [c| |] eqn:Ec; try discriminate.
  match goal with H : (c =? 6) = true |- _ => apply Z.eqb_eq in H; subst c end.
  destruct (get_int k 3) as [a| |] eqn:Ea.
  - destruct (a =? 0) eqn:Z0.
    + apply Z.eqb_eq in Z0. subst a. rewrite crv_alg_6. discriminate.
    + destruct a; [cbn in Z0; discriminate Z0|intro F; discriminate F|intro F; discriminate F].
  - (* malformed alg: key_alg = 0; but then the loop's alg clause (label 3 present) demands key_alg = -8 *)
    exfalso.
    match goal with H : loop_ok _ _ _ _ = true |- _ => rename H into HL end.
    unfold get_int in Ea. destruct (lookup k (ilabel 3)) as [v|] eqn:L3; [|discriminate].
    (* the entry with label 3 is visited by the loop *)
    assert (In3 : exists v0, In (ilabel 3, v0) k).
    { clear -L3. induction k as [|[a0 v0] r IH]; cbn in L3; [discriminate|].
      destruct (label_eqb a0 (ilabel 3)) eqn:E.
      - apply label_eqb_eq in E. subst. exists v0. now left.
      - destruct (IH L3) as [v1 Hv1]. exists v1. now right. }
    destruct In3 as [v0 Hin]. unfold loop_ok in HL. rewrite forallb_forall in HL. specialize (HL _ Hin).
    unfold entry_ok in HL. cbn [fst ilabel] in HL.
    assert (P3 : memZ 3 (g_plain ed_gen) = false) by (vm_compute; reflexivity).
    rewrite P3 in HL. cbn in HL.
    unfold key_alg in HL. unfold get_int in HL. rewrite L3, Ea in HL. cbn in HL. discriminate.
  - exfalso. unfold get_int in Ea. destruct (lookup k (ilabel 3)) as [g|]; [|discriminate].
    exact (to_int_not_panic g Ea).
Qed.

(* ---- defaults: headers left unset record the key's algorithm and key id ---- *)
Theorem default_protected k : key_alg k <> 0 ->
  prepare_protected None k = Ok [(ilabel 1, VInt KInt (key_alg k))].
Proof. intro H. unfold prepare_protected. apply Z.eqb_neq in H. now rewrite H. Qed.

Theorem default_unprotected k : kid k <> [] ->
  prepare_unprotected None k = [(ilabel 4, VBytes (kid k))].
Proof. intro H. unfold prepare_unprotected. destruct (kid k); [contradiction|reflexivity]. Qed.

Theorem default_protected_passes_gate k : MinInt32 <= key_alg k <= MaxInt32 ->
  match prepare_protected None k with Ok p => consume_gate p k = true | _ => False end.
Proof.
  intro R. unfold prepare_protected. destruct (key_alg k =? 0) eqn:E.
  - reflexivity.
  - unfold consume_gate. apply (alg_match_passes _ KInt (key_alg k)); [reflexivity|exact R].
Qed.

(* ---- the producing side refuses exactly when the gate does ---- *)
Theorem prepare_refuses_mismatch p k kd a :
  header_alg p = Some (VInt kd a) -> in_kind kd a = true -> key_alg k <> 0 -> a <> key_alg k ->
  prepare_protected (Some p) k = Err.
Proof. intros. unfold prepare_protected. now rewrite (alg_mismatch_refused p kd a (key_alg k)). Qed.

(* ---- COSE_Sign: each signature's own bucket is checked against the verifier found by kid ---- *)
Theorem sign_verify_mismatch_refused sigs vs sp su vk kd a :
  In (sp, su) sigs -> lookup_kid vs (get_bytes_ su 4) = Some vk ->
  header_alg sp = Some (VInt kd a) -> in_kind kd a = true -> key_alg vk <> 0 -> a <> key_alg vk ->
  sign_verify_gates sigs vs = false.
Proof.
  intros Hin Hl Ha Hk Hv Hne. unfold sign_verify_gates.
  apply andb_false_iff. right. apply not_true_is_false. intro F.
  rewrite forallb_forall in F. specialize (F _ Hin). cbn [fst snd] in F. rewrite Hl in F.
  unfold consume_gate in F. rewrite (alg_mismatch_refused sp kd a (key_alg vk) Ha Hk Hv Hne) in F. discriminate.
Qed.

Theorem sign_no_signatures_refused vs : sign_verify_gates [] vs = false.
Proof. unfold sign_verify_gates. cbn. now rewrite andb_false_r. Qed.

Theorem sign_unmatched_kid_refused sigs vs sp su :
  In (sp, su) sigs -> lookup_kid vs (get_bytes_ su 4) = None -> sign_verify_gates sigs vs = false.
Proof.
  intros Hin Hl. unfold sign_verify_gates. apply andb_false_iff. right. apply not_true_is_false. intro F.
  rewrite forallb_forall in F. specialize (F _ Hin). cbn [snd] in F. rewrite Hl in F. discriminate.
Qed.

Theorem lookup_kid_exact vs id k0 : lookup_kid vs id = Some k0 -> kid k0 = id /\ In k0 vs.
Proof.
  induction vs as [|v r IH]; cbn; [discriminate|]. destruct (bytes_eqb (kid v) id) eqn:E.
  - intro H. inversion H; subst. apply bytes_eqb_eq in E. split; [exact E|now left].
  - intro H. destruct (IH H). split; [assumption|now right].
Qed.

Theorem lookup_kid_none vs id : lookup_kid vs id = None <-> (forall k, In k vs -> kid k <> id).
Proof.
  induction vs as [|v r IH]; cbn [lookup_kid]; split; intro H.
  - intros k1 Hk. destruct Hk.
  - reflexivity.
  - destruct (bytes_eqb (kid v) id) eqn:E; [discriminate|]. intros k1 Hk. destruct Hk as [<-|Hk].
    + intro F. rewrite <- F in E. rewrite bytes_eqb_refl in E. discriminate.
    + apply IH; assumption.
  - destruct (bytes_eqb (kid v) id) eqn:E.
    + apply bytes_eqb_eq in E. exfalso. apply (H v); [now left|exact E].
    + apply IH. intros k1 Hk. apply H. now right.
Qed.
