(* Values that differ only in the Go integer type chosen for an integer (int vs int64 vs uint64 ...), or in the
   slice type holding key_ops, behave identically: every accessor, every CheckKey, every factory. This is what
   makes a key that went through a CBOR / JSON / text round trip interchangeable with the original (C17). *)
From Coq Require Import String.
From Coq Require Import ZArith List Bool Lia.
From Cose Require Import Lib.Base Lib.GenTypes Model.GoVal Model.Key Model.KeyProofs Model.Dispatch.
Import ListNotations.
Open Scope Z_scope.

Inductive veq : gval -> gval -> Prop :=
| veq_refl v : veq v v
| veq_int k k' z : in_kind k z = true -> in_kind k' z = true -> veq (VInt k z) (VInt k' z)
| veq_ints_arr l l' : all_to_int l' = Some l -> veq (VInts l) (VArr l')
| veq_ops_arr l l' : all_to_int l' = Some l -> veq (VOps (Some l)) (VArr l').

Definition meq (k k' : cosemap) : Prop := Forall2 (fun e e' => fst e = fst e' /\ veq (snd e) (snd e')) k k'.

Lemma to_int_veq v v' : veq v v' -> to_int v = to_int v'.
Proof.
  destruct 1 as [v|k k' z H1 H2|l l' H|l l' H]; try reflexivity.
  unfold in_kind in *. cbn [to_int]. unfold MinInt32, MaxInt32.
  destruct k, k'; cbn in *;
    repeat match goal with |- context [if ?c then _ else _] => destruct c eqn:? end; try reflexivity; try lia.
Qed.

Definition orel (R : gval -> gval -> Prop) (a b : option gval) : Prop :=
  match a, b with Some x, Some y => R x y | None, None => True | _, _ => False end.

Lemma lookup_meq k k' l : meq k k' -> orel veq (lookup k l) (lookup k' l).
Proof.
  induction 1 as [|[a v] [a' v'] r r' [E V] _ IH]; cbn; [exact I|].
  cbn in E, V. subst a'. destruct (label_eqb a l); [exact V|exact IH].
Qed.

Ltac lk_cases k k' l H :=
  let L := fresh "L" in pose proof (lookup_meq k k' l H) as L; unfold orel in L;
  destruct (lookup k l) as [?v|], (lookup k' l) as [?v|]; try contradiction.

Lemma get_int_meq k k' l : meq k k' -> get_int k' l = get_int k l.
Proof. intro H. unfold get_int. lk_cases k k' (ilabel l) H; [symmetry; now apply to_int_veq|reflexivity]. Qed.

Lemma has_meq k k' l : meq k k' -> has k' l = has k l.
Proof. intro H. unfold has. lk_cases k k' (ilabel l) H; reflexivity. Qed.

Lemma get_bytes_meq k k' l : meq k k' -> get_bytes k' l = get_bytes k l.
Proof. intro H. unfold get_bytes. lk_cases k k' (ilabel l) H; [|reflexivity]. destruct L; reflexivity. Qed.

Lemma get_bool_meq k k' l : meq k k' -> get_bool k' l = get_bool k l.
Proof. intro H. unfold get_bool. lk_cases k k' (ilabel l) H; [|reflexivity]. destruct L; reflexivity. Qed.

Lemma key_ops_meq k k' : meq k k' -> key_ops k' = key_ops k.
Proof.
  intro H. unfold key_ops. lk_cases k k' (ilabel 4) H; [|reflexivity].
  destruct L as [v|kd kd' z H1 H2|l l' E|l l' E]; try reflexivity; now rewrite E.
Qed.

Lemma get_int__meq k k' l : meq k k' -> get_int_ k' l = get_int_ k l.
Proof. intro H. unfold get_int_. now rewrite (get_int_meq k k' l H). Qed.
Lemma get_bytes__meq k k' l : meq k k' -> get_bytes_ k' l = get_bytes_ k l.
Proof. intro H. unfold get_bytes_. now rewrite (get_bytes_meq k k' l H). Qed.
Lemma kty_meq k k' : meq k k' -> kty k' = kty k.
Proof. intro H. unfold kty. now apply get_int__meq. Qed.
Lemma key_alg_meq k k' : meq k k' -> key_alg k' = key_alg k.
Proof. intro H. unfold key_alg. now rewrite !(get_int_meq k k' _ H). Qed.
Lemma kid_ok_meq k k' : meq k k' -> kid_ok k' = kid_ok k.
Proof. intro H. unfold kid_ok. now rewrite (has_meq k k' _ H), (get_bytes_meq k k' _ H). Qed.
Lemma y_ok_meq k k' n : meq k k' -> y_ok k' n = y_ok k n.
Proof. intro H. unfold y_ok. now rewrite (get_bool_meq k k' _ H), (get_bytes_meq k k' _ H). Qed.
Lemma triple_meq k k' : meq k k' -> triple k' = triple k.
Proof. intro H. unfold triple. now rewrite (kty_meq k k' H), (key_alg_meq k k' H), (get_int__meq k k' _ H). Qed.
Lemma lookup_label_meq k k' l : meq k k' -> match lookup k' l with Some _ => true | None => false end = match lookup k l with Some _ => true | None => false end.
Proof. intro H. lk_cases k k' l H; reflexivity. Qed.

Lemma forallb_entry_meq g a o k k' : meq k k' -> forallb (entry_ok g a o) k' = forallb (entry_ok g a o) k.
Proof.
  induction 1 as [|[l v] [l' v'] r r' [E _] _ IH]; cbn [forallb]; [reflexivity|]. cbn in E. subst l'.
  rewrite IH. unfold entry_ok. reflexivity.
Qed.

Lemma loop_ok_meq g a x k k' : meq k k' -> loop_ok g a x k' = loop_ok g a x k.
Proof.
  intro H. unfold loop_ok, ops_clause. rewrite (key_ops_meq k k' H). apply forallb_entry_meq. exact H.
Qed.

Lemma check_key_sym_meq f k k' : meq k k' -> check_key_sym f k' = check_key_sym f k.
Proof.
  intro H. unfold check_key_sym.
  now rewrite (kty_meq k k' H), (key_alg_meq k k' H), (loop_ok_meq _ _ _ k k' H), (get_bytes_meq k k' _ H), (kid_ok_meq k k' H).
Qed.

Lemma check_key_ed_meq k k' : meq k k' -> check_key_ed k' = check_key_ed k.
Proof.
  intro H. unfold check_key_ed.
  now rewrite (kty_meq k k' H), (key_alg_meq k k' H), (loop_ok_meq _ _ _ k k' H), (get_int_meq k k' _ H), !(has_meq k k' _ H),
              !(get_bytes__meq k k' _ H), (key_ops_meq k k' H), (kid_ok_meq k k' H).
Qed.

Lemma check_key_ecdsa_meq k k' : meq k k' -> check_key_ecdsa k' = check_key_ecdsa k.
Proof.
  intro H. unfold check_key_ecdsa.
  now rewrite (kty_meq k k' H), (key_alg_meq k k' H), (loop_ok_meq _ _ _ k k' H), (get_int_meq k k' _ H), !(has_meq k k' _ H),
              !(get_bytes__meq k k' _ H), (key_ops_meq k k' H), (kid_ok_meq k k' H), (y_ok_meq k k' _ H).
Qed.

Theorem sym_performs_meq f op k k' : meq k k' -> sym_performs f op k' = sym_performs f op k.
Proof. intro H. unfold sym_performs. now rewrite (check_key_sym_meq f k k' H), (key_ops_meq k k' H). Qed.

Section E.
Variable C : crypto.

Lemma ed_signer_ok_meq k k' : meq k k' -> ed_signer_ok C k' = ed_signer_ok C k.
Proof. intro H. unfold ed_signer_ok. now rewrite (check_key_ed_meq k k' H), !(has_meq k k' _ H), !(get_bytes__meq k k' _ H). Qed.

Lemma ecdsa_signer_ok_meq k k' : meq k k' -> ecdsa_signer_ok C k' = ecdsa_signer_ok C k.
Proof.
  intro H. unfold ecdsa_signer_ok.
  now rewrite (check_key_ecdsa_meq k k' H), !(has_meq k k' _ H), !(get_bytes__meq k k' _ H), !(get_bytes_meq k k' _ H), (key_alg_meq k k' H).
Qed.

Lemma meq_refl k : meq k k.
Proof. induction k as [|e r IH]; constructor; [split; [reflexivity|constructor]|exact IH]. Qed.

Lemma opt_entry_meq k k' l (H : meq k k') :
  meq (match lookup k l with Some v => [(l, v)] | None => [] end) (match lookup k' l with Some v => [(l, v)] | None => [] end).
Proof.
  pose proof (lookup_meq k k' l H) as L. unfold orel in L.
  destruct (lookup k l), (lookup k' l); try contradiction; [|constructor].
  constructor; [split; [reflexivity|exact L]|constructor].
Qed.

Lemma opt_ops_meq k k' (H : meq k k') :
  meq (match lookup k (ilabel 4) with Some _ => [(ilabel 4, VOps (Some [2]))] | None => [] end)
      (match lookup k' (ilabel 4) with Some _ => [(ilabel 4, VOps (Some [2]))] | None => [] end).
Proof.
  pose proof (lookup_meq k k' (ilabel 4) H) as L. unfold orel in L.
  destruct (lookup k (ilabel 4)), (lookup k' (ilabel 4)); try contradiction; apply meq_refl.
Qed.

Lemma meq_app a a' b b' : meq a a' -> meq b b' -> meq (a ++ b) (a' ++ b').
Proof. apply Forall2_app. Qed.

Definition omeq (a b : option cosemap) : Prop :=
  match a, b with Some x, Some y => meq x y | None, None => True | _, _ => False end.

Lemma ed_to_public_meq k k' : meq k k' -> omeq (ed_to_public C k) (ed_to_public C k').
Proof.
  intro H. unfold ed_to_public. rewrite (check_key_ed_meq k k' H), !(has_meq k k' _ H), !(get_bytes__meq k k' _ H).
  destruct (check_key_ed k); cbn [negb]; [|exact I].
  destruct (has k (-4)); cbn [negb]; [|exact H].
  destruct (has k (-2) && negb (bytes_eqb (get_bytes_ k (-2)) (ed_public C (get_bytes_ k (-4))))); [exact I|].
  cbn [omeq]. repeat apply meq_app; try apply meq_refl; try (apply opt_entry_meq; exact H). apply opt_ops_meq; exact H.
Qed.

Lemma ecdsa_to_public_meq k k' : meq k k' -> omeq (ecdsa_to_public C k) (ecdsa_to_public C k').
Proof.
  intro H. unfold ecdsa_to_public.
  rewrite (check_key_ecdsa_meq k k' H), !(has_meq k k' _ H), !(get_bytes__meq k k' _ H), (get_bytes_meq k k' _ H), (key_alg_meq k k' H).
  destruct (check_key_ecdsa k); cbn [negb]; [|exact I].
  destruct (has k (-4)); cbn [negb]; [|exact H].
  match goal with |- omeq (if ?c then _ else _) _ => destruct c; [exact I|] end.
  cbn [omeq]. repeat apply meq_app; try apply meq_refl; try (apply opt_entry_meq; exact H). apply opt_ops_meq; exact H.
Qed.

Lemma ecdsa_point_ok_meq k k' : meq k k' -> ecdsa_point_ok C k' = ecdsa_point_ok C k.
Proof.
  intro H. unfold ecdsa_point_ok. rewrite (key_alg_meq k k' H), (get_bytes__meq k k' _ H), (get_bool_meq k k' _ H).
  lk_cases k k' (ilabel (-3)) H; [|reflexivity]. destruct L; reflexivity.
Qed.

(* C17: obtaining a signer / verifier / MACer / encryptor does not depend on the Go integer types or the
   slice type of key_ops that decoding produced *)
Theorem obtain_meq kind k k' : meq k k' -> obtain C kind k' = obtain C kind k.
Proof.
  intros H. unfold obtain, dispatch. rewrite (triple_meq k k' H).
  destruct (reg_pkg kind (triple k)) as [pkg|]; [|reflexivity].
  unfold factory_ok. rewrite !(check_key_sym_meq _ k k' H), (ecdsa_signer_ok_meq k k' H), (ed_signer_ok_meq k k' H).
  pose proof (ed_to_public_meq k k' H) as E1. pose proof (ecdsa_to_public_meq k k' H) as E2. unfold omeq in E1, E2.
  destruct (ed_to_public C k), (ed_to_public C k'); try contradiction;
  destruct (ecdsa_to_public C k) as [p|], (ecdsa_to_public C k') as [p'|]; try contradiction;
  rewrite ?(ecdsa_point_ok_meq p p' E2); reflexivity.
Qed.

(* the per-operation gate on the obtained implementation *)
Theorem gate_meq k k' op : meq k k' -> empty_or_has (key_ops k') op = empty_or_has (key_ops k) op.
Proof. intro H. now rewrite (key_ops_meq k k' H). Qed.
End E.

Example meq_nontrivial :
  meq [(ilabel 1, VInt KInt 4); (ilabel 3, VInt KInt 5); (ilabel 4, VInts [9; 10]); (ilabel (-1), VBytes (zeros 32))]
      [(ilabel 1, VInt KUint64 4); (ilabel 3, VInt KInt64 5); (ilabel 4, VArr [VInt KUint64 9; VInt KUint64 10]); (ilabel (-1), VBytes (zeros 32))].
Proof.
  repeat constructor; cbn; try reflexivity.
Qed.
