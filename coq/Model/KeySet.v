(* key.KeySet ([]Key) in CBOR: an array of key maps. A nil set is written as null; a nil key inside a set is written as
   null and read back as an empty key. *)
From Coq Require Import String.
From Coq Require Import NArith ZArith List Bool.
From Cose Require Import Lib.Base Lib.Cbor Model.GoVal Model.CborGo Model.Wire.
Import ListNotations.

Definition enc_key_elem (k : option cosemap) : option bytes :=
  match k with None => Some (encode (ISimple 22)) | Some m => enc_cosemap m end.

Definition enc_keyset (ks : option (list (option cosemap))) : option bytes :=
  match ks with
  | None => Some (encode (ISimple 22))
  | Some l => option_map enc_array (opt_all (map enc_key_elem l))
  end.

Definition dec_key_elem (r : bytes) : res cosemap :=
  let r' := strip_sd 70 r in
  match r' with
  | b :: _ => if byte_eqb b Byte.xf6 || byte_eqb b Byte.xf7 then Ok [] else cosemap_of_bytes r'
  | [] => cosemap_of_bytes r'
  end.

Fixpoint res_list {A} (l : list (res A)) : res (list A) :=
  match l with
  | [] => Ok []
  | x :: r => match x, res_list r with
              | Ok a, Ok rs => Ok (a :: rs)
              | Panic, _ | _, Panic => Panic
              | _, _ => Err
              end
  end.

Definition dec_keyset (raw : bytes) : res (option (list cosemap)) :=
  do it <- decode raw;
  do t <- through_tags it;
  match t with
  | IArr _ => do rs <- array_elems_raw raw; do ks <- res_list (map dec_key_elem rs); Ok (Some ks)
  | ISimple n => if (n =? 22)%N || (n =? 23)%N then Ok None else Err
  | _ => Err
  end.
