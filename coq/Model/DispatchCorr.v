From Coq Require Import String.
From Coq Require Import ZArith List Bool.
From Cose Require Import Lib.Base Lib.GenTypes Model.GoVal Model.Key Model.KeyCorr Model.MsgLogic Model.Dispatch.
Import ListNotations.
Open Scope Z_scope.

Inductive dispatch_case :=
| DObtain (o : oracle) (k : cosemap) (oks : list bool)     (* Signer, Verifier, MACer, Encryptor *)
| DLookup (ks : list cosemap) (q : bytes) (idx : Z).        (* index of the key returned, -1 for none *)

Fixpoint lookup_idx (ks : list cosemap) (q : bytes) (i : Z) : Z :=
  match ks with
  | [] => -1
  | k :: r => if bytes_eqb (kid k) q then i else lookup_idx r q (i + 1)
  end.

Definition check_dispatch_case (c : dispatch_case) : bool :=
  match c with
  | DObtain o k oks =>
      bools_eqb (map (fun kind => obtain (crypto_of o) kind k) ["Signer"; "Verifier"; "MACer"; "Encryptor"]%string) oks
  | DLookup ks q idx => Z.eqb (lookup_idx ks q 0) idx
  end.
