From Coq Require Import String.
From Coq Require Import ZArith NArith List Bool Arith Lia.
From Cose Require Import Lib.Base Lib.Sha2 Lib.Hmac Lib.Aes Lib.CbcMac Lib.Hkdf Model.HkdfAes.
Import ListNotations.
Open Scope nat_scope.

Section P.
  Variable E : bytes -> bytes.
  Hypothesis E_len : forall b, length (E b) = 16.
  Variable info : bytes.

  (* the PRF of RFC 9053 section 5.1 (HKDF with AES-CBC-MAC): zero IV, zero padding, the library's own AES-MAC shape *)
  Definition Tm (pv : bytes) (c : N) : bytes := cbc_mac E (pv ++ info ++ [b8 c]).

  Lemma T_ok pv c : T E info pv c = Ok (Tm pv c).
  Proof.
    unfold T, Tm. rewrite (go_create_is_cbc_mac E E_len 16) by (try lia; destruct pv; destruct info; discriminate).
    rewrite firstn_all2 by (rewrite cbc_mac_length by exact E_len; lia). reflexivity.
  Qed.
  Lemma Tm_len pv c : length (Tm pv c) = 16.
  Proof. unfold Tm. now apply cbc_mac_length. Qed.

  (* what is still to come from a state: RFC 5869 expand, T(i) = PRF(T(i-1) | info | i) *)
  Fixpoint future (k : nat) (c : N) (pv : bytes) : bytes :=
    match k with O => [] | S k' => let t := Tm pv c in t ++ future k' ((c + 1) mod 256)%N t end.
  Definition rest (s : st) : bytes := left s ++ future (blocks_left (ctr s)) (ctr s) (prev s).

  Lemma future_len k : forall c pv, length (future k c pv) = 16 * k.
  Proof. induction k; intros; cbn [future]; [reflexivity|]. rewrite app_length, Tm_len, IHk. lia. Qed.

  Lemma blocks_left_succ c : (1 <= c < 256)%N -> blocks_left c = S (blocks_left ((c + 1) mod 256)).
  Proof.
    intros H. unfold blocks_left.
    destruct (N.eq_dec c 255) as [->|Hne]; [reflexivity|].
    rewrite (N.mod_small (c + 1)) by lia. rewrite !N.mod_small by lia. lia.
  Qed.

  Definition inv (s : st) : Prop := ((1 <= ctr s < 256)%N \/ ctr s = 0%N) /\ length (left s) <= 16.

  Lemma fill_spec fuel : forall c pv need, need <= fuel ->
    ((1 <= c < 256)%N \/ c = 0%N) -> need <= blocks_left c * 16 ->
    exists o s, fill E info fuel c pv need = Ok (o, s) /\
    o = firstn need (future (blocks_left c) c pv) /\
    rest s = skipn need (future (blocks_left c) c pv) /\ inv s.
  Proof.
    induction fuel as [|f IH]; intros c pv need Hf Hc Hn.
    - assert (need = 0) by lia. subst. cbn [fill]. eexists _, _. split; [reflexivity|]. cbn [firstn skipn].
      split; [reflexivity|]. split; [reflexivity|]. unfold inv; cbn [ctr left length]; split; [assumption|lia].
    - cbn [fill]. destruct (Nat.eqb need 0) eqn:E0.
      + apply Nat.eqb_eq in E0. subst. eexists _, _. split; [reflexivity|]. cbn [firstn skipn].
        split; [reflexivity|]. split; [reflexivity|]. unfold inv; cbn [ctr left length]; split; [assumption|lia].
      + apply Nat.eqb_neq in E0. rewrite T_ok.
        assert (Hc1 : (1 <= c < 256)%N).
        { destruct Hc as [Hc0|Hc0]; [assumption|]. subst c. unfold blocks_left in Hn. cbn in Hn. lia. }
        rewrite (blocks_left_succ c Hc1) in *. cbn [future].
        set (t := Tm pv c). set (c' := ((c + 1) mod 256)%N) in *.
        assert (Hc' : (1 <= c' < 256)%N \/ c' = 0%N).
        { subst c'. destruct (N.eq_dec c 255) as [->|Hne]; [right; reflexivity|]. left. rewrite N.mod_small by lia. lia. }
        assert (Lt : length t = 16) by apply Tm_len.
        destruct (Nat.leb need 16) eqn:E1.
        * apply Nat.leb_le in E1. eexists _, _. split; [reflexivity|]. split; [|split].
          -- rewrite firstn_app. replace (need - length t) with 0 by lia. rewrite firstn_O, app_nil_r. reflexivity.
          -- unfold rest. cbn [left ctr prev]. rewrite skipn_app. replace (need - length t) with 0 by lia. reflexivity.
          -- unfold inv. cbn [ctr left]. split; [assumption|]. rewrite skipn_length. lia.
        * apply Nat.leb_gt in E1.
          destruct (IH c' t (need - 16) ltac:(lia) Hc' ltac:(lia)) as (o & s & Hfill & Ho & Hr & Hi).
          rewrite Hfill. eexists _, _. split; [reflexivity|]. split; [|split].
          -- rewrite firstn_app, Lt, firstn_all2 by lia. rewrite Ho. reflexivity.
          -- rewrite skipn_app, Lt, skipn_all2 by lia. cbn [app]. exact Hr.
          -- exact Hi.
  Qed.

  (* one Read returns the next `need` bytes of the remaining stream, or "entropy limit reached" *)
  Lemma read_spec s need : inv s ->
    match read E info s need with
    | Err => length (rest s) < need
    | Ok (o, s') => o = firstn need (rest s) /\ rest s' = skipn need (rest s) /\ inv s'
    | Panic => False
    end.
  Proof.
    intros [Hc Hl]. unfold read, rest.
    destruct (Nat.ltb (length (left s) + blocks_left (ctr s) * 16) need) eqn:EE.
    - apply Nat.ltb_lt in EE. rewrite app_length, future_len. lia.
    - apply Nat.ltb_ge in EE. destruct (Nat.leb need (length (left s))) eqn:E1.
      + apply Nat.leb_le in E1. cbn [left ctr prev]. split; [|split].
        * rewrite firstn_app. replace (need - length (left s)) with 0 by lia. rewrite firstn_O, app_nil_r. reflexivity.
        * rewrite skipn_app. replace (need - length (left s)) with 0 by lia. reflexivity.
        * unfold inv. cbn [ctr left]. split; [assumption|]. rewrite skipn_length. lia.
      + apply Nat.leb_gt in E1.
        destruct (fill_spec (need - length (left s)) (ctr s) (prev s) (need - length (left s)) ltac:(lia) Hc ltac:(lia))
          as (o & s' & Hfill & Ho & Hr & Hi).
        rewrite Hfill. split; [|split].
        * rewrite firstn_app, firstn_all2 by lia. rewrite Ho. reflexivity.
        * rewrite skipn_app, skipn_all2 by lia. cbn [app]. exact Hr.
        * exact Hi.
  Qed.

  Lemma skipn_firstn_comm {A} n : forall m (l : list A), skipn n (firstn (n + m) l) = firstn m (skipn n l).
  Proof. induction n; intros m l; cbn; [reflexivity|]. destruct l; cbn; [now rewrite firstn_nil|apply IHn]. Qed.

  (* reading in ANY chunking yields consecutive segments of one stream *)
  Theorem reads_any_chunking ns : forall s, inv s -> list_sum ns <= length (rest s) ->
    reads E info s ns = Ok (firstn (list_sum ns) (rest s)).
  Proof.
    induction ns as [|n t IH]; intros s Hi Hs; cbn [reads]; [reflexivity|].
    change (list_sum (n :: t)) with (n + list_sum t) in *.
    pose proof (read_spec s n Hi) as R.
    destruct (read E info s n) as [[o s']| |]; [|lia|contradiction].
    destruct R as (Ho & Hr & Hi'). rewrite (IH s' Hi') by (rewrite Hr, skipn_length; lia).
    rewrite Ho, Hr. f_equal.
    rewrite <- (firstn_skipn n (firstn (n + list_sum t) (rest s))) at 1.
    rewrite firstn_firstn, Nat.min_l by lia. f_equal. symmetry. apply skipn_firstn_comm.
  Qed.

  (* a history whose total exceeds what is left fails with an error at the read that crosses the limit, never a panic *)
  Theorem reads_never_panic ns : forall s, inv s -> reads E info s ns <> Panic.
  Proof.
    induction ns as [|n t IH]; intros s Hi; cbn [reads]; [discriminate|].
    pose proof (read_spec s n Hi) as R.
    destruct (read E info s n) as [[o s']| |]; [|discriminate|contradiction].
    destruct R as (_ & _ & Hi'). specialize (IH s' Hi'). destruct (reads E info s' t); try discriminate. contradiction.
  Qed.

  Lemma inv_init : inv init.
  Proof. unfold inv, init; cbn; split; [left; lia|lia]. Qed.

  (* the stream a fresh reader yields is RFC 5869 HKDF-Expand with AES-CBC-MAC as the PRF *)
  Definition prf_cbcmac (_ msg : bytes) : bytes := cbc_mac E msg.

  Lemma future_is_expand k : forall c pv, (N.of_nat k + c <= 256)%N ->
    future k c pv = expand_blocks prf_cbcmac k [] info pv c.
  Proof.
    induction k as [|k IH]; intros c pv H; [reflexivity|]. cbn [future expand_blocks]. unfold prf_cbcmac at 1. fold (Tm pv c).
    f_equal. destruct (N.eq_dec (c + 1) 256) as [E1|E1].
    - (* last block *) assert (k = 0) by lia. subst k. reflexivity.
    - rewrite N.mod_small by lia. apply IH. lia.
  Qed.

  Theorem stream_is_rfc5869 : rest init = okm_stream prf_cbcmac [] info.
  Proof.
    unfold rest, init, okm_stream. cbn [left ctr prev app]. change (blocks_left 1) with 255. apply future_is_expand. cbn. lia.
  Qed.

  Corollary stream_total : length (rest init) = 255 * 16.
  Proof. unfold rest, init. cbn [left ctr prev app]. rewrite future_len. reflexivity. Qed.

  (* C13 for the reader: any chunking of total <= 255 blocks returns the corresponding prefix of the RFC stream *)
  Theorem reads_is_expand ns : list_sum ns <= 255 * 16 ->
    reads E info init ns = Ok (firstn (list_sum ns) (okm_stream prf_cbcmac [] info)).
  Proof.
    intro H. rewrite <- stream_is_rfc5869. apply reads_any_chunking; [exact inv_init|]. rewrite stream_total. exact H.
  Qed.

  (* anything longer is an error *)
  Theorem limit_exceeded n : 255 * 16 < n -> read E info init n = Err.
  Proof.
    intros H. unfold read, init. cbn [left ctr prev length].
    replace (Nat.ltb (0 + blocks_left 1 * 16) n) with true; [reflexivity|].
    symmetry. apply Nat.ltb_lt. unfold blocks_left. cbn. lia.
  Qed.

  Lemma read_limit s n : length (rest s) < n -> read E info s n = Err.
  Proof.
    unfold read, rest. rewrite app_length, future_len. intro H.
    replace (Nat.ltb (length (left s) + blocks_left (ctr s) * 16) n) with true; [reflexivity|].
    symmetry. apply Nat.ltb_lt. lia.
  Qed.

  (* after the stream is exhausted (even across several reads) every further byte is refused *)
  Theorem exhausted_stays_exhausted ns : list_sum ns = 255 * 16 -> forall n, 0 < n ->
    reads E info init (ns ++ [n]) = Err.
  Proof.
    intros Hs n Hn.
    assert (G : forall l s, inv s -> list_sum l = length (rest s) -> reads E info s (l ++ [n]) = Err).
    { induction l as [|m l IHl]; intros s Hi Hl.
      - cbn [app reads]. cbn in Hl. rewrite read_limit by lia. reflexivity.
      - cbn [app reads]. change (list_sum (m :: l)) with (m + list_sum l) in Hl.
        pose proof (read_spec s m Hi) as R.
        destruct (read E info s m) as [[o s']| |]; [|reflexivity|contradiction].
        destruct R as (_ & Hr & Hi'). rewrite (IHl s' Hi') by (rewrite Hr, skipn_length; lia). reflexivity. }
    apply G; [exact inv_init|]. now rewrite stream_total.
  Qed.
End P.

(* instantiation: the library's reader, secret of a valid AES size *)
Theorem hkdf_aes_is_rfc secret info size : aes_key_ok secret = true -> size <= 255 * 16 ->
  hkdf_aes secret info size = Ok (firstn size (okm_stream (prf_cbcmac (aes_keyed secret)) [] info)).
Proof.
  intros Hk Hs. unfold hkdf_aes. rewrite Hk.
  assert (S1 : list_sum [size] = size) by (cbn; lia).
  pose proof (reads_is_expand (aes_keyed secret) (aes_keyed_length secret) info [size]) as R.
  rewrite S1 in R. specialize (R Hs). cbn [reads] in R.
  destruct (read (aes_keyed secret) info init size) as [[o s]| |]; try discriminate.
  rewrite app_nil_r in R. exact R.
Qed.

Theorem hkdf_aes_limit secret info size : aes_key_ok secret = true -> 255 * 16 < size -> hkdf_aes secret info size = Err.
Proof. intros Hk Hs. unfold hkdf_aes. rewrite Hk. rewrite (limit_exceeded (aes_keyed secret) (aes_keyed_length secret) info size Hs) || rewrite (limit_exceeded (aes_keyed secret) info size Hs). reflexivity. Qed.

Theorem hkdf_aes_bad_secret secret info size : aes_key_ok secret = false -> hkdf_aes secret info size = Err.
Proof. intro H. unfold hkdf_aes. now rewrite H. Qed.

(* the PRF is literally the library's own AES-MAC with a 16-byte tag: go_create with the same block function *)
Theorem prf_is_library_aesmac secret info pv c :
  T (aes_keyed secret) info pv c = go_create (aes_keyed secret) 16 (pv ++ info ++ [b8 c]).
Proof. reflexivity. Qed.

(* HKDF-SHA: RFC 5869 properties of the specification the x/crypto implementation is compared with *)
Theorem hkdf256_prefix secret salt info L1 L2 o1 o2 : L1 <= L2 ->
  hkdf256 secret salt info L1 = Some o1 -> hkdf256 secret salt info L2 = Some o2 -> o1 = firstn L1 o2.
Proof. unfold hkdf256, hkdf. apply (expand_prefix hmac_sha256 32 hmac_sha256_length). Qed.
Theorem hkdf512_prefix secret salt info L1 L2 o1 o2 : L1 <= L2 ->
  hkdf512 secret salt info L1 = Some o1 -> hkdf512 secret salt info L2 = Some o2 -> o1 = firstn L1 o2.
Proof. unfold hkdf512, hkdf. apply (expand_prefix hmac_sha512 64 hmac_sha512_length). Qed.
Theorem hkdf256_limit secret salt info L : hkdf256 secret salt info L = None <-> 255 * 32 < L.
Proof. unfold hkdf256, hkdf. apply (expand_limit hmac_sha256 32 hmac_sha256_length). Qed.
Theorem hkdf512_limit secret salt info L : hkdf512 secret salt info L = None <-> 255 * 64 < L.
Proof. unfold hkdf512, hkdf. apply (expand_limit hmac_sha512 64 hmac_sha512_length). Qed.
Theorem hkdf256_length secret salt info L o : hkdf256 secret salt info L = Some o -> length o = L.
Proof. unfold hkdf256, hkdf. apply (expand_length hmac_sha256 32 hmac_sha256_length). Qed.
Theorem hkdf512_length secret salt info L o : hkdf512 secret salt info L = Some o -> length o = L.
Proof. unfold hkdf512, hkdf. apply (expand_length hmac_sha512 64 hmac_sha512_length). Qed.
