(* Correspondence cases for the symmetric primitives (mac, hkdf, aead streams). *)
From Coq Require Import String.
From Coq Require Import ZArith NArith List Bool.
From Cose Require Import Lib.Base Lib.Sha2 Lib.Hmac Lib.Aes Lib.CbcMac Lib.Hkdf Model.Mac Model.HkdfAes Model.Aead.
Import ListNotations.
Open Scope Z_scope.

Definition opt_res_eqb (a : res bytes) (ok : bool) (out : bytes) : bool :=
  match a with Ok t => ok && bytes_eqb t out | Err => negb ok | Panic => false end.

Inductive mac_case :=
| MHmac (alg : Z) (key msg : bytes) (ok : bool) (tag : bytes)
| MAesMac (alg : Z) (key msg : bytes) (ok : bool) (tag : bytes)
| MVerify (aes : bool) (alg : Z) (key msg tag : bytes) (accepted : bool)
| MSha (which : Z) (msg : bytes) (digest : bytes).

Definition check_mac_case (c : mac_case) : bool :=
  match c with
  | MHmac alg k m ok t => opt_res_eqb (hmac_create alg k m) ok t
                          && match ref_hmac alg k m with Some r => negb ok || bytes_eqb r t | None => true end
  | MAesMac alg k m ok t => opt_res_eqb (aesmac_create alg k m) ok t
                            && match m, ref_aesmac alg k m with _ :: _, Some r => negb ok || bytes_eqb r t | _, _ => true end
  | MVerify aes alg k m t acc =>
      match mac_verify (if aes then aesmac_create alg k else hmac_create alg k) m t with
      | Ok b => Bool.eqb b acc
      | Err => negb acc
      | Panic => false
      end
  | MSha w m d => bytes_eqb (if w =? 256 then sha256 m else if w =? 384 then sha384 m else sha512 m) d
  end.

Inductive hkdf_case :=
| HAes (secret info : bytes) (chunks : list Z) (ok : bool) (out : bytes)
| HSha (w : Z) (secret salt info : bytes) (size : Z) (ok : bool) (out : bytes).

Definition check_hkdf_case (c : hkdf_case) : bool :=
  match c with
  | HAes secret info chunks ok out =>
      if aes_key_ok secret then opt_res_eqb (reads (aes_keyed secret) info init (map Z.to_nat chunks)) ok out else negb ok
  | HSha w secret salt info size ok out =>
      match (if w =? 256 then hkdf256 secret salt info (Z.to_nat size) else hkdf512 secret salt info (Z.to_nat size)) with
      | Some o => ok && bytes_eqb o out
      | None => negb ok
      end
  end.

Inductive aead_case :=
| AEnc (alg : Z) (key iv pt aad : bytes) (ok : bool) (ct : bytes)
| ADec (alg : Z) (key iv ct aad : bytes) (ok : bool) (pt : bytes).

Definition check_aead_case (c : aead_case) : bool :=
  match c with
  | AEnc alg k iv pt aad ok ct =>
      opt_res_eqb (aead_encrypt alg k iv pt aad) ok ct
      && (negb ok || match ref_seal alg k iv pt aad with Some r => bytes_eqb r ct | None => false end)
  | ADec alg k iv ct aad ok pt => opt_res_eqb (aead_decrypt alg k iv ct aad) ok pt
  end.
