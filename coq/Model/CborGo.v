(* What fxamacker/cbor (DupMapKeyEnforcedAPF, IndefLengthForbidden, otherwise defaults) does with a well-formed
   item when the Go target is `any` / map[any]any, []byte, an integer, or a toarray struct field, and what
   it emits for Go values. Follows decode.go of v2.7.0 (parse, parseMap, parseToValue and the fill functions). *)
From Coq Require Import String.
From Coq Require Import NArith ZArith List Arith Lia Bool.
From Cose Require Import Lib.Base Lib.Cbor Model.GoVal.
Import ListNotations.
Open Scope Z_scope.

(* ---------------------------------------------------------------- floats: half / single -> double bits *)
Definition hibit (m : N) : N := N.log2 m.
Definition f16_to_f64 (h : N) : N :=
  let s := (h / 32768)%N in let e := ((h / 1024) mod 32)%N in let m := (h mod 1024)%N in
  let sign := (s * 9223372036854775808)%N in
  if (e =? 0)%N then
    (if (m =? 0)%N then sign
     else let k := hibit m in (sign + (k + 999) * 4503599627370496 + (m - 2 ^ k) * 2 ^ (52 - k))%N)
  else if (e =? 31)%N then (sign + 2047 * 4503599627370496 + (if (m =? 0)%N then 0 else N.lor (m * 4398046511104) 2251799813685248))%N   (* NaNs come out quiet *)
  else (sign + (e + 1008) * 4503599627370496 + m * 4398046511104)%N.
Definition f32_to_f64 (f : N) : N :=
  let s := (f / 2147483648)%N in let e := ((f / 8388608) mod 256)%N in let m := (f mod 8388608)%N in
  let sign := (s * 9223372036854775808)%N in
  if (e =? 0)%N then
    (if (m =? 0)%N then sign
     else let k := hibit m in (sign + (k + 874) * 4503599627370496 + (m - 2 ^ k) * 2 ^ (52 - k))%N)
  else if (e =? 255)%N then (sign + 2047 * 4503599627370496 + (if (m =? 0)%N then 0 else N.lor (m * 536870912) 2251799813685248))%N
  else (sign + (e + 896) * 4503599627370496 + m * 536870912)%N.
Definition float_bits64 (ai bits : N) : N :=
  if (ai =? 25)%N then f16_to_f64 bits else if (ai =? 26)%N then f32_to_f64 bits else bits.

(* ---------------------------------------------------------------- helpers *)
Fixpoint strip_self (it : item) : item :=
  match it with ITag 55799 x => strip_self x | _ => it end.

(* validBuiltinTag over a chain of tags: the check looks at the type of the item that follows each tag head *)
Fixpoint chain_ok (it : item) : bool :=
  match it with
  | ITag t x =>
      (if (t =? 0)%N then match x with ITstr _ => true | _ => false end
       else if (t =? 1)%N then match x with IUint _ | INint _ | IFloat _ _ => true | _ => false end
       else if (t =? 2)%N || (t =? 3)%N then match x with IBstr _ => true | _ => false end
       else true)
      && chain_ok x
  | _ => true
  end.

(* Go map key equality on the values `any`-decoding yields; None = not usable as a map key *)
Fixpoint hashable (v : gval) : bool :=
  match v with
  | VArr _ | VMap _ | VBig _ | VInts _ | VOps _ => false
  | VTag _ c => hashable c
  | _ => true
  end.

Definition is_nan64 (b : Z) : bool := ((b / 4503599627370496) mod 2048 =? 2047) && negb (b mod 4503599627370496 =? 0).
Definition is_zero64 (b : Z) : bool := (b mod 9223372036854775808 =? 0).

Fixpoint key_eqb (a b : gval) : bool :=
  match a, b with
  | VNil, VNil => true
  | VBool x, VBool y => Bool.eqb x y
  | VInt k1 z1, VInt k2 z2 => ikind_eqb k1 k2 && Z.eqb z1 z2
  | VFloat x, VFloat y => negb (is_nan64 x) && negb (is_nan64 y) && (Z.eqb x y || (is_zero64 x && is_zero64 y))
  | VBytes x, VBytes y => bytes_eqb x y
  | VStr x, VStr y => bytes_eqb x y
  | VSimple x, VSimple y => Z.eqb x y
  | VTag n x, VTag m y => Z.eqb n m && key_eqb x y
  | VOther x, VOther y => false        (* time.Time keys: unmodelled, never equal *)
  | _, _ => false
  end.

Definition label_of (k : gval) : option label :=
  match k with
  | VInt kd z => Some (LInt kd z)
  | VStr s => Some (LStr s)
  | _ => None
  end.

(* ---------------------------------------------------------------- parse(): an item into a Go `any` *)
Definition MaxI64N : N := 9223372036854775807.

Definition wrap_arr (r : res (list gval)) : res gval :=
  match r with Ok vs => Ok (VArr vs) | Err => Err | Panic => Panic end.

Fixpoint labels_of (es : list (gval * gval)) : option (list (label * gval)) :=
  match es with
  | [] => Some []
  | (k, v) :: r => match label_of k, labels_of r with
                   | Some l, Some ls => Some ((l, v) :: ls)
                   | _, _ => None
                   end
  end.

(* a Go map keyed by integers and strings is a VMap; other key types are kept opaque *)
Definition wrap_map (r : res (list (gval * gval))) : res gval :=
  match r with
  | Ok es => match labels_of es with
             | Some m => Ok (VMap m)
             | None => Ok (VOther "map[any]any with non-label keys")
             end
  | Err => Err | Panic => Panic
  end.

(* elements of an array, entries of a map, given the parser P for the nested items *)
Definition parse_elems (P : item -> res gval) : list item -> res (list gval) :=
  fix elems (l : list item) : res (list gval) :=
    match l with
    | [] => Ok []
    | x :: r => match P x, elems r with
                | Ok v, Ok vs => Ok (v :: vs)
                | Panic, _ | _, Panic => Panic
                | _, _ => Err
                end
    end.

Definition parse_entries (P : item -> res gval) : list (item * item) -> list gval -> res (list (gval * gval)) :=
  fix entries (l : list (item * item)) (seen : list gval) : res (list (gval * gval)) :=
    match l with
    | [] => Ok []
    | (k, v) :: r =>
        match P k with
        | Ok kv =>
            if negb (hashable kv) then Err
            else match P v with
                 | Ok vv =>
                     if existsb (key_eqb kv) seen then Err        (* DupMapKeyEnforcedAPF *)
                     else match entries r (kv :: seen) with
                          | Ok es => Ok ((kv, vv) :: es)
                          | Err => Err | Panic => Panic
                          end
                 | Err => Err | Panic => Panic
                 end
        | Err => Err | Panic => Panic
        end
    end.

(* strip = skipSelfDescribedTag: true at the top level, for array elements, map keys and map values *)
Fixpoint parse (strip : bool) (it : item) {struct it} : res gval :=
  match it with
  | IUint n => Ok (VInt KUint64 (Z.of_N n))
  | INint n => if (MaxI64N <? n)%N then Ok (VBig (- 1 - Z.of_N n)) else Ok (VInt KInt64 (- 1 - Z.of_N n))
  | IBstr b => Ok (VBytes b)
  | ITstr b => if utf8_valid b then Ok (VStr b) else Err
  | ITag t x =>
      if strip && (t =? 55799)%N then parse true x
      else if negb (chain_ok it) then Err
      else if (t =? 0)%N || (t =? 1)%N then Ok (VOther "time.Time")     (* unmodelled: RFC 3339 / epoch time parsing *)
      else if (t =? 2)%N then match x with IBstr b => Ok (VBig (Z.of_N (of_be b))) | _ => Err end
      else if (t =? 3)%N then match x with IBstr b => Ok (VBig (- 1 - Z.of_N (of_be b))) | _ => Err end
      else match parse false x with
           | Ok c => Ok (VTag (Z.of_N t) c)
           | Err => Err | Panic => Panic
           end
  | ISimple n =>
      if (n =? 20)%N then Ok (VBool false) else if (n =? 21)%N then Ok (VBool true)
      else if (n =? 22)%N || (n =? 23)%N then Ok VNil else Ok (VSimple (Z.of_N n))
  | IFloat ai bits => Ok (VFloat (Z.of_N (float_bits64 ai bits)))
  | IArr l => wrap_arr (parse_elems (parse true) l)
  | IMap l => wrap_map (parse_entries (parse true) l [])
  end.

(* key.UnmarshalCBOR(data, &v) with v of type any *)
Definition unmarshal_any (bs : bytes) : res gval :=
  match decode bs with
  | Ok it => parse true it
  | Err => Err | Panic => Panic
  end.

(* ---------------------------------------------------------------- Marshal of a Go value (encMode of key/cbor.go) *)
Definition int_item (z : Z) : item := if z <? 0 then INint (Z.to_N (- 1 - z)) else IUint (Z.to_N z).

Definition label_item (l : label) : item :=
  match l with LInt _ z => int_item z | LStr s => ITstr s end.

(* floats: NaN is written as the half-precision quiet NaN, infinities as half precision (encoder defaults) *)
Definition float_item (bits : Z) : item :=
  if is_nan64 bits then IFloat 25 32256
  else if bits =? 9218868437227405312 then IFloat 25 31744
  else if bits =? 18442240474082181120 then IFloat 25 64512
  else IFloat 27 (Z.to_N bits).

Definition big_item (z : Z) : item :=
  if (0 <=? z) && (z <? 18446744073709551616) then IUint (Z.to_N z)
  else if (z <? 0) && (- 18446744073709551616 <=? z) then INint (Z.to_N (- 1 - z))
  else
    let n := Z.to_N (if z <? 0 then - 1 - z else z) in
    let len := N.to_nat ((N.log2 n) / 8 + 1) in
    ITag (if z <? 0 then 3 else 2) (IBstr (be len n)).

Fixpoint opt_all {A} (l : list (option A)) : option (list A) :=
  match l with
  | [] => Some []
  | Some x :: r => match opt_all r with Some xs => Some (x :: xs) | None => None end
  | None :: _ => None
  end.

(* None = a Go value the model does not encode (time.Time, other structs) *)
Fixpoint item_of (v : gval) : option item :=
  match v with
  | VNil => Some (ISimple 22)
  | VBool b => Some (ISimple (if b then 21 else 20))
  | VInt _ z => Some (int_item z)
  | VFloat b => Some (float_item b)
  | VBytes b => Some (IBstr b)
  | VStr s => Some (ITstr s)
  | VArr l => option_map IArr (opt_all (map item_of l))
  | VInts l => Some (IArr (map int_item l))
  | VOps (Some l) => Some (IArr (map int_item l))
  | VOps None => Some (ISimple 22)
  | VMap m => option_map IMap (opt_all (map (fun e => let '(k, x) := e in option_map (fun i => (label_item k, i)) (item_of x)) m))
  | VTag n x => match item_of x with Some i => Some (ITag (Z.to_N n) i) | None => None end
  | VSimple n => Some (ISimple (Z.to_N n))
  | VBig z => Some (big_item z)
  | VOther _ => None
  end.

Definition marshal_any (v : gval) : option bytes := option_map encode (item_of v).
