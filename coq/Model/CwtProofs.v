From Coq Require Import String.
From Coq Require Import ZArith List Bool Lia ZifyBool.
From Cose Require Import Lib.Base Lib.GenTypes Model.GoVal Spec.RFC8392 Gen.ShapesGen Model.Cwt.
Import ListNotations.
Open Scope Z_scope.
Ltac Zify.zify_post_hook ::= Z.to_euclidean_division_equations.

Definition u64 (u : Z) := 0 <= u < 18446744073709551616.
Definition i64 (d : Z) := - 9223372036854775808 <= d <= 9223372036854775807.
(* now between year ~318 and 2^62 s after year 1, nanoseconds normalised: every instant a clock can report *)
Definition now_ok (now : gtime) := 10000000000 <= fst now <= 4611686018427387904 /\ 0 <= snd now < G.

Lemma wrap64_small z : - 9223372036854775808 <= z < 9223372036854775808 -> wrap64 z = z.
Proof. unfold wrap64. intros. lia. Qed.

Lemma sat_add_exact ext d : - 9223372036854775808 <= ext + d <= MaxI64 -> sat_add ext d = ext + d.
Proof.
  unfold sat_add, MaxI64. intros H. rewrite wrap64_small by lia.
  destruct (ext + d >? ext) eqn:E1; destruct (d >? 0) eqn:E2; cbn; lia.
Qed.

Lemma sat_add_high ext d : i64 ext -> i64 d -> ext + d > MaxI64 -> sat_add ext d = MaxI64.
Proof.
  unfold sat_add, MaxI64, i64. intros He Hd H.
  assert (W : wrap64 (ext + d) = ext + d - 18446744073709551616) by (unfold wrap64; lia).
  rewrite W. destruct (ext + d - 18446744073709551616 >? ext) eqn:E1; destruct (d >? 0) eqn:E2; cbn; lia.
Qed.

(* Time.Add on a normalised time with non-negative seconds: exact, or saturated at the top *)
Lemma add_spec t d : 0 <= snd t < G -> 0 <= fst t <= MaxI64 -> i64 d ->
  let T := fst t * G + snd t + d in
  (T / G <= MaxI64 /\ add t d = (T / G, T mod G)) \/
  (T / G > MaxI64 /\ fst (add t d) = MaxI64 /\ 0 <= snd (add t d) < G).
Proof.
  intros Hn He Hd T. unfold add.
  pose proof (Z.quot_rem' d G) as Hqr.
  assert (Hr : - G < Z.rem d G < G) by (unfold G; lia).
  assert (Hs : (0 <= d -> 0 <= Z.rem d G) /\ (d <= 0 -> Z.rem d G <= 0)) by (unfold G; lia).
  set (q := Z.quot d G) in *. set (r := Z.rem d G) in *.
  assert (Hq : - 9223372037 <= q <= 9223372037) by (unfold i64, G in *; lia).
  unfold G, MaxI64, i64 in *.
  destruct (snd t + r >=? 1000000000) eqn:E1.
  - assert (HT : T = (fst t + (q + 1)) * 1000000000 + (snd t + r - 1000000000)) by (unfold T; lia).
    assert (Hdiv : T / 1000000000 = fst t + (q + 1)) by lia.
    assert (Hmod : T mod 1000000000 = snd t + r - 1000000000) by lia.
    destruct (Z_le_gt_dec (fst t + (q + 1)) 9223372036854775807).
    + left. rewrite sat_add_exact by (unfold MaxI64; lia). split; [lia|]. now rewrite Hdiv, Hmod.
    + right. cbn [fst snd]. rewrite sat_add_high by (unfold i64, MaxI64; lia). unfold MaxI64. lia.
  - destruct (snd t + r <? 0) eqn:E2.
    + assert (HT : T = (fst t + (q - 1)) * 1000000000 + (snd t + r + 1000000000)) by (unfold T; lia).
      assert (Hdiv : T / 1000000000 = fst t + (q - 1)) by lia.
      assert (Hmod : T mod 1000000000 = snd t + r + 1000000000) by lia.
      destruct (Z_le_gt_dec (fst t + (q - 1)) 9223372036854775807).
      * left. rewrite sat_add_exact by (unfold MaxI64; lia). split; [lia|]. now rewrite Hdiv, Hmod.
      * right. cbn [fst snd]. rewrite sat_add_high by (unfold i64, MaxI64; lia). unfold MaxI64. lia.
    + assert (HT : T = (fst t + q) * 1000000000 + (snd t + r)) by (unfold T; lia).
      assert (Hdiv : T / 1000000000 = fst t + q) by lia.
      assert (Hmod : T mod 1000000000 = snd t + r) by lia.
      destruct (Z_le_gt_dec (fst t + q) 9223372036854775807).
      * left. rewrite sat_add_exact by (unfold MaxI64; lia). split; [lia|]. now rewrite Hdiv, Hmod.
      * right. cbn [fst snd]. rewrite sat_add_high by (unfold i64, MaxI64; lia). unfold MaxI64. lia.
Qed.

(* a lexicographic comparison of normalised times is the comparison of total nanoseconds *)
Lemma after_total a b : 0 <= snd a < G -> 0 <= snd b < G ->
  after a b = (fst a * G + snd a >? fst b * G + snd b).
Proof. unfold after, G. intros. destruct (fst a >? fst b) eqn:E1; destruct (fst a =? fst b) eqn:E2; cbn; lia. Qed.

Lemma nbf_term o now u : u64 u -> now_ok now -> i64 (o_skew o) ->
  negb (is_zero (to_time u) || after (to_time u) (add now (o_skew o))) = nbf_ok o now u.
Proof.
  intros Hu [Hn1 Hn2] Hs. unfold nbf_ok, to_time, Bmax.
  destruct (add_spec now (o_skew o)) as [[Hle Heq] | [Hgt _]]; try (unfold MaxI64; lia); try assumption.
  2:{ exfalso. unfold u64, i64, MaxI64, G in *. lia. }
  rewrite Heq. clear Heq.
  unfold unix_ns in *. unfold u64, i64, MaxI64, K, G in *.
  destruct (u >? 9223372036854775807 - 62135596800) eqn:E.
  - cbn. lia.
  - rewrite wrap64_small by lia. unfold is_zero. cbn [fst snd].
    replace (u + 62135596800 =? 0) with false by lia. cbn [andb orb].
    rewrite after_total by (unfold G; cbn [fst snd]; lia). unfold G. cbn [fst snd].
    replace (u <=? 9223372036854775807 - 62135596800) with true by lia. cbn [andb].
    set (T := fst now * 1000000000 + snd now + o_skew o).
    assert (T / 1000000000 * 1000000000 + T mod 1000000000 = T) by lia.
    destruct (u * 1000000000 <=? (fst now - 62135596800) * 1000000000 + snd now + o_skew o) eqn:F; lia.
Qed.

Lemma exp_term o now u : u64 u -> now_ok now -> i64 (o_skew o) ->
  after (add (to_time u) (o_skew o)) now = exp_ok o now u.
Proof.
  intros Hu [Hn1 Hn2] Hs. unfold exp_ok, to_time, Bmax.
  unfold u64, i64, MaxI64, K in *.
  destruct (u >? 9223372036854775807 - 62135596800) eqn:E.
  - (* the zero Time plus any skew is never after now *)
    destruct (add_spec (0, 0) (o_skew o)) as [[Hle Heq] | [Hgt _]]; cbn [fst snd] in *; unfold i64, MaxI64, G in *; try lia.
    rewrite Heq. rewrite after_total by (unfold G; cbn [fst snd]; lia). unfold G. cbn [fst snd].
    replace (u <=? 9223372036854775807 - 62135596800) with false by lia. cbn [andb].
    set (T := 0 * 1000000000 + 0 + o_skew o) in *.
    assert (T / 1000000000 * 1000000000 + T mod 1000000000 = T) by lia. lia.
  - rewrite wrap64_small by lia.
    replace (u <=? 9223372036854775807 - 62135596800) with true by lia. cbn [andb].
    destruct (add_spec (u + 62135596800, 0) (o_skew o)) as [[Hle Heq] | [Hgt [Hf Hsn]]]; cbn [fst snd] in *; unfold i64, MaxI64, G in *; try lia.
    + rewrite Heq. rewrite after_total by (unfold G; cbn [fst snd]; lia). unfold unix_ns. unfold G, K. cbn [fst snd].
      set (T := (u + 62135596800) * 1000000000 + 0 + o_skew o) in *.
      assert (T / 1000000000 * 1000000000 + T mod 1000000000 = T) by lia.
      destruct ((fst now - 62135596800) * 1000000000 + snd now - o_skew o <? u * 1000000000) eqn:F; lia.
    + cbn [fst snd] in *. unfold after. rewrite Hf. unfold unix_ns. unfold K, G.
      set (T := (u + 62135596800) * 1000000000 + 0 + o_skew o) in *.
      replace (9223372036854775807 >? fst now) with true by lia. cbn [orb].
      symmetry. apply Z.ltb_lt. lia.
Qed.

Lemma gt0 u : u64 u -> (u >? 0) = negb (u =? 0).
Proof. unfold u64. intros. destruct (u =? 0) eqn:E; cbn; lia. Qed.

Lemma validate_is_accept o now c :
  u64 (c_exp c) -> u64 (c_nbf c) -> u64 (c_iat c) -> now_ok now -> i64 (o_skew o) ->
  validate o now c = accept o now c.
Proof.
  intros He Hn Hi Hnow Hs. unfold validate, accept, time_checks.
  rewrite (gt0 _ He), (gt0 _ Hn), (gt0 _ Hi).
  rewrite (exp_term o now _ He Hnow Hs), (nbf_term o now _ Hn Hnow Hs), (nbf_term o now _ Hi Hnow Hs).
  destruct (c_exp c =? 0); destruct (c_nbf c =? 0); destruct (c_iat c =? 0); destruct (o_iat_past o);
    destruct (o_allow_missing o); destruct (is_empty (o_iss o)); destruct (is_empty (o_aud o));
    destruct (bytes_eqb (o_iss o) (c_iss c)); destruct (bytes_eqb (o_aud o) (c_aud c));
    cbn [negb andb orb]; rewrite ?andb_true_r, ?andb_false_r; reflexivity.
Qed.

(* every integer a Go value of an integer kind can hold lies in [-2^63, 2^64) *)
Definition vals_in_kind (m : cosemap) := forall l k z, lookup m l = Some (VInt k z) -> in_kind k z = true.

Lemma uint_of_u64 m l v u : vals_in_kind m -> lookup m l = Some v -> uint_of v = Some u -> u64 u.
Proof.
  intros Hk Hl Hu. destruct v; cbn in Hu; try discriminate.
  specialize (Hk _ _ _ Hl). unfold in_kind in Hk. unfold u64.
  destruct k; cbn in *; try (destruct (0 <=? z) eqn:E; [|discriminate]); inversion Hu; subst; lia.
Qed.

Lemma get_uint64_uint_of m l v : lookup m (ilabel l) = Some v ->
  get_uint64 m l = match uint_of v with Some u => Ok u | None => Err end.
Proof.
  intro H. unfold get_uint64. rewrite H. destruct v; cbn; try reflexivity.
  destruct (is_signed k); [destruct (0 <=? z)|]; reflexivity.
Qed.

Lemma chk_ok b : is_ok (chk b) = b.
Proof. now destruct b. Qed.

Lemma exp_stage_spec o now m : vals_in_kind m -> now_ok now -> i64 (o_skew o) ->
  is_ok (exp_stage o now m) =
  match lookup m (ilabel 4) with
  | None => true
  | Some v => match uint_of v with Some u => exp_ok o now u | None => false end
  end.
Proof.
  intros Hk Hnow Hs. unfold exp_stage, has. destruct (lookup m (ilabel 4)) as [v|] eqn:L; [|reflexivity].
  rewrite (get_uint64_uint_of _ _ _ L). destruct (uint_of v) as [u|] eqn:U; [|reflexivity].
  now rewrite chk_ok, (exp_term o now u (uint_of_u64 _ _ _ _ Hk L U) Hnow Hs).
Qed.

Lemma nbf_stage_spec o now m : vals_in_kind m -> now_ok now -> i64 (o_skew o) ->
  is_ok (nbf_stage o now m) =
  match lookup m (ilabel 5) with
  | None => true
  | Some v => match uint_of v with Some u => nbf_ok o now u | None => false end
  end.
Proof.
  intros Hk Hnow Hs. unfold nbf_stage, has. destruct (lookup m (ilabel 5)) as [v|] eqn:L; [|reflexivity].
  rewrite (get_uint64_uint_of _ _ _ L). destruct (uint_of v) as [u|] eqn:U; [|reflexivity].
  now rewrite chk_ok, (nbf_term o now u (uint_of_u64 _ _ _ _ Hk L U) Hnow Hs).
Qed.

Lemma iat_stage_spec o now m : vals_in_kind m -> now_ok now -> i64 (o_skew o) ->
  is_ok (iat_stage o now m) =
  match lookup m (ilabel 6) with
  | None => true
  | Some v => match uint_of v with
              | Some u => if (u =? 0) || negb (o_iat_past o) then true else nbf_ok o now u
              | None => false
              end
  end.
Proof.
  intros Hk Hnow Hs. unfold iat_stage, has. destruct (lookup m (ilabel 6)) as [v|] eqn:L; [|reflexivity].
  rewrite (get_uint64_uint_of _ _ _ L). destruct (uint_of v) as [u|] eqn:U; [|reflexivity].
  pose proof (uint_of_u64 _ _ _ _ Hk L U) as Hu. rewrite (gt0 _ Hu).
  destruct (u =? 0); destruct (o_iat_past o); cbn [negb andb orb]; try reflexivity.
  now rewrite chk_ok, (nbf_term o now u Hu Hnow Hs).
Qed.

Lemma text_stage_spec e m l :
  is_ok (text_stage e m l) =
  match lookup m (ilabel l) with
  | None => is_empty e
  | Some v => match text_of v with Some s => is_empty e || bytes_eqb e s | None => false end
  end.
Proof.
  unfold text_stage, get_string. destruct (lookup m (ilabel l)) as [v|].
  - destruct v; cbn; try reflexivity. destruct (is_empty e); destruct (bytes_eqb e s); reflexivity.
  - cbn. destruct e; reflexivity.
Qed.

Lemma is_ok_bind (a : res unit) (k : unit -> res unit) : is_ok (bind a k) = is_ok a && is_ok (k tt).
Proof. destruct a as [[]| |]; reflexivity. Qed.

Lemma validate_map_is_accept o now m :
  vals_in_kind m -> now_ok now -> i64 (o_skew o) ->
  validate_map o now m = accept_map o now m.
Proof.
  intros Hk Hnow Hs. unfold validate_map, accept_map.
  rewrite !is_ok_bind.
  rewrite (exp_stage_spec o now m Hk Hnow Hs), (nbf_stage_spec o now m Hk Hnow Hs),
          (iat_stage_spec o now m Hk Hnow Hs), !text_stage_spec.
  unfold has. destruct (lookup m (ilabel 4)) as [v4|]; cbn [negb andb].
  - rewrite !andb_assoc. reflexivity.
  - destruct (o_allow_missing o); cbn [negb andb]; [|reflexivity]. rewrite !andb_assoc. reflexivity.
Qed.

(* ---- struct and map paths agree on every claim set the struct can represent ---- *)
Lemma bytes_eqb_nil_r e : bytes_eqb e [] = is_empty e.
Proof. destruct e; reflexivity. Qed.

Lemma is_empty_true (b : bytes) : is_empty b = true -> b = [].
Proof. destruct b; [reflexivity|discriminate]. Qed.

Lemma accept_map_of_claims o now c :
  accept_map o now (map_of_claims c) = accept o now c.
Proof.
  unfold accept_map, accept, map_of_claims.
  destruct (is_empty (c_iss c)) eqn:E1; destruct (is_empty (c_aud c)) eqn:E3;
  destruct (c_exp c =? 0) eqn:E4; destruct (c_nbf c =? 0) eqn:E5; destruct (c_iat c =? 0) eqn:E6;
  cbn -[exp_ok nbf_ok bytes_eqb is_empty Z.eqb]; rewrite ?E6; cbn -[exp_ok nbf_ok bytes_eqb is_empty];
  try (apply is_empty_true in E1; rewrite E1); try (apply is_empty_true in E3; rewrite E3);
  rewrite ?bytes_eqb_nil_r, ?orb_diag, ?E6; cbn [orb negb]; reflexivity.
Qed.

Lemma map_of_claims_in_kind c : u64 (c_exp c) -> u64 (c_nbf c) -> u64 (c_iat c) -> vals_in_kind (map_of_claims c).
Proof.
  unfold u64, vals_in_kind, map_of_claims. intros He Hn Hi l k z.
  destruct (is_empty (c_iss c)); destruct (is_empty (c_aud c));
  destruct (c_exp c =? 0); destruct (c_nbf c =? 0); destruct (c_iat c =? 0); cbn [app lookup];
  repeat (match goal with |- context [label_eqb ?a l] => destruct (label_eqb a l) end; try discriminate);
  intro H; inversion H; subst; unfold in_kind; cbn; lia.
Qed.

Lemma struct_map_agree o now c :
  u64 (c_exp c) -> u64 (c_nbf c) -> u64 (c_iat c) -> now_ok now -> i64 (o_skew o) ->
  validate_map o now (map_of_claims c) = validate o now c.
Proof.
  intros He Hn Hi Hnow Hs.
  rewrite (validate_map_is_accept o now _ (map_of_claims_in_kind c He Hn Hi) Hnow Hs).
  rewrite (validate_is_accept o now c He Hn Hi Hnow Hs). apply accept_map_of_claims.
Qed.

(* ---- acceptance is an interval in time ---- *)
Lemma exp_ok_mono o n1 n2 u : unix_ns n1 <= unix_ns n2 -> exp_ok o n2 u = true -> exp_ok o n1 u = true.
Proof. unfold exp_ok. intros H A. apply andb_true_iff in A. destruct A. apply andb_true_iff. split; [assumption|]. lia. Qed.
Lemma nbf_ok_mono o n1 n2 u : unix_ns n1 <= unix_ns n2 -> nbf_ok o n1 u = true -> nbf_ok o n2 u = true.
Proof. unfold nbf_ok. intros H A. apply andb_true_iff in A. destruct A. apply andb_true_iff. split; [assumption|]. lia. Qed.

Lemma accept_interval o n1 n2 n3 c :
  unix_ns n1 <= unix_ns n2 <= unix_ns n3 ->
  accept o n1 c = true -> accept o n3 c = true -> accept o n2 c = true.
Proof.
  unfold accept. intros [H12 H23] A B.
  repeat (apply andb_true_iff in A; destruct A as [A ?]).
  repeat (apply andb_true_iff in B; destruct B as [B ?]).
  repeat (apply andb_true_iff; split); try assumption.
  - destruct (c_exp c =? 0); [assumption|]. eapply exp_ok_mono; eassumption.
  - destruct (c_nbf c =? 0); [reflexivity|]. eapply nbf_ok_mono; eassumption.
  - destruct ((c_iat c =? 0) || negb (o_iat_past o)); [reflexivity|]. eapply nbf_ok_mono; eassumption.
Qed.

Lemma accept_map_interval o n1 n2 n3 m :
  unix_ns n1 <= unix_ns n2 <= unix_ns n3 ->
  accept_map o n1 m = true -> accept_map o n3 m = true -> accept_map o n2 m = true.
Proof.
  unfold accept_map. intros [H12 H23] A B.
  repeat (apply andb_true_iff in A; destruct A as [A ?]).
  repeat (apply andb_true_iff in B; destruct B as [B ?]).
  repeat (apply andb_true_iff; split); try assumption.
  - destruct (lookup m (ilabel 4)) as [v|]; [|assumption]. destruct (uint_of v); [|assumption]. eapply exp_ok_mono; eassumption.
  - destruct (lookup m (ilabel 5)) as [v|]; [|reflexivity]. destruct (uint_of v); [|assumption]. eapply nbf_ok_mono; eassumption.
  - destruct (lookup m (ilabel 6)) as [v|]; [|reflexivity]. destruct (uint_of v) as [u|]; [|assumption].
    destruct ((u =? 0) || negb (o_iat_past o)); [reflexivity|]. eapply nbf_ok_mono; eassumption.
Qed.

(* ---- too large is rejected, never wrapped; negative / non-integer / null rejected on the map path ---- *)
Lemma too_large_rejected o now u : u > Bmax -> exp_ok o now u = false /\ nbf_ok o now u = false.
Proof. unfold exp_ok, nbf_ok. intro H. split; apply andb_false_iff; left; lia. Qed.

Lemma map_time_claim_must_be_uint o now m l v :
  (l = 4 \/ l = 5 \/ l = 6) -> lookup m (ilabel l) = Some v -> uint_of v = None -> accept_map o now m = false.
Proof.
  unfold accept_map. intros [H|[H|H]] L U; subst l; rewrite L, U; cbn [andb]; rewrite ?andb_false_r; reflexivity.
Qed.

Lemma uint_of_none_cases v : uint_of v = None <->
  (match v with VInt k z => is_signed k = true /\ z < 0 | _ => True end).
Proof.
  destruct v; cbn; try (split; auto; fail).
  destruct (is_signed k); [destruct (0 <=? z) eqn:E|]; split; intro H; try discriminate; auto;
    try (destruct H as [H1 H2]; try discriminate; lia); try (split; [reflexivity|lia]).
Qed.

(* ---- the clock-skew cap ---- *)
Lemma max_skew_is_10 : max_skew_minutes = 10.
Proof. vm_compute. reflexivity. Qed.

Lemma skew_cap o : new_validator o = Err <-> o_skew o > 600 * G.
Proof.
  unfold new_validator. rewrite max_skew_is_10. unfold G.
  destruct (o_skew o >? 10 * 60 * 1000000000) eqn:E; split; intro H; try discriminate; try reflexivity; lia.
Qed.

(* ---- non-vacuity: a concrete instance of every hypothesis, accepted and rejected ---- *)
Example hypotheses_satisfiable :
  let o := {| o_iss := []; o_aud := []; o_allow_missing := false; o_iat_past := true; o_skew := 5 * G |} in
  let now := (1700000000 + K, 500) in
  let c := {| c_iss := []; c_aud := []; c_exp := 1700000100; c_nbf := 1700000004; c_iat := 1699999999 |} in
  u64 (c_exp c) /\ u64 (c_nbf c) /\ u64 (c_iat c) /\ now_ok now /\ i64 (o_skew o) /\
  validate o now c = true /\ validate o now {| c_iss := []; c_aud := []; c_exp := 1699999994; c_nbf := 0; c_iat := 0 |} = false
  /\ validate o now {| c_iss := []; c_aud := []; c_exp := 1700000100; c_nbf := 9223371974719179008; c_iat := 0 |} = false.
Proof. cbv zeta. unfold u64, now_ok, i64, G, K. cbn [c_exp c_nbf c_iat o_skew fst snd]. repeat split; try lia; vm_compute; reflexivity. Qed.
