From Coq Require Import String.
From Coq Require Import ZArith List Bool.
From Cose Require Import Lib.Base Lib.GenTypes Model.GoVal Model.Key Model.Nonce Model.MsgCorr.
Import ListNotations.
Open Scope Z_scope.

Inductive nonce_case :=
| NEncrypt (unprot key : cosemap) (nsize : nat) (draw : bytes) (reached : bool) (nonce : bytes) (after : cosemap)
| NDecrypt (unprot key : cosemap) (nsize : nat) (reached : bool) (nonce : bytes)
| NAead (alg : Z) (ivlen : nat) (ok : bool) (reported_size : nat).

(* maps are compared as sets of entries: the harness prints them in sorted order, the model conses the new IV in front *)
Fixpoint map_subset (a b : cosemap) : bool :=
  match a with
  | [] => true
  | (l, v) :: r => match lookup b l with Some w => gval_eqb v w | None => false end && map_subset r b
  end.
Definition map_equiv (a b : cosemap) : bool := map_subset a b && map_subset b a.

Definition check_nonce_case (c : nonce_case) : bool :=
  match c with
  | NEncrypt u k n d reached nonce after =>
      match choose_nonce u k n d with
      | Ok (nc, u') => reached && bytes_eqb nc nonce && map_equiv u' after
      | Err => negb reached
      | Panic => false
      end
  | NDecrypt u k n reached nonce =>
      match derive_nonce u k n with
      | Ok nc => reached && bytes_eqb nc nonce
      | Err => negb reached
      | Panic => false
      end
  | NAead alg l ok sz =>
      Bool.eqb ok (aead_takes (Z.to_nat (nonce_size_of alg)) (zeros l)) && Z.eqb (nonce_size_of alg) (Z.of_nat sz)
  end.
