From Coq Require Import String.
From Coq Require Import ZArith NArith List Bool Lia.
From Cose Require Import Lib.Base Lib.GenTypes Lib.Sha2 Lib.Hmac Lib.Aes Lib.CbcMac Model.GoVal Model.Key Model.Mac Gen.TablesGen.
Import ListNotations.
Open Scope Z_scope.

Lemma slice_firstn {A} (l : list A) n : (n <= length l)%nat -> slice l 0 n = Ok (firstn n l).
Proof.
  intro H. unfold slice. cbn [Nat.leb andb]. replace (Nat.leb n (length l)) with true by (symmetry; apply Nat.leb_le; exact H).
  cbn [skipn]. now rewrite Nat.sub_0_r.
Qed.

Lemma ref_hmac_cases alg key msg r : ref_hmac alg key msg = Some r ->
  (alg = 4 /\ r = firstn 8 (hmac_sha256 key msg)) \/ (alg = 5 /\ r = hmac_sha256 key msg)
  \/ (alg = 6 /\ r = hmac_sha384 key msg) \/ (alg = 7 /\ r = hmac_sha512 key msg).
Proof.
  unfold ref_hmac. intro H.
  destruct (Z.eq_dec alg 4) as [->|N4]; [inversion H; auto|].
  destruct (Z.eq_dec alg 5) as [->|N5]; [inversion H; auto|].
  destruct (Z.eq_dec alg 6) as [->|N6]; [inversion H; auto 6|].
  destruct (Z.eq_dec alg 7) as [->|N7]; [inversion H; auto 6|].
  exfalso. destruct alg as [|p|p]; try discriminate.
  repeat (destruct p as [p|p|]; try discriminate; try congruence).
Qed.

(* C11: the HMAC tag is the RFC 9053 one (HMAC-SHA-2 truncated to the registered length), for every key and message *)
Theorem hmac_tag_is_rfc alg key msg r : ref_hmac alg key msg = Some r -> hmac_create alg key msg = Ok r.
Proof.
  intro H. destruct (ref_hmac_cases _ _ _ _ H) as [[-> ->]|[[-> ->]|[[-> ->]|[-> ->]]]]; unfold hmac_create.
  - change (hash_func 4) with 5. cbn [hmac_by_hash Z.eqb Pos.eqb]. change (hmac_tag_size 4) with 8.
    rewrite slice_firstn by (rewrite hmac_sha256_length; cbn; lia). reflexivity.
  - change (hash_func 5) with 5. cbn [hmac_by_hash Z.eqb Pos.eqb]. change (hmac_tag_size 5) with 32.
    rewrite slice_firstn by (rewrite hmac_sha256_length; cbn; lia).
    rewrite firstn_all2 by (rewrite hmac_sha256_length; cbn; lia). reflexivity.
  - change (hash_func 6) with 6. cbn [hmac_by_hash Z.eqb Pos.eqb]. change (hmac_tag_size 6) with 48.
    rewrite slice_firstn by (rewrite hmac_sha384_length; cbn; lia).
    rewrite firstn_all2 by (rewrite hmac_sha384_length; cbn; lia). reflexivity.
  - change (hash_func 7) with 7. cbn [hmac_by_hash Z.eqb Pos.eqb]. change (hmac_tag_size 7) with 64.
    rewrite slice_firstn by (rewrite hmac_sha512_length; cbn; lia).
    rewrite firstn_all2 by (rewrite hmac_sha512_length; cbn; lia). reflexivity.
Qed.

Lemma ref_aesmac_cases alg key msg r : ref_aesmac alg key msg = Some r ->
  ((alg = 14 \/ alg = 15) /\ r = firstn 8 (cbc_mac (aes_keyed key) msg))
  \/ ((alg = 25 \/ alg = 26) /\ r = cbc_mac (aes_keyed key) msg).
Proof.
  unfold ref_aesmac. intro H.
  destruct (Z.eq_dec alg 14) as [->|N1]; [inversion H; auto|].
  destruct (Z.eq_dec alg 15) as [->|N2]; [inversion H; auto|].
  destruct (Z.eq_dec alg 25) as [->|N3]; [inversion H; auto|].
  destruct (Z.eq_dec alg 26) as [->|N4]; [inversion H; auto|].
  exfalso. destruct alg as [|p|p]; try discriminate.
  repeat (destruct p as [p|p|]; try discriminate; try congruence).
Qed.

(* C11: the AES-CBC-MAC tag is CBC-MAC under AES with zero IV and zero padding, truncated, for every non-empty message *)
Theorem aesmac_is_cbcmac alg key msg r : msg <> [] -> ref_aesmac alg key msg = Some r -> aesmac_create alg key msg = Ok r.
Proof.
  intros Hm H. unfold aesmac_create. destruct msg as [|b0 m0]; [congruence|].
  destruct (ref_aesmac_cases _ _ _ _ H) as [[[->| ->] ->]|[[->| ->] ->]].
  - change (aesmac_tag_size 14) with 8.
    apply (go_create_is_cbc_mac (aes_keyed key) (aes_keyed_length key)); [discriminate|cbn; lia].
  - change (aesmac_tag_size 15) with 8.
    apply (go_create_is_cbc_mac (aes_keyed key) (aes_keyed_length key)); [discriminate|cbn; lia].
  - change (aesmac_tag_size 25) with 16.
    rewrite (go_create_is_cbc_mac (aes_keyed key) (aes_keyed_length key)) by (try discriminate; cbn; lia).
    rewrite firstn_all2 by (rewrite cbc_mac_length by apply aes_keyed_length; cbn; lia). reflexivity.
  - change (aesmac_tag_size 26) with 16.
    rewrite (go_create_is_cbc_mac (aes_keyed key) (aes_keyed_length key)) by (try discriminate; cbn; lia).
    rewrite firstn_all2 by (rewrite cbc_mac_length by apply aes_keyed_length; cbn; lia). reflexivity.
Qed.

Theorem aesmac_empty_refused alg key : aesmac_create alg key [] = Err.
Proof. reflexivity. Qed.

(* registered tag lengths *)
Definition rfc_tag_len (alg : Z) : nat :=
  match alg with 4 => 8%nat | 5 => 32%nat | 6 => 48%nat | 7 => 64%nat | 14 | 15 => 8%nat | 25 | 26 => 16%nat | _ => 0%nat end.

Theorem tag_len alg key msg r : (hmac_create alg key msg = Ok r /\ ref_hmac alg key msg <> None)
                                \/ (aesmac_create alg key msg = Ok r /\ ref_aesmac alg key msg <> None) ->
  length r = rfc_tag_len alg.
Proof.
  intros [[H R]|[H R]].
  - destruct (ref_hmac alg key msg) as [x|] eqn:E; [|congruence]. rewrite (hmac_tag_is_rfc _ _ _ _ E) in H. inversion H; subst.
    destruct (ref_hmac_cases _ _ _ _ E) as [[-> ->]|[[-> ->]|[[-> ->]|[-> ->]]]]; cbn [rfc_tag_len];
      rewrite ?firstn_length, ?hmac_sha256_length, ?hmac_sha384_length, ?hmac_sha512_length; reflexivity.
  - destruct msg as [|b0 m0]; [cbn in H; discriminate H|].
    destruct (ref_aesmac alg key (b0 :: m0)) as [x|] eqn:E; [|congruence].
    assert (Hne : b0 :: m0 <> []) by discriminate.
    rewrite (aesmac_is_cbcmac alg key (b0 :: m0) x Hne E) in H. inversion H; subst.
    destruct (ref_aesmac_cases _ _ _ _ E) as [[[->| ->] ->]|[[->| ->] ->]]; cbn [rfc_tag_len];
      rewrite ?firstn_length, cbc_mac_length by apply aes_keyed_length; reflexivity.
Qed.

(* verification accepts the created tag and nothing else: no shorter or longer string, no changed bit *)
Theorem verify_exact (create : bytes -> res bytes) msg tag :
  mac_verify create msg tag = Ok true <-> create msg = Ok tag.
Proof.
  unfold mac_verify. destruct (create msg) as [t| |]; split; intro H; try discriminate.
  - inversion H as [E]. apply bytes_eqb_eq in E. now subst.
  - inversion H; subst. now rewrite bytes_eqb_refl.
Qed.

Theorem verify_rejects_other create msg tag t : create msg = Ok t -> tag <> t -> mac_verify create msg tag = Ok false.
Proof.
  intros H Hne. unfold mac_verify. rewrite H. f_equal. destruct (bytes_eqb t tag) eqn:E; [|reflexivity].
  apply bytes_eqb_eq in E. congruence.
Qed.

(* keys of any other size are refused by the factory (CheckKey) *)
Theorem wrong_key_size_refused f k kb : get_bytes k (-1) = Ok kb -> lenZ kb <> sym_keysize f (key_alg k) -> check_key_sym f k = false.
Proof.
  intros Hk Hl. unfold check_key_sym. rewrite Hk.
  replace (lenZ kb =? sym_keysize f (key_alg k)) with false by (symmetry; apply Z.eqb_neq; exact Hl).
  rewrite andb_false_r. cbn. now rewrite andb_false_r.
Qed.

(* key and tag sizes read from the source are the RFC 9053 ones *)
Theorem mac_tables_are_rfc9053 :
  map (fun a => (sym_keysize Hmac a, hmac_tag_size a, hash_func a)) [4; 5; 6; 7] = [(32, 8, 5); (32, 32, 5); (48, 48, 6); (64, 64, 7)]
  /\ map (fun a => (sym_keysize AesMac a, aesmac_tag_size a)) [14; 15; 25; 26] = [(16, 8); (32, 8); (16, 16); (32, 16)].
Proof. split; vm_compute; reflexivity. Qed.
