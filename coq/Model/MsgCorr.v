(* Correspondence cases for the header-logic streams (alg, nonce). *)
From Coq Require Import String.
From Coq Require Import ZArith List Bool.
From Cose Require Import Lib.Base Lib.GenTypes Model.GoVal Model.Key Model.MsgLogic.
Import ListNotations.
Open Scope Z_scope.

(* structural equality of Go values (maps compared entry by entry in the harness's sorted order) *)
Fixpoint gval_eqb (a b : gval) {struct a} : bool :=
  match a, b with
  | VNil, VNil => true
  | VBool x, VBool y => Bool.eqb x y
  | VInt k1 z1, VInt k2 z2 => ikind_eqb k1 k2 && Z.eqb z1 z2
  | VFloat x, VFloat y => Z.eqb x y
  | VBytes x, VBytes y => bytes_eqb x y
  | VStr x, VStr y => bytes_eqb x y
  | VArr x, VArr y =>
      (fix go (l1 l2 : list gval) : bool :=
         match l1, l2 with [], [] => true | u :: r1, v :: r2 => gval_eqb u v && go r1 r2 | _, _ => false end) x y
  | VInts x, VInts y => if list_eq_dec Z.eq_dec x y then true else false
  | VOps x, VOps y => match x, y with
                      | None, None => true
                      | Some p, Some q => if list_eq_dec Z.eq_dec p q then true else false
                      | _, _ => false
                      end
  | VMap x, VMap y =>
      (fix go (l1 l2 : list (label * gval)) : bool :=
         match l1, l2 with
         | [], [] => true
         | (k1, u) :: r1, (k2, v) :: r2 => label_eqb k1 k2 && gval_eqb u v && go r1 r2
         | _, _ => false
         end) x y
  | VOther x, VOther y => String.eqb x y
  | VTag n x, VTag m y => Z.eqb n m && gval_eqb x y
  | VSimple x, VSimple y => Z.eqb x y
  | VBig x, VBig y => Z.eqb x y
  | _, _ => false
  end.

Definition cosemap_eqb (a b : cosemap) : bool := gval_eqb (VMap a) (VMap b).

Inductive alg_case :=
| AProduce (prot unprot : option cosemap) (k : cosemap) (ok : bool) (prot_after unprot_after : cosemap)
| AConsume (prot : cosemap) (k : cosemap) (ok : bool)
| ASignVerify (sigs : list (cosemap * cosemap)) (verifiers : list cosemap) (ok : bool).

Definition check_alg_case (c : alg_case) : bool :=
  match c with
  | AProduce p u k ok pa ua =>
      match prepare_protected p k with
      | Ok p' => ok && cosemap_eqb p' pa && cosemap_eqb (prepare_unprotected u k) ua
      | _ => negb ok
      end
  | AConsume p k ok => Bool.eqb (consume_gate p k) ok
  | ASignVerify sigs vs ok => Bool.eqb (sign_verify_gates sigs vs) ok
  end.
