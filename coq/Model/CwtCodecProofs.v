(* C09: a claim set in struct form survives key.MarshalCBOR then key.UnmarshalCBOR exactly; the members and their CBOR
   labels are those declared in the source. *)
From Coq Require Import String.
From Coq Require Import NArith ZArith List Bool Lia Sorted.
From Cose Require Import Lib.Base Lib.GenTypes Lib.Cbor Lib.CborProofs Model.GoVal Model.CborGo Model.Wire Spec.RFC8392 Model.CwtCodec Gen.StructsGen.
Import ListNotations.
Open Scope Z_scope.

(* the struct declaration read from the source is the one the model transcribes: seven members, labels 1..7 by
   `keyasint`, all `omitempty`, three strings, three uint64, one byte string *)
Theorem claims_members_as_declared :
  assoc StructsGen.tagged_structs "cwt.Claims"%string
  = Some [("Issuer", "string", "cbor:""1,keyasint,omitempty"" json:""iss,omitempty""");
          ("Subject", "string", "cbor:""2,keyasint,omitempty"" json:""sub,omitempty""");
          ("Audience", "string", "cbor:""3,keyasint,omitempty"" json:""aud,omitempty""");
          ("Expiration", "uint64", "cbor:""4,keyasint,omitempty"" json:""exp,omitempty""");
          ("NotBefore", "uint64", "cbor:""5,keyasint,omitempty"" json:""nbf,omitempty""");
          ("IssuedAt", "uint64", "cbor:""6,keyasint,omitempty"" json:""iat,omitempty""");
          ("CWTID", "key.ByteStr", "cbor:""7,keyasint,omitempty"" json:""cti,omitempty""")]%string.
Proof. vm_compute. reflexivity. Qed.

(* ---------------------------------------------------------------- round trip *)
Definition u64 (z : Z) : Prop := 0 <= z <= 18446744073709551615.
Definition good_claims (c : wclaims) : Prop :=
  utf8_valid (w_iss c) = true /\ utf8_valid (w_sub c) = true /\ utf8_valid (w_aud c) = true
  /\ u64 (w_exp c) /\ u64 (w_nbf c) /\ u64 (w_iat c).

(* the entries the encoder writes, as (label, how the member is set) *)
Inductive entry := ETxt (l : Z) (s : bytes) | EUint (l : Z) (u : Z) | EBytes (l : Z) (b : bytes).
Definition entry_kv (e : entry) : item * item :=
  match e with ETxt l s => (int_item l, ITstr s) | EUint l u => (int_item l, int_item u) | EBytes l b => (int_item l, IBstr b) end.
Definition entry_label (e : entry) : Z := match e with ETxt l _ | EUint l _ | EBytes l _ => l end.

Definition apply_entry (c : wclaims) (e : entry) : wclaims :=
  match e with
  | ETxt l s => if l =? 1 then {| w_iss := s; w_sub := w_sub c; w_aud := w_aud c; w_exp := w_exp c; w_nbf := w_nbf c; w_iat := w_iat c; w_cti := w_cti c |}
                else if l =? 2 then {| w_iss := w_iss c; w_sub := s; w_aud := w_aud c; w_exp := w_exp c; w_nbf := w_nbf c; w_iat := w_iat c; w_cti := w_cti c |}
                else {| w_iss := w_iss c; w_sub := w_sub c; w_aud := s; w_exp := w_exp c; w_nbf := w_nbf c; w_iat := w_iat c; w_cti := w_cti c |}
  | EUint l u => if l =? 4 then {| w_iss := w_iss c; w_sub := w_sub c; w_aud := w_aud c; w_exp := u; w_nbf := w_nbf c; w_iat := w_iat c; w_cti := w_cti c |}
                 else if l =? 5 then {| w_iss := w_iss c; w_sub := w_sub c; w_aud := w_aud c; w_exp := w_exp c; w_nbf := u; w_iat := w_iat c; w_cti := w_cti c |}
                 else {| w_iss := w_iss c; w_sub := w_sub c; w_aud := w_aud c; w_exp := w_exp c; w_nbf := w_nbf c; w_iat := u; w_cti := w_cti c |}
  | EBytes _ b => {| w_iss := w_iss c; w_sub := w_sub c; w_aud := w_aud c; w_exp := w_exp c; w_nbf := w_nbf c; w_iat := w_iat c; w_cti := b |}
  end.

Definition entry_ok (e : entry) : Prop :=
  match e with
  | ETxt l s => (l = 1 \/ l = 2 \/ l = 3) /\ utf8_valid s = true
  | EUint l u => (l = 4 \/ l = 5 \/ l = 6) /\ u64 u
  | EBytes l _ => l = 7
  end.

Lemma key_of_label l : 1 <= l <= 7 -> key_of (int_item l) = Ok (CField l).
Proof.
  intro R. unfold int_item. replace (l <? 0) with false by lia. cbn [key_of]. rewrite Z2N.id by lia.
  replace ((1 <=? l) && (l <=? 7)) with true by lia. reflexivity.
Qed.

Lemma as_uint64_item u : u64 u -> as_uint64 (int_item u) = Ok u.
Proof. intro R. unfold u64 in R. unfold int_item. replace (u <? 0) with false by lia. cbn. f_equal. lia. Qed.

Lemma set_field_entry c e : entry_ok e -> set_field c (entry_label e) (snd (entry_kv e)) = Ok (apply_entry c e).
Proof.
  destruct e as [l s|l u|l b]; cbn [entry_ok entry_label entry_kv snd apply_entry].
  - intros [[-> | [-> | ->]] Hs]; cbn [set_field Z.eqb Pos.eqb]; unfold as_text; cbn [through_tags bind]; rewrite Hs; reflexivity.
  - intros [[-> | [-> | ->]] Hu]; cbn [set_field Z.eqb Pos.eqb]; rewrite (as_uint64_item u Hu); reflexivity.
  - intros ->. cbn [set_field Z.eqb Pos.eqb]. reflexivity.
Qed.

(* entries with increasing labels are all applied, none is taken for a repetition *)
Lemma fill_entries (es : list entry) : forall seen c,
  Forall entry_ok es ->
  (forall e, In e es -> forall k, In k seen -> ckey_eqb (CField (entry_label e)) k = false) ->
  NoDup (map entry_label es) ->
  fill (map entry_kv es) seen c = Ok (fold_left apply_entry es c).
Proof.
  induction es as [|e r IH]; intros seen c Hok Hseen ND; cbn [map fill fold_left]; [reflexivity|].
  inversion Hok as [|? ? He Hr]; subst. inversion ND as [|? ? Hn ND']; subst.
  assert (Rl : 1 <= entry_label e <= 7) by (destruct e; cbn in He |- *; intuition lia).
  assert (Ek : entry_kv e = (int_item (entry_label e), snd (entry_kv e))) by (destruct e; reflexivity).
  rewrite Ek. unfold bind at 1. rewrite (key_of_label _ Rl).
  assert (Ex : existsb (ckey_eqb (CField (entry_label e))) seen = false).
  { destruct (existsb _ seen) eqn:X; [|reflexivity]. apply existsb_exists in X. destruct X as [k [Hk Hkk]].
    rewrite (Hseen e (or_introl eq_refl) k Hk) in Hkk. discriminate. }
  rewrite Ex. unfold bind. rewrite (set_field_entry c e He). apply IH; [exact Hr| |exact ND'].
  intros e' He' k [<-|Hk]; [|apply Hseen; [now right|exact Hk]].
  cbn [ckey_eqb]. apply Z.eqb_neq. intro Q. apply Hn. rewrite <- Q. now apply in_map.
Qed.

Definition is_nil (b : bytes) : bool := match b with [] => true | _ => false end.
Definition all_entries (c : wclaims) : list entry :=
  [ETxt 1 (w_iss c); ETxt 2 (w_sub c); ETxt 3 (w_aud c); EUint 4 (w_exp c); EUint 5 (w_nbf c); EUint 6 (w_iat c); EBytes 7 (w_cti c)].
Definition present (e : entry) : bool :=
  match e with ETxt _ s => negb (is_nil s) | EUint _ u => negb (u =? 0) | EBytes _ b => negb (is_nil b) end.
Definition entries_of (c : wclaims) : list entry := filter present (all_entries c).

Lemma claims_item_entries c : claims_item c = IMap (map entry_kv (entries_of c)).
Proof.
  unfold claims_item, entries_of, all_entries, text_entry, uint_entry, bytes_entry. f_equal. cbn [filter present].
  destruct (w_iss c), (w_sub c), (w_aud c), (w_exp c =? 0), (w_nbf c =? 0), (w_iat c =? 0), (w_cti c); reflexivity.
Qed.

Lemma apply_entries c : fold_left apply_entry (entries_of c) zero_claims = c.
Proof.
  unfold entries_of, all_entries. destruct c as [i s a e n t ct]. cbn [w_iss w_sub w_aud w_exp w_nbf w_iat w_cti filter present].
  destruct i, s, a, ct; destruct (e =? 0) eqn:Ee; destruct (n =? 0) eqn:En; destruct (t =? 0) eqn:Et;
    cbn [is_nil negb fold_left apply_entry Z.eqb Pos.eqb zero_claims w_iss w_sub w_aud w_exp w_nbf w_iat w_cti];
    repeat match goal with H : (_ =? 0) = true |- _ => apply Z.eqb_eq in H; subst end; reflexivity.
Qed.

(* the generic pass accepts what the encoder wrote *)
Lemma parse_entries_claims (es : list entry) : forall seen,
  Forall entry_ok es ->
  (forall e, In e es -> forall k, In k seen -> key_eqb (VInt KUint64 (entry_label e)) k = false) ->
  NoDup (map entry_label es) ->
  exists r, parse_entries (parse true) (map entry_kv es) seen = Ok r.
Proof.
  induction es as [|e r IH]; intros seen Hok Hseen ND; cbn [map parse_entries]; [now eexists|].
  inversion Hok as [|? ? He Hr]; subst. inversion ND as [|? ? Hn ND']; subst.
  assert (Rl : 1 <= entry_label e <= 7) by (destruct e; cbn in He |- *; intuition lia).
  assert (Ek : entry_kv e = (int_item (entry_label e), snd (entry_kv e))) by (destruct e; reflexivity).
  rewrite Ek. assert (Pk : parse true (int_item (entry_label e)) = Ok (VInt KUint64 (entry_label e))).
  { unfold int_item. replace (entry_label e <? 0) with false by lia. cbn [parse]. f_equal. f_equal. lia. }
  rewrite Pk. cbn [hashable negb].
  assert (Pv : exists v, parse true (snd (entry_kv e)) = Ok v).
  { destruct e as [l s|l u|l b]; cbn [entry_kv snd entry_ok] in *.
    - destruct He as [_ Hs]. cbn [parse]. rewrite Hs. now eexists.
    - destruct He as [_ Hu]. unfold u64 in Hu. unfold int_item. replace (u <? 0) with false by lia. cbn [parse]. now eexists.
    - cbn [parse]. now eexists. }
  destruct Pv as [v Pv]. rewrite Pv.
  assert (Ex : existsb (key_eqb (VInt KUint64 (entry_label e))) seen = false).
  { destruct (existsb _ seen) eqn:X; [|reflexivity]. apply existsb_exists in X. destruct X as [k [Hk Hkk]].
    rewrite (Hseen e (or_introl eq_refl) k Hk) in Hkk. discriminate. }
  rewrite Ex.
  destruct (IH (VInt KUint64 (entry_label e) :: seen) Hr) as [rest Hrest]; [|exact ND'|rewrite Hrest; now eexists].
  intros e' He' k [<-|Hk]; [|apply Hseen; [now right|exact Hk]].
  cbn [key_eqb ikind_eqb andb]. apply Z.eqb_neq. intro Q. apply Hn. rewrite <- Q. now apply in_map.
Qed.

Definition label_lt (a b : entry) : Prop := entry_label a < entry_label b.

Lemma StronglySorted_filter' {A} (R : A -> A -> Prop) (p : A -> bool) (l : list A) : StronglySorted R l -> StronglySorted R (filter p l).
Proof.
  induction 1 as [|x r Hs IH Hall]; cbn [filter]; [constructor|]. destruct (p x); [|exact IH].
  constructor; [exact IH|]. rewrite Forall_forall in *. intros y Hy. apply filter_In in Hy. apply Hall. tauto.
Qed.

Lemma entries_increasing c : StronglySorted label_lt (entries_of c).
Proof.
  unfold entries_of. apply StronglySorted_filter'. unfold all_entries, label_lt.
  repeat (constructor; [|repeat constructor; cbn [entry_label]; lia]). constructor.
Qed.

Lemma entries_in_range c : Forall (fun e => 1 <= entry_label e <= 7) (entries_of c).
Proof.
  unfold entries_of. apply Forall_forall. intros e He. apply filter_In in He. destruct He as [He _].
  unfold all_entries in He. cbn [In] in He. repeat (destruct He as [<-|He]; [cbn; lia|]). destruct He.
Qed.

Lemma sorted_NoDup_labels (es : list entry) : StronglySorted label_lt es -> NoDup (map entry_label es).
Proof.
  induction 1 as [|e r Hs IH Hall]; cbn [map]; constructor; [|exact IH].
  intro Hin. apply in_map_iff in Hin. destruct Hin as [e' [El He']]. rewrite Forall_forall in Hall. specialize (Hall e' He'). unfold label_lt in Hall. lia.
Qed.

(* labels 1..7 are single bytes 01..07: their byte order is their numeric order *)
Lemma label_order_bytes : forallb (fun a => forallb (fun b => if a <? b then blex (encode (int_item a)) (encode (int_item b)) else true) [1;2;3;4;5;6;7]) [1;2;3;4;5;6;7] = true.
Proof. vm_compute. reflexivity. Qed.

Lemma sorted_entries (es : list entry) : StronglySorted label_lt es -> Forall (fun e => 1 <= entry_label e <= 7) es ->
  ssorted ekey (map entry_kv es).
Proof.
  induction 1 as [|e r Hs IH Hall]; intro R; cbn [map]; [constructor|].
  inversion R as [|? ? Re Rr]; subst. constructor; [now apply IH|].
  rewrite Forall_forall in *. intros kv Hkv. apply in_map_iff in Hkv. destruct Hkv as [e' [<- He']].
  specialize (Hall e' He'). specialize (Rr e' He'). unfold label_lt in Hall. unfold lt, ekey.
  assert (K : forall x, fst (entry_kv x) = int_item (entry_label x)) by (intros [? ?|? ?|? ?]; reflexivity). rewrite !K.
  pose proof label_order_bytes as T. rewrite forallb_forall in T.
  assert (In1 : In (entry_label e) [1;2;3;4;5;6;7]) by (cbn; lia). assert (In2 : In (entry_label e') [1;2;3;4;5;6;7]) by (cbn; lia).
  specialize (T _ In1). rewrite forallb_forall in T. specialize (T _ In2). replace (entry_label e <? entry_label e') with true in T by lia. exact T.
Qed.

Theorem claims_roundtrip c : good_claims c ->
  (forall it, enc_claims c = encode it -> encodable it = true) ->
  dec_claims (enc_claims c) = Ok c.
Proof.
  intros [Hi [Hs [Ha [He [Hn Ht]]]]] Hsize. specialize (Hsize _ eq_refl). unfold dec_claims, enc_claims, bind.
  rewrite (decode_encode _ Hsize). rewrite claims_item_entries in *.
  (* the entries are already in the deterministic order: labels 1..7 ascending, one-byte keys *)
  assert (Hc : canon (IMap (map entry_kv (entries_of c))) = IMap (map entry_kv (entries_of c))).
  { rewrite canon_map_unfold. f_equal.
    assert (E : map canon2 (map entry_kv (entries_of c)) = map entry_kv (entries_of c)).
    { rewrite map_map. apply map_ext. intros [l s|l u|l b]; unfold canon2, entry_kv, int_item; cbn [fst snd];
        repeat match goal with |- context [if ?x then _ else _] => destruct x end; reflexivity. }
    rewrite E. apply isort_id. apply sorted_entries; [apply entries_increasing|apply entries_in_range]. }
  rewrite Hc.
  pose proof (sorted_NoDup_labels _ (entries_increasing c)) as ND.
  assert (Hok : Forall entry_ok (entries_of c)).
  { apply Forall_forall. intros e0 Hin. unfold entries_of in Hin. apply filter_In in Hin. destruct Hin as [Hin _].
    unfold all_entries in Hin. cbn [In] in Hin.
    repeat (destruct Hin as [<-|Hin]; [cbn [entry_ok]; try (split; [tauto|assumption]); reflexivity|]). destruct Hin. }
  destruct (parse_entries_claims (entries_of c) [] Hok) as [pr Hpr]; [intros e _ k []|exact ND|].
  assert (Hparse : exists g, parse true (IMap (map entry_kv (entries_of c))) = Ok g).
  { cbn [parse]. rewrite Hpr. unfold wrap_map. destruct (labels_of pr); now eexists. }
  destruct Hparse as [g Hg]. rewrite Hg. cbn [through_tags].
  rewrite (fill_entries (entries_of c) [] zero_claims); [now rewrite apply_entries|exact Hok|intros e _ k []|exact ND].
Qed.

(* C08: whatever the struct decoder accepts passed the strict generic decoding first, so it holds no duplicate key
   at any depth (C08_duplicate_key_refused_at_any_depth), no invalid text, no indefinite-length item *)
Theorem claims_strict raw c : dec_claims raw = Ok c -> exists it g, decode raw = Ok it /\ parse true it = Ok g.
Proof.
  unfold dec_claims, bind. destruct (decode raw) as [it| |]; try discriminate. destruct (parse true it) as [g| |] eqn:P; try discriminate.
  intros _. exists it, g. split; [reflexivity|exact P].
Qed.

(* C08: the members are written in the deterministic order (labels 1..7 ascending, one-byte heads) *)
Theorem claims_item_canonical c : canon (claims_item c) = claims_item c.
Proof.
  rewrite claims_item_entries, canon_map_unfold. f_equal.
  assert (E : map canon2 (map entry_kv (entries_of c)) = map entry_kv (entries_of c)).
  { rewrite map_map. apply map_ext. intros [l s|l u|l b]; unfold canon2, entry_kv, int_item; cbn [fst snd];
      repeat match goal with |- context [if ?x then _ else _] => destruct x end; reflexivity. }
  rewrite E. apply isort_id. apply sorted_entries; [apply entries_increasing|apply entries_in_range].
Qed.
