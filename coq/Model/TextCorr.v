From Coq Require Import String.
From Coq Require Import NArith ZArith List Bool.
From Cose Require Import Lib.Base Lib.Hex Lib.Cbor Model.GoVal Model.CborGo Model.CborCorr Model.Wire Model.Text.
Import ListNotations.

Inductive text_case :=
| TBsMarshal (b text json : bytes)
| TBsText (cur input : bytes) (ok : bool) (after : bytes)
| TBsJson (cur input : bytes) (ok : bool) (after : bytes)
| TMapMarshal (m : cosemap) (ok : bool) (text json : bytes)
| TMapOfText (input : bytes) (ok : bool) (out : cosemap)
| TMapOfJson (input : bytes) (ok : bool) (out : cosemap).

Definition opt_is (o : option bytes) (ok : bool) (b : bytes) : bool :=
  match o with Some x => ok && bytes_eqb x b | None => negb ok end.

Definition map_is (r : res cosemap) (ok : bool) (m : cosemap) : bool :=
  match r with Ok x => ok && geq 40 (VMap x) (VMap m) | Err => negb ok | Panic => false end.

Definition check_text_case (c : text_case) : bool :=
  match c with
  | TBsMarshal b t j => bytes_eqb (bytestr_text b) t && bytes_eqb (bytestr_json b) j
  | TBsText cur input ok after =>
      match bytestr_of_text input with Ok d => ok && bytes_eqb d after | Err => negb ok && bytes_eqb cur after | Panic => false end
  | TBsJson cur input ok after =>
      match bytestr_of_json cur input with Ok d => ok && bytes_eqb d after | Err => negb ok && bytes_eqb cur after | Panic => false end
  | TMapMarshal m ok t j => opt_is (cosemap_text m) ok t && opt_is (cosemap_json m) ok j
  | TMapOfText input ok out => map_is (cosemap_of_text input) ok out
  | TMapOfJson input ok out => map_is (cosemap_of_json input) ok out
  end.
