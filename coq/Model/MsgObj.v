(* One message object over a history of calls: the three single-layer kinds (Sign1Message, Mac0Message,
   Encrypt0Message with T = []byte) as a state machine. The exported fields Protected / Unprotected / Payload are the
   caller's to edit between calls; the unexported wire struct (m.mm) is what MarshalCBOR emits and what Verify / Decrypt
   authenticate. Two facts of the Go code that only show over a history are modelled explicitly:
     - m.mm.Unprotected and m.Unprotected are ONE Go map after UnmarshalCBOR and after a successful WithSign / Compute /
       Encrypt (o_shared): an in-place edit of m.Unprotected changes what MarshalCBOR emits; assigning a new map does not;
     - Verify / Decrypt read the algorithm from the exported m.Protected (and Decrypt the IV / Partial IV from the exported
       m.Unprotected) but build the authenticated structure from the received bytes m.mm.Protected.
   Executable; compared with the implementation on random histories by the stream objhist (Model/MsgObjCorr.v). *)
From Coq Require Import String.
From Coq Require Import NArith ZArith List Arith Lia Bool.
From Cose Require Import Lib.Base Lib.GenTypes Lib.Cbor Model.GoVal Model.CborGo Model.Wire Model.Key Model.MsgLogic Model.Nonce Model.Msg.
Import ListNotations.
Open Scope Z_scope.

Record obj := { o_prot : option cosemap; o_unprot : option cosemap; o_payload : option bytes;
                o_mm : option wire; o_shared : bool;
                o_recips : list recip;            (* COSE_Mac / COSE_Encrypt: m.recipients (AddRecipient, UnmarshalCBOR) *)
                o_sigs : option (list sigent) }.   (* COSE_Sign: m.mm.Signatures (None = nil slice) *)

Definition fresh : obj := {| o_prot := None; o_unprot := None; o_payload := None; o_mm := None; o_shared := false; o_recips := []; o_sigs := None |}.

Record prims := { pr_sig : sigprim; pr_mac : macprim; pr_enc : encprim;
                  pr_sigs : list sigprim }.       (* COSE_Sign: the signers / verifiers handed to WithSign / Verify *)
Definition is_enc (k : kind) : bool := match k with KEnc0 | KEnc => true | _ => false end.
Definition has_recips (k : kind) : bool := match k with KMac | KEnc => true | _ => false end.
Definition pr_key (k : kind) (p : prims) : cosemap :=
  match k with KSign1 => sg_key (pr_sig p) | KMac0 | KMac => mc_key (pr_mac p) | _ => en_key (pr_enc p) end.

Inductive op :=
| ODecode (data : bytes)                                   (* m.UnmarshalCBOR(data) *)
| OProduce (p : prims) (ext : option bytes) (draw : bytes) (* m.WithSign / Compute / Encrypt; draw = the entropy the library reads *)
| OConsume (p : prims) (ext : option bytes)                (* m.Verify / Decrypt *)
| OMarshal                                                 (* m.MarshalCBOR() *)
| OSetProt (l : Z) (v : gval)                              (* m.Protected[l] = v  (m.Protected = Headers{l: v} when nil) *)
| ODelProt (l : Z)                                         (* delete(m.Protected, l) *)
| ONilProt                                                 (* m.Protected = nil *)
| OSetUnprot (l : Z) (v : gval)
| ODelUnprot (l : Z)
| ONilUnprot
| OSetPayload (b : option bytes)
| OAddRecip (r : recip).                                   (* m.AddRecipient(r) with a recipient not used before *)

Inductive out := RNone | RErr | RPanic | ROk | RBytes (b : bytes).

Definition set_mm_unprot (w : wire) (u : option cosemap) : wire :=
  {| w_prot := w_prot w; w_unprot := u; w_payload := w_payload w; w_auth := w_auth w; w_extra := w_extra w |}.

(* an in-place change of the map m.Unprotected holds *)
Definition upd_unprot (o : obj) (u : cosemap) : obj :=
  {| o_prot := o_prot o; o_unprot := Some u; o_payload := o_payload o;
     o_mm := if o_shared o then option_map (fun w => set_mm_unprot w (Some u)) (o_mm o) else o_mm o;
     o_shared := o_shared o; o_recips := o_recips o; o_sigs := o_sigs o |}.
(* m.Unprotected is assigned another map (or nil) *)
Definition new_unprot (o : obj) (u : option cosemap) : obj :=
  {| o_prot := o_prot o; o_unprot := u; o_payload := o_payload o; o_mm := o_mm o; o_shared := false; o_recips := o_recips o; o_sigs := o_sigs o |}.
Definition with_prot (o : obj) (p : option cosemap) : obj :=
  {| o_prot := p; o_unprot := o_unprot o; o_payload := o_payload o; o_mm := o_mm o; o_shared := o_shared o; o_recips := o_recips o; o_sigs := o_sigs o |}.
Definition with_payload (o : obj) (b : option bytes) : obj :=
  {| o_prot := o_prot o; o_unprot := o_unprot o; o_payload := b; o_mm := o_mm o; o_shared := o_shared o; o_recips := o_recips o; o_sigs := o_sigs o |}.
Definition install (o : obj) (w : wire) : obj :=
  {| o_prot := o_prot o; o_unprot := o_unprot o; o_payload := o_payload o; o_mm := Some w; o_shared := true; o_recips := o_recips o; o_sigs := o_sigs o |}.
Definition with_recips (o : obj) (rs : list recip) : obj :=
  {| o_prot := o_prot o; o_unprot := o_unprot o; o_payload := o_payload o; o_mm := o_mm o; o_shared := o_shared o; o_recips := rs; o_sigs := o_sigs o |}.

Definition res_out {A} (r : res A) : out := match r with Ok _ => ROk | Err => RErr | Panic => RPanic end.

(* ---------------------------------------------------------------- UnmarshalCBOR *)
Definition decode_step (k : kind) (o : obj) (data : bytes) : obj * out :=
  match unmarshal_wire k data with
  | Ok w =>
      (* COSE_Mac / COSE_Encrypt: the recipients are part of the struct; none, a nil one or a malformed one refuses
         the message before any field of the object is touched *)
      match (if has_recips k then recips_decode (w_extra w) else Ok (o_recips o)) with
      | Ok rs =>
          match headers_from_bytes (w_prot w) with
          | Ok prot =>
              let pl := match is_enc k, w_payload w with
                        | true, _ => o_payload o
                        | _, Some ((_ :: _) as x) => Some x
                        | _, _ => o_payload o               (* an absent or empty payload leaves the field as it was *)
                        end in
              ({| o_prot := Some prot; o_unprot := w_unprot w; o_payload := pl; o_mm := Some w; o_shared := true; o_recips := rs; o_sigs := o_sigs o |}, ROk)
          | Err => (with_prot o None, RErr)                 (* m.Protected, err = HeadersFromBytes(..) assigns nil *)
          | Panic => (o, RPanic)
          end
      | Err => (o, RErr)
      | Panic => (o, RPanic)
      end
  | Err => (o, RErr)
  | Panic => (o, RPanic)
  end.

(* ---------------------------------------------------------------- WithSign / Compute / Encrypt *)
(* header preparation: the maps in effect afterwards, in the object *)
Definition prepared_obj (o : obj) (key : cosemap) (prot' : cosemap) : obj :=
  let o1 := with_prot o (Some prot') in
  match o_unprot o with
  | Some _ => o1
  | None => new_unprot o1 (Some (prepare_unprotected None key))
  end.

Definition produce_step (k : kind) (o : obj) (p : prims) (ext : option bytes) (draw : bytes) : obj * out :=
  let key := pr_key k p in
  match prepare_protected (o_prot o) key with
  | Ok prot' =>
      let o1 := prepared_obj o key prot' in
      let u1 := omap (o_unprot o1) in
      if is_enc k then
          match choose_nonce u1 key (en_nonce (pr_enc p)) draw with
          | Ok (nonce, u2) =>
              (* the drawn IV is written into the map in place *)
              let o2 := match derive_nonce u1 key (en_nonce (pr_enc p)) with
                        | Ok iv => if Nat.eqb (length iv) 0 then upd_unprot o1 u2 else o1
                        | _ => o1
                        end in
              match headers_bytes prot' with
              | None => (o2, RErr)
              | Some pb =>
                  match structure k (Some pb) None ext None with
                  | Ok aad =>
                      match en_encrypt (pr_enc p) nonce (match o_payload o with Some b => b | None => [] end) aad with
                      | Ok ct => (install o2 {| w_prot := Some pb; w_unprot := o_unprot o2; w_payload := None; w_auth := Some ct; w_extra := None |}, ROk)
                      | r => (o2, res_out r)
                      end
                  | r => (o2, res_out r)
                  end
              end
          | Err => (o1, RErr)
          | Panic => (o1, RPanic)
          end
      else
          match headers_bytes prot' with
          | None => (o1, RErr)
          | Some pb =>
              match structure k (Some pb) None ext (o_payload o) with
              | Ok tbs =>
                  match (match k with KSign1 => sg_sign (pr_sig p) tbs | _ => mc_create (pr_mac p) tbs end) with
                  | Ok sig => (install o1 {| w_prot := Some pb; w_unprot := o_unprot o1; w_payload := o_payload o; w_auth := Some sig; w_extra := None |}, ROk)
                  | r => (o1, res_out r)
                  end
              | r => (o1, res_out r)
              end
          end
  | Err => (o, RErr)
  | Panic => (o, RPanic)
  end.

(* ---------------------------------------------------------------- Verify / Decrypt *)
Definition consume_step (k : kind) (o : obj) (p : prims) (ext : option bytes) : obj * out :=
  match o_mm o with
  | None => (o, RErr)
  | Some w =>
      match w_auth w with
      | None => (o, RErr)
      | Some auth =>
          if negb (consume_gate (omap (o_prot o)) (pr_key k p)) then (o, RErr)
          else
            if is_enc k then
                match structure k (w_prot w) None ext None with
                | Ok aad =>
                    match derive_nonce (omap (o_unprot o)) (pr_key k p) (en_nonce (pr_enc p)) with
                    | Ok nonce =>
                        match en_decrypt (pr_enc p) nonce auth aad with
                        | Ok pt => (match pt with [] => o | _ => with_payload o (Some pt) end, ROk)
                        | r => (o, res_out r)
                        end
                    | r => (o, res_out r)
                    end
                | r => (o, res_out r)
                end
            else
                match structure k (w_prot w) None ext (w_payload w) with
                | Ok tbs =>
                    if (match k with KSign1 => sg_verify (pr_sig p) tbs auth | _ => mc_verify (pr_mac p) tbs auth end) then (o, ROk) else (o, RErr)
                | r => (o, res_out r)
                end
      end
  end.

(* ---------------------------------------------------------------- MarshalCBOR *)
Definition marshal_multi (k : kind) (w : wire) (rs : list recip) : option bytes :=
  match enc_headers_field (w_unprot w), enc_recips rs with
  | Some u, Some r =>
      Some (enc_tagged (cose_tag k) (enc_array (match k with
                                                | KEnc => [enc_bytes (w_prot w); u; enc_bytes (w_auth w); r]
                                                | _ => [enc_bytes (w_prot w); u; enc_bytes (w_payload w); enc_bytes (w_auth w); r]
                                                end)))
  | _, _ => None
  end.

Definition marshal_out (k : kind) (o : obj) : out :=
  match o_mm o with
  | Some w => match w_auth w with
              | Some _ => match (if has_recips k then marshal_multi k w (o_recips o) else marshal_simple k w) with Some b => RBytes b | None => RErr end
              | None => RErr
              end
  | None => RErr
  end.

Definition step5 (k : kind) (o : obj) (e : op) : obj * out :=
  match e with
  | ODecode data => decode_step k o data
  | OProduce p ext draw => produce_step k o p ext draw
  | OConsume p ext => consume_step k o p ext
  | OMarshal => (o, marshal_out k o)
  | OSetProt l v => (with_prot o (Some (match o_prot o with Some m => set_label m (ilabel l) v | None => [(ilabel l, v)] end)), RNone)
  | ODelProt l => (with_prot o (option_map (fun m => remove_label m (ilabel l)) (o_prot o)), RNone)
  | ONilProt => (with_prot o None, RNone)
  | OSetUnprot l v => (match o_unprot o with Some m => upd_unprot o (set_label m (ilabel l) v) | None => new_unprot o (Some [(ilabel l, v)]) end, RNone)
  | ODelUnprot l => (match o_unprot o with Some m => upd_unprot o (remove_label m (ilabel l)) | None => o end, RNone)
  | ONilUnprot => (new_unprot o None, RNone)
  | OSetPayload b => (with_payload o b, RNone)
  | OAddRecip r => (with_recips o (o_recips o ++ [r])%list, ROk)
  end.


(* ---------------------------------------------------------------- COSE_Sign (SignMessage) *)
Definition with_sigs (o : obj) (w : wire) (sg : option (list sigent)) : obj :=
  {| o_prot := o_prot o; o_unprot := o_unprot o; o_payload := o_payload o; o_mm := Some w; o_shared := true; o_recips := o_recips o; o_sigs := sg |}.

Definition sign_decode_step (o : obj) (data : bytes) : obj * out :=
  match unmarshal_wire KSign data with
  | Ok w =>
      match sigs_decode (w_extra w) with            (* a nil Signature refuses the message before any field is touched *)
      | Ok sg =>
          match headers_from_bytes (w_prot w) with
          | Ok prot =>
              let pl := match w_payload w with Some ((_ :: _) as x) => Some x | _ => o_payload o end in
              ({| o_prot := Some prot; o_unprot := w_unprot w; o_payload := pl; o_mm := Some w; o_shared := true; o_recips := o_recips o; o_sigs := sg |}, ROk)
          | Err => (with_prot o None, RErr)
          | Panic => (o, RPanic)
          end
      | Err => (o, RErr)
      | Panic => (o, RPanic)
      end
  | Err => (o, RErr)
  | Panic => (o, RPanic)
  end.

(* the per-signer loop of WithSign: the COSE_Signature entries as the object holds them (a created entry has no
   received protected bytes: Verify and MarshalCBOR encode its Protected map, se_raw stands for that encoding) *)
Fixpoint sign_entries (ps : list sigprim) (pb : bytes) (ext payload : option bytes) : res (list sigent) :=
  match ps with
  | [] => Ok []
  | p :: r =>
      (* (both buckets of a signer are {alg} / {kid} maps made by the library: their encodings never fail; the check is
         placed where Msg.sign_all has it) *)
      match headers_bytes (signer_protected (sg_key p)), enc_cosemap (signer_unprotected (sg_key p)) with
      | Some sp, Some _ =>
          do tbs <- structure KSign (Some pb) (Some sp) ext payload;
          do sig <- sg_sign p tbs;
          do rest <- sign_entries r pb ext payload;
          Ok ({| se_prot := signer_protected (sg_key p); se_raw := sp; se_unprot := Some (signer_unprotected (sg_key p)); se_sig := Some sig |} :: rest)
      | _, _ => Err
      end
  end.

Definition sign_produce_step (o : obj) (ps : list sigprim) (ext : option bytes) : obj * out :=
  match ps with
  | [] => (o, RErr)
  | _ =>
      (* nil header maps become empty maps; nothing of the signers' keys goes into the body headers *)
      let o0 := with_prot o (Some (omap (o_prot o))) in
      let o1 := match o_unprot o with Some _ => o0 | None => new_unprot o0 (Some []) end in
      match headers_bytes (omap (o_prot o)) with
      | None => (o1, RErr)
      | Some pb =>
          match sign_entries ps pb ext (o_payload o) with
          | Ok l => (with_sigs o1 {| w_prot := Some pb; w_unprot := o_unprot o1; w_payload := o_payload o; w_auth := None; w_extra := None |} (Some l), ROk)
          | r => (o1, res_out r)
          end
      end
  end.

Definition sign_consume_step (o : obj) (vs : list sigprim) (ext : option bytes) : obj * out :=
  match vs with
  | [] => (o, RErr)
  | _ =>
      match o_mm o, o_sigs o with
      | Some w, Some (s :: r) => (o, res_out (verify_all vs w ext (s :: r)))
      | _, _ => (o, RErr)
      end
  end.

Definition marshal_sign (w : wire) (sg : list sigent) : option bytes :=
  match enc_headers_field (w_unprot w), all_some (map sigent_marshal sg) with
  | Some u, Some ss => Some (enc_tagged (cose_tag KSign) (enc_array [enc_bytes (w_prot w); u; enc_bytes (w_payload w); enc_array ss]))
  | _, _ => None
  end.

Definition sign_marshal_out (o : obj) : out :=
  match o_mm o, o_sigs o with
  | Some w, Some sg => match marshal_sign w sg with Some b => RBytes b | None => RErr end
  | _, _ => RErr
  end.

Definition step_sign (o : obj) (e : op) : obj * out :=
  match e with
  | ODecode data => sign_decode_step o data
  | OProduce p ext _ => sign_produce_step o (pr_sigs p) ext
  | OConsume p ext => sign_consume_step o (pr_sigs p) ext
  | OMarshal => (o, sign_marshal_out o)
  | OAddRecip _ => (o, RNone)
  | _ => step5 KSign o e                 (* the edits of the exported fields are those of every kind *)
  end.

Definition step (k : kind) (o : obj) (e : op) : obj * out :=
  match k with KSign => step_sign o e | _ => step5 k o e end.

(* the trace of a history: the outcome of every call and the exported fields after it *)
Definition snap := (option cosemap * option cosemap * option bytes * list recip * option (list sigent))%type.
Definition snap_of (o : obj) : snap := (o_prot o, o_unprot o, o_payload o, o_recips o, o_sigs o).
Fixpoint run (k : kind) (o : obj) (ops : list op) : list (out * snap) :=
  match ops with
  | [] => []
  | e :: r => let '(o', x) := step k o e in (x, snap_of o') :: run k o' r
  end.
Fixpoint final (k : kind) (o : obj) (ops : list op) : obj :=
  match ops with [] => o | e :: r => final k (fst (step k o e)) r end.
