(* The function bodies regenerated from the source (Gen/FuncsGen.v, translator T11) compute what the hand-written
   models used by the property theorems compute, for every input. A change to one of these Go functions changes the
   generated definition; if it changes its meaning, the corresponding lemma below no longer checks. *)
From Coq Require Import String.
From Coq Require Import ZArith List Bool Lia Arith.
From Coq Require Import Strings.Byte.
From Cose Require Import Lib.Base Lib.GoSem Lib.GenTypes Lib.Cbor Model.GoVal Model.Wire Model.Key Model.Nonce Model.NonceProofs Model.Msg Model.MsgProofs Model.MsgRoundTrip Gen.FuncsGen.
Import ListNotations.
Open Scope Z_scope.

(* ---------------------------------------------------------------- cose.RemoveCBORTag *)
Lemma prefix_defs :
  cose_cwtPrefix = cwt_prefix /\ cose_sign1MessagePrefix = msg_prefix KSign1 /\ cose_mac0MessagePrefix = msg_prefix KMac0 /\
  cose_encrypt0MessagePrefix = msg_prefix KEnc0 /\ cose_signMessagePrefix = msg_prefix KSign /\ cose_macMessagePrefix = msg_prefix KMac /\
  cose_encryptMessagePrefix = msg_prefix KEnc.
Proof. vm_compute. repeat split; reflexivity. Qed.

Lemma has_prefix_len p l : has_prefix p l = true -> (length p <= length l)%nat.
Proof.
  unfold has_prefix. intro H. apply bytes_eqb_eq in H. rewrite H at 1. rewrite firstn_length. lia.
Qed.

Lemma slice_from_ok (l : bytes) (n : nat) : (n <= length l)%nat -> go_slice_from l (Z.of_nat n) = Ok (skipn n l).
Proof.
  intro H. unfold go_slice_from, go_len.
  replace (Z.of_nat n <? 0) with false by (symmetry; apply Z.ltb_ge; lia).
  replace (Z.of_nat (length l) <? Z.of_nat n) with false by (symmetry; apply Z.ltb_ge; lia).
  cbn [orb]. now rewrite Nat2Z.id.
Qed.

Theorem gen_remove_cbor_tag data : cose_RemoveCBORTag data = Ok (remove_cbor_tag data).
Proof.
  destruct prefix_defs as [E0 [E1 [E2 [E3 [E4 [E5 E6]]]]]].
  unfold cose_RemoveCBORTag, remove_cbor_tag, go_has_prefix. rewrite E0, E1, E2, E3, E4, E5, E6.
  assert (L0 : length cwt_prefix = 2%nat) by (vm_compute; reflexivity).
  assert (L1 : length (msg_prefix KSign1) = 2%nat /\ length (msg_prefix KMac0) = 2%nat /\ length (msg_prefix KEnc0) = 2%nat) by (vm_compute; repeat split; reflexivity).
  assert (L2 : length (msg_prefix KSign) = 3%nat /\ length (msg_prefix KMac) = 3%nat /\ length (msg_prefix KEnc) = 3%nat) by (vm_compute; repeat split; reflexivity).
  destruct L1 as [La [Lb Lc]]. destruct L2 as [Ld [Le Lf]].
  set (d1 := if has_prefix cwt_prefix data then skipn 2 data else data).
  assert (S1 : (if has_prefix cwt_prefix data then do data0 <- go_slice_from data 2; Ok data0 else Ok data) = Ok d1).
  { subst d1. destruct (has_prefix cwt_prefix data) eqn:H; [|reflexivity].
    apply has_prefix_len in H. replace (go_slice_from data 2) with (Ok (skipn 2 data)) by (symmetry; apply (slice_from_ok data 2); lia). reflexivity. }
  rewrite S1. cbn [bind].
  destruct (has_prefix (msg_prefix KSign1) d1 || has_prefix (msg_prefix KMac0) d1 || has_prefix (msg_prefix KEnc0) d1) eqn:H1.
  - assert (2 <= length d1)%nat as Hl.
    { apply orb_true_iff in H1. destruct H1 as [H1|H1]; [apply orb_true_iff in H1; destruct H1 as [H1|H1]|]; apply has_prefix_len in H1; lia. }
    replace (go_slice_from d1 1) with (Ok (skipn 1 d1)) by (symmetry; apply (slice_from_ok d1 1); lia). reflexivity.
  - destruct (has_prefix (msg_prefix KSign) d1 || has_prefix (msg_prefix KMac) d1 || has_prefix (msg_prefix KEnc) d1) eqn:H2; [|reflexivity].
    assert (3 <= length d1)%nat as Hl.
    { apply orb_true_iff in H2. destruct H2 as [H2|H2]; [apply orb_true_iff in H2; destruct H2 as [H2|H2]|]; apply has_prefix_len in H2; lia. }
    replace (go_slice_from d1 2) with (Ok (skipn 2 d1)) by (symmetry; apply (slice_from_ok d1 2); lia). reflexivity.
Qed.

(* C09 / C01: the source of RemoveCBORTag takes off the tag of a message of any kind, with or without the CWT tag, and
   leaves an untagged message alone *)
Theorem gen_remove_tag_only_the_tag k fs : shaped k fs ->
  cose_RemoveCBORTag (enc_tagged (cose_tag k) (enc_array fs)) = Ok (enc_array fs)
  /\ cose_RemoveCBORTag (cwt_prefix ++ enc_tagged (cose_tag k) (enc_array fs))%list = Ok (enc_array fs)
  /\ cose_RemoveCBORTag (enc_array fs) = Ok (enc_array fs).
Proof.
  intro H. rewrite !gen_remove_cbor_tag. destruct (MsgRoundTrip.remove_tag_only_the_tag k fs H) as [A [B C]].
  rewrite A, B, C. repeat split; reflexivity.
Qed.

