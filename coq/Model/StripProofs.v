(* The tag stripping at the head of the six UnmarshalCBOR methods, regenerated from the source (Gen/SlicesGen.v), is the
   model's strip_prefixes for the kind: the CWT tag, then the kind's own tag, each only when its fixed prefix (tag and
   array head) is there; nothing else is removed and the slicing cannot panic. *)
From Coq Require Import String.
From Coq Require Import ZArith List Bool Lia Arith.
From Cose Require Import Lib.Base Lib.GoSem Lib.GenTypes Lib.Cbor Model.GoVal Model.Wire Model.Key Model.Nonce Model.Msg Model.HdrSem
     Gen.FuncsGen Gen.SlicesGen Model.FuncsUntag.
Import ListNotations.
Open Scope Z_scope.

Ltac slice_ok :=
  match goal with
  | H : has_prefix ?p ?x = true |- context [go_slice_from ?x ?n] =>
      let L := fresh "L" in
      let n' := eval vm_compute in (Z.to_nat n) in
      pose proof (has_prefix_len p x H) as L;
      replace (go_slice_from x n) with (Ok (skipn n' x))
        by (symmetry; change n with (Z.of_nat n'); apply slice_from_ok;
            let lp := eval vm_compute in (length p) in
            (assert (Hp : length p = lp) by (vm_compute; reflexivity)); rewrite Hp in L; lia)
  end.

Ltac strip_tac :=
  let d := fresh "d" in
  intro d; destruct prefix_defs as [E0 [E1 [E2 [E3 [E4 [E5 E6]]]]]];
  unfold strip_prefixes;
  match goal with |- ?f d = _ => unfold f end;
  unfold go_has_prefix; rewrite ?E0, ?E1, ?E2, ?E3, ?E4, ?E5, ?E6;
  destruct (has_prefix cwt_prefix d) eqn:H0; [slice_ok|]; cbn [bind];
  match goal with |- context [has_prefix (msg_prefix ?k) ?x] => destruct (has_prefix (msg_prefix k) x) eqn:H1 end;
  try slice_ok; cbn [bind tag_len]; reflexivity.

Theorem gen_strip_sign1 : forall data, cose_Sign1Message_UnmarshalCBOR_strip data = Ok (strip_prefixes KSign1 data).
Proof. strip_tac. Qed.
Theorem gen_strip_sign : forall data, cose_SignMessage_UnmarshalCBOR_strip data = Ok (strip_prefixes KSign data).
Proof. strip_tac. Qed.
Theorem gen_strip_mac0 : forall data, cose_Mac0Message_UnmarshalCBOR_strip data = Ok (strip_prefixes KMac0 data).
Proof. strip_tac. Qed.
Theorem gen_strip_mac : forall data, cose_MacMessage_UnmarshalCBOR_strip data = Ok (strip_prefixes KMac data).
Proof. strip_tac. Qed.
Theorem gen_strip_enc0 : forall data, cose_Encrypt0Message_UnmarshalCBOR_strip data = Ok (strip_prefixes KEnc0 data).
Proof. strip_tac. Qed.
Theorem gen_strip_enc : forall data, cose_EncryptMessage_UnmarshalCBOR_strip data = Ok (strip_prefixes KEnc data).
Proof. strip_tac. Qed.
