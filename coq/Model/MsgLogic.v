(* Header logic of the six message kinds that does not depend on CBOR:
   algorithm binding and header defaulting (C05), nonce selection (C06).
   Statement-by-statement model of WithSign / Compute / Encrypt / Verify / Decrypt. *)
From Coq Require Import String.
From Coq Require Import ZArith List Bool Lia.
From Cose Require Import Lib.Base Lib.GenTypes Model.GoVal Model.Key.
Import ListNotations.
Open Scope Z_scope.

(* `if m.Protected.Has(alg) { alg, _ := m.Protected.GetInt(alg); if alg != int(key.Alg()) { return err } }` *)
Definition alg_gate (prot : cosemap) (kalg : Z) : bool :=
  if has prot 1 then get_int_ prot 1 =? kalg else true.

(* producing side of Sign1 / Mac0 / Mac / Encrypt0 / Encrypt: header preparation.
   None = the caller left the field nil. Returns the header maps in effect, or Err (refused). *)
Definition prepare_protected (prot : option cosemap) (k : cosemap) : res cosemap :=
  match prot with
  | None => Ok (if key_alg k =? 0 then [] else [(ilabel 1, VInt KInt (key_alg k))])
  | Some p => if alg_gate p (key_alg k) then Ok p else Err
  end.

Definition prepare_unprotected (unprot : option cosemap) (k : cosemap) : cosemap :=
  match unprot with
  | None => match kid k with [] => [] | kd => [(ilabel 4, VBytes kd)] end
  | Some u => u
  end.

(* COSE_Sign: the per-signer buckets are always built from the signer's key *)
Definition signer_protected (k : cosemap) : cosemap :=
  if key_alg k =? 0 then [] else [(ilabel 1, VInt KInt (key_alg k))].
Definition signer_unprotected (k : cosemap) : cosemap :=
  match kid k with [] => [] | kd => [(ilabel 4, VBytes kd)] end.

(* consuming side: Verify / Decrypt gate for the five single-key kinds; for COSE_Sign it is applied
   to each signature's protected bucket with the verifier found by kid *)
Definition consume_gate (prot : cosemap) (k : cosemap) : bool := alg_gate prot (key_alg k).

(* Verifiers.Lookup: first verifier whose key id is byte-equal *)
Fixpoint lookup_kid (vs : list cosemap) (id : bytes) : option cosemap :=
  match vs with
  | [] => None
  | k :: r => if bytes_eqb (kid k) id then Some k else lookup_kid r id
  end.

(* SignMessage.Verify, up to the primitive: every signature must find a verifier and pass the gate *)
Definition sign_verify_gates (sigs : list (cosemap * cosemap)) (verifiers : list cosemap) : bool :=
  negb (Nat.eqb (length verifiers) 0) && negb (Nat.eqb (length sigs) 0)
  && forallb (fun s => match lookup_kid verifiers (get_bytes_ (snd s) 4) with
                       | Some vk => consume_gate (fst s) vk
                       | None => false
                       end) sigs.
