(* Proofs about the key model: key_ops gating (C16), dispatch (C17) facts. *)
From Coq Require Import String.
From Coq Require Import ZArith List Bool Lia.
From Cose Require Import Lib.Base Lib.GenTypes Model.GoVal Model.Key.
Import ListNotations.
Open Scope Z_scope.

(* ---------------------------------------------------------------- labels *)

Lemma ikind_eqb_eq a b : ikind_eqb a b = true <-> a = b.
Proof. destruct a, b; cbn; split; intro H; try discriminate; try reflexivity. Qed.

Lemma label_eqb_eq a b : label_eqb a b = true <-> a = b.
Proof.
  destruct a as [k1 z1|s1], b as [k2 z2|s2]; cbn; split; intro H; try discriminate.
  - apply andb_true_iff in H. destruct H as [H1 H2]. apply ikind_eqb_eq in H1. apply Z.eqb_eq in H2. now subst.
  - inversion H; subst. apply andb_true_iff. split; [now apply ikind_eqb_eq | apply Z.eqb_refl].
  - apply bytes_eqb_eq in H. now subst.
  - inversion H; subst. now apply bytes_eqb_eq.
Qed.

Lemma label_eqb_refl a : label_eqb a a = true.
Proof. now apply label_eqb_eq. Qed.

Lemma label_eqb_neq a b : a <> b -> label_eqb a b = false.
Proof. intro H. destruct (label_eqb a b) eqn:E; [|reflexivity]. apply label_eqb_eq in E. contradiction. Qed.

Lemma lookup_remove_other k l l' : l' <> l -> lookup (remove_label k l) l' = lookup k l'.
Proof.
  intro H. induction k as [|[a v] r IH]; cbn; [reflexivity|].
  destruct (label_eqb a l) eqn:E1.
  - apply label_eqb_eq in E1. subst a. rewrite (label_eqb_neq l l') by congruence. exact IH.
  - cbn. destruct (label_eqb a l'); [reflexivity|exact IH].
Qed.

Lemma lookup_remove_same k l : lookup (remove_label k l) l = None.
Proof.
  induction k as [|[a v] r IH]; cbn; [reflexivity|].
  destruct (label_eqb a l) eqn:E1; [exact IH|]. cbn. rewrite E1. exact IH.
Qed.

Lemma ilabel_neq a b : a <> b -> ilabel a <> ilabel b.
Proof. unfold ilabel. congruence. Qed.

(* every accessor that reads a label other than key_ops is blind to removing key_ops *)
Section RemoveOps.
Variable k : cosemap.
Let k' := remove_label k (ilabel 4).

Lemma lk l : l <> 4 -> lookup k' (ilabel l) = lookup k (ilabel l).
Proof. intro H. apply lookup_remove_other. now apply ilabel_neq. Qed.

Lemma rm_get_int l : l <> 4 -> get_int k' l = get_int k l.
Proof. intro H. unfold get_int. now rewrite lk. Qed.
Lemma rm_get_bytes l : l <> 4 -> get_bytes k' l = get_bytes k l.
Proof. intro H. unfold get_bytes. now rewrite lk. Qed.
Lemma rm_get_bool l : l <> 4 -> get_bool k' l = get_bool k l.
Proof. intro H. unfold get_bool. now rewrite lk. Qed.
Lemma rm_has l : l <> 4 -> has k' l = has k l.
Proof. intro H. unfold has. now rewrite lk. Qed.
Lemma rm_kty : kty k' = kty k.
Proof. unfold kty, get_int_. now rewrite rm_get_int. Qed.
Lemma rm_key_alg : key_alg k' = key_alg k.
Proof. unfold key_alg. rewrite !rm_get_int by lia. reflexivity. Qed.
Lemma rm_kid_ok : kid_ok k' = kid_ok k.
Proof. unfold kid_ok. rewrite rm_has, rm_get_bytes by lia. reflexivity. Qed.
Lemma rm_get_bytes_ l : l <> 4 -> get_bytes_ k' l = get_bytes_ k l.
Proof. intro H. unfold get_bytes_. now rewrite rm_get_bytes. Qed.
Lemma rm_get_int_ l : l <> 4 -> get_int_ k' l = get_int_ k l.
Proof. intro H. unfold get_int_. now rewrite rm_get_int. Qed.
Lemma rm_key_ops : key_ops k' = None.
Proof. unfold key_ops, k'. now rewrite lookup_remove_same. Qed.
Lemma rm_has4 : has k' 4 = false.
Proof. unfold has, k'. now rewrite lookup_remove_same. Qed.
Lemma rm_y_ok n : y_ok k' n = y_ok k n.
Proof. unfold y_ok. rewrite rm_get_bool, rm_get_bytes by lia. reflexivity. Qed.
End RemoveOps.

(* ---------------------------------------------------------------- the parameter loop *)

Definition is4 (e : label * gval) : bool := label_eqb (fst e) (ilabel 4).

Lemma entry_ok_not4 g a o o' e : is4 e = false -> entry_ok g a o e = entry_ok g a o' e.
Proof.
  unfold is4, entry_ok. destruct (fst e) as [kd p|s]; [|reflexivity].
  destruct kd; try reflexivity. intro H.
  destruct (memZ p (g_plain g)); [reflexivity|]. destruct (p =? 3); [reflexivity|].
  destruct (p =? 4) eqn:E; [|reflexivity]. apply Z.eqb_eq in E. subst p. cbn in H. discriminate.
Qed.

Lemma entry_ok_4 g a o e : memZ 4 (g_plain g) = false -> is4 e = true -> entry_ok g a o e = o.
Proof.
  unfold is4, entry_ok. intros Hp H. apply label_eqb_eq in H. rewrite H. cbn. now rewrite Hp.
Qed.

Lemma remove_no4 k : forallb (fun e => negb (is4 e)) (remove_label k (ilabel 4)) = true.
Proof.
  induction k as [|[a v] r IH]; cbn; [reflexivity|].
  destruct (label_eqb a (ilabel 4)) eqn:E; [exact IH|]. cbn. unfold is4 at 1. cbn. rewrite E. exact IH.
Qed.

Lemma has4_exists k : has k 4 = existsb is4 k.
Proof.
  unfold has. induction k as [|[a v] r IH]; cbn; [reflexivity|].
  unfold is4 at 1. cbn. destruct (label_eqb a (ilabel 4)); [reflexivity|exact IH].
Qed.

(* error iff some entry fails: the key_ops entry contributes `o`, every other entry is unaffected *)
Lemma loop_split g a o k : memZ 4 (g_plain g) = false ->
  forallb (entry_ok g a o) k =
  forallb (entry_ok g a true) (remove_label k (ilabel 4)) && (if has k 4 then o else true).
Proof.
  intro Hp. rewrite has4_exists. induction k as [|[l v] r IH]; cbn [forallb remove_label existsb]; [reflexivity|].
  destruct (is4 (l, v)) eqn:E.
  - rewrite (entry_ok_4 g a o (l, v) Hp E). unfold is4 in E. cbn in E. rewrite E. cbn [orb]. rewrite IH.
    destruct (existsb is4 r); destruct o; rewrite ?andb_true_r, ?andb_false_r; reflexivity.
  - unfold is4 in E. cbn in E. rewrite E. cbn [forallb orb].
    fold (is4 (l, v)) in E. rewrite (entry_ok_not4 g a o true (l, v)) by (unfold is4; cbn; exact E).
    rewrite IH. rewrite andb_assoc. reflexivity.
Qed.

Lemma no4_indep g a o o' (l : cosemap) : forallb (fun e => negb (is4 e)) l = true ->
  forallb (entry_ok g a o) l = forallb (entry_ok g a o') l.
Proof.
  induction l as [|e r IH]; cbn; [reflexivity|]. intro H.
  apply andb_true_iff in H. destruct H as [H1 H2]. apply negb_true_iff in H1.
  rewrite (entry_ok_not4 g a o o' e H1). f_equal. apply IH. exact H2.
Qed.

Lemma loop_removed g a x x' k :
  loop_ok g a x (remove_label k (ilabel 4)) = forallb (entry_ok g a x') (remove_label k (ilabel 4)).
Proof. unfold loop_ok. apply no4_indep. apply remove_no4. Qed.

Lemma loop_ok_split g a x k : memZ 4 (g_plain g) = false ->
  loop_ok g a x k = loop_ok g a x (remove_label k (ilabel 4)) && (if has k 4 then ops_clause g x k else true).
Proof.
  intro Hp. unfold loop_ok at 1. rewrite (loop_split g a _ k Hp). rewrite (loop_removed g a x true k). reflexivity.
Qed.

(* ---------------------------------------------------------------- gate = specification *)

Lemma forallb_and_true (l : list Z) (ops : list Z) :
  forallb (fun op => memZ op ops && true) l = forallb (fun o => memZ o ops) l.
Proof. induction l; cbn; [reflexivity|]. now rewrite andb_true_r, IHl. Qed.

(* clause (CheckKey) and gate (operation) together are exactly what the property demands of the list in effect *)
Lemma clause_gate_is_allow g k op :
  (if has k 4 then ops_clause g true k else true) && empty_or_has (key_ops k) op
  = ops_allow (g_ops g) op (ops_state_of k).
Proof.
  unfold ops_state_of, has, ops_clause.
  destruct (lookup k (ilabel 4)) as [v|] eqn:L.
  - destruct (key_ops k) as [l|] eqn:K; [|reflexivity].
    cbn [ops_allow empty_or_has]. rewrite forallb_and_true. destruct l as [|o r]; [reflexivity|]. reflexivity.
  - unfold key_ops. rewrite L. reflexivity.
Qed.

(* ---------------------------------------------------------------- generated shapes (finite facts about the source) *)

Lemma gen_sym_shape : forall f,
  memZ 4 (g_plain (ckgen_of (sym_pkg f))) = false /\
  g_ops (ckgen_of (sym_pkg f)) = [sym_op1 f; sym_op2 f] /\
  g_other (ckgen_of (sym_pkg f)) = [] /\ g_alg_switch (ckgen_of (sym_pkg f)) = true /\
  g_ops_clause (ckgen_of (sym_pkg f)) = true /\ g_ops_guarded (ckgen_of (sym_pkg f)) = false.
Proof. intros []; vm_compute; repeat split; reflexivity. Qed.

Lemma gen_ed_shape : memZ 4 (g_plain ed_gen) = false /\ g_ops ed_gen = [1; 2] /\ g_ops_clause ed_gen = true /\ g_ops_guarded ed_gen = false
  /\ g_other ed_gen = ["checked:TZ 3"%string].
Proof. vm_compute. repeat split; reflexivity. Qed.
Lemma gen_ec_shape : memZ 4 (g_plain ec_gen) = false /\ g_ops ec_gen = [1; 2] /\ g_ops_clause ec_gen = true /\ g_ops_guarded ec_gen = false
  /\ g_other ec_gen = [].
Proof. vm_compute. repeat split; reflexivity. Qed.
Lemma gen_dh_shape : memZ 4 (g_plain dh_gen) = false /\ g_ops dh_gen = [7; 8] /\ g_ops_clause dh_gen = true /\ g_ops_guarded dh_gen = true
  /\ g_other dh_gen = [].
Proof. vm_compute. repeat split; reflexivity. Qed.

(* the per-operation guards the translator found: every operation method consults key_ops with its own constant *)
Lemma gen_op_guards :
  Gen.CheckKeyGen.op_guards =
  [("key/aesccm.aesCCM_Decrypt", "EmptyOrHas", TZ 4); ("key/aesccm.aesCCM_Encrypt", "EmptyOrHas", TZ 3);
   ("key/aesgcm.aesGCM_Decrypt", "EmptyOrHas", TZ 4); ("key/aesgcm.aesGCM_Encrypt", "EmptyOrHas", TZ 3);
   ("key/aesmac.aesMAC_MACCreate", "EmptyOrHas", TZ 9); ("key/aesmac.aesMAC_MACVerify", "EmptyOrHas", TZ 10);
   ("key/chacha20poly1305.chacha_Decrypt", "EmptyOrHas", TZ 4); ("key/chacha20poly1305.chacha_Encrypt", "EmptyOrHas", TZ 3);
   ("key/ecdh.ECDHer_ECDH", "EmptyOrHas", TZ 7); ("key/ecdh.ECDHer_ECDH", "EmptyOrHas", TZ 8);
   ("key/ecdsa.ecdsaSigner_Sign", "EmptyOrHas", TZ 1); ("key/ecdsa.ecdsaVerifier_Verify", "EmptyOrHas", TZ 2);
   ("key/ed25519.ed25519Signer_Sign", "EmptyOrHas", TZ 1); ("key/ed25519.ed25519Verifier_Verify", "EmptyOrHas", TZ 2);
   ("key/hmac.hMAC_MACCreate", "EmptyOrHas", TZ 9); ("key/hmac.hMAC_MACVerify", "EmptyOrHas", TZ 10)]%string.
Proof. vm_compute. reflexivity. Qed.

(* ---------------------------------------------------------------- C16: symmetric families *)

Lemma check_key_sym_split f k :
  check_key_sym f k = check_key_sym f (remove_label k (ilabel 4))
                      && (if has k 4 then ops_clause (ckgen_of (sym_pkg f)) true k else true).
Proof.
  destruct (gen_sym_shape f) as [Hp _]. unfold check_key_sym.
  rewrite rm_kty, rm_key_alg, rm_kid_ok, rm_get_bytes by lia.
  rewrite (loop_ok_split _ _ _ k Hp).
  set (g := ckgen_of (sym_pkg f)).
  destruct (match g_kty g with Some t => kty k =? t | None => false end);
  destruct (loop_ok g (memZ (key_alg k) (g_algs g)) true (remove_label k (ilabel 4)));
  destruct (if has k 4 then ops_clause g true k else true);
  destruct (match get_bytes k (-1) with Ok kb => negb (sym_keysize f (key_alg k) =? 0) && (lenZ kb =? sym_keysize f (key_alg k)) | _ => false end);
  destruct (kid_ok k); reflexivity.
Qed.

Theorem sym_performs_iff f op k :
  sym_performs f op k =
  sym_performs f op (remove_label k (ilabel 4)) && ops_allow [sym_op1 f; sym_op2 f] op (ops_state_of k).
Proof.
  unfold sym_performs. rewrite (check_key_sym_split f k). rewrite rm_key_ops. cbn [empty_or_has].
  rewrite andb_true_r, <- andb_assoc. rewrite clause_gate_is_allow.
  destruct (gen_sym_shape f) as [_ [Ho _]]. now rewrite Ho.
Qed.

(* ---------------------------------------------------------------- C16: Ed25519 *)

Lemma role_gate hasD (ops : option (list Z)) :
  negb (hasD && negb (empty_or_has ops 1)) && negb (negb hasD && negb (empty_or_has ops 2))
  = if hasD then empty_or_has ops 1 else empty_or_has ops 2.
Proof. destruct hasD; destruct (empty_or_has ops 1); destruct (empty_or_has ops 2); reflexivity. Qed.

Lemma check_key_ed_split k :
  check_key_ed k = check_key_ed (remove_label k (ilabel 4))
                   && (if has k 4 then ops_clause ed_gen true k else true)
                   && (if has k (-4) then empty_or_has (key_ops k) 1 else empty_or_has (key_ops k) 2).
Proof.
  destruct gen_ed_shape as [Hp _]. unfold check_key_ed.
  rewrite rm_kty, rm_key_alg, rm_kid_ok, rm_key_ops, !rm_has, !rm_get_bytes_, rm_get_int by lia.
  rewrite (loop_ok_split _ _ _ k Hp). cbn [empty_or_has negb andb].
  rewrite <- !andb_assoc.
  set (A := match g_kty ed_gen with Some t => kty k =? t | None => false end).
  set (B := loop_ok ed_gen (key_alg k =? -8) true (remove_label k (ilabel 4))).
  set (Cl := if has k 4 then ops_clause ed_gen true k else true).
  set (D := match get_int k (-1) with Ok c => c =? 6 | _ => false end).
  set (hD := has k (-4)). set (hX := has k (-2)).
  set (E1 := negb (hD && negb (lenZ (get_bytes_ k (-4)) =? 32))).
  set (E2 := negb (hX && negb (lenZ (get_bytes_ k (-2)) =? 32))).
  set (E3 := negb (negb hD && negb hX)).
  set (o1 := empty_or_has (key_ops k) 1). set (o2 := empty_or_has (key_ops k) 2).
  destruct A, B, Cl, D, E1, E2, E3, hD, o1, o2, (kid_ok k); reflexivity.
Qed.

Section Sig.
Variable C : crypto.

Theorem ed_sign_performs_iff k :
  ed_sign_performs C k =
  ed_sign_performs C (remove_label k (ilabel 4)) && ops_allow [1; 2] 1 (ops_state_of k).
Proof.
  unfold ed_sign_performs, ed_signer_ok. rewrite (check_key_ed_split k).
  rewrite rm_key_ops, !rm_has, !rm_get_bytes_ by lia. cbn [empty_or_has].
  destruct gen_ed_shape as [_ [Ho _]]. rewrite <- Ho, <- clause_gate_is_allow.
  destruct (has k (-4)); cbn [andb];
  destruct (check_key_ed (remove_label k (ilabel 4)));
  destruct (if has k 4 then ops_clause ed_gen true k else true);
  destruct (empty_or_has (key_ops k) 1); destruct (empty_or_has (key_ops k) 2);
  destruct (if has k (-2) then bytes_eqb (ed_public C (get_bytes_ k (-4))) (get_bytes_ k (-2)) else true); reflexivity.
Qed.

(* verification with a public key (no private parameter): the verifier consults the caller's own map *)
Lemma ed_verify_public_unfold k0 : has k0 (-4) = false ->
  ed_verify_performs C k0 = check_key_ed k0 && empty_or_has (key_ops k0) 2.
Proof.
  intro H0. unfold ed_verify_performs, ed_to_public. rewrite H0. cbn [negb].
  destruct (check_key_ed k0); reflexivity.
Qed.

Theorem ed_verify_public_performs_iff k : has k (-4) = false ->
  ed_verify_performs C k =
  ed_verify_performs C (remove_label k (ilabel 4)) && ops_allow [1; 2] 2 (ops_state_of k).
Proof.
  intro HD. rewrite (ed_verify_public_unfold k HD).
  rewrite (ed_verify_public_unfold (remove_label k (ilabel 4))) by (rewrite rm_has by lia; exact HD).
  rewrite (check_key_ed_split k), HD, rm_key_ops. cbn [empty_or_has].
  destruct gen_ed_shape as [_ [Ho _]]. rewrite <- Ho, <- clause_gate_is_allow.
  destruct (check_key_ed (remove_label k (ilabel 4)));
  destruct (if has k 4 then ops_clause ed_gen true k else true);
  destruct (empty_or_has (key_ops k) 2); reflexivity.
Qed.

End Sig.

(* ---------------------------------------------------------------- C16: history (restriction evaluated at every call) *)

(* the list in effect after Key.SetOps *)
Lemma key_ops_set_ops k l : key_ops (set_ops k l) = match l with [] => None | _ => Some l end.
Proof.
  unfold set_ops, key_ops. destruct l.
  - now rewrite lookup_remove_same.
  - cbn. reflexivity.
Qed.

Lemma ops_state_set_ops k l : ops_state_of (set_ops k l) = match l with [] => OpsAbsent | _ => OpsList l end.
Proof.
  unfold ops_state_of. rewrite key_ops_set_ops. unfold set_ops. destruct l.
  - now rewrite lookup_remove_same.
  - cbn. reflexivity.
Qed.

(* gate on the live map = "empty or contains", for the ops representation in effect *)
Definition gate_allow (op : Z) (st : ops_state) : bool :=
  match st with OpsAbsent => true | OpsBad => true | OpsList [] => true | OpsList l => memZ op l end.

Lemma gate_is_gate_allow k op : empty_or_has (key_ops k) op = gate_allow op (ops_state_of k) \/ ops_state_of k = OpsBad.
Proof.
  unfold ops_state_of. destruct (lookup k (ilabel 4)) eqn:L.
  - destruct (key_ops k) as [l|]; [left|right; reflexivity]. destruct l; reflexivity.
  - left. unfold key_ops. rewrite L. reflexivity.
Qed.

(* ---------------------------------------------------------------- C16: ECDSA *)

Lemma check_key_ecdsa_split k :
  check_key_ecdsa k = check_key_ecdsa (remove_label k (ilabel 4))
                      && (if has k 4 then ops_clause ec_gen true k else true)
                      && (if has k (-4) then empty_or_has (key_ops k) 1 else empty_or_has (key_ops k) 2).
Proof.
  destruct gen_ec_shape as [Hp _]. unfold check_key_ecdsa.
  rewrite rm_kty, rm_key_alg, rm_kid_ok, rm_key_ops, !rm_has, !rm_get_bytes_, rm_get_int, rm_y_ok by lia.
  rewrite (loop_ok_split _ _ _ k Hp). cbn [empty_or_has negb andb].
  rewrite <- !andb_assoc.
  set (A := match g_kty ec_gen with Some t => kty k =? t | None => false end).
  set (B := loop_ok ec_gen (memZ (key_alg k) (g_algs ec_gen)) true (remove_label k (ilabel 4))).
  set (Cl := if has k 4 then ops_clause ec_gen true k else true).
  set (D := match get_int k (-1) with Ok c => ecdsa_curve_known (key_alg k) && (c =? ecdsa_crv (key_alg k)) | _ => false end).
  set (hD := has k (-4)). set (hX := has k (-2)). set (hY := has k (-3)).
  set (E1 := negb (hD && ((lenZ (get_bytes_ k (-4)) =? 0) || (lenZ (get_bytes_ k (-4)) >? 66)))).
  match goal with |- context [if hX || hY then ?t else true] => set (E2 := if hX || hY then t else true) end.
  set (E3 := negb (negb hD && negb hX)).
  set (o1 := empty_or_has (key_ops k) 1). set (o2 := empty_or_has (key_ops k) 2).
  destruct A, B, Cl, D, E1, E2, E3, hD, o1, o2, (kid_ok k); reflexivity.
Qed.

Section Sig2.
Variable C : crypto.

Theorem ecdsa_sign_performs_iff k :
  ecdsa_sign_performs C k =
  ecdsa_sign_performs C (remove_label k (ilabel 4)) && ops_allow [1; 2] 1 (ops_state_of k).
Proof.
  unfold ecdsa_sign_performs, ecdsa_signer_ok. rewrite (check_key_ecdsa_split k).
  rewrite rm_key_ops, !rm_has, !rm_get_bytes_, !rm_get_bytes, rm_key_alg by lia. cbn [empty_or_has].
  destruct gen_ec_shape as [_ [Ho _]]. rewrite <- Ho, <- clause_gate_is_allow.
  set (P := ec_base_mul C (ecdsa_crv (key_alg k)) (get_bytes_ k (-4))).
  destruct (has k (-4)); cbn [andb];
  destruct (check_key_ecdsa (remove_label k (ilabel 4)));
  destruct (if has k 4 then ops_clause ec_gen true k else true);
  destruct (empty_or_has (key_ops k) 1); destruct (empty_or_has (key_ops k) 2);
  destruct (match get_bytes k (-2) with Ok x => if has k (-2) then fst P =? os2ip x else true | _ => true end);
  destruct (match get_bytes k (-3) with Ok y => if has k (-3) then snd P =? os2ip y else true | _ => true end); reflexivity.
Qed.

Lemma rm_point_ok k : ecdsa_point_ok C (remove_label k (ilabel 4)) = ecdsa_point_ok C k.
Proof. unfold ecdsa_point_ok. rewrite rm_key_alg, rm_get_bytes_, rm_get_bool, lk by lia. reflexivity. Qed.

Lemma ecdsa_verify_public_unfold k0 : has k0 (-4) = false ->
  ecdsa_verify_performs C k0 = check_key_ecdsa k0 && ecdsa_point_ok C k0 && empty_or_has (key_ops k0) 2.
Proof.
  intro H0. unfold ecdsa_verify_performs, ecdsa_to_public. rewrite H0. cbn [negb].
  destruct (check_key_ecdsa k0); cbn [negb andb]; reflexivity.
Qed.

Theorem ecdsa_verify_public_performs_iff k : has k (-4) = false ->
  ecdsa_verify_performs C k =
  ecdsa_verify_performs C (remove_label k (ilabel 4)) && ops_allow [1; 2] 2 (ops_state_of k).
Proof.
  intro HD. rewrite (ecdsa_verify_public_unfold k HD).
  rewrite (ecdsa_verify_public_unfold (remove_label k (ilabel 4))) by (rewrite rm_has by lia; exact HD).
  rewrite (check_key_ecdsa_split k), HD, rm_key_ops, rm_point_ok. cbn [empty_or_has].
  destruct gen_ec_shape as [_ [Ho _]]. rewrite <- Ho, <- clause_gate_is_allow.
  destruct (check_key_ecdsa (remove_label k (ilabel 4)));
  destruct (if has k 4 then ops_clause ec_gen true k else true);
  destruct (ecdsa_point_ok C k);
  destruct (empty_or_has (key_ops k) 2); reflexivity.
Qed.

(* a verifier made from a PRIVATE Ed25519 key works on a derived copy that lists only `verify`:
   it is created iff the private key's list permits `sign` *)
Lemma ed_pk_gate k pub :
  empty_or_has (key_ops ([(ilabel 1, VInt KInt 1); (ilabel (-1), VInt KInt 6)]
               ++ (match lookup k (ilabel 2) with Some v => [(ilabel 2, v)] | None => [] end)
               ++ (match lookup k (ilabel 3) with Some v => [(ilabel 3, v)] | None => [] end)
               ++ (match lookup k (ilabel 4) with Some _ => [(ilabel 4, VOps (Some [2]))] | None => [] end)
               ++ [(ilabel (-2), VBytes pub)])%list) 2 = true.
Proof.
  unfold key_ops.
  destruct (lookup k (ilabel 2)); destruct (lookup k (ilabel 3)); destruct (lookup k (ilabel 4)); reflexivity.
Qed.

Theorem ed_verify_private_performs_iff k : has k (-4) = true ->
  ed_verify_performs C k =
  ed_verify_performs C (remove_label k (ilabel 4)) && ops_allow [1; 2] 1 (ops_state_of k).
Proof.
  intro HD.
  assert (E : forall k0, has k0 (-4) = true ->
            ed_verify_performs C k0 = check_key_ed k0 && negb (has k0 (-2) && negb (bytes_eqb (get_bytes_ k0 (-2)) (ed_public C (get_bytes_ k0 (-4)))))).
  { intros k0 H0. unfold ed_verify_performs, ed_to_public. rewrite H0. cbn [negb].
    destruct (check_key_ed k0); cbn [negb andb]; [|reflexivity].
    destruct (has k0 (-2) && negb (bytes_eqb (get_bytes_ k0 (-2)) (ed_public C (get_bytes_ k0 (-4))))); cbn [negb]; [reflexivity|].
    apply ed_pk_gate. }
  rewrite (E k HD). rewrite (E (remove_label k (ilabel 4))) by (rewrite rm_has by lia; exact HD).
  rewrite (check_key_ed_split k), HD, !rm_has, !rm_get_bytes_ by lia.
  destruct gen_ed_shape as [_ [Ho _]]. rewrite <- Ho, <- clause_gate_is_allow.
  destruct (check_key_ed (remove_label k (ilabel 4)));
  destruct (if has k 4 then ops_clause ed_gen true k else true);
  destruct (empty_or_has (key_ops k) 1);
  destruct (has k (-2) && negb (bytes_eqb (get_bytes_ k (-2)) (ed_public C (get_bytes_ k (-4))))); reflexivity.
Qed.

(* public keys derived from private keys: no private parameter, only the public-side operation *)
Theorem ed_derived_public k pk : has k (-4) = true -> ed_to_public C k = Some pk ->
  lookup pk (ilabel (-4)) = None /\ (key_ops pk = None \/ key_ops pk = Some [2]) /\
  (has k 4 = true -> key_ops pk = Some [2]).
Proof.
  intros HD H. unfold ed_to_public in H. rewrite HD in H. cbn [negb] in H.
  destruct (negb (check_key_ed k)); [discriminate|].
  destruct (has k (-2) && negb (bytes_eqb (get_bytes_ k (-2)) (ed_public C (get_bytes_ k (-4))))); [discriminate|].
  inversion H; subst pk; clear H. unfold key_ops, has.
  destruct (lookup k (ilabel 2)); destruct (lookup k (ilabel 3)); destruct (lookup k (ilabel 4)); cbn;
  repeat split; auto; intro; discriminate.
Qed.

Theorem ecdsa_derived_public k pk : has k (-4) = true -> ecdsa_to_public C k = Some pk ->
  lookup pk (ilabel (-4)) = None /\ (key_ops pk = None \/ key_ops pk = Some [2]) /\
  (has k 4 = true -> key_ops pk = Some [2]).
Proof.
  intros HD H. unfold ecdsa_to_public in H. rewrite HD in H. cbn [negb] in H.
  destruct (negb (check_key_ecdsa k)); [discriminate|].
  match type of H with (if ?c then _ else _) = _ => destruct c; [discriminate|] end.
  inversion H; subst pk; clear H. unfold key_ops, has.
  destruct (lookup k (ilabel (-1))); destruct (lookup k (ilabel 2)); destruct (lookup k (ilabel 3)); destruct (lookup k (ilabel 4)); cbn;
  repeat split; auto; intro; discriminate.
Qed.

End Sig2.

(* ---------------------------------------------------------------- C16: ECDH *)

Lemma ops_clause_true g k : ops_clause g true k = match key_ops k with None => false | Some l => forallb (fun o => memZ o (g_ops g)) l end.
Proof. unfold ops_clause. destruct (key_ops k); [apply forallb_and_true|reflexivity]. Qed.

Lemma check_key_ecdh_split k : has k (-4) = true ->
  check_key_ecdh k = check_key_ecdh (remove_label k (ilabel 4))
                     && (if has k 4 then ops_clause dh_gen true k else true).
Proof.
  intro HD. destruct gen_dh_shape as [Hp _]. unfold check_key_ecdh.
  rewrite rm_kty, rm_key_alg, rm_kid_ok, (rm_has k (-4)), rm_get_int by lia.
  rewrite HD. rewrite (loop_ok_split _ _ _ k Hp).
  set (A := (kty k =? 2) || (kty k =? 1)).
  set (B := loop_ok dh_gen (memZ (key_alg k) (g_algs dh_gen)) true (remove_label k (ilabel 4))).
  set (Cl := if has k 4 then ops_clause dh_gen true k else true).
  destruct (get_int k (-1)) as [c| |].
  - rewrite !rm_has, !rm_get_bytes_, rm_y_ok by lia.
    match goal with |- context [ecdh_curve_known c && ?t] => set (D := ecdh_curve_known c && t) end.
    destruct A, B, Cl, D, (kid_ok k); reflexivity.
  - destruct A, B, Cl, (kid_ok k); reflexivity.
  - destruct A, B, Cl, (kid_ok k); reflexivity.
Qed.

Lemma dh_gate l : l <> [] -> forallb (fun o => memZ o [7; 8]) l = true -> memZ 7 l || memZ 8 l = true.
Proof.
  destruct l as [|o r]; [congruence|]. intros _ H. cbn in H. apply andb_true_iff in H. destruct H as [H _].
  cbn. destruct (o =? 7) eqn:E7; destruct (o =? 8) eqn:E8; cbn in *; try discriminate;
  try (apply Z.eqb_eq in E7; subst); try (apply Z.eqb_eq in E8; subst); cbn; rewrite ?orb_true_r; reflexivity.
Qed.

Theorem ecdh_local_performs_iff C k :
  ecdh_local_performs C k =
  ecdh_local_performs C (remove_label k (ilabel 4)) && ops_allow_dh (ops_state_of k).
Proof.
  unfold ecdh_local_performs. rewrite !rm_has, rm_get_int_, rm_get_bytes_, rm_key_ops by lia. cbn [empty_or_has orb].
  destruct (has k (-4)) eqn:HD; [|reflexivity]. cbn [andb].
  rewrite (check_key_ecdh_split k HD).
  destruct (check_key_ecdh (remove_label k (ilabel 4))); cbn [andb]; [|reflexivity].
  destruct (ecdh_new_private C (get_int_ k (-1)) (get_bytes_ k (-4))); rewrite ?andb_true_r, ?andb_false_r; cbn [andb]; [|reflexivity].
  rewrite ops_clause_true. destruct gen_dh_shape as [_ [Ho _]]. rewrite Ho.
  unfold ops_state_of, has. destruct (lookup k (ilabel 4)) eqn:L.
  - destruct (key_ops k) as [l|]; [|reflexivity]. destruct l as [|o r]; [reflexivity|].
    cbn [ops_allow_dh empty_or_has].
    destruct (forallb (fun o0 => memZ o0 [7; 8]) (o :: r)) eqn:F; [|reflexivity].
    cbn [andb]. reflexivity.
  - unfold key_ops. rewrite L. reflexivity.
Qed.
