(* Correspondence cases for the key streams (ops, dispatch): the harness records what the real
   factories and operations did; the model recomputes it. *)
From Coq Require Import String.
From Coq Require Import ZArith List Bool.
From Cose Require Import Lib.Base Lib.GenTypes Model.GoVal Model.Key.
Import ListNotations.
Open Scope Z_scope.

Inductive fam := FSym (f : symfam) | FEdSign | FEdVerify | FEcSign | FEcVerify | FEcdh.
Inductive step := SetOps (l : list Z) | Do (op : Z).

(* oracle values observed from Go's crypto for this key: ed25519 public key, d*G, and "the point is on the curve" *)
Record oracle := { or_ed_pub : bytes; or_point : Z * Z; or_on_curve : bool; or_dh_priv_ok : bool }.
Definition crypto_of (o : oracle) : crypto :=
  {| ed_public := fun _ => or_ed_pub o;
     ec_base_mul := fun _ _ => or_point o;
     ec_on_curve := fun _ _ _ => or_on_curve o;
     ec_decompress := fun _ _ _ => if or_on_curve o then Some (or_point o) else None;
     ecdh_new_private := fun _ _ => or_dh_priv_ok o;
     ecdh_public_bytes := fun _ _ => [];
     ecdh_new_public := fun _ _ => true |}.

(* the key map the created implementation consults at each operation:
   Some true = the caller's own map (later SetOps are seen), Some false = a private copy *)
Definition build (C : crypto) (f : fam) (k : cosemap) : option (bool * cosemap) :=
  match f with
  | FSym s => if check_key_sym s k then Some (true, k) else None
  | FEdSign => if ed_signer_ok C k then Some (true, k) else None
  | FEcSign => if ecdsa_signer_ok C k then Some (true, k) else None
  | FEdVerify => match ed_to_public C k with
                 | Some pk => Some (negb (has k (-4)), pk)
                 | None => None
                 end
  | FEcVerify => match ecdsa_to_public C k with
                 | Some pk => if ecdsa_point_ok C pk then Some (negb (has k (-4)), pk) else None
                 | None => None
                 end
  | FEcdh => if has k (-4) && check_key_ecdh k && ecdh_new_private C (get_int_ k (-1)) (get_bytes_ k (-4)) then Some (true, k) else None
  end.

Definition gate (f : fam) (op : Z) (k : cosemap) : bool :=
  match f with
  | FEcdh => empty_or_has (key_ops k) 7 || empty_or_has (key_ops k) 8
  | _ => empty_or_has (key_ops k) op
  end.

Fixpoint run_steps (f : fam) (shared : bool) (caller_key impl_key : cosemap) (ss : list step) : list bool :=
  match ss with
  | [] => []
  | SetOps l :: r =>
      let ck := set_ops caller_key l in
      run_steps f shared ck (if shared then ck else impl_key) r
  | Do op :: r => gate f op impl_key :: run_steps f shared caller_key impl_key r
  end.

Inductive ops_case := OpsCase (f : fam) (o : oracle) (k : cosemap) (ss : list step) (built : bool) (outs : list bool).

Fixpoint bools_eqb (a b : list bool) : bool :=
  match a, b with
  | [], [] => true
  | x :: a', y :: b' => Bool.eqb x y && bools_eqb a' b'
  | _, _ => false
  end.

Definition check_ops_case (c : ops_case) : bool :=
  match c with
  | OpsCase f o k ss built outs =>
      match build (crypto_of o) f k with
      | None => negb built
      | Some (shared, ik) => built && bools_eqb (run_steps f shared k ik ss) outs
      end
  end.
