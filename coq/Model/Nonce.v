(* C06: nonce selection of Encrypt0Message / EncryptMessage (Encrypt and Decrypt) and xorIV. *)
From Coq Require Import String.
From Coq Require Import ZArith List Bool Lia.
From Cose Require Import Lib.Base Lib.GenTypes Model.GoVal Model.Key Gen.TablesGen Gen.ShapesGen.
Import ListNotations.
Open Scope Z_scope.

Fixpoint xor_bytes (a b : bytes) : bytes :=
  match a, b with
  | x :: a', y :: b' => xor_byte x y :: xor_bytes a' b'
  | x :: a', [] => x :: a'       (* the loop stops at the end of contextIV *)
  | [], _ => []
  end.

(* xorIV(contextIV, partialIV, size): make(size); copy(iv[size-len(partialIV):], partialIV) panics when the
   partial IV is longer than size; the XOR loop covers min(size, len(contextIV)) positions *)
Definition xor_iv (context partial : bytes) (size : nat) : res bytes :=
  if Nat.ltb size (length partial) then Panic
  else Ok (xor_bytes (zeros (size - length partial) ++ partial)%list context).

Definition set_label (m : cosemap) (l : label) (v : gval) : cosemap := (l, v) :: remove_label m l.

(* RFC 9052 section 3.1 / 7.1: left-pad the Partial IV to the nonce length and XOR it with the Base IV,
   the Base IV being cut or zero-extended on the right to the nonce length *)
Definition fit (n : nat) (b : bytes) : bytes := firstn n (b ++ zeros n)%list.
Definition rfc_nonce (base partial : bytes) (n : nat) : bytes :=
  map (fun p => xor_byte (fst p) (snd p)) (combine (zeros (n - length partial) ++ partial)%list (fit n base)).

(* nonce derivation shared by Encrypt and Decrypt (everything before `if len(iv) == 0`) *)
Definition derive_nonce (unprot key : cosemap) (nsize : nat) : res bytes :=
  match get_bytes unprot 5 with
  | Ok iv =>
    match get_bytes unprot 6 with
    | Ok piv =>
      if negb (Nat.eqb (length piv) 0) then
        if negb (Nat.eqb (length iv) 0) then Err
        else if Nat.leb nsize (length piv) then Err
        else match get_bytes key 5 with
             | Ok base => if Nat.eqb (length base) 0 then Err else xor_iv base piv nsize
             | _ => Err
             end
      else Ok iv
    | _ => Err
    end
  | _ => Err
  end.

(* Encrypt: the nonce handed to the AEAD and the unprotected map afterwards; `draw` is what
   key.GetRandomBytes(uint16(ivSize)) returns (crypto/rand) *)
Definition choose_nonce (unprot key : cosemap) (nsize : nat) (draw : bytes) : res (bytes * cosemap) :=
  match derive_nonce unprot key nsize with
  | Ok iv => if Nat.eqb (length iv) 0 then Ok (draw, set_label unprot (ilabel 5) (VBytes draw)) else Ok (iv, unprot)
  | Err => Err
  | Panic => Panic
  end.

(* the AEAD implementations refuse a nonce of any other length before touching the cipher *)
Definition aead_takes (nsize : nat) (nonce : bytes) : bool := Nat.eqb (length nonce) nsize.

(* nonce sizes by algorithm, from the source *)
Definition nonce_size_of (alg : Z) : Z :=
  if memZ alg [1; 2; 3] then match assoc ShapesGen.int_consts "key/aesgcm.nonceSize" with Some z => z | None => -1 end
  else if alg =? 24 then match assoc ShapesGen.int_consts "key/chacha20poly1305.nonceSize" with Some z => z | None => -1 end
  else tcol key_aesccm_getKeySize alg 2.

(* a history of encryptions of freshly constructed messages (no IV, no Partial IV) under one key:
   each consumes one draw of the entropy source *)
Fixpoint fresh_nonces (key : cosemap) (nsize : nat) (draws : list bytes) (unprots : list cosemap) : list (res bytes) :=
  match unprots, draws with
  | u :: us, d :: ds => (match choose_nonce u key nsize d with Ok (n, _) => Ok n | Err => Err | Panic => Panic end)
                        :: fresh_nonces key nsize ds us
  | _, _ => []
  end.
