(* The object model of COSE_Sign (Model/MsgObj.v) and the regenerated loop of SignMessage.WithSign (Gen/LookupGen.v, T16):
   the entries the object model installs are the entries the source's loop builds. *)
From Coq Require Import String.
From Coq Require Import ZArith List Bool Lia.
From Cose Require Import Lib.Base Lib.Cbor Lib.GoSem Lib.GenTypes Model.GoVal Model.Wire Model.Key Model.MsgLogic Model.Msg Model.HdrSem Gen.LookupGen Model.LookupProofs Model.MsgObj.
Import ListNotations.
Open Scope Z_scope.

(* an entry of the source's loop as the object holds it: the protected map, its encoding standing for the received bytes *)
Definition sigent_of_sigout (e : sigout) : sigent :=
  {| se_prot := omap (so_prot e);
     se_raw := match headers_bytes (omap (so_prot e)) with Some b => b | None => [] end;
     se_unprot := so_unprot e;
     se_sig := Some (so_sig e) |}.

Lemma obj_sign_entries_is_entries pb ext payload : forall ps, Forall signer_buckets_encodable ps ->
  MsgObj.sign_entries ps pb ext payload
  = do l <- LookupProofs.sign_entries ps pb ext payload; Ok (map sigent_of_sigout l).
Proof.
  induction ps as [|p r IH]; intro F; cbn [MsgObj.sign_entries LookupProofs.sign_entries]; [reflexivity|].
  inversion F as [|p' r' [Hp Hu] Fr]; subst.
  destruct (headers_bytes (signer_protected (sg_key p))) as [sp|] eqn:Esp; [|exfalso; apply Hp; reflexivity].
  destruct (enc_cosemap (signer_unprotected (sg_key p))) as [su|] eqn:Esu; [|exfalso; apply Hu; reflexivity].
  destruct (structure KSign (Some pb) (Some sp) ext payload) as [tbs| |]; cbn [bind]; [|reflexivity|reflexivity].
  destruct (sg_sign p tbs) as [sg| |]; cbn [bind]; [|reflexivity|reflexivity].
  rewrite (IH Fr). destruct (LookupProofs.sign_entries r pb ext payload) as [l| |]; cbn [bind]; [|reflexivity|reflexivity].
  cbn [map].
  assert (E : sigent_of_sigout (mk_sigout (Some (signer_protected (sg_key p))) (Some (signer_unprotected (sg_key p))) sg)
              = {| se_prot := signer_protected (sg_key p); se_raw := sp; se_unprot := Some (signer_unprotected (sg_key p)); se_sig := Some sg |}).
  { unfold sigent_of_sigout. cbn [so_prot so_unprot so_sig omap]. rewrite Esp. reflexivity. }
  rewrite E. reflexivity.
Qed.

Theorem obj_sign_entries_is_source ps ext pb payload : Forall signer_buckets_encodable ps ->
  MsgObj.sign_entries ps pb ext payload
  = do l <- cose_SignMessage_WithSign_loop ps ext pb payload; Ok (map sigent_of_sigout l).
Proof. intro F. rewrite gen_with_sign_loop. apply obj_sign_entries_is_entries, F. Qed.

Theorem obj_sign_entries_is_source_total ps ext pb payload :
  MsgObj.sign_entries ps pb ext payload
  = do l <- cose_SignMessage_WithSign_loop ps ext pb payload; Ok (map sigent_of_sigout l).
Proof. apply obj_sign_entries_is_source, all_signers_encodable. Qed.
