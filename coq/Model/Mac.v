(* C11: models of hMAC.create/MACVerify (key/hmac) and aesMAC.create/MACVerify (key/aesmac), on raw key bytes. *)
From Coq Require Import String.
From Coq Require Import ZArith NArith List Bool Lia.
From Cose Require Import Lib.Base Lib.GenTypes Lib.Sha2 Lib.Hmac Lib.Aes Lib.CbcMac Model.GoVal Model.Key Gen.TablesGen.
Import ListNotations.
Open Scope Z_scope.

(* crypto.Hash ids returned by Alg.HashFunc: 5 = SHA256, 6 = SHA384, 7 = SHA512 *)
Definition hmac_by_hash (h : Z) : option (bytes -> bytes -> bytes) :=
  if h =? 5 then Some hmac_sha256 else if h =? 6 then Some hmac_sha384 else if h =? 7 then Some hmac_sha512 else None.

Definition hmac_tag_size (alg : Z) : Z := tcol key_hmac_getKeySize alg 1.
Definition aesmac_tag_size (alg : Z) : Z := tcol key_aesmac_getKeySize alg 1.

(* hMAC.create: tag := mac.Sum(nil); return tag[:h.tagSize]  (an unavailable hash panics in hmac.New) *)
Definition hmac_create (alg : Z) (key msg : bytes) : res bytes :=
  match hmac_by_hash (hash_func alg) with
  | Some h => slice (h key msg) 0 (Z.to_nat (hmac_tag_size alg))
  | None => Panic
  end.

(* aesMAC.MACCreate after the key_ops gate: empty data is refused, then create *)
Definition aesmac_create (alg : Z) (key msg : bytes) : res bytes :=
  match msg with
  | [] => Err
  | _ => go_create (aes_keyed key) (Z.to_nat (aesmac_tag_size alg)) msg
  end.

(* MACVerify: recompute and compare (hmac.Equal / subtle.ConstantTimeCompare: equal length and content) *)
Definition mac_verify (create : bytes -> res bytes) (msg tag : bytes) : res bool :=
  match create msg with
  | Ok t => Ok (bytes_eqb t tag)
  | Err => Err
  | Panic => Panic
  end.

(* the reference (RFC 9053 section 3): truncated HMAC-SHA-2, and AES-CBC-MAC with zero IV and zero padding *)
Definition ref_hmac (alg : Z) (key msg : bytes) : option bytes :=
  match alg with
  | 4 => Some (firstn 8 (hmac_sha256 key msg))
  | 5 => Some (hmac_sha256 key msg)
  | 6 => Some (hmac_sha384 key msg)
  | 7 => Some (hmac_sha512 key msg)
  | _ => None
  end.
Definition ref_aesmac (alg : Z) (key msg : bytes) : option bytes :=
  match alg with
  | 14 | 15 => Some (firstn 8 (cbc_mac (aes_keyed key) msg))
  | 25 | 26 => Some (cbc_mac (aes_keyed key) msg)
  | _ => None
  end.
