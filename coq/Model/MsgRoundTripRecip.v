(* C01 / C09 for the multi-layer kinds: COSE_Mac and COSE_Encrypt with any number of recipients, each with any number of
   nested recipients (one nesting level, as the library admits): a message in the form the library writes is accepted
   with its recipients; and what MarshalCBOR writes for recipients is that form. *)
From Coq Require Import String.
From Coq Require Import NArith ZArith List Arith Lia Bool.
From Cose Require Import Lib.Base Lib.Cbor Lib.CborProofs Model.GoVal Model.CborGo Model.Wire Model.Key Model.MsgLogic Model.MsgLogicProofs Model.Nonce Model.Msg
     Spec.RFC9052 Model.MsgProofs Model.MsgRoundTrip Model.ValueRoundTrip Model.MsgRoundTripFull Model.MsgRoundTripSign Model.NonceProofs.
Import ListNotations.
Open Scope Z_scope.

(* ---------------------------------------------------------------- recipients in the form the library writes *)
Record leafdata := { ld_prot : bytes; ld_unprot : item; ld_ct : option bytes }.
Record recipdata := { rd_leaf : leafdata; rd_subs : list leafdata }.

Definition leaf_items (d : leafdata) : list item := [IBstr (ld_prot d); ld_unprot d; ob (ld_ct d)].
Definition recip_items (r : recipdata) : list item :=
  match rd_subs r with
  | [] => leaf_items (rd_leaf r)
  | subs => leaf_items (rd_leaf r) ++ [IArr (map (fun d => IArr (leaf_items d)) subs)]
  end.

(* what a decoded recipient must be *)
Definition leaf_rel (d : leafdata) (l : rleaf) : Prop :=
  exists prot un, headers_from_bytes (Some (ld_prot d)) = Ok prot /\ fld_headers (encode (ld_unprot d)) = Ok un
                  /\ l = {| rl_prot := Some prot; rl_unprot := Some un; rl_ct := ld_ct d |}.
Definition recip_rel (r : recipdata) (rc : recip) : Prop :=
  leaf_rel (rd_leaf r) (rc_leaf rc) /\ Forall2 leaf_rel (rd_subs r) (rc_subs rc).

Lemma first_byte_arr3 a b c : first_is Byte.x83 (encode (IArr [a; b; c])) = true.
Proof. reflexivity. Qed.
Lemma first_byte_arr4 a b c d : first_is Byte.x83 (encode (IArr [a; b; c; d])) = false /\ first_is Byte.x84 (encode (IArr [a; b; c; d])) = true.
Proof. split; reflexivity. Qed.

Lemma leaf_of_fields_wire d l rest : leaf_rel d l ->
  encodable (ob (Some (ld_prot d))) = true -> encodable (ob (ld_ct d)) = true ->
  leaf_of_fields (encode (IBstr (ld_prot d)) :: encode (ld_unprot d) :: encode (ob (ld_ct d)) :: rest) = Ok l.
Proof.
  intros [prot [un [Hp [Hu ->]]]] E1 E3. unfold leaf_of_fields, bind.
  change (encode (IBstr (ld_prot d))) with (encode (ob (Some (ld_prot d)))).
  rewrite (fld_bytes_ob _ E1), Hu, (fld_bytes_ob _ E3), Hp. reflexivity.
Qed.

Lemma rleaf_decode_wire d l : encodable (IArr (leaf_items d)) = true -> leaf_rel d l ->
  rleaf_decode (encode (IArr (leaf_items d))) = Ok l.
Proof.
  intros E R. unfold rleaf_decode. unfold leaf_items at 1. rewrite first_byte_arr3. unfold bind.
  change 3%nat with (length (leaf_items d)). rewrite (struct_fields_encode _ E). unfold leaf_items. cbn [map].
  apply leaf_of_fields_wire; [exact R| |]; apply (sub_encodable _ _ E); cbn; tauto.
Qed.

Lemma all_some_map_Some {A} (l : list A) : all_some (map (@Some A) l) = Some l.
Proof. induction l as [|x r IH]; cbn [map all_some]; [reflexivity|now rewrite IH]. Qed.

Lemma res_all_leaves (ds : list leafdata) (ls : list rleaf) :
  (forall d, In d ds -> encodable (IArr (leaf_items d)) = true) -> Forall2 leaf_rel ds ls ->
  res_all (map rleaf_decode (map (fun d => encode (IArr (leaf_items d))) ds)) = Ok ls.
Proof.
  intros E F. induction F as [|d l ds' ls' R _ IH]; cbn [map res_all]; [reflexivity|].
  rewrite (rleaf_decode_wire d l (E d (or_introl eq_refl)) R), IH by (intros; apply E; now right). reflexivity.
Qed.

Lemma recip_decode_wire r rc : encodable (IArr (recip_items r)) = true -> recip_rel r rc ->
  recip_decode (encode (IArr (recip_items r))) = Ok rc.
Proof.
  intros E [Rl Rs]. unfold recip_items in *. destruct (rd_subs r) as [|s0 subs] eqn:Es.
  - (* no nested recipients *)
    inversion Rs as [Hn|]. unfold recip_decode. unfold leaf_items at 1. rewrite first_byte_arr3.
    rewrite (rleaf_decode_wire _ _ E Rl). cbn [bind]. destruct rc as [lf sb]. cbn [rc_leaf rc_subs] in *. now subst.
  - set (SS := s0 :: subs) in *.
    set (L4 := [IBstr (ld_prot (rd_leaf r)); ld_unprot (rd_leaf r); ob (ld_ct (rd_leaf r)); IArr (map (fun d => IArr (leaf_items d)) SS)]).
    change (leaf_items (rd_leaf r) ++ [IArr (map (fun d : leafdata => IArr (leaf_items d)) SS)])%list with L4 in *.
    unfold recip_decode.
    destruct (first_byte_arr4 (IBstr (ld_prot (rd_leaf r))) (ld_unprot (rd_leaf r)) (ob (ld_ct (rd_leaf r))) (IArr (map (fun d => IArr (leaf_items d)) SS))) as [F3 F4].
    fold L4 in F3, F4. rewrite F3, F4. unfold bind.
    assert (E' : encodable (IArr L4) = true) by exact E.
    change 4%nat with (length L4).
    rewrite (struct_fields_encode _ E'). unfold L4 in *. cbn [map].
    rewrite (leaf_of_fields_wire (rd_leaf r) (rc_leaf rc)); [|exact Rl| |]; try (apply (sub_encodable _ _ E'); cbn; tauto).
    assert (Esub : encodable (IArr (map (fun d => IArr (leaf_items d)) SS)) = true) by (apply (sub_encodable _ _ E'); cbn; tauto).
    replace (map (fun d : leafdata => IArr (leaf_items d)) SS) with (map IArr (map leaf_items SS)) in * by (rewrite map_map; reflexivity).
    rewrite (ptr_elems_encode _ Esub). rewrite map_map.
    assert (Hne : map (fun x : leafdata => Some (encode (IArr (leaf_items x)))) SS = Some (encode (IArr (leaf_items s0))) :: map (fun x => Some (encode (IArr (leaf_items x)))) subs) by reflexivity.
    rewrite Hne. rewrite <- Hne.
    replace (map (fun x : leafdata => Some (encode (IArr (leaf_items x)))) SS) with (map (@Some bytes) (map (fun d => encode (IArr (leaf_items d))) SS)) by (rewrite map_map; reflexivity).
    rewrite all_some_map_Some.
    rewrite (res_all_leaves SS (rc_subs rc)).
    + destruct rc as [lf sb]. reflexivity.
    + intros d Hd. apply (sub_encodable _ _ Esub). rewrite map_map. apply in_map_iff. now exists d.
    + exact Rs.
Qed.

Lemma recips_decode_wire (rds : list recipdata) (rcs : list recip) :
  rds <> [] -> (forall r, In r rds -> encodable (IArr (recip_items r)) = true) -> Forall2 recip_rel rds rcs ->
  recips_decode (Some (map (fun r => Some (encode (IArr (recip_items r)))) rds)) = Ok rcs.
Proof.
  intros Hne E F. unfold recips_decode. destruct rds as [|r0 rr]; [congruence|].
  set (RS := r0 :: rr) in *.
  assert (Hc : map (fun r : recipdata => Some (encode (IArr (recip_items r)))) RS = Some (encode (IArr (recip_items r0))) :: map (fun r => Some (encode (IArr (recip_items r)))) rr) by reflexivity.
  rewrite Hc, <- Hc.
  replace (map (fun r : recipdata => Some (encode (IArr (recip_items r)))) RS) with (map (@Some bytes) (map (fun r => encode (IArr (recip_items r))) RS)) by (rewrite map_map; reflexivity).
  rewrite all_some_map_Some. clear Hc Hne. induction F as [|r rc rs' rcs' R _ IH]; cbn [map res_all]; [reflexivity|].
  rewrite (recip_decode_wire r rc (E r (or_introl eq_refl)) R), IH by (intros; apply E; now right). reflexivity.
Qed.

(* ---------------------------------------------------------------- COSE_Mac *)
Definition recips_item (rds : list recipdata) : item := IArr (map (fun r => IArr (recip_items r)) rds).
Definition mac_whole (pb : bytes) (itU : item) (pl tag : bytes) (rds : list recipdata) : item :=
  IArr [ob (Some pb); itU; ob (Some pl); ob (Some tag); recips_item rds].
Definition enc_whole (pb : bytes) (itU : item) (ct : bytes) (rds : list recipdata) : item :=
  IArr [ob (Some pb); itU; ob (Some ct); recips_item rds].

Lemma ptr_elems_recips rds : encodable (recips_item rds) = true ->
  ptr_elems (encode (recips_item rds)) = Ok (Some (map (fun r => Some (encode (IArr (recip_items r)))) rds)).
Proof.
  intro E. unfold recips_item in *.
  replace (map (fun r : recipdata => IArr (recip_items r)) rds) with (map IArr (map recip_items rds)) in * by (rewrite map_map; reflexivity).
  rewrite (ptr_elems_encode _ E). now rewrite map_map.
Qed.

Theorem mac_accepts_wire_form p pb itU pl tag ext um pm rds rcs :
  encodable (mac_whole pb itU pl tag rds) = true ->
  fld_headers (encode itU) = Ok um -> headers_from_bytes (Some pb) = Ok pm -> consume_gate pm (mc_key p) = true ->
  rds <> [] -> Forall2 recip_rel rds rcs ->
  mc_verify p (encode (MAC_structure MAC pb (aad ext) pl)) tag = true ->
  mac_consume false p (enc_tagged 97 (encode (mac_whole pb itU pl tag rds))) ext
  = Ok ({| v_prot := pm; v_unprot := Some um; v_payload := payload_view pl |}, rcs).
Proof.
  intros E Hu Hp Hg Hne HR Hv. unfold mac_consume.
  assert (Er : encodable (recips_item rds) = true) by (apply (sub_encodable _ _ E); cbn; tauto).
  assert (W : unmarshal_wire KMac (enc_tagged 97 (encode (mac_whole pb itU pl tag rds)))
              = Ok {| w_prot := Some pb; w_unprot := Some um; w_payload := Some pl; w_auth := Some tag;
                      w_extra := Some (map (fun r => Some (encode (IArr (recip_items r)))) rds) |}).
  { unfold unmarshal_wire, mac_whole.
    rewrite <- (enc_array_items [ob (Some pb); itU; ob (Some pl); ob (Some tag); recips_item rds]).
    change 97%N with (cose_tag KMac). rewrite strip_tagged by reflexivity. rewrite enc_array_items.
    change (arity KMac) with (length [ob (Some pb); itU; ob (Some pl); ob (Some tag); recips_item rds]).
    rewrite (struct_fields_encode _ E). cbn [bind map].
    rewrite (fld_bytes_ob (Some pb)) by (apply (sub_encodable _ _ E); cbn; tauto). rewrite Hu.
    rewrite (fld_bytes_ob (Some pl)) by (apply (sub_encodable _ _ E); cbn; tauto).
    rewrite (fld_bytes_ob (Some tag)) by (apply (sub_encodable _ _ E); cbn; tauto).
    rewrite (ptr_elems_recips rds Er). reflexivity. }
  rewrite W. cbn [bind w_extra].
  rewrite (recips_decode_wire rds rcs Hne); [|intros r Hr; apply (sub_encodable _ _ Er); apply in_map_iff; now exists r|exact HR].
  cbn [bind]. unfold decoded_view. cbn [w_prot w_payload w_unprot w_auth]. rewrite Hp. cbn [bind]. rewrite payload_ok_bytes. cbn [bind v_prot].
  rewrite Hg. cbn [negb]. rewrite mac_structure_is_rfc. cbn [bind]. rewrite Hv. reflexivity.
Qed.

(* ---------------------------------------------------------------- COSE_Encrypt *)
Theorem enc_accepts_wire_form p pb itU ct ext um pm nonce pt rds rcs :
  encodable (enc_whole pb itU ct rds) = true ->
  fld_headers (encode itU) = Ok um -> headers_from_bytes (Some pb) = Ok pm -> consume_gate pm (en_key p) = true ->
  rds <> [] -> Forall2 recip_rel rds rcs ->
  derive_nonce um (en_key p) (en_nonce p) = Ok nonce ->
  en_decrypt p nonce ct (encode (Enc_structure Encrypt pb (aad ext))) = Ok pt ->
  enc_consume false p (enc_tagged 96 (encode (enc_whole pb itU ct rds))) ext
  = Ok ({| v_prot := pm; v_unprot := Some um; v_payload := payload_view pt |}, rcs).
Proof.
  intros E Hu Hp Hg Hne HR Hn Hd. unfold enc_consume.
  assert (Er : encodable (recips_item rds) = true) by (apply (sub_encodable _ _ E); cbn; tauto).
  assert (W : unmarshal_wire KEnc (enc_tagged 96 (encode (enc_whole pb itU ct rds)))
              = Ok {| w_prot := Some pb; w_unprot := Some um; w_payload := None; w_auth := Some ct;
                      w_extra := Some (map (fun r => Some (encode (IArr (recip_items r)))) rds) |}).
  { unfold unmarshal_wire, enc_whole.
    rewrite <- (enc_array_items [ob (Some pb); itU; ob (Some ct); recips_item rds]).
    change 96%N with (cose_tag KEnc). rewrite strip_tagged by reflexivity. rewrite enc_array_items.
    change (arity KEnc) with (length [ob (Some pb); itU; ob (Some ct); recips_item rds]).
    rewrite (struct_fields_encode _ E). cbn [bind map].
    rewrite (fld_bytes_ob (Some pb)) by (apply (sub_encodable _ _ E); cbn; tauto). rewrite Hu.
    rewrite (fld_bytes_ob (Some ct)) by (apply (sub_encodable _ _ E); cbn; tauto).
    rewrite (ptr_elems_recips rds Er). reflexivity. }
  rewrite W. cbn [bind w_extra].
  rewrite (recips_decode_wire rds rcs Hne); [|intros r Hr; apply (sub_encodable _ _ Er); apply in_map_iff; now exists r|exact HR].
  cbn [bind w_prot w_auth w_unprot]. rewrite Hp. cbn [bind]. rewrite Hg. cbn [negb].
  rewrite enc_structure_is_rfc. cbn [bind omap]. rewrite Hn. cbn [bind]. rewrite Hd. cbn [bind]. rewrite payload_ok_bytes. reflexivity.
Qed.

(* ================================================================ from what MarshalCBOR writes to the wire form *)
Definition leaf_rb (l : rleaf) : rleaf :=
  {| rl_prot := Some (read_back (omap (rl_prot l))); rl_unprot := Some (read_back (omap (rl_unprot l))); rl_ct := rl_ct l |}.
Definition recip_rb (r : recip) : recip := {| rc_leaf := leaf_rb (rc_leaf r); rc_subs := map leaf_rb (rc_subs r) |}.

Definition good_leaf (l : rleaf) : Prop := good_map (omap (rl_prot l)) /\ good_map (omap (rl_unprot l)).
Definition good_recip (r : recip) : Prop := good_leaf (rc_leaf r) /\ Forall good_leaf (rc_subs r).

(* the bytes CoseMap.MarshalCBOR writes for a good map are the encoding of its item, and decode to read_back *)
Lemma enc_cosemap_item m u : good_map m -> enc_cosemap m = Some u ->
  exists it, u = encode it /\ fld_headers (encode it) = Ok (read_back m).
Proof.
  intros [Hc [Hh [ND [Hk He]]]] E. pose proof (cosemap_roundtrip m u Hc Hh E He) as R.
  unfold enc_cosemap in E. rewrite (check_labels_id m Hc) in E. destruct (labels_dup m); [discriminate|].
  unfold marshal_any in E. destruct (item_of (VMap m)) as [it|]; [|discriminate]. cbn [option_map] in E. inversion E; subst u.
  exists it. split; [reflexivity|exact R].
Qed.

Lemma marshal_rleaf_data l bs : good_leaf l -> marshal_rleaf l = Some bs ->
  exists d, bs = encode (IArr (leaf_items d)) /\ leaf_rel d (leaf_rb l) /\ rleaf_fields l = Some (map encode (leaf_items d)).
Proof.
  intros [Gp Gu] H. unfold marshal_rleaf, rleaf_fields in *.
  destruct (headers_bytes (omap (rl_prot l))) as [pb|] eqn:Ep; [|discriminate].
  destruct (enc_cosemap (omap (rl_unprot l))) as [u|] eqn:Eu; [|discriminate]. unfold option_map in H.
  assert (Hbs : bs = enc_array [enc_bytes (Some pb); u; enc_bytes (rl_ct l)]) by congruence. clear H. subst bs.
  destruct (enc_cosemap_item _ u Gu Eu) as [it [-> Hit]].
  exists {| ld_prot := pb; ld_unprot := it; ld_ct := rl_ct l |}.
  assert (Eit : [enc_bytes (Some pb); encode it; enc_bytes (rl_ct l)] = map encode (leaf_items {| ld_prot := pb; ld_unprot := it; ld_ct := rl_ct l |})).
  { unfold leaf_items. cbn [ld_prot ld_unprot ld_ct map]. now rewrite !enc_bytes_ob. }
  rewrite Eit. split; [apply enc_array_items|]. split; [|reflexivity].
  exists (read_back (omap (rl_prot l))), (read_back (omap (rl_unprot l))). cbn [ld_prot ld_unprot ld_ct].
  split; [apply (headers_roundtrip _ pb Gp Ep)|]. split; [exact Hit|reflexivity].
Qed.

Lemma marshal_subs_data (ls : list rleaf) : forall bss, Forall good_leaf ls -> all_some (map marshal_rleaf ls) = Some bss ->
  exists ds, bss = map (fun d => encode (IArr (leaf_items d))) ds /\ Forall2 leaf_rel ds (map leaf_rb ls) /\ (ds = [] <-> ls = []).
Proof.
  induction ls as [|l r IH]; intros bss G H; cbn [map all_some] in H.
  - inversion H. exists []. repeat split; auto; constructor.
  - destruct (marshal_rleaf l) as [b|] eqn:El; [|discriminate]. destruct (all_some (map marshal_rleaf r)) as [bs|] eqn:Er; [|discriminate].
    inversion H; subst bss. inversion G as [|? ? Gl Gr]; subst.
    destruct (marshal_rleaf_data l b Gl El) as [d [-> [Rd _]]]. destruct (IH bs Gr eq_refl) as [ds [-> [F _]]].
    exists (d :: ds). cbn [map]. split; [reflexivity|]. split; [now constructor|]. split; discriminate.
Qed.

Lemma marshal_recip_data r bs : good_recip r -> marshal_recip r = Some bs ->
  exists rd, bs = encode (IArr (recip_items rd)) /\ recip_rel rd (recip_rb r).
Proof.
  intros [Gl Gs] H. unfold marshal_recip in H.
  destruct (rleaf_fields (rc_leaf r)) as [fs|] eqn:Ef; [|discriminate].
  assert (Em : marshal_rleaf (rc_leaf r) = Some (enc_array fs)) by (unfold marshal_rleaf; now rewrite Ef).
  destruct (marshal_rleaf_data _ _ Gl Em) as [d [Ed [Rd Efs]]].
  assert (Hfs : fs = map encode (leaf_items d)) by congruence. subst fs. clear Efs Ed Em.
  destruct (rc_subs r) as [|s0 sr] eqn:Es.
  - assert (Hbs : bs = enc_array (map encode (leaf_items d))) by congruence. subst bs. exists {| rd_leaf := d; rd_subs := [] |}. unfold recip_items. cbn [rd_subs rd_leaf].
    split; [apply enc_array_items|]. split; [exact Rd|]. cbn [recip_rb rc_subs rd_subs]. rewrite Es. constructor.
  - destruct (all_some (map marshal_rleaf (s0 :: sr))) as [ss|] eqn:Ea; [|discriminate].
    assert (Hbs : bs = enc_array (map encode (leaf_items d) ++ [enc_array ss])) by congruence. subst bs.
    destruct (marshal_subs_data (s0 :: sr) ss Gs Ea) as [ds [-> [F Hnil]]].
    destruct ds as [|d0 dr]; [destruct Hnil as [Hn _]; specialize (Hn eq_refl); discriminate|].
    exists {| rd_leaf := d; rd_subs := d0 :: dr |}. unfold recip_items. cbn [rd_subs rd_leaf]. split.
    + rewrite <- enc_array_items. f_equal. rewrite map_app. f_equal. cbn [map]. f_equal.
      change (encode (IArr (leaf_items d0)) :: map (fun d1 : leafdata => encode (IArr (leaf_items d1))) dr)
        with (map (fun d1 : leafdata => encode (IArr (leaf_items d1))) (d0 :: dr)).
      change (IArr (leaf_items d0) :: map (fun d1 : leafdata => IArr (leaf_items d1)) dr) with (map (fun d1 : leafdata => IArr (leaf_items d1)) (d0 :: dr)).
      rewrite <- enc_array_items, map_map. reflexivity.
    + split; [exact Rd|]. cbn [recip_rb rc_subs rd_subs]. rewrite Es. exact F.
Qed.

Lemma enc_recips_data (rs : list recip) bs : Forall good_recip rs -> enc_recips rs = Some bs ->
  exists rds, bs = encode (recips_item rds) /\ Forall2 recip_rel rds (map recip_rb rs) /\ rds <> [].
Proof.
  intros G H. unfold enc_recips in H. destruct rs as [|r0 rr]; [discriminate|].
  destruct (all_some (map marshal_recip (r0 :: rr))) as [bss|] eqn:Ea; [|discriminate]. cbn [option_map] in H. inversion H; subst bs.
  assert (X : forall (l : list recip) bss, Forall good_recip l -> all_some (map marshal_recip l) = Some bss ->
              exists rds, bss = map (fun r => encode (IArr (recip_items r))) rds /\ Forall2 recip_rel rds (map recip_rb l) /\ length rds = length l).
  { clear. induction l as [|r l IH]; intros bss G H; cbn [map all_some] in H.
    - inversion H. exists []. repeat split; constructor.
    - destruct (marshal_recip r) as [b|] eqn:Er; [|discriminate]. destruct (all_some (map marshal_recip l)) as [bs|] eqn:El; [|discriminate].
      inversion H; subst bss. inversion G as [|? ? Gr Gl]; subst.
      destruct (marshal_recip_data r b Gr Er) as [rd [-> Rr]]. destruct (IH bs Gl eq_refl) as [rds [-> [F Len]]].
      exists (rd :: rds). cbn [map length]. split; [reflexivity|]. split; [now constructor|]. now rewrite Len. }
  destruct (X (r0 :: rr) bss G Ea) as [rds [-> [F Len]]]. exists rds. split; [|split; [exact F|]].
  - unfold recips_item. rewrite <- enc_array_items, map_map. reflexivity.
  - intro Hn. subst rds. discriminate Len.
Qed.

(* ---------------------------------------------------------------- COSE_Mac: produce, then consume *)
Theorem mac_roundtrip_full p prot unprot pl ext rs out prot' :
  mac_produce p prot unprot (Some pl) ext rs = Ok out ->
  (forall tbm tag, mc_create p tbm = Ok tag -> mc_verify p tbm tag = true) ->
  prepare_protected prot (mc_key p) = Ok prot' -> alg_gate prot' (key_alg (mc_key p)) = true ->
  good_map prot' -> good_map (prepare_unprotected unprot (mc_key p)) -> Forall good_recip rs ->
  (forall it, out = enc_tagged 97 (encode it) -> encodable it = true) ->
  mac_consume false p out ext
  = Ok ({| v_prot := read_back prot'; v_unprot := Some (read_back (prepare_unprotected unprot (mc_key p))); v_payload := payload_view pl |},
        map recip_rb rs).
Proof.
  intros Hp Hprim Epp Hgate Gp Gu Gr Hsize. unfold mac_produce in Hp. rewrite Epp in Hp. cbn [bind] in Hp.
  destruct (headers_bytes prot') as [pb|] eqn:Eb; [|discriminate].
  rewrite (mac_structure_is_rfc pb ext pl None) in Hp. cbn [bind] in Hp.
  destruct (mc_create p _) as [tag| |] eqn:Es; cbn [bind] in Hp; try discriminate.
  destruct (enc_cosemap (prepare_unprotected unprot (mc_key p))) as [u|] eqn:U; [|discriminate].
  destruct (enc_recips rs) as [r|] eqn:R; [|discriminate].
  assert (Hout : out = enc_tagged (cose_tag KMac) (enc_array [enc_bytes (Some pb); u; enc_bytes (Some pl); enc_bytes (Some tag); r])) by congruence.
  subst out. clear Hp.
  destruct (enc_cosemap_item _ u Gu U) as [itU [-> HitU]].
  destruct (enc_recips_data rs r Gr R) as [rds [-> [F Hne]]].
  assert (Ew : enc_tagged (cose_tag KMac) (enc_array [enc_bytes (Some pb); encode itU; enc_bytes (Some pl); enc_bytes (Some tag); encode (recips_item rds)])
               = enc_tagged 97 (encode (mac_whole pb itU pl tag rds))).
  { unfold mac_whole. rewrite <- enc_array_items, !enc_bytes_ob. reflexivity. }
  rewrite Ew in *.
  apply mac_accepts_wire_form; try assumption.
  - apply Hsize. reflexivity.
  - apply (headers_roundtrip prot' pb Gp Eb).
  - unfold consume_gate. now rewrite (alg_gate_read_back prot' _ Gp).
  - apply Hprim. exact Es.
Qed.

(* ---------------------------------------------------------------- COSE_Encrypt: produce, then consume *)
Theorem enc_roundtrip_full p prot unprot payload ext draw rs out prot' nonce unprot' :
  enc_produce p prot unprot payload ext draw rs = Ok out ->
  (forall nc pt ad ct, en_encrypt p nc pt ad = Ok ct -> en_decrypt p nc ct ad = Ok pt) ->
  prepare_protected prot (en_key p) = Ok prot' -> alg_gate prot' (key_alg (en_key p)) = true ->
  choose_nonce (prepare_unprotected unprot (en_key p)) (en_key p) (en_nonce p) draw = Ok (nonce, unprot') ->
  draw <> [] -> (0 < en_nonce p)%nat ->
  good_map prot' -> good_map unprot' -> Forall good_recip rs ->
  (forall it, out = enc_tagged 96 (encode it) -> encodable it = true) ->
  enc_consume false p out ext
  = Ok ({| v_prot := read_back prot'; v_unprot := Some (read_back unprot'); v_payload := payload_view (match payload with Some b => b | None => [] end) |},
        map recip_rb rs).
Proof.
  intros Hp Hprim Epp Hgate Ech Hd Hn Gp Gu Gr Hsize. unfold enc_produce in Hp. rewrite Epp in Hp. cbn [bind] in Hp.
  rewrite Ech in Hp. cbn [bind] in Hp.
  destruct (headers_bytes prot') as [pb|] eqn:Eb; [|discriminate].
  rewrite (enc_structure_is_rfc pb ext None None) in Hp. cbn [bind] in Hp.
  destruct (en_encrypt p _ _ _) as [ct| |] eqn:Es; cbn [bind] in Hp; try discriminate.
  destruct (enc_cosemap unprot') as [u|] eqn:U; [|discriminate].
  destruct (enc_recips rs) as [r|] eqn:R; [|discriminate].
  assert (Hout : out = enc_tagged (cose_tag KEnc) (enc_array [enc_bytes (Some pb); u; enc_bytes (Some ct); r])) by congruence.
  subst out. clear Hp.
  destruct (enc_cosemap_item _ u Gu U) as [itU [-> HitU]].
  destruct (enc_recips_data rs r Gr R) as [rds [-> [F Hne]]].
  assert (Ew : enc_tagged (cose_tag KEnc) (enc_array [enc_bytes (Some pb); encode itU; enc_bytes (Some ct); encode (recips_item rds)])
               = enc_tagged 96 (encode (enc_whole pb itU ct rds))).
  { unfold enc_whole. rewrite <- enc_array_items, !enc_bytes_ob. reflexivity. }
  rewrite Ew in *.
  apply (enc_accepts_wire_form p pb itU ct ext (read_back unprot') (read_back prot') nonce); try assumption.
  - apply Hsize. reflexivity.
  - apply (headers_roundtrip prot' pb Gp Eb).
  - unfold consume_gate. now rewrite (alg_gate_read_back prot' _ Gp).
  - destruct Gu as [_ [_ [ND [Hk _]]]]. rewrite (derive_nonce_read_back unprot' _ _ ND Hk).
    apply (decrypt_same_nonce (prepare_unprotected unprot (en_key p)) (en_key p) (en_nonce p) draw nonce unprot').
    + exact (chosen_nonce_nonempty _ _ _ _ _ _ Hd Hn Ech).
    + unfold choose_nonce in Ech. destruct (derive_nonce (prepare_unprotected unprot (en_key p)) (en_key p) (en_nonce p)) as [iv| |] eqn:D; try discriminate.
      exact (derive_ok_iv_typed _ _ _ _ D).
    + exact Ech.
  - apply Hprim. exact Es.
Qed.

(* end to end by computation: two recipients, one of them with two nested recipients, header maps on every level *)
Example mac_with_nested_recipients :
  let p := {| mc_key := [(ilabel 1, VInt KInt 4); (ilabel 3, VInt KInt 5); (ilabel 2, VBytes (hex "6b31"))];
              mc_create := fun tbm => Ok (hex "a5" ++ tbm)%list; mc_verify := fun tbm tag => bytes_eqb tag (hex "a5" ++ tbm)%list |} in
  let leaf1 := {| rl_prot := Some [(ilabel 1, VInt KInt (-6))]; rl_unprot := Some [(ilabel 4, VBytes (hex "3131"))]; rl_ct := Some (hex "c0ffee") |} in
  let leaf2 := {| rl_prot := None; rl_unprot := Some [(ilabel (-1), VMap [(ilabel 1, VInt KInt 2); (ilabel (-2), VBytes (hex "aa"))])]; rl_ct := None |} in
  let rs := [{| rc_leaf := leaf1; rc_subs := [] |}; {| rc_leaf := leaf2; rc_subs := [leaf1; leaf2] |}] in
  match mac_produce p None (Some [(LStr (hex "78"), VArr [VBool true])]) (Some (hex "010203")) (Some (hex "ee")) rs with
  | Ok out =>
      match mac_consume false p out (Some (hex "ee")) with
      | Ok (v, rs') => rs' = map recip_rb rs /\ v_payload v = Some (hex "010203")
      | _ => False
      end
      /\ is_ok (mac_consume false p (remove_cbor_tag out) (Some (hex "ee"))) = true
      /\ is_ok (mac_consume false p out None) = false
  | _ => False
  end.
Proof. vm_compute. repeat split; reflexivity. Qed.

(* C09: Recipient.MarshalCBOR then Recipient.UnmarshalCBOR, with any number of nested recipients *)
Theorem recip_roundtrip r bs : good_recip r -> marshal_recip r = Some bs ->
  (forall it, bs = encode it -> encodable it = true) -> recip_decode bs = Ok (recip_rb r).
Proof.
  intros G H Hsize. destruct (marshal_recip_data r bs G H) as [rd [-> R]].
  apply recip_decode_wire; [apply Hsize; reflexivity|exact R].
Qed.
