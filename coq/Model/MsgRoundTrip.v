(* Re-encoding and tagging forms of the six message kinds (C09, C01). *)
From Coq Require Import String.
From Coq Require Import NArith ZArith List Arith Lia Bool.
From Cose Require Import Lib.Base Lib.GenTypes Lib.Cbor Lib.CborProofs Model.GoVal Model.CborGo Model.Wire Model.Key Model.MsgLogic Model.Nonce Model.Msg Spec.RFC9052 Model.MsgProofs.
Import ListNotations.
Open Scope Z_scope.

(* the array written for a message of kind k holds arity k members *)
Definition shaped (k : kind) (fs : list bytes) : Prop := length fs = arity k.

(* ---------------------------------------------------------------- tagging forms *)
Lemma tagged_first_bytes k fs : shaped k fs ->
  enc_tagged (cose_tag k) (enc_array fs) = (msg_prefix k ++ concat fs)%list.
Proof.
  unfold shaped. intro H. destruct k; cbn [arity] in H;
    repeat (destruct fs as [|? fs]; try discriminate H); reflexivity.
Qed.

Lemma untagged_first_byte k fs : shaped k fs ->
  enc_array fs = (skipn (tag_len k) (msg_prefix k) ++ concat fs)%list.
Proof.
  unfold shaped. intro H. destruct k; cbn [arity] in H;
    repeat (destruct fs as [|? fs]; try discriminate H); reflexivity.
Qed.

(* UnmarshalCBOR sees the same array whether the message comes tagged, untagged or wrapped in the CWT tag *)
Theorem strip_tagged k fs : shaped k fs -> strip_prefixes k (enc_tagged (cose_tag k) (enc_array fs)) = enc_array fs.
Proof.
  intro H. rewrite (tagged_first_bytes k fs H), (untagged_first_byte k fs H). destruct k; reflexivity.
Qed.

Theorem strip_untagged k fs : shaped k fs -> strip_prefixes k (enc_array fs) = enc_array fs.
Proof.
  intro H. rewrite (untagged_first_byte k fs H). destruct k; reflexivity.
Qed.

Theorem strip_cwt_tagged k fs : shaped k fs -> strip_prefixes k (cwt_prefix ++ enc_tagged (cose_tag k) (enc_array fs)) = enc_array fs.
Proof.
  intro H. rewrite (tagged_first_bytes k fs H), (untagged_first_byte k fs H). destruct k; reflexivity.
Qed.

Corollary same_wire_in_all_forms k fs : shaped k fs ->
  unmarshal_wire k (enc_tagged (cose_tag k) (enc_array fs)) = unmarshal_wire k (enc_array fs)
  /\ unmarshal_wire k (cwt_prefix ++ enc_tagged (cose_tag k) (enc_array fs))%list = unmarshal_wire k (enc_array fs).
Proof.
  intro H. unfold unmarshal_wire. now rewrite strip_tagged, strip_untagged, strip_cwt_tagged.
Qed.

(* RemoveCBORTag removes the tag and nothing else *)
Theorem remove_tag_only_the_tag k fs : shaped k fs ->
  remove_cbor_tag (enc_tagged (cose_tag k) (enc_array fs)) = enc_array fs
  /\ remove_cbor_tag (cwt_prefix ++ enc_tagged (cose_tag k) (enc_array fs))%list = enc_array fs
  /\ remove_cbor_tag (enc_array fs) = enc_array fs.
Proof.
  intro H. rewrite (tagged_first_bytes k fs H), (untagged_first_byte k fs H). destruct k; repeat split; reflexivity.
Qed.

(* ---------------------------------------------------------------- re-encoding a decoded message *)
(* MarshalCBOR after UnmarshalCBOR writes the protected bytes, payload / ciphertext and signature / tag
   exactly as they were received: the authenticated byte strings are not re-derived from decoded values *)
Lemma reencode_simple_eq k data : (k = KSign1 \/ k = KMac0 \/ k = KEnc0) -> reencode k data =
  (do w <- unmarshal_wire k data; do _ <- decoded_view false w;
   match enc_headers_field (w_unprot w) with
   | None => Err
   | Some u => match w_auth w, marshal_simple k w with Some _, Some b => Ok b | _, _ => Err end
   end).
Proof. intros [-> | [-> | ->]]; reflexivity. Qed.

Lemma reencode_recips_eq k data : (k = KMac \/ k = KEnc) -> reencode k data =
  (do w <- unmarshal_wire k data; do _ <- decoded_view false w;
   match enc_headers_field (w_unprot w) with
   | None => Err
   | Some u =>
       do rs <- recips_decode (w_extra w);
       match w_auth w, enc_recips rs with
       | Some _, Some r =>
           Ok (enc_tagged (cose_tag k) (enc_array (match k with
                                                   | KMac => [enc_bytes (w_prot w); u; enc_bytes (w_payload w); enc_bytes (w_auth w); r]
                                                   | _ => [enc_bytes (w_prot w); u; enc_bytes (w_auth w); r]
                                                   end)))
       | _, _ => Err
       end
   end).
Proof. intros [-> | ->]; reflexivity. Qed.

Lemma reencode_sign_eq data : reencode KSign data =
  (do w <- unmarshal_wire KSign data; do _ <- decoded_view false w;
   match enc_headers_field (w_unprot w) with
   | None => Err
   | Some u =>
       do sigs <- sigs_decode (w_extra w);
       match sigs with
       | None => Err
       | Some l => match all_some (map sigent_marshal l) with
                   | Some ss => Ok (enc_tagged 98 (enc_array [enc_bytes (w_prot w); u; enc_bytes (w_payload w); enc_array ss]))
                   | None => Err
                   end
       end
   end).
Proof. reflexivity. Qed.

Theorem reencode_single_layer k data out : (k = KSign1 \/ k = KMac0) ->
  reencode k data = Ok out ->
  exists w u, unmarshal_wire k data = Ok w /\ enc_headers_field (w_unprot w) = Some u /\
    out = enc_tagged (cose_tag k) (enc_array [enc_bytes (w_prot w); u; enc_bytes (w_payload w); enc_bytes (w_auth w)]).
Proof.
  intros Hk H. rewrite reencode_simple_eq in H by tauto.
  destruct (unmarshal_wire k data) as [w| |] eqn:Ew; cbn [bind] in H; try discriminate.
  destruct (decoded_view false w) as [v| |]; cbn [bind] in H; try discriminate.
  destruct (enc_headers_field (w_unprot w)) as [u|] eqn:Eu; [|discriminate].
  destruct (w_auth w) as [a|] eqn:Ea; [|discriminate].
  unfold marshal_simple in H. rewrite Eu in H.
  exists w, u. repeat split; auto. destruct Hk as [-> | ->]; inversion H; now rewrite Ea.
Qed.

Theorem reencode_encrypt0 data out :
  reencode KEnc0 data = Ok out ->
  exists w u, unmarshal_wire KEnc0 data = Ok w /\ enc_headers_field (w_unprot w) = Some u /\
    out = enc_tagged 16 (enc_array [enc_bytes (w_prot w); u; enc_bytes (w_auth w)]).
Proof.
  intro H. rewrite reencode_simple_eq in H by tauto.
  destruct (unmarshal_wire KEnc0 data) as [w| |] eqn:Ew; cbn [bind] in H; try discriminate.
  destruct (decoded_view false w) as [v| |]; cbn [bind] in H; try discriminate.
  destruct (enc_headers_field (w_unprot w)) as [u|] eqn:Eu; [|discriminate].
  destruct (w_auth w) as [a|] eqn:Ea; [|discriminate].
  unfold marshal_simple in H. rewrite Eu in H. inversion H. exists w, u. rewrite Ea. repeat split; auto.
Qed.

Theorem reencode_mac data out :
  reencode KMac data = Ok out ->
  exists w u rs r, unmarshal_wire KMac data = Ok w /\ enc_headers_field (w_unprot w) = Some u /\
    recips_decode (w_extra w) = Ok rs /\ enc_recips rs = Some r /\
    out = enc_tagged 97 (enc_array [enc_bytes (w_prot w); u; enc_bytes (w_payload w); enc_bytes (w_auth w); r]).
Proof.
  intro H. rewrite reencode_recips_eq in H by tauto.
  destruct (unmarshal_wire KMac data) as [w| |] eqn:Ew; cbn [bind] in H; try discriminate.
  destruct (decoded_view false w) as [v| |]; cbn [bind] in H; try discriminate.
  destruct (enc_headers_field (w_unprot w)) as [u|] eqn:Eu; [|discriminate].
  destruct (recips_decode (w_extra w)) as [rs| |] eqn:Er; cbn [bind] in H; try discriminate.
  destruct (w_auth w) as [a|] eqn:Ea; [|discriminate]. destruct (enc_recips rs) as [r|] eqn:En; [|discriminate].
  inversion H. exists w, u, rs, r. rewrite Ea. repeat split; auto.
Qed.

Theorem reencode_encrypt data out :
  reencode KEnc data = Ok out ->
  exists w u rs r, unmarshal_wire KEnc data = Ok w /\ enc_headers_field (w_unprot w) = Some u /\
    recips_decode (w_extra w) = Ok rs /\ enc_recips rs = Some r /\
    out = enc_tagged 96 (enc_array [enc_bytes (w_prot w); u; enc_bytes (w_auth w); r]).
Proof.
  intro H. rewrite reencode_recips_eq in H by tauto.
  destruct (unmarshal_wire KEnc data) as [w| |] eqn:Ew; cbn [bind] in H; try discriminate.
  destruct (decoded_view false w) as [v| |]; cbn [bind] in H; try discriminate.
  destruct (enc_headers_field (w_unprot w)) as [u|] eqn:Eu; [|discriminate].
  destruct (recips_decode (w_extra w)) as [rs| |] eqn:Er; cbn [bind] in H; try discriminate.
  destruct (w_auth w) as [a|] eqn:Ea; [|discriminate]. destruct (enc_recips rs) as [r|] eqn:En; [|discriminate].
  inversion H. exists w, u, rs, r. rewrite Ea. repeat split; auto.
Qed.

(* COSE_Sign: each signer's protected bucket is re-emitted as the bytes received (se_raw), not re-encoded *)
Theorem reencode_sign data out :
  reencode KSign data = Ok out ->
  exists w u sigs ss, unmarshal_wire KSign data = Ok w /\ enc_headers_field (w_unprot w) = Some u /\
    sigs_decode (w_extra w) = Ok (Some sigs) /\ all_some (map sigent_marshal sigs) = Some ss /\
    out = enc_tagged 98 (enc_array [enc_bytes (w_prot w); u; enc_bytes (w_payload w); enc_array ss]).
Proof.
  intro H. rewrite reencode_sign_eq in H.
  destruct (unmarshal_wire KSign data) as [w| |] eqn:Ew; cbn [bind] in H; try discriminate.
  destruct (decoded_view false w) as [v| |]; cbn [bind] in H; try discriminate.
  destruct (enc_headers_field (w_unprot w)) as [u|] eqn:Eu; [|discriminate].
  destruct (sigs_decode (w_extra w)) as [[sigs|]| |] eqn:Es; cbn [bind] in H; try discriminate.
  destruct (all_some (map sigent_marshal sigs)) as [ss|] eqn:Ea; [|discriminate].
  inversion H. exists w, u, sigs, ss. repeat split; auto.
Qed.

Theorem signature_reencoded_verbatim s out : sigent_marshal s = Some out ->
  exists sg u, se_sig s = Some sg /\ enc_headers_field (se_unprot s) = Some u /\
    out = enc_array [enc_bytes (Some (se_raw s)); u; enc_bytes (Some sg)].
Proof.
  unfold sigent_marshal. destruct (se_sig s) as [sg|]; [|discriminate]. destruct (enc_headers_field (se_unprot s)) as [u|]; [|discriminate].
  intro H. inversion H. now exists sg, u.
Qed.

(* ---------------------------------------------------------------- decoding what the encoder wrote, member by member *)
Lemma dec_fuel_enough x : fits 0 false x = true -> (height x <= dec_fuel)%nat.
Proof. intro F. pose proof (height_bound x 0 false F) as H. cbn in H. unfold dec_fuel. lia. Qed.

Lemma split_items_encode its : forall rest,
  Forall (fun x => kd x = true /\ fits 0 false x = true) its ->
  split_items (length its) (flat_map encode its ++ rest) = Ok (map encode its).
Proof.
  induction its as [|x r IH]; intros rest H; cbn [length split_items flat_map map app]; [reflexivity|].
  inversion H as [|? ? [K F] Hr]; subst. rewrite <- app_assoc.
  rewrite (dec_encode x dec_fuel 0%nat false (flat_map encode r ++ rest) K F (dec_fuel_enough x F)).
  rewrite (IH rest Hr). f_equal. f_equal.
  rewrite app_length. replace (length (encode x) + length (flat_map encode r ++ rest) - length (flat_map encode r ++ rest))%nat with (length (encode x)) by lia.
  rewrite firstn_app, Nat.sub_diag, firstn_all. cbn. now rewrite app_nil_r.
Qed.

Lemma enc_array_items its : enc_array (map encode its) = encode (IArr its).
Proof. unfold enc_array. cbn [encode]. rewrite map_length. f_equal. now rewrite flat_map_concat_map. Qed.

Lemma struct_fields_encode its : encodable (IArr its) = true ->
  struct_fields (length its) (encode (IArr its)) = Ok (Some (map encode its)).
Proof.
  intro E. unfold struct_fields, bind. rewrite (decode_encode _ E). cbn [canon through_tags].
  rewrite map_length, Nat.eqb_refl.
  apply andb_true_iff in E. destruct E as [K F]. cbn [kd] in K. cbn [fits] in F.
  apply andb_true_iff in F. destruct F as [F Fl]. apply andb_true_iff in F. destruct F as [_ Fn]. apply N.leb_le in Fn. rewrite max_elems_val in Fn.
  assert (D : dhead (encode (IArr its)) = Ok (4%N, head_ai (N.of_nat (length its)), N.of_nat (length its), flat_map encode its)).
  { cbn [encode]. apply dhead_head; lia. }
  unfold array_elems_raw.
  assert (S0 : skip_tag_heads 70 (encode (IArr its)) = encode (IArr its)).
  { cbn [skip_tag_heads]. rewrite D. reflexivity. }
  rewrite S0, D. cbn [N.eqb Pos.eqb]. rewrite Nat2N.id.
  rewrite <- (app_nil_r (flat_map encode its)), split_items_encode; [reflexivity|].
  rewrite forallb_forall in K, Fl. rewrite Forall_forall. intros x Hx. split; [now apply K|]. apply fits_mono. now apply Fl.
Qed.

Lemma enc_bytes_ob b : enc_bytes b = encode (ob b).
Proof. destruct b; reflexivity. Qed.

Lemma fld_bytes_ob b : encodable (ob b) = true -> fld_bytes (encode (ob b)) = Ok b.
Proof.
  intro E. unfold fld_bytes, bind. rewrite (decode_encode _ E). destruct b; reflexivity.
Qed.

Lemma sub_encodable its x : encodable (IArr its) = true -> In x its -> encodable x = true.
Proof.
  intros E Hin. apply andb_true_iff in E. destruct E as [K F]. cbn [kd] in K. cbn [fits] in F.
  apply andb_true_iff in F. destruct F as [_ Fl]. rewrite forallb_forall in K, Fl.
  unfold encodable. rewrite (K x Hin). cbn [andb]. apply fits_mono. now apply Fl.
Qed.

(* a four-member message array decodes to its members (Sign1 and Mac0) *)
Theorem unmarshal_wire_4 k p itU pl a um : (k = KSign1 \/ k = KMac0) ->
  encodable (IArr [ob p; itU; ob pl; ob a]) = true -> fld_headers (encode itU) = Ok um ->
  unmarshal_wire k (enc_tagged (cose_tag k) (enc_array [enc_bytes p; encode itU; enc_bytes pl; enc_bytes a]))
  = Ok {| w_prot := p; w_unprot := Some um; w_payload := pl; w_auth := a; w_extra := None |}.
Proof.
  intros Hk E Hu. unfold unmarshal_wire.
  rewrite strip_tagged by (destruct Hk as [-> | ->]; reflexivity).
  rewrite !enc_bytes_ob.
  change [encode (ob p); encode itU; encode (ob pl); encode (ob a)] with (map encode [ob p; itU; ob pl; ob a]).
  rewrite enc_array_items.
  replace (arity k) with (length [ob p; itU; ob pl; ob a]) by (destruct Hk as [-> | ->]; reflexivity).
  rewrite (struct_fields_encode _ E). cbn [bind map].
  rewrite (fld_bytes_ob p) by (apply (sub_encodable _ _ E); cbn; tauto).
  rewrite (fld_bytes_ob pl) by (apply (sub_encodable _ _ E); cbn; tauto).
  rewrite (fld_bytes_ob a) by (apply (sub_encodable _ _ E); cbn; tauto).
  rewrite Hu. destruct Hk as [-> | ->]; reflexivity.
Qed.

Theorem unmarshal_wire_3 p itU a um :
  encodable (IArr [ob p; itU; ob a]) = true -> fld_headers (encode itU) = Ok um ->
  unmarshal_wire KEnc0 (enc_tagged 16 (enc_array [enc_bytes p; encode itU; enc_bytes a]))
  = Ok {| w_prot := p; w_unprot := Some um; w_payload := None; w_auth := a; w_extra := None |}.
Proof.
  intros E Hu. unfold unmarshal_wire.
  rewrite (strip_tagged KEnc0) by reflexivity.
  rewrite !enc_bytes_ob.
  change [encode (ob p); encode itU; encode (ob a)] with (map encode [ob p; itU; ob a]).
  rewrite enc_array_items.
  change (arity KEnc0) with (length [ob p; itU; ob a]).
  rewrite (struct_fields_encode _ E). cbn [bind map].
  rewrite (fld_bytes_ob p) by (apply (sub_encodable _ _ E); cbn; tauto).
  rewrite (fld_bytes_ob a) by (apply (sub_encodable _ _ E); cbn; tauto).
  rewrite Hu. reflexivity.
Qed.

(* ---------------------------------------------------------------- consumption depends on the encoding only through the decoded wire struct *)
Lemma sign1_consume_wire pany p d1 d2 ext : unmarshal_wire KSign1 d1 = unmarshal_wire KSign1 d2 -> sign1_consume pany p d1 ext = sign1_consume pany p d2 ext.
Proof. intro H. unfold sign1_consume. now rewrite H. Qed.
Lemma mac0_consume_wire pany p d1 d2 ext : unmarshal_wire KMac0 d1 = unmarshal_wire KMac0 d2 -> mac0_consume pany p d1 ext = mac0_consume pany p d2 ext.
Proof. intro H. unfold mac0_consume. now rewrite H. Qed.
Lemma mac_consume_wire pany p d1 d2 ext : unmarshal_wire KMac d1 = unmarshal_wire KMac d2 -> mac_consume pany p d1 ext = mac_consume pany p d2 ext.
Proof. intro H. unfold mac_consume. now rewrite H. Qed.
Lemma enc0_consume_wire pany p d1 d2 ext : unmarshal_wire KEnc0 d1 = unmarshal_wire KEnc0 d2 -> enc0_consume pany p d1 ext = enc0_consume pany p d2 ext.
Proof. intro H. unfold enc0_consume. now rewrite H. Qed.
Lemma enc_consume_wire pany p d1 d2 ext : unmarshal_wire KEnc d1 = unmarshal_wire KEnc d2 -> enc_consume pany p d1 ext = enc_consume pany p d2 ext.
Proof. intro H. unfold enc_consume. now rewrite H. Qed.
Lemma sign_consume_wire pany vs d1 d2 ext : unmarshal_wire KSign d1 = unmarshal_wire KSign d2 -> sign_consume pany vs d1 ext = sign_consume pany vs d2 ext.
Proof. intro H. unfold sign_consume. now rewrite H. Qed.

(* every kind: tagged, untagged and CWT-wrapped encodings are consumed alike *)
Theorem all_forms_alike k fs : shaped k fs ->
  let tagged := enc_tagged (cose_tag k) (enc_array fs) in
  unmarshal_wire k (enc_array fs) = unmarshal_wire k tagged /\ unmarshal_wire k (cwt_prefix ++ tagged)%list = unmarshal_wire k tagged.
Proof. intros H tagged. destruct (same_wire_in_all_forms k fs H) as [A B]. unfold tagged. split; [symmetry; exact A|]. now rewrite B, A. Qed.

(* ---------------------------------------------------------------- C01: what is produced is accepted back *)
Definition payload_view (pl : bytes) : option bytes := match pl with [] => None | _ => Some pl end.

Lemma payload_ok_bytes pl : payload_ok false (Some pl) = Ok (payload_view pl).
Proof. destruct pl; reflexivity. Qed.

(* a message in the form the library writes, whose members decode, is accepted by the counterpart primitive *)
Theorem sign1_accepts_wire_form p pb itU pl sig ext um pm :
  encodable (IArr [ob (Some pb); itU; ob (Some pl); ob (Some sig)]) = true ->
  fld_headers (encode itU) = Ok um -> headers_from_bytes (Some pb) = Ok pm -> consume_gate pm (sg_key p) = true ->
  sg_verify p (encode (Sig_structure Signature1 pb None (aad ext) pl)) sig = true ->
  sign1_consume false p (enc_tagged 18 (enc_array [enc_bytes (Some pb); encode itU; enc_bytes (Some pl); enc_bytes (Some sig)])) ext
  = Ok {| v_prot := pm; v_unprot := Some um; v_payload := payload_view pl |}.
Proof.
  intros E Hu Hp Hg Hv. unfold sign1_consume, decoded_view.
  pose proof (unmarshal_wire_4 KSign1 (Some pb) itU (Some pl) (Some sig) um (or_introl eq_refl) E Hu) as W. first [rewrite W | (cbn [cose_tag] in W; rewrite W)]. cbn [bind w_prot w_payload w_auth w_unprot].
  rewrite Hp. cbn [bind]. rewrite payload_ok_bytes. cbn [bind v_prot]. rewrite Hg. cbn [negb].
  rewrite sign1_structure_is_rfc. cbn [bind]. rewrite Hv. reflexivity.
Qed.

Theorem mac0_accepts_wire_form p pb itU pl tag ext um pm :
  encodable (IArr [ob (Some pb); itU; ob (Some pl); ob (Some tag)]) = true ->
  fld_headers (encode itU) = Ok um -> headers_from_bytes (Some pb) = Ok pm -> consume_gate pm (mc_key p) = true ->
  mc_verify p (encode (MAC_structure MAC0 pb (aad ext) pl)) tag = true ->
  mac0_consume false p (enc_tagged 17 (enc_array [enc_bytes (Some pb); encode itU; enc_bytes (Some pl); enc_bytes (Some tag)])) ext
  = Ok {| v_prot := pm; v_unprot := Some um; v_payload := payload_view pl |}.
Proof.
  intros E Hu Hp Hg Hv. unfold mac0_consume, decoded_view.
  pose proof (unmarshal_wire_4 KMac0 (Some pb) itU (Some pl) (Some tag) um (or_intror eq_refl) E Hu) as W. first [rewrite W | (cbn [cose_tag] in W; rewrite W)]. cbn [bind w_prot w_payload w_auth w_unprot].
  rewrite Hp. cbn [bind]. rewrite payload_ok_bytes. cbn [bind v_prot]. rewrite Hg. cbn [negb].
  rewrite mac0_structure_is_rfc. cbn [bind]. rewrite Hv. reflexivity.
Qed.

Theorem enc0_accepts_wire_form p pb itU ct ext um pm nonce pt :
  encodable (IArr [ob (Some pb); itU; ob (Some ct)]) = true ->
  fld_headers (encode itU) = Ok um -> headers_from_bytes (Some pb) = Ok pm -> consume_gate pm (en_key p) = true ->
  derive_nonce um (en_key p) (en_nonce p) = Ok nonce ->
  en_decrypt p nonce ct (encode (Enc_structure Encrypt0 pb (aad ext))) = Ok pt ->
  enc0_consume false p (enc_tagged 16 (enc_array [enc_bytes (Some pb); encode itU; enc_bytes (Some ct)])) ext
  = Ok {| v_prot := pm; v_unprot := Some um; v_payload := payload_view pt |}.
Proof.
  intros E Hu Hp Hg Hn Hd. unfold enc0_consume.
  rewrite (unmarshal_wire_3 (Some pb) itU (Some ct) um E Hu). cbn [bind w_prot w_payload w_auth w_unprot].
  rewrite Hp. cbn [bind]. rewrite Hg. cbn [negb].
  rewrite enc0_structure_is_rfc. cbn [bind omap]. rewrite Hn. cbn [bind]. rewrite Hd. cbn [bind]. rewrite payload_ok_bytes. reflexivity.
Qed.

(* composed with the producing side: produce, then consume with the counterpart primitive *)
Theorem sign1_roundtrip p prot unprot pl ext out pm um :
  sign1_produce p prot unprot (Some pl) ext = Ok out ->
  (forall tbs sig, sg_sign p tbs = Ok sig -> sg_verify p tbs sig = true) ->
  (forall prot' pb sig u, prepare_protected prot (sg_key p) = Ok prot' -> headers_bytes prot' = Some pb ->
      enc_cosemap (prepare_unprotected unprot (sg_key p)) = Some u ->
      sg_sign p (encode (Sig_structure Signature1 pb None (aad ext) pl)) = Ok sig ->
      exists itU, u = encode itU /\ encodable (IArr [ob (Some pb); itU; ob (Some pl); ob (Some sig)]) = true /\
                  fld_headers u = Ok um /\ headers_from_bytes (Some pb) = Ok pm /\ consume_gate pm (sg_key p) = true) ->
  sign1_consume false p out ext = Ok {| v_prot := pm; v_unprot := Some um; v_payload := payload_view pl |}.
Proof.
  intros Hp Hprim Hdec. destruct (sign1_produce_signs_wire _ _ _ _ _ _ Hp) as [prot' [pb [sig [u [E1 [E2 [E3 [E4 E5]]]]]]]].
  destruct (Hdec prot' pb sig u E1 E2 E4 E3) as [itU [Eu [En [Hu [Hh Hg]]]]]. subst u out.
  apply sign1_accepts_wire_form; auto.
Qed.

Theorem mac0_roundtrip p prot unprot pl ext out pm um :
  mac0_produce p prot unprot (Some pl) ext = Ok out ->
  (forall tbm tag, mc_create p tbm = Ok tag -> mc_verify p tbm tag = true) ->
  (forall prot' pb tag u, prepare_protected prot (mc_key p) = Ok prot' -> headers_bytes prot' = Some pb ->
      enc_cosemap (prepare_unprotected unprot (mc_key p)) = Some u ->
      mc_create p (encode (MAC_structure MAC0 pb (aad ext) pl)) = Ok tag ->
      exists itU, u = encode itU /\ encodable (IArr [ob (Some pb); itU; ob (Some pl); ob (Some tag)]) = true /\
                  fld_headers u = Ok um /\ headers_from_bytes (Some pb) = Ok pm /\ consume_gate pm (mc_key p) = true) ->
  mac0_consume false p out ext = Ok {| v_prot := pm; v_unprot := Some um; v_payload := payload_view pl |}.
Proof.
  intros Hp Hprim Hdec. destruct (mac0_produce_macs_wire _ _ _ _ _ _ Hp) as [prot' [pb [tag [u [E1 [E2 [E3 [E4 E5]]]]]]]].
  destruct (Hdec prot' pb tag u E1 E2 E4 E3) as [itU [Eu [En [Hu [Hh Hg]]]]]. subst u out.
  apply mac0_accepts_wire_form; auto.
Qed.

Theorem enc0_roundtrip p prot unprot payload ext draw out pm um :
  enc0_produce p prot unprot payload ext draw = Ok out ->
  (forall nonce pt ad ct, en_encrypt p nonce pt ad = Ok ct -> en_decrypt p nonce ct ad = Ok pt) ->
  (forall prot' pb nonce unprot' ct u, prepare_protected prot (en_key p) = Ok prot' -> headers_bytes prot' = Some pb ->
      choose_nonce (prepare_unprotected unprot (en_key p)) (en_key p) (en_nonce p) draw = Ok (nonce, unprot') ->
      enc_cosemap unprot' = Some u ->
      exists itU, u = encode itU /\ encodable (IArr [ob (Some pb); itU; ob (Some ct)]) = true /\
                  fld_headers u = Ok um /\ headers_from_bytes (Some pb) = Ok pm /\ consume_gate pm (en_key p) = true /\
                  derive_nonce um (en_key p) (en_nonce p) = Ok nonce) ->
  enc0_consume false p out ext = Ok {| v_prot := pm; v_unprot := Some um; v_payload := payload_view (match payload with Some b => b | None => [] end) |}.
Proof.
  intros Hp Hprim Hdec. destruct (enc0_produce_aad_is_wire _ _ _ _ _ _ _ Hp) as [prot' [pb [nonce [unprot' [ct [u [E1 [E2 [E3 [E4 [E5 E6]]]]]]]]]]].
  destruct (Hdec prot' pb nonce unprot' ct u E1 E2 E3 E5) as [itU [Eu [En [Hu [Hh [Hg Hn]]]]]]. subst u out.
  eapply enc0_accepts_wire_form; eauto.
Qed.

(* ---------------------------------------------------------------- C09: a re-encoded message still verifies, with the same authenticated content *)
Theorem sign1_reencoded_still_verifies pany p data ext v out :
  sign1_consume pany p data ext = Ok v -> reencode KSign1 data = Ok out ->
  (forall w u, unmarshal_wire KSign1 data = Ok w -> enc_headers_field (w_unprot w) = Some u ->
      exists itU um, u = encode itU /\ encodable (IArr [ob (w_prot w); itU; ob (w_payload w); ob (w_auth w)]) = true /\ fld_headers u = Ok um) ->
  exists v', sign1_consume pany p out ext = Ok v' /\ v_prot v' = v_prot v /\ v_payload v' = v_payload v.
Proof.
  intros Hc Hr Hdec. destruct (reencode_single_layer KSign1 data out (or_introl eq_refl) Hr) as [w [u [Ew [Eu Eo]]]].
  destruct (Hdec w u Ew Eu) as [itU [um [Hu [En Hf]]]]. subst u out.
  destruct (sign1_consume_sound _ _ _ _ _ Hc) as [w' [sig [tbs [Ew' [Ea [Hh [Hg [Et [Ev [Hun Hpl]]]]]]]]]].
  rewrite Ew in Ew'. inversion Ew'; subst w'.
  unfold sign1_consume, decoded_view.
  pose proof (unmarshal_wire_4 KSign1 (w_prot w) itU (w_payload w) (w_auth w) um (or_introl eq_refl) En Hf) as W. first [rewrite W | (cbn [cose_tag] in W; rewrite W)]. cbn [bind w_prot w_payload w_auth w_unprot].
  rewrite Hh. cbn [bind]. rewrite Hpl. cbn [bind v_prot]. rewrite Ea, Hg. cbn [negb]. rewrite Et. cbn [bind]. rewrite Ev.
  eexists. split; [reflexivity|]. split; reflexivity.
Qed.

Theorem mac0_reencoded_still_verifies pany p data ext v out :
  mac0_consume pany p data ext = Ok v -> reencode KMac0 data = Ok out ->
  (forall w u, unmarshal_wire KMac0 data = Ok w -> enc_headers_field (w_unprot w) = Some u ->
      exists itU um, u = encode itU /\ encodable (IArr [ob (w_prot w); itU; ob (w_payload w); ob (w_auth w)]) = true /\ fld_headers u = Ok um) ->
  exists v', mac0_consume pany p out ext = Ok v' /\ v_prot v' = v_prot v /\ v_payload v' = v_payload v.
Proof.
  intros Hc Hr Hdec. destruct (reencode_single_layer KMac0 data out (or_intror eq_refl) Hr) as [w [u [Ew [Eu Eo]]]].
  destruct (Hdec w u Ew Eu) as [itU [um [Hu [En Hf]]]]. subst u out.
  destruct (mac0_consume_sound _ _ _ _ _ Hc) as [w' [tag [tbm [Ew' [Ea [Hh [Hg [Et [Ev [Hun Hpl]]]]]]]]]].
  rewrite Ew in Ew'. inversion Ew'; subst w'.
  unfold mac0_consume, decoded_view.
  pose proof (unmarshal_wire_4 KMac0 (w_prot w) itU (w_payload w) (w_auth w) um (or_intror eq_refl) En Hf) as W. first [rewrite W | (cbn [cose_tag] in W; rewrite W)]. cbn [bind w_prot w_payload w_auth w_unprot].
  rewrite Hh. cbn [bind]. rewrite Hpl. cbn [bind v_prot]. rewrite Ea, Hg. cbn [negb]. rewrite Et. cbn [bind]. rewrite Ev.
  eexists. split; [reflexivity|]. split; reflexivity.
Qed.
