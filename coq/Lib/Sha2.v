(* SHA-256, SHA-384, SHA-512 (FIPS 180-4) in Gallina. The round constants and the initial hash values are
   COMPUTED from their definition (fractional parts of the cube / square roots of the first primes), not
   transcribed; the functions are validated against the FIPS vectors in Spec/Vectors.v. *)
From Coq Require Import String.
From Coq Require Import NArith ZArith List Lia Bool.
From Cose Require Import Lib.Base.
Import ListNotations.
Open Scope N_scope.

(* ---------- primes, integer roots ---------- *)
Definition is_prime (n : N) : bool :=
  (1 <? n) && forallb (fun d => negb (n mod d =? 0)) (map N.of_nat (seq 2 (N.to_nat (N.sqrt n) - 1))).
Definition primes80 : list N := Eval vm_compute in filter is_prime (map N.of_nat (seq 2 408)).

(* largest r with r^3 <= n, by bits *)
Fixpoint icbrt_aux (bits : nat) (n r : N) : N :=
  match bits with
  | O => r
  | S b => let c := r + 2 ^ N.of_nat b in
           icbrt_aux b n (if c * c * c <=? n then c else r)
  end.
Definition icbrt (bits : nat) (n : N) : N := icbrt_aux bits n 0.

(* first w bits of the fractional part of the square / cube root of p *)
Definition frac_sqrt (w : N) (p : N) : N := N.sqrt (p * 2 ^ (2 * w)) mod 2 ^ w.
Definition frac_cbrt (w : N) (p : N) : N := icbrt (N.to_nat w + 4) (p * 2 ^ (3 * w)) mod 2 ^ w.

Definition K256 : list N := Eval vm_compute in map (frac_cbrt 32) (firstn 64 primes80).
Definition K512 : list N := Eval vm_compute in map (frac_cbrt 64) primes80.
Definition H256 : list N := Eval vm_compute in map (frac_sqrt 32) (firstn 8 primes80).
Definition H512 : list N := Eval vm_compute in map (frac_sqrt 64) (firstn 8 primes80).
Definition H384 : list N := Eval vm_compute in map (frac_sqrt 64) (firstn 8 (skipn 8 primes80)).

(* ---------- generic SHA-2 over w-bit words ---------- *)
Record params := {
  wbits : N;                      (* 32 or 64 *)
  rounds : nat;                   (* 64 or 80 *)
  kconst : list N;
  S0 : N * N * N; S1 : N * N * N; (* big sigma rotations *)
  s0 : N * N * N; s1 : N * N * N  (* small sigma: rot, rot, shift *)
}.

Section G.
Variable P : params.
Let w := wbits P.
Let mask := 2 ^ w - 1.
Definition trunc (x : N) : N := N.land x mask.
Definition rotr (x n : N) : N := N.lor (N.shiftr x n) (trunc (N.shiftl x (w - n))).
Definition bsig (c : N * N * N) (x : N) : N :=
  let '(a, b, d) := c in N.lxor (N.lxor (rotr x a) (rotr x b)) (rotr x d).
Definition ssig (c : N * N * N) (x : N) : N :=
  let '(a, b, d) := c in N.lxor (N.lxor (rotr x a) (rotr x b)) (N.shiftr x d).
Definition ch (x y z : N) : N := N.lxor (N.land x y) (N.land (N.lxor x mask) z).
Definition maj (x y z : N) : N := N.lxor (N.lxor (N.land x y) (N.land x z)) (N.land y z).

(* message schedule: W_t for t >= 16 from the 16 most recent words; `recent` holds W_{t-1} first *)
Fixpoint schedule (n : nat) (recent : list N) (acc : list N) : list N :=
  match n with
  | O => rev acc
  | S n' =>
      let wt := trunc (ssig (s1 P) (nth 1 recent 0) + nth 6 recent 0 + ssig (s0 P) (nth 14 recent 0) + nth 15 recent 0) in
      schedule n' (wt :: firstn 15 recent) (wt :: acc)
  end.

Definition round (st : list N) (kw : N * N) : list N :=
  match st with
  | [a; b; c; d; e; f; g; h] =>
      let t1 := h + bsig (S1 P) e + ch e f g + fst kw + snd kw in
      let t2 := bsig (S0 P) a + maj a b c in
      [trunc (t1 + t2); a; b; c; trunc (d + t1); e; f; g]
  | _ => st
  end.

Definition compress (st : list N) (block_words : list N) : list N :=
  let ws := block_words ++ schedule (rounds P - 16) (rev block_words) [] in
  let st' := fold_left round (combine (kconst P) ws) st in
  map (fun p => trunc (fst p + snd p)) (combine st st').

Definition wbytes : nat := N.to_nat (w / 8).

Fixpoint words (n : nat) (bs : bytes) : list N :=
  match n with O => [] | S n' => of_be (firstn wbytes bs) :: words n' (skipn wbytes bs) end.

(* padding: 0x80, zeros, length in bits on 2 words *)
Definition pad (m : bytes) : bytes :=
  let bl := (16 * wbytes)%nat in
  let l := length m in
  let k := ((bl - ((l + 1 + 2 * wbytes) mod bl)) mod bl)%nat in
  (m ++ Byte.x80 :: zeros k ++ be (2 * wbytes) (8 * N.of_nat l))%list.

Fixpoint process (nblocks : nat) (st : list N) (bs : bytes) : list N :=
  match nblocks with
  | O => st
  | S n => process n (compress st (words 16 (firstn (16 * wbytes) bs))) (skipn (16 * wbytes) bs)
  end.

Definition digest (init : list N) (outwords : nat) (m : bytes) : bytes :=
  let p := pad m in
  let st := process (length p / (16 * wbytes)) init p in
  flat_map (be wbytes) (firstn outwords st).
End G.

Definition P256 : params := {| wbits := 32; rounds := 64; kconst := K256;
  S0 := (2, 13, 22); S1 := (6, 11, 25); s0 := (7, 18, 3); s1 := (17, 19, 10) |}.
Definition P512 : params := {| wbits := 64; rounds := 80; kconst := K512;
  S0 := (28, 34, 39); S1 := (14, 18, 41); s0 := (1, 8, 7); s1 := (19, 61, 6) |}.

Definition sha256 (m : bytes) : bytes := digest P256 H256 8 m.
Definition sha512 (m : bytes) : bytes := digest P512 H512 8 m.
Definition sha384 (m : bytes) : bytes := digest P512 H384 6 m.

(* ---------- output lengths, for every message ---------- *)
Lemma flat_be_length n (l : list N) : length (flat_map (be n) l) = (n * length l)%nat.
Proof. induction l as [|x l IH]; cbn; [lia|]. rewrite app_length, be_length, IH. lia. Qed.

Lemma round_length P st kw : length st = 8%nat -> length (round P st kw) = 8%nat.
Proof. intro H. do 9 (destruct st as [|? st]; try discriminate). reflexivity. Qed.

Lemma compress_length P st bw : length st = 8%nat -> length (compress P st bw) = 8%nat.
Proof.
  intro H. unfold compress. rewrite map_length, combine_length, H.
  assert (G : forall l s, length s = 8%nat -> length (fold_left (round P) l s) = 8%nat).
  { induction l as [|x l IH]; intros s Hs; cbn; [exact Hs|]. apply IH. now apply round_length. }
  rewrite G by exact H. reflexivity.
Qed.

Lemma process_length P n : forall st bs, length st = 8%nat -> length (process P n st bs) = 8%nat.
Proof. induction n as [|n IH]; intros st bs H; cbn; [exact H|]. apply IH. now apply compress_length. Qed.

Lemma sha256_length m : length (sha256 m) = 32%nat.
Proof.
  unfold sha256, digest. rewrite flat_be_length, firstn_length, process_length by reflexivity. reflexivity.
Qed.
Lemma sha512_length m : length (sha512 m) = 64%nat.
Proof.
  unfold sha512, digest. rewrite flat_be_length, firstn_length, process_length by reflexivity. reflexivity.
Qed.
Lemma sha384_length m : length (sha384 m) = 48%nat.
Proof.
  unfold sha384, digest. rewrite flat_be_length, firstn_length, process_length by reflexivity. reflexivity.
Qed.
