(* Correspondence plumbing: which harness cases does the model fail to predict. *)
From Coq Require Import List NArith.
Import ListNotations.

Fixpoint mismatch_from {A} (chk : A -> bool) (l : list A) (i : N) : list N :=
  match l with
  | [] => []
  | c :: r => if chk c then mismatch_from chk r (i + 1)%N else i :: mismatch_from chk r (i + 1)%N
  end.
Definition mismatch_idx {A} (chk : A -> bool) (l : list A) : list N := mismatch_from chk l 0%N.
