(* HKDF (RFC 5869) over an arbitrary PRF. *)
From Coq Require Import String.
From Coq Require Import NArith List Arith Lia.
From Cose Require Import Lib.Base.
Import ListNotations.

Section HK.
  Variable prf : bytes -> bytes -> bytes.     (* key, message *)
  Variable hlen : nat.
  Hypothesis prf_len : forall k m, length (prf k m) = hlen.

  (* HKDF-Extract(salt, IKM): an absent salt is HashLen zeros *)
  Definition extract (salt ikm : bytes) : bytes :=
    prf (match salt with [] => zeros hlen | _ => salt end) ikm.

  (* T(1) | T(2) | ... , T(i) = PRF(PRK, T(i-1) | info | i) *)
  Fixpoint expand_blocks (n : nat) (prk info prev : bytes) (i : N) : bytes :=
    match n with
    | O => []
    | S n' => let t := prf prk (prev ++ info ++ [b8 i]) in t ++ expand_blocks n' prk info t (i + 1)
    end.

  Definition okm_stream (prk info : bytes) : bytes := expand_blocks 255 prk info [] 1.

  (* HKDF-Expand(PRK, info, L): L <= 255 * HashLen *)
  Definition expand (prk info : bytes) (L : nat) : option bytes :=
    if 255 * hlen <? L then None else Some (firstn L (okm_stream prk info)).

  Definition hkdf (ikm salt info : bytes) (L : nat) : option bytes := expand (extract salt ikm) info L.

  Lemma expand_blocks_length n : forall prk info prev i, length (expand_blocks n prk info prev i) = n * hlen.
  Proof. induction n; intros; cbn [expand_blocks]; [reflexivity|]. rewrite app_length, prf_len, IHn. lia. Qed.

  Lemma expand_length prk info L o : expand prk info L = Some o -> length o = L.
  Proof.
    unfold expand. destruct (255 * hlen <? L) eqn:E; [discriminate|]. apply Nat.ltb_ge in E.
    intro H. inversion H. rewrite firstn_length. unfold okm_stream. rewrite expand_blocks_length. lia.
  Qed.

  (* output for a shorter length is a prefix of the output for a longer one *)
  Lemma expand_prefix prk info L1 L2 o1 o2 : L1 <= L2 ->
    expand prk info L1 = Some o1 -> expand prk info L2 = Some o2 -> o1 = firstn L1 o2.
  Proof.
    unfold expand. intros H. destruct (255 * hlen <? L1); [discriminate|]. destruct (255 * hlen <? L2); [discriminate|].
    intros H1 H2. inversion H1. inversion H2. rewrite firstn_firstn. now rewrite Nat.min_l by lia.
  Qed.

  Lemma expand_limit prk info L : expand prk info L = None <-> 255 * hlen < L.
  Proof. unfold expand. destruct (255 * hlen <? L) eqn:E; split; intro H; try discriminate; try reflexivity.
    - now apply Nat.ltb_lt. - apply Nat.ltb_ge in E. lia. Qed.
End HK.
