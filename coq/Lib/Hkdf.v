(* HKDF (RFC 5869) over an arbitrary PRF. *)
From Coq Require Import String.
From Coq Require Import NArith List Arith Lia.
From Cose Require Import Lib.Base.
Import ListNotations.

Section HK.
  Variable prf : bytes -> bytes -> bytes.     (* key, message *)
  Variable hlen : nat.
  Hypothesis prf_len : forall k m, length (prf k m) = hlen.

  (* HKDF-Extract(salt, IKM): an absent salt is HashLen zeros *)
  Definition extract (salt ikm : bytes) : bytes :=
    prf (match salt with [] => zeros hlen | _ => salt end) ikm.

  (* T(1) | T(2) | ... , T(i) = PRF(PRK, T(i-1) | info | i) *)
  Fixpoint expand_blocks (n : nat) (prk info prev : bytes) (i : N) : bytes :=
    match n with
    | O => []
    | S n' => let t := prf prk (prev ++ info ++ [b8 i]) in t ++ expand_blocks n' prk info t (i + 1)
    end.

  Definition okm_stream (prk info : bytes) : bytes := expand_blocks 255 prk info [] 1.

  (* HKDF-Expand(PRK, info, L): L <= 255 * HashLen. Executable form: only the blocks that are needed *)
  Definition nblocks (L : nat) : nat := if hlen =? 0 then 0 else Nat.min 255 ((L + hlen - 1) / hlen).
  Definition expand (prk info : bytes) (L : nat) : option bytes :=
    if 255 * hlen <? L then None else Some (firstn L (expand_blocks (nblocks L) prk info [] 1)).

  Definition hkdf (ikm salt info : bytes) (L : nat) : option bytes := expand (extract salt ikm) info L.

  Lemma expand_blocks_length n : forall prk info prev i, length (expand_blocks n prk info prev i) = n * hlen.
  Proof. induction n; intros; cbn [expand_blocks]; [reflexivity|]. rewrite app_length, prf_len, IHn. lia. Qed.

  (* fewer blocks give a prefix of more blocks *)
  Lemma expand_blocks_prefix n : forall m prk info prev i, n <= m ->
    expand_blocks n prk info prev i = firstn (n * hlen) (expand_blocks m prk info prev i).
  Proof.
    induction n as [|n IH]; intros m prk info prev i H; [reflexivity|].
    destruct m as [|m]; [lia|]. cbn [expand_blocks].
    rewrite firstn_app, prf_len. replace (S n * hlen - hlen) with (n * hlen) by lia.
    rewrite firstn_all2 by (rewrite prf_len; lia). f_equal. apply IH. lia.
  Qed.

  (* the specification form: the first L bytes of T(1) | ... | T(255) *)
  Theorem expand_spec prk info L :
    expand prk info L = if 255 * hlen <? L then None else Some (firstn L (okm_stream prk info)).
  Proof.
    unfold expand, okm_stream. destruct (255 * hlen <? L) eqn:E; [reflexivity|]. apply Nat.ltb_ge in E. f_equal.
    assert (Hn : nblocks L <= 255) by (unfold nblocks; destruct (hlen =? 0); lia).
    rewrite (expand_blocks_prefix (nblocks L) 255 prk info [] 1 Hn).
    rewrite firstn_firstn. f_equal.
    unfold nblocks. destruct (hlen =? 0) eqn:H0.
    - apply Nat.eqb_eq in H0. rewrite H0 in *. lia.
    - apply Nat.eqb_neq in H0. apply Nat.min_l.
      destruct (Nat.le_gt_cases 255 ((L + hlen - 1) / hlen)) as [G|G].
      + rewrite Nat.min_l by exact G. lia.
      + rewrite Nat.min_r by lia.
        pose proof (Nat.div_mod (L + hlen - 1) hlen H0) as D.
        pose proof (Nat.mod_upper_bound (L + hlen - 1) hlen H0) as U. nia.
  Qed.

  Lemma expand_length prk info L o : expand prk info L = Some o -> length o = L.
  Proof.
    rewrite expand_spec. destruct (255 * hlen <? L) eqn:E; [discriminate|]. apply Nat.ltb_ge in E.
    intro H. inversion H. rewrite firstn_length. unfold okm_stream. rewrite expand_blocks_length. lia.
  Qed.

  (* output for a shorter length is a prefix of the output for a longer one *)
  Lemma expand_prefix prk info L1 L2 o1 o2 : L1 <= L2 ->
    expand prk info L1 = Some o1 -> expand prk info L2 = Some o2 -> o1 = firstn L1 o2.
  Proof.
    rewrite !expand_spec. intros H. destruct (255 * hlen <? L1); [discriminate|]. destruct (255 * hlen <? L2); [discriminate|].
    intros H1 H2. inversion H1. inversion H2. rewrite firstn_firstn. now rewrite Nat.min_l by lia.
  Qed.

  Lemma expand_limit prk info L : expand prk info L = None <-> 255 * hlen < L.
  Proof. unfold expand. destruct (255 * hlen <? L) eqn:E; split; intro H; try discriminate; try reflexivity.
    - now apply Nat.ltb_lt. - apply Nat.ltb_ge in E. lia. Qed.
End HK.
