(* CBC-MAC (zero IV, zero padding to a block multiple) over an arbitrary 16-byte block function, and the shape
   theorem for the Go implementation: "pad, CBC-encrypt the whole buffer, keep the last block, truncate". *)
From Coq Require Import String.
From Coq Require Import NArith List Arith Lia.
From Cose Require Import Lib.Base.
Import ListNotations.

Definition xor16 (a b : bytes) : bytes := map (fun p => xor_byte (fst p) (snd p)) (combine a b).

Fixpoint blocks (n : nat) (l : bytes) : list bytes :=
  match n with O => [] | S n' => firstn 16 l :: blocks n' (skipn 16 l) end.

Definition pad_len (len : nat) : nat := let x := len mod 16 in if x =? 0 then 0 else 16 - x.
Definition zero_pad (m : bytes) : bytes := m ++ zeros (pad_len (length m)).
Definition zero16 : bytes := zeros 16.

Section CBC.
  Variable E : bytes -> bytes.
  Hypothesis E_len : forall b, length (E b) = 16.

  (* RFC 9053 section 3.2: CBC-MAC with a zero IV over the zero-padded message *)
  Definition cbc_fold (iv : bytes) (bs : list bytes) : bytes := fold_left (fun mac b => E (xor16 mac b)) bs iv.
  Definition cbc_mac (m : bytes) : bytes :=
    let p := zero_pad m in cbc_fold zero16 (blocks (length p / 16) p).

  (* cipher.NewCBCEncrypter(block, iv).CryptBlocks *)
  Fixpoint cbc_encrypt (iv : bytes) (bs : list bytes) : list bytes :=
    match bs with [] => [] | b :: t => let c := E (xor16 iv b) in c :: cbc_encrypt c t end.

  (* Go: sum := ciphertext[len(ciphertext)-16:] -- a negative start panics *)
  Definition last16 (ct : bytes) : res bytes :=
    if length ct <? 16 then Panic else Ok (skipn (length ct - 16) ct).

  (* aesMAC.create, statement by statement *)
  Definition go_create (tag_size : nat) (m : bytes) : res bytes :=
    let p := zero_pad m in
    let ct := concat (cbc_encrypt zero16 (blocks (length p / 16) p)) in
    match last16 ct with
    | Ok s => Ok (firstn tag_size (s ++ zeros tag_size))   (* tag := make(tagSize); copy(tag, sum) *)
    | Err => Err | Panic => Panic
    end.

  Lemma cbc_last iv bs d : last (cbc_encrypt iv bs) d = match bs with [] => d | _ => cbc_fold iv bs end.
  Proof.
    revert iv d. induction bs as [|b t IH]; intros iv d; [reflexivity|].
    cbn [cbc_encrypt]. unfold cbc_fold. cbn [fold_left]. destruct t as [|b' t']; [reflexivity|].
    change (last (E (xor16 iv b) :: cbc_encrypt (E (xor16 iv b)) (b' :: t')) d)
      with (last (cbc_encrypt (E (xor16 iv b)) (b' :: t')) d).
    rewrite IH. reflexivity.
  Qed.

  Lemma cbc_all16 iv bs : Forall (fun c => length c = 16) (cbc_encrypt iv bs).
  Proof. revert iv. induction bs; intros; cbn; constructor; auto. Qed.

  Lemma concat_len16 (cs : list bytes) : Forall (fun c => length c = 16) cs -> length (concat cs) = 16 * length cs.
  Proof. induction 1; cbn; rewrite ?app_length; lia. Qed.

  Lemma skipn_concat_last (cs : list bytes) d : Forall (fun c => length c = 16) cs -> cs <> [] ->
    skipn (length (concat cs) - 16) (concat cs) = last cs d.
  Proof.
    induction 1 as [|c cs Hc Hcs IH]; intros Hne; [exfalso; apply Hne; reflexivity|].
    destruct cs as [|c' cs'].
    - cbn. rewrite app_nil_r, Hc. reflexivity.
    - change (concat (c :: c' :: cs')) with (c ++ concat (c' :: cs')). rewrite app_length, Hc.
      pose proof (concat_len16 (c' :: cs') Hcs) as L. cbn [length] in L.
      replace (16 + length (concat (c' :: cs')) - 16) with (length c + (length (concat (c' :: cs')) - 16)) by lia.
      rewrite skipn_app, skipn_all2 by lia. cbn [app].
      replace (length c + (length (concat (c' :: cs')) - 16) - length c) with (length (concat (c' :: cs')) - 16) by lia.
      rewrite IH by discriminate. reflexivity.
  Qed.

  Lemma blocks_length n l : length (blocks n l) = n.
  Proof. revert l; induction n; intros; cbn; auto. Qed.
  Lemma cbc_length iv bs : length (cbc_encrypt iv bs) = length bs.
  Proof. revert iv; induction bs; intros; cbn; auto. Qed.

  Lemma pad_mult m : (length (zero_pad m)) mod 16 = 0.
  Proof.
    unfold zero_pad, pad_len, zeros. rewrite app_length, repeat_length.
    destruct (length m mod 16 =? 0) eqn:E0.
    - apply Nat.eqb_eq in E0. rewrite Nat.add_0_r. exact E0.
    - apply Nat.eqb_neq in E0. pose proof (Nat.mod_upper_bound (length m) 16 ltac:(lia)).
      pose proof (Nat.div_mod (length m) 16 ltac:(lia)) as D.
      replace (length m + (16 - length m mod 16)) with ((length m / 16 + 1) * 16) by lia.
      apply Nat.mod_mul. lia.
  Qed.

  Lemma cbc_fold_length bs : forall iv, length iv = 16 -> length (cbc_fold iv bs) = 16.
  Proof. unfold cbc_fold. induction bs; intros; cbn; auto. Qed.

  Lemma cbc_mac_length m : length (cbc_mac m) = 16.
  Proof. unfold cbc_mac. apply cbc_fold_length. unfold zero16, zeros. apply repeat_length. Qed.

  (* main shape theorem: any E, any non-empty message, any tag size up to the block size *)
  Theorem go_create_is_cbc_mac ts m : m <> [] -> ts <= 16 ->
    go_create ts m = Ok (firstn ts (cbc_mac m)).
  Proof.
    intros Hm Hts. unfold go_create, last16, cbc_mac.
    set (p := zero_pad m). set (n := length p / 16).
    assert (Hn : 1 <= n).
    { subst n p. unfold zero_pad. rewrite app_length. destruct m; [congruence|].
      pose proof (pad_mult (b :: m)) as P. unfold zero_pad in P. rewrite app_length in P.
      cbn [length] in *. apply Nat.div_exact in P; lia. }
    clearbody n. clearbody p.
    pose proof (cbc_all16 zero16 (blocks n p)) as A.
    pose proof (concat_len16 _ A) as L. rewrite cbc_length, blocks_length in L.
    replace (length (concat (cbc_encrypt zero16 (blocks n p))) <? 16) with false
      by (symmetry; apply Nat.ltb_ge; lia).
    assert (Hne : cbc_encrypt zero16 (blocks n p) <> []).
    { intro X. apply (f_equal (@length _)) in X. rewrite cbc_length, blocks_length in X. cbn in X. lia. }
    rewrite (skipn_concat_last _ zero16 A Hne), cbc_last.
    destruct (blocks n p) eqn:B; [apply (f_equal (@length _)) in B; rewrite blocks_length in B; cbn in B; lia|].
    f_equal. rewrite firstn_app.
    assert (L16 : length (cbc_fold zero16 (b :: l)) = 16) by (apply cbc_fold_length; unfold zero16, zeros; apply repeat_length).
    rewrite L16. replace (ts - 16) with 0 by lia. now rewrite firstn_O, app_nil_r.
  Qed.

  (* on the empty message the buffer is empty and the slice expression panics: the callers must refuse it *)
  Theorem go_create_empty_panics ts : go_create ts [] = Panic.
  Proof. reflexivity. Qed.

  Theorem go_create_len ts m : m <> [] -> ts <= 16 -> exists t, go_create ts m = Ok t /\ length t = ts.
  Proof.
    intros Hm Hts. rewrite go_create_is_cbc_mac by assumption. eexists; split; [reflexivity|].
    rewrite firstn_length, cbc_mac_length. lia.
  Qed.
End CBC.
