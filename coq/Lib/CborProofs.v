(* Round trip and strictness of the CBOR codec of Lib/Cbor.v: decoding what the encoder wrote returns the value
   (maps in the deterministic order), the encoder's output does not depend on the order of map entries,
   and the decoder refuses indefinite lengths, reserved heads and trailing bytes. *)
From Coq Require Import String.
From Coq Require Import NArith ZArith List Arith Lia Bool Permutation Sorted.
From Coq Require Import ZifyBool ZifyNat ZifyN.
From Cose Require Import Lib.Base Lib.BeLemmas Lib.Cbor.
Import ListNotations.
Open Scope N_scope.
Ltac Zify.zify_post_hook ::= Z.div_mod_to_equations.

(* ---------------------------------------------------------------- induction over items *)
Section ItemInd.
  Variable P : item -> Prop.
  Hypothesis Hu : forall n, P (IUint n).
  Hypothesis Hn : forall n, P (INint n).
  Hypothesis Hb : forall b, P (IBstr b).
  Hypothesis Hs : forall b, P (ITstr b).
  Hypothesis Ha : forall l, Forall P l -> P (IArr l).
  Hypothesis Hm : forall l, Forall (fun kv => P (fst kv) /\ P (snd kv)) l -> P (IMap l).
  Hypothesis Ht : forall t x, P x -> P (ITag t x).
  Hypothesis Hi : forall n, P (ISimple n).
  Hypothesis Hf : forall ai bits, P (IFloat ai bits).
  Fixpoint item_ind' (it : item) : P it :=
    match it with
    | IUint n => Hu n | INint n => Hn n | IBstr b => Hb b | ITstr b => Hs b
    | IArr l => Ha l ((fix go (l : list item) : Forall P l :=
                         match l with [] => Forall_nil _ | x :: r => Forall_cons _ (item_ind' x) (go r) end) l)
    | IMap l => Hm l ((fix go (l : list (item * item)) : Forall (fun kv => P (fst kv) /\ P (snd kv)) l :=
                         match l with
                         | [] => Forall_nil _
                         | (k, v) :: r => Forall_cons (k, v) (conj (item_ind' k) (item_ind' v)) (go r)
                         end) l)
    | ITag t x => Ht t x (item_ind' x)
    | ISimple n => Hi n
    | IFloat ai bits => Hf ai bits
    end.
End ItemInd.

(* ---------------------------------------------------------------- the value the decoder returns *)
Definition ekey (kv : item * item) : bytes := encode (fst kv).

Fixpoint canon (it : item) : item :=
  match it with
  | IArr l => IArr (map canon l)
  | IMap l => IMap (isort ekey (map (fun kv => (canon (fst kv), canon (snd kv))) l))
  | ITag t x => ITag t (canon x)
  | _ => it
  end.

(* what the decoder's limits admit, at a nesting depth *)
Definition simple_ok (n : N) : bool := (n <? 24) || ((32 <=? n) && (n <? 256)).
Definition float_ok (ai bits : N) : bool :=
  ((ai =? 25) && (bits <? 65536)) || ((ai =? 26) && (bits <? 4294967296)) || ((ai =? 27) && (bits <? 18446744073709551616)).

Fixpoint fits (depth : nat) (c : bool) (it : item) : bool :=
  match it with
  | IUint n | INint n => n <? 18446744073709551616
  | IBstr b | ITstr b => N.of_nat (length b) <=? int_max
  | IArr l => Nat.leb (S depth) max_nested && (N.of_nat (length l) <=? max_elems) && forallb (fits (S depth) false) l
  | IMap l => Nat.leb (S depth) max_nested && (N.of_nat (length l) <=? max_elems)
              && forallb (fun kv => fits (S depth) false (fst kv) && fits (S depth) false (snd kv)) l
  | ITag t x => (t <? 18446744073709551616)
                && let d' := if c then S depth else depth in Nat.leb d' max_nested && fits d' true x
  | ISimple n => simple_ok n
  | IFloat ai bits => float_ok ai bits
  end.

Fixpoint height (it : item) : nat :=
  match it with
  | IArr l => S (fold_right (fun x m => Nat.max (height x) m) O l)
  | IMap l => S (fold_right (fun kv m => Nat.max (Nat.max (height (fst kv)) (height (snd kv))) m) O l)
  | ITag _ x => S (height x)
  | _ => 1%nat
  end.

(* ---------------------------------------------------------------- heads *)
Lemma take_app (a r : bytes) : take (length a) (a ++ r) = Some (a, r).
Proof.
  unfold take. rewrite app_length.
  replace (Nat.leb (length a) (length a + length r)) with true by (symmetry; apply Nat.leb_le; lia).
  rewrite firstn_app, Nat.sub_diag, firstn_all, skipn_app, Nat.sub_diag, skipn_all. cbn. rewrite app_nil_r. reflexivity.
Qed.

Definition head_ai (n : N) : N :=
  if n <? 24 then n else if n <? 256 then 24 else if n <? 65536 then 25 else if n <? 4294967296 then 26 else 27.

Lemma first_byte mt x : mt < 8 -> x < 32 ->
  Byte.to_N (b8 (mt * 32 + x)) / 32 = mt /\ Byte.to_N (b8 (mt * 32 + x)) mod 32 = x.
Proof. intros Hm Hx. rewrite to_N_b8. split; lia. Qed.

Lemma of_be_be_small k n : n < 256 ^ N.of_nat k -> of_be (be k n) = n.
Proof. intro H. rewrite of_be_be. apply N.mod_small. exact H. Qed.

Lemma dhead_head mt n r : mt < 7 -> n < 18446744073709551616 ->
  dhead (head mt n ++ r) = Ok (mt, head_ai n, n, r).
Proof.
  intros Hm Hn. unfold head, head_ai.
  destruct (n <? 24) eqn:E1.
  { cbn [app dhead]. destruct (first_byte mt n) as [A B]; [lia|lia|]. rewrite A, B.
    replace (n <? 24) with true. reflexivity. }
  destruct (n <? 256) eqn:E2.
  { cbn [app dhead]. destruct (first_byte mt 24) as [A B]; [lia|lia|]. rewrite A, B. cbn [N.ltb N.compare N.eqb Pos.compare Pos.compare_cont Pos.eqb].
    pose proof (take_app (be 1 n) r) as T. rewrite be_length in T. rewrite T.
    rewrite of_be_be_small by (cbn; lia).
    replace (mt =? 7) with false by lia. reflexivity. }
  destruct (n <? 65536) eqn:E3.
  { cbn [app dhead]. destruct (first_byte mt 25) as [A B]; [lia|lia|]. rewrite A, B. cbn [N.ltb N.compare N.eqb Pos.compare Pos.compare_cont Pos.eqb].
    pose proof (take_app (be 2 n) r) as T. rewrite be_length in T. rewrite T.
    rewrite of_be_be_small by (cbn; lia).
    replace (mt =? 7) with false by lia. reflexivity. }
  destruct (n <? 4294967296) eqn:E4.
  { cbn [app dhead]. destruct (first_byte mt 26) as [A B]; [lia|lia|]. rewrite A, B. cbn [N.ltb N.compare N.eqb Pos.compare Pos.compare_cont Pos.eqb].
    pose proof (take_app (be 4 n) r) as T. rewrite be_length in T. rewrite T.
    rewrite of_be_be_small by (cbn; lia).
    replace (mt =? 7) with false by lia. reflexivity. }
  cbn [app dhead]. destruct (first_byte mt 27) as [A B]; [lia|lia|]. rewrite A, B. cbn [N.ltb N.compare N.eqb Pos.compare Pos.compare_cont Pos.eqb].
  pose proof (take_app (be 8 n) r) as T. rewrite be_length in T. rewrite T.
  rewrite of_be_be_small by (cbn; lia).
  replace (mt =? 7) with false by lia. reflexivity.
Qed.

(* ---------------------------------------------------------------- insertion sort *)
Section SortLemmas.
  Context {A B : Type}.
  Lemma insert_map (f : A -> B) (kb : B -> bytes) (x : A) (l : list A) :
    insert kb (f x) (map f l) = map f (insert (fun a => kb (f a)) x l).
  Proof. induction l as [|y t IH]; cbn; [reflexivity|]. destruct (blex (kb (f x)) (kb (f y))); cbn; [reflexivity|]. now rewrite IH. Qed.
  Lemma isort_map (f : A -> B) (kb : B -> bytes) (l : list A) :
    isort kb (map f l) = map f (isort (fun a => kb (f a)) l).
  Proof. induction l as [|x t IH]; cbn; [reflexivity|]. unfold isort in IH. rewrite IH. apply insert_map. Qed.
End SortLemmas.

Section SortLemmas2.
  Context {A : Type}.
  Lemma insert_In (k : A -> bytes) x y l : In y (insert k x l) <-> y = x \/ In y l.
  Proof.
    induction l as [|z t IH]; cbn; [intuition|]. destruct (blex (k x) (k z)); cbn; [intuition|]. rewrite IH. intuition.
  Qed.
  Lemma isort_In (k : A -> bytes) y l : In y (isort k l) <-> In y l.
  Proof. induction l as [|x t IH]; cbn; [tauto|]. rewrite insert_In. unfold isort in IH. rewrite IH. intuition. Qed.
  Lemma insert_length (k : A -> bytes) x l : length (insert k x l) = S (length l).
  Proof. induction l as [|z t IH]; cbn; [reflexivity|]. destruct (blex _ _); cbn; [reflexivity|]. now rewrite IH. Qed.
  Lemma isort_length (k : A -> bytes) l : length (isort k l) = length l.
  Proof. induction l as [|x t IH]; cbn; [reflexivity|]. rewrite insert_length. unfold isort in IH. now rewrite IH. Qed.
  Lemma insert_ext (k1 k2 : A -> bytes) x l : k1 x = k2 x -> (forall y, In y l -> k1 y = k2 y) -> insert k1 x l = insert k2 x l.
  Proof.
    intros Hx H. induction l as [|z t IH]; cbn; [reflexivity|].
    rewrite Hx, (H z) by (left; reflexivity). destruct (blex _ _); [reflexivity|]. rewrite IH; [reflexivity|]. intros; apply H; now right.
  Qed.
  Lemma isort_ext (k1 k2 : A -> bytes) l : (forall y, In y l -> k1 y = k2 y) -> isort k1 l = isort k2 l.
  Proof.
    induction l as [|x t IH]; intro H; cbn; [reflexivity|]. unfold isort in IH. rewrite IH by (intros; apply H; now right).
    apply insert_ext; [apply H; now left|]. intros y Hy. apply H. right. change (In y (isort k2 t)) in Hy. apply (proj1 (isort_In k2 y t)) in Hy. exact Hy.
  Qed.
  Lemma insert_perm (k : A -> bytes) x l : Permutation (x :: l) (insert k x l).
  Proof.
    induction l as [|z t IH]; cbn; [apply Permutation_refl|]. destruct (blex _ _); [apply Permutation_refl|].
    eapply Permutation_trans; [apply perm_swap|]. now apply perm_skip.
  Qed.
  Lemma isort_perm (k : A -> bytes) l : Permutation l (isort k l).
  Proof.
    induction l as [|x t IH]; cbn; [apply Permutation_refl|].
    eapply Permutation_trans; [|apply insert_perm]. now apply perm_skip.
  Qed.
End SortLemmas2.

(* ---------------------------------------------------------------- the bytewise order is a strict total order *)
Lemma blex_irrefl a : blex a a = false.
Proof. induction a as [|x a IH]; cbn; [reflexivity|]. rewrite N.ltb_irrefl. exact IH. Qed.

Lemma blex_trans a : forall b c, blex a b = true -> blex b c = true -> blex a c = true.
Proof.
  induction a as [|x a IH]; intros [|y b] [|z c]; cbn; try congruence.
  destruct (Byte.to_N x <? Byte.to_N y) eqn:E1.
  - intros _. destruct (Byte.to_N y <? Byte.to_N z) eqn:E2.
    + intros _. replace (Byte.to_N x <? Byte.to_N z) with true by lia. reflexivity.
    + destruct (Byte.to_N z <? Byte.to_N y) eqn:E3; [congruence|]. intros _.
      replace (Byte.to_N x <? Byte.to_N z) with true by lia. reflexivity.
  - destruct (Byte.to_N y <? Byte.to_N x) eqn:E2; [congruence|]. intro H1.
    destruct (Byte.to_N y <? Byte.to_N z) eqn:E3.
    + intros _. replace (Byte.to_N x <? Byte.to_N z) with true by lia. reflexivity.
    + destruct (Byte.to_N z <? Byte.to_N y) eqn:E4; [congruence|]. intro H2.
      replace (Byte.to_N x <? Byte.to_N z) with false by lia. replace (Byte.to_N z <? Byte.to_N x) with false by lia.
      exact (IH b c H1 H2).
Qed.

Lemma byte_to_N_inj x y : Byte.to_N x = Byte.to_N y -> x = y.
Proof. intro H. rewrite <- (b8_to_N x), <- (b8_to_N y). now rewrite H. Qed.

Lemma blex_total a : forall b, a <> b -> blex a b = true \/ blex b a = true.
Proof.
  induction a as [|x a IH]; intros [|y b] Hne; cbn; [congruence|now left|now right|].
  destruct (Byte.to_N x <? Byte.to_N y) eqn:E1; [now left|].
  destruct (Byte.to_N y <? Byte.to_N x) eqn:E2; [now right|].
  assert (x = y) by (apply byte_to_N_inj; lia). subst y.
  apply IH. congruence.
Qed.

Lemma blex_asym a b : blex a b = true -> blex b a = false.
Proof.
  intro H. destruct (blex b a) eqn:E; [|reflexivity].
  pose proof (blex_trans _ _ _ H E) as T. rewrite blex_irrefl in T. discriminate.
Qed.

(* ---------------------------------------------------------------- sorted lists with distinct keys *)
Fixpoint distinct (l : list bytes) : bool :=
  match l with [] => true | x :: r => negb (existsb (bytes_eqb x) r) && distinct r end.

Lemma distinct_NoDup l : distinct l = true <-> NoDup l.
Proof.
  induction l as [|x r IH]; cbn; [split; [constructor|reflexivity]|].
  rewrite andb_true_iff, negb_true_iff, IH. split.
  - intros [H1 H2]. constructor; [|exact H2]. intro Hin.
    assert (existsb (bytes_eqb x) r = true) by (apply existsb_exists; exists x; split; [exact Hin|apply bytes_eqb_refl]). congruence.
  - intro H. inversion H as [|? ? Hn Hd]; subst. split; [|exact Hd].
    destruct (existsb (bytes_eqb x) r) eqn:E; [|reflexivity]. apply existsb_exists in E. destruct E as [y [Hy Hxy]].
    apply bytes_eqb_eq in Hxy. subst y. contradiction.
Qed.

Section Sorted.
  Context {A : Type}.
  Variable k : A -> bytes.
  Definition lt (a b : A) : Prop := blex (k a) (k b) = true.
  Definition ssorted (l : list A) : Prop := StronglySorted lt l.

  Lemma insert_sorted x l : ssorted l -> ~ In (k x) (map k l) -> ssorted (insert k x l).
  Proof.
    induction l as [|y t IH]; intros Hs Hn; cbn.
    - constructor; constructor.
    - destruct (blex (k x) (k y)) eqn:E.
      + constructor; [exact Hs|]. constructor; [exact E|].
        inversion Hs as [|? ? _ Hall]; subst. rewrite Forall_forall in *. intros z Hz. unfold lt in *.
        eapply blex_trans; [exact E|apply Hall; exact Hz].
      + inversion Hs as [|? ? Hst Hall]; subst.
        assert (Hyx : lt y x).
        { unfold lt. destruct (blex_total (k x) (k y)) as [H|H]; [|congruence|exact H]. intro Heq. apply Hn. left. now symmetry. }
        constructor.
        * apply IH; [exact Hst|]. intro Hin. apply Hn. now right.
        * rewrite Forall_forall in *. intros z Hz. apply insert_In in Hz. destruct Hz as [->|Hz]; [exact Hyx|now apply Hall].
  Qed.

  Lemma isort_sorted l : NoDup (map k l) -> ssorted (isort k l).
  Proof.
    induction l as [|x t IH]; cbn; intro Hd; [constructor|].
    inversion Hd as [|? ? Hn Hd']; subst. apply insert_sorted; [now apply IH|].
    intro Hin. apply Hn. apply in_map_iff in Hin. destruct Hin as [y [Hy Hin]]. change (In y (isort k t)) in Hin.
    apply isort_In in Hin. rewrite <- Hy. now apply in_map.
  Qed.

  Lemma isort_id l : ssorted l -> isort k l = l.
  Proof.
    induction l as [|x t IH]; intro Hs; cbn; [reflexivity|].
    inversion Hs as [|? ? Hst Hall]; subst. unfold isort in IH. rewrite IH by exact Hst.
    destruct t as [|y t']; cbn; [reflexivity|].
    inversion Hall as [|? ? Hxy _]; subst. unfold lt in Hxy. now rewrite Hxy.
  Qed.

  Lemma sorted_unique l1 : forall l2, ssorted l1 -> ssorted l2 -> Permutation l1 l2 -> l1 = l2.
  Proof.
    induction l1 as [|x t IH]; intros l2 H1 H2 P.
    - apply Permutation_nil in P. now subst.
    - destruct l2 as [|y u]; [apply Permutation_sym, Permutation_nil in P; discriminate|].
      inversion H1 as [|? ? Hs1 Ha1]; inversion H2 as [|? ? Hs2 Ha2]; subst.
      rewrite Forall_forall in Ha1, Ha2.
      assert (x = y).
      { assert (Hx : In x (y :: u)) by (eapply Permutation_in; [exact P|now left]).
        assert (Hy : In y (x :: t)) by (eapply Permutation_in; [apply Permutation_sym; exact P|now left]).
        destruct Hx as [->|Hx]; [reflexivity|]. destruct Hy as [->|Hy]; [reflexivity|].
        pose proof (Ha1 y Hy) as A1. pose proof (Ha2 x Hx) as A2. unfold lt in *.
        apply blex_asym in A1. congruence. }
      subst y. f_equal. apply IH; [exact Hs1|exact Hs2|]. eapply Permutation_cons_inv. exact P.
  Qed.

  (* the sorted output does not depend on the order of the input *)
  Lemma isort_perm_eq l1 l2 : NoDup (map k l1) -> Permutation l1 l2 -> isort k l1 = isort k l2.
  Proof.
    intros Hd P. apply sorted_unique.
    - now apply isort_sorted.
    - apply isort_sorted. eapply Permutation_NoDup; [|exact Hd]. now apply Permutation_map.
    - eapply Permutation_trans; [apply Permutation_sym, isort_perm|]. eapply Permutation_trans; [exact P|apply isort_perm].
  Qed.
End Sorted.

(* ---------------------------------------------------------------- values whose maps have pairwise distinct (encoded) keys *)
Fixpoint kd (it : item) : bool :=
  match it with
  | IArr l => forallb kd l
  | IMap l => distinct (map ekey l) && forallb (fun kv => kd (fst kv) && kd (snd kv)) l
  | ITag _ x => kd x
  | _ => true
  end.

Definition enc2 (kv : item * item) : bytes * bytes := (encode (fst kv), encode (snd kv)).
Definition canon2 (kv : item * item) : item * item := (canon (fst kv), canon (snd kv)).

Lemma encode_map_unfold l :
  encode (IMap l) = head 5 (N.of_nat (length l)) ++ flat_map (fun kv => fst kv ++ snd kv) (map enc2 (isort ekey l)).
Proof.
  cbn [encode]. f_equal. f_equal. change (fun kv : item * item => (encode (fst kv), encode (snd kv))) with enc2.
  rewrite (isort_map enc2 fst). reflexivity.
Qed.

Lemma canon_map_unfold l : canon (IMap l) = IMap (isort ekey (map canon2 l)).
Proof. reflexivity. Qed.

Lemma encode_canon it : kd it = true -> encode (canon it) = encode it.
Proof.
  induction it as [n|n|b|b|l IH|l IH|t x IH|n|ai bits] using item_ind'; intro K; try reflexivity.
  - cbn [canon encode]. rewrite map_length. f_equal. cbn [kd] in K. rewrite forallb_forall in K.
    induction IH as [|x r Hx _ IHr]; cbn; [reflexivity|]. rewrite Hx by (apply K; now left). rewrite IHr; [reflexivity|]. intros y Hy. apply K. now right.
  - cbn [kd] in K. apply andb_true_iff in K. destruct K as [Kd Kf]. rewrite forallb_forall in Kf. rewrite Forall_forall in IH.
    assert (E : forall kv, In kv l -> enc2 (canon2 kv) = enc2 kv).
    { intros kv Hin. specialize (Kf kv Hin). apply andb_true_iff in Kf. destruct (IH kv Hin) as [A B]. unfold enc2, canon2. cbn [fst snd].
      rewrite A, B by tauto. reflexivity. }
    assert (Ek : forall kv, In kv l -> ekey (canon2 kv) = ekey kv).
    { intros kv Hin. pose proof (E kv Hin) as H. unfold enc2 in H. unfold ekey. now inversion H. }
    rewrite canon_map_unfold, !encode_map_unfold. rewrite isort_length, map_length. f_equal. f_equal.
    assert (X : isort ekey (map canon2 l) = map canon2 (isort ekey l)).
    { rewrite (isort_map canon2 ekey). f_equal. apply isort_ext. exact Ek. }
    rewrite isort_id.
    + rewrite X, map_map. apply map_ext_in. intros a Ha. apply E. apply isort_In in Ha. exact Ha.
    + apply isort_sorted. rewrite map_map. rewrite (map_ext_in _ ekey) by exact Ek. apply distinct_NoDup. exact Kd.
  - cbn [canon encode]. cbn [kd] in K. now rewrite IH.
Qed.

(* every item takes at least one byte *)
Lemma head_nonempty mt n : (1 <= length (head mt n))%nat.
Proof. unfold head. repeat match goal with |- context [if ?c then _ else _] => destruct c end; cbn; lia. Qed.
Lemma encode_nonempty it : (1 <= length (encode it))%nat.
Proof.
  destruct it; cbn [encode]; try (rewrite app_length; pose proof (head_nonempty 0 0); match goal with |- context [head ?a ?b] => pose proof (head_nonempty a b) end; lia).
  - apply head_nonempty.
  - apply head_nonempty.
  - destruct (n <? 24); cbn; lia.
  - cbn. lia.
Qed.
Lemma flat_encode_length l : (length l <= length (flat_map encode l))%nat.
Proof. induction l as [|x r IH]; cbn; [lia|]. rewrite app_length. pose proof (encode_nonempty x). lia. Qed.

(* ---------------------------------------------------------------- decode (encode v) *)
Lemma dec_seq_items (f : nat) (d : nat) (l : list item) : forall rest,
  Forall (fun x => forall rest, dec f d false (encode x ++ rest) = Ok (canon x, rest)) l ->
  dec_seq (dec f) (length l) d (flat_map encode l ++ rest) = Ok (map canon l, rest).
Proof.
  induction l as [|x r IH]; intros rest H; cbn [length dec_seq flat_map map app]; [reflexivity|].
  inversion H as [|? ? Hx Hr]; subst. rewrite <- app_assoc, Hx, IH by exact Hr. reflexivity.
Qed.

Lemma max_fold_le {A} (h : A -> nat) (l : list A) x : In x l -> (h x <= fold_right (fun y m => Nat.max (h y) m) O l)%nat.
Proof. induction l as [|y r IH]; cbn; [tauto|]. intros [->|Hin]; [lia|]. specialize (IH Hin). lia. Qed.

Lemma pairs_flat (l : list (item * item)) : pairs (flat_map (fun kv => [fst kv; snd kv]) l) = Some l.
Proof. induction l as [|[k v] r IH]; cbn; [reflexivity|]. now rewrite IH. Qed.

Lemma dec_unfold f d c bs :
  dec (S f) d c bs =
    match dhead bs with
    | Ok (mt, ai, n, r) =>
      if mt =? 0 then Ok (IUint n, r)
      else if mt =? 1 then Ok (INint n, r)
      else if (mt =? 2) || (mt =? 3) then
        if int_max <? n then Err
        else if N.of_nat (length r) <? n then Err
        else match take (N.to_nat n) r with
             | Some (b, r') => Ok (if mt =? 2 then IBstr b else ITstr b, r')
             | None => Err
             end
      else if (mt =? 4) || (mt =? 5) then
        let depth' := S d in
        if Nat.ltb max_nested depth' then Err
        else if int_max <? n then Err
        else if max_elems <? n then Err
        else if N.of_nat (length r) <? n then Err
        else if mt =? 4 then
          match dec_seq (dec f) (N.to_nat n) depth' r with
          | Ok (l, r') => Ok (IArr l, r')
          | Err => Err | Panic => Panic
          end
        else
          match dec_seq (dec f) (2 * N.to_nat n) depth' r with
          | Ok (l, r') => match pairs l with Some p => Ok (IMap p, r') | None => Err end
          | Err => Err | Panic => Panic
          end
      else if mt =? 6 then
        let depth' := if c then S d else d in
        if Nat.ltb max_nested depth' then Err
        else match dec f depth' true r with
             | Ok (x, r') => Ok (ITag n x, r')
             | Err => Err | Panic => Panic
             end
      else
        if ai <? 25 then Ok (ISimple n, r) else Ok (IFloat ai n, r)
    | Err => Err
    | Panic => Panic
    end.
Proof. reflexivity. Qed.

Lemma be_dhead7 ai k bits r : (ai = 25 /\ k = 2%nat \/ ai = 26 /\ k = 4%nat \/ ai = 27 /\ k = 8%nat) -> bits < 256 ^ N.of_nat k ->
  dhead (b8 (224 + ai) :: be k bits ++ r) = Ok (7, ai, bits, r).
Proof.
  intros H Hb. cbn [dhead].
  pose proof (take_app (be k bits) r) as T. rewrite be_length in T.
  assert (AB : Byte.to_N (b8 (224 + ai)) / 32 = 7 /\ Byte.to_N (b8 (224 + ai)) mod 32 = ai).
  { clear Hb T. destruct H as [[-> _]|[[-> _]|[-> _]]]; vm_compute; split; reflexivity. }
  destruct AB as [A B]. rewrite A, B.
  destruct H as [[-> ->]|[[-> ->]|[-> ->]]]; cbn [N.ltb N.compare N.eqb Pos.compare Pos.compare_cont Pos.eqb andb];
    rewrite T, of_be_be_small by exact Hb; reflexivity.
Qed.

Definition decP (it : item) : Prop := forall fuel depth c rest,
  kd it = true -> fits depth c it = true -> (height it <= fuel)%nat ->
  dec fuel depth c (encode it ++ rest) = Ok (canon it, rest).

Lemma int_max_val : int_max = 9223372036854775807. Proof. reflexivity. Qed.
Lemma max_elems_val : max_elems = 131072. Proof. reflexivity. Qed.
Lemma max_nested_val : max_nested = 32%nat. Proof. reflexivity. Qed.

Lemma dec_case_uint : forall n, decP (IUint n).
Proof.
  intros n fuel depth c rest K F Hh. destruct fuel as [|f]; [cbn [height] in Hh; lia|].
  cbn [fits] in F. apply N.ltb_lt in F.
  rewrite dec_unfold. cbn [encode]. rewrite dhead_head by lia. reflexivity.
Qed.
Lemma dec_case_nint : forall n, decP (INint n).
Proof.
  intros n fuel depth c rest K F Hh. destruct fuel as [|f]; [cbn [height] in Hh; lia|].
  cbn [fits] in F. apply N.ltb_lt in F.
  rewrite dec_unfold. cbn [encode]. rewrite dhead_head by lia. reflexivity.
Qed.

Lemma dec_str mt (b rest : bytes) f d c : (mt = 2 \/ mt = 3) -> N.of_nat (length b) <= int_max ->
  dec (S f) d c ((head mt (N.of_nat (length b)) ++ b) ++ rest) = Ok (if mt =? 2 then IBstr b else ITstr b, rest).
Proof.
  intros Hm Hl. rewrite int_max_val in Hl.
  assert (D : dhead ((head mt (N.of_nat (length b)) ++ b) ++ rest) = Ok (mt, head_ai (N.of_nat (length b)), N.of_nat (length b), b ++ rest)).
  { rewrite <- app_assoc. apply dhead_head; lia. }
  rewrite dec_unfold, D.
  replace (mt =? 0) with false by lia. replace (mt =? 1) with false by lia.
  replace ((mt =? 2) || (mt =? 3)) with true by lia. rewrite int_max_val.
  replace (9223372036854775807 <? N.of_nat (length b)) with false by lia.
  rewrite app_length. replace (N.of_nat (length b + length rest) <? N.of_nat (length b)) with false by lia.
  rewrite Nat2N.id, take_app. reflexivity.
Qed.

Lemma dec_case_bstr : forall b, decP (IBstr b).
Proof.
  intros b fuel depth c rest K F Hh. destruct fuel as [|f]; [cbn [height] in Hh; lia|].
  cbn [fits] in F. apply N.leb_le in F. cbn [encode]. rewrite dec_str; [reflexivity|now left|exact F].
Qed.
Lemma dec_case_tstr : forall b, decP (ITstr b).
Proof.
  intros b fuel depth c rest K F Hh. destruct fuel as [|f]; [cbn [height] in Hh; lia|].
  cbn [fits] in F. apply N.leb_le in F. cbn [encode]. rewrite dec_str; [reflexivity|now right|exact F].
Qed.

Lemma dec_container mt (content rest : bytes) n f d c :
  (mt = 4 \/ mt = 5) -> n <= max_elems -> (S d <= max_nested)%nat -> n <= N.of_nat (length content) ->
  dec (S f) d c ((head mt n ++ content) ++ rest) =
    if mt =? 4 then
      match dec_seq (dec f) (N.to_nat n) (S d) (content ++ rest) with
      | Ok (l, r') => Ok (IArr l, r')
      | Err => Err | Panic => Panic
      end
    else
      match dec_seq (dec f) (2 * N.to_nat n) (S d) (content ++ rest) with
      | Ok (l, r') => match pairs l with Some p => Ok (IMap p, r') | None => Err end
      | Err => Err | Panic => Panic
      end.
Proof.
  intros Hm Hn Hd Hc. rewrite max_elems_val in Hn. rewrite max_nested_val in Hd.
  assert (D : dhead ((head mt n ++ content) ++ rest) = Ok (mt, head_ai n, n, content ++ rest)).
  { rewrite <- app_assoc. apply dhead_head; lia. }
  rewrite dec_unfold, D.
  replace (mt =? 0) with false by lia. replace (mt =? 1) with false by lia.
  replace ((mt =? 2) || (mt =? 3)) with false by lia. replace ((mt =? 4) || (mt =? 5)) with true by lia.
  cbv zeta. rewrite max_nested_val, int_max_val, max_elems_val.
  replace (Nat.ltb 32 (S d)) with false by lia.
  replace (9223372036854775807 <? n) with false by lia.
  replace (131072 <? n) with false by lia.
  rewrite app_length. replace (N.of_nat (length content + length rest) <? n) with false by lia.
  reflexivity.
Qed.

Lemma dec_case_arr : forall l, Forall decP l -> decP (IArr l).
Proof.
  intros l IH fuel depth c rest K F Hh. destruct fuel as [|f]; [cbn [height] in Hh; lia|].
  cbn [fits] in F. apply andb_true_iff in F. destruct F as [F Fl]. apply andb_true_iff in F. destruct F as [Fd Fn].
  apply Nat.leb_le in Fd. apply N.leb_le in Fn. cbn [kd] in K. rewrite forallb_forall in K, Fl.
  cbn [encode canon]. rewrite dec_container; [|now left|exact Fn|exact Fd|pose proof (flat_encode_length l); lia].
  cbn [N.eqb Pos.eqb]. rewrite Nat2N.id, dec_seq_items; [reflexivity|].
  rewrite Forall_forall in *. intros y Hy rest'.
  apply IH; [exact Hy|now apply K|now apply Fl|].
  pose proof (max_fold_le height l y Hy). cbn [height] in Hh. lia.
Qed.

Lemma dec_case_map : forall l, Forall (fun kv => decP (fst kv) /\ decP (snd kv)) l -> decP (IMap l).
Proof.
  intros l IH fuel depth c rest K F Hh. destruct fuel as [|f]; [cbn [height] in Hh; lia|].
  cbn [kd] in K. apply andb_true_iff in K. destruct K as [Kd Kf].
  cbn [fits] in F. apply andb_true_iff in F. destruct F as [F Fl]. apply andb_true_iff in F. destruct F as [Fd Fn].
  apply Nat.leb_le in Fd. apply N.leb_le in Fn.
  rewrite forallb_forall in Kf, Fl. rewrite Forall_forall in IH.
  rewrite encode_map_unfold, canon_map_unfold.
  set (L := isort ekey l).
  assert (HL : forall kv, In kv L -> In kv l) by (intros kv H; unfold L in H; apply (proj1 (isort_In ekey kv l)) in H; exact H).
  assert (W : flat_map (fun kv => fst kv ++ snd kv) (map enc2 L) = flat_map encode (flat_map (fun kv => [fst kv; snd kv]) L)).
  { clear. induction L as [|[k v] r IHr]; cbn; [reflexivity|]. rewrite IHr, <- app_assoc. reflexivity. }
  rewrite W.
  assert (Len : length (flat_map (fun kv : item * item => [fst kv; snd kv]) L) = (2 * length l)%nat).
  { replace (length l) with (length L) by apply isort_length. clear. induction L as [|a r IHr]; cbn; [reflexivity|]. rewrite IHr. lia. }
  pose proof (flat_encode_length (flat_map (fun kv : item * item => [fst kv; snd kv]) L)) as FL. rewrite Len in FL.
  rewrite dec_container; [|now right|exact Fn|exact Fd|lia].
  replace (5 =? 4) with false by reflexivity.
  rewrite Nat2N.id, <- Len, dec_seq_items.
  - assert (C : map canon (flat_map (fun kv : item * item => [fst kv; snd kv]) L) = flat_map (fun kv => [fst kv; snd kv]) (map canon2 L)).
    { clear. induction L as [|[k v] r IHr]; cbn; [reflexivity|]. now rewrite IHr. }
    rewrite C, pairs_flat.
    assert (X : isort ekey (map canon2 l) = map canon2 L).
    { rewrite (isort_map canon2 ekey). f_equal. apply isort_ext. intros kv Hin. unfold ekey, canon2. cbn [fst].
      specialize (Kf kv Hin). apply andb_true_iff in Kf. apply encode_canon. tauto. }
    rewrite X. reflexivity.
  - rewrite Forall_forall. intros y Hy rest'. apply in_flat_map in Hy. destruct Hy as [kv [Hkv Hy]].
    specialize (HL kv Hkv). specialize (Kf kv HL). specialize (Fl kv HL). apply andb_true_iff in Kf, Fl.
    destruct (IH kv HL) as [IHk IHv].
    pose proof (max_fold_le (fun kv => Nat.max (height (fst kv)) (height (snd kv))) l kv HL) as M. cbn [height] in Hh. cbn beta in M.
    destruct Hy as [<-|[<-|[]]]; [apply IHk|apply IHv]; try tauto; lia.
Qed.

Lemma dec_case_tag : forall t x, decP x -> decP (ITag t x).
Proof.
  intros t x IH fuel depth c rest K F Hh. destruct fuel as [|f]; [cbn [height] in Hh; lia|].
  cbn [fits] in F. apply andb_true_iff in F. destruct F as [Ft F]. apply andb_true_iff in F. destruct F as [Fd Fx].
  apply N.ltb_lt in Ft. apply Nat.leb_le in Fd. rewrite max_nested_val in Fd. cbn [kd] in K. cbn [height] in Hh.
  cbn [encode canon].
  assert (D : dhead ((head 6 t ++ encode x) ++ rest) = Ok (6, head_ai t, t, encode x ++ rest)).
  { rewrite <- app_assoc. apply dhead_head; lia. }
  rewrite dec_unfold, D. cbn [N.eqb Pos.eqb orb]. cbv zeta. rewrite max_nested_val.
  match goal with |- context [Nat.ltb 32 ?d] => replace (Nat.ltb 32 d) with false by lia end.
  rewrite IH; [reflexivity|exact K|exact Fx|lia].
Qed.

Lemma dec_case_simple : forall n, decP (ISimple n).
Proof.
  intros n fuel depth c rest K F Hh. destruct fuel as [|f]; [cbn [height] in Hh; lia|].
  cbn [fits] in F. unfold simple_ok in F. rewrite dec_unfold. cbn [encode canon].
  destruct (n <? 24) eqn:E.
  - assert (D : dhead ([b8 (224 + n)] ++ rest) = Ok (7, n, n, rest)).
    { cbn [app dhead]. destruct (first_byte 7 n) as [A B]; [lia|lia|]. change (224 + n) with (7 * 32 + n). rewrite A, B, E. reflexivity. }
    rewrite D. cbn [N.eqb Pos.eqb orb]. replace (n <? 25) with true by lia. reflexivity.
  - assert (D : dhead ([Byte.xf8; b8 n] ++ rest) = Ok (7, 24, n, rest)).
    { assert (V : of_be [b8 n] = n). { change (of_be [b8 n]) with (0 * 256 + Byte.to_N (b8 n)). rewrite to_N_b8. lia. }
      cbn [app dhead]. change (Byte.to_N Byte.xf8) with 248. change (248 / 32) with 7. change (248 mod 32) with 24.
      change (24 <? 24) with false. cbv iota. change (24 =? 24) with true. cbv iota.
      change (take 1 (b8 n :: rest)) with (Some ([b8 n], rest)). cbv iota beta zeta. rewrite V.
      replace (n <? 32) with false by lia. reflexivity. }
    rewrite D. reflexivity.
Qed.

Lemma dec_case_float : forall ai bits, decP (IFloat ai bits).
Proof.
  intros ai bits fuel depth c rest K F Hh. destruct fuel as [|f]; [cbn [height] in Hh; lia|].
  cbn [fits] in F. unfold float_ok in F. rewrite dec_unfold. cbn [encode canon app].
  assert (H : ai = 25 /\ float_len ai = 2%nat /\ bits < 65536 \/ ai = 26 /\ float_len ai = 4%nat /\ bits < 4294967296 \/ ai = 27 /\ float_len ai = 8%nat /\ bits < 18446744073709551616).
  { unfold float_len. destruct (ai =? 25) eqn:E1; [left|destruct (ai =? 26) eqn:E2; [right; left|right; right]]; repeat split; lia. }
  clear F.
  rewrite (be_dhead7 ai (float_len ai) bits rest).
  - cbn [N.eqb Pos.eqb orb]. replace (ai <? 25) with false by lia. reflexivity.
  - destruct H as [[? [? ?]]|[[? [? ?]]|[? [? ?]]]]; [left|right; left|right; right]; tauto.
  - destruct H as [[? [-> ?]]|[[? [-> ?]]|[? [-> ?]]]]; [change (256 ^ N.of_nat 2) with 65536|change (256 ^ N.of_nat 4) with 4294967296|change (256 ^ N.of_nat 8) with 18446744073709551616]; assumption.
Qed.

Theorem dec_encode it : forall fuel depth c rest,
  kd it = true -> fits depth c it = true -> (height it <= fuel)%nat ->
  dec fuel depth c (encode it ++ rest) = Ok (canon it, rest).
Proof.
  change (decP it). induction it using item_ind'.
  - apply dec_case_uint. - apply dec_case_nint. - apply dec_case_bstr. - apply dec_case_tstr.
  - now apply dec_case_arr. - now apply dec_case_map. - now apply dec_case_tag.
  - apply dec_case_simple. - apply dec_case_float.
Qed.

(* ---------------------------------------------------------------- the fuel of `decode` is enough for everything the limits admit *)
Lemma height_bound it : forall d c, fits d c it = true -> (height it <= 2 * (32 - d) + (if c then 1 else 2))%nat.
Proof.
  induction it as [n|n|b|b|l IH|l IH|t x IH|n|ai bits] using item_ind'; intros d c F; cbn [height]; try (destruct c; lia).
  - cbn [fits] in F. apply andb_true_iff in F. destruct F as [F Fl]. apply andb_true_iff in F. destruct F as [Fd _].
    apply Nat.leb_le in Fd. rewrite max_nested_val in Fd. rewrite forallb_forall in Fl. rewrite Forall_forall in IH.
    assert (M : (fold_right (fun x m => Nat.max (height x) m) O l <= 2 * (32 - S d) + 2)%nat).
    { clear Fd. induction l as [|y r IHr]; cbn [fold_right]; [lia|].
      pose proof (IH y (or_introl eq_refl) (S d) false (Fl y (or_introl eq_refl))) as Hy. cbn beta iota in Hy.
      assert (R : (fold_right (fun x m => Nat.max (height x) m) O r <= 2 * (32 - S d) + 2)%nat).
      { apply IHr; [intros x Hx; apply IH; now right|intros x Hx; apply Fl; now right]. }
      lia. }
    destruct c; lia.
  - cbn [fits] in F. apply andb_true_iff in F. destruct F as [F Fl]. apply andb_true_iff in F. destruct F as [Fd _].
    apply Nat.leb_le in Fd. rewrite max_nested_val in Fd. rewrite forallb_forall in Fl. rewrite Forall_forall in IH.
    assert (M : (fold_right (fun kv m => Nat.max (Nat.max (height (fst kv)) (height (snd kv))) m) O l <= 2 * (32 - S d) + 2)%nat).
    { clear Fd. induction l as [|y r IHr]; cbn [fold_right]; [lia|].
      pose proof (Fl y (or_introl eq_refl)) as Fy. apply andb_true_iff in Fy. destruct Fy as [F1 F2].
      destruct (IH y (or_introl eq_refl)) as [I1 I2].
      pose proof (I1 (S d) false F1) as H1. pose proof (I2 (S d) false F2) as H2. cbn beta iota in H1, H2.
      assert (R : (fold_right (fun kv m => Nat.max (Nat.max (height (fst kv)) (height (snd kv))) m) O r <= 2 * (32 - S d) + 2)%nat).
      { apply IHr; [intros x Hx; apply IH; now right|intros x Hx; apply Fl; now right]. }
      lia. }
    destruct c; lia.
  - cbn [fits] in F. apply andb_true_iff in F. destruct F as [_ F]. apply andb_true_iff in F. destruct F as [Fd Fx].
    apply Nat.leb_le in Fd. rewrite max_nested_val in Fd. specialize (IH _ _ Fx). destruct c; cbn beta iota in IH; lia.
Qed.

(* values the encoder accepts and the decoder's limits admit *)
Definition encodable (it : item) : bool := kd it && fits 0 false it.

Theorem decode_encode it : encodable it = true -> decode (encode it) = Ok (canon it).
Proof.
  intro E. apply andb_true_iff in E. destruct E as [K F]. unfold decode.
  rewrite <- (app_nil_r (encode it)), dec_encode; [reflexivity|exact K|exact F|].
  pose proof (height_bound it 0 false F) as H. cbn in H. unfold dec_fuel. lia.
Qed.

(* anything after a complete item is refused *)
Theorem decode_trailing it x r : encodable it = true -> decode (encode it ++ x :: r) = Err.
Proof.
  intro E. apply andb_true_iff in E. destruct E as [K F]. unfold decode.
  rewrite dec_encode; [reflexivity|exact K|exact F|].
  pose proof (height_bound it 0 false F) as H. cbn in H. unfold dec_fuel. lia.
Qed.

(* indefinite lengths (additional information 31) and the reserved values 28..30 are refused wherever a head is read *)
Theorem dhead_refuses b r : 28 <= Byte.to_N b mod 32 -> dhead (b :: r) = Err.
Proof.
  intro H. cbn [dhead]. pose proof (N.mod_lt (Byte.to_N b) 32).
  replace (Byte.to_N b mod 32 <? 24) with false by lia.
  replace (Byte.to_N b mod 32 =? 24) with false by lia. replace (Byte.to_N b mod 32 =? 25) with false by lia.
  replace (Byte.to_N b mod 32 =? 26) with false by lia. replace (Byte.to_N b mod 32 =? 27) with false by lia. reflexivity.
Qed.
Theorem dec_refuses_indefinite fuel d c b r : 28 <= Byte.to_N b mod 32 -> dec fuel d c (b :: r) = Err.
Proof. intro H. destruct fuel as [|f]; [reflexivity|]. rewrite dec_unfold, dhead_refuses by exact H. reflexivity. Qed.

(* ---------------------------------------------------------------- determinism *)
(* the bytes do not depend on the order in which the entries of a map are presented *)
Theorem encode_perm l1 l2 : distinct (map ekey l1) = true -> Permutation l1 l2 -> encode (IMap l1) = encode (IMap l2).
Proof.
  intros Hd P. rewrite !encode_map_unfold. rewrite (Permutation_length P).
  rewrite (isort_perm_eq ekey l1 l2); [reflexivity| |exact P]. apply distinct_NoDup. exact Hd.
Qed.

(* the entries are written in strictly ascending bytewise order of their encoded keys: sorted, no duplicates *)
Theorem encode_map_sorted l : distinct (map ekey l) = true -> ssorted fst (map enc2 (isort ekey l)).
Proof.
  intro Hd. apply distinct_NoDup in Hd. pose proof (isort_sorted ekey l Hd) as S.
  unfold ssorted in *. induction S as [|a r Sr IH Ha]; cbn; constructor; [exact IH|].
  rewrite Forall_forall in *. intros y Hy. apply in_map_iff in Hy. destruct Hy as [z [<- Hz]]. exact (Ha z Hz).
Qed.

(* shortest form: the width the encoder chooses is the least that holds the argument *)
Theorem head_shortest mt n : mt < 7 -> n < 18446744073709551616 ->
  length (head mt n) = if n <? 24 then 1%nat else if n <? 256 then 2%nat else if n <? 65536 then 3%nat else if n <? 4294967296 then 5%nat else 9%nat.
Proof.
  intros _ _. unfold head. destruct (n <? 24); [reflexivity|]. destruct (n <? 256); [reflexivity|].
  destruct (n <? 65536); [reflexivity|]. destruct (n <? 4294967296); reflexivity.
Qed.

(* ---------------------------------------------------------------- the limits are monotone in the depth *)
Lemma fits_mono it : forall d c, fits (S d) c it = true -> fits d c it = true.
Proof.
  induction it as [n|n|b|b|l IH|l IH|t x IH|n|ai bits] using item_ind'; intros d c F; cbn [fits] in *; try exact F.
  - apply andb_true_iff in F. destruct F as [F Fl]. apply andb_true_iff in F. destruct F as [Fd Fn].
    rewrite Fn. replace (Nat.leb (S d) max_nested) with true by (symmetry; apply Nat.leb_le; apply Nat.leb_le in Fd; lia). cbn [andb].
    rewrite forallb_forall in *. rewrite Forall_forall in IH. intros x Hx. apply IH; [exact Hx|]. now apply Fl.
  - apply andb_true_iff in F. destruct F as [F Fl]. apply andb_true_iff in F. destruct F as [Fd Fn].
    rewrite Fn. replace (Nat.leb (S d) max_nested) with true by (symmetry; apply Nat.leb_le; apply Nat.leb_le in Fd; lia). cbn [andb].
    rewrite forallb_forall in *. rewrite Forall_forall in IH. intros x Hx. specialize (Fl x Hx). apply andb_true_iff in Fl. destruct (IH x Hx) as [I1 I2].
    rewrite I1, I2; tauto.
  - apply andb_true_iff in F. destruct F as [Ft F]. apply andb_true_iff in F. destruct F as [Fd Fx]. rewrite Ft. cbn [andb].
    destruct c.
    + replace (Nat.leb (S d) max_nested) with true by (symmetry; apply Nat.leb_le; apply Nat.leb_le in Fd; lia). cbn [andb]. now apply IH.
    + replace (Nat.leb d max_nested) with true by (symmetry; apply Nat.leb_le; apply Nat.leb_le in Fd; lia). cbn [andb]. now apply IH.
Qed.

Lemma fits_chain it : forall d, fits d true it = true -> fits d false it = true.
Proof.
  destruct it; intros d F; cbn [fits] in *; try exact F.
  apply andb_true_iff in F. destruct F as [Ft F]. apply andb_true_iff in F. destruct F as [Fd Fx]. rewrite Ft. cbn [andb].
  replace (Nat.leb d max_nested) with true by (symmetry; apply Nat.leb_le; apply Nat.leb_le in Fd; lia). cbn [andb]. now apply fits_mono.
Qed.
