(* encoding/hex round trips (C09, C17): what MarshalText / MarshalJSON wrote is read back exactly, for every byte string. *)
From Coq Require Import NArith List Bool Lia.
From Coq Require Import Strings.Byte.
From Cose Require Import Lib.Base Lib.Hex.
Import ListNotations.
Open Scope N_scope.

Lemma hex_byte_roundtrip (x : byte) :
  hex_val (hex_digit (N.shiftr (Byte.to_N x) 4)) = Some (N.shiftr (Byte.to_N x) 4)
  /\ hex_val (hex_digit (N.land (Byte.to_N x) 15)) = Some (N.land (Byte.to_N x) 15)
  /\ b8 (N.shiftr (Byte.to_N x) 4 * 16 + N.land (Byte.to_N x) 15) = x.
Proof. destruct x; vm_compute; repeat split. Qed.

Theorem hex_dec_enc (b : bytes) : hex_dec (hex_enc b) = Some b.
Proof.
  induction b as [|x r IH]; [reflexivity|].
  unfold hex_enc. cbn [flat_map app]. fold (hex_enc r). cbn [hex_dec].
  destruct (hex_byte_roundtrip x) as [H1 [H2 H3]]. now rewrite H1, H2, IH, H3.
Qed.

Lemma hex_enc_length (b : bytes) : length (hex_enc b) = (2 * length b)%nat.
Proof. induction b as [|x r IH]; [reflexivity|]. unfold hex_enc in *. cbn [flat_map app length]. rewrite IH. lia. Qed.

Theorem hex_enc_inj (a b : bytes) : hex_enc a = hex_enc b -> a = b.
Proof. intro H. pose proof (hex_dec_enc a) as Ha. rewrite H, hex_dec_enc in Ha. now inversion Ha. Qed.

Lemma hex_enc_app (a b : bytes) : hex_enc (a ++ b) = (hex_enc a ++ hex_enc b)%list.
Proof. unfold hex_enc. now rewrite flat_map_app. Qed.

(* an odd number of digits is refused whatever they are *)
Lemma hex_dec_even (s b : bytes) : hex_dec s = Some b -> length s = (2 * length b)%nat.
Proof.
  revert b. induction s as [s IH] using (well_founded_induction (Wf_nat.well_founded_ltof _ (@length byte))).
  intros b H. destruct s as [|x [|y r]]; cbn [hex_dec] in H.
  - inversion H. reflexivity.
  - discriminate.
  - destruct (hex_val x), (hex_val y); try discriminate. destruct (hex_dec r) as [rs|] eqn:E; [|discriminate].
    inversion H; subst. cbn [length]. rewrite (IH r) with (b := rs); [lia| |exact E]. unfold Wf_nat.ltof. cbn [length]. lia.
Qed.

(* decoding is case-insensitive, encoding writes lower case: decode then encode lower-cases the text *)
Lemma hex_val_digit_b (x : byte) :
  match hex_val x with Some u => (u <? 16) && byte_eqb (hex_digit u) (lower x) | None => true end = true.
Proof. destruct x; vm_compute; reflexivity. Qed.

Lemma hex_val_digit (x : byte) (u : N) : hex_val x = Some u -> u < 16 /\ hex_digit u = lower x.
Proof.
  intro H. pose proof (hex_val_digit_b x) as B. rewrite H in B. apply andb_true_iff in B. destruct B as [B1 B2].
  split; [now apply N.ltb_lt|now apply byte_eqb_eq].
Qed.

Lemma nibbles (u v : N) : u < 16 -> v < 16 ->
  N.shiftr (Byte.to_N (b8 (u * 16 + v))) 4 = u /\ N.land (Byte.to_N (b8 (u * 16 + v))) 15 = v.
Proof.
  intros Hu Hv. rewrite to_N_b8, N.mod_small by lia. rewrite N.shiftr_div_pow2.
  change 15 with (N.ones 4). rewrite N.land_ones. change (2 ^ 4) with 16. split; lia.
Qed.

Lemma hex_pair_canonical (x y : byte) (u v : N) : hex_val x = Some u -> hex_val y = Some v ->
  hex_digit (N.shiftr (Byte.to_N (b8 (u * 16 + v))) 4) = lower x /\ hex_digit (N.land (Byte.to_N (b8 (u * 16 + v))) 15) = lower y.
Proof.
  intros H1 H2. destruct (hex_val_digit x u H1) as [Hu Ex]. destruct (hex_val_digit y v H2) as [Hv Ey].
  destruct (nibbles u v Hu Hv) as [A B]. now rewrite A, B.
Qed.

Theorem hex_enc_dec (s b : bytes) : hex_dec s = Some b -> hex_enc b = map lower s.
Proof.
  revert b. induction s as [s IH] using (well_founded_induction (Wf_nat.well_founded_ltof _ (@length byte))).
  intros b H. destruct s as [|x [|y r]]; cbn [hex_dec] in H.
  - inversion H. reflexivity.
  - discriminate.
  - destruct (hex_val x) as [u|] eqn:Ex; [|discriminate]. destruct (hex_val y) as [v|] eqn:Ey; [|discriminate].
    destruct (hex_dec r) as [rs|] eqn:E; [|discriminate]. inversion H; subst.
    unfold hex_enc. cbn [flat_map app map]. fold (hex_enc rs).
    destruct (hex_pair_canonical x y u v Ex Ey) as [A B]. rewrite A, B. f_equal. f_equal.
    apply IH; [|exact E]. unfold Wf_nat.ltof. cbn [length]. lia.
Qed.
