(* Big-endian encoding lemmas used by the CCM counter and B_0 proofs. *)
From Coq Require Import String.
From Coq Require Import NArith ZArith List Arith Lia ZifyN ZifyBool.
From Cose Require Import Lib.Base.
Import ListNotations.
Ltac Zify.zify_post_hook ::= Z.div_mod_to_equations.

Lemma b8_mod n : b8 (n mod 256) = b8 n.
Proof. unfold b8. now rewrite N.mod_mod by lia. Qed.

Lemma pow256_pos k : (0 < 256 ^ N.of_nat k)%N.
Proof. apply N.neq_0_lt_0, N.pow_nonzero. lia. Qed.

(* only the low k bytes matter *)
Lemma be_mod k : forall n, be k n = be k (n mod 256 ^ N.of_nat k)%N.
Proof.
  induction k as [|k IH]; intros n; [reflexivity|]. cbn [be].
  rewrite Nat2N.inj_succ, N.pow_succ_r'. pose proof (pow256_pos k) as P. set (p := (256 ^ N.of_nat k)%N) in *.
  f_equal.
  - rewrite <- (b8_mod (n / p)), <- (b8_mod ((n mod (256 * p)) / p)). f_equal.
    rewrite (N.mul_comm 256 p), N.mod_mul_r by lia.
    rewrite (N.mul_comm p), N.div_add by lia. rewrite (N.div_small (n mod p) p) by (apply N.mod_lt; lia).
    rewrite N.add_0_l. now rewrite N.mod_mod by lia.
  - rewrite (IH n), (IH (n mod (256 * p))%N). f_equal.
    rewrite (N.mul_comm 256 p), N.mod_mul_r by lia.
    rewrite N.mul_comm, N.mod_add by lia. now rewrite N.mod_mod by lia.
Qed.

Lemma be_of_be l : be (length l) (of_be l) = l.
Proof.
  induction l as [|b l IH]; [reflexivity|]. cbn [length be].
  change (of_be (b :: l)) with (of_be ([b] ++ l)). rewrite of_be_app.
  change (of_be [b]) with (0 * 256 + Byte.to_N b)%N. rewrite N.mul_0_l, N.add_0_l.
  pose proof (of_be_lt l) as Hl. pose proof (pow256_pos (length l)) as P. set (p := (256 ^ N.of_nat (length l))%N) in *.
  f_equal.
  - rewrite N.div_add_l by lia. rewrite (N.div_small (of_be l) p) by lia. rewrite N.add_0_r. apply b8_to_N.
  - rewrite be_mod. fold p. rewrite N.add_comm, N.mod_add by lia. rewrite N.mod_small by lia. exact IH.
Qed.

(* splitting an encoding at a byte boundary *)
Lemma be_split a : forall b x y, (y < 256 ^ N.of_nat b)%N ->
  be (a + b) (x * 256 ^ N.of_nat b + y) = be a x ++ be b y.
Proof.
  induction a as [|a IH]; intros b x y Hy.
  - cbn [Nat.add be app]. rewrite be_mod. rewrite N.add_comm, N.mod_add by (pose proof (pow256_pos b); lia).
    now rewrite N.mod_small by exact Hy.
  - cbn [Nat.add be app]. f_equal; [|now apply IH].
    rewrite Nat2N.inj_add, N.pow_add_r. pose proof (pow256_pos a) as Pa. pose proof (pow256_pos b) as Pb.
    set (pa := (256 ^ N.of_nat a)%N) in *. set (pb := (256 ^ N.of_nat b)%N) in *.
    f_equal. rewrite (N.mul_comm pa pb), <- N.div_div by lia.
    rewrite N.div_add_l by lia. rewrite (N.div_small y pb) by exact Hy. now rewrite N.add_0_r.
Qed.

Lemma be_zero k : be k 0 = zeros k.
Proof. induction k as [|k IH]; [reflexivity|]. cbn [be]. rewrite N.div_0_l by (pose proof (pow256_pos k); lia). cbn. now rewrite IH. Qed.

Lemma be_one k : be (S k) 1 = zeros k ++ [Byte.x01].
Proof.
  induction k as [|k IH]; [reflexivity|].
  change (be (S (S k)) 1) with (b8 (1 / 256 ^ N.of_nat (S k)) :: be (S k) 1).
  rewrite N.div_small by (rewrite Nat2N.inj_succ, N.pow_succ_r'; pose proof (pow256_pos k); lia).
  rewrite IH. reflexivity.
Qed.

(* the low bytes of a longer encoding *)
Lemma skipn_be a : forall b n, skipn a (be (a + b) n) = be b n.
Proof. induction a as [|a IH]; intros b n; [reflexivity|]. cbn [Nat.add be skipn]. apply IH. Qed.

Lemma of_be_zeros k : of_be (zeros k) = 0%N.
Proof.
  induction k as [|k IH]; [reflexivity|]. change (zeros (S k)) with ([Byte.x00] ++ zeros k).
  rewrite of_be_app, IH. reflexivity.
Qed.
