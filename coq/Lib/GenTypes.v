(* Types of the values the translator (tools/gen) emits into coq/Gen/*.v. *)
From Coq Require Import List ZArith String.
Import ListNotations.

(* a table cell: an integer constant, a string constant, or source text the
   translator could not reduce to a constant *)
Inductive tval := TZ (z : Z) | TStr (s : string) | TSym (s : string).

(* value of an iana constant *)
Inductive cval := CInt (z : Z) | Unrecognized (s : string).

(* rows (keys -> results) and the default results of a switch-shaped function *)
Definition table := (list (list tval * list tval) * list tval)%type.

(* element of a Sig/MAC/Enc structure literal *)
Inductive selem := SCtx (s : string) | SField (name : string) | SParam (name : string) | SUnknown (s : string).

Definition tval_eqb (a b : tval) : bool :=
  match a, b with
  | TZ x, TZ y => Z.eqb x y
  | TStr x, TStr y => String.eqb x y
  | TSym x, TSym y => String.eqb x y
  | _, _ => false
  end.

Definition tvalZ (t : tval) : option Z := match t with TZ z => Some z | _ => None end.

(* table lookup on a single integer key: first row containing the key *)
Fixpoint lookupZ (rows : list (list tval * list tval)) (k : Z) : option (list tval) :=
  match rows with
  | [] => None
  | (ks, vs) :: r => if existsb (fun t => tval_eqb t (TZ k)) ks then Some vs else lookupZ r k
  end.

Definition table_get (t : table) (k : Z) : list tval :=
  match lookupZ (fst t) k with Some v => v | None => snd t end.

Fixpoint assoc {A} (l : list (string * A)) (k : string) : option A :=
  match l with
  | [] => None
  | (n, v) :: r => if String.eqb n k then Some v else assoc r k
  end.
