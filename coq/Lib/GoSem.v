(* Semantics of the Go fragment the function-body translator (tools/gen, T11) emits: integers as Z (lengths and small
   constants: no overflow is modelled), byte slices and integer slices as lists (a slice expression yields a fresh value;
   the translator refuses functions in which two live names could alias one backing array and both be written),
   run-time panics (index / slice bounds, negative make) as the outcome Panic, loops as bounded iteration with an
   explicit control result. Everything here is executable. *)
From Coq Require Import ZArith List Bool Lia.
From Coq Require Import Strings.Byte.
From Cose Require Import Lib.Base.
Import ListNotations.
Open Scope Z_scope.

Definition go_len {A} (l : list A) : Z := Z.of_nat (length l).

(* make([]byte, n) *)
Definition go_make (n : Z) : res bytes := if n <? 0 then Panic else Ok (zeros (Z.to_nat n)).

(* l[i] *)
Definition go_idx {A} (l : list A) (i : Z) : res A :=
  if (i <? 0) || (go_len l <=? i) then Panic
  else match nth_error l (Z.to_nat i) with Some x => Ok x | None => Panic end.

(* l[i] = x *)
Definition go_set {A} (l : list A) (i : Z) (x : A) : res (list A) :=
  if (i <? 0) || (go_len l <=? i) then Panic
  else Ok (firstn (Z.to_nat i) l ++ x :: skipn (S (Z.to_nat i)) l)%list.

(* l[lo:] *)
Definition go_slice_from {A} (l : list A) (lo : Z) : res (list A) :=
  if (lo <? 0) || (go_len l <? lo) then Panic else Ok (skipn (Z.to_nat lo) l).

(* l[:hi]  (capacity = length: a slice is never extended past its length) *)
Definition go_slice_to {A} (l : list A) (hi : Z) : res (list A) :=
  if (hi <? 0) || (go_len l <? hi) then Panic else Ok (firstn (Z.to_nat hi) l).

(* l[lo:hi] *)
Definition go_slice {A} (l : list A) (lo hi : Z) : res (list A) :=
  if (lo <? 0) || (hi <? lo) || (go_len l <? hi) then Panic else Ok (firstn (Z.to_nat (hi - lo)) (skipn (Z.to_nat lo) l)).

(* copy(dst[off:], src): the new value of dst *)
Definition go_copy_at {A} (dst : list A) (off : Z) (src : list A) : res (list A) :=
  if (off <? 0) || (go_len dst <? off) then Panic
  else let o := Z.to_nat off in
       let n := Nat.min (length dst - o) (length src) in
       Ok (firstn o dst ++ firstn n src ++ skipn (o + n) dst)%list.

Definition go_has_prefix (s p : bytes) : bool := has_prefix p s.

(* loop control *)
Inductive ctl (S R : Type) := CNext (s : S) | CBreak (s : S) | CRet (r : R).
Arguments CNext {S R} s.
Arguments CBreak {S R} s.
Arguments CRet {S R} r.

(* for i, v := range l { body }: the range expression is evaluated once; the translator refuses bodies that assign to it
   when the element variable is used *)
Fixpoint go_range_from {A S R} (i : Z) (l : list A) (s : S) (body : Z -> A -> S -> res (ctl S R)) : res (S + R) :=
  match l with
  | [] => Ok (inl s)
  | v :: r =>
      match body i v s with
      | Ok (CNext s') => go_range_from (i + 1) r s' body
      | Ok (CBreak s') => Ok (inl s')
      | Ok (CRet x) => Ok (inr x)
      | Err => Err
      | Panic => Panic
      end
  end.
Definition go_range {A S R} (l : list A) (s : S) (body : Z -> A -> S -> res (ctl S R)) : res (S + R) :=
  go_range_from 0 l s body.

(* for i := range l { body } where the body may write l: only the length is fixed at the start *)
Fixpoint go_count_from {S R} (i : Z) (n : nat) (s : S) (body : Z -> S -> res (ctl S R)) : res (S + R) :=
  match n with
  | O => Ok (inl s)
  | Datatypes.S n' =>
      match body i s with
      | Ok (CNext s') => go_count_from (i + 1) n' s' body
      | Ok (CBreak s') => Ok (inl s')
      | Ok (CRet x) => Ok (inr x)
      | Err => Err
      | Panic => Panic
      end
  end.
Definition go_range_idx {S R} (n : Z) (s : S) (body : Z -> S -> res (ctl S R)) : res (S + R) :=
  go_count_from 0 (Z.to_nat n) s body.

Definition bytes_of_Z (l : list Z) : bytes := map (fun z => b8 (Z.to_N z)) l.

(* make([]int, n) (also the named key.Ops) *)
Definition go_make_ints (n : Z) : res (list Z) := if n <? 0 then Panic else Ok (repeat 0 (Z.to_nat n)).
