(* Bytes, outcomes, hex literals: shared by every model file. No proofs that
   the executable correspondence depends on live here besides basic facts. *)
From Coq Require Import String Ascii.
From Coq Require Import NArith ZArith List Lia ZifyN ZifyBool Bool.
From Coq Require Import Strings.Byte.
Import ListNotations.
Ltac Zify.zify_post_hook ::= Z.div_mod_to_equations.

Definition bytes := list byte.

(* Outcome of a Go call: a value, a returned error, or a run-time panic. *)
Inductive res (A : Type) := Ok (a : A) | Err | Panic.
Arguments Ok {A} a.
Arguments Err {A}.
Arguments Panic {A}.

Definition bind {A B} (r : res A) (f : A -> res B) : res B :=
  match r with Ok a => f a | Err => Err | Panic => Panic end.
Notation "'do' x <- r ; k" := (bind r (fun x => k)) (at level 200, x pattern, r at level 100, k at level 200).

Definition is_ok {A} (r : res A) : bool := match r with Ok _ => true | _ => false end.
Definition is_err {A} (r : res A) : bool := match r with Err => true | _ => false end.
Definition is_panic {A} (r : res A) : bool := match r with Panic => true | _ => false end.

Definition res_eqb {A} (eq : A -> A -> bool) (a b : res A) : bool :=
  match a, b with
  | Ok x, Ok y => eq x y
  | Err, Err => true
  | Panic, Panic => true
  | _, _ => false
  end.

(* total N -> byte *)
Definition b8 (n : N) : byte :=
  match Byte.of_N (n mod 256) with Some b => b | None => x00 end.
Lemma to_N_b8 n : Byte.to_N (b8 n) = (n mod 256)%N.
Proof.
  unfold b8. destruct (Byte.of_N (n mod 256)) eqn:E.
  - apply Byte.to_of_N in E. exact E.
  - apply Byte.of_N_None_iff in E. pose proof (N.mod_lt n 256). lia.
Qed.
Lemma to_N_lt b : (Byte.to_N b < 256)%N.
Proof. pose proof (Byte.to_N_bounded b). lia. Qed.
Lemma b8_to_N b : b8 (Byte.to_N b) = b.
Proof.
  unfold b8. rewrite N.mod_small by apply to_N_lt. now rewrite Byte.of_to_N.
Qed.

Definition byte_eqb (a b : byte) : bool := Byte.eqb a b.
Lemma byte_eqb_eq a b : byte_eqb a b = true <-> a = b.
Proof. unfold byte_eqb. split; [apply Byte.byte_dec_bl | apply Byte.byte_dec_lb]. Qed.

Fixpoint bytes_eqb (a b : bytes) : bool :=
  match a, b with
  | [], [] => true
  | x :: a', y :: b' => byte_eqb x y && bytes_eqb a' b'
  | _, _ => false
  end.
Lemma bytes_eqb_eq a : forall b, bytes_eqb a b = true <-> a = b.
Proof.
  induction a as [|x a IH]; intros [|y b]; cbn; split; intro H; try discriminate; auto.
  - apply andb_true_iff in H. destruct H as [H1 H2]. apply byte_eqb_eq in H1. apply IH in H2. now subst.
  - inversion H; subst. apply andb_true_iff. split; [now apply byte_eqb_eq | now apply IH].
Qed.
Lemma bytes_eqb_refl a : bytes_eqb a a = true.
Proof. now apply bytes_eqb_eq. Qed.

Definition opt_bytes_eqb (a b : option bytes) : bool :=
  match a, b with Some x, Some y => bytes_eqb x y | None, None => true | _, _ => false end.

(* big-endian k bytes of n, and back *)
Fixpoint be (k : nat) (n : N) : bytes :=
  match k with O => [] | S k' => b8 (n / 256 ^ N.of_nat k') :: be k' n end.
Definition of_be (l : bytes) : N := fold_left (fun a b => (a * 256 + Byte.to_N b)%N) l 0%N.

Lemma fold_acc l : forall a, fold_left (fun a b => (a * 256 + Byte.to_N b)%N) l a
   = (a * 256 ^ N.of_nat (length l) + of_be l)%N.
Proof.
  unfold of_be. induction l as [|b l IH]; intros a; cbn [fold_left length].
  - rewrite N.pow_0_r. lia.
  - rewrite IH. rewrite (IH (0 * 256 + Byte.to_N b)%N).
    rewrite Nat2N.inj_succ, N.pow_succ_r'. lia.
Qed.
Lemma be_length k n : length (be k n) = k.
Proof. induction k; cbn; auto. Qed.
Lemma of_be_be k : forall n, of_be (be k n) = (n mod 256 ^ N.of_nat k)%N.
Proof.
  induction k as [|k IH]; intros n.
  - cbn. rewrite N.mod_1_r. reflexivity.
  - cbn [be]. unfold of_be. cbn [fold_left]. rewrite fold_acc, be_length, IH, to_N_b8.
    rewrite Nat2N.inj_succ, N.pow_succ_r'.
    set (p := (256 ^ N.of_nat k)%N). assert (0 < p)%N by (apply N.neq_0_lt_0, N.pow_nonzero; lia).
    rewrite (N.mul_comm 256 p), N.mod_mul_r by lia. lia.
Qed.
Lemma of_be_app a b : of_be (a ++ b) = (of_be a * 256 ^ N.of_nat (length b) + of_be b)%N.
Proof. unfold of_be at 1. rewrite fold_left_app. rewrite fold_acc. reflexivity. Qed.
Lemma of_be_lt l : (of_be l < 256 ^ N.of_nat (length l))%N.
Proof.
  induction l as [|b l IH] using rev_ind.
  - cbn. lia.
  - rewrite of_be_app, app_length. cbn [length].
    replace (N.of_nat (length l + 1)) with (N.succ (N.of_nat (length l))) by lia.
    rewrite N.pow_succ_r'.
    change (of_be [b]) with (0 * 256 + Byte.to_N b)%N. pose proof (to_N_lt b).
    change (256 ^ N.of_nat 1)%N with 256%N.
    set (p := (256 ^ N.of_nat (length l))%N) in *. lia.
Qed.

(* hex literals: how the harness writes byte strings into case files *)
Definition hexval (c : ascii) : N :=
  let n := N_of_ascii c in
  if (48 <=? n)%N && (n <=? 57)%N then n - 48
  else if (97 <=? n)%N && (n <=? 102)%N then n - 87
  else if (65 <=? n)%N && (n <=? 70)%N then n - 55
  else 0.
Fixpoint hex (s : string) : bytes :=
  match s with
  | String a (String b r) => b8 (hexval a * 16 + hexval b) :: hex r
  | _ => []
  end.

Definition zeros (n : nat) : bytes := repeat x00 n.

(* checked slicing: Go's s[a:b] panics outside bounds *)
Definition slice {A} (l : list A) (a b : nat) : res (list A) :=
  if (Nat.leb a b && Nat.leb b (length l))%bool then Ok (firstn (b - a) (skipn a l)) else Panic.

Definition has_prefix (p l : bytes) : bool := bytes_eqb p (firstn (length p) l).
Lemma has_prefix_app p r : has_prefix p (p ++ r) = true.
Proof. unfold has_prefix. rewrite firstn_app, Nat.sub_diag, firstn_all. cbn. rewrite app_nil_r. apply bytes_eqb_refl. Qed.

Definition xor_byte (a b : byte) : byte := b8 (N.lxor (Byte.to_N a) (Byte.to_N b)).

(* deterministic filler for long inputs (the harness has the same generator): x' = (1103515245 x + 12345) mod 2^31, byte = bits 16..23 *)
Fixpoint gen_bytes_aux (n : nat) (x : N) : bytes :=
  match n with
  | O => []
  | S n' => let x' := N.land (1103515245 * x + 12345) 2147483647 in b8 (N.land (N.shiftr x' 16) 255) :: gen_bytes_aux n' x'
  end.
Definition gen_bytes (seed : N) (n : nat) : bytes := gen_bytes_aux n seed.

(* a slice of a long generated string (the harness names damaged copies of a payload by their intact segments) *)
Definition seg (g : bytes) (off len : nat) : bytes := firstn len (skipn off g).

(* long byte strings are written by the harness as a list of short hex literals *)
Definition hexs (l : list string) : bytes := flat_map hex l.
