(* CBOR (RFC 8949) as the library uses it through fxamacker/cbor v2.7.0 configured by key/cbor.go:
   a wire data model (item), the deterministic encoder, the strict well-formedness decoder with the
   decoder's limits, UTF-8 validation, and the decoding of an item into a Go `any` value. *)
From Coq Require Import String.
From Coq Require Import NArith ZArith List Arith Lia Bool.
From Cose Require Import Lib.Base.
Import ListNotations.
Open Scope N_scope.

Inductive item :=
| IUint (n : N)
| INint (n : N)                       (* the integer -1 - n *)
| IBstr (b : bytes)
| ITstr (b : bytes)
| IArr (l : list item)
| IMap (l : list (item * item))
| ITag (t : N) (v : item)
| ISimple (n : N)                     (* 20 false, 21 true, 22 null, 23 undefined, others unassigned *)
| IFloat (ai : N) (bits : N).         (* ai 25 / 26 / 27: half, single, double *)

(* ---------------------------------------------------------------- encoding *)

(* initial byte + shortest argument *)
Definition head (mt n : N) : bytes :=
  if n <? 24 then [b8 (mt * 32 + n)]
  else if n <? 256 then b8 (mt * 32 + 24) :: be 1 n
  else if n <? 65536 then b8 (mt * 32 + 25) :: be 2 n
  else if n <? 4294967296 then b8 (mt * 32 + 26) :: be 4 n
  else b8 (mt * 32 + 27) :: be 8 n.

(* bytewise lexicographic order (RFC 8949 section 4.2.1) *)
Fixpoint blex (a b : bytes) : bool :=
  match a, b with
  | [], [] => false
  | [], _ :: _ => true
  | _ :: _, [] => false
  | x :: a', y :: b' =>
      if Byte.to_N x <? Byte.to_N y then true
      else if Byte.to_N y <? Byte.to_N x then false
      else blex a' b'
  end.

Section Sort.
  Variable A : Type.
  Variable key : A -> bytes.
  Fixpoint insert (x : A) (l : list A) : list A :=
    match l with
    | [] => [x]
    | y :: t => if blex (key x) (key y) then x :: l else y :: insert x t
    end.
  Definition isort (l : list A) : list A := fold_right insert [] l.
End Sort.
Arguments insert {A} key x l.
Arguments isort {A} key l.

Definition float_len (ai : N) : nat := if ai =? 25 then 2%nat else if ai =? 26 then 4%nat else 8%nat.

Fixpoint encode (v : item) : bytes :=
  match v with
  | IUint n => head 0 n
  | INint n => head 1 n
  | IBstr b => head 2 (N.of_nat (length b)) ++ b
  | ITstr b => head 3 (N.of_nat (length b)) ++ b
  | IArr l => head 4 (N.of_nat (length l)) ++ flat_map encode l
  | IMap l =>
      head 5 (N.of_nat (length l))
      ++ flat_map (fun kv => fst kv ++ snd kv) (isort fst (map (fun kv => (encode (fst kv), encode (snd kv))) l))
  | ITag t x => head 6 t ++ encode x
  | ISimple n => if n <? 24 then [b8 (224 + n)] else [Byte.xf8; b8 n]
  | IFloat ai bits => b8 (224 + ai) :: be (float_len ai) bits
  end.

(* ---------------------------------------------------------------- well-formedness decoding *)

Definition take (k : nat) (l : bytes) : option (bytes * bytes) :=
  if Nat.leb k (length l) then Some (firstn k l, skipn k l) else None.

(* initial byte and argument: (major type, additional information, argument, rest) *)
Definition dhead (l : bytes) : res (N * N * N * bytes) :=
  match l with
  | [] => Err
  | b :: r =>
    let v := Byte.to_N b in let mt := v / 32 in let ai := v mod 32 in
    if ai <? 24 then Ok (mt, ai, ai, r)
    else
      let w := if ai =? 24 then Some 1%nat else if ai =? 25 then Some 2%nat
               else if ai =? 26 then Some 4%nat else if ai =? 27 then Some 8%nat else None in
      match w with
      | None => Err                 (* 28..30 reserved; 31: indefinite lengths are forbidden, "break" outside *)
      | Some k => match take k r with
                  | Some (a, r') =>
                      let val := of_be a in
                      if (mt =? 7) && (ai =? 24) && (val <? 32) then Err else Ok (mt, ai, val, r')
                  | None => Err
                  end
      end
  end.

Definition max_nested : nat := 32.
Definition max_elems : N := 131072.
Definition int_max : N := 9223372036854775807.

Section Dec.
  (* dec for the nesting level below, used for the elements of arrays and maps *)
  Variable sub : nat -> bool -> bytes -> res (item * bytes).

  Fixpoint dec_seq (k : nat) (depth : nat) (bs : bytes) : res (list item * bytes) :=
    match k with
    | O => Ok ([], bs)
    | S k' => match sub depth false bs with
              | Ok (x, r1) => match dec_seq k' depth r1 with
                              | Ok (xs, r2) => Ok (x :: xs, r2)
                              | Err => Err | Panic => Panic
                              end
              | Err => Err | Panic => Panic
              end
    end.
End Dec.

Fixpoint pairs (l : list item) : option (list (item * item)) :=
  match l with
  | [] => Some []
  | a :: b :: t => match pairs t with Some p => Some ((a, b) :: p) | None => None end
  | _ => None
  end.

(* depth: containers (and tags nested directly in tags) entered so far; in_chain: the item follows a tag head *)
Fixpoint dec (fuel : nat) (depth : nat) (in_chain : bool) (bs : bytes) {struct fuel} : res (item * bytes) :=
  match fuel with
  | O => Err
  | S f =>
    match dhead bs with
    | Ok (mt, ai, n, r) =>
      if mt =? 0 then Ok (IUint n, r)
      else if mt =? 1 then Ok (INint n, r)
      else if (mt =? 2) || (mt =? 3) then
        if int_max <? n then Err
        else if N.of_nat (length r) <? n then Err
        else match take (N.to_nat n) r with
             | Some (b, r') => Ok (if mt =? 2 then IBstr b else ITstr b, r')
             | None => Err
             end
      else if (mt =? 4) || (mt =? 5) then
        let depth' := S depth in
        if Nat.ltb max_nested depth' then Err
        else if int_max <? n then Err
        else if max_elems <? n then Err
        else if N.of_nat (length r) <? n then Err        (* every element takes at least one byte *)
        else if mt =? 4 then
          match dec_seq (dec f) (N.to_nat n) depth' r with
          | Ok (l, r') => Ok (IArr l, r')
          | Err => Err | Panic => Panic
          end
        else
          match dec_seq (dec f) (2 * N.to_nat n) depth' r with
          | Ok (l, r') => match pairs l with Some p => Ok (IMap p, r') | None => Err end
          | Err => Err | Panic => Panic
          end
      else if mt =? 6 then
        let depth' := if in_chain then S depth else depth in
        if Nat.ltb max_nested depth' then Err
        else match dec f depth' true r with
             | Ok (x, r') => Ok (ITag n x, r')
             | Err => Err | Panic => Panic
             end
      else (* 7 *)
        if ai <? 25 then Ok (ISimple n, r) else Ok (IFloat ai n, r)
    | Err => Err
    | Panic => Panic
    end
  end.

(* the recursion consumes fuel once per nesting level: the depth limits bound it *)
Definition dec_fuel : nat := 80.

(* one data item, nothing after it (Unmarshal / Wellformed refuse extraneous data) *)
Definition decode (bs : bytes) : res item :=
  match dec dec_fuel 0 false bs with
  | Ok (v, []) => Ok v
  | Ok (_, _ :: _) => Err
  | Err => Err
  | Panic => Panic
  end.

(* ---------------------------------------------------------------- UTF-8 (Go utf8.Valid) *)
Fixpoint utf8_valid_aux (fuel : nat) (l : list N) : bool :=
  match fuel with
  | O => match l with [] => true | _ => false end
  | S f =>
    match l with
    | [] => true
    | b0 :: r =>
      if b0 <? 128 then utf8_valid_aux f r
      else if (194 <=? b0) && (b0 <=? 223) then
        match r with b1 :: r' => (128 <=? b1) && (b1 <=? 191) && utf8_valid_aux f r' | _ => false end
      else if (224 <=? b0) && (b0 <=? 239) then
        match r with
        | b1 :: b2 :: r' =>
            let lo := if b0 =? 224 then 160 else 128 in
            let hi := if b0 =? 237 then 159 else 191 in
            (lo <=? b1) && (b1 <=? hi) && (128 <=? b2) && (b2 <=? 191) && utf8_valid_aux f r'
        | _ => false
        end
      else if (240 <=? b0) && (b0 <=? 244) then
        match r with
        | b1 :: b2 :: b3 :: r' =>
            let lo := if b0 =? 240 then 144 else 128 in
            let hi := if b0 =? 244 then 143 else 191 in
            (lo <=? b1) && (b1 <=? hi) && (128 <=? b2) && (b2 <=? 191) && (128 <=? b3) && (b3 <=? 191) && utf8_valid_aux f r'
        | _ => false
        end
      else false
    end
  end.
Definition utf8_valid (b : bytes) : bool := utf8_valid_aux (length b) (map Byte.to_N b).
