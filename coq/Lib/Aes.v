(* AES-128/192/256 block encryption (FIPS 197) in Gallina. The S-box and the GF(2^8) multiplication tables
   are computed from their definitions; validated against FIPS-197 appendix C in Spec/Vectors.v. *)
From Coq Require Import String.
From Coq Require Import NArith List Lia.
From Cose Require Import Lib.Base.
Import ListNotations.
Open Scope N_scope.

Definition xtime (a : N) : N :=
  let b := N.shiftl a 1 in if N.testbit b 8 then N.lxor (N.land b 255) 27 else b.
Fixpoint gmul_aux (fuel : nat) (a b acc : N) : N :=
  match fuel with
  | O => acc
  | S f => gmul_aux f (xtime a) (N.shiftr b 1) (if N.testbit b 0 then N.lxor acc a else acc)
  end.
Definition gmul (a b : N) : N := gmul_aux 8 a b 0.
Fixpoint gpow (a : N) (e : nat) : N := match e with O => 1 | S e' => gmul a (gpow a e') end.
Definition ginv (a : N) : N := gpow a 254.
Definition rotl8 (x k : N) : N := N.land (N.lor (N.shiftl x k) (N.shiftr x (8 - k))) 255.
Definition sbox_def (a : N) : N :=
  let b := ginv a in
  N.lxor (N.lxor (N.lxor (N.lxor (N.lxor b (rotl8 b 1)) (rotl8 b 2)) (rotl8 b 3)) (rotl8 b 4)) 99.
Definition sbox_table : list N := Eval vm_compute in map (fun i => sbox_def (N.of_nat i)) (seq 0 256).
Definition mul2_table : list N := Eval vm_compute in map (fun i => gmul 2 (N.of_nat i)) (seq 0 256).
Definition mul3_table : list N := Eval vm_compute in map (fun i => gmul 3 (N.of_nat i)) (seq 0 256).
(* table lookups through a depth-8 binary tree (8 steps instead of a list walk) *)
Inductive tree := Leaf (v : N) | Node (l r : tree).
Fixpoint build (depth : nat) (l : list N) : tree :=
  match depth with
  | O => Leaf (hd 0 l)
  | S d => let h := Nat.pow 2 d in Node (build d (firstn h l)) (build d (skipn h l))
  end.
Fixpoint tget (depth : nat) (t : tree) (i : N) : N :=
  match t with
  | Leaf v => v
  | Node l r => match depth with
                | O => 0
                | S d => if N.testbit i (N.of_nat d) then tget d r i else tget d l i
                end
  end.
Definition sbox_tree : tree := Eval vm_compute in build 8 sbox_table.
Definition mul2_tree : tree := Eval vm_compute in build 8 mul2_table.
Definition mul3_tree : tree := Eval vm_compute in build 8 mul3_table.
Definition sbox (a : N) : N := tget 8 sbox_tree a.
Definition mul2 (a : N) : N := tget 8 mul2_tree a.
Definition mul3 (a : N) : N := tget 8 mul3_tree a.
Lemma trees_are_tables :
  map sbox (map N.of_nat (seq 0 256)) = sbox_table /\ map mul2 (map N.of_nat (seq 0 256)) = mul2_table
  /\ map mul3 (map N.of_nat (seq 0 256)) = mul3_table.
Proof. vm_compute. repeat split; reflexivity. Qed.

(* state: 16 bytes, column-major as in FIPS 197 *)
Definition sub_bytes (s : list N) := map sbox s.
Definition shift_rows (s : list N) : list N :=
  match s with
  | [s0; s1; s2; s3; s4; s5; s6; s7; s8; s9; s10; s11; s12; s13; s14; s15] =>
      [s0; s5; s10; s15; s4; s9; s14; s3; s8; s13; s2; s7; s12; s1; s6; s11]
  | _ => s
  end.
Definition mix_col (a0 a1 a2 a3 : N) : list N :=
  [ N.lxor (N.lxor (N.lxor (mul2 a0) (mul3 a1)) a2) a3;
    N.lxor (N.lxor (N.lxor a0 (mul2 a1)) (mul3 a2)) a3;
    N.lxor (N.lxor (N.lxor a0 a1) (mul2 a2)) (mul3 a3);
    N.lxor (N.lxor (N.lxor (mul3 a0) a1) a2) (mul2 a3) ].
Definition mix_columns (s : list N) : list N :=
  match s with
  | [s0; s1; s2; s3; s4; s5; s6; s7; s8; s9; s10; s11; s12; s13; s14; s15] =>
      (mix_col s0 s1 s2 s3 ++ mix_col s4 s5 s6 s7 ++ mix_col s8 s9 s10 s11 ++ mix_col s12 s13 s14 s15)%list
  | _ => s
  end.
Definition xor_l (a b : list N) := map (fun p => N.lxor (fst p) (snd p)) (combine a b).

Definition sub_word := map sbox.
Definition rot_word (w : list N) := match w with a :: t => (t ++ [a])%list | [] => [] end.
Fixpoint rcon (i : nat) : N := match i with O => 1 | S i' => xtime (rcon i') end.
Fixpoint expand (fuel i nk : nat) (ws : list (list N)) : list (list N) :=
  match fuel with
  | O => ws
  | S f =>
    let prev := nth (Nat.sub i 1) ws [] in
    let back := nth (Nat.sub i nk) ws [] in
    let t := if Nat.eqb (Nat.modulo i nk) 0 then xor_l (sub_word (rot_word prev)) [rcon (Nat.sub (Nat.div i nk) 1); 0; 0; 0]
             else if andb (Nat.ltb 6 nk) (Nat.eqb (Nat.modulo i nk) 4) then sub_word prev else prev in
    expand f (S i) nk (ws ++ [xor_l back t])%list
  end.
Definition words4 (k : list N) : list (list N) :=
  map (fun j : nat => firstn 4 (skipn (Nat.mul 4 j) k)) (seq 0 (Nat.div (length k) 4)).
Definition round_keys (key : list N) : list (list N) :=
  let nk := Nat.div (length key) 4 in let nr := Nat.add nk 6 in
  let ws := expand (Nat.sub (Nat.mul 4 (S nr)) nk) nk nk (words4 key) in
  map (fun r : nat => concat (firstn 4 (skipn (Nat.mul 4 r) ws))) (seq 0 (S nr)).

Definition encrypt_with (rks : list (list N)) (blk : list N) : list N :=
  match rks with
  | [] => blk
  | k0 :: ks =>
    let s0 := xor_l blk k0 in
    let nr := length ks in
    let mid := firstn (Nat.sub nr 1) ks in
    let s1 := fold_left (fun s k => xor_l (mix_columns (shift_rows (sub_bytes s))) k) mid s0 in
    xor_l (shift_rows (sub_bytes s1)) (last ks [])
  end.

(* a keyed block function on bytes: the key schedule is computed once (as aes.NewCipher does) *)
(* the result is cut / zero-extended to one block so that "a block function returns 16 bytes" holds for every
   input by construction; for a 16-byte block under a 16/24/32-byte key AES itself returns 16 bytes *)
Definition fit16 (l : bytes) : bytes := firstn 16 (l ++ zeros 16).
Definition aes_keyed (key : bytes) : bytes -> bytes :=
  let rks := round_keys (map Byte.to_N key) in
  fun blk => fit16 (map b8 (encrypt_with rks (map Byte.to_N blk))).

Lemma aes_keyed_length key blk : length (aes_keyed key blk) = 16%nat.
Proof.
  unfold aes_keyed, fit16. rewrite firstn_length, app_length. unfold zeros. rewrite repeat_length. lia.
Qed.

Definition aes_key_ok (key : bytes) : bool :=
  let l := length key in Nat.eqb l 16 || Nat.eqb l 24 || Nat.eqb l 32.
