(* AES-GCM (NIST SP 800-38D) with 96-bit nonces and 128-bit tags over an arbitrary 16-byte block function. *)
From Coq Require Import String.
From Coq Require Import NArith List Arith Lia Bool.
From Cose Require Import Lib.Base Lib.CbcMac Spec.RFC3610.
Import ListNotations.

(* multiplication in GF(2^128), bit-reflected convention of the GCM specification *)
Definition gcm_R : N := N.shiftl 225 120.   (* 0xE1 || 0^120 *)
Fixpoint gf_mul_aux (i : nat) (x z v : N) : N :=
  match i with
  | O => z
  | S i' =>
      let z' := if N.testbit x (N.of_nat i') then N.lxor z v else z in
      let v' := if N.testbit v 0 then N.lxor (N.shiftr v 1) gcm_R else N.shiftr v 1 in
      gf_mul_aux i' x z' v'
  end.
(* bit 0 of the polynomial is the most significant bit of the 128-bit integer: walk from bit 127 down *)
Definition gf_mul (x y : N) : N := gf_mul_aux 128 x 0 y.

Definition ghash (h : N) (blocks16 : list bytes) : N :=
  fold_left (fun y b => gf_mul (N.lxor y (of_be b)) h) blocks16 0%N.

Section GCM.
  Variable E : bytes -> bytes.

  Definition inc32 (ctr : N) : N :=
    (N.shiftl (N.shiftr ctr 32) 32 + (N.land ctr 4294967295 + 1) mod 4294967296)%N.

  Fixpoint gctr_stream (n : nat) (ctr : N) : bytes :=
    match n with O => [] | S n' => E (be 16 ctr) ++ gctr_stream n' (inc32 ctr) end.

  Definition gcm_tag (h j0 : N) (a c : bytes) : bytes :=
    let lens := be 8 (8 * N.of_nat (length a)) ++ be 8 (8 * N.of_nat (length c)) in
    let s := ghash h (chunk16 a ++ chunk16 c ++ [lens]) in
    xor_bytes_trunc (be 16 s) (E (be 16 j0)).

  Definition gcm_seal (nonce p a : bytes) : bytes :=
    let h := of_be (E zero16) in
    let j0 := of_be (nonce ++ [Byte.x00; Byte.x00; Byte.x00; Byte.x01]) in
    let c := xor_bytes_trunc p (gctr_stream ((length p + 15) / 16) (inc32 j0)) in
    c ++ gcm_tag h j0 a c.

  Definition gcm_open (nonce ct a : bytes) : option bytes :=
    if length ct <? 16 then None
    else
      let c := firstn (length ct - 16) ct in
      let t := skipn (length ct - 16) ct in
      let h := of_be (E zero16) in
      let j0 := of_be (nonce ++ [Byte.x00; Byte.x00; Byte.x00; Byte.x01]) in
      if bytes_eqb t (gcm_tag h j0 a c)
      then Some (xor_bytes_trunc c (gctr_stream ((length c + 15) / 16) (inc32 j0)))
      else None.
End GCM.
