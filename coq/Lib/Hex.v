(* encoding/hex as key.ByteStr uses it (MarshalText / MarshalJSON / UnmarshalText / UnmarshalJSON of ByteStr, CoseMap, Key):
   EncodeToString writes two lower-case digits per byte; DecodeString accepts either case, refuses an odd length and
   any other character. Model only; the proofs are in Lib/HexProofs.v. *)
From Coq Require Import NArith List Bool.
From Coq Require Import Strings.Byte.
From Cose Require Import Lib.Base.
Import ListNotations.
Open Scope N_scope.

Definition hex_digit (n : N) : byte := if n <? 10 then b8 (48 + n) else b8 (87 + n).

Definition hex_enc (b : bytes) : bytes :=
  flat_map (fun x => [hex_digit (N.shiftr (Byte.to_N x) 4); hex_digit (N.land (Byte.to_N x) 15)]) b.

Definition hex_val (c : byte) : option N :=
  let n := Byte.to_N c in
  if (48 <=? n) && (n <=? 57) then Some (n - 48)
  else if (97 <=? n) && (n <=? 102) then Some (n - 87)
  else if (65 <=? n) && (n <=? 70) then Some (n - 55)
  else None.

Fixpoint hex_dec (s : bytes) : option bytes :=
  match s with
  | [] => Some []
  | a :: b :: r =>
      match hex_val a, hex_val b, hex_dec r with
      | Some x, Some y, Some rs => Some (b8 (x * 16 + y) :: rs)
      | _, _, _ => None
      end
  | [_] => None
  end.

(* strings.ToLower on hex digits: what DecodeString followed by EncodeToString does to a text *)
Definition lower (c : byte) : byte :=
  let n := Byte.to_N c in if (65 <=? n) && (n <=? 70) then b8 (n + 32) else c.
