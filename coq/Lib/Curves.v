(* Reference arithmetic for ECDH: the NIST curves P-256 / P-384 / P-521 (SEC 2 parameters, short Weierstrass, Jacobian
   coordinates) and X25519 (RFC 7748 Montgomery ladder). Used as the independent computation the implementation's
   shared secrets are compared with; validated on published vectors in Spec/Vectors.v. *)
From Coq Require Import ZArith List Bool Lia.
From Cose Require Import Lib.Base.
Import ListNotations.
Open Scope Z_scope.

Record curve := { cp : Z; ca : Z; cb : Z; cgx : Z; cgy : Z; cn : Z; csize : nat }.

Definition p256 : curve :=
  {| cp := 2^256 - 2^224 + 2^192 + 2^96 - 1; ca := -3;
     cb := 0x5ac635d8aa3a93e7b3ebbd55769886bc651d06b0cc53b0f63bce3c3e27d2604b;
     cgx := 0x6b17d1f2e12c4247f8bce6e563a440f277037d812deb33a0f4a13945d898c296;
     cgy := 0x4fe342e2fe1a7f9b8ee7eb4a7c0f9e162bce33576b315ececbb6406837bf51f5;
     cn := 0xffffffff00000000ffffffffffffffffbce6faada7179e84f3b9cac2fc632551; csize := 32 |}.
Definition p384 : curve :=
  {| cp := 2^384 - 2^128 - 2^96 + 2^32 - 1; ca := -3;
     cb := 0xb3312fa7e23ee7e4988e056be3f82d19181d9c6efe8141120314088f5013875ac656398d8a2ed19d2a85c8edd3ec2aef;
     cgx := 0xaa87ca22be8b05378eb1c71ef320ad746e1d3b628ba79b9859f741e082542a385502f25dbf55296c3a545e3872760ab7;
     cgy := 0x3617de4a96262c6f5d9e98bf9292dc29f8f41dbd289a147ce9da3113b5f0b8c00a60b1ce1d7e819d7a431d7c90ea0e5f;
     cn := 0xffffffffffffffffffffffffffffffffffffffffffffffffc7634d81f4372ddf581a0db248b0a77aecec196accc52973; csize := 48 |}.
Definition p521 : curve :=
  {| cp := 2^521 - 1; ca := -3;
     cb := 0x0051953eb9618e1c9a1f929a21a0b68540eea2da725b99b315f3b8b489918ef109e156193951ec7e937b1652c0bd3bb1bf073573df883d2c34f1ef451fd46b503f00;
     cgx := 0x00c6858e06b70404e9cd9e3ecb662395b4429c648139053fb521f828af606b4d3dbaa14b5e77efe75928fe1dc127a2ffa8de3348b3c1856a429bf97e7e31c2e5bd66;
     cgy := 0x011839296a789a3bc0045c8a5fb42c7d1bd998f54449579b446817afbd17273e662c97ee72995ef42640c550b9013fad0761353c7086a272c24088be94769fd16650;
     cn := 0x01fffffffffffffffffffffffffffffffffffffffffffffffffffffffffffffffffffa51868783bf2f966b7fcc0148f709a5d03bb5c9b8899c47aebb6fb71e91386409; csize := 66 |}.

Definition curve_of (crv : Z) : option curve :=
  if crv =? 1 then Some p256 else if crv =? 2 then Some p384 else if crv =? 3 then Some p521 else None.

(* modular exponentiation by squaring, on the bits of a positive exponent *)
Fixpoint powmod_pos (b : Z) (e : positive) (m : Z) : Z :=
  match e with
  | xH => b mod m
  | xO e' => let h := powmod_pos b e' m in (h * h) mod m
  | xI e' => let h := powmod_pos b e' m in ((h * h) mod m * b) mod m
  end.
Definition powmod (b e m : Z) : Z := match e with Zpos p => powmod_pos b p m | _ => 1 mod m end.
Definition invmod (a m : Z) : Z := powmod a (m - 2) m.

Definition on_curve (c : curve) (x y : Z) : bool :=
  (0 <=? x) && (x <? cp c) && (0 <=? y) && (y <? cp c)
  && ((y * y) mod cp c =? (x * x * x + ca c * x + cb c) mod cp c).

(* point decompression (SEC 1 2.3.4): all three primes are 3 mod 4 *)
Definition decompress (c : curve) (x : Z) (odd : bool) : option (Z * Z) :=
  if negb ((0 <=? x) && (x <? cp c)) then None else
  let rhs := (x * x * x + ca c * x + cb c) mod cp c in
  let y := powmod rhs ((cp c + 1) / 4) (cp c) in
  if negb ((y * y) mod cp c =? rhs) then None
  else let y' := if Bool.eqb (Z.odd y) odd then y else (cp c - y) mod cp c in Some (x, y').

(* Jacobian coordinates; Z = 0 is the point at infinity *)
Definition jdouble (c : curve) (P : Z * Z * Z) : Z * Z * Z :=
  let '(X1, Y1, Z1) := P in let p := cp c in
  if (Z1 =? 0) || (Y1 =? 0) then (1, 1, 0) else
  let YY := (Y1 * Y1) mod p in
  let S := (4 * X1 * YY) mod p in
  let ZZ := (Z1 * Z1) mod p in
  let M := (3 * X1 * X1 + ca c * ZZ * ZZ) mod p in
  let X3 := (M * M - 2 * S) mod p in
  let Y3 := (M * (S - X3) - 8 * YY * YY) mod p in
  let Z3 := (2 * Y1 * Z1) mod p in (X3, Y3, Z3).

Definition jadd (c : curve) (P Q : Z * Z * Z) : Z * Z * Z :=
  let '(X1, Y1, Z1) := P in let '(X2, Y2, Z2) := Q in let p := cp c in
  if Z1 =? 0 then Q else if Z2 =? 0 then P else
  let Z1Z1 := (Z1 * Z1) mod p in let Z2Z2 := (Z2 * Z2) mod p in
  let U1 := (X1 * Z2Z2) mod p in let U2 := (X2 * Z1Z1) mod p in
  let S1 := (Y1 * Z2 * Z2Z2) mod p in let S2 := (Y2 * Z1 * Z1Z1) mod p in
  if U1 =? U2 then (if S1 =? S2 then jdouble c P else (1, 1, 0)) else
  let H := (U2 - U1) mod p in let R := (S2 - S1) mod p in
  let HH := (H * H) mod p in let HHH := (H * HH) mod p in let V := (U1 * HH) mod p in
  let X3 := (R * R - HHH - 2 * V) mod p in
  let Y3 := (R * (V - X3) - S1 * HHH) mod p in
  let Z3 := (H * Z1 * Z2) mod p in (X3, Y3, Z3).

Fixpoint jmul_pos (c : curve) (k : positive) (P : Z * Z * Z) : Z * Z * Z :=
  match k with
  | xH => P
  | xO k' => jdouble c (jmul_pos c k' P)
  | xI k' => jadd c (jdouble c (jmul_pos c k' P)) P
  end.

Definition to_affine (c : curve) (P : Z * Z * Z) : option (Z * Z) :=
  let '(X, Y, Zc) := P in
  if Zc =? 0 then None else
  let zi := invmod Zc (cp c) in let zi2 := (zi * zi) mod cp c in
  Some ((X * zi2) mod cp c, (Y * zi2 * zi) mod cp c).

Definition scalar_mul (c : curve) (k : Z) (x y : Z) : option (Z * Z) :=
  match k with
  | Zpos p => to_affine c (jmul_pos c p (x, y, 1))
  | _ => None
  end.

Definition base_mul (c : curve) (k : Z) : option (Z * Z) := scalar_mul c k (cgx c) (cgy c).

(* ---------------------------------------------------------------- X25519 (RFC 7748 section 5) *)
Definition p25519 : Z := 2^255 - 19.
Definition le_to_Z (b : bytes) : Z := Z.of_N (of_be (rev b)).
Definition Z_to_le (n : nat) (z : Z) : bytes := rev (be n (Z.to_N z)).

Definition decode_scalar (k : bytes) : Z :=
  let z := le_to_Z k in
  (* clear bits 0,1,2 and 255; set bit 254 *)
  Z.lor (Z.land z (2^255 - 8)) (2^254).

Definition decode_u (u : bytes) : Z := (le_to_Z u mod 2^255) mod p25519.

Fixpoint ladder (n : nat) (k x1 x2 z2 x3 z3 swap : Z) : Z * Z * Z * Z * Z :=
  match n with
  | O => (x2, z2, x3, z3, swap)
  | S t =>
      let p := p25519 in
      let kt := if Z.testbit k (Z.of_nat t) then 1 else 0 in
      let sw := Z.lxor swap kt in
      let '(x2, x3) := if sw =? 1 then (x3, x2) else (x2, x3) in
      let '(z2, z3) := if sw =? 1 then (z3, z2) else (z2, z3) in
      let A := (x2 + z2) mod p in let AA := (A * A) mod p in
      let B := (x2 - z2) mod p in let BB := (B * B) mod p in
      let E := (AA - BB) mod p in
      let C0 := (x3 + z3) mod p in let D := (x3 - z3) mod p in
      let DA := (D * A) mod p in let CB := (C0 * B) mod p in
      let x3' := ((DA + CB) * (DA + CB)) mod p in
      let z3' := (x1 * (((DA - CB) * (DA - CB)) mod p)) mod p in
      let x2' := (AA * BB) mod p in
      let z2' := (E * ((AA + 121665 * E) mod p)) mod p in
      ladder t k x1 x2' z2' x3' z3' kt
  end.

Definition x25519 (k u : bytes) : bytes :=
  let kz := decode_scalar k in let x1 := decode_u u in
  let '(x2, z2, x3, z3, swap) := ladder 255 kz x1 1 0 x1 1 0 in
  let '(x2, x3) := if swap =? 1 then (x3, x2) else (x2, x3) in
  let '(z2, z3) := if swap =? 1 then (z3, z2) else (z2, z3) in
  Z_to_le 32 ((x2 * powmod z2 (p25519 - 2) p25519) mod p25519).

Definition x25519_base : bytes := Byte.x09 :: zeros 31.
