(* ChaCha20 and Poly1305 and the AEAD_CHACHA20_POLY1305 construction of RFC 8439. *)
From Coq Require Import String.
From Coq Require Import NArith List Arith Lia Bool.
From Cose Require Import Lib.Base Lib.CbcMac Spec.RFC3610.
Import ListNotations.
Open Scope N_scope.

Definition m32 (x : N) : N := N.land x 4294967295.
Definition rotl32 (x n : N) : N := m32 (N.lor (N.shiftl x n) (N.shiftr x (32 - n))).

(* little-endian *)
Definition le (k : nat) (n : N) : bytes := rev (be k n).
Definition of_le (b : bytes) : N := of_be (rev b).

Definition qr (a b c d : N) : N * N * N * N :=
  let a := m32 (a + b) in let d := rotl32 (N.lxor d a) 16 in
  let c := m32 (c + d) in let b := rotl32 (N.lxor b c) 12 in
  let a := m32 (a + b) in let d := rotl32 (N.lxor d a) 8 in
  let c := m32 (c + d) in let b := rotl32 (N.lxor b c) 7 in
  (a, b, c, d).

Definition upd (s : list N) (i : nat) (v : N) : list N := (firstn i s ++ v :: skipn (Datatypes.S i) s)%list.
Definition qround (s : list N) (a b c d : nat) : list N :=
  let '(x, y, z, w) := qr (nth a s 0) (nth b s 0) (nth c s 0) (nth d s 0) in
  upd (upd (upd (upd s a x) b y) c z) d w.

Definition double_round (s : list N) : list N :=
  let s := qround s 0 4 8 12 in let s := qround s 1 5 9 13 in
  let s := qround s 2 6 10 14 in let s := qround s 3 7 11 15 in
  let s := qround s 0 5 10 15 in let s := qround s 1 6 11 12 in
  let s := qround s 2 7 8 13 in qround s 3 4 9 14.

Fixpoint iter {A} (n : nat) (f : A -> A) (x : A) : A := match n with O => x | Datatypes.S n' => iter n' f (f x) end.

Fixpoint le_words (n : nat) (b : bytes) : list N :=
  match n with O => [] | Datatypes.S n' => of_le (firstn 4 b) :: le_words n' (skipn 4 b) end.

Definition chacha20_block (key nonce : bytes) (counter : N) : bytes :=
  let init := ([1634760805; 857760878; 2036477234; 1797285236] ++ le_words 8 key ++ [m32 counter] ++ le_words 3 nonce)%list in
  let fin := iter 10 double_round init in
  flat_map (le 4) (map (fun p => m32 (fst p + snd p)) (combine init fin)).

Fixpoint chacha20_stream (key nonce : bytes) (counter : N) (nblocks : nat) : bytes :=
  match nblocks with O => [] | Datatypes.S n => (chacha20_block key nonce counter ++ chacha20_stream key nonce (counter + 1) n)%list end.

(* Poly1305 *)
Definition p1305 : N := 2 ^ 130 - 5.
Definition clamp (r : N) : N := N.land r 21267647620597763993911028882763415551.  (* 0x0ffffffc0ffffffc0ffffffc0fffffff *)
Fixpoint poly_blocks (fuel : nat) (r acc : N) (msg : bytes) : N :=
  match fuel with
  | O => acc
  | Datatypes.S f =>
      match msg with
      | [] => acc
      | _ =>
          let blk := firstn 16 msg in
          let n := of_le (blk ++ [Byte.x01])%list in
          poly_blocks f r (((acc + n) * r) mod p1305) (skipn 16 msg)
      end
  end.
Definition poly1305 (key msg : bytes) : bytes :=
  let r := clamp (of_le (firstn 16 key)) in
  let s := of_le (skipn 16 key) in
  let acc := poly_blocks (Datatypes.S (length msg / 16)) r 0 msg in
  le 16 ((acc + s) mod 2 ^ 128).

Definition pad16_bytes (b : bytes) : bytes := (b ++ zeros (pad_len (length b)))%list.

Definition chachapoly_tag (key nonce c a : bytes) : bytes :=
  let otk := firstn 32 (chacha20_block key nonce 0) in
  poly1305 otk (pad16_bytes a ++ pad16_bytes c ++ le 8 (N.of_nat (length a)) ++ le 8 (N.of_nat (length c)))%list.

Definition chachapoly_seal (key nonce p a : bytes) : bytes :=
  let c := xor_bytes_trunc p (chacha20_stream key nonce 1 ((length p + 63) / 64)) in
  (c ++ chachapoly_tag key nonce c a)%list.

Definition chachapoly_open (key nonce ct a : bytes) : option bytes :=
  if (length ct <? 16)%nat then None
  else
    let c := firstn (length ct - 16) ct in
    let t := skipn (length ct - 16) ct in
    if bytes_eqb t (chachapoly_tag key nonce c a)
    then Some (xor_bytes_trunc c (chacha20_stream key nonce 1 ((length c + 63) / 64)))
    else None.
