(* HMAC (RFC 2104 / FIPS 198-1) over the Gallina SHA-2. *)
From Coq Require Import String.
From Coq Require Import NArith List Lia.
From Cose Require Import Lib.Base Lib.Sha2.
Import ListNotations.

Definition xor_pad (c : Byte.byte) (k : bytes) : bytes := map (fun b => xor_byte b c) k.

Section H.
Variable hash : bytes -> bytes.
Variable block : nat.       (* 64 for SHA-256, 128 for SHA-384/512 *)

Definition hmac (key msg : bytes) : bytes :=
  let k0 := if Nat.ltb block (length key) then hash key else key in
  let k := (k0 ++ zeros (block - length k0))%list in
  hash (xor_pad Byte.x5c k ++ hash (xor_pad Byte.x36 k ++ msg))%list.
End H.

Definition hmac_sha256 := hmac sha256 64.
Definition hmac_sha384 := hmac sha384 128.
Definition hmac_sha512 := hmac sha512 128.

Lemma hmac_sha256_length k m : length (hmac_sha256 k m) = 32%nat. Proof. apply sha256_length. Qed.
Lemma hmac_sha384_length k m : length (hmac_sha384 k m) = 48%nat. Proof. apply sha384_length. Qed.
Lemma hmac_sha512_length k m : length (hmac_sha512 k m) = 64%nat. Proof. apply sha512_length. Qed.
