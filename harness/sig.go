package main

import (
	"bytes"
	"crypto"
	goecdsa "crypto/ecdsa"
	goed "crypto/ed25519"
	"crypto/elliptic"
	"crypto/rand"
	_ "crypto/sha256"
	_ "crypto/sha512"
	"fmt"
	"math/big"

	"github.com/ldclabs/cose/iana"
	"github.com/ldclabs/cose/key"
	"github.com/ldclabs/cose/key/ecdsa"
	"github.com/ldclabs/cose/key/ed25519"
)

func init() { streams["sig"] = streamSig }

type sigAlg struct {
	alg   int
	crv   int
	curve elliptic.Curve
	hash  crypto.Hash
	size  int
}

var sigAlgs = []sigAlg{{-7, 1, elliptic.P256(), crypto.SHA256, 32}, {-35, 2, elliptic.P384(), crypto.SHA384, 48}, {-36, 3, elliptic.P521(), crypto.SHA512, 66}}

func qBigZ(b *big.Int) string {
	if b.Sign() < 0 {
		return "(" + b.String() + ")"
	}
	return b.String()
}

// ecKeyFromScalar builds a COSE private key from a chosen scalar, so that scalars and coordinates with leading zero
// bytes occur at will.
func ecKeyFromScalar(a sigAlg, d *big.Int) (key.Key, *goecdsa.PrivateKey) {
	priv := new(goecdsa.PrivateKey)
	priv.Curve = a.curve
	priv.D = d
	priv.X, priv.Y = a.curve.ScalarBaseMult(d.Bytes())
	k, err := ecdsa.KeyFromPrivate(priv)
	if err != nil {
		return nil, nil
	}
	// every key carries the same key id: an implementation must not identify key material by kid
	k[iana.KeyParameterKid] = []byte("kid-shared-by-all-keys")
	return k, priv
}

func streamSig(c *ctx) {
	c.beginCases("From Cose Require Import Model.GoVal Model.Key Model.Ecdsa.", "sig_case", "check_sig_case")
	fail := func(op, what, in string, obs, exp any) {
		c.fail(failure{Op: op, What: what, Input: short(in), Observed: short(fmt.Sprint(obs)), Expected: short(fmt.Sprint(exp)), Case: short(in)})
	}
	// ---- the r || s codec on boundary values
	for _, a := range sigAlgs {
		n := a.curve.Params().N
		top := new(big.Int).Lsh(big.NewInt(1), uint(8*a.size))
		vals := []*big.Int{big.NewInt(0), big.NewInt(1), big.NewInt(255), big.NewInt(256), new(big.Int).Sub(n, big.NewInt(1)), n, new(big.Int).Add(n, big.NewInt(1)),
			new(big.Int).Sub(top, big.NewInt(1)), top, new(big.Int).Add(top, big.NewInt(1)), big.NewInt(-1), new(big.Int).Lsh(big.NewInt(1), uint(8*a.size-8)), new(big.Int).Lsh(big.NewInt(1), uint(8*a.size-9))}
		for k := 0; k < 8*a.size; k += 37 {
			vals = append(vals, new(big.Int).Lsh(big.NewInt(1), uint(k)))
		}
		for i := 0; i < c.n(40, 400); i++ {
			vals = append(vals, new(big.Int).SetBytes(c.r.bytes(1+c.r.intn(a.size))))
		}
		for i, r := range vals {
			s := vals[(i*7+3)%len(vals)]
			out, err := ecdsa.EncodeSignature(a.curve, r, s)
			t := "None"
			if err == nil {
				t = "(Some " + qHex(out) + ")"
			}
			c.addCase(fmt.Sprintf("SigEnc %d %s %s %s", a.crv, qBigZ(r), qBigZ(s), t), fmt.Sprintf("EncodeSignature|crv=%d|r=%s|s=%s => %x err=%v", a.crv, r, s, out, err))
			c.nontriv(fmt.Sprintf("enc|%d|%v", a.crv, err == nil))
			if err == nil {
				r2, s2, derr := ecdsa.DecodeSignature(a.curve, out)
				if derr != nil || r2.Cmp(r) != 0 || s2.Cmp(s) != 0 || len(out) != 2*a.size {
					fail("sig-codec", "DecodeSignature does not invert EncodeSignature", fmt.Sprintf("crv=%d r=%s s=%s", a.crv, r, s), fmt.Sprint(r2, s2, derr, len(out)), "r, s, fixed length")
				}
			}
		}
		for _, l := range []int{0, 1, a.size, 2*a.size - 1, 2 * a.size, 2*a.size + 1, 4 * a.size} {
			sig := c.r.bytes(l)
			if l == 2*a.size && c.r.bool() {
				copy(sig, make([]byte, 5)) // leading zero bytes in r
			}
			r, s, err := ecdsa.DecodeSignature(a.curve, sig)
			t := "None"
			if err == nil {
				t = fmt.Sprintf("(Some (%s, %s))", qBigZ(r), qBigZ(s))
			}
			c.addCase(fmt.Sprintf("SigDec %d %s %s", a.crv, qHex(sig), t), fmt.Sprintf("DecodeSignature|crv=%d|%x => err=%v", a.crv, sig, err))
			c.nontriv(fmt.Sprintf("dec|%d|%d|%v", a.crv, l, err == nil))
		}
		c.addCase(fmt.Sprintf("AlgCase %s %d %d", qZ(int64(a.alg)), int(key.Alg(a.alg).HashFunc()), 2*a.size), fmt.Sprintf("alg %d", a.alg))
	}
	// ---- the digest handed to the primitive
	for i := 0; i < c.n(30, 300); i++ {
		h := pick(c.r, []crypto.Hash{crypto.SHA256, crypto.SHA384, crypto.SHA512, crypto.SHA1, crypto.Hash(0)})
		msg := c.r.bytes(pick(c.r, []int{0, 1, 55, 56, 63, 64, 111, 112, 127, 128, 200}))
		var d []byte
		var err error
		p, _ := catch(func() { d, err = key.ComputeHash(h, msg) })
		t := "None"
		if !p && err == nil {
			t = "(Some " + qHex(d) + ")"
		}
		c.addCase(fmt.Sprintf("HashCase %d %s %s", int(h), qHex(msg), t), fmt.Sprintf("ComputeHash|%d|%x", int(h), msg))
	}
	// ---- sign / verify against crypto/ecdsa with the prescribed hash
	msgLens := []int{0, 1, 32, 1000}
	if c.thorough() {
		msgLens = append(msgLens, 65535, 65536, 70000)
	}
	for round := 0; round < c.n(6, 60); round++ {
		for _, a := range sigAlgs {
			var d *big.Int
			nOrd := a.curve.Params().N
			boundary := []*big.Int{new(big.Int).Sub(nOrd, big.NewInt(1)), new(big.Int).Sub(nOrd, big.NewInt(2)), big.NewInt(1), big.NewInt(2), new(big.Int).Rsh(nOrd, 1)}
			switch round % 3 {
			case 0: // small scalars: private key with many leading zero bytes
				d = big.NewInt(int64(1 + c.r.intn(1000)))
			case 1: // search a key whose x or y has a leading zero byte
				for t := 0; t < 600; t++ {
					d = new(big.Int).SetBytes(c.r.bytes(a.size - 1))
					if d.Sign() == 0 {
						continue
					}
					x, y := a.curve.ScalarBaseMult(d.Bytes())
					if len(x.Bytes()) < a.size || len(y.Bytes()) < a.size {
						break
					}
				}
			default:
				d = new(big.Int).SetBytes(c.r.bytes(a.size - 1))
				d.Add(d, big.NewInt(1))
			}
			if round < len(boundary) { // the first rounds: the extreme valid scalars n-1, n-2, 1, 2 and n/2
				d = boundary[round]
			}
			k, priv := ecKeyFromScalar(a, d)
			if k == nil {
				fail("sig-key", "KeyFromPrivate refused a valid private key", fmt.Sprintf("crv=%d d=%s", a.crv, d), "error", "a key")
				continue
			}
			line := fmt.Sprintf("ecdsa|alg=%d|d=%s", a.alg, d)
			signer, err := ecdsa.NewSigner(k)
			if err != nil {
				fail("sig-key", "NewSigner refused a key built from a valid private key", line, err, "a signer")
				continue
			}
			// the public key in every form it can be obtained
			pubs := map[string]key.Key{}
			if pk, err := ecdsa.ToPublicKey(k); err == nil {
				pubs["derived"] = pk
				if b, err := key.MarshalCBOR(pk); err == nil {
					var pk2 key.Key
					if key.UnmarshalCBOR(b, &pk2) == nil {
						pubs["exported"] = pk2
					}
				}
			} else {
				fail("sig-key", "ToPublicKey failed on a valid private key", line, err, "a public key")
			}
			if ck, err := ecdsa.ToCompressedKey(k); err == nil {
				pubs["compressed"] = ck
			} else {
				fail("sig-key", "ToCompressedKey failed on a valid private key", line, err, "a compressed key")
			}
			pubs["private"] = k
			if pk, err := ecdsa.KeyFromPublic(&priv.PublicKey); err == nil {
				pubs["from-go"] = pk
			}
			for _, ml := range msgLens {
				msg := c.r.bytes(ml)
				sig, err := signer.Sign(msg)
				c.eval()
				c.nontriv(fmt.Sprintf("sign|%d|%d", a.alg, ml))
				if err != nil || len(sig) != 2*a.size {
					fail("sig-sign", "Sign failed or returned a signature of another length", line+fmt.Sprintf("|msg %d bytes", ml), fmt.Sprintf("%x err=%v", sig, err), 2*a.size)
					continue
				}
				// independent verification with the prescribed hash
				h := a.hash.New()
				h.Write(msg)
				digest := h.Sum(nil)
				r, s := new(big.Int).SetBytes(sig[:a.size]), new(big.Int).SetBytes(sig[a.size:])
				if !goecdsa.Verify(&priv.PublicKey, digest, r, s) {
					fail("sig-sign", "a signature of the library does not verify under crypto/ecdsa with the prescribed hash", line+fmt.Sprintf("|msg %x", msg), fmt.Sprintf("%x", sig), "valid")
				}
				for form, pk := range pubs {
					v, err := ecdsa.NewVerifier(pk)
					if err != nil {
						fail("sig-verify", "NewVerifier refused the "+form+" form of the public key", line, err, "a verifier")
						continue
					}
					c.eval()
					if err := v.Verify(msg, sig); err != nil {
						fail("sig-verify", "a signature does not verify under the "+form+" public key", line+fmt.Sprintf("|msg %d bytes", ml), err, "nil")
					}
					if form != "derived" {
						continue
					}
					// other data, other lengths, changed bits
					if v.Verify(append([]byte{1}, msg...), sig) == nil {
						fail("sig-verify", "a signature verified over other data", line, "accepted", "an error")
					}
					for _, bad := range [][]byte{sig[:len(sig)-1], append(append([]byte{}, sig...), 0), sig[:a.size], {}, append([]byte{0}, sig...), nil} {
						c.eval()
						p, pm := catch(func() {
							if v.Verify(msg, bad) == nil {
								fail("sig-verify", "a signature of another length verified", line+fmt.Sprintf("|%x", bad), "accepted", "an error")
							}
						})
						if p {
							fail("sig-verify", "Verify panics on a signature of another length", line+fmt.Sprintf("|%x", bad), pm, "an error")
						}
					}
					flips := c.n(40, 0)
					for j := 0; j < 8*len(sig); j++ {
						if flips > 0 && c.r.intn(8*len(sig)) >= flips {
							continue
						}
						m := append([]byte{}, sig...)
						m[j/8] ^= 1 << uint(j%8)
						c.eval()
						if v.Verify(msg, m) == nil {
							fail("sig-verify", "a signature with one bit changed verified", line+fmt.Sprintf("|bit %d of %x", j, sig), "accepted", "an error")
						}
					}
				}
				// signatures made independently verify under the library (r, s left-padded by the harness)
				r2, s2, err := goecdsa.Sign(rand.Reader, priv, digest)
				if err == nil {
					fixed := make([]byte, 2*a.size)
					r2.FillBytes(fixed[:a.size])
					s2.FillBytes(fixed[a.size:])
					v, _ := ecdsa.NewVerifier(pubs["derived"])
					c.eval()
					if v == nil || v.Verify(msg, fixed) != nil {
						fail("sig-verify", "a signature made by crypto/ecdsa does not verify under the library", line+fmt.Sprintf("|%x", fixed), "rejected", "nil")
					}
				}
			}
			// the same private key with d written one octet longer (a leading 0x00, as signed-integer serialisers do) and,
			// when it has one, without its leading zero octets: the same key
			if dBytes, err := k.GetBytes(iana.EC2KeyParameterD); err == nil {
				padTo := func(n int) []byte {
					if n < len(dBytes) {
						return dBytes
					}
					return append(make([]byte, n-len(dBytes)), dBytes...)
				}
				for vn, dv := range map[string][]byte{"d with a leading zero octet": append([]byte{0}, dBytes...), "d without its leading zero octets": stripZeros(dBytes),
					"d padded to the curve size": padTo(a.size), "d padded to one octet more than the curve size": padTo(a.size + 1), "d padded to 66 octets": padTo(66)} {
					if len(dv) > 66 || len(dv) == 0 || bytes.Equal(dv, dBytes) {
						continue
					}
					kz := cloneKey(k)
					kz[iana.EC2KeyParameterD] = dv
					if ecdsa.CheckKey(kz) != nil {
						continue
					}
					c.eval()
					c.nontriv(fmt.Sprintf("d-form|%d|%s", a.alg, vn))
					pz, perr := ecdsa.ToPublicKey(kz)
					sz, serr := ecdsa.NewSigner(kz)
					if perr != nil || serr != nil {
						fail("sig-key", "a private key with "+vn+" passes CheckKey but yields no public key or signer", line+"|"+describe(kz), fmt.Sprint(perr, serr), "the same key")
						continue
					}
					xz, _ := pz.GetBytes(iana.EC2KeyParameterX)
					xo, _ := pubs["derived"].GetBytes(iana.EC2KeyParameterX)
					if !bytes.Equal(xz, xo) {
						fail("sig-key", "the public key derived from a private key with "+vn+" is not d*G", line+"|"+describe(kz), fmt.Sprintf("%x", xz), fmt.Sprintf("%x", xo))
					}
					if sig, err := sz.Sign([]byte("m")); err == nil {
						if vz, err := ecdsa.NewVerifier(pubs["derived"]); err == nil && vz.Verify([]byte("m"), sig) != nil {
							fail("sig-verify", "a signature made with a private key with "+vn+" does not verify under the public key of d", line+"|"+describe(kz), "rejected", "nil")
						}
						if vz, err := ecdsa.NewVerifier(kz); err == nil && vz.Verify([]byte("m"), sig) != nil {
							fail("sig-verify", "a signature made with a private key with "+vn+" does not verify under the verifier of that very key", line+"|"+describe(kz), "rejected", "nil")
						}
					}
				}
			}
			// a key converted from a Go key is a value of its own: the Go key changed afterwards does not change it
			{
				p2 := &goecdsa.PrivateKey{PublicKey: goecdsa.PublicKey{Curve: a.curve, X: new(big.Int).Set(priv.X), Y: new(big.Int).Set(priv.Y)}, D: new(big.Int).Set(priv.D)}
				if kc, err := ecdsa.KeyFromPrivate(p2); err == nil {
					before := qMap(kc)
					p2.D.SetInt64(7)
					p2.X.SetInt64(1)
					if qMap(kc) != before {
						fail("sig-key", "a key made by KeyFromPrivate changes when the Go key it was made from is changed afterwards", line, "changed", "a value of its own")
					}
				}
			}
			// a signer of another key
			k2, _ := ecKeyFromScalar(a, new(big.Int).Add(d, big.NewInt(1)))
			if k2 != nil {
				s2, _ := ecdsa.NewSigner(k2)
				v, _ := ecdsa.NewVerifier(pubs["derived"])
				if s2 != nil && v != nil {
					sig, _ := s2.Sign([]byte("m"))
					if v.Verify([]byte("m"), sig) == nil {
						fail("sig-verify", "a signature from another key verified", line, "accepted", "an error")
					}
				}
			}
		}
		// ---- signatures with chosen r and s: a point R with a chosen x coordinate (so r = x has as many leading zero
		// octets as wanted), a chosen s, a message, and the public key Q = r^-1 (sR - eG) under which (r, s) is the
		// signature of that message. Leading zero octets in r or s occur once in 256 signatures each, two of them once in
		// 65536: made at will here.
		for _, a := range sigAlgs {
			P, N, B := a.curve.Params().P, a.curve.Params().N, a.curve.Params().B
			shapes := [][2]int{{1, 0}, {2, 0}, {0, 2}, {3, 1}, {a.size - 1, 0}, {0, a.size - 1}, {2, 2}, {0, 0}}
			zr, zs := shapes[round%len(shapes)][0], shapes[round%len(shapes)][1]
			for try := 0; try < 200; try++ {
				xb := c.r.bytes(a.size - zr)
				if zr > 0 {
					xb[0] &= 0x7f // the octet after the zeros below 0x80: a DER INTEGER of it has no padding octet of its own
				}
				x := new(big.Int).SetBytes(xb)
				if x.Sign() == 0 || x.Cmp(N) >= 0 {
					continue
				}
				y2 := new(big.Int).Exp(x, big.NewInt(3), P)
				y2.Sub(y2, new(big.Int).Mul(x, big.NewInt(3))).Add(y2, B).Mod(y2, P)
				y := new(big.Int).ModSqrt(y2, P)
				if y == nil {
					continue
				}
				sb := c.r.bytes(a.size - zs)
				if zs > 0 {
					sb[0] &= 0x7f
				}
				sv := new(big.Int).SetBytes(sb)
				if sv.Sign() == 0 || sv.Cmp(N) >= 0 {
					continue
				}
				msg := c.r.bytes(1 + c.r.intn(40))
				h := a.hash.New()
				h.Write(msg)
				digest := h.Sum(nil)
				e := new(big.Int).SetBytes(digest) // no truncation: the hash is not longer than the group order for the three pairs
				sRx, sRy := a.curve.ScalarMult(x, y, sv.Bytes())
				eGx, eGy := a.curve.ScalarBaseMult(new(big.Int).Mod(e, N).Bytes())
				var tx, ty *big.Int
				if eGx.Sign() == 0 && eGy.Sign() == 0 {
					tx, ty = sRx, sRy
				} else {
					eGy = new(big.Int).Sub(P, eGy)
					if sRx.Cmp(eGx) == 0 {
						continue // same or opposite points: the generic addition does not apply
					}
					tx, ty = a.curve.Add(sRx, sRy, eGx, eGy)
				}
				rinv := new(big.Int).ModInverse(x, N)
				qx, qy := a.curve.ScalarMult(tx, ty, rinv.Bytes())
				if qx.Sign() == 0 && qy.Sign() == 0 {
					continue
				}
				pub := &goecdsa.PublicKey{Curve: a.curve, X: qx, Y: qy}
				if !goecdsa.Verify(pub, digest, x, sv) {
					fail("sig-harness", "constructed signature not accepted by crypto/ecdsa", fmt.Sprintf("alg=%d x=%s s=%s", a.alg, x, sv), "rejected", "accepted")
					break
				}
				fixed := make([]byte, 2*a.size)
				x.FillBytes(fixed[:a.size])
				sv.FillBytes(fixed[a.size:])
				line := fmt.Sprintf("ecdsa-constructed|alg=%d|Q=(%x,%x)|msg=%x|sig=%x", a.alg, qx, qy, msg, fixed)
				pk, err := ecdsa.KeyFromPublic(pub)
				if err != nil {
					fail("sig-key", "KeyFromPublic refused a valid public key", line, err, "a key")
					break
				}
				forms := map[string]key.Key{"from-go": pk}
				if ck, err := ecdsa.ToCompressedKey(pk); err == nil {
					forms["compressed"] = ck
				}
				for form, vk := range forms {
					v, err := ecdsa.NewVerifier(vk)
					c.eval()
					c.nontriv(fmt.Sprintf("constructed|%d|zr=%d|zs=%d", a.alg, zr, zs))
					if err != nil {
						fail("sig-verify", "NewVerifier refused the "+form+" form of the public key", line, err, "a verifier")
						continue
					}
					if err := v.Verify(msg, fixed); err != nil {
						fail("sig-verify", fmt.Sprintf("a valid signature whose r has %d and s has %d leading zero octets does not verify under the library (%s key)", zr, zs, form), line, err, "nil (crypto/ecdsa accepts it)")
					}
					r3, s3, derr := ecdsa.DecodeSignature(a.curve, fixed)
					if derr != nil || r3.Cmp(x) != 0 || s3.Cmp(sv) != 0 {
						fail("sig-codec", "DecodeSignature does not return r and s of a fixed-length signature", line, fmt.Sprint(r3, s3, derr), "r, s")
					}
					m := append([]byte{}, fixed...)
					m[len(m)-1] ^= 1
					if v.Verify(msg, m) == nil {
						fail("sig-verify", "a signature with one bit changed verified", line, "accepted", "an error")
					}
				}
				break
			}
		}
		// ---- Ed25519
		seed := c.r.bytes(32)
		ek, err := ed25519.KeyFromSeed(seed)
		if err != nil {
			fail("sig-key", "ed25519.KeyFromSeed failed", fmt.Sprintf("%x", seed), err, "a key")
			continue
		}
		ek[iana.KeyParameterKid] = []byte("kid-shared-by-all-keys")
		es, _ := ed25519.NewSigner(ek)
		epk, _ := ed25519.ToPublicKey(ek)
		ev, _ := ed25519.NewVerifier(epk)
		gopriv := goed.NewKeyFromSeed(seed)
		// keys converted from Go keys through a buffer the caller goes on to reuse (zeroise, load the next key)
		{
			buf := append(goed.PrivateKey{}, gopriv...)
			kc, err := ed25519.KeyFromPrivate(buf)
			if err == nil {
				before := qMap(kc)
				for i := range buf {
					buf[i] = 0
				}
				c.eval()
				if qMap(kc) != before {
					fail("sig-key", "an Ed25519 key made by KeyFromPrivate changes when the caller's buffer is overwritten afterwards", fmt.Sprintf("seed %x", seed), "changed", "a value of its own")
				} else if sc, err := ed25519.NewSigner(kc); err != nil {
					fail("sig-key", "an Ed25519 key made by KeyFromPrivate yields no signer", fmt.Sprintf("seed %x", seed), err, "a signer")
				} else if sig, err := sc.Sign([]byte("m")); err != nil || !goed.Verify(gopriv.Public().(goed.PublicKey), []byte("m"), sig) {
					fail("sig-sign", "a signature of a key made by KeyFromPrivate does not verify under the public key of the Go key it was made from", fmt.Sprintf("seed %x", seed), err, "valid")
				}
			}
			sbuf := append([]byte{}, seed...)
			if ks, err := ed25519.KeyFromSeed(sbuf); err == nil {
				before := qMap(ks)
				sbuf[0] ^= 0xff
				if qMap(ks) != before {
					fail("sig-key", "an Ed25519 key made by KeyFromSeed changes when the caller's seed buffer is overwritten afterwards", fmt.Sprintf("seed %x", seed), "changed", "a value of its own")
				}
			}
		}
		for _, ml := range msgLens {
			msg := c.r.bytes(ml)
			sig, err := es.Sign(msg)
			c.eval()
			if err != nil || len(sig) != 64 {
				fail("sig-sign", "Ed25519 Sign failed or returned other than 64 bytes", fmt.Sprintf("seed %x", seed), fmt.Sprintf("%x %v", sig, err), 64)
				continue
			}
			if !goed.Verify(gopriv.Public().(goed.PublicKey), msg, sig) || !bytes.Equal(sig, goed.Sign(gopriv, msg)) {
				fail("sig-sign", "an Ed25519 signature of the library differs from crypto/ed25519 over the raw message", fmt.Sprintf("seed %x msg %x", seed, msg), fmt.Sprintf("%x", sig), "equal")
			}
			for form, vk := range map[string]key.Key{"derived": epk, "private": ek} {
				v, err := ed25519.NewVerifier(vk)
				if err != nil || v.Verify(msg, sig) != nil {
					fail("sig-verify", "an Ed25519 signature does not verify under the "+form+" key", fmt.Sprintf("seed %x", seed), err, "nil")
				}
			}
			for _, bad := range [][]byte{sig[:63], append(append([]byte{}, sig...), 0), {}, nil} {
				p, pm := catch(func() {
					if ev.Verify(msg, bad) == nil {
						fail("sig-verify", "an Ed25519 signature of another length verified", fmt.Sprintf("%x", bad), "accepted", "an error")
					}
				})
				if p {
					fail("sig-verify", "Ed25519 Verify panics on a signature of another length", fmt.Sprintf("%x", bad), pm, "an error")
				}
			}
			for j := 0; j < 512; j += 1 + c.r.intn(c.n(12, 1)) {
				m := append([]byte{}, sig...)
				m[j/8] ^= 1 << uint(j%8)
				c.eval()
				if ev.Verify(msg, m) == nil {
					fail("sig-verify", "an Ed25519 signature with one bit changed verified", fmt.Sprintf("bit %d of %x", j, sig), "accepted", "an error")
				}
			}
			if ev.Verify(append([]byte{1}, msg...), sig) == nil {
				fail("sig-verify", "an Ed25519 signature verified over other data", fmt.Sprintf("seed %x", seed), "accepted", "an error")
			}
		}
		_ = iana.AlgorithmEdDSA
	}
}
