package main

import (
	"crypto/hmac"
	"crypto/sha256"
	"errors"

	"github.com/ldclabs/cose/key"
)

// Deterministic fake primitives: they let the message layer be compared byte for byte and make the
// algorithm / key_ops logic the only gate. `strict` fakes verify like a real MAC (HMAC-SHA-256 over the
// data under a fixed key); permissive ones accept everything. recorders remember their arguments.

type fakeSigner struct {
	k    key.Key
	seen *[][]byte
}

func fakeSig(data []byte) []byte {
	m := hmac.New(sha256.New, []byte("verif-fake-signature-key"))
	m.Write(data)
	return m.Sum(nil)
}
func (f fakeSigner) Sign(data []byte) ([]byte, error) {
	if f.seen != nil {
		*f.seen = append(*f.seen, append([]byte{}, data...))
	}
	return fakeSig(data), nil
}
func (f fakeSigner) Key() key.Key { return f.k }

type fakeVerifier struct {
	k      key.Key
	strict bool
	seen   *[][]byte
}

func (f fakeVerifier) Verify(data, sig []byte) error {
	if f.seen != nil {
		*f.seen = append(*f.seen, append([]byte{}, data...))
	}
	if f.strict && !hmac.Equal(fakeSig(data), sig) {
		return errors.New("fake: invalid signature")
	}
	return nil
}
func (f fakeVerifier) Key() key.Key { return f.k }

type fakeMACer struct {
	k      key.Key
	strict bool
	seen   *[][]byte
}

func (f fakeMACer) MACCreate(data []byte) ([]byte, error) {
	if f.seen != nil {
		*f.seen = append(*f.seen, append([]byte{}, data...))
	}
	return fakeSig(data)[:16], nil
}
func (f fakeMACer) MACVerify(data, mac []byte) error {
	if f.seen != nil {
		*f.seen = append(*f.seen, append([]byte{}, data...))
	}
	if f.strict && !hmac.Equal(fakeSig(data)[:16], mac) {
		return errors.New("fake: invalid mac")
	}
	return nil
}
func (f fakeMACer) Key() key.Key { return f.k }

// fakeEncryptor: ciphertext = plaintext XOR pad || tag16 where tag = HMAC(nonce || aad || plaintext)
type fakeEncryptor struct {
	k      key.Key
	nsize  int
	strict bool
	nonces *[][]byte
	aads   *[][]byte
}

func (f fakeEncryptor) tag(nonce, pt, aad []byte) []byte {
	m := hmac.New(sha256.New, []byte("verif-fake-aead-key"))
	m.Write([]byte{byte(len(nonce))})
	m.Write(nonce)
	m.Write([]byte{byte(len(aad) >> 8), byte(len(aad))})
	m.Write(aad)
	m.Write(pt)
	return m.Sum(nil)[:16]
}
func (f fakeEncryptor) Encrypt(nonce, plaintext, additionalData []byte) ([]byte, error) {
	if f.nonces != nil {
		*f.nonces = append(*f.nonces, append([]byte{}, nonce...))
		*f.aads = append(*f.aads, append([]byte{}, additionalData...))
	}
	out := make([]byte, 0, len(plaintext)+16)
	for _, b := range plaintext {
		out = append(out, b^0x5a)
	}
	return append(out, f.tag(nonce, plaintext, additionalData)...), nil
}
func (f fakeEncryptor) Decrypt(nonce, ciphertext, additionalData []byte) ([]byte, error) {
	if f.nonces != nil {
		*f.nonces = append(*f.nonces, append([]byte{}, nonce...))
		*f.aads = append(*f.aads, append([]byte{}, additionalData...))
	}
	if len(ciphertext) < 16 {
		if f.strict {
			return nil, errors.New("fake: ciphertext too short")
		}
		return []byte{}, nil
	}
	pt := make([]byte, 0, len(ciphertext)-16)
	for _, b := range ciphertext[:len(ciphertext)-16] {
		pt = append(pt, b^0x5a)
	}
	if f.strict && !hmac.Equal(f.tag(nonce, pt, additionalData), ciphertext[len(ciphertext)-16:]) {
		return nil, errors.New("fake: authentication failed")
	}
	return pt, nil
}
func (f fakeEncryptor) NonceSize() int { return f.nsize }
func (f fakeEncryptor) Key() key.Key   { return f.k }
