package main

import (
	"bytes"
	"encoding/hex"
	"encoding/json"
	"fmt"
	"os"
	"path/filepath"
	"strings"
)

// splitmix64: every random choice of a run derives from one state.
type rng struct{ s uint64 }

func (r *rng) next() uint64 {
	r.s += 0x9e3779b97f4a7c15
	z := r.s
	z = (z ^ (z >> 30)) * 0xbf58476d1ce4e5b9
	z = (z ^ (z >> 27)) * 0x94d049bb133111eb
	return z ^ (z >> 31)
}
func (r *rng) intn(n int) int {
	if n <= 0 {
		return 0
	}
	return int(r.next() % uint64(n))
}
func (r *rng) bool() bool { return r.next()&1 == 1 }
func (r *rng) bytes(n int) []byte {
	b := make([]byte, n)
	for i := range b {
		b[i] = byte(r.next())
	}
	return b
}
func pick[T any](r *rng, xs []T) T { return xs[r.intn(len(xs))] }

type failure struct {
	Op       string `json:"op"`
	What     string `json:"what"`
	Input    any    `json:"input"`
	Observed string `json:"observed"`
	Expected string `json:"expected"`
	Case     string `json:"case,omitempty"`
	Theorem  string `json:"theorem,omitempty"`
}

type caseFile struct {
	name    string
	imports string
	ctype   string
	check   string
	terms   []string
	lines   []string
}

type ctx struct {
	name      string
	r         *rng
	seed      uint64
	tier      string
	out       string
	files     []*caseFile
	cur       *caseFile
	shard     int
	failures  []failure
	evals     int
	distinct  map[string]bool
	dist      map[string]int
	samples   []any
	maxCases  int
	failKinds map[string]int
}

func newCtx(name string, seed uint64, tier, out string) *ctx {
	return &ctx{name: name, r: &rng{s: seed*0x2545F4914F6CDD1D + 0x1234567}, seed: seed, tier: tier, out: out,
		distinct: map[string]bool{}, dist: map[string]int{}, maxCases: 600}
}

func (c *ctx) thorough() bool { return c.tier == "thorough" }

// n picks the case count for the tier.
func (c *ctx) n(quick, thorough int) int {
	if c.thorough() {
		return thorough
	}
	return quick
}

// beginCases starts a group of correspondence cases of one Coq type.
func (c *ctx) beginCases(imports, ctype, check string) {
	c.cur = &caseFile{imports: imports, ctype: ctype, check: check}
	c.cur.name = fmt.Sprintf("%s_%d_cases.v", c.name, len(c.files))
	c.files = append(c.files, c.cur)
}

func (c *ctx) addCase(term, line string) {
	if len(c.cur.terms) >= c.maxCases {
		c.beginCases(c.cur.imports, c.cur.ctype, c.cur.check)
	}
	if hexSub != nil && hexSubDef != "" && strings.Contains(term, hexSubTerm) {
		term = "(let " + hexSubTerm + " := " + hexSubDef + " in " + term + ")"
	}
	c.cur.terms = append(c.cur.terms, term)
	c.cur.lines = append(c.cur.lines, line)
	c.evals++
}

func (c *ctx) eval()              { c.evals++ }
func (c *ctx) count(key string)   { c.dist[key]++ }
func (c *ctx) nontriv(key string) { c.distinct[key] = true }
func (c *ctx) sample(v any) {
	if len(c.samples) < 8 {
		c.samples = append(c.samples, v)
	}
}

// fail records an oracle failure: at most 4 per (operation, what) so that one recurring failure (a known finding, say)
// cannot crowd out a different one, 200 in all.
func (c *ctx) fail(f failure) {
	if c.failKinds == nil {
		c.failKinds = map[string]int{}
	}
	k := f.Op + "|" + f.What
	c.failKinds[k]++
	if c.failKinds[k] <= 4 && len(c.failures) < 200 {
		c.failures = append(c.failures, f)
	}
}

func (c *ctx) finish() {
	os.MkdirAll(c.out, 0o755)
	var names []string
	cases := map[string][]string{}
	for _, f := range c.files {
		if len(f.terms) == 0 {
			continue
		}
		var b strings.Builder
		b.WriteString("(* written by the harness: observed outcomes of the implementation; the model is evaluated on the same inputs *)\n")
		b.WriteString("From Coq Require Import List ZArith NArith String Bool.\nFrom Cose Require Import Lib.Base Lib.Corr.\n")
		b.WriteString(f.imports + "\nImport ListNotations.\nOpen Scope Z_scope.\nOpen Scope string_scope.\n")
		fmt.Fprintf(&b, "Definition cases : list (%s) := [\n  %s\n].\n", f.ctype, strings.Join(f.terms, ";\n  "))
		fmt.Fprintf(&b, "Definition MISMATCHES := Eval vm_compute in mismatch_idx (%s) cases.\nPrint MISMATCHES.\n", f.check)
		if err := os.WriteFile(filepath.Join(c.out, f.name), []byte(b.String()), 0o644); err != nil {
			fmt.Println("harness:", err)
			os.Exit(1)
		}
		names = append(names, f.name)
		cases[f.name] = f.lines
	}
	rule := "seeded generation (splitmix64); distinct_nontrivial counts distinct (operation, input-class, outcome-class) keys recorded by the stream"
	meta := map[string]any{
		"stream": c.name, "seed": c.seed, "tier": c.tier, "evaluations": c.evals, "distinct_nontrivial": len(c.distinct),
		"distribution": c.dist, "samples": c.samples, "failures": c.failures, "case_files": names, "cases": cases, "rule": rule,
	}
	if c.failures == nil {
		meta["failures"] = []failure{}
	}
	b, _ := json.MarshalIndent(meta, "", " ")
	if err := os.WriteFile(filepath.Join(c.out, c.name+".json"), b, 0o644); err != nil {
		fmt.Println("harness:", err)
		os.Exit(1)
	}
	fmt.Printf("stream %s: %d evaluations, %d distinct, %d oracle failures, %d case files\n", c.name, c.evals, len(c.distinct), len(c.failures), len(names))
}

// ---- Coq term emitters

func qZ(v int64) string {
	if v < 0 {
		return fmt.Sprintf("(%d)", v)
	}
	return fmt.Sprintf("%d", v)
}
func qU(v uint64) string { return fmt.Sprintf("%d", v) }
func qB(b bool) string {
	if b {
		return "true"
	}
	return "false"
}

// qHex renders a byte string as (hex "...").
// hexSub, when set, is a long byte string known to Coq by a short term (hexSubTerm): occurrences inside other
// byte strings are written as that term, which keeps case files with large payloads small.
var hexSub []byte
var hexSubTerm string
var hexSubDef string // when hexSubTerm is a name: its definition, bound once around the whole case term

func qHex(b []byte) string {
	if len(hexSub) >= 64 && len(b) >= len(hexSub) {
		if i := bytes.Index(b, hexSub); i >= 0 {
			if len(b) == len(hexSub) {
				return hexSubTerm
			}
			return "(" + qHex(b[:i]) + " ++ " + hexSubTerm + " ++ " + qHex(b[i+len(hexSub):]) + ")%list"
		}
	}
	if len(hexSub) >= 2048 && len(b) >= 2048 {
		// a damaged copy: name the intact eighths of the long string by slices of its generator term
		n := len(hexSub) / 8
		var parts []string
		rest := b
		found := false
		for len(rest) > 0 {
			best, bi := -1, -1
			for i := 0; i < 8; i++ {
				if j := bytes.Index(rest, hexSub[i*n:(i+1)*n]); j >= 0 && (best < 0 || j < best) {
					best, bi = j, i
				}
			}
			if best < 0 {
				break
			}
			found = true
			if best > 0 {
				parts = append(parts, qHexPlain(rest[:best]))
			}
			parts = append(parts, fmt.Sprintf("(seg %s %d %d)", hexSubTerm, bi*n, n))
			rest = rest[best+n:]
		}
		if found {
			if len(rest) > 0 {
				parts = append(parts, qHexPlain(rest))
			}
			return "(" + strings.Join(parts, " ++ ") + ")%list"
		}
	}
	return qHexPlain(b)
}

func qHexPlain(b []byte) string {
	if len(b) <= 512 {
		return `(hex "` + hex.EncodeToString(b) + `")`
	}
	// a long literal would nest tens of thousands of String constructors: split it
	var parts []string
	for i := 0; i < len(b); i += 512 {
		j := i + 512
		if j > len(b) {
			j = len(b)
		}
		parts = append(parts, `"`+hex.EncodeToString(b[i:j])+`"`)
	}
	return "(hexs [" + strings.Join(parts, "; ") + "])"
}

// qOptHex renders nil vs non-nil byte slices.
func qOptHex(b []byte) string {
	if b == nil {
		return "None"
	}
	return "(Some " + qHex(b) + ")"
}
func qStr(s string) string { return qHex([]byte(s)) }
func qList(xs []string) string {
	return "[" + strings.Join(xs, "; ") + "]"
}
func qOpt(present bool, v string) string {
	if !present {
		return "None"
	}
	return "(Some " + v + ")"
}

func hx(b []byte) string { return hex.EncodeToString(b) }

// catch runs f and reports whether it panicked.
func catch(f func()) (panicked bool, msg string) {
	defer func() {
		if r := recover(); r != nil {
			panicked = true
			msg = fmt.Sprint(r)
		}
	}()
	f()
	return
}

func replayCase(line string) int {
	fmt.Println("replay:", line)
	parts := strings.SplitN(line, "|", 2)
	if fn, ok := replayers[parts[0]]; ok {
		return fn(line)
	}
	fmt.Println("no replayer for", parts[0])
	return 2
}

var replayers = map[string]func(string) int{}

func (r *rng) shuffleItems(m [][2]*citem) {
	for i := len(m) - 1; i > 0; i-- {
		j := r.intn(i + 1)
		m[i], m[j] = m[j], m[i]
	}
}
