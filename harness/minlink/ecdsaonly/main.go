// A program that links ONLY key/ecdsa: ES256/384/512 signing must work (SHA-2 linked by the library itself).
package main

import (
	"fmt"

	"github.com/ldclabs/cose/iana"
	"github.com/ldclabs/cose/key/ecdsa"
)

func main() {
	bad := 0
	for _, alg := range []int{iana.AlgorithmES256, iana.AlgorithmES384, iana.AlgorithmES512} {
		func() {
			defer func() {
				if r := recover(); r != nil {
					fmt.Printf("FAIL ecdsa-only alg=%d panic: %v\n", alg, r)
					bad++
				}
			}()
			k, err := ecdsa.GenerateKey(alg)
			if err != nil {
				fmt.Printf("FAIL ecdsa-only alg=%d GenerateKey: %v\n", alg, err)
				bad++
				return
			}
			s, err := k.Signer()
			if err != nil {
				fmt.Printf("FAIL ecdsa-only alg=%d Signer: %v\n", alg, err)
				bad++
				return
			}
			sig, err := s.Sign([]byte("x"))
			if err != nil {
				fmt.Printf("FAIL ecdsa-only alg=%d Sign: %v\n", alg, err)
				bad++
				return
			}
			v, err := k.Verifier()
			if err != nil || v.Verify([]byte("x"), sig) != nil {
				fmt.Printf("FAIL ecdsa-only alg=%d Verify: %v\n", alg, err)
				bad++
			}
		}()
	}
	if bad == 0 {
		fmt.Println("OK")
	}
}
