// A program that links ONLY key/hmac (plus key and iana): the implementation obtained must still realise
// its algorithm (no "hash function unavailable" panic). Prints one line per finding, "OK" otherwise.
package main

import (
	"fmt"

	"github.com/ldclabs/cose/iana"
	"github.com/ldclabs/cose/key"
	"github.com/ldclabs/cose/key/hmac"
)

func main() {
	bad := 0
	for _, alg := range []int{iana.AlgorithmHMAC_256_64, iana.AlgorithmHMAC_256_256, iana.AlgorithmHMAC_384_384, iana.AlgorithmHMAC_512_512} {
		size := map[int]int{4: 32, 5: 32, 6: 48, 7: 64}[alg]
		k, err := hmac.KeyFrom(alg, make([]byte, size))
		if err != nil {
			fmt.Printf("FAIL hmac-only alg=%d KeyFrom: %v\n", alg, err)
			bad++
			continue
		}
		func() {
			defer func() {
				if r := recover(); r != nil {
					fmt.Printf("FAIL hmac-only alg=%d panic: %v\n", alg, r)
					bad++
				}
			}()
			var m key.MACer
			m, err = k.MACer()
			if err != nil {
				fmt.Printf("FAIL hmac-only alg=%d MACer: %v\n", alg, err)
				bad++
				return
			}
			tag, err := m.MACCreate([]byte("x"))
			if err != nil || len(tag) == 0 {
				fmt.Printf("FAIL hmac-only alg=%d MACCreate: %v\n", alg, err)
				bad++
			}
		}()
	}
	if bad == 0 {
		fmt.Println("OK")
	}
}
