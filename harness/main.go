// Correspondence and property-directed harness for ldclabs/cose.
// Each stream drives the real library on seeded inputs and writes
//
//	<out>/<stream>.json      statistics, samples, oracle failures, case lines
//	<out>/<stream>_N_cases.v the observed outcomes as a Coq file that evaluates
//	                         the model on the same inputs (correspondence).
package main

import (
	"flag"
	"fmt"
	"os"
	"sort"
)

type streamFn func(c *ctx)

var streams = map[string]streamFn{}

func main() {
	if len(os.Args) < 2 {
		var ns []string
		for n := range streams {
			ns = append(ns, n)
		}
		sort.Strings(ns)
		fmt.Println("usage: harness <stream> -seed N -tier quick|thorough -out DIR; streams:", ns)
		os.Exit(2)
	}
	name := os.Args[1]
	fs := flag.NewFlagSet(name, flag.ExitOnError)
	seed := fs.Uint64("seed", 1, "PRNG seed")
	tier := fs.String("tier", "quick", "quick|thorough")
	out := fs.String("out", ".", "output directory")
	cas := fs.String("case", "", "case line to replay")
	fs.Parse(os.Args[2:])
	if name == "replay" {
		os.Exit(replayCase(*cas))
	}
	fn, ok := streams[name]
	if !ok {
		fmt.Println("unknown stream", name)
		os.Exit(2)
	}
	c := newCtx(name, *seed, *tier, *out)
	fn(c)
	c.finish()
}
