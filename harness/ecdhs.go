package main

import (
	"bytes"
	goecdh "crypto/ecdh"
	"crypto/elliptic"
	"fmt"
	"math/big"
	"reflect"
	"strings"

	"github.com/ldclabs/cose/iana"
	"github.com/ldclabs/cose/key"
	"github.com/ldclabs/cose/key/ecdh"
)

func init() { streams["ecdh"] = streamEcdh }

// Textbook affine arithmetic on math/big: the independent computation the library's shared secrets are compared with.
type wcurve struct {
	p, a, b, gx, gy, n *big.Int
	size               int
}

func wcurveOf(c elliptic.Curve) wcurve {
	pr := c.Params()
	return wcurve{p: pr.P, a: big.NewInt(-3), b: pr.B, gx: pr.Gx, gy: pr.Gy, n: pr.N, size: (pr.BitSize + 7) / 8}
}

func (w wcurve) add(x1, y1, x2, y2 *big.Int) (*big.Int, *big.Int) { // nil = infinity
	if x1 == nil {
		return x2, y2
	}
	if x2 == nil {
		return x1, y1
	}
	var l *big.Int
	if x1.Cmp(x2) == 0 {
		s := new(big.Int).Add(y1, y2)
		if s.Mod(s, w.p).Sign() == 0 {
			return nil, nil
		}
		num := new(big.Int).Mul(x1, x1)
		num.Mul(num, big.NewInt(3)).Add(num, w.a)
		den := new(big.Int).Lsh(y1, 1)
		l = num.Mul(num, den.ModInverse(den, w.p))
	} else {
		num := new(big.Int).Sub(y2, y1)
		den := new(big.Int).Sub(x2, x1)
		den.Mod(den, w.p)
		l = num.Mul(num, den.ModInverse(den, w.p))
	}
	l.Mod(l, w.p)
	x3 := new(big.Int).Mul(l, l)
	x3.Sub(x3, x1).Sub(x3, x2).Mod(x3, w.p)
	y3 := new(big.Int).Sub(x1, x3)
	y3.Mul(y3, l).Sub(y3, y1).Mod(y3, w.p)
	return x3, y3
}

func (w wcurve) mul(k, x, y *big.Int) (*big.Int, *big.Int) {
	var rx, ry *big.Int
	for i := k.BitLen() - 1; i >= 0; i-- {
		rx, ry = w.add(rx, ry, rx, ry)
		if k.Bit(i) == 1 {
			rx, ry = w.add(rx, ry, x, y)
		}
	}
	return rx, ry
}

func (w wcurve) onCurve(x, y *big.Int) bool {
	if x.Sign() < 0 || y.Sign() < 0 || x.Cmp(w.p) >= 0 || y.Cmp(w.p) >= 0 {
		return false
	}
	l := new(big.Int).Mul(y, y)
	l.Mod(l, w.p)
	r := new(big.Int).Mul(x, x)
	r.Mul(r, x).Add(r, new(big.Int).Mul(w.a, x)).Add(r, w.b).Mod(r, w.p)
	return l.Cmp(r) == 0
}

// x25519 by the RFC 7748 ladder on math/big
func x25519Ref(k, u []byte) []byte {
	p := new(big.Int).Sub(new(big.Int).Lsh(big.NewInt(1), 255), big.NewInt(19))
	le := func(b []byte) *big.Int {
		r := make([]byte, len(b))
		for i := range b {
			r[len(b)-1-i] = b[i]
		}
		return new(big.Int).SetBytes(r)
	}
	kk := append([]byte{}, k...)
	kk[0] &= 248
	kk[31] &= 127
	kk[31] |= 64
	uu := append([]byte{}, u...)
	uu[31] &= 127
	kz, x1 := le(kk), le(uu)
	x1.Mod(x1, p)
	x2, z2, x3, z3 := big.NewInt(1), big.NewInt(0), new(big.Int).Set(x1), big.NewInt(1)
	swap := uint(0)
	m := func(a, b *big.Int) *big.Int { r := new(big.Int).Mul(a, b); return r.Mod(r, p) }
	ad := func(a, b *big.Int) *big.Int { r := new(big.Int).Add(a, b); return r.Mod(r, p) }
	sb := func(a, b *big.Int) *big.Int { r := new(big.Int).Sub(a, b); return r.Mod(r, p) }
	for t := 254; t >= 0; t-- {
		kt := kz.Bit(t)
		swap ^= kt
		if swap == 1 {
			x2, x3 = x3, x2
			z2, z3 = z3, z2
		}
		swap = kt
		A := ad(x2, z2)
		AA := m(A, A)
		B := sb(x2, z2)
		BB := m(B, B)
		E := sb(AA, BB)
		C := ad(x3, z3)
		D := sb(x3, z3)
		DA := m(D, A)
		CB := m(C, B)
		x3 = m(ad(DA, CB), ad(DA, CB))
		z3 = m(x1, m(sb(DA, CB), sb(DA, CB)))
		x2 = m(AA, BB)
		z2 = m(E, ad(AA, m(big.NewInt(121665), E)))
	}
	if swap == 1 {
		x2, x3 = x3, x2
		z2, z3 = z3, z2
	}
	r := m(x2, new(big.Int).Exp(z2, new(big.Int).Sub(p, big.NewInt(2)), p))
	out := make([]byte, 32)
	rb := r.FillBytes(make([]byte, 32))
	for i := range rb {
		out[31-i] = rb[i]
	}
	return out
}

type dhCurve struct {
	crv   int
	curve goecdh.Curve
	ell   elliptic.Curve
	size  int
}

var dhCurves = []dhCurve{{1, goecdh.P256(), elliptic.P256(), 32}, {2, goecdh.P384(), elliptic.P384(), 48}, {3, goecdh.P521(), elliptic.P521(), 66}, {4, goecdh.X25519(), nil, 32}}

func stripZeros(b []byte) []byte {
	for len(b) > 1 && b[0] == 0 {
		b = b[1:]
	}
	return b
}

func streamEcdh(c *ctx) {
	c.beginCases("From Cose Require Import Model.GoVal Model.Key Model.Ecdh.", "ecdh_case", "check_ecdh_case")
	c.maxCases = 80
	fail := func(op, what, in string, obs, exp any) {
		c.fail(failure{Op: op, What: what, Input: short(in), Observed: short(fmt.Sprint(obs)), Expected: short(fmt.Sprint(exp)), Case: short(in)})
	}
	remoteCases := 0
	remotePoint := func(k key.Key, tag string) {
		var pub *goecdh.PublicKey
		var err error
		p, pm := catch(func() { pub, err = ecdh.KeyToPublic(k) })
		if p {
			fail("ecdh-remote", "KeyToPublic panics", describe(k), pm, "a key or an error")
			return
		}
		c.count(fmt.Sprintf("remote %s ok=%v", tag, err == nil))
		c.nontriv(fmt.Sprintf("remote|%s|%v", tag, err == nil))
		if remoteCases > c.n(220, 4000) {
			return
		}
		// compressed P-521 points cost the model a 521-bit square root: keep a few
		if _, isBool := k[iana.EC2KeyParameterY].(bool); isBool {
			crv, _ := k.GetInt(iana.EC2KeyParameterCrv)
			if (crv == 3 && c.r.intn(8) != 0) || (crv == 2 && c.r.intn(3) != 0) || (!c.thorough() && c.r.intn(3) != 0) {
				return
			}
		}
		remoteCases++
		t := "None"
		if err == nil {
			crv, _ := k.GetInt(iana.EC2KeyParameterCrv)
			t = fmt.Sprintf("(Some (%d, %s))", crv, qHex(pub.Bytes()))
		}
		c.addCase(fmt.Sprintf("RemotePoint %s %s", qMap(k), t), short(fmt.Sprintf("KeyToPublic|%s|%s => err=%v", tag, describe(k), err)))
	}
	rounds := c.n(10, 150)
	for round := 0; round < rounds; round++ {
		for _, dc := range dhCurves {
			mk := func() (key.Key, *goecdh.PrivateKey) {
				var priv *goecdh.PrivateKey
				for t := 0; t < 400; t++ {
					sc := c.r.bytes(dc.size)
					if dc.crv == 3 {
						sc[0] &= 1 // P-521 scalars are below 2^521
					}
					priv, _ = dc.curve.NewPrivateKey(sc)
					if priv == nil {
						continue
					}
					// every third key: search for a coordinate with a leading zero byte
					if round%3 != 0 || dc.ell == nil || priv.PublicKey().Bytes()[1] == 0 || priv.PublicKey().Bytes()[1+dc.size] == 0 {
						break
					}
				}
				k, _ := ecdh.KeyFromPrivate(priv)
				k[iana.KeyParameterKid] = []byte("kid-shared-by-all-keys")
				return k, priv
			}
			ka, pa := mk()
			kb, pb := mk()
			line := fmt.Sprintf("ecdh|crv=%d|a=%x|b=%x", dc.crv, pa.Bytes(), pb.Bytes())
			ea, err1 := ecdh.NewECDHer(ka)
			eb, err2 := ecdh.NewECDHer(kb)
			if err1 != nil || err2 != nil {
				fail("ecdh-key", "NewECDHer refused a key built from a valid private key", line, fmt.Sprint(err1, err2), "an ECDHer")
				continue
			}
			// the accepted encodings of each public key
			forms := func(k key.Key) map[string]key.Key {
				out := map[string]key.Key{}
				pk, err := ecdh.ToPublicKey(k)
				if err != nil {
					fail("ecdh-key", "ToPublicKey failed on a valid private key", line, err, "a public key")
					return out
				}
				out["uncompressed"] = pk
				if dc.ell == nil {
					return out
				}
				if ck, err := ecdh.ToCompressedKey(pk); err == nil {
					out["compressed"] = ck
					x, _ := ck.GetBytes(iana.EC2KeyParameterX)
					if len(stripZeros(x)) < len(x) {
						sk := cloneKey(ck)
						sk[iana.EC2KeyParameterX] = stripZeros(x)
						out["compressed-stripped"] = sk
					}
				} else {
					fail("ecdh-key", "ToCompressedKey failed on a valid public key", line, err, "a compressed key")
				}
				x, _ := pk.GetBytes(iana.EC2KeyParameterX)
				y, _ := pk.GetBytes(iana.EC2KeyParameterY)
				if len(x) != dc.size || len(y) != dc.size {
					fail("ecdh-key", "emitted EC2 coordinates are not of the fixed field size", line, fmt.Sprint(len(x), len(y)), dc.size)
				}
				if len(stripZeros(x)) < len(x) || len(stripZeros(y)) < len(y) {
					sk := cloneKey(pk)
					sk[iana.EC2KeyParameterX] = stripZeros(x)
					sk[iana.EC2KeyParameterY] = stripZeros(y)
					out["stripped"] = sk
				}
				if b, err := key.MarshalCBOR(pk); err == nil {
					var pk2 key.Key
					if key.UnmarshalCBOR(b, &pk2) == nil {
						out["exported"] = pk2
					}
				}
				// the same forms with the optional alg member naming a key-agreement algorithm (a peer may well send it)
				for _, base := range []string{"uncompressed", "compressed"} {
					if b, ok := out[base]; ok {
						wa := cloneKey(b)
						wa[iana.KeyParameterAlg] = pick(c.r, []int{iana.AlgorithmECDH_ES_HKDF_256, iana.AlgorithmECDH_SS_HKDF_256, iana.AlgorithmECDH_ES_A128KW})
						if ecdh.CheckKey(wa) == nil {
							out[base+"+alg"] = wa
						}
					}
				}
				return out
			}
			fa, fb := forms(ka), forms(kb)
			// the independent computation
			var want []byte
			if dc.ell != nil {
				w := wcurveOf(dc.ell)
				bx, by := w.mul(new(big.Int).SetBytes(pb.Bytes()), w.gx, w.gy)
				sx, _ := w.mul(new(big.Int).SetBytes(pa.Bytes()), bx, by)
				want = sx.FillBytes(make([]byte, dc.size))
			} else {
				want = x25519Ref(pa.Bytes(), x25519Ref(pb.Bytes(), append([]byte{9}, make([]byte, 31)...)))
			}
			for na, pka := range fa {
				for nb, pkb := range fb {
					var s1, s2 []byte
					var e1, e2 error
					if p, pm := catch(func() { s1, e1 = ea.ECDH(pkb); s2, e2 = eb.ECDH(pka) }); p {
						fail("ecdh-agree", "ECDH panics on a valid remote key", line+"|"+na+"/"+nb+"|"+describe(pka)+"|"+describe(pkb), pm, "a secret")
						continue
					}
					c.eval()
					c.nontriv(fmt.Sprintf("agree|%d|%s|%s", dc.crv, na, nb))
					if e1 != nil || e2 != nil || !bytes.Equal(s1, s2) || !bytes.Equal(s1, want) {
						fail("ecdh-agree", "the two sides do not compute the independent shared secret", line+"|"+na+"/"+nb, fmt.Sprintf("%x %x %v %v", s1, s2, e1, e2), fmt.Sprintf("%x", want))
					}
				}
			}
			for name, pk := range fa {
				remotePoint(pk, name)
			}
			// ---- invalid remote keys
			bad := func(r key.Key, what string) {
				var s []byte
				var err error
				p, pm := catch(func() { s, err = ea.ECDH(r) })
				c.eval()
				c.count("invalid remote " + what)
				if p {
					fail("ecdh-invalid", "ECDH panics on an invalid remote key ("+what+")", line+"|"+describe(r), pm, "an error")
				} else if err == nil {
					fail("ecdh-invalid", "ECDH returned a secret for an invalid remote key ("+what+")", line+"|"+describe(r), fmt.Sprintf("%x", s), "an error")
				}
				if !strings.HasPrefix(what, "private") { // KeyToPublic derives the public key of a private key; ECDH refuses it before
					remotePoint(r, "invalid-"+what)
				}
			}
			bad(kb, "private")
			// a private key that also carries its public coordinates (as RFC 9053 recommends for private keys), in every
			// public form: still a private key, still refused
			for name, pk := range fb {
				if pk == nil {
					continue
				}
				kp := cloneKey(kb)
				for _, l := range []int{iana.EC2KeyParameterX, iana.EC2KeyParameterY} {
					if v, ok := pk[l]; ok {
						kp[l] = v
					}
				}
				bad(kp, "private-with-coordinates-"+name)
			}
			// the public key derived from a private key that carries public coordinates: its own (in every form) or, wrongly,
			// those of another key. The derived key denotes d.G or the conversion is refused; it never denotes the embedded point.
			if own := fa["uncompressed"]; own != nil {
				ox, _ := own.GetBytes(iana.EC2KeyParameterX)
				for _, src := range []struct {
					who string
					fs  map[string]key.Key
				}{{"own", fa}, {"foreign", fb}} {
					for name, pk := range src.fs {
						kp := cloneKey(ka)
						for _, l := range []int{iana.EC2KeyParameterX, iana.EC2KeyParameterY} {
							if v, ok := pk[l]; ok {
								kp[l] = v
							}
						}
						var dk key.Key
						var err error
						if p, pm := catch(func() { dk, err = ecdh.ToPublicKey(kp) }); p {
							fail("ecdh-key", "ToPublicKey panics on a private key carrying "+src.who+" public coordinates ("+name+")", line+"|"+describe(kp), pm, "a key or an error")
							continue
						}
						c.eval()
						c.nontriv(fmt.Sprintf("topublic-embedded|%d|%s|%s|%v", dc.crv, src.who, name, err == nil))
						if err != nil {
							if src.who == "own" {
								fail("ecdh-key", "ToPublicKey refused a private key carrying its own public coordinates ("+name+")", line+"|"+describe(kp), err, "the public key")
							}
							continue
						}
						dx, _ := dk.GetBytes(iana.EC2KeyParameterX)
						if !bytes.Equal(dx, ox) || dk.Has(iana.EC2KeyParameterD) {
							fail("ecdh-key", "the public key derived from a private key carrying "+src.who+" public coordinates ("+name+") is not the key of its private scalar", line+"|"+describe(kp), describe(dk), describe(own))
							continue
						}
						if oy, ok := own[iana.EC2KeyParameterY]; ok && !reflect.DeepEqual(dk[iana.EC2KeyParameterY], oy) {
							fail("ecdh-key", "the public key derived from a private key carrying "+src.who+" public coordinates ("+name+") is not the key of its private scalar", line+"|"+describe(kp), describe(dk), describe(own))
						}
					}
				}
			}
			other := dhCurves[(dc.crv)%4] // the next curve
			if ko, err := ecdh.GenerateKey(other.crv); err == nil {
				if pko, err := ecdh.ToPublicKey(ko); err == nil {
					bad(pko, "other-curve")
				}
			}
			// every other EC2 curve, several keys, in compressed form too (a compressed x may well be an abscissa of the
			// local curve) and with the leading zero octets of x removed
			for _, oc := range dhCurves {
				if oc.crv == dc.crv || oc.ell == nil {
					continue
				}
				for t := 0; t < 4; t++ {
					ko, err := ecdh.GenerateKey(oc.crv)
					if err != nil {
						continue
					}
					pko, err := ecdh.ToPublicKey(ko)
					if err != nil {
						continue
					}
					if cko, err := ecdh.ToCompressedKey(pko); err == nil {
						bad(cko, "other-curve-compressed")
						if x, _ := cko.GetBytes(iana.EC2KeyParameterX); len(stripZeros(x)) < len(x) {
							sk := cloneKey(cko)
							sk[iana.EC2KeyParameterX] = stripZeros(x)
							bad(sk, "other-curve-compressed-stripped")
						}
					}
				}
			}
			pkb := fb["uncompressed"]
			if pkb == nil {
				continue
			}
			if dc.ell != nil {
				x, _ := pkb.GetBytes(iana.EC2KeyParameterX)
				y, _ := pkb.GetBytes(iana.EC2KeyParameterY)
				off := cloneKey(pkb)
				y2 := append([]byte{}, y...)
				y2[len(y2)-1] ^= 1
				off[iana.EC2KeyParameterY] = y2
				bad(off, "off-curve-y")
				// the same x, a y of the same parity that is not on the curve, right after the genuine key was used
				ea.ECDH(pkb)
				off2 := key.Key{iana.KeyParameterKty: 2, iana.EC2KeyParameterCrv: dc.crv, iana.EC2KeyParameterX: x}
				y3b := append([]byte{}, y...)
				y3b[len(y3b)-1] ^= 2
				off2[iana.EC2KeyParameterY] = y3b
				bad(off2, "off-curve-y-same-parity")
				// a compressed x that is not the abscissa of a point
				w := wcurveOf(dc.ell)
				for t := 0; t < 50; t++ {
					xb := c.r.bytes(dc.size)
					xb[0] = 0
					xi := new(big.Int).SetBytes(xb)
					rhs := new(big.Int).Mul(xi, xi)
					rhs.Mul(rhs, xi).Add(rhs, new(big.Int).Mul(w.a, xi)).Add(rhs, w.b).Mod(rhs, w.p)
					if big.Jacobi(rhs, w.p) == -1 {
						nk := key.Key{iana.KeyParameterKty: 2, iana.EC2KeyParameterCrv: dc.crv, iana.EC2KeyParameterX: xb, iana.EC2KeyParameterY: c.r.bool()}
						bad(nk, "compressed-non-residue")
						break
					}
				}
				tooLong := cloneKey(pkb)
				tooLong[iana.EC2KeyParameterX] = append([]byte{0}, x...)
				bad(tooLong, "x-too-long")
				noY := cloneKey(pkb)
				delete(noY, iana.EC2KeyParameterY)
				bad(noY, "y-missing")
				yText := cloneKey(pkb)
				yText[iana.EC2KeyParameterY] = "y"
				bad(yText, "y-text")
				big1 := cloneKey(pkb)
				big1[iana.EC2KeyParameterX] = bytes.Repeat([]byte{0xff}, dc.size)
				bad(big1, "x-not-below-p")
				// on-curve decisions and decompression for the model's arithmetic
				xi, yi := new(big.Int).SetBytes(x), new(big.Int).SetBytes(y)
				c.addCase(fmt.Sprintf("OnCurve %d %s %s %s", dc.crv, xi, yi, qB(dc.ell.IsOnCurve(xi, yi))), "on-curve")
				y3 := new(big.Int).Add(yi, big.NewInt(1))
				c.addCase(fmt.Sprintf("OnCurve %d %s %s %s", dc.crv, xi, y3, qB(w.onCurve(xi, y3))), "on-curve-off")
				if round < 2 && (dc.crv == 1 || c.thorough()) {
					cx, cy := elliptic.UnmarshalCompressed(dc.ell, append([]byte{2 + byte(yi.Bit(0))}, x...))
					if cx != nil {
						c.addCase(fmt.Sprintf("Decompress %d %s %s (Some (%s, %s))", dc.crv, xi, qB(yi.Bit(0) == 1), cx, cy), "decompress")
					}
				}
			} else {
				// X25519: low-order and non-canonical points, wrong lengths
				for _, h := range []string{"0000000000000000000000000000000000000000000000000000000000000000", "0100000000000000000000000000000000000000000000000000000000000000",
					"ecffffffffffffffffffffffffffffffffffffffffffffffffffffffffffff7f", "e0eb7a7c3b41b8ae1656e3faf19fc46ada098deb9c32b1fd866205165f49b800",
					"5f9c95bca3508c24b1d0b1559c83ef5b04445cc4581c8e86d8224eddd09f1157"} {
					nk := key.Key{iana.KeyParameterKty: 1, iana.EC2KeyParameterCrv: 4, iana.OKPKeyParameterX: key.HexBytesify(h)}
					bad(nk, "x25519-low-order")
				}
				for _, l := range []int{1, 31} {
					nk := key.Key{iana.KeyParameterKty: 1, iana.EC2KeyParameterCrv: 4, iana.OKPKeyParameterX: c.r.bytes(l)}
					bad(nk, "x25519-short")
				}
				if round == 0 && c.thorough() {
					u := pb.PublicKey().Bytes()
					c.addCase(fmt.Sprintf("X25519Case %s %s %s", qHex(pa.Bytes()), qHex(u), qHex(want)), "x25519")
				}
			}
		}
	}
}
