package main

import (
	"encoding/binary"
	"math"
)

// A small CBOR writer used to produce valid encodings in every permitted FORM (any head width, any map
// order) and the malformations C08 lists. It is independent of fxamacker.

type citem struct {
	kind  int // 0 uint 1 nint 2 bstr 3 tstr 4 arr 5 map 6 tag 7 simple 8 float
	n     uint64
	b     []byte
	l     []*citem    // array elements
	m     [][2]*citem // map entries
	v     *citem      // tag content
	ai    int         // float width 25/26/27
	width int         // forced head width: 0 shortest, 1, 2, 4, 8 bytes (only if >= shortest)
}

func minWidth(n uint64) int {
	switch {
	case n < 24:
		return 0
	case n < 1<<8:
		return 1
	case n < 1<<16:
		return 2
	case n < 1<<32:
		return 4
	}
	return 8
}

func putHead(out []byte, mt int, n uint64, width int) []byte {
	w := minWidth(n)
	if width > w {
		w = width
	}
	switch w {
	case 0:
		return append(out, byte(mt<<5)|byte(n))
	case 1:
		return append(out, byte(mt<<5)|24, byte(n))
	case 2:
		return binary.BigEndian.AppendUint16(append(out, byte(mt<<5)|25), uint16(n))
	case 4:
		return binary.BigEndian.AppendUint32(append(out, byte(mt<<5)|26), uint32(n))
	}
	return binary.BigEndian.AppendUint64(append(out, byte(mt<<5)|27), n)
}

func (c *citem) enc(out []byte) []byte {
	switch c.kind {
	case 0:
		return putHead(out, 0, c.n, c.width)
	case 1:
		return putHead(out, 1, c.n, c.width)
	case 2:
		return append(putHead(out, 2, uint64(len(c.b)), c.width), c.b...)
	case 3:
		return append(putHead(out, 3, uint64(len(c.b)), c.width), c.b...)
	case 4:
		out = putHead(out, 4, uint64(len(c.l)), c.width)
		for _, e := range c.l {
			out = e.enc(out)
		}
		return out
	case 5:
		out = putHead(out, 5, uint64(len(c.m)), c.width)
		for _, e := range c.m {
			out = e[0].enc(out)
			out = e[1].enc(out)
		}
		return out
	case 6:
		return c.v.enc(putHead(out, 6, c.n, c.width))
	case 7:
		if c.n < 24 {
			return append(out, 0xe0|byte(c.n))
		}
		return append(out, 0xf8, byte(c.n))
	default:
		switch c.ai {
		case 25:
			return binary.BigEndian.AppendUint16(append(out, 0xf9), uint16(c.n))
		case 26:
			return binary.BigEndian.AppendUint32(append(out, 0xfa), uint32(c.n))
		}
		return binary.BigEndian.AppendUint64(append(out, 0xfb), c.n)
	}
}

// coq renders the item as a term of Lib.Cbor.item
func (c *citem) coq() string {
	switch c.kind {
	case 0:
		return "(IUint " + qU(c.n) + ")"
	case 1:
		return "(INint " + qU(c.n) + ")"
	case 2:
		return "(IBstr " + qHex(c.b) + ")"
	case 3:
		return "(ITstr " + qHex(c.b) + ")"
	case 4:
		var xs []string
		for _, e := range c.l {
			xs = append(xs, e.coq())
		}
		return "(IArr " + qList(xs) + ")"
	case 5:
		var xs []string
		for _, e := range c.m {
			xs = append(xs, "("+e[0].coq()+", "+e[1].coq()+")")
		}
		return "(IMap " + qList(xs) + ")"
	case 6:
		return "(ITag " + qU(c.n) + " " + c.v.coq() + ")"
	case 7:
		return "(ISimple " + qU(c.n) + ")"
	}
	return "(IFloat " + qU(uint64(c.ai)) + " " + qU(c.n) + ")"
}

var widths = []int{0, 0, 0, 1, 2, 4, 8}

// genItem: structured, mostly-valid items; labels mix encoded lengths and signs
func genItem(c *ctx, depth int, canon bool) *citem {
	w := func() int {
		if canon {
			return 0
		}
		return pick(c.r, widths)
	}
	ints := []uint64{0, 1, 10, 23, 24, 25, 100, 255, 256, 1000, 65535, 65536, 1 << 31, 1<<32 - 1, 1 << 32, 1 << 62, 1<<63 - 1, 1 << 63, math.MaxUint64}
	k := c.r.intn(14)
	if depth <= 0 && k >= 7 && k <= 10 {
		k = c.r.intn(7)
	}
	switch k {
	case 0, 1:
		return &citem{kind: 0, n: pick(c.r, ints), width: w()}
	case 2:
		return &citem{kind: 1, n: pick(c.r, ints), width: w()}
	case 3:
		return &citem{kind: 2, b: c.r.bytes(pick(c.r, []int{0, 1, 5, 23, 24, 30})), width: w()}
	case 4:
		strs := []string{"", "a", "alg", "é", "日本", "x-y", "ÿ", "longer text string here....."}
		return &citem{kind: 3, b: []byte(pick(c.r, strs)), width: w()}
	case 5:
		return &citem{kind: 7, n: pick(c.r, []uint64{20, 21, 22, 22, 23, 0, 16, 19, 32, 100, 255})}
	case 6:
		switch c.r.intn(3) {
		case 0:
			return &citem{kind: 8, ai: 27, n: math.Float64bits(pick(c.r, []float64{0, -0.0, 1.5, -2.25, 1e300, 5e-324, math.Inf(1)}))}
		case 1:
			return &citem{kind: 8, ai: 26, n: uint64(math.Float32bits(pick(c.r, []float32{0, 1.5, -2.25, 3.4e38, 1e-45, float32(math.Inf(-1))})))}
		}
		return &citem{kind: 8, ai: 25, n: pick(c.r, []uint64{0x0000, 0x3c00, 0xc000, 0x7bff, 0x0001, 0x03ff, 0x0400, 0x7c00, 0x8000, 0x3555})}
	case 7, 8:
		n := c.r.intn(5)
		it := &citem{kind: 4, width: w()}
		for i := 0; i < n; i++ {
			it.l = append(it.l, genItem(c, depth-1, canon))
		}
		return it
	case 9, 10:
		n := c.r.intn(6)
		it := &citem{kind: 5, width: w()}
		used := map[string]bool{}
		for i := 0; i < n; i++ {
			var key *citem
			switch c.r.intn(8) {
			case 0, 1, 2:
				key = &citem{kind: 0, n: pick(c.r, []uint64{0, 1, 2, 3, 4, 5, 6, 10, 23, 24, 100, 255, 256, 1000, 65536}), width: w()}
			case 3, 4:
				key = &citem{kind: 1, n: pick(c.r, []uint64{0, 1, 2, 3, 19, 23, 24, 25, 255, 256, 65536}), width: w()}
			case 5, 6:
				key = &citem{kind: 3, b: []byte(pick(c.r, []string{"", "a", "b", "aa", "alg", "kid"})), width: w()}
			default:
				key = genItem(c, 0, canon)
			}
			id := key.coq()
			if used[id] {
				continue
			}
			used[id] = true
			it.m = append(it.m, [2]*citem{key, genItem(c, depth-1, canon)})
		}
		return it
	case 11:
		tags := []uint64{2, 3, 4, 16, 18, 21, 24, 32, 61, 98, 55799, 55799, 1 << 40}
		t := pick(c.r, tags)
		if t == 2 || t == 3 {
			return &citem{kind: 6, n: t, width: w(), v: &citem{kind: 2, b: c.r.bytes(pick(c.r, []int{0, 1, 8, 9})), width: w()}}
		}
		return &citem{kind: 6, n: t, width: w(), v: genItem(c, depth-1, canon)}
	default:
		return &citem{kind: 0, n: uint64(c.r.intn(30)), width: w()}
	}
}
